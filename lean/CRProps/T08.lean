/-
  T08 — translator tie for C08: the definitions that harness/translate/src_c08.py regenerates on every run from the CURRENT source
  of commonroad/planning/goal.py (`_check_value_in_interval`, `_harmonize_state_types`, `is_reached`) and
  commonroad/planning/planning_problem.py (`goal_reached`) into Gen.SrcC08 equal the hand-written model CRModel/Goal.lean that the
  C08 theorems are about — for ALL arguments. A source edit that changes what one of these functions computes breaks a `tie_*`
  theorem (a broken obligation, which starts the failing-input search). `Interval.contains` / `AngleInterval.contains`, which the
  goal check calls, are tied in T16; shape membership (`contains_point`) is C06's model, tied by correspondence.
-/
import Gen.SrcC08
import CRProps.C08
namespace CR.Goal
open CR.Iv

theorem tie_check_interval (x : Rat) (i : I) (τ ε : Rat) :
    Gen.GoalRegion_check_value_in_interval_I x i = checkValue τ ε x (.interval i) := by
  simp [Gen.GoalRegion_check_value_in_interval_I, checkValue, pure, Except.pure]

theorem tie_check_angle (x : Rat) (i : I) (τ ε : Rat) :
    Gen.GoalRegion_check_value_in_interval_A τ ε x i = checkValue τ ε x (.angle i) := by
  simp [Gen.GoalRegion_check_value_in_interval_A, checkValue, pure, Except.pure]

theorem tie_check_other (x d : Rat) (τ ε : Rat) :
    Gen.GoalRegion_check_value_in_interval_other x d = checkValue τ ε x .other := by
  simp [Gen.GoalRegion_check_value_in_interval_other, checkValue, throw, throwThe, MonadExceptOf.throw]

theorem tie_harmonize (F : Fns) (s : St) (g : GState) (sf gf : List Fld) :
    Gen.GoalRegion_harmonize_state_types F s g sf gf = (harmonize F s sf gf).map (fun r => (r.1, r.2, g, gf)) := by
  obtain ⟨t, pos, ori, vel, velY⟩ := s
  unfold Gen.GoalRegion_harmonize_state_types harmonize harmCond
  simp only [CR.PyG.issubset, CR.PyG.mem, CR.PyG.add, CR.PyG.remove, CR.PyG.need, CR.PyG.setNum, CR.PyG.attrsExcept,
    CR.PyG.customState, List.all_cons, List.all_nil, Bool.and_true]
  by_cases h1 : sf.contains Fld.velocity = true <;> by_cases h2 : sf.contains Fld.velocity_y = true <;>
    by_cases h3 : (gf.contains Fld.orientation || gf.contains Fld.velocity) = true <;>
    by_cases h4 : (gf.contains Fld.velocity && gf.contains Fld.velocity_y) = true <;>
    cases vel <;> cases velY <;> by_cases h5 : sf.contains Fld.orientation = true <;>
    simp_all [bind, Except.bind, pure, Except.pure, Except.map]
  all_goals (by_cases h6 : Fld.velocity ∈ gf <;> by_cases h7 : Fld.velocity_y ∈ gf <;> simp_all)

theorem andM_ok (a b : Bool) : CR.PyG.andM a (.ok b) = .ok (a && b) := by cases a <;> rfl
theorem ite_ok {α : Type} (c : Prop) [Decidable c] (a b : α) :
    (if c then (Except.ok a : Res α) else Except.ok b) = Except.ok (if c then a else b) := by split <;> rfl
theorem ite_and (a b : Bool) : (if a = true then b else false) = (a && b) := by cases a <;> rfl
theorem issubset_eq (a b : List Fld) : CR.PyG.issubset a b = subsetF a b := rfl

theorem tie_is_reached_step (F : Fns) (τ ε : Rat) (goals0 : List GState) (s : St) (acc : List Bool) (g : GState)
    (rest : List GState) :
    Gen.GoalRegion_is_reached.loop1 F τ ε goals0 s acc (g :: rest) =
      match reachedOneSteps F τ ε g s with
      | .error e => .error e
      | .ok b => Gen.GoalRegion_is_reached.loop1 F τ ε goals0 s (acc ++ [b]) rest := by
  rw [Gen.GoalRegion_is_reached.loop1]
  simp only [tie_harmonize, CR.PyG.setOf, CR.PyG.gUsedAttrs, CR.PyG.sUsedAttrs, reachedOneSteps, issubset_eq]
  cases h : harmonize F s s.usedAttrs g.usedAttrs with
  | error e => simp [bind, Except.bind, Except.map]
  | ok r =>
    obtain ⟨⟨t, pos, ori, vel, velY⟩, sf'⟩ := r
    by_cases hs : subsetF g.usedAttrs sf' = true
    · simp only [Except.map, bind, Except.bind, hs]
      obtain ⟨gt, gpos, gori, gvel⟩ := g
      cases pos <;> cases ori <;> cases vel <;> cases gpos <;> cases gori <;> cases gvel <;>
        simp [bind, Except.bind, pure, Except.pure, CR.PyG.gHasValue, CR.PyG.sHasValue,
          andM_ok, ite_ok, ite_and, CR.PyG.containsPoint, CR.PyG.need, Gen.GoalRegion_check_value_in_interval_I,
          Gen.GoalRegion_check_value_in_interval_A]
    · simp [hs, bind, Except.bind, Except.map, throw, throwThe, MonadExceptOf.throw]

theorem tie_is_reached_loop (F : Fns) (τ ε : Rat) (goals0 : List GState) (s : St) :
    ∀ (goals : List GState) (acc : List Bool),
      Gen.GoalRegion_is_reached.loop1 F τ ε goals0 s acc goals = (isReached F τ ε goals s).map (fun b => acc.any id || b)
  | [], acc => by
    rw [Gen.GoalRegion_is_reached.loop1]
    simp [isReached, Except.map, pure, Except.pure, CR.PyG.npAny]
  | g :: rest, acc => by
    rw [tie_is_reached_step, C08_reachedOneSteps_eq, isReached]
    cases h : reachedOne F τ ε g s with
    | error e => simp [Except.map]
    | ok b =>
      simp only [tie_is_reached_loop F τ ε goals0 s rest (acc ++ [b])]
      cases h2 : isReached F τ ε rest s with
      | error e => simp [Except.map]
      | ok b' => simp [Except.map, Bool.or_assoc]

/-- `GoalRegion.is_reached` as the CURRENT source has it (translated: name sets, `_harmonize_state_types`, subset test, the four
    guarded `_check_value_in_interval` / `contains_point` calls, `np.any`) is the model's `isReached`, for every goal list and state. -/
theorem tie_is_reached (F : Fns) (τ ε : Rat) (goals : List GState) (s : St) :
    Gen.GoalRegion_is_reached F τ ε goals s = isReached F τ ε goals s := by
  unfold Gen.GoalRegion_is_reached
  rw [tie_is_reached_loop]
  cases isReached F τ ε goals s <;> simp [Except.map]

theorem tie_goal_reached_loop (F : Fns) (τ ε : Rat) (goals : List GState) (traj : List St) :
    ∀ (l : List (Nat × St)),
      Gen.PlanningProblem_goal_reached.loop1 F τ ε goals traj l =
        goalReachedRev (l.map (fun x => (x.1, isReached F τ ε goals x.2)))
  | [] => by rw [Gen.PlanningProblem_goal_reached.loop1]; rfl
  | (i, st) :: rest => by
    rw [Gen.PlanningProblem_goal_reached.loop1, tie_is_reached, List.map_cons]
    cases h : isReached F τ ε goals st with
    | error e => simp [goalReachedRev, bind, Except.bind]
    | ok b => cases b <;> simp [goalReachedRev, bind, Except.bind, pure, Except.pure, tie_goal_reached_loop F τ ε goals traj rest]

theorem enumFrom_map {α β : Type} (f : α → β) : ∀ (n : Nat) (l : List α),
    enumFrom n (l.map f) = (enumFrom n l).map (fun x => (x.1, f x.2))
  | _, [] => rfl
  | n, a :: as => by simp [enumFrom, enumFrom_map f (n + 1) as]

/-- `PlanningProblem.goal_reached` as the CURRENT source has it (the scan over `reversed(list(enumerate(state_list)))`, the call of
    `self.goal.is_reached(state)`, the returned pair) is the model's `goalReached` of the per-state `isReached` answers. -/
theorem tie_goal_reached (F : Fns) (τ ε : Rat) (goals : List GState) (traj : List St) :
    Gen.PlanningProblem_goal_reached F τ ε goals traj = goalReached (traj.map (isReached F τ ε goals)) := by
  unfold Gen.PlanningProblem_goal_reached goalReached
  rw [tie_goal_reached_loop, enumFrom_map, List.map_reverse]

/-! ### admissible goal states: `_validate_goal_state` and the `state_list` setter -/

theorem tie_validate_loop (st : RawG) : ∀ (l : List Fld),
    Gen.GoalRegion_validate_goal_state.loop1 st validFields l = validateLoop st l
  | [] => by rw [Gen.GoalRegion_validate_goal_state.loop1]; rfl
  | f :: rest => by
    rw [Gen.GoalRegion_validate_goal_state.loop1, validateLoop]
    simp only [CR.PyG.mem, CR.PyG.rawGet, CR.PyG.isInst]
    by_cases hv : validFields.contains f = true
    · cases hl : st.lookup f with
      | none => cases f <;> simp_all [bind, Except.bind, validFields]
      | some c =>
        by_cases hp : f = Fld.position
        · subst hp; cases hc : isInst c Cls.shape <;>
            simp_all [bind, Except.bind, pure, Except.pure, throw, throwThe, MonadExceptOf.throw, requiredCls, tie_validate_loop st rest]
        · by_cases ho : f = Fld.orientation
          · subst ho; cases hc : isInst c Cls.angleInterval <;>
              simp_all [bind, Except.bind, pure, Except.pure, throw, throwThe, MonadExceptOf.throw, requiredCls, tie_validate_loop st rest]
          · have hr : requiredCls f = Cls.interval := by cases f <;> simp_all [requiredCls]
            cases hc : isInst c Cls.interval <;>
              simp_all [bind, Except.bind, pure, Except.pure, throw, throwThe, MonadExceptOf.throw, tie_validate_loop st rest]
    · simp_all [throw, throwThe, MonadExceptOf.throw]

/-- `_validate_goal_state` as the CURRENT source has it is the model's `validateGoalState`: mandatory `time_step`, only the four
    valid fields, `position` a Shape, `orientation` an AngleInterval, the others Intervals. -/
theorem tie_validate (st : RawG) : Gen.GoalRegion_validate_goal_state st = validateGoalState st := by
  unfold Gen.GoalRegion_validate_goal_state validateGoalState
  simp only [CR.PyG.rawGet, CR.PyG.rawUsed]
  have hvf : [Fld.time_step, Fld.position, Fld.velocity, Fld.orientation] = validFields := rfl
  cases hl : st.lookup Fld.time_step with
  | none => simp [bind, Except.bind]
  | some c => cases c <;> simp [bind, Except.bind, throw, throwThe, MonadExceptOf.throw, hvf, tie_validate_loop]

theorem tie_set_state_list_loop (l0 : List RawG) : ∀ (l : List RawG),
    Gen.GoalRegion_set_state_list.loop1 l0 l = (validateAll l).map (fun _ => l0)
  | [] => by rw [Gen.GoalRegion_set_state_list.loop1]; rfl
  | st :: rest => by
    rw [Gen.GoalRegion_set_state_list.loop1, tie_validate, validateAll]
    cases validateGoalState st <;> simp [bind, Except.bind, Except.map, tie_set_state_list_loop l0 rest]

/-- the `state_list` setter (every goal state validated, then stored) is the model's `setStateList`. -/
theorem tie_set_state_list (l : List RawG) : Gen.GoalRegion_set_state_list l = setStateList l := by
  unfold Gen.GoalRegion_set_state_list setStateList
  exact tie_set_state_list_loop l l

/-! ### structural ties: the parts moved by the three `translate_rotate` methods (finite tables, checked completely) -/

theorem tie_goal_region_moves :
    Gen.GoalRegion_translate_rotate_moves = goalRegionMoves ∧ Gen.GoalRegion_translate_rotate_stmts = goalRegionMoveStmts := by
  decide
theorem tie_planning_problem_moves :
    Gen.PlanningProblem_translate_rotate_moves = planningProblemMoves ∧
    Gen.PlanningProblem_translate_rotate_stmts = planningProblemMoveStmts := by decide
theorem tie_planning_problem_set_moves :
    Gen.PlanningProblemSet_translate_rotate_moves = planningProblemSetMoves ∧
    Gen.PlanningProblemSet_translate_rotate_stmts = planningProblemSetMoveStmts := by decide

/-! ### what the ties give: the C08 theorems hold of the translated source -/

/-- `GoalRegion.is_reached` AS TRANSLATED FROM THE CURRENT SOURCE returns `ok b` with `b` true exactly when some goal state is
    satisfied in all the attributes it constrains (C08_isReached_iff through `tie_is_reached`). -/
theorem T08_source_isReached_iff (F : Fns) (τ ε : Rat) (hτ : 0 < τ) (hε0 : 0 ≤ ε) (hε : ε < τ) (s : St) (goals : List GState)
    (h : ∀ g ∈ goals, WfG g ∧ fieldsOk g s = true) :
    ∃ b, Gen.GoalRegion_is_reached F τ ε goals s = .ok b ∧ (b = true ↔ ∃ g ∈ goals, Sat F τ ε g s) := by
  rw [tie_is_reached]
  exact C08_isReached_iff F τ ε hτ hε0 hε s goals h

end CR.Goal
