/-
  P04 — placement geometry for C04 (and C07/C19, which read occupancies): theorems about
  `CRModel/Place.lean`, the model of `rotate_translate_local` / `occupancy_shape_from_state` for exact states.
-/
import CRModel.Place
import CRProps.C04
import Mathlib.Tactic.Ring
import Mathlib.Tactic.Linarith
import Mathlib.Tactic.FieldSimp
import Mathlib.Algebra.Order.Field.Rat
namespace CR.Place
open CR.Rigid CR.Iv

def d2 (p q : Pt) : Rat := (p.x - q.x) * (p.x - q.x) + (p.y - q.y) * (p.y - q.y)

/-- The vertex map of a placement is a rigid motion: squared distances scale by `c² + s²` (= 1 for a rotation),
    whatever the centre of rotation and the translation. -/
theorem P04_about_dist (c s : Rat) (g t p q : Pt) :
    d2 (about c s g t p) (about c s g t q) = (c * c + s * s) * d2 p q := by
  simp only [d2, about, Pt.add, Pt.sub, rot]; ring

theorem P04_about_isometry (c s : Rat) (h : c * c + s * s = 1) (g t p q : Pt) :
    d2 (about c s g t p) (about c s g t q) = d2 p q := by
  rw [P04_about_dist, h, one_mul]

/-- The centre of rotation is only translated: "rotated about its own centre, then moved to the position". -/
theorem P04_about_centre (c s : Rat) (g t : Pt) : about c s g t g = Pt.add g t := by
  simp [about, Pt.add, Pt.sub, rot]

/-- Orientation 0 (c = 1, s = 0) and position 0 leave every vertex where it is. -/
theorem P04_about_id (g p : Pt) : about 1 0 g ⟨0, 0⟩ p = p := by
  cases p; simp [about, Pt.add, Pt.sub, rot]

/-- Rectangle: the corners of the placed rectangle are the local corners rotated about the rectangle's centre and
    then translated (with `(cθ, sθ)` the cosine / sine of the stored orientation and the angle-sum formulas for the
    new orientation). Length and width are untouched by construction. -/
theorem P04_rect_corners (l w : Rat) (ctr t : Pt) (cθ sθ c s : Rat) :
    rectCorners l w (Pt.add ctr t) (cθ * c - sθ * s) (sθ * c + cθ * s)
      = (rectCorners l w ctr cθ sθ).map (about c s ctr t) := by
  simp only [rectCorners, List.map_cons, List.map_nil, about, Pt.add, Pt.sub, rot]
  congr 1
  · congr 1 <;> ring
  congr 1
  · congr 1 <;> ring
  congr 1
  · congr 1 <;> ring
  congr 1
  congr 1 <;> ring

/-- Polygon: every vertex goes through the same rigid motion about the centroid; vertex count and order are kept. -/
theorem P04_poly_vertices (c s a τ : Rat) (t : Pt) (vs : List Pt) :
    place c s a τ t (.poly vs) = .poly (vs.map (about c s (centroid vs) t)) := by
  simp [place]

theorem P04_poly_length (c s : Rat) (g t : Pt) (vs : List Pt) : (vs.map (about c s g t)).length = vs.length := by simp

/-- Circle and rectangle: the centre moves by the position, radius / length / width are unchanged, the rectangle's
    orientation is `orientation + angle` wrapped into [-2π, 2π] (C16's `makeValid`). -/
theorem P04_circle (c s a τ r : Rat) (t ctr : Pt) :
    place c s a τ t (.circ r ctr) = .circ r (Pt.add ctr t) := by simp [place]
theorem P04_rect (c s a τ l w θ : Rat) (t ctr : Pt) :
    place c s a τ t (.rect l w ctr θ) = .rect l w (Pt.add ctr t) (makeValid τ (θ + a)) := by simp [place]

/-- Shape group: every member is placed on its own (each about its own centre), none is dropped or added. -/
theorem P04_group (c s a τ : Rat) (t : Pt) (ss : List Shape) :
    place c s a τ t (.group ss) = .group (ss.map (place c s a τ t)) := by
  have h : ∀ l : List Shape, place.placeList c s a τ t l = l.map (place c s a τ t) := by
    intro l; induction l with
    | nil => rfl
    | cons x xs ih => simp [place.placeList, ih]
  simp [place, h]

/-- The centroid of an axis-parallel box given as a 4-vertex ring is its centre (sanity of the centroid formula
    on a family, any size and position). -/
theorem P04_centroid_box (x0 y0 a b : Rat) (ha : a ≠ 0) (hb : b ≠ 0) :
    centroid [⟨x0, y0⟩, ⟨x0 + a, y0⟩, ⟨x0 + a, y0 + b⟩, ⟨x0, y0 + b⟩] = ⟨x0 + a / 2, y0 + b / 2⟩ := by
  have hne : ¬ ((⟨x0, y0 + b⟩ : Pt) = ⟨x0, y0⟩) := by
    intro h; have := congrArg Pt.y h; simp at this; exact hb this
  simp only [centroid, List.getLast?, List.getLast, Option.some.injEq, hne, if_false, List.cons_append, List.nil_append,
    ringSums]
  have hsum : (0 + (x0 * y0 - x0 * (y0 + b)) + ((x0 + a) * (y0 + b) - x0 * (y0 + b)) + ((x0 + a) * (y0 + b) - (x0 + a) * y0) +
        (x0 * y0 - (x0 + a) * y0) : Rat) = 2 * a * b := by ring
  have hab : (2 * a * b : Rat) ≠ 0 := mul_ne_zero (mul_ne_zero (by norm_num) ha) hb
  rw [hsum]
  simp only [hab, if_false]
  congr 1 <;> field_simp <;> ring

/-! ### what the symbolic occupancies of the dispatch model (CRModel/Occupancy.lean) DENOTE -/

/-- A pose: position, orientation `a` and its cosine / sine (parameters). -/
structure Pose where
  t : Pt
  a : Rat
  c : Rat
  s : Rat

/-- The geometric data of one obstacle: its shape, the pose of its initial state and of every trajectory state, the
    stored occupancies of a set-based prediction. -/
structure Geo where
  shape : Shape
  τ : Rat
  initPose : Pose
  trajPose : Nat → Pose
  stored : Nat → Shape

def placeAt (g : Geo) (p : Pose) : Shape := place p.c p.s p.a g.τ p.t g.shape

/-- `occupancy_shape_from_state` for exact states / stored occupancies: what each symbolic answer stands for. -/
def denote (g : Geo) : CR.Occ.Occ → Shape
  | .init => placeAt g g.initPose
  | .placed i => placeAt g (g.trajPose i)
  | .stored i => g.stored i
  | .shape => g.shape

open CR.Occ in
/-- C04, geometric form: inside the horizon (after the initial step) the occupancy at `t` is the obstacle's shape rotated
    about its own centre by the orientation and moved to the position of THE TRAJECTORY STATE OF TIME STEP `t`. -/
theorem P04_dyn_occupancy_geometry (g : Geo) (tInit t0 : Int) (ts : List Int) (hw : WfTraj t0 ts) (t : Int)
    (h1 : tInit < t) (h2 : t0 ≤ t) (h3 : t < t0 + ts.length) :
    (occupancyAt (.dynamic tInit (.traj t0 ts)) t).map (denote g) = some (placeAt g (g.trajPose (t - t0).toNat))
    ∧ ts[(t - t0).toNat]? = some t := by
  obtain ⟨ho, hs⟩ := C04_dyn_occ tInit t0 ts hw t h1 h2 h3
  refine ⟨by rw [ho]; rfl, C04_dyn_state_time tInit t0 ts hw t _ hs⟩

open CR.Occ in
/-- At the initial time step (any prediction) and for a static obstacle at ALL times: the shape placed at the initial
    state; an environment obstacle: its bare shape at all times. -/
theorem P04_initial_and_static_geometry (g : Geo) (tInit : Int) (p : CR.Occ.Pred) (t t' : Int) :
    (occupancyAt (.dynamic tInit p) tInit).map (denote g) = some (placeAt g g.initPose) ∧
    (occupancyAt (.static tInit) t).map (denote g) = some (placeAt g g.initPose) ∧
    (occupancyAt (.static tInit) t).map (denote g) = (occupancyAt (.static tInit) t').map (denote g) ∧
    (occupancyAt .environment t).map (denote g) = some g.shape := by
  simp [occupancyAt, denote]

/-- Point-mass states: the pose's direction is that of the velocity vector — `(c, s) = (vx, vy) / |v|`, which is what
    "the heading is atan2(vy, vx)" means for the placement (the angle itself is the parameter `a`). -/
def PMPose (vx vy : Rat) (p : Pose) : Prop :=
  ∃ sp : Rat, 0 < sp ∧ sp * sp = vx * vx + vy * vy ∧ p.c * sp = vx ∧ p.s * sp = vy

theorem P04_pm_pose_unit (vx vy : Rat) (p : Pose) (h : PMPose vx vy p) : p.c * p.c + p.s * p.s = 1 := by
  obtain ⟨sp, hpos, hsq, hc, hs⟩ := h
  have hne : sp * sp ≠ 0 := by positivity
  have : (p.c * p.c + p.s * p.s) * (sp * sp) = 1 * (sp * sp) := by
    have e : (p.c * p.c + p.s * p.s) * (sp * sp) = (p.c * sp) * (p.c * sp) + (p.s * sp) * (p.s * sp) := by ring
    rw [e, hc, hs, one_mul, hsq]
  exact mul_right_cancel₀ hne this

/-- …and the direction is NOT that of `(hypot(vx, vy), vy)` (the defect repaired in 6d38b19) unless `vx ≥ 0 ∧ vy = 0`:
    a pose whose direction is parallel to `(vx, vy)` with `vx < 0` has negative cosine. -/
theorem P04_pm_pose_quadrant (vx vy : Rat) (p : Pose) (h : PMPose vx vy p) (hx : vx < 0) : p.c < 0 := by
  obtain ⟨sp, hpos, _, hc, _⟩ := h
  by_contra hcon
  push Not at hcon
  have : 0 ≤ p.c * sp := mul_nonneg hcon (le_of_lt hpos)
  linarith

/-- The heading of a point-mass state is a matter of the DIRECTION of `(vx, vy)` alone: scaling the vector by any positive
    factor `k` — however small (a creeping obstacle, speed 1e-4 or 1e-300) or large — leaves the pose's direction unchanged.
    In particular there is no speed below which the heading may be replaced by 0. -/
theorem P04_pm_pose_scale (vx vy k : Rat) (hk : 0 < k) (p : Pose) (h : PMPose vx vy p) : PMPose (k * vx) (k * vy) p := by
  obtain ⟨sp, hpos, hsq, hc, hs⟩ := h
  refine ⟨k * sp, mul_pos hk hpos, ?_, ?_, ?_⟩
  · have : k * sp * (k * sp) = k * k * (sp * sp) := by ring
    rw [this, hsq]; ring
  · rw [← hc]; ring
  · rw [← hs]; ring

/-- …and a slow vector pointing along +y has the direction (0, 1), not the direction (1, 0) of heading 0:
    `(vx, vy) = (0, 1/5000)` (speed 2e-4). -/
example (t : Pt) (a : Rat) : PMPose 0 (1 / 5000) ⟨t, a, 0, 1⟩ ∧ ¬ PMPose 0 (1 / 5000) ⟨t, a, 1, 0⟩ := by
  refine ⟨⟨1 / 5000, by norm_num, by norm_num, by norm_num, by norm_num⟩, ?_⟩
  rintro ⟨sp, hpos, _, hc, _⟩
  simp at hc
  linarith

/-- a 2 × 2 square turned by a quarter turn about its centroid (1, 1) and moved by (10, 0). -/
example : (match place 0 1 0 6 ⟨10, 0⟩ (.poly [⟨0, 0⟩, ⟨2, 0⟩, ⟨2, 2⟩, ⟨0, 2⟩]) with | .poly v => v | _ => [])
    = [⟨12, 0⟩, ⟨12, 2⟩, ⟨10, 2⟩, ⟨10, 0⟩] := by
  decide +kernel

end CR.Place
