/-
  T01 — translator tie for C01 (XML write → read).  `Gen.SrcC01` is regenerated on every run from the CURRENT source of
  commonroad/common/writer/file_writer_xml.py and commonroad/common/reader/file_reader_xml.py
  (harness/translate/src_c01.py).  Proved here, against that generated text:

  FUNCTIONAL (for all arguments)
    tie_float_to_str, tie_decimal_to_str                 the two number formatters = `floatToStr` / `decimalToStr` (Codec.lean)
    tie_writer_map_to_xml_prop, tie_reader_map_to_xml_prop, tie_reader_map_to_prop
                                                         the three attribute-name maps = `xmlName` / `propName` (CRXml.lean)
    tie_name_maps_agree                                  writer and reader use the same python-name → tag map

  STRUCTURAL (finite tables extracted from the `ast`, checked completely by `decide`: a finite table checked completely IS
  a proof for that table)
    tie_written_is_read          every (kind, item) the writer can emit is one the reader looks up for that kind — except
                                 exactly `<virtual>` of a traffic sign (known finding C01_witness_virtual: written as a child
                                 element, read as an XML attribute) and the root attribute `date` (never read)
    tie_virtual_read_as_attr     … and the reader does ask for `virtual` — as an attribute
    tie_required_is_written      every item the reader REQUIRES is written on every path — except the listed ones, whose
                                 guards are the model's `ok` side conditions (cycle of a light, …)
    tie_read_is_written          the reader looks up nothing the writer does not emit, except the listed legacy / lenient look-ups
    tie_orientation_special      the one state attribute the reader handles by a literal tag is read like the generic ones
    tie_model_emits_code_items / tie_code_items_in_model
                                 the items the MODEL writer emits on a maximal sample file (every optional part present,
                                 every alternative taken once) are exactly the items of the extracted writer table
-/
import Gen.SrcC01
import CRModel.CRXml

namespace CR.PyC01
open CR.X

theorem isInfixB_single (c : Char) (l : List Char) : isInfixB [c] l = l.contains c := by
  induction l with
  | nil => rfl
  | cons a as ih =>
    simp only [isInfixB, isPrefixB, ih, List.contains_cons]
    cases as <;> simp

theorem strIn_e (s : String) : strIn "e" s = s.toList.contains 'e' := by
  have h : ("e" : String).toList = ['e'] := by decide
  simp only [strIn, h, isInfixB_single]

theorem strIn_E (s : String) : strIn "E" s = s.toList.contains 'E' := by
  have h : ("E" : String).toList = ['E'] := by decide
  simp only [strIn, h, isInfixB_single]

theorem splitDot_ne_nil (l : List Char) : CR.X.splitDot l ≠ [] := by
  induction l with
  | nil => simp [CR.X.splitDot]
  | cons c cs ih =>
    unfold CR.X.splitDot
    split
    · exact absurd ‹_› ih
    · split <;> simp

theorem take_join (p0 p1 : List Char) (d : Nat) :
    String.ofList p0 ++ "." ++ strTake (String.ofList p1) (d : Int) = String.ofList (p0 ++ '.' :: p1.take d) := by
  have hd : ("." : String).toList = ['.'] := by decide
  apply String.toList_inj.mp
  simp [strTake, String.toList_append, hd]

theorem snakeSep_lower (l : List Char) : (snakeSepAux l).map Char.toLower = snakeAux l := by
  induction l with
  | nil => rfl
  | cons c r ih =>
    have hu : ('_' : Char).toLower = '_' := by decide
    unfold snakeSepAux snakeAux
    split <;> simp [ih, hu]

end CR.PyC01

namespace CR.X
open CR.PyC01

/-! ## functional ties -/

/-- `float_to_str` as the CURRENT source has it is the model's `floatToStr` (and it never raises) -/
theorem tie_float_to_str (P : Params) (s : String) : Gen.float_to_str P s = .ok (floatToStr P s) := by
  unfold Gen.float_to_str floatToStr
  simp only [strIn_e]
  by_cases he : s.toList.contains 'e' = true
  · simp only [he, if_true, formatFixed, pure, Except.pure]
    cases lookupFix s P.fix <;> rfl
  · simp only [he, Bool.false_eq_true, if_false, truncChars]
    have hne := splitDot_ne_nil s.toList
    have hL : PyC01.splitDot s = (CR.X.splitDot s.toList).map String.ofList := rfl
    generalize PyC01.splitDot s = L' at hL ⊢
    generalize CR.X.splitDot s.toList = L at hne hL ⊢
    subst hL
    match L, hne with
    | [p0], _ => simp [CR.Py.getItem, pyGet?]
    | p0 :: p1 :: r, _ =>
      simp only [List.map_cons, List.length_cons, CR.Py.getItem, pyGet?]
      rw [if_pos (by simp; omega)]
      simp [bind, Except.bind, pure, Except.pure, take_join]

/-- `decimal_to_str` as the CURRENT source has it is the model's `decimalToStr` -/
theorem tie_decimal_to_str (P : Params) (s : String) : Gen.decimal_to_str P s = .ok (decimalToStr P s) := by
  unfold Gen.decimal_to_str decimalToStr
  simp only [strIn_e, strIn_E]
  by_cases he : (s.toList.contains 'e' || s.toList.contains 'E') = true
  · simp only [he, if_true, formatPositional, pure, Except.pure]
    cases lookupFix s P.pos <;> rfl
  · simp only [he, Bool.false_eq_true, if_false, pure, Except.pure]

theorem tie_writer_map_to_xml_prop (a : String) : Gen.writer_map_to_xml_prop a = xmlName a := by
  unfold Gen.writer_map_to_xml_prop xmlName
  simp only [Bool.beq_comm (a := ("time_step" : String)), Bool.beq_comm (a := ("delta_y_f" : String)),
    Bool.beq_comm (a := ("delta_y_r" : String)), Bool.beq_comm (a := ("curvature_rate" : String)), reCamel, Id.run, pure]
  repeat' split
  all_goals rfl

theorem tie_reader_map_to_xml_prop (a : String) : Gen.reader_map_to_xml_prop a = xmlName a := by
  unfold Gen.reader_map_to_xml_prop xmlName
  simp only [reCamel, Id.run, pure]
  repeat' split
  all_goals rfl

theorem tie_reader_map_to_prop (t : String) : Gen.reader_map_to_prop t = propName t := by
  unfold Gen.reader_map_to_prop propName
  simp only [Id.run, pure]
  repeat' split
  all_goals first
    | rfl
    | (simp only [strLower, reSnakeSep, snake]
       cases h : t.toList with
       | nil => simp
       | cons c r => simp [String.toList_ofList, snakeSep_lower])

/-- the writer's and the reader's python-name → tag maps are the same function (as the CURRENT source has them) -/
theorem tie_name_maps_agree (a : String) : Gen.writer_map_to_xml_prop a = Gen.reader_map_to_xml_prop a := by
  rw [tie_writer_map_to_xml_prop, tie_reader_map_to_xml_prop]

/-- the goal-state writer uses the bare regex: it agrees with the reader's map except on the four special names -/
theorem tie_goal_names (a : String) (h : a ≠ "time_step" ∧ a ≠ "delta_y_f" ∧ a ≠ "delta_y_r" ∧ a ≠ "curvature_rate") :
    xmlNameGoal a = Gen.reader_map_to_xml_prop a := by
  rw [tie_reader_map_to_xml_prop]
  simp [xmlNameGoal, xmlName, h.1, h.2.1, h.2.2.1, h.2.2.2]

end CR.X

namespace CR.X.Tie
open Gen.C01

/-! ## structural ties: the two extracted tables against each other -/

/-- the reader-side name of a wild card: the goal-state writer names elements by the bare regex (`<camel>`), the reader looks
    them up through `_map_to_xml_prop` (`<xmlName>`); `tie_goal_names` says when the two agree -/
def rdName (s : String) : String := if s == "<camel>" then "<xmlName>" else s

def covers (r : R) (w : W) : Bool := r.kind == rdName w.kind && r.item == w.item && r.name == rdName w.name

/-- what the writer can emit and the reader never asks for -/
def unread (ws : List W) (rs : List R) : List (String × Item × String) :=
  (ws.filter (fun w => !rs.any (covers · w))).map (fun w => (w.kind, w.item, w.name))

/-- what the reader requires and the writer does not emit on every path (absent from the table, or under a condition) -/
def notAlways (ws : List W) (rs : List R) : List (String × Item × String) :=
  (rs.filter (fun r => r.required && !(ws.any (covers r ·) && ws.all (fun w => !covers r w || w.mult == .one)))).map
    (fun r => (r.kind, r.item, r.name))

/-- **nothing written is ignored** — with exactly the known exception: the `<virtual>` child of a traffic sign (and its text),
    and the root attribute `date` -/
theorem tie_written_is_read :
    unread writer reader = [("commonRoad", .attr, "date"), ("trafficSign", .elem, "virtual"), ("virtual", .text, "")] := by
  decide +kernel

/-- the reader does ask for `virtual` of a traffic sign — as an XML attribute, which the writer never sets -/
theorem tie_virtual_read_as_attr :
    reader.any (fun r => r.kind == "trafficSign" && r.item == .attr && r.name == "virtual") = true
      ∧ writer.any (fun w => w.kind == "trafficSign" && w.item == .attr && w.name == "virtual") = false := by
  decide +kernel

/-- **everything the reader requires is written on every path** — except: `benchmarkID` (written unless the scenario id is
    falsy), the four children of `<environment>` (guards that are always true), `<time>` of a state (written iff `time_step` is
    a used attribute — always, for a state), `<lineMarking>` of a stop line (guard `if stop_line.line_marking`, a LineMarking
    member is truthy), `<cycle>` of a traffic light (a light without cycle cannot be read back: `lightE.ok` in the model) -/
theorem tie_required_is_written :
    notAlways writer reader =
      [("commonRoad", .attr, "benchmarkID"), ("environment", .elem, "time"), ("environment", .elem, "timeOfDay"),
       ("environment", .elem, "underground"), ("environment", .elem, "weather"), ("goalState", .elem, "time"),
       ("initialState", .elem, "time"), ("state", .elem, "time"), ("stopLine", .elem, "lineMarking"),
       ("trafficLight", .elem, "cycle")] := by
  decide +kernel

/-- what the reader asks for and the writer never emits -/
def unwritten (ws : List W) (rs : List R) : List (String × Item × String) :=
  (rs.filter (fun r => !ws.any (covers r ·))).map (fun r => (r.kind, r.item, r.name))

/-- **the reader asks for nothing else**: besides what the writer emits it only looks up — a `z` of a shape centre, the 2018b
    `speedLimit`, `wheelbase`, the literal `orientation` (tie_orientation_special), a point as goal position, lanelet
    references as the position of a non-goal state, interval times where the writer only writes exact ones, signal states of a
    static obstacle, and the ATTRIBUTE `virtual`.  So a tag the writer renames or drops shows up here. -/
theorem tie_read_is_written :
    unwritten writer reader =
      [("center", .elem, "z"), ("commonRoad/lanelet", .elem, "speedLimit"), ("dynamicObstacle", .elem, "wheelbase"),
       ("goalState", .elem, "orientation"), ("goalState/position", .elem, "point"),
       ("initialSignalState/time", .elem, "intervalEnd"), ("initialSignalState/time", .elem, "intervalStart"),
       ("initialState", .elem, "orientation"), ("initialState/position", .elem, "lanelet"),
       ("initialState/time", .elem, "intervalEnd"), ("initialState/time", .elem, "intervalStart"),
       ("orientation", .elem, "exact"), ("orientation", .elem, "intervalEnd"), ("orientation", .elem, "intervalStart"),
       ("signalState/time", .elem, "intervalEnd"), ("signalState/time", .elem, "intervalStart"), ("speedLimit", .text, ""),
       ("state", .elem, "orientation"), ("state/position", .elem, "lanelet"), ("state/time", .elem, "intervalEnd"),
       ("state/time", .elem, "intervalStart"), ("staticObstacle", .elem, "initialSignalState"),
       ("staticObstacle", .elem, "signalSeries"), ("trafficSign", .attr, "virtual")] := by
  decide +kernel

def stateKinds : List String := ["initialState", "state", "goalState"]

/-- the state attributes the reader looks up by a literal tag instead of through `_map_to_xml_prop` -/
def specialStateNames (rs : List R) : List String :=
  ((rs.filter (fun r => stateKinds.contains r.kind && r.item == .elem && r.name != "position" && r.name != "time"
    && r.name != "<xmlName>")).map (·.name)).eraseDups

/-- `orientation` is the only one, and below it the reader looks up everything the writer puts below a generic attribute -/
theorem tie_orientation_special :
    specialStateNames reader = ["orientation"]
      ∧ (writer.filter (fun w => w.kind == "<xmlName>")).all
          (fun w => reader.any (fun r => r.kind == "orientation" && r.item == w.item && r.name == w.name)) = true := by
  decide +kernel

/-! ## structural tie: the model writer against the extracted writer table -/

/-- tags whose kind is `parentTag/tag` (harness/translate/src_c01.py AMBIG) -/
def ambig : List String := ["position", "time", "lanelet"]
def stateKinds' : List String := ["initialState", "state", "goalState"]

/-- the wild-card name the extraction gives a tag computed at run time -/
def absName (parent name : String) : String :=
  if parent == "scenarioTags" then "<Tag>"
  else if stateKinds'.contains parent && name != "position" && name != "time" then
    (if parent == "goalState" then "<camel>" else "<xmlName>")
  else name

/-- the items of an element tree, keyed like the extracted tables (fuel = depth) -/
def itemsOf : Nat → String → String → Xml → List (String × Item × String)
  | 0, _, _, _ => []
  | n + 1, tag, kind, x =>
    x.attrs.map (fun a => (kind, Item.attr, a.1)) ++ (if x.text != "" then [(kind, Item.text, "")] else []) ++
      x.kids.flatMap (fun k =>
        let nm := absName tag k.tag
        (kind, Item.elem, nm) :: itemsOf n nm (if ambig.contains nm then tag ++ "/" ++ nm else nm) k)

def P4 : Params := ⟨4, [], []⟩
def pt2 : Pt := ⟨"1.5", "2.5", none⟩
def pt3 : Pt := ⟨"1.5", "2.5", some "0.5"⟩
def shapes3 : List Shape1 := [.rect "4.0" "2.0" "0.1" pt2, .circ "1.0" pt2, .poly [pt2]]
def one1 : Shape := .one (.circ "1.0" pt2)
def grp : Shape := .group shapes3
def stPoint : State := ⟨[("position", .pos (.point pt3)), ("time_step", .time (.exact 0)), ("velocity", .val (.exact "1.0")),
  ("orientation", .val (.interval "0.1" "0.2"))]⟩
def stRegion : State := ⟨[("position", .pos (.region grp)), ("time_step", .time (.exact 1)), ("velocity", .val (.exact "1.0"))]⟩
def goal1 : State := ⟨[("position", .pos (.lanelets [1])), ("time_step", .time (.interval 1 2)), ("velocity", .val (.interval "0.0" "1.0"))]⟩
def goal2 : State := ⟨[("position", .pos (.region grp)), ("time_step", .time (.exact 3)), ("velocity", .val (.exact "1.0"))]⟩
def sig : Signal := ⟨0, some true, some false, some true, some false, some true, some false⟩
def occs : List Occupancy := [⟨one1, .exact 1⟩, ⟨one1, .interval 2 3⟩]
def bnd : Bound := ⟨[pt3], "solid"⟩

def sampleDoc : Doc :=
  { lanelets := [⟨1, bnd, bnd, [2], [3], some ⟨4, true⟩, some ⟨5, false⟩, some ⟨some (pt2, pt2), "solid", [7], [8]⟩, ["urban"], ["car"],
                  ["bus"], [7], [8]⟩],
    signs := [⟨7, [⟨"274", ["50"]⟩], some pt2, true⟩],
    lights := [⟨8, some ⟨[⟨5, "red"⟩], 1⟩, some pt2, "left", false⟩],
    intersections := [⟨9, [⟨10, [1], [2], [3], [4], some 11⟩], [5]⟩],
    statics := [⟨20, "car", one1, stPoint⟩],
    dynamics := [⟨21, "car", grp, stRegion, some sig, .traj [stPoint, stRegion], [sig]⟩, ⟨22, "car", one1, stPoint, none, .occ occs, []⟩],
    phantoms := [⟨23, some [⟨one1, .exact 1⟩]⟩],
    envs := [⟨24, "building", one1⟩],
    problems := [⟨30, stPoint, [goal1, goal2]⟩] }

def sampleFile : File :=
  ⟨⟨"0.1", some "a", some "b", some "c", "ZAM_Test-1_1_T-1"⟩,
   some ⟨1, "48.0", "11.0", some ⟨"ref", some ⟨"1.0", "2.0", "0.0", "1.0"⟩⟩, some ⟨7, 5, "noon", "clear", "wet"⟩⟩, ["urban"], sampleDoc⟩

def sampleCfg : FileCfg := ⟨P4, [], ["ZAM"], [("ZAM", (["274"], some "274"))], "2026-01-01"⟩

/-- the items the MODEL writer emits for the sample file -/
def modelItems : List (String × Item × String) := (itemsOf 12 "commonRoad" "commonRoad" (encodeFile sampleCfg sampleFile))


/-- **model ⊆ code**: every item the MODEL writer emits for the maximal sample file (every optional part present, every
    alternative taken) is in the writer table extracted from the code -/
theorem tie_model_emits_code_items :
    modelItems.all (fun t => writer.any (fun w => w.kind == t.1 && w.item == t.2.1 && w.name == t.2.2)) = true := by
  decide +kernel

/-- **code ⊆ model**: every item of the extracted writer table is emitted by the model writer on that sample: the code writes
    no element, attribute or text the codec model does not have (and, with `tie_written_is_read` / `tie_read_is_written`, the
    reader code looks up exactly the model's tags: `enc` and `dec` of a codec share their tags by construction) -/
theorem tie_code_items_in_model :
    writer.all (fun w => modelItems.any (fun t => w.kind == t.1 && w.item == t.2.1 && w.name == t.2.2)) = true := by
  decide +kernel

end CR.X.Tie
