/-
  T18 — translator tie for C18 (read-only operations do not change scenarios or planning problems).

  `Gen.SrcC18` is regenerated on every run from the CURRENT source of commonroad-io by harness/translate/src_c18.py: for each of the
  read-only operations (every public method / property the generator audit table harness/c18_dims.py classifies as `op:` or
  `snapshot`, their `__eq__` / `__hash__` / `__str__` / `__repr__` / `__getstate__` / `__deepcopy__` / … , every method of every class of the
  two writer modules, every `__eq__` / `__hash__` / `__str__` / `__repr__` of the library) the set of writes — attribute stores and
  deletes, subscript stores, augmented assignments, in-place mutating calls, `out=`, `setattr`, cached_property — that can reach an
  object the caller handed in, closed under calls, property reads and operator protocols resolved by name, through a flow-sensitive
  may-alias analysis (`x = self.a; x.append(…)`, `np.asarray(p)`, `d = self.__dict__.copy(); d[k].clear()`, views, elements, …).

  The theorems below check the COMPLETE generated table against the fixed tables of CRModel/PyExtC18.lean by `decide`: a finite table
  checked completely is a proof for that table.  What they say about the code:
    * `tie_write_classes_allowed`, `tie_every_operation`: whatever any read-only operation writes through its receiver or an
      argument is (a) a declared derived-data cache, bound to a fresh value or dropped, never changed in place, (b) private state of
      the renderer / writer / drawing parameters it was called on, or (c) an lxml node / memo dict it was handed to fill.  No
      primary attribute of a scenario element, state, lanelet, traffic light, planning problem or goal region is among them.
    * `tie_cache_slots`: the caches that occur are exactly the five kinds of PyExtC18 (three are the hidden slots of the Frame
      model, `C18_hidden_slots_invisible`; two are derived from data `St` holds by content token).
    * `tie_footprints`: for the operations whose frame is definitional in the model (CRProps/C18.lean header) the code, too, contains no
      write: `dynamic_obstacle_by_time_step`, `Trajectory.state_at_time_step`, `LaneletNetwork.__getstate__` write nothing; the
      traffic-light query writes the cycle table only; `LaneletNetwork.__deepcopy__` the index (and the memo dict) only; the arc
      length queries of a lanelet `_distance` / `_inner_distance` only.
    * `tie_writer_resets`: both entry points of both writers bind a new document (`_root_node` / `_commonroad_msg`) before they fill it.
  A source edit that makes a query sort a list in place, append to a history, normalise an argument in place, insert a default into a
  dict, write through an alias of a scenario array, or drop the reset of a writer changes the generated table and breaks a theorem.

  Soundness limits of the extraction (left to the correspondence and the oracle of harness/c18.py): name resolution stands in for
  dynamic dispatch (annotations narrow it and are trusted), objects of classes outside the library are fresh unless a parameter,
  module-level state and C extensions are not followed.
-/
import Gen.SrcC18
import CRModel.Frame
namespace CR.Frame.Tie

/-- every class of writes some read-only operation of the current source can perform on its receiver or an argument is admitted by the
    tables of PyExtC18 (cache bound or dropped / tool's own state / external object) -/
theorem tie_write_classes_allowed : Gen.C18_writeClasses.all allowed = true := by decide +kernel

theorem tie_op_indices_valid :
    Gen.C18_opWrites.all (fun r => r.2.all (fun i => decide (i < Gen.C18_writeClasses.length))) = true := by decide +kernel

/-- the writes of one operation of the generated table -/
def opWrites (op : String) : List W :=
  (((Gen.C18_opWrites.find? (fun r => r.1 == op)).map (·.2)).getD []).filterMap (Gen.C18_writeClasses[·]?)

def opPresent (op : String) : Bool := Gen.C18_opWrites.any (fun r => r.1 == op)

/-- per operation: each of its writes is an admitted one -/
theorem tie_every_operation (r : String × List Nat) (hr : r ∈ Gen.C18_opWrites) (i : Nat) (hi : i ∈ r.2) :
    ∃ w, Gen.C18_writeClasses[i]? = some w ∧ allowed w = true := by
  have h1 := List.all_eq_true.mp tie_op_indices_valid r hr
  have h2 := List.all_eq_true.mp h1 i hi
  have hlt : i < Gen.C18_writeClasses.length := by simpa using h2
  refine ⟨Gen.C18_writeClasses[i], by simp [hlt], ?_⟩
  exact List.all_eq_true.mp tie_write_classes_allowed _ (List.getElem_mem hlt)

/-- no admitted cache write changes a cached value in place, and the caches that occur are of the five declared kinds; the three the
    Frame model keeps as hidden state are all exercised by the current source -/
theorem tie_cache_slots :
    (Gen.C18_writeClasses.filter (fun w => (slotOf w).isSome)).all (fun w => w.kind == .set) = true ∧
    [Slot.occCache, .netIndex, .lightCache].all (fun s => Gen.C18_writeClasses.any (fun w => slotOf w == some s)) = true := by
  decide +kernel

/-- the operations whose frame is definitional in the model contain no write in the code either; those that fill ONE cache write that
    cache only -/
theorem tie_footprints :
    (["Lanelet.dynamic_obstacle_by_time_step", "Trajectory.state_at_time_step", "LaneletNetwork.__getstate__",
      "TrafficLight.get_state_at_time_step", "TrafficLightCycle.get_state_at_time_step", "TrafficLightCycle.cycle_init_timesteps",
      "LaneletNetwork.__deepcopy__", "Lanelet.distance", "Lanelet.inner_distance", "Lanelet.interpolate_position"].all opPresent) = true ∧
    opWrites "Lanelet.dynamic_obstacle_by_time_step" = [] ∧
    opWrites "Trajectory.state_at_time_step" = [] ∧
    opWrites "LaneletNetwork.__getstate__" = [] ∧
    (opWrites "TrafficLight.get_state_at_time_step").all (fun w => slotOf w == some .lightCache) = true ∧
    (opWrites "TrafficLightCycle.get_state_at_time_step").all (fun w => slotOf w == some .lightCache) = true ∧
    (opWrites "TrafficLightCycle.cycle_init_timesteps").all (fun w => slotOf w == some .lightCache) = true ∧
    (opWrites "LaneletNetwork.__deepcopy__").all (fun w => slotOf w == some .netIndex || w == ⟨"param:memo", "", .mut⟩) = true ∧
    (opWrites "Lanelet.distance").all (fun w => slotOf w == some .laneletDist) = true ∧
    (opWrites "Lanelet.inner_distance").all (fun w => slotOf w == some .laneletDist) = true ∧
    (opWrites "Lanelet.interpolate_position").all (fun w => slotOf w == some .laneletDist) = true := by
  decide +kernel

/-- both entry points of both writers bind a new document before they fill it (a second export starts from an empty one) -/
theorem tie_writer_resets : Gen.C18_resets.length = 4 ∧ Gen.C18_resets.all (fun r => r.2.2) = true := by decide +kernel

/-! ### what the admitted cache writes mean in the model -/

/-- overwrite the occupancy cache of a prediction -/
def setPredCache (c : Option (List Occ)) : Pred → Pred
  | .traj t1 ss sh _ => .traj t1 ss sh c
  | p => p

def setObstacleCache (c : Nat → Option (List Occ)) : Obstacle → Obstacle
  | .dynamic i init r p => .dynamic i init r (setPredCache (c i) p)
  | .phantom i p => .phantom i (setPredCache (c i) p)
  | o => o

theorem setPredCache_obs (c : Option (List Occ)) (p : Pred) : (setPredCache c p).obs = p.obs := by
  cases p <;> rfl

theorem setObstacleCache_obs (c : Nat → Option (List Occ)) (o : Obstacle) : (setObstacleCache c o).obs = o.obs := by
  cases o <;> simp [setObstacleCache, Obstacle.obs, setPredCache_obs]

/-- The three slots `occCache`, `netIndex`, `lightCache` are hidden state of the Frame model: binding them to ANY value — which is all
    the admitted writes of these slots do — leaves the observable state `St.obs` (and with it both exports, `C18_export_function_of_obs`)
    as it was.  The two other slots (`laneletDist`, `shapeGeom`) are not part of `St` at all. -/
theorem C18_hidden_slots_invisible (s : St) (oc : Nat → Option (List Occ)) (ix : Option (List Lanelet)) (lc : Nat → Option (List Int)) :
    ({ s with obstacles := s.obstacles.map (setObstacleCache oc), net := { s.net with index := ix },
              lights := s.lights.map (fun l => { l with cache := lc l.id }) } : St).obs = s.obs := by
  simp only [St.obs, List.map_map]
  congr 1
  · apply List.map_congr_left
    intro o _
    simp [Function.comp, setObstacleCache_obs]

end CR.Frame.Tie
