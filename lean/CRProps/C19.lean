/-
  C19 — Rendering is total and shows the model at the selected time.
  Property theorems only (helper lemmas: CRProofs/Params.lean, CRProofs/DrawSelect.lean).
  Models: CRModel/Params.lean (BaseParam.__setattr__, draw_params.py:26-52),
          CRModel/DrawSelect.lean (selection logic of mp_renderer.py:454-778, 1047-1049, 1490-1492).

  Clauses of the property text and where they are:
   (a) "Setting a parameter on a parameter group sets it on every nested group that declares it, so a time
       window set at the top level applies to every drawn object"
         C19_setattr_declared, C19_setattr_frame, C19_setattr_undeclared, C19_setattr_spec, C19_setAt_declared,
         C19_window_everywhere, C19_postInit_window, C19_window_reaches_drawing
   (b) "the obstacle shapes drawn are exactly the occupancies the model reports …"
         C19_dynamic_drawn_eq_model, C19_static_drawn_eq_model, C19_env_drawn_eq_model,
         C19_phantom_drawn_eq_model, C19_drawn_eq_model, C19_nothing_without_occupancy
   (c) "all lanelets (or exactly the selected ones) are drawn"
         C19_lanelets_drawn_all, C19_lanelets_drawn_selected, C19_problems_drawn
   (d) "drawing … and rendering the figure completes without an exception"
         C19_total_full (statement), C19_total_partial (what is proved) — see the comment there.
-/
import CRProofs.Params
import CRProofs.DrawSelect

namespace CR.Params

/-! ### (a) parameter propagation -/

/-- Every nested group, at any depth, that declares `name` holds the assigned value afterwards.
    `p` is the path (field names) from the group on which the assignment is made to the nested group `h`;
    `name ∉ p` says the path does not run through a field that is itself being replaced. -/
theorem C19_setattr_declared (g h : Grp) (p : List String) (name : String) (v : Val)
    (hi : g.allInit = true) (hp : name ∉ p) (hat : g.at p = some (.grp h)) (hd : h.declares name = true) :
    (g.set name v).at (p ++ [name]) = some v := by
  induction p generalizing g with
  | nil =>
    simp only [Grp.at, Option.some.injEq, Val.grp.injEq] at hat
    subst hat
    obtain ⟨hi1, _⟩ := (Grp.allInit_iff g).1 hi
    have : (g.set name v).get name = some v := by
      rw [Grp.set_init g hi1]; exact get_setF_same g.fields name v hd
    cases v with
    | atom a => simp [Grp.at, this]
    | grp w => simp [Grp.at, this]
  | cons k p ih =>
    have hk : k ≠ name := fun e => hp (by simp [e])
    have hp' : name ∉ p := fun e => hp (by simp [e])
    obtain ⟨hi1, hi2⟩ := (Grp.allInit_iff g).1 hi
    have hget : (g.set name v).get k = (g.get k).map (Val.set name v) := by
      rw [Grp.set_init g hi1]; exact get_setF_other g.fields name k v hk
    cases hgk : g.get k with
    | none => simp [Grp.at, hgk] at hat
    | some x =>
      cases x with
      | atom a =>
        simp only [Grp.at, hgk] at hat
        split at hat <;> simp at hat
      | grp w =>
        simp only [Grp.at, hgk] at hat
        have hw : w.allInit = true := allInit_get g.fields k w hi2 hgk
        have := ih w hw hp' hat
        simpa [Grp.at, hget, hgk, Val.set] using this

/-- Frame: along every path that avoids `name`, what is found after the assignment is what was found before
    (atoms unchanged, groups subjected to the same assignment; nothing appears, nothing vanishes). -/
theorem C19_setattr_frame (g : Grp) (q : List String) (name : String) (v : Val)
    (hi : g.allInit = true) (hq : name ∉ q) :
    (g.set name v).at q = (g.at q).map (Val.set name v) :=
  at_set_other q g name v hi hq

/-- In particular every *other* plain field of every nested group keeps its value. -/
theorem C19_setattr_other_fields_unchanged (g : Grp) (q : List String) (name : String) (v : Val) (a : String)
    (hi : g.allInit = true) (hq : name ∉ q) (hat : g.at q = some (.atom a)) :
    (g.set name v).at q = some (.atom a) := by
  rw [C19_setattr_frame g q name v hi hq, hat]; rfl

/-- A nested group that does not declare `name` does not acquire it. -/
theorem C19_setattr_undeclared (g h : Grp) (p : List String) (name : String) (v : Val)
    (hi : g.allInit = true) (hp : name ∉ p) (hat : g.at p = some (.grp h)) (hd : h.declares name = false) :
    (g.set name v).at (p ++ [name]) = none := by
  induction p generalizing g with
  | nil =>
    simp only [Grp.at, Option.some.injEq, Val.grp.injEq] at hat
    subst hat
    obtain ⟨hi1, _⟩ := (Grp.allInit_iff g).1 hi
    have : (g.set name v).get name = none := by
      rw [Grp.set_init g hi1]; exact get_setF_undeclared g.fields name v hd
    simp [Grp.at, this]
  | cons k p ih =>
    have hk : k ≠ name := fun e => hp (by simp [e])
    have hp' : name ∉ p := fun e => hp (by simp [e])
    obtain ⟨hi1, hi2⟩ := (Grp.allInit_iff g).1 hi
    have hget : (g.set name v).get k = (g.get k).map (Val.set name v) := by
      rw [Grp.set_init g hi1]; exact get_setF_other g.fields name k v hk
    cases hgk : g.get k with
    | none => simp [Grp.at, hgk] at hat
    | some x =>
      cases x with
      | atom a =>
        simp only [Grp.at, hgk] at hat
        split at hat <;> simp at hat
      | grp w =>
        simp only [Grp.at, hgk] at hat
        have hw : w.allInit = true := allInit_get g.fields k w hi2 hgk
        have := ih w hw hp' hat
        simpa [Grp.at, hget, hgk, Val.set] using this

/-- `setattr_spec`: the three facts together, for every tree, every name, every value. -/
theorem C19_setattr_spec (g : Grp) (name : String) (v : Val) (hi : g.allInit = true) :
    (∀ p h, name ∉ p → g.at p = some (.grp h) →
        (g.set name v).at (p ++ [name]) = if h.declares name then some v else none) ∧
    (∀ q, name ∉ q → (g.set name v).at q = (g.at q).map (Val.set name v)) := by
  refine ⟨fun p h hp hat => ?_, fun q hq => C19_setattr_frame g q name v hi hq⟩
  cases hd : h.declares name with
  | true => simpa using C19_setattr_declared g h p name v hi hp hat hd
  | false => simpa using C19_setattr_undeclared g h p name v hi hp hat hd

/-- An uninitialised group (inside the dataclass `__init__`) only stores its own field. -/
theorem C19_setattr_uninitialised (fs : Fields) (name : String) (v : Val) :
    (Grp.mk false fs).set name v = Grp.mk false (fs.assign name v) := by
  simp [Grp.set]

/-- The path-addressed form used by the correspondence, `setattr(follow(root, p), name, v)`, succeeds whenever
    `p` leads to a group and is `set name v` on that group; hence everything nested in that group, at any depth,
    that declares `name` holds `v` afterwards (assignment on a sub-group, e.g. `params.dynamic_obstacle.time_begin`). -/
theorem C19_setAt_declared (g h h' : Grp) (p q : List String) (name : String) (v : Val)
    (hat : g.at p = some (.grp h)) (hi : h.allInit = true) (hq : name ∉ q)
    (hat' : h.at q = some (.grp h')) (hd : h'.declares name = true) :
    ∃ g' k, g.setAt name v p = some g' ∧ g'.at p = some (.grp k) ∧ k.at (q ++ [name]) = some v := by
  obtain ⟨g', e1, e2⟩ := setAt_at p g h name v hat
  exact ⟨g', h.set name v, e1, e2, C19_setattr_declared h h' q name v hi hq hat' hd⟩

/-- A time window set at the top level is the window of every nested group, at any depth. -/
theorem C19_window_everywhere (g h : Grp) (p : List String) (tb te : String)
    (hi : g.allInit = true) (hp1 : "time_begin" ∉ p) (hp2 : "time_end" ∉ p)
    (hat : g.at p = some (.grp h))
    (hd1 : h.declares "time_begin" = true) (hd2 : h.declares "time_end" = true) :
    let g' := (g.set "time_begin" (.atom tb)).set "time_end" (.atom te)
    g'.at (p ++ ["time_begin"]) = some (.atom tb) ∧ g'.at (p ++ ["time_end"]) = some (.atom te) := by
  intro g'
  have h1 := C19_setattr_declared g h p "time_begin" (.atom tb) hi hp1 hat hd1
  -- the first assignment keeps every group initialised and in place
  have hi' : (g.set "time_begin" (.atom tb)).allInit = true := by
    have := set_allInit g "time_begin" (.atom tb) hi (by simp [Val.allInit])
    exact this
  have hat' : (g.set "time_begin" (.atom tb)).at p = some (.grp (h.set "time_begin" (.atom tb))) := by
    rw [C19_setattr_frame g p _ _ hi hp1, hat]; rfl
  have hd2' : (h.set "time_begin" (.atom tb)).declares "time_end" = true := by
    rw [declares_set]; exact hd2
  constructor
  · have hq : "time_end" ∉ p ++ ["time_begin"] := by
      simp only [List.mem_append, List.mem_singleton, not_or]
      exact ⟨hp2, by decide⟩
    show ((g.set "time_begin" (.atom tb)).set "time_end" (.atom te)).at (p ++ ["time_begin"]) = _
    rw [C19_setattr_frame _ _ _ _ hi' hq, h1]; rfl
  · exact C19_setattr_declared _ _ p "time_end" (.atom te) hi' hp2 hat' hd2'

/-- The parameter groups from which the drawing functions read their window
    (mp_renderer.py:487, 518-519, 658-659, 692, 735-740, 927; traffic_sign.py create_img_boxes_traffic_lights). -/
def drawPaths : List (List String) :=
  [["dynamic_obstacle"], ["dynamic_obstacle", "trajectory"], ["static_obstacle"], ["phantom_obstacle"],
   ["environment_obstacle"], ["lanelet_network"], ["lanelet_network", "traffic_light"], ["trajectory"]]

/-- "… so a time window set at the top level applies to every drawn object": after
    `params.time_begin = tb; params.time_end = te` every group a drawing function reads its window from holds
    `(tb, te)` — the hypothesis `Flags.plainAt`'s window equalities of `C19_drawn_eq_model` are established by it. -/
theorem C19_window_reaches_drawing (g : Grp) (tb te : String) (hi : g.allInit = true)
    (hex : ∀ p ∈ drawPaths, ∃ h, g.at p = some (.grp h) ∧ h.declares "time_begin" = true ∧ h.declares "time_end" = true) :
    let g' := (g.set "time_begin" (.atom tb)).set "time_end" (.atom te)
    ∀ p ∈ drawPaths, g'.at (p ++ ["time_begin"]) = some (.atom tb) ∧ g'.at (p ++ ["time_end"]) = some (.atom te) := by
  intro g' p hp
  obtain ⟨h, hat, hd1, hd2⟩ := hex p hp
  have hn : "time_begin" ∉ p ∧ "time_end" ∉ p := by
    simp only [drawPaths, List.mem_cons, List.not_mem_nil, or_false] at hp
    rcases hp with rfl | rfl | rfl | rfl | rfl | rfl | rfl | rfl <;> exact ⟨by decide, by decide⟩
  exact C19_window_everywhere g h p tb te hi hn.1 hn.2 hat hd1 hd2

/-- One re-assignment of `__post_init__` on a fully initialised tree that holds an atom under `name`. -/
theorem reassign_ok (g : Grp) (name a : String) (hg : g.get name = some (.atom a)) :
    g.reassign name = .ok (g.set name (.atom a)) := by
  simp [Grp.reassign, hg]

/-- Construction: a window passed to the constructor of a group (`MPDrawParams(time_begin=…, time_end=…)`)
    is the window of every nested group — `__post_init__` re-assigns it once the group is initialised.
    `pre` is the state at the end of the generated `__init__`: own fields stored, sub-groups constructed. -/
theorem C19_postInit_window (fs : Fields) (h : Grp) (p : List String) (tb te aa : String)
    (hfs : fs.allInit = true)
    (g1 : fs.get "time_begin" = some (.atom tb)) (g2 : fs.get "time_end" = some (.atom te))
    (g3 : fs.get "antialiased" = some (.atom aa))
    (hp1 : "time_begin" ∉ p) (hp2 : "time_end" ∉ p) (hp3 : "antialiased" ∉ p)
    (hat : (Grp.mk true fs).at p = some (.grp h))
    (hd1 : h.declares "time_begin" = true) (hd2 : h.declares "time_end" = true) :
    ∃ g', (Grp.mk false fs).postInit = .ok g' ∧
      g'.at (p ++ ["time_begin"]) = some (.atom tb) ∧ g'.at (p ++ ["time_end"]) = some (.atom te) := by
  let g0 : Grp := .mk true fs
  have hi0 : g0.allInit = true := by simp [g0, Grp.allInit, hfs]
  let ga := g0.set "time_begin" (.atom tb)
  have hia : ga.allInit = true := set_allInit g0 _ _ hi0 (by simp [Val.allInit])
  have ha2 : ga.get "time_end" = some (.atom te) :=
    get_set_other_atom g0 rfl "time_begin" "time_end" te _ (by decide) (by simpa [g0, Grp.get, Grp.fields] using g2)
  have ha3 : ga.get "antialiased" = some (.atom aa) :=
    get_set_other_atom g0 rfl "time_begin" "antialiased" aa _ (by decide) (by simpa [g0, Grp.get, Grp.fields] using g3)
  let gb := ga.set "time_end" (.atom te)
  have hib : gb.allInit = true := set_allInit ga _ _ hia (by simp [Val.allInit])
  have hb3 : gb.get "antialiased" = some (.atom aa) :=
    get_set_other_atom ga (by rw [Grp.set_keeps_init]; rfl) "time_end" "antialiased" aa _ (by decide) ha3
  let gc := gb.set "antialiased" (.atom aa)
  refine ⟨gc, ?_, ?_, ?_⟩
  · have r1 : (Grp.mk false fs).markInit.reassign "time_begin" = .ok ga :=
      reassign_ok g0 "time_begin" tb (by simpa [g0, Grp.get, Grp.fields] using g1)
    have r2 : ga.reassign "time_end" = .ok gb := reassign_ok ga "time_end" te ha2
    have r3 : gb.reassign "antialiased" = .ok gc := reassign_ok gb "antialiased" aa hb3
    simp only [Grp.postInit, r1, r2, r3, bind, Except.bind]
  · have w := C19_window_everywhere g0 h p tb te hi0 hp1 hp2 hat hd1 hd2
    have hq : "antialiased" ∉ p ++ ["time_begin"] := by
      simp only [List.mem_append, List.mem_singleton, not_or]; exact ⟨hp3, by decide⟩
    show (gb.set "antialiased" (.atom aa)).at _ = _
    rw [C19_setattr_frame gb _ _ _ hib hq, show gb = (g0.set "time_begin" (.atom tb)).set "time_end" (.atom te) from rfl,
      w.1]; rfl
  · have w := C19_window_everywhere g0 h p tb te hi0 hp1 hp2 hat hd1 hd2
    have hq : "antialiased" ∉ p ++ ["time_end"] := by
      simp only [List.mem_append, List.mem_singleton, not_or]; exact ⟨hp3, by decide⟩
    show (gb.set "antialiased" (.atom aa)).at _ = _
    rw [C19_setattr_frame gb _ _ _ hib hq, show gb = (g0.set "time_begin" (.atom tb)).set "time_end" (.atom te) from rfl,
      w.2]; rfl

/-! Non-vacuity: a three-level tree in the shape of `MPDrawParams ⊃ dynamic_obstacle ⊃ trajectory`. -/
def exLeaf : Grp := .mk true (.atom "time_begin" "0" (.atom "time_end" "200" (.atom "facecolor" "\"k\"" .nil)))
def exDyn : Grp := .mk true (.atom "time_begin" "0" (.atom "time_end" "200" (.atom "draw_icon" "false"
  (.grp "trajectory" exLeaf .nil))))
def exTop : Grp := .mk true (.atom "time_begin" "0" (.atom "time_end" "200" (.atom "axis_visible" "true"
  (.grp "dynamic_obstacle" exDyn (.grp "trajectory" exLeaf .nil)))))

example : exTop.allInit = true := by decide
example : exTop.at ["dynamic_obstacle", "trajectory"] = some (.grp exLeaf) := by rfl
example : exLeaf.declares "time_begin" = true ∧ exLeaf.declares "time_end" = true := by decide
example : ((exTop.set "time_begin" (.atom "7")).set "time_end" (.atom "9")).at
    ["dynamic_obstacle", "trajectory", "time_end"] = some (.atom "9") := by rfl
example : (exTop.set "time_begin" (.atom "7")).at ["dynamic_obstacle", "trajectory", "facecolor"]
    = some (.atom "\"k\"") := by rfl
-- a group value: nothing inside `exLeaf` declares "trajectory", so it is an admissible value for that name
example : (Val.grp exLeaf).okFor "trajectory" = true := by decide
example : (exTop.set "draw_icon" (.atom "true")).at ["dynamic_obstacle", "draw_icon"] = some (.atom "true") ∧
          (exTop.set "draw_icon" (.atom "true")).at ["draw_icon"] = none := ⟨by rfl, by rfl⟩
-- the hypotheses of C19_postInit_window are satisfiable
example : ∃ g', (Grp.mk false (.atom "time_begin" "5" (.atom "time_end" "8" (.atom "antialiased" "true"
    (.grp "shape" exLeaf .nil))))).postInit = .ok g' ∧ g'.at ["shape", "time_begin"] = some (.atom "5") :=
  ⟨_, by rfl, by rfl⟩

end CR.Params

namespace CR.Draw

/-! ### (b) the obstacle shapes drawn are the occupancies the model reports -/

/-- "Shape drawing on; icons, signals, trajectories, extra occupancies and history off" for the
    dynamic-obstacle group (direction triangle, state marker and label are further extras, off as well). -/
def DynFlags.plain (f : DynFlags) : Prop :=
  f.drawShape = true ∧ f.drawIcon = false ∧ f.drawDirection = false ∧ f.drawSignals = false ∧
  f.drawOccupancies = false ∧ f.drawTrajectory = false ∧ f.drawHistory = false ∧
  f.drawInitialState = false ∧ f.showLabel = false

def PhFlags.plain (f : PhFlags) : Prop := f.drawShape = true ∧ f.drawOccupancies = false

/-- What the property text prescribes for one obstacle and the window `[tb, te)`:
    its occupancy at `tb` if it has one; for a dynamic obstacle with a set-based prediction also the
    occupancies at the later steps of the window; nothing else. -/
def modelShapes (tb te : Int) (o : Obst) : List Item :=
  (if o.occ.mem tb then [Item.occ tb] else []) ++
  (if o.role = .dynamic ∧ o.pred.isSet = true then
     (pyRange (tb + 1) te).flatMap (fun t => if o.occ.mem t then [Item.occ t] else [])
   else [])

/-- Dynamic obstacles: for every well-formed obstacle with exactly known initial position, every window
    `time_begin ≤ time_end` (before, inside, after the horizon) and plain flags, the patches emitted are
    exactly the prescribed ones — in particular the early returns never hide an occupancy that lies in the
    window and never let one through that lies outside. -/
theorem C19_dynamic_drawn_eq_model (f : DynFlags) (o : Obst) (hr : o.role = .dynamic) (hw : o.WF)
    (hu : o.uncInit = false) (hwin : f.tb ≤ f.te) (hp : f.plain) :
    drawDynamic f o = modelShapes f.tb f.te o := by
  obtain ⟨p1, p2, p3, p4, p5, p6, p7, p8, p9⟩ := hp
  by_cases hh : dynHidden f o = true
  · have h0 := hidden_no_occ_tb f o hr hw hwin hh
    have h1 := hidden_no_occ f o hr hw hh
    have h2 : (pyRange (f.tb + 1) f.te).flatMap (fun t => if o.occ.mem t then [Item.occ t] else []) = [] :=
      flatMap_occ_nil o.occ _ _ (fun t a b => h1 t (by omega) b)
    simp [drawDynamic, hh, modelShapes, h0, h2]
  · simp only [Bool.not_eq_true] at hh
    cases hs : o.pred.isSet with
    | false =>
      simp [drawDynamic, hh, modelShapes, iconBlock, occWithInit, p1, p2, p3, p4, p5, p6, p7, p8, p9, hu, hs, hr]
    | true =>
      have ht : o.pred.isTraj = false := by
        cases hpq : o.pred <;> simp [hpq, Pred.isSet, Pred.isTraj] at hs ⊢
      simp [drawDynamic, hh, modelShapes, iconBlock, occWithInit, p1, p2, p3, p4, p5, p6, p7, p8, p9, hu, hs, hr, ht]

/-- Static obstacles (exactly known position): the occupancy at `time_begin`, which always exists. -/
theorem C19_static_drawn_eq_model (tb te : Int) (o : Obst) (hr : o.role = .static) (hw : o.WF)
    (hu : o.uncInit = false) : drawStatic tb o = modelShapes tb te o := by
  simp only [Obst.WF, hr] at hw
  simp [drawStatic, occWithInit, modelShapes, TSet.mem, hw, hu, hr]

/-- Environment obstacles: the occupancy at `time_begin`, which always exists. -/
theorem C19_env_drawn_eq_model (tb te : Int) (o : Obst) (hr : o.role = .env) (hw : o.WF) :
    drawEnv tb o = modelShapes tb te o := by
  simp only [Obst.WF, hr] at hw
  simp [drawEnv, modelShapes, TSet.mem, hw, hr]

/-- Phantom obstacles: the occupancy at `time_begin` if there is one, nothing otherwise. -/
theorem C19_phantom_drawn_eq_model (f : PhFlags) (o : Obst) (hr : o.role = .phantom) (hp : f.plain) :
    drawPhantom f o = modelShapes f.tb f.te o := by
  obtain ⟨p1, p2⟩ := hp
  simp [drawPhantom, modelShapes, p1, p2, hr]

/-- The parameter groups of all four obstacle roles carry one window `[tb, te)` (what a top-level
    assignment establishes, `C19_window_everywhere`) and plain flags. -/
structure Flags.plainAt (f : Flags) (tb te : Int) : Prop where
  dyn : f.dyn.plain
  ph : f.ph.plain
  dynTb : f.dyn.tb = tb
  dynTe : f.dyn.te = te
  phTb : f.ph.tb = tb
  phTe : f.ph.te = te
  stTb : f.tbStatic = tb
  envTb : f.tbEnv = tb

/-- **drawn_eq_model** for whole scenarios: any number of obstacles of any role in any order, any window
    `tb ≤ te`: per obstacle the emitted patches are exactly the prescribed occupancies. -/
theorem C19_drawn_eq_model (f : Flags) (tb te : Int) (os : List Obst) (hf : f.plainAt tb te) (hwin : tb ≤ te)
    (hw : ∀ o ∈ os, o.WF) (hu : ∀ o ∈ os, o.uncInit = false) :
    drawScenario f os = os.map (modelShapes tb te) := by
  simp only [drawScenario]
  apply List.map_congr_left
  intro o ho
  have w := hw o ho
  have u := hu o ho
  cases hr : o.role with
  | dynamic =>
    have := C19_dynamic_drawn_eq_model f.dyn o hr w u (by rw [hf.dynTb, hf.dynTe]; exact hwin) hf.dyn
    simpa [drawObstacle, hr, hf.dynTb, hf.dynTe] using this
  | static =>
    have := C19_static_drawn_eq_model f.tbStatic te o hr w u
    simpa [drawObstacle, hr, hf.stTb] using this
  | env =>
    have := C19_env_drawn_eq_model f.tbEnv te o hr w
    simpa [drawObstacle, hr, hf.envTb] using this
  | phantom =>
    have := C19_phantom_drawn_eq_model f.ph o hr hf.ph
    simpa [drawObstacle, hr, hf.phTb, hf.phTe] using this

/-- "Nothing for an obstacle without occupancy there": no occupancy at `tb` and no set-based prediction
    (or none with an occupancy inside the window) ⇒ no patch at all. -/
theorem C19_nothing_without_occupancy (f : Flags) (tb te : Int) (o : Obst) (hf : f.plainAt tb te) (hwin : tb ≤ te)
    (hw : o.WF) (hu : o.uncInit = false) (h0 : o.occ.mem tb = false)
    (h1 : o.pred.isSet = true → ∀ t, tb < t → t < te → o.occ.mem t = false) :
    drawObstacle f o = [] := by
  have := C19_drawn_eq_model f tb te [o] hf hwin (by simpa using hw) (by simpa using hu)
  simp only [drawScenario, List.map_cons, List.map_nil, List.cons.injEq, and_true] at this
  rw [this]
  simp only [modelShapes, h0]
  by_cases hs : o.role = .dynamic ∧ o.pred.isSet = true
  · have := flatMap_occ_nil o.occ (tb + 1) te (fun t a b => h1 hs.2 t (by omega) b)
    simp [hs, this]
  · simp [hs]

/-- The window end point: with plain flags no occupancy at or after `te` and none before `tb` is drawn. -/
theorem C19_only_inside_window (f : Flags) (tb te : Int) (os : List Obst) (hf : f.plainAt tb te) (hwin : tb ≤ te)
    (hw : ∀ o ∈ os, o.WF) (hu : ∀ o ∈ os, o.uncInit = false) :
    ∀ l ∈ drawScenario f os, ∀ i ∈ l, ∃ t, i = Item.occ t ∧ tb ≤ t ∧ (t = tb ∨ t < te) := by
  rw [C19_drawn_eq_model f tb te os hf hwin hw hu]
  intro l hl i hi
  simp only [List.mem_map] at hl
  obtain ⟨o, _, rfl⟩ := hl
  simp only [modelShapes, List.mem_append] at hi
  rcases hi with hi | hi
  · split at hi
    · simp only [List.mem_singleton] at hi; exact ⟨tb, hi, by omega, Or.inl rfl⟩
    · simp at hi
  · split at hi
    · simp only [List.mem_flatMap] at hi
      obtain ⟨t, ht, hi⟩ := hi
      have := (mem_pyRange _ _ _).1 ht
      split at hi
      · simp only [List.mem_singleton] at hi; exact ⟨t, hi, by omega, Or.inr this.2⟩
      · simp at hi
    · simp at hi

/-! ### (c) lanelet and planning-problem id filters -/

/-- Without a filter all lanelets are drawn (same order, same multiplicity). -/
theorem C19_lanelets_drawn_all (ids : List Int) : laneletsDrawn ids none = ids := by
  simp [laneletsDrawn]

/-- With a filter exactly the selected lanelets of the network are drawn. -/
theorem C19_lanelets_drawn_selected (ids sel : List Int) (i : Int) :
    i ∈ laneletsDrawn ids (some sel) ↔ i ∈ ids ∧ i ∈ sel := by
  simp [laneletsDrawn]

/-- … each as often and in the order in which the network lists it. -/
theorem C19_lanelets_drawn_sublist (ids : List Int) (d : Option (List Int)) :
    (laneletsDrawn ids d).Sublist ids := by
  simp only [laneletsDrawn]; exact List.filter_sublist

/-- The same for the planning problems of a planning-problem set. -/
theorem C19_problems_drawn (ids : List Int) (d : Option (List Int)) (i : Int) :
    i ∈ problemsDrawn ids d ↔ i ∈ ids ∧ (d = none ∨ ∃ sel, d = some sel ∧ i ∈ sel) := by
  cases d <;> simp [problemsDrawn]

/-! ### (d) totality -/

/-- FULL statement of the totality clause for an implementation `impl` of draw + render (flags and scenario in,
    patches or an exception class out): it never raises. -/
def C19_total_full (impl : Flags → List Obst → Res (List (List Item))) : Prop :=
  ∀ f os, ∃ r, impl f os = .ok r

/-- PARTIAL: what is proved is totality of the *selection logic* (the model is a total function: no guard of
    `draw_dynamic_obstacle` / `draw_phantom_obstacle` / … divides, indexes or dereferences `None`).
    Missing: `MPRenderer.draw*`/`render` also run geometry code, matplotlib artists, PIL image loading and the
    Agg rasteriser, none of which is modelled in Lean; that those never raise is a claim about matplotlib and
    is only *explored* by the harness (parameter lattice × windows × id filters under MPLBACKEND=Agg, every
    exception an oracle failure `C19/<stage>/raises-…`). -/
theorem C19_total_partial : C19_total_full (fun f os => .ok (drawScenario f os)) :=
  fun f os => ⟨drawScenario f os, rfl⟩

/-! Non-vacuity: a dynamic obstacle with a set-based prediction (initial step 2, occupancies 3..5),
    one with a trajectory, a static one; windows before / inside / after the horizon. -/
def exNo : TSet := ⟨false, []⟩
def exSet : Obst where
  role := .dynamic
  initTs := 2
  pred := .setb 5
  occ := ⟨false, [2, 3, 4, 5]⟩
  uncInit := false
  stateAt := exNo
  uncAt := exNo
  sigAt := exNo
  rectAt := exNo
  iconType := true
  hasLW := true
def exTraj : Obst := { exSet with pred := .traj 5, stateAt := ⟨false, [3, 4, 5]⟩ }
def exStatic : Obst := { exSet with role := .static, pred := .none, occ := ⟨true, []⟩ }
def exDynFlags (tb te : Int) : DynFlags where
  tb := tb
  te := te
  drawShape := true
  drawIcon := false
  drawDirection := false
  drawSignals := false
  drawOccupancies := false
  drawTrajectory := false
  drawHistory := false
  histSteps := 5
  histStepSize := 1
  drawInitialState := false
  showLabel := false
  trajTb := tb
  trajTe := te
  trajContinuous := false
def exFlags (tb te : Int) : Flags := { dyn := exDynFlags tb te, ph := ⟨tb, te, true, false⟩, tbStatic := tb, tbEnv := tb }

example : exSet.WF := by
  simp only [Obst.WF, exSet, TSet.mem, Bool.false_or, List.contains_eq_mem, decide_eq_true_eq]
  intro t h
  simp only [List.mem_cons, List.not_mem_nil, or_false] at h
  rcases h with rfl | rfl | rfl | rfl <;> simp [Pred.isNone, Pred.final]
example : exStatic.WF := by simp [Obst.WF, exStatic, exSet]
example (tb te : Int) : (exFlags tb te).plainAt tb te :=
  ⟨by simp [exFlags, exDynFlags, DynFlags.plain], by simp [exFlags, PhFlags.plain], rfl, rfl, rfl, rfl, rfl, rfl⟩
-- inside the horizon: the occupancy at time_begin and the later steps of the window, not the end point
example : drawScenario (exFlags 3 5) [exSet, exTraj, exStatic] = [[.occ 3, .occ 4], [.occ 3], [.occ 3]] := by decide
-- window before the initial time step but reaching into the horizon: only the set-based later steps
example : drawScenario (exFlags 0 4) [exSet, exTraj, exStatic] = [[.occ 2, .occ 3], [], [.occ 0]] := by decide
-- window after the horizon: nothing for the dynamic obstacles
example : drawScenario (exFlags 6 9) [exSet, exTraj, exStatic] = [[], [], [.occ 6]] := by decide
example : laneletsDrawn [10, 11, 20] (some [20, 10, 99]) = [10, 20] := by decide

end CR.Draw
