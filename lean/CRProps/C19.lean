/-
  C19 — Rendering is total and shows the model at the selected time.
  Property theorems only (helper lemmas: CRProofs/Params.lean, CRProofs/DrawSelect.lean).
  Models: CRModel/Params.lean (BaseParam.__setattr__, draw_params.py:26-52),
          CRModel/DrawSelect.lean (selection logic of mp_renderer.py:454-778, 1047-1049, 1490-1492).

  Clauses of the property text and where they are:
   (a) "Setting a parameter on a parameter group sets it on every nested group that declares it, so a time
       window set at the top level applies to every drawn object"
         C19_setattr_declared, C19_setattr_frame, C19_setattr_undeclared, C19_setattr_spec,
         C19_window_everywhere, C19_postInit_window, C19_window_reaches_drawing
   (b) "the obstacle shapes drawn are exactly the occupancies the model reports …"
         C19_dynamic_drawn_eq_model, C19_static_drawn_eq_model, C19_env_drawn_eq_model,
         C19_phantom_drawn_eq_model, C19_drawn_eq_model, C19_nothing_without_occupancy
   (c) "all lanelets (or exactly the selected ones) are drawn"
         C19_lanelets_drawn_all, C19_lanelets_drawn_selected, C19_problems_drawn
   (d) "drawing … and rendering the figure completes without an exception"
         C19_total_full (statement), C19_total_partial (what is proved) — see the comment there.
-/
import CRProofs.Params
import CRProofs.DrawSelect

namespace CR.Params

/-! ### (a) parameter propagation -/

/-- Every nested group, at any depth, that declares `name` holds the assigned value afterwards.
    `p` is the path (field names) from the group on which the assignment is made to the nested group `h`;
    `name ∉ p` says the path does not run through a field that is itself being replaced. -/
theorem C19_setattr_declared (g h : Grp) (p : List String) (name : String) (v : Val)
    (hi : g.allInit = true) (hp : name ∉ p) (hat : g.at p = some (.grp h)) (hd : h.declares name = true) :
    (g.set name v).at (p ++ [name]) = some v := by
  induction p generalizing g with
  | nil =>
    simp only [Grp.at, Option.some.injEq, Val.grp.injEq] at hat
    subst hat
    obtain ⟨hi1, _⟩ := (Grp.allInit_iff g).1 hi
    have : (g.set name v).get name = some v := by
      rw [Grp.set_init g hi1]; exact get_setF_same g.fields name v hd
    cases v with
    | atom a => simp [Grp.at, this]
    | grp w => simp [Grp.at, this]
  | cons k p ih =>
    have hk : k ≠ name := fun e => hp (by simp [e])
    have hp' : name ∉ p := fun e => hp (by simp [e])
    obtain ⟨hi1, hi2⟩ := (Grp.allInit_iff g).1 hi
    have hget : (g.set name v).get k = (g.get k).map (Val.set name v) := by
      rw [Grp.set_init g hi1]; exact get_setF_other g.fields name k v hk
    cases hgk : g.get k with
    | none => simp [Grp.at, hgk] at hat
    | some x =>
      cases x with
      | atom a =>
        simp only [Grp.at, hgk] at hat
        split at hat <;> simp at hat
      | grp w =>
        simp only [Grp.at, hgk] at hat
        have hw : w.allInit = true := allInit_get g.fields k w hi2 hgk
        have := ih w hw hp' hat
        simpa [Grp.at, hget, hgk, Val.set] using this

/-- Frame: along every path that avoids `name`, what is found after the assignment is what was found before
    (atoms unchanged, groups subjected to the same assignment; nothing appears, nothing vanishes). -/
theorem C19_setattr_frame (g : Grp) (q : List String) (name : String) (v : Val)
    (hi : g.allInit = true) (hq : name ∉ q) :
    (g.set name v).at q = (g.at q).map (Val.set name v) :=
  at_set_other q g name v hi hq

/-- In particular every *other* plain field of every nested group keeps its value. -/
theorem C19_setattr_other_fields_unchanged (g : Grp) (q : List String) (name : String) (v : Val) (a : String)
    (hi : g.allInit = true) (hq : name ∉ q) (hat : g.at q = some (.atom a)) :
    (g.set name v).at q = some (.atom a) := by
  rw [C19_setattr_frame g q name v hi hq, hat]; rfl

/-- A nested group that does not declare `name` does not acquire it. -/
theorem C19_setattr_undeclared (g h : Grp) (p : List String) (name : String) (v : Val)
    (hi : g.allInit = true) (hp : name ∉ p) (hat : g.at p = some (.grp h)) (hd : h.declares name = false) :
    (g.set name v).at (p ++ [name]) = none := by
  induction p generalizing g with
  | nil =>
    simp only [Grp.at, Option.some.injEq, Val.grp.injEq] at hat
    subst hat
    obtain ⟨hi1, _⟩ := (Grp.allInit_iff g).1 hi
    have : (g.set name v).get name = none := by
      rw [Grp.set_init g hi1]; exact get_setF_undeclared g.fields name v hd
    simp [Grp.at, this]
  | cons k p ih =>
    have hk : k ≠ name := fun e => hp (by simp [e])
    have hp' : name ∉ p := fun e => hp (by simp [e])
    obtain ⟨hi1, hi2⟩ := (Grp.allInit_iff g).1 hi
    have hget : (g.set name v).get k = (g.get k).map (Val.set name v) := by
      rw [Grp.set_init g hi1]; exact get_setF_other g.fields name k v hk
    cases hgk : g.get k with
    | none => simp [Grp.at, hgk] at hat
    | some x =>
      cases x with
      | atom a =>
        simp only [Grp.at, hgk] at hat
        split at hat <;> simp at hat
      | grp w =>
        simp only [Grp.at, hgk] at hat
        have hw : w.allInit = true := allInit_get g.fields k w hi2 hgk
        have := ih w hw hp' hat
        simpa [Grp.at, hget, hgk, Val.set] using this

/-- `setattr_spec`: the three facts together, for every tree, every name, every value. -/
theorem C19_setattr_spec (g : Grp) (name : String) (v : Val) (hi : g.allInit = true) :
    (∀ p h, name ∉ p → g.at p = some (.grp h) →
        (g.set name v).at (p ++ [name]) = if h.declares name then some v else none) ∧
    (∀ q, name ∉ q → (g.set name v).at q = (g.at q).map (Val.set name v)) := by
  refine ⟨fun p h hp hat => ?_, fun q hq => C19_setattr_frame g q name v hi hq⟩
  cases hd : h.declares name with
  | true => simpa using C19_setattr_declared g h p name v hi hp hat hd
  | false => simpa using C19_setattr_undeclared g h p name v hi hp hat hd

/-- An uninitialised group (inside the dataclass `__init__`) only stores its own field. -/
theorem C19_setattr_uninitialised (fs : Fields) (name : String) (v : Val) :
    (Grp.mk false fs).set name v = Grp.mk false (fs.assign name v) := by
  simp [Grp.set]

/-- The path-addressed form used by the correspondence is `set` on the group the path leads to. -/
theorem C19_setAt_nil (g : Grp) (name : String) (v : Val) : g.setAt name v [] = some (g.set name v) := by
  cases g; simp [Grp.setAt]

/-- A time window set at the top level is the window of every nested group, at any depth. -/
theorem C19_window_everywhere (g h : Grp) (p : List String) (tb te : String)
    (hi : g.allInit = true) (hp1 : "time_begin" ∉ p) (hp2 : "time_end" ∉ p)
    (hat : g.at p = some (.grp h))
    (hd1 : h.declares "time_begin" = true) (hd2 : h.declares "time_end" = true) :
    let g' := (g.set "time_begin" (.atom tb)).set "time_end" (.atom te)
    g'.at (p ++ ["time_begin"]) = some (.atom tb) ∧ g'.at (p ++ ["time_end"]) = some (.atom te) := by
  intro g'
  have h1 := C19_setattr_declared g h p "time_begin" (.atom tb) hi hp1 hat hd1
  -- the first assignment keeps every group initialised and in place
  have hi' : (g.set "time_begin" (.atom tb)).allInit = true := by
    have := set_allInit g "time_begin" (.atom tb) hi (by simp [Val.allInit])
    exact this
  have hat' : (g.set "time_begin" (.atom tb)).at p = some (.grp (h.set "time_begin" (.atom tb))) := by
    rw [C19_setattr_frame g p _ _ hi hp1, hat]; rfl
  have hd2' : (h.set "time_begin" (.atom tb)).declares "time_end" = true := by
    rw [declares_set]; exact hd2
  constructor
  · have hq : "time_end" ∉ p ++ ["time_begin"] := by
      simp only [List.mem_append, List.mem_singleton, not_or]
      exact ⟨hp2, by decide⟩
    show ((g.set "time_begin" (.atom tb)).set "time_end" (.atom te)).at (p ++ ["time_begin"]) = _
    rw [C19_setattr_frame _ _ _ _ hi' hq, h1]; rfl
  · exact C19_setattr_declared _ _ p "time_end" (.atom te) hi' hp2 hat' hd2'

end CR.Params
