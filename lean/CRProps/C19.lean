/-
  C19 — Rendering is total and shows the model at the selected time.
  Property theorems only (helper lemmas: CRProofs/Params.lean, CRProofs/DrawSelect.lean, CRProofs/DrawParams.lean).
  Models: CRModel/Params.lean (BaseParam.__setattr__, draw_params.py:26-52),
          CRModel/DrawSelect.lean (selection logic of mp_renderer.py:454-778, 1047-1124, 1437-1463, 1490-1492 and
                                   traffic_sign.py:509-531; total form and form with explicit partial reads),
          CRModel/DrawParams.lean (`flagsOf`: how the drawing functions read flags and windows from the parameter tree).

  Clauses of the property text and where they are:
   (a) "Setting a parameter on a parameter group sets it on every nested group that declares it, so a time
       window set at the top level applies to every drawn object"
         C19_setattr_declared, C19_setattr_frame, C19_setattr_undeclared, C19_setattr_spec, C19_setAt_declared,
         C19_getitem, C19_setitem_getitem (item access `params[k]`),
         C19_window_everywhere, C19_postInit_window, C19_window_reaches_drawing, C19_top_level_window_drawn
   (b) "the obstacle shapes drawn are exactly the occupancies the model reports …"
         C19_shapes_iff_prescribed, C19_only_occupancies_drawn, C19_scenario_shapes, C19_nothing_iff_no_occupancy,
         C19_no_occupancy_at_begin_nothing_drawn (begin step in the gap before a late-starting trajectory prediction),
         C19_witness_inverted_window (why `time_begin ≤ time_end` is assumed), C19_frames_independent, C19_show_after_clearing (several frames / operation histories on one renderer),
         C19_video_frames_on_axes, C19_render_on_axes (what is on the AXES after every frame of the per-frame entry points)
   (c) "all lanelets (or exactly the selected ones) are drawn"        C19_id_filter (definitional)
   (d) "drawing … and rendering the figure completes without an exception"
         C19_total_full (statement about an implementation), C19_total_selection_partial, C19_total_net_partial,
         C19_total_light_labels_partial (what is proved: the selection logic, with every partial read explicit,
         never fails), C19_witness_* (the explicit reads do fail without the guards) — matplotlib is not modelled.
-/
import CRProofs.Params
import CRProofs.DrawSelect
import CRProofs.DrawParams
set_option linter.unusedSimpArgs false

namespace CR.Params

/-! ### (a) parameter propagation -/

/-- Every nested group, at any depth, that declares `name` holds the assigned value afterwards.
    `p` is the path (field names) from the group on which the assignment is made to the nested group `h`;
    `name ∉ p` says the path does not run through a field that is itself being replaced.
    (Statement about the tree function `Grp.set`; it is Python's result whenever `v.okFor name`, see `C19_setattr_spec`.) -/
theorem C19_setattr_declared (g h : Grp) (p : List String) (name : String) (v : Val)
    (hi : g.allInit = true) (hp : name ∉ p) (hat : g.at p = some (.grp h)) (hd : h.declares name = true) :
    (g.set name v).at (p ++ [name]) = some v :=
  at_set_declared g h p name v hi hp hat hd

/-- Frame: along every path that avoids `name`, what is found after the assignment is what was found before
    (atoms unchanged, groups subjected to the same assignment; nothing appears, nothing vanishes). -/
theorem C19_setattr_frame (g : Grp) (q : List String) (name : String) (v : Val)
    (hi : g.allInit = true) (hq : name ∉ q) :
    (g.set name v).at q = (g.at q).map (Val.set name v) :=
  at_set_other q g name v hi hq

/-- In particular every *other* plain field of every nested group keeps its value. -/
theorem C19_setattr_other_fields_unchanged (g : Grp) (q : List String) (name : String) (v : Val) (a : String)
    (hi : g.allInit = true) (hq : name ∉ q) (hat : g.at q = some (.atom a)) :
    (g.set name v).at q = some (.atom a) := by
  rw [C19_setattr_frame g q name v hi hq, hat]; rfl

/-- A nested group that does not declare `name` does not acquire it. -/
theorem C19_setattr_undeclared (g h : Grp) (p : List String) (name : String) (v : Val)
    (hi : g.allInit = true) (hp : name ∉ p) (hat : g.at p = some (.grp h)) (hd : h.declares name = false) :
    (g.set name v).at (p ++ [name]) = none :=
  at_set_undeclared g h p name v hi hp hat hd

/-- `setattr_spec`, about Python's assignment `Grp.setPy` (which raises `RecursionError` in the self-referential case):
    for every fully initialised tree, every name and every admissible value — a plain value, or a parameter group in
    which no group declares `name` (`okFor`; true for every type-correct value of every field of draw_params.py) —
    the assignment succeeds, every nested group that declares the name holds the value, no other group acquires it,
    and everything else is unchanged. -/
theorem C19_setattr_spec (g : Grp) (name : String) (v : Val) (hi : g.allInit = true) (hv : v.okFor name = true) :
    ∃ g', g.setPy name v = .ok g' ∧
    (∀ p h, name ∉ p → g.at p = some (.grp h) →
        g'.at (p ++ [name]) = if h.declares name then some v else none) ∧
    (∀ q, name ∉ q → g'.at q = (g.at q).map (Val.set name v)) := by
  refine ⟨g.set name v, setPy_ok g name v hv, fun p h hp hat => ?_, fun q hq => C19_setattr_frame g q name v hi hq⟩
  cases hd : h.declares name with
  | true => simpa using C19_setattr_declared g h p name v hi hp hat hd
  | false => simpa using C19_setattr_undeclared g h p name v hi hp hat hd

/-- Outside `okFor` (a group inside the assigned value declares the assigned name, e.g. `h = HistoryParams();
    params.occupancy = h`) Python does not terminate normally as soon as the value is stored anywhere: `RecursionError`.
    (definitional: documents the model of this case, which the correspondence replays on the real code; carries no proof content) -/
theorem C19_setattr_selfref_recursion (g : Grp) (name : String) (v : Val)
    (hv : v.okFor name = false) (hs : g.stores name = true) : g.setPy name v = .error .other := by
  simp [Grp.setPy, hv, hs]

/-- An uninitialised group (inside the dataclass `__init__`) only stores its own field.
    (definitional: documents the model, carries no proof content) -/
theorem C19_setattr_uninitialised (fs : Fields) (name : String) (v : Val) :
    (Grp.mk false fs).set name v = Grp.mk false (fs.assign name v) := by
  simp [Grp.set]

/-- The path-addressed form used by the correspondence, `setattr(follow(root, p), name, v)`, succeeds whenever
    `p` leads to a group and is `set name v` on that group; hence everything nested in that group, at any depth,
    that declares `name` holds `v` afterwards (assignment on a sub-group, e.g. `params.dynamic_obstacle.time_begin`). -/
theorem C19_setAt_declared (g h h' : Grp) (p q : List String) (name : String) (v : Val)
    (hat : g.at p = some (.grp h)) (hi : h.allInit = true) (hq : name ∉ q)
    (hat' : h.at q = some (.grp h')) (hd : h'.declares name = true) :
    ∃ g' k, g.setAt name v p = some g' ∧ g'.at p = some (.grp k) ∧ k.at (q ++ [name]) = some v := by
  obtain ⟨g', e1, e2⟩ := setAt_at p g h name v hat
  exact ⟨g', h.set name v, e1, e2, C19_setattr_declared h h' q name v hi hq hat' hd⟩

/-- `params[k]` (`BaseParam.__getitem__`) is the field `k`; `KeyError` exactly when the group has no such field. -/
theorem C19_getitem (g : Grp) (k : String) :
    (∀ v, g.getItem k = .ok v ↔ g.get k = some v) ∧ (g.getItem k = .error .key ↔ g.get k = none) := by
  unfold Grp.getItem
  cases h : g.get k <;> simp

/-- `params[k] = v` (`BaseParam.__setitem__`) on a fully initialised group that declares `k`, for an admissible value:
    it succeeds, `params[k]` then reads `v`, and every nested group that declares `k` holds `v` as well
    (item assignment propagates exactly like attribute assignment). -/
theorem C19_setitem_getitem (g : Grp) (k : String) (v : Val) (hi : g.allInit = true) (hd : g.declares k = true)
    (hv : v.okFor k = true) :
    ∃ g', g.setItem k v = .ok g' ∧ g'.getItem k = .ok v ∧
      ∀ p h, k ∉ p → g.at p = some (.grp h) → h.declares k = true → g'.at (p ++ [k]) = some v := by
  refine ⟨g.set k v, setPy_ok g k v hv, ?_, fun p h hp hat hd' => C19_setattr_declared g h p k v hi hp hat hd'⟩
  have h0 := C19_setattr_declared g g [] k v hi (by simp) rfl hd
  simp only [List.nil_append, Grp.at] at h0
  unfold Grp.getItem
  cases hg : (g.set k v).get k with
  | none => simp [hg] at h0
  | some w =>
    cases w with
    | atom a => simp [hg] at h0; simp [h0]
    | grp h => simp [hg, Grp.at] at h0; simp [h0]

/-- A time window set at the top level is the window of every nested group, at any depth. -/
theorem C19_window_everywhere (g h : Grp) (p : List String) (tb te : String)
    (hi : g.allInit = true) (hp1 : "time_begin" ∉ p) (hp2 : "time_end" ∉ p)
    (hat : g.at p = some (.grp h))
    (hd1 : h.declares "time_begin" = true) (hd2 : h.declares "time_end" = true) :
    let g' := (g.set "time_begin" (.atom tb)).set "time_end" (.atom te)
    g'.at (p ++ ["time_begin"]) = some (.atom tb) ∧ g'.at (p ++ ["time_end"]) = some (.atom te) := by
  intro g'
  have h1 := C19_setattr_declared g h p "time_begin" (.atom tb) hi hp1 hat hd1
  -- the first assignment keeps every group initialised and in place
  have hi' : (g.set "time_begin" (.atom tb)).allInit = true := by
    have := set_allInit g "time_begin" (.atom tb) hi (by simp [Val.allInit])
    exact this
  have hat' : (g.set "time_begin" (.atom tb)).at p = some (.grp (h.set "time_begin" (.atom tb))) := by
    rw [C19_setattr_frame g p _ _ hi hp1, hat]; rfl
  have hd2' : (h.set "time_begin" (.atom tb)).declares "time_end" = true := by
    rw [declares_set]; exact hd2
  constructor
  · have hq : "time_end" ∉ p ++ ["time_begin"] := by
      simp only [List.mem_append, List.mem_singleton, not_or]
      exact ⟨hp2, by decide⟩
    show ((g.set "time_begin" (.atom tb)).set "time_end" (.atom te)).at (p ++ ["time_begin"]) = _
    rw [C19_setattr_frame _ _ _ _ hi' hq, h1]; rfl
  · exact C19_setattr_declared _ _ p "time_end" (.atom te) hi' hp2 hat' hd2'

/-- Construction: a window passed to the constructor of a group (`MPDrawParams(time_begin=…, time_end=…)`)
    is the window of every nested group — `__post_init__` re-assigns it once the group is initialised.
    `pre` is the state at the end of the generated `__init__`: own fields stored, sub-groups constructed. -/
theorem C19_postInit_window (fs : Fields) (h : Grp) (p : List String) (tb te aa : String)
    (hfs : fs.allInit = true)
    (g1 : fs.get "time_begin" = some (.atom tb)) (g2 : fs.get "time_end" = some (.atom te))
    (g3 : fs.get "antialiased" = some (.atom aa))
    (hp1 : "time_begin" ∉ p) (hp2 : "time_end" ∉ p) (hp3 : "antialiased" ∉ p)
    (hat : (Grp.mk true fs).at p = some (.grp h))
    (hd1 : h.declares "time_begin" = true) (hd2 : h.declares "time_end" = true) :
    ∃ g', (Grp.mk false fs).postInit = .ok g' ∧
      g'.at (p ++ ["time_begin"]) = some (.atom tb) ∧ g'.at (p ++ ["time_end"]) = some (.atom te) := by
  let g0 : Grp := .mk true fs
  have hi0 : g0.allInit = true := by simp [g0, Grp.allInit, hfs]
  let ga := g0.set "time_begin" (.atom tb)
  have hia : ga.allInit = true := set_allInit g0 _ _ hi0 (by simp [Val.allInit])
  have ha2 : ga.get "time_end" = some (.atom te) :=
    get_set_other_atom g0 rfl "time_begin" "time_end" te _ (by decide) (by simpa [g0, Grp.get, Grp.fields] using g2)
  have ha3 : ga.get "antialiased" = some (.atom aa) :=
    get_set_other_atom g0 rfl "time_begin" "antialiased" aa _ (by decide) (by simpa [g0, Grp.get, Grp.fields] using g3)
  let gb := ga.set "time_end" (.atom te)
  have hib : gb.allInit = true := set_allInit ga _ _ hia (by simp [Val.allInit])
  have hb3 : gb.get "antialiased" = some (.atom aa) :=
    get_set_other_atom ga (by rw [Grp.set_keeps_init]; rfl) "time_end" "antialiased" aa _ (by decide) ha3
  let gc := gb.set "antialiased" (.atom aa)
  refine ⟨gc, ?_, ?_, ?_⟩
  · have r1 : (Grp.mk false fs).markInit.reassign "time_begin" = .ok ga :=
      reassign_ok g0 "time_begin" tb (by simpa [g0, Grp.get, Grp.fields] using g1)
    have r2 : ga.reassign "time_end" = .ok gb := reassign_ok ga "time_end" te ha2
    have r3 : gb.reassign "antialiased" = .ok gc := reassign_ok gb "antialiased" aa hb3
    simp only [Grp.postInit, r1, r2, r3, bind, Except.bind]
  · have w := C19_window_everywhere g0 h p tb te hi0 hp1 hp2 hat hd1 hd2
    have hq : "antialiased" ∉ p ++ ["time_begin"] := by
      simp only [List.mem_append, List.mem_singleton, not_or]; exact ⟨hp3, by decide⟩
    show (gb.set "antialiased" (.atom aa)).at _ = _
    rw [C19_setattr_frame gb _ _ _ hib hq, show gb = (g0.set "time_begin" (.atom tb)).set "time_end" (.atom te) from rfl,
      w.1]; rfl
  · have w := C19_window_everywhere g0 h p tb te hi0 hp1 hp2 hat hd1 hd2
    have hq : "antialiased" ∉ p ++ ["time_end"] := by
      simp only [List.mem_append, List.mem_singleton, not_or]; exact ⟨hp3, by decide⟩
    show (gb.set "antialiased" (.atom aa)).at _ = _
    rw [C19_setattr_frame gb _ _ _ hib hq, show gb = (g0.set "time_begin" (.atom tb)).set "time_end" (.atom te) from rfl,
      w.2]; rfl

/-! Non-vacuity: a three-level tree in the shape of `MPDrawParams ⊃ dynamic_obstacle ⊃ trajectory`. -/
def exLeaf : Grp := .mk true (.atom "time_begin" "0" (.atom "time_end" "200" (.atom "facecolor" "\"k\"" .nil)))
def exDyn : Grp := .mk true (.atom "time_begin" "0" (.atom "time_end" "200" (.atom "draw_icon" "false"
  (.grp "trajectory" exLeaf .nil))))
def exTop : Grp := .mk true (.atom "time_begin" "0" (.atom "time_end" "200" (.atom "axis_visible" "true"
  (.grp "dynamic_obstacle" exDyn (.grp "trajectory" exLeaf .nil)))))

example : exTop.allInit = true := by decide
example : exTop.at ["dynamic_obstacle", "trajectory"] = some (.grp exLeaf) := by rfl
example : exLeaf.declares "time_begin" = true ∧ exLeaf.declares "time_end" = true := by decide
example : ((exTop.set "time_begin" (.atom "7")).set "time_end" (.atom "9")).at
    ["dynamic_obstacle", "trajectory", "time_end"] = some (.atom "9") := by rfl
example : (exTop.set "time_begin" (.atom "7")).at ["dynamic_obstacle", "trajectory", "facecolor"]
    = some (.atom "\"k\"") := by rfl
-- a group value: nothing inside `exLeaf` declares "trajectory", so it is an admissible value for that name
example : (Val.grp exLeaf).okFor "trajectory" = true := by decide
example : (exTop.set "draw_icon" (.atom "true")).at ["dynamic_obstacle", "draw_icon"] = some (.atom "true") ∧
          (exTop.set "draw_icon" (.atom "true")).at ["draw_icon"] = none := ⟨by rfl, by rfl⟩
-- the hypotheses of C19_postInit_window are satisfiable
example : ∃ g', (Grp.mk false (.atom "time_begin" "5" (.atom "time_end" "8" (.atom "antialiased" "true"
    (.grp "shape" exLeaf .nil))))).postInit = .ok g' ∧ g'.at ["shape", "time_begin"] = some (.atom "5") :=
  ⟨_, by rfl, by rfl⟩

-- the self-referential case: a group that declares `occupancy` assigned as `occupancy`
example : (Val.grp exDyn).okFor "trajectory" = false := by decide
example : exTop.setPy "trajectory" (.grp exDyn) = .error .other := by rfl

end CR.Params

namespace CR.Draw
open CR.Params

/-! ### (a, continued) the window reaches the drawing functions -/

/-- "… so a time window set at the top level applies to every drawn object", through `flagsOf`, the function by which
    `draw_scenario` and the functions it calls read their flags from the parameter object: after
    `params.time_begin = tb; params.time_end = te` the dynamic-obstacle group, its trajectory group, the phantom-,
    static- and environment-obstacle groups (`windowPaths`) all hold the window `[tb, te)` and every other flag read
    by the selection logic is what it was.  `atb`, `ate` are the atoms (JSON texts) of the two integers. -/
theorem C19_window_reaches_drawing (g : Grp) (hi : g.allInit = true) (atb ate : String) (tb te : Int) (f : Flags)
    (htb : parseInt atb = some tb) (hte : parseInt ate = some te) (hf : flagsOf g = some f) :
    flagsOf ((g.set "time_begin" (.atom atb)).set "time_end" (.atom ate)) = some (withWindow f tb te) :=
  flagsOf_window g hi atb ate tb te f htb hte hf

/-! ### (b) the obstacle shapes drawn are the occupancies the model reports -/

/-- The property text, as a predicate on time steps (no reference to the drawers' loops): the occupancy of obstacle
    `o` at step `t` is to be drawn for the window `[tb, te)` iff the obstacle has an occupancy at `t` and `t` is the
    selected begin step or — for a dynamic obstacle with a set-based prediction — a later step of the window. -/
def Prescribed (tb te : Int) (o : Obst) (t : Int) : Prop :=
  o.occ.mem t = true ∧ (t = tb ∨ (o.role = .dynamic ∧ o.pred.isSet = true ∧ tb < t ∧ t < te))

/-- **The obstacle shapes drawn are exactly the occupancies the text prescribes**, for an obstacle of any role, any
    window `tb ≤ te` (before, inside, after the horizon) and the flags of the text: the time steps of the occupancy
    patches emitted for `o` are strictly increasing (so each is drawn once) and `t` is among them iff `Prescribed`.
    Needed beyond the text: `tb ≤ te` (`C19_witness_inverted_window`), `o.WF` (what `occupancy_at_time` guarantees). -/
theorem C19_shapes_iff_prescribed (f : Flags) (tb te : Int) (o : Obst) (hf : f.textAt tb te) (hwin : tb ≤ te) (hw : o.WF) :
    (occItems (drawObstacle f o)).Pairwise (· < ·) ∧
    ∀ t, t ∈ occItems (drawObstacle f o) ↔ Prescribed tb te o t := by
  rw [occItems_drawObstacle f tb te o hf hwin hw]
  constructor
  · rw [List.pairwise_append]
    refine ⟨by split <;> simp, ?_, ?_⟩
    · split
      · exact (pyRange_pairwise _ _).filter _
      · simp
    · intro a ha b hb
      split at ha
      · simp only [List.mem_singleton] at ha
        split at hb
        · have := (mem_pyRange _ _ _).1 (List.mem_filter.1 hb).1
          omega
        · simp at hb
      · simp at ha
  · intro t
    simp only [List.mem_append, Prescribed]
    constructor
    · rintro (h | h)
      · split at h
        · simp only [List.mem_singleton] at h; subst h; exact ⟨by assumption, Or.inl rfl⟩
        · simp at h
      · split at h
        · rename_i hc
          obtain ⟨h1, h2⟩ := List.mem_filter.1 h
          have := (mem_pyRange _ _ _).1 h1
          exact ⟨by simpa using h2, Or.inr ⟨hc.1, hc.2, by omega, this.2⟩⟩
        · simp at h
    · rintro ⟨hm, (rfl | ⟨h1, h2, h3, h4⟩)⟩
      · left; simp [hm]
      · right
        simp only [h1, h2, and_self, if_true]
        exact List.mem_filter.2 ⟨(mem_pyRange _ _ _).2 ⟨by omega, h4⟩, by simpa using hm⟩

/-- … and with the further extras off (`draw_direction`, `draw_initial_state`, `show_label`, which the text does not
    name but which add a triangle / a state marker / a label) and an exactly known initial position (an uncertain one
    is drawn as an additional shape), *nothing but* these occupancy patches is emitted. -/
theorem C19_only_occupancies_drawn (f : Flags) (tb te : Int) (o : Obst) (hf : f.plainAt tb te) (hwin : tb ≤ te)
    (hw : o.WF) (hu : o.uncInit = false) :
    drawObstacle f o = (occItems (drawObstacle f o)).map Item.occ := by
  have := drawn_eq_modelShapes f tb te [o] hf hwin (by simpa using hw) (by simpa using hu)
  simp only [drawScenario, List.map_cons, List.map_nil, List.cons.injEq, and_true] at this
  rw [this, occItems_modelShapes]
  unfold modelShapes
  rw [List.map_append]
  congr 1
  · split <;> simp
  · split
    · generalize pyRange (tb + 1) te = l
      induction l with
      | nil => simp
      | cons t ts ih => by_cases h : o.occ.mem t = true <;> simp [List.filter_cons, h, ih]
    · simp

/-- Whole scenarios: any number of obstacles of any role in any order; the `i`-th entry of what `draw_scenario`
    emits belongs to the `i`-th obstacle and consists of exactly its prescribed occupancies, each once, in time order. -/
theorem C19_scenario_shapes (f : Flags) (tb te : Int) (os : List Obst) (hf : f.plainAt tb te) (hwin : tb ≤ te)
    (hw : ∀ o ∈ os, o.WF) (hu : ∀ o ∈ os, o.uncInit = false) :
    (drawScenario f os).length = os.length ∧
    ∀ (i : Nat) (h : i < os.length), ∃ ts : List Int,
      (drawScenario f os)[i]'(by simpa [drawScenario] using h) = ts.map Item.occ ∧
      ts.Pairwise (· < ·) ∧ ∀ t, t ∈ ts ↔ Prescribed tb te os[i] t := by
  refine ⟨by simp [drawScenario], fun i h => ?_⟩
  have hm : os[i] ∈ os := List.getElem_mem h
  refine ⟨occItems (drawObstacle f os[i]), ?_, C19_shapes_iff_prescribed f tb te os[i] hf.toText hwin (hw _ hm)⟩
  simp only [drawScenario, List.getElem_map]
  exact C19_only_occupancies_drawn f tb te os[i] hf hwin (hw _ hm) (hu _ hm)

/-- "Nothing for an obstacle without occupancy there": no patch at all iff no step is prescribed — for a dynamic or
    phantom obstacle outside its horizon; never for a static or environment obstacle (they have an occupancy at `tb`). -/
theorem C19_nothing_iff_no_occupancy (f : Flags) (tb te : Int) (o : Obst) (hf : f.plainAt tb te) (hwin : tb ≤ te)
    (hw : o.WF) (hu : o.uncInit = false) :
    drawObstacle f o = [] ↔ ∀ t, ¬ Prescribed tb te o t := by
  have h1 := C19_only_occupancies_drawn f tb te o hf hwin hw hu
  have h2 := (C19_shapes_iff_prescribed f tb te o hf.toText hwin hw).2
  constructor
  · intro h t hp
    have := (h2 t).2 hp
    rw [h] at this; simp [occItems] at this
  · intro h
    rw [h1]
    have : occItems (drawObstacle f o) = [] := by
      apply List.eq_nil_iff_forall_not_mem.2
      intro t ht; exact h t ((h2 t).1 ht)
    simp [this]

/-- Begin steps at which an obstacle that is not predicted set-based reports no occupancy — before its initial time
    step, after the final step of its prediction, and **inside the gap between the initial state and a trajectory
    prediction that starts later than the following step** (`Trajectory.initial_time_step > initial_state.time_step + 1`;
    `Obst.WF` does not ask the occupancy steps to be contiguous) — draw nothing for that obstacle, whatever the rest of
    the window and whatever the trajectory holds at other steps (in particular nothing taken from its end). -/
theorem C19_no_occupancy_at_begin_nothing_drawn (f : Flags) (tb te : Int) (o : Obst) (hf : f.plainAt tb te)
    (hwin : tb ≤ te) (hw : o.WF) (hu : o.uncInit = false) (hs : o.pred.isSet = false) (hno : o.occ.mem tb = false) :
    drawObstacle f o = [] := by
  apply (C19_nothing_iff_no_occupancy f tb te o hf hwin hw hu).2
  rintro t ⟨hm, rfl | ⟨_, h, _, _⟩⟩
  · rw [hno] at hm; cases hm
  · rw [hs] at h; cases h

def exInvObst : Obst where
  role := .dynamic
  initTs := 2
  pred := .none
  occ := ⟨false, [2]⟩
  uncInit := false
  stateAt := ⟨false, []⟩
  uncAt := ⟨false, []⟩
  sigAt := ⟨false, []⟩
  rectAt := ⟨false, []⟩
  iconType := false
  hasLW := false

def exInvDyn : DynFlags where
  tb := 2
  te := 1
  drawShape := true
  drawIcon := false
  drawDirection := false
  drawSignals := false
  drawOccupancies := false
  drawTrajectory := false
  drawHistory := false
  histSteps := 0
  histStepSize := 1
  drawInitialState := false
  showLabel := false
  trajTb := 2
  trajTe := 1
  trajContinuous := false

def exInvFlags : Flags := { dyn := exInvDyn, ph := ⟨2, 1, true, false⟩, tbStatic := 2, tbEnv := 2 }

/-- Witness that `time_begin ≤ time_end` cannot be dropped: with the inverted window `[2, 1)` a dynamic obstacle
    without prediction whose initial time step is 2 has an occupancy at the begin step 2, prescribed by the text, but the
    early return `initial_state.time_step > time_end` (mp_renderer.py:537) hides it.  An inverted window is not a
    "time window"; the harness counts such cases as excluded from clause (b). -/
theorem C19_witness_inverted_window :
    ¬ (∀ (f : Flags) (tb te : Int) (o : Obst), f.textAt tb te → o.WF →
        ∀ t, t ∈ occItems (drawObstacle f o) ↔ Prescribed tb te o t) := by
  intro h
  have hf : exInvFlags.textAt 2 1 := ⟨⟨rfl, rfl, rfl, rfl, rfl, rfl⟩, ⟨rfl, rfl⟩, rfl, rfl, rfl, rfl, rfl, rfl⟩
  have hw : exInvObst.WF := by
    simp only [Obst.WF, exInvObst]
    intro t ht
    have : t = 2 := by simpa [TSet.mem] using ht
    subst this; simp [Pred.isNone]
  have := (h exInvFlags 2 1 exInvObst hf hw 2).2 ⟨by decide, Or.inl rfl⟩
  revert this; decide

/-- Frame by frame on ONE renderer: whatever was drawn and rendered before — any number of earlier frames, each
    rendered with `keep_static_artists` `True` or `False`, with or without the lanelet network — the obstacle patches a
    frame shows are exactly those of its own draws (`clear` always empties `obstacle_patches`).  Together with
    `C19_scenario_shapes` every frame of a video shows the occupancies at its own `time_begin`. -/
theorem C19_frames_independent : ∀ (frs : List Frame) (b : Buffers), b.patches = [] →
    (showFrames b frs).map (·.patches) = frs.map (fun fr => drawScenario fr.flags fr.obstacles)
  | [], _, _ => rfl
  | fr :: rest, b, hb => by
    simp only [showFrames, List.map_cons, Frame.draw, hb, List.nil_append, List.cons.injEq, true_and]
    exact C19_frames_independent rest _ rfl

/-- Any history of the renderer's public operations (draws, `clear`, `render` with either flag, `render_dynamic`),
    then a `clear(keep)` or a `render(keep)` (either flag), then the draws of one more frame, then a show (`render` or
    `render_dynamic`): what that show displays is exactly the patches of the draws since the clearing operation —
    nothing of the history before survives in `obstacle_patches`.  Covers `create_video`'s frame step
    (`clear(); draw_list(...); render_dynamic()`) and a `clear()` after a draw that raised half-way. -/
theorem C19_show_after_clearing (pre : List ROp) (b : Buffers) (c sh : ROp) (ds : List Frame)
    (hc : (∃ k, c = .clear k) ∨ (∃ k, c = .render k)) (hs : (∃ k, sh = .render k) ∨ sh = .renderDynamic) :
    ((runOps b (pre ++ [c] ++ ds.map ROp.draw ++ [sh])).getLast?.map (·.patches)) =
      some (ds.flatMap (fun fr => drawScenario fr.flags fr.obstacles)) := by
  have hclr : (stateAfter b (pre ++ [c])).patches = [] := by
    rw [stateAfter_append]
    rcases hc with ⟨k, rfl⟩ | ⟨k, rfl⟩ <;> simp [stateAfter, clearBuffers]
  have hst : (stateAfter b (pre ++ [c] ++ ds.map ROp.draw)).patches =
      ds.flatMap (fun fr => drawScenario fr.flags fr.obstacles) := by
    rw [stateAfter_append, stateAfter_draws, hclr, List.nil_append]
  rw [runOps_append]
  rcases hs with ⟨k, rfl⟩ | rfl <;> simp only [runOps, List.getLast?_concat, Option.map_some, hst]

/-- What the FIGURE shows, frame by frame, through the public per-frame entry points (`create_video`'s sequence:
    `ax.clear()`, `draw_list(...)`, `render_static()`, then per frame `remove_dynamic()`, `clear()`, `draw_list(...)`,
    `render_dynamic()`), started on a renderer in ANY state (any earlier history of draws, renders, clears; anything on
    the axes, anything registered): after the `render_dynamic()` of every frame the axes hold exactly ONE obstacle patch
    collection, and its patches are those of this frame's own draws — nothing of an earlier time step stays on the
    axes.  With `C19_scenario_shapes` every frame of a video shows the occupancies at its own `time_begin`.
    (`render_dynamic` registers the collection it adds in `dynamic_artists`; `remove_dynamic` takes off what is
    registered: a collection added without being registered would stay on the axes for ever.) -/
theorem C19_video_frames_on_axes (init : List Frame) (frames : List (List Frame)) (s : Rend) :
    (runAxes s (videoOps init frames)).map (fun ax => ax.map (·.2)) =
      frames.map (fun ds => [ds.flatMap (fun fr => drawScenario fr.flags fr.obstacles)]) := by
  have hreg : (([AOp.cla] ++ init.map AOp.draw ++ [AOp.renderStatic]).foldl stepA s).Reg := by
    obtain ⟨d1, _, _, _⟩ := foldl_draws init s.cla
    intro c hc
    simp only [List.cons_append, List.nil_append, List.foldl_cons, List.foldl_append, List.foldl_nil, stepA] at hc
    rw [d1] at hc
    simp [Rend.cla] at hc
  rw [videoOps, runAxes_append]
  have h0 : runAxes s ([AOp.cla] ++ init.map AOp.draw ++ [AOp.renderStatic]) = [] := by
    rw [runAxes_append, List.cons_append, List.nil_append]
    simp only [runAxes, AOp.shows, Bool.false_eq_true, if_false, runAxes_draws, List.nil_append]
  rw [h0, List.nil_append]
  exact runAxes_videoFrames frames _ hreg

/-- … and `render()` (which starts with `ax.cla()`) after any history leaves exactly the collections the model's
    `render_dynamic` adds: with nothing registered (the state after every `clear`), the one of the buffers. -/
theorem C19_render_on_axes (s : Rend) (k : Bool) (h : s.dyn = []) :
    (runAxes s [.render k]).map (fun ax => ax.map (·.2)) = [[s.buf.patches]] := by
  simp [runAxes, AOp.shows, stepA, Rend.clear, Rend.renderDynamic, Rend.cla, h]

/-- … and the static artists survive a render iff it was asked to keep them.
    (definitional: documents `clearBuffers`, the model of `MPRenderer.clear`; carries no proof content) -/
theorem C19_static_kept_iff (keep : Bool) (b : Buffers) :
    (clearBuffers keep b).networks = (if keep then b.networks else 0) ∧ (clearBuffers keep b).patches = [] := ⟨rfl, rfl⟩

/-! ### (c) lanelet and planning-problem id filters -/

/-- Without a filter all, with a filter exactly the selected lanelets / planning problems are drawn, each as often as
    the network / the set lists it.  (definitional: `laneletsDrawn` / `problemsDrawn` are the filter of the code,
    mp_renderer.py:1048 and 1491; documents the model, carries little proof content) -/
theorem C19_id_filter (ids : List Int) (d : Option (List Int)) (i : Int) :
    (laneletsDrawn ids d).count i = (if d = none ∨ ∃ sel, d = some sel ∧ i ∈ sel then ids.count i else 0) ∧
    problemsDrawn ids d = laneletsDrawn ids d ∧ (laneletsDrawn ids d).Sublist ids := by
  refine ⟨?_, rfl, by simp only [laneletsDrawn]; exact List.filter_sublist⟩
  cases d with
  | none => simp [laneletsDrawn]
  | some sel =>
    simp only [laneletsDrawn, reduceCtorEq, Option.some.injEq, false_or, exists_eq_left']
    by_cases h : i ∈ sel
    · simp only [h, if_true]
      exact List.count_filter (by simpa using h)
    · simp only [h, if_false]
      exact List.count_eq_zero.2 (fun hm => h (by simpa using (List.mem_filter.1 hm).2))

/-! ### (d) totality -/

/-- FULL statement of the totality clause for an implementation `impl` of draw + render (flags and scenario in,
    patches or an exception class out): it never raises.  Not proved for the real `MPRenderer`: matplotlib artists,
    PIL image loading, geometry code and the Agg rasteriser are not modelled; explored by the harness. -/
def C19_total_full (impl : Flags → List Obst → Res (List (List Item))) : Prop :=
  ∀ f os, ∃ r, impl f os = .ok r

/-- PARTIAL (selection logic only): `drawScenarioC` follows `draw_scenario` and the four obstacle drawers with every
    read that can fail made explicit — `x.attr` on a possibly-`None` occupancy / prediction / trajectory state,
    `position[0]` on a position that may be a shape, `math.cos` of an orientation that may be an interval,
    `final_time_step` of a prediction that may be absent or empty.  For every flag setting and every list of obstacles
    that are `Readable` (no empty set-based prediction — excluded by the XSD; environment obstacles have an occupancy at
    every step — `EnvironmentObstacle.occupancy_at_time` always returns one) none of these reads fails, and what is
    emitted is `drawScenario`.  Missing for `C19_total_full`: everything below the selection logic (matplotlib). -/
theorem C19_total_selection_partial (f : Flags) (os : List Obst) (h : ∀ o ∈ os, o.Readable) :
    drawScenarioC f os = .ok (drawScenario f os) :=
  mapM_ok (drawObstacleC f) (drawObstacle f) os (fun o ho => drawObstacleC_eq f o (h o ho))

/-- PARTIAL (lanelet network): with the `len(...) > 0` tests the border-vertex collections never concatenate an empty
    list — for every `draw_ids` (none, empty, unknown ids), every flag combination, every network (also an empty one). -/
theorem C19_total_net_partial (f : NetFlags) (ls : List LaneletInfo) : ∃ r, drawNetC f ls = .ok r := by
  unfold drawNetC
  by_cases h1 : (f.borderVertices && !(leftVerts f ls).isEmpty) = true <;>
    by_cases h2 : (f.borderVertices && !(rightVerts f ls).isEmpty) = true <;>
    simp [h1, h2, npConcatenate, bind, Except.bind, pure, Except.pure] <;>
    simp_all [List.isEmpty_iff]

/-- PARTIAL (traffic-light labels): the local variable `state` is bound whenever it is read, for every list of lights
    (active / inactive, with / without position) and both values of `show_label`. -/
theorem C19_total_light_labels_partial (showLabel : Bool) (ls : List LightInfo) :
    ∃ r, lightLabelsC showLabel ls = .ok r :=
  lightLabelsGo_ok showLabel ls none

/-! Witnesses that the explicit reads are real (each is the defect repaired by a `fix:` commit, or an input outside the
    property's quantifier): without its guard the read fails. -/

/-- `position[0]` on an uncertain position (label / icon / state marker before the repairs). -/
theorem C19_witness_index_shape : anchorUnguarded ⟨true, false, false⟩ = .error .type := by rfl

/-- NOT repaired (known finding): a dashed marking on a bound shorter than the marking width gives no dash start, and
    the last dash end is indexed all the same — `IndexError` (corpus/C19/known_dashed_marking_short_bound.json). -/
theorem C19_witness_dashed_short_bound : dashEndsUnguarded 0 = .error .index := by rfl

/-- `np.concatenate([])` with `draw_border_vertices` and `draw_ids = []` before the repair. -/
theorem C19_witness_unguarded_border :
    drawNetUnguarded ⟨some [], true, true, true⟩ [⟨10, true⟩] = .error .value := by rfl

/-- `state` unbound for an inactive traffic light with `show_label` before the repair. -/
theorem C19_witness_unassigned_light_state :
    lightLabelsGo true false none [⟨true, false, "red"⟩] = .error .other := by rfl

/-- Outside the quantifier (an occupancy set has at least one occupancy, XSD): `final_time_step` of an empty set-based
    prediction raises `ValueError` in `draw_dynamic_obstacle`; `Readable` excludes it.  Replayed on the real code by
    corpus/C19/outside_empty_set_prediction.json. -/
theorem C19_witness_empty_set_prediction (f : DynFlags) (o : Obst) (h : o.pred = .setbEmpty)
    (h1 : ¬ o.initTs > f.te) : drawDynamicC f o = .error .value := by
  simp [drawDynamicC, dynHiddenC, h, Pred.isNone, Pred.finalC, h1, bind, Except.bind, pure, Except.pure]

/-- An environment obstacle without occupancy would be dereferenced (`draw_environment_obstacle` has no `None` test);
    `EnvironmentObstacle.occupancy_at_time` never returns `None`, which is the `Readable` hypothesis. -/
theorem C19_witness_env_without_occupancy (tb : Int) (o : Obst) (h : o.occ.mem tb = false) :
    drawEnvC tb o = .error .attr := by
  simp [drawEnvC, occAtC, h, deref, bind, Except.bind]

/-! ### (a)+(b) end to end: a window set at the top level of the parameter object decides what is drawn -/

/-- From the parameter tree to the patches: for a fully initialised parameter tree `g` whose flags (as the drawing
    functions read them, `flagsOf`) are those of the text, after `g.time_begin = tb; g.time_end = te` at the top level
    the occupancy patches `draw_scenario` emits for every obstacle are exactly those prescribed for `[tb, te)`. -/
theorem C19_top_level_window_drawn (g : Grp) (hi : g.allInit = true) (atb ate : String) (tb te : Int) (f : Flags)
    (htb : parseInt atb = some tb) (hte : parseInt ate = some te) (hf : flagsOf g = some f)
    (hd : f.dyn.asText) (hp : f.ph.plain) (hwin : tb ≤ te) (o : Obst) (hw : o.WF) :
    ∃ f', flagsOf ((g.set "time_begin" (.atom atb)).set "time_end" (.atom ate)) = some f' ∧
      (occItems (drawObstacle f' o)).Pairwise (· < ·) ∧
      ∀ t, t ∈ occItems (drawObstacle f' o) ↔ Prescribed tb te o t := by
  refine ⟨withWindow f tb te, C19_window_reaches_drawing g hi atb ate tb te f htb hte hf, ?_⟩
  apply C19_shapes_iff_prescribed _ tb te o _ hwin hw
  exact ⟨hd, hp, rfl, rfl, rfl, rfl, rfl, rfl⟩

/-! Non-vacuity: a parameter tree with every group the selection logic reads (`MPDrawParams` restricted to those
    groups and fields), obstacles of three kinds, windows before / inside / after the horizon. -/
def exWin (rest : Fields) : Fields := .atom "time_begin" "0" (.atom "time_end" "200" rest)
def exGTraj : Grp := .mk true (exWin (.atom "draw_trajectory" "false" (.atom "draw_continuous" "false" .nil)))
def exGOcc : Grp := .mk true (exWin (.atom "draw_occupancies" "false" .nil))
def exGHist : Grp := .mk true (exWin (.atom "draw_history" "false" (.atom "steps" "5" (.atom "step_size" "1" .nil))))
def exGState : Grp := .mk true (exWin (.atom "draw_arrow" "false" .nil))
def exGDyn : Grp := .mk true (exWin (.atom "draw_shape" "true" (.atom "draw_icon" "false" (.atom "draw_direction" "false"
  (.atom "show_label" "true" (.atom "draw_signals" "false" (.atom "draw_initial_state" "false"
  (.grp "state" exGState (.grp "history" exGHist (.grp "occupancy" exGOcc (.grp "trajectory" exGTraj .nil)))))))))))
def exGPh : Grp := .mk true (exWin (.atom "draw_shape" "true" (.grp "occupancy" exGOcc .nil)))
def exGPlain : Grp := .mk true (exWin .nil)
def exParams : Grp := .mk true (exWin (.atom "axis_visible" "true" (.grp "dynamic_obstacle" exGDyn
  (.grp "static_obstacle" exGPlain (.grp "phantom_obstacle" exGPh (.grp "environment_obstacle" exGPlain .nil))))))

def exNo : TSet := ⟨false, []⟩
def exDynFlags (tb te : Int) : DynFlags where
  tb := tb
  te := te
  drawShape := true
  drawIcon := false
  drawDirection := false
  drawSignals := false
  drawOccupancies := false
  drawTrajectory := false
  drawHistory := false
  histSteps := 5
  histStepSize := 1
  drawInitialState := false
  showLabel := false
  stateArrow := false
  trajTb := tb
  trajTe := te
  trajContinuous := false
def exFlags (tb te : Int) : Flags := { dyn := exDynFlags tb te, ph := ⟨tb, te, true, false⟩, tbStatic := tb, tbEnv := tb }

example : exParams.allInit = true := by decide
-- every read of `flagsOf` succeeds on the example tree (all of `windowPaths` and all flag paths exist) …
example : flagsOf exParams = some { exFlags 0 200 with dyn := { exDynFlags 0 200 with showLabel := true } } := by decide
-- … and after the top-level assignment all windows are [3, 5)
example : flagsOf ((exParams.set "time_begin" (.atom "3")).set "time_end" (.atom "5"))
    = some { exFlags 3 5 with dyn := { exDynFlags 3 5 with showLabel := true } } := by decide
example : parseInt "3" = some 3 ∧ parseInt "5" = some 5 ∧ parseInt "-12" = some (-12) ∧ parseInt "1e3" = none := by decide

def exSet : Obst where
  role := .dynamic
  initTs := 2
  pred := .setb 5
  occ := ⟨false, [2, 3, 4, 5]⟩
  uncInit := false
  stateAt := exNo
  uncAt := exNo
  sigAt := exNo
  rectAt := exNo
  iconType := true
  hasLW := true
def exTraj : Obst := { exSet with pred := .traj 5, stateAt := ⟨false, [3, 4, 5]⟩ }
def exStatic : Obst := { exSet with role := .static, pred := .none, occ := ⟨true, []⟩ }
def exEnv : Obst := { exSet with role := .env, pred := .none, occ := ⟨true, []⟩ }

example : exSet.WF := by
  simp only [Obst.WF, exSet, TSet.mem, Bool.false_or, List.contains_eq_mem, decide_eq_true_eq]
  intro t h
  simp only [List.mem_cons, List.not_mem_nil, or_false] at h
  rcases h with rfl | rfl | rfl | rfl <;> simp [Pred.isNone, Pred.final]
example : exStatic.WF := by simp [Obst.WF, exStatic, exSet]
/-- a trajectory prediction that starts four steps after the initial state: initial step 2, states at 6..8 -/
def exGapTraj : Obst := { exSet with pred := .traj 8, occ := ⟨false, [2, 6, 7, 8]⟩, stateAt := ⟨false, [6, 7, 8]⟩ }
example : exGapTraj.WF := by
  simp only [Obst.WF, exGapTraj, exSet, TSet.mem, Bool.false_or, List.contains_eq_mem, decide_eq_true_eq]
  intro t h
  simp only [List.mem_cons, List.not_mem_nil, or_false] at h
  rcases h with rfl | rfl | rfl | rfl <;> simp [Pred.isNone, Pred.final]
example : exSet.Readable ∧ exEnv.Readable := by simp [Obst.Readable, exSet, exEnv]
example (tb te : Int) : (exFlags tb te).plainAt tb te :=
  ⟨by simp [exFlags, exDynFlags, DynFlags.plain], by simp [exFlags, PhFlags.plain], rfl, rfl, rfl, rfl, rfl, rfl⟩
-- inside the horizon: the occupancy at time_begin and the later steps of the window, not the end point
example : drawScenario (exFlags 3 5) [exSet, exTraj, exStatic] = [[.occ 3, .occ 4], [.occ 3], [.occ 3]] := by decide
example : Prescribed 3 5 exSet 4 ∧ ¬ Prescribed 3 5 exSet 5 ∧ ¬ Prescribed 3 5 exTraj 4 := by
  refine ⟨⟨by decide, Or.inr ⟨rfl, rfl, by decide, by decide⟩⟩, ?_, ?_⟩
  · rintro ⟨_, h | ⟨_, _, _, h⟩⟩ <;> revert h <;> decide
  · rintro ⟨_, h | ⟨_, h, _, _⟩⟩ <;> revert h <;> decide
-- window before the initial time step but reaching into the horizon: only the set-based later steps
example : drawScenario (exFlags 0 4) [exSet, exTraj, exStatic] = [[.occ 2, .occ 3], [], [.occ 0]] := by decide
-- every boundary of the horizon of an obstacle whose prediction starts after a gap: before / at the initial step, in the
-- gap (3, 4, 5: nothing, although the window reaches into the trajectory), first / last predicted step, after the end
example : (List.map (fun tb => drawScenario (exFlags tb (tb + 3)) [exGapTraj]) [1, 2, 3, 4, 5, 6, 8, 9])
    = [[[]], [[.occ 2]], [[]], [[]], [[]], [[.occ 6]], [[.occ 8]], [[]]] := by decide
example : exGapTraj.pred.isSet = false ∧ exGapTraj.occ.mem 4 = false ∧ exGapTraj.uncInit = false := by decide
-- window after the horizon: nothing for the dynamic obstacles
example : drawScenario (exFlags 6 9) [exSet, exTraj, exStatic] = [[], [], [.occ 6]] := by decide
-- the checked form on a setting with icon, label and state marker: anchors and readings are chosen, nothing fails
def exRichDyn : DynFlags :=
  { exDynFlags 3 5 with drawIcon := true, showLabel := true, drawInitialState := true, stateArrow := true }
def exRichObst : Obst := { exTraj with uncAt := ⟨false, [3]⟩, orientIntAt := ⟨false, [3]⟩ }
example : drawScenarioC { exFlags 3 5 with dyn := exRichDyn } [exRichObst, exEnv]
    = .ok [[.icon .center .mid, .label .center, .state .center (some (.mid, .exact))], [.occ 3]] := by decide
example : laneletsDrawn [10, 11, 20] (some [20, 10, 99]) = [10, 20] := by decide
example : drawNetC ⟨some [], true, true, true⟩ [⟨10, true⟩] = .ok ⟨[], 0⟩ := by rfl
example : drawNetC ⟨some [20], true, false, false⟩ [⟨10, true⟩, ⟨20, false⟩] = .ok ⟨[20], 1⟩ := by rfl
example : lightLabelsC true [⟨true, true, "red"⟩, ⟨false, true, "green"⟩, ⟨true, false, "red"⟩] = .ok ["red", "inactive"] := by rfl

end CR.Draw
