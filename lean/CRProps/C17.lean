/-
  C17 — Traffic-light state follows the cycle definition.
  Property theorems only (helper lemmas live in CRProofs/TrafficLight.lean).
  Model: CRModel/TrafficLight.lean (mirror of traffic_light.py:165-178, 367-368).
-/
import CRProofs.TrafficLight
import CRModel.TrafficLightHist
import Mathlib.Tactic.Ring
import Mathlib.Tactic.Linarith
namespace CR.TL

/-- Steps before element `i` inside one period. -/
def prefixDur (es : List Elem) (i : Nat) : Int := total (es.take i)

/-- C17 (a): the reported state is that of the element whose window contains
    `(t - offset) mod total`; for every admissible cycle, every offset and every integer `t`
    (also `t < offset`) — and the call does not fail. -/
theorem C17_stateAt_eq_spec (es : List Elem) (off t : Int) (h : Admissible es) :
    ∃ s, specAt es ((t - off) % total es) = some s ∧ stateAt es off t = .ok s := by
  have hT := total_pos h
  have hr0 : 0 ≤ (t - off) % total es := Int.emod_nonneg _ (by omega)
  have hr1 : (t - off) % total es < total es := Int.emod_lt_of_pos _ hT
  obtain ⟨j, _, hj2, hj3⟩ := argmax_spec 0 ((t - off) % total es) es 0 0 h.2 hr0 (by omega)
  rw [stateAt_of_residue es off t h]
  simp only [Int.sub_zero] at hj3
  rw [← hj3]
  exact ⟨es[j].1, by simp [hj2], by simp [hj2]⟩

/-- The specification walk: element `i` covers exactly the residues
    `prefixDur i ≤ r < prefixDur i + dur i`, in list order. -/
theorem specAt_window : ∀ (es : List Elem) (i : Nat) (k : Int) (hi : i < es.length),
    (∀ e ∈ es, 0 < e.2) → 0 ≤ k → k < es[i].2 →
    specAt es (prefixDur es i + k) = some es[i].1
  | [], i, _, hi, _, _, _ => by simp at hi
  | (s, d) :: rest, 0, k, _, _, h0, h1 => by
    simp [prefixDur, total, durations, sumInt, specAt] at *
    omega
  | (s, d) :: rest, i + 1, k, hi, hpos, h0, h1 => by
    have hd : 0 < d := hpos (s, d) (by simp)
    have ih := specAt_window rest i k (by simpa using hi) (fun e he => hpos e (by simp [he])) h0
      (by simpa using h1)
    have hpre : 0 ≤ prefixDur rest i := by
      have : ∀ (l : List Elem), (∀ e ∈ l, 0 < e.2) → 0 ≤ total l := by
        intro l hl
        induction l with
        | nil => simp [total, durations, sumInt]
        | cons a r ih => rw [total_cons]; have := hl a (by simp); have := ih (fun e he => hl e (by simp [he])); omega
      exact this _ (fun e he => hpos e (by simp [List.mem_of_mem_take he]))
    simp only [prefixDur, List.take_succ_cons, total_cons, specAt] at *
    simp only [show ¬ d + total (List.take i rest) + k < d by omega, if_false]
    rw [show d + total (List.take i rest) + k - d = total (List.take i rest) + k by omega]
    simpa using ih

/-- C17 (b): each element covers exactly `duration` consecutive steps, in the given order,
    in every period `n : Int` (so also before the offset). -/
theorem C17_window (es : List Elem) (off : Int) (h : Admissible es)
    (i : Nat) (hi : i < es.length) (k : Int) (h0 : 0 ≤ k) (h1 : k < es[i].2) (n : Int) :
    stateAt es off (off + prefixDur es i + k + n * total es) = .ok es[i].1 := by
  have hT := total_pos h
  rw [stateAt_of_residue es _ _ h]
  have hsum : prefixDur es i + k < total es := by
    have : total es = prefixDur es i + total (es.drop i) := by
      have : ∀ (l : List Elem) (i : Nat), total l = total (l.take i) + total (l.drop i) := by
        intro l
        induction l with
        | nil => intro i; simp [total, durations, sumInt]
        | cons a r ih =>
          intro i
          cases i with
          | zero => simp [total, durations, sumInt]
          | succ i => simp only [List.take_succ_cons, List.drop_succ_cons, total_cons]; rw [ih i]; omega
      exact this es i
    have hdrop : es[i].2 ≤ total (es.drop i) := by
      have hd : es.drop i = es[i] :: es.drop (i + 1) := by
        exact List.drop_eq_getElem_cons hi
      rw [hd, total_cons]
      have : ∀ (l : List Elem), (∀ e ∈ l, 0 < e.2) → 0 ≤ total l := by
        intro l hl
        induction l with
        | nil => simp [total, durations, sumInt]
        | cons a r ih => rw [total_cons]; have := hl a (by simp); have := ih (fun e he => hl e (by simp [he])); omega
      have := this (es.drop (i + 1)) (fun e he => h.2 e (List.mem_of_mem_drop he))
      omega
    omega
  have hpre : 0 ≤ prefixDur es i := by
    have : ∀ (l : List Elem), (∀ e ∈ l, 0 < e.2) → 0 ≤ total l := by
      intro l hl
      induction l with
      | nil => simp [total, durations, sumInt]
      | cons a r ih => rw [total_cons]; have := hl a (by simp); have := ih (fun e he => hl e (by simp [he])); omega
    exact this _ (fun e he => h.2 e (List.mem_of_mem_take he))
  have hres : (off + prefixDur es i + k + n * total es - off) % total es = prefixDur es i + k := by
    rw [show off + prefixDur es i + k + n * total es - off = (prefixDur es i + k) + n * total es by omega]
    rw [Int.add_mul_emod_self_right]
    exact Int.emod_eq_of_lt (by omega) hsum
  rw [hres, specAt_window es i k hi h.2 h0 h1]

/-- C17 (b'), the converse of the window theorem: EVERY integer time step lies in exactly one element's window of
    exactly one period — there are `i`, `k`, `n` with `t = off + prefixDur i + k + n·total`, `0 ≤ k < dur i`, and
    the reported state is that element's. (So the windows tile the time axis; nothing is left uncovered.) -/
theorem C17_window_cover (es : List Elem) (off t : Int) (h : Admissible es) :
    ∃ (i : Nat) (hi : i < es.length) (k n : Int), 0 ≤ k ∧ k < es[i].2 ∧
      t = off + prefixDur es i + k + n * total es ∧ stateAt es off t = .ok es[i].1 := by
  have hT := total_pos h
  -- residue r and period n
  set r := (t - off) % total es with hr
  have hr0 : 0 ≤ r := Int.emod_nonneg _ (by omega)
  have hr1 : r < total es := Int.emod_lt_of_pos _ hT
  have hdecomp : t = off + r + ((t - off) / total es) * total es := by
    have := Int.emod_add_mul_ediv (t - off) (total es)
    rw [hr]; linarith [this, Int.mul_comm ((t - off) / total es) (total es)]
  -- find the element whose window contains r
  have key : ∀ (l : List Elem) (acc : Int), (∀ e ∈ l, 0 < e.2) → 0 ≤ acc → acc < total l →
      ∃ (i : Nat) (hi : i < l.length) (k : Int), 0 ≤ k ∧ k < l[i].2 ∧ acc = prefixDur l i + k := by
    intro l
    induction l with
    | nil => intro acc _ h0 h1; simp [total, durations, sumInt] at h1; omega
    | cons e rest ih =>
      intro acc hpos h0 h1
      by_cases hk : acc < e.2
      · exact ⟨0, by simp, acc, h0, by simpa using hk, by simp [prefixDur, total, durations, sumInt]⟩
      · rw [total_cons] at h1
        obtain ⟨i, hi, k, hk0, hk1, hk2⟩ := ih (acc - e.2) (fun x hx => hpos x (by simp [hx])) (by omega) (by omega)
        refine ⟨i + 1, by simpa using hi, k, hk0, by simpa using hk1, ?_⟩
        simp only [prefixDur, List.take_succ_cons, total_cons] at hk2 ⊢
        omega
  obtain ⟨i, hi, k, hk0, hk1, hk2⟩ := key es r h.2 hr0 hr1
  have ht : t = off + prefixDur es i + k + (t - off) / total es * total es := by
    have h2 : r = prefixDur es i + k := hk2
    linarith [hdecomp, h2]
  refine ⟨i, hi, k, (t - off) / total es, hk0, hk1, ht, ?_⟩
  have := C17_window es off h i hi k hk0 hk1 ((t - off) / total es)
  rw [← ht] at this
  exact this

/-- C17 (c): the state sequence is periodic with the total duration. -/
theorem C17_periodic (es : List Elem) (off t : Int) (h : Admissible es) :
    stateAt es off (t + total es) = stateAt es off t := by
  rw [stateAt_of_residue es _ _ h, stateAt_of_residue es _ _ h]
  have : (t + total es - off) % total es = (t - off) % total es := by
    rw [show t + total es - off = (t - off) + total es by omega]
    exact Int.add_emod_right _ _
  rw [this]

/-- C17 (d): `TrafficLight.get_state_at_time_step` agrees with its cycle. -/
theorem C17_light_agrees (es : List Elem) (off t : Int) :
    lightStateAt es off t = stateAt es off t := rfl

/-- Non-vacuity: a concrete three-phase cycle is admissible and the theorems give the expected
    states (red 2 steps, green 3, yellow 1; offset 4; t = 1 lies before the offset). -/
example : Admissible [(0, 2), (2, 3), (1, 1)] := by
  refine ⟨by simp, ?_⟩
  intro e he
  simp at he
  rcases he with h | h | h <;> simp [h]

example : stateAt [(0, 2), (2, 3), (1, 1)] 4 1 = .ok 2 := by decide
example : stateAt [(0, 2), (2, 3), (1, 1)] 4 (-3) = .ok 1 := by decide
example : stateAt [(7, 5)] 0 123 = .ok 7 := by decide

end CR.TL

/-! ## Histories on one cycle OBJECT (generator audit): the memoised table must not show through

  `CRModel/TrafficLightHist.lean` models the object with its `_cycle_init_timesteps` memo and every public operation that
  can reach what `get_state_at_time_step` reads.  The theorems say when the answers along a history are those of the cycle
  DEFINITION the object has at the moment of each query (`specRun`, which knows no memo).  -/
namespace CR.TL.Hist

theorem stateAtTable_init (es : List Elem) (off t : Int) :
    stateAtTable (initSteps es off) es off t = stateAt es off t := rfl

theorem fillWith_coherent (v : Bool) (o : Obj) (h : Coherent o) : fillWith v o = initSteps o.es o.off := by
  unfold fillWith
  cases v with
  | true => simp
  | false =>
    rcases h with h | h <;> simp [h]

/-- one step: same answers as the definition, same definition afterwards, memo still coherent -/
theorem step_follows (v : Bool) (o : Obj) (op : Op) (h : Coherent o) (hs : SafeAt o op) :
    (stepWith v o op).1 = specAns o.toDef op ∧
    (stepWith v o op).2.toDef = o.toDef.step op ∧ Coherent (stepWith v o op).2 := by
  cases op with
  | query ts =>
    by_cases hts : ts = []
    · simp [stepWith, hts, Obj.toDef, Def.step, specAns, h]
    · simp only [stepWith, hts, if_false, fillWith_coherent v o h]
      refine ⟨?_, rfl, Or.inr rfl⟩
      apply List.map_congr_left
      intro t _
      exact stateAtTable_init _ _ _
  | readTable => exact ⟨rfl, rfl, Or.inr (by simp [stepWith, fillWith_coherent v o h])⟩
  | setOff off => exact ⟨rfl, rfl, Or.inl rfl⟩
  | setEs es cls => exact ⟨rfl, rfl, Or.inl rfl⟩
  | elDur i d => exact ⟨rfl, rfl, Or.inl hs⟩
  | elState i s =>
    refine ⟨rfl, rfl, ?_⟩
    rcases h with h | h
    · exact Or.inl h
    · right
      simp only [stepWith, h]
      -- the durations are untouched by a state edit
      have hd : ∀ (es : List Elem) (cls : List Nat) (i s), durations (editAt es cls i (fun e => (s, e.2))) = durations es := by
        intro es cls i s
        unfold editAt
        cases cls[i]? with
        | none => rfl
        | some c =>
          simp only [durations]
          apply List.ext_getElem
          · simp
          · intro n h1 h2
            simp only [List.getElem_map, List.getElem_mapIdx]
            split <;> rfl
      simp [initSteps, hd]
  | appendInPlace e c => exact ⟨rfl, rfl, Or.inl hs⟩
  | fresh es cls off => exact ⟨rfl, rfl, Or.inl rfl⟩
  | keep => exact ⟨rfl, rfl, h⟩

/-- C17 over histories, code as it is (`v = validates = false`) and code that validates alike: from a coherent object, along
    every history whose in-place edits of durations / of the element list happen only while no table is memoised, every
    `get_state_at_time_step` answers what the cycle definition of that moment gives.  Setters (`time_offset =`,
    `cycle_elements =` with a new or the same list), in-place STATE edits, aliasing (one element object at several positions),
    replacing a light's cycle, reads of `cycle_init_timesteps`, copies and all no-effect operations are unrestricted. -/
theorem C17_hist_follows_definition (v : Bool) : ∀ (ops : List Op) (o : Obj), Coherent o → SafeRun v o ops →
    runWith v o ops = specRun o.toDef ops
  | [], _, _, _ => rfl
  | op :: ops, o, h, hs => by
    obtain ⟨h1, h2, h3⟩ := step_follows v o op h hs.1
    simp only [runWith, specRun]
    rw [C17_hist_follows_definition v ops _ h3 hs.2, h2, h1]

/-- a freshly constructed cycle is coherent (no memo) -/
theorem fresh_coherent (es : List Elem) (cls : List Nat) (off : Int) : Coherent (Obj.fresh es cls off) := Or.inl rfl

/-- Code that re-derives a table which no longer matches (`validates = true`, the proposed repair): NO restriction on the
    history and none on the starting memo. -/
theorem C17_hist_follows_definition_validating : ∀ (ops : List Op) (o : Obj), runWith true o ops = specRun o.toDef ops
  | [], _ => rfl
  | op :: ops, o => by
    simp only [runWith, specRun]
    rw [C17_hist_follows_definition_validating ops]
    cases op with
    | query ts =>
      by_cases hts : ts = []
      · simp [stepWith, hts, Obj.toDef, Def.step, specAns]
      · simp only [stepWith, hts, if_false, fillWith, if_true]
        congr 1
    | _ => rfl

/-- The invariant the validating getter of the current source needs (`OffCoherent`: a memo starts at the current offset) is
    kept by EVERY operation: queries / reads store the table of the current offset, both setters drop the memo, in-place
    edits of elements or of the list leave offset and memo alone. -/
theorem C17_offCoherent_step (o : Obj) (op : Op) (h : OffCoherent o) : OffCoherent (stepWith true o op).2 := by
  cases op with
  | query ts =>
    by_cases hts : ts = []
    · simpa [stepWith, hts] using h
    · intro tb htb
      simp only [stepWith, hts, if_false, fillWith, if_true, Option.some.injEq] at htb
      subst htb
      simp [stepWith, hts, initSteps]
  | readTable =>
    intro tb htb
    simp only [stepWith, fillWith, if_true, Option.some.injEq] at htb
    subst htb
    simp [stepWith, initSteps]
  | setOff off => intro tb htb; simp [stepWith] at htb
  | setEs es cls => intro tb htb; simp [stepWith] at htb
  | elDur i d => intro tb htb; exact h tb htb
  | elState i s => intro tb htb; exact h tb htb
  | appendInPlace e c => intro tb htb; exact h tb htb
  | fresh es cls off => intro tb htb; simp [stepWith, Obj.fresh] at htb
  | keep => exact h

/-- the object after a history -/
def finalWith (v : Bool) (o : Obj) : List Op → Obj
  | [] => o
  | op :: ops => finalWith v (stepWith v o op).2 ops

theorem C17_offCoherent_run : ∀ (ops : List Op) (o : Obj), OffCoherent o → OffCoherent (finalWith true o ops)
  | [], _, h => h
  | op :: ops, o, h => C17_offCoherent_run ops _ (C17_offCoherent_step o op h)

theorem C17_offCoherent_fresh (es : List Elem) (cls : List Nat) (off : Int) : OffCoherent (Obj.fresh es cls off) := by
  intro tb htb; simp [Obj.fresh] at htb

/-- ... and each such answer is the state of the element whose window contains (t - offset) mod total of the CURRENT
    elements (C17 (a) transported to the object): -/
theorem C17_hist_query_spec (v : Bool) (o : Obj) (h : Coherent o) (hadm : Admissible o.es) (t : Int) :
    ∃ s, specAt o.es ((t - o.off) % total o.es) = some s ∧ (stepWith v o (.query [t])).1 = [.ok s] := by
  obtain ⟨s, h1, h2⟩ := C17_stateAt_eq_spec o.es o.off t hadm
  refine ⟨s, h1, ?_⟩
  have := (step_follows v o (.query [t]) h trivial).1
  rw [this]; simp [specAns, Obj.toDef, h2]

/-- Witness (known finding C17/cycle.get_state_at_time_step/stale-after/element.duration=(held)): WITHOUT validation a
    duration edited through the element's public setter after a first query is not seen — cycle [RED 2, GREEN 3]
    queried at 0, `cycle_elements[0].duration = 4`: step 2 still answers GREEN (3), the definition [RED 4, GREEN 3] gives RED (0). -/
theorem C17_witness_held_duration_stale :
    runWith false (Obj.fresh [(0, 2), (3, 3)] [0, 1] 0) [.query [0], .elDur 0 4, .query [2]] = [[.ok 0], [], [.ok 3]] ∧
    specRun ⟨[(0, 2), (3, 3)], [0, 1], 0⟩ [.query [0], .elDur 0 4, .query [2]] = [[.ok 0], [], [.ok 0]] := by decide

/-- Witness (known finding …/stale-after/cycle_elements.append(in place)): `cycle.cycle_elements.append(YELLOW 2)` after a
    query: step 5 answers RED (wrapped around with the old period 5), the definition [RED 2, GREEN 3, YELLOW 2] gives YELLOW (1). -/
theorem C17_witness_inplace_append_stale :
    runWith false (Obj.fresh [(0, 2), (3, 3)] [0, 1] 0) [.query [0], .appendInPlace (1, 2) 2, .query [5]] = [[.ok 0], [], [.ok 0]] ∧
    specRun ⟨[(0, 2), (3, 3)], [0, 1], 0⟩ [.query [0], .appendInPlace (1, 2) 2, .query [5]] = [[.ok 0], [], [.ok 1]] := by decide

/-- Non-vacuity of `SafeRun`: an unrestricted mix of setters, an in-place edit BEFORE the first query, aliasing and queries. -/
example : SafeRun false (Obj.fresh [(0, 2), (3, 3), (0, 2)] [0, 1, 0] 4)
    [.elDur 0 5, .query [1, 2], .setOff 7, .elState 2 4, .query [0], .setEs [(1, 1)] [0], .elDur 0 3, .query [9]] := by
  simp [SafeRun, SafeAt, stepWith, Obj.fresh]

example : run (Obj.fresh [(0, 2), (3, 3), (0, 2)] [0, 1, 0] 0) [.elDur 2 1, .query [0, 1, 2, 4, 5]]
    = [[], [.ok 0, .ok 3, .ok 3, .ok 0, .ok 0]] := by decide

end CR.TL.Hist
