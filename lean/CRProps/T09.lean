/-
  T09 — translator tie for C09: the definitions regenerated on every run from the CURRENT source of
  commonroad/scenario/scenario.py (harness/translate/src_c09.py → Gen/SrcC09.lean) equal the hand-written model
  CRModel/IdPool.lean the C09 theorems are about — for every state and every argument, not for sampled ones.
  The vocabulary the translation is written in (set / dict operations, `find_*_by_id`, `isinstance` on the reduced
  objects, the control-flow combinators `tryE` / `forE`) is CRModel/PyExtC09.lean.
-/
import Gen.SrcC09
import CRModel.IdPool
namespace CR.IdPool
open CR.PyC09

/-! ### the generic control-flow combinators at `σ = St` are the model's `andThen` / `forEach` -/

theorem tryE_eq_andThen (r : St × Out) (g : St → St × Out) :
    tryE r g (fun s o => (s, o)) = andThen r g := by
  rcases r with ⟨s, o⟩
  cases o <;> rfl

@[simp] theorem tryE_ret (r : St × Out) :
    tryE r (fun s => (s, Out.ok)) (fun s o => (s, o)) = r := by
  rcases r with ⟨s, o⟩
  cases o <;> rfl

@[simp] theorem tryE_ok {σ τ : Type} (x : σ) (k : σ → τ) (h : σ → Out → τ) : tryE (x, Out.ok) k h = k x := rfl
@[simp] theorem tryE_err {σ τ : Type} (x : σ) (e : Err) (k : σ → τ) (h : σ → Out → τ) :
    tryE (x, Out.err e) k h = h x (.err e) := rfl
@[simp] theorem tryE_id {σ τ : Type} (x : σ) (n : Nat) (k : σ → τ) (h : σ → Out → τ) :
    tryE (x, Out.id n) k h = h x (.id n) := rfl

theorem andThen_ret (r : St × Out) : andThen r (fun s => (s, Out.ok)) = r := by
  rcases r with ⟨s, o⟩
  cases o <;> rfl

theorem forE_eq_forEach {α : Type} (f : St → α → St × Out) (s : St) (xs : List α) :
    forE f s xs = forEach f s xs := by
  induction xs generalizing s with
  | nil => rfl
  | cons x xs ih =>
    simp only [forE, forEach, tryE_eq_andThen]
    congr 1
    funext s1
    exact ih s1

/-- a loop whose body is `self.f(x)` for a translated `f` -/
theorem forE_call {α : Type} (f g : St → α → St × Out) (h : ∀ s x, f s x = g s x) (s : St) (xs : List α) :
    forE f s xs = forEach g s xs := by
  have : f = g := by funext s x; exact h s x
  rw [this, forE_eq_forEach]


/-! ### the id pool itself -/

theorem tie_is_object_id_used (s : St) (k : Nat) :
    Gen.Scenario_is_object_id_used s k = decide (k ∈ s.idSet) := by
  unfold Gen.Scenario_is_object_id_used
  simp

/-- `_mark_object_id_as_used`: counter initialised first, then the check, then the id is added — in this order. -/
theorem tie_mark_object_id_as_used (s : St) (k : Nat) :
    Gen.Scenario_mark_object_id_as_used s k = ofMark (mark s k) := by
  unfold Gen.Scenario_mark_object_id_as_used mark ofMark
  simp only [tie_is_object_id_used]
  rcases s with ⟨ids, c, n, st, dy, en, ph⟩
  cases c <;> by_cases hk : k ∈ ids <;> simp [hk, setAdd]

theorem tie_generate_object_id (s : St) :
    Gen.Scenario_generate_object_id s = genId s := by
  unfold Gen.Scenario_generate_object_id genId
  rcases s with ⟨ids, c, n, st, dy, en, ph⟩
  cases c <;> cases ids <;> simp [withNum, setMax]


/-- `for i in intersections: ids.append(i.intersection_id); ids += [incoming ids]` collects `interIds` -/
theorem foldl_interIds (f : List Nat → Inter → List Nat) (hf : ∀ acc i, f acc i = acc ++ interIds i)
    (is : List Inter) (acc : List Nat) : is.foldl f acc = acc ++ is.flatMap interIds := by
  induction is generalizing acc with
  | nil => simp
  | cons i is ih => simp [List.foldl_cons, ih, hf, List.flatMap_cons]

theorem tie_lanelet_network_object_ids (n : Net) :
    Gen.Scenario_lanelet_network_object_ids n = netIds n := by
  unfold Gen.Scenario_lanelet_network_object_ids netIds
  simp only []
  rw [foldl_interIds _ (by intro acc i; simp [interIds])] <;> simp

/-- the checking loop of `_mark_object_ids_as_used`: it fails (ValueError) exactly when an id is used already or
    occurs twice; it does not touch the scenario -/
theorem check_loop (ids : List Nat) (f : List Nat → Nat → List Nat × Out)
    (hf : ∀ acc k, f acc k = if (decide (k ∈ ids) || decide (k ∈ acc)) then (acc, .err .value) else (setAdd acc k, .ok))
    (ks acc : List Nat) :
    (forE f acc ks).2 = if ks.Nodup ∧ ∀ k ∈ ks, k ∉ ids ∧ k ∉ acc then Out.ok else .err .value := by
  induction ks generalizing acc with
  | nil => simp [forE]
  | cons k ks ih =>
    simp only [forE, hf]
    by_cases h1 : k ∈ ids
    · simp [h1, tryE]
    · by_cases h2 : k ∈ acc
      · simp [h2, tryE]
      · simp only [h1, h2, decide_false, Bool.or_self, Bool.false_eq_true, if_false, tryE, ih, setAdd]
        simp only [List.nodup_cons, List.mem_cons, forall_eq_or_imp, not_or]
        by_cases hk : k ∈ ks
        · have : ¬ (ks.Nodup ∧ ∀ a ∈ ks, a ∉ ids ∧ ¬ a = k ∧ a ∉ acc) := by
            intro h; exact (h.2 k hk).2.1 rfl
          simp [hk, this]
        · have : (∀ a ∈ ks, a ∉ ids ∧ ¬ a = k ∧ a ∉ acc) ↔ (∀ a ∈ ks, a ∉ ids ∧ a ∉ acc) := by
            constructor
            · intro h a ha; exact ⟨(h a ha).1, (h a ha).2.2⟩
            · intro h a ha; exact ⟨(h a ha).1, fun e => hk (e ▸ ha), (h a ha).2⟩
          simp [hk, h1, h2, this]

/-- the marking loop after a successful check: every single mark succeeds -/
theorem mark_loop (f : St → Nat → St × Out) (hm : ∀ s k, f s k = ofMark (mark s k))
    (ks : List Nat) (s : St) (hn : ks.Nodup) (hf : ∀ k ∈ ks, k ∉ s.idSet) :
    forEach f s ks
      = ({ s with idSet := ks.reverse ++ s.idSet, counter := s.counter.or ks.head? }, .ok) := by
  induction ks generalizing s with
  | nil => rcases s with ⟨ids, c, n, st, dy, en, ph⟩; cases c <;> simp [forEach]
  | cons k ks ih =>
    have hk : k ∉ s.idSet := hf k (by simp)
    have hm' : mark s k = ({ s with counter := s.counter.or (some k), idSet := k :: s.idSet }, none) := by
      simp [mark, hk]
    rw [List.nodup_cons] at hn
    simp only [forEach, hm, hm', ofMark, andThen]
    rw [ih _ hn.2]
    · rcases s with ⟨ids, c, n, st, dy, en, ph⟩
      cases c <;> simp
    · intro a ha
      simp only [List.mem_cons, not_or]
      exact ⟨fun e => hn.1 (e ▸ ha), hf a (by simp [ha])⟩

theorem tryE_const {σ τ : Type} (r : σ × Out) (a : τ) (b : Out → τ) :
    tryE r (fun _ => a) (fun _ o => b o) = if r.2 = .ok then a else b r.2 := by
  rcases r with ⟨x, o⟩
  cases o <;> simp [tryE]

/-- `_mark_object_ids_as_used`: check all, then mark all; nothing is marked when the check fails. -/
theorem tie_mark_object_ids_as_used (s : St) (ks : List Nat) :
    Gen.Scenario_mark_object_ids_as_used s ks = ofMark (markMany s ks) := by
  unfold Gen.Scenario_mark_object_ids_as_used markMany
  simp only [tryE_const, tryE_ret]
  rw [check_loop s.idSet _ (by
    intro acc k
    by_cases h1 : k ∈ s.idSet <;> by_cases h2 : k ∈ acc <;> simp [tie_is_object_id_used, h1, h2])]
  rw [forE_eq_forEach]
  by_cases h : ks.Nodup ∧ ∀ k ∈ ks, k ∉ s.idSet
  · have h' : ks.Nodup ∧ ∀ k ∈ ks, k ∉ s.idSet ∧ k ∉ ([] : List Nat) := ⟨h.1, fun k hk => ⟨h.2 k hk, by simp⟩⟩
    rw [if_pos h', if_pos h, mark_loop _ (by intro s k; simp [tie_mark_object_id_as_used]) ks s h.1 h.2]
    simp [ofMark]
  · have h' : ¬ (ks.Nodup ∧ ∀ k ∈ ks, k ∉ s.idSet ∧ k ∉ ([] : List Nat)) := by
      intro h2; exact h ⟨h2.1, fun k hk => (h2.2 k hk).1⟩
    rw [if_neg h', if_neg h]
    simp [ofMark]


/-! ### add_objects -/

theorem findLanelet_isSome (n : Net) (k : Nat) : (findLanelet n k).isSome ↔ k ∈ n.lanelets.map (·.id) := by
  unfold findLanelet
  rw [List.find?_isSome]
  simp

/-- the registration loop `for l in ids: find_lanelet_by_id(l).<registry>.add(..)`: AttributeError at the first id
    without lanelet, no change of the id bookkeeping -/
theorem require_loop (f : St → Nat → St × Out) (hf : ∀ s k, f s k = requireLanelet s s.net k (s, .ok))
    (s : St) (on : List Nat) :
    forE f s on = (s, if ∀ x ∈ on, x ∈ s.net.lanelets.map (·.id) then .ok else .err .attr) := by
  induction on with
  | nil => simp [forE]
  | cons k on ih =>
    simp only [forE, hf, requireLanelet]
    by_cases hk : k ∈ s.net.lanelets.map (·.id)
    · obtain ⟨l, hl⟩ := Option.isSome_iff_exists.mp ((findLanelet_isSome s.net k).mpr hk)
      simp only [hl, tryE, ih]
      simp only [List.mem_cons, forall_eq_or_imp, hk, true_and]
    · have hn : findLanelet s.net k = none := by
        cases h : findLanelet s.net k with
        | none => rfl
        | some l => exact absurd ((findLanelet_isSome s.net k).mp (by simp [h])) hk
      have hall : ¬ ∀ x ∈ k :: on, x ∈ s.net.lanelets.map (·.id) := fun h => hk (h k (by simp))
      simp only [hn, tryE]
      rw [if_neg hall]

theorem tie_add_static_obstacle_to_lanelets (s : St) (k : Nat) (on : Option (List Nat)) :
    Gen.Scenario_add_static_obstacle_to_lanelets s k on
      = (s, if on = none ∨ s.net.lanelets.isEmpty ∨ ∀ x ∈ on.getD [], x ∈ s.net.lanelets.map (·.id) then .ok else .err .attr) := by
  unfold Gen.Scenario_add_static_obstacle_to_lanelets
  simp only [tryE_ret, require_loop _ (fun _ _ => rfl)]
  cases on with
  | none => simp
  | some l =>
    by_cases he : s.net.lanelets = []
    · simp [he]
    · simp [he]

theorem tie_add_dynamic_obstacle_to_lanelets (s : St) (o : Obj) :
    Gen.Scenario_add_dynamic_obstacle_to_lanelets s o
      = (s, if shapeLaneletIds o = none ∨ s.net.lanelets.isEmpty ∨
              ∀ x ∈ (shapeLaneletIds o).getD [], x ∈ s.net.lanelets.map (·.id) then .ok else .err .attr) := by
  unfold Gen.Scenario_add_dynamic_obstacle_to_lanelets
  simp only [tryE_ret, require_loop _ (fun _ _ => rfl)]
  cases shapeLaneletIds o with
  | none => simp
  | some l =>
    by_cases he : s.net.lanelets = []
    · simp [he]
    · simp [he]

theorem ofMark_tryE (r : St × Option Err) (g : St → St) :
    tryE (ofMark r) (fun s => (g s, Out.ok)) (fun s o => (s, o)) = onMarked r g := by
  rcases r with ⟨s, _ | e⟩ <;> rfl

/-- `add_objects` for one object: which ids each branch marks (before the object is put in), where it puts the
    object, that a LaneletNetwork releases the ids of the replaced network after the new ids were accepted, and that
    anything else is a ValueError. `lanelet_ids=None` is the empty set. -/
theorem tie_add_objects (s : St) (o : Obj) (refs : Option (List Nat)) :
    Gen.Scenario_add_objects s o refs = addObj s o (refs.getD []) := by
  unfold Gen.Scenario_add_objects
  simp only [tie_mark_object_id_as_used, tie_mark_object_ids_as_used, tie_lanelet_network_object_ids,
    tie_add_static_obstacle_to_lanelets, tie_add_dynamic_obstacle_to_lanelets]
  cases o with
  | obstacle r k =>
    cases r <;> simp [isinst, roleOf, objId, shapeLaneletIds, addObj, putObstacle, ofMark_tryE]
  | obstacleOn r k on =>
    cases r <;> rcases hm : mark s k with ⟨s1, _ | e⟩ <;>
      simp [isinst, roleOf, objId, shapeLaneletIds, addObj, addObstacleOn, putObstacle, ofMark, hm, Role.onLanelets]
  | lanelet l => simp [isinst, roleOf, objId, asLanelet, addObj, ofMark_tryE]
  | sign k => cases refs <;> simp [isinst, roleOf, objId, addObj, ofMark_tryE]
  | light k => cases refs <;> simp [isinst, roleOf, objId, addObj, ofMark_tryE]
  | inter i => simp [isinst, roleOf, objId, asInter, addObj, ofMark_tryE, interIds]
  | network n => simp [isinst, roleOf, asNet, addObj, addNetwork, ofMark_tryE, setDiffUpdate]
  | invalid => simp [isinst, roleOf, addObj]

theorem tie_add_objects_list (s : St) (os : List Obj) (refs : Option (List Nat)) :
    Gen.Scenario_add_objects_list s os refs = addList s os (refs.getD []) := by
  unfold Gen.Scenario_add_objects_list addList
  simp only [tryE_ret, tie_add_objects, forE_eq_forEach]


/-! ### removals -/

theorem idSetRemove_eq_release (s : St) (k : Nat) : idSetRemove s k = release s k := by
  unfold idSetRemove release setDel
  rfl

/-- `remove_obstacle` (one obstacle): looked up in the four dicts in the order static, dynamic, environment, phantom;
    deleted from that dict AND its id released; an unknown id changes nothing. -/
theorem tie_remove_obstacle (s : St) (k : Nat) :
    Gen.Scenario_remove_obstacle s k = removeObstacle s k := by
  unfold Gen.Scenario_remove_obstacle removeObstacle
  by_cases h1 : k ∈ s.stat
  · simp [h1, delStat, setDel, idSetRemove_eq_release]
  · by_cases h2 : k ∈ s.dyn
    · simp [h1, h2, delDyn, setDel, idSetRemove_eq_release]
    · by_cases h3 : k ∈ s.env
      · simp [h1, h2, h3, delEnv, setDel, idSetRemove_eq_release]
      · by_cases h4 : k ∈ s.phan
        · simp [h1, h2, h3, h4, delPhan, setDel, idSetRemove_eq_release]
        · simp [h1, h2, h3, h4]

theorem tie_remove_obstacle_list (s : St) (ks : List Nat) :
    Gen.Scenario_remove_obstacle_list s ks = removeObstacles s ks := by
  unfold Gen.Scenario_remove_obstacle_list removeObstacles
  simp only [tryE_ret, tie_remove_obstacle, forE_eq_forEach]

/-- `remove_traffic_sign` (one sign): KeyError before any change if it is not contained; otherwise deleted from the
    network and its id released. -/
theorem tie_remove_traffic_sign (s : St) (k : Nat) :
    Gen.Scenario_remove_traffic_sign s k = removeSign s k := by
  unfold Gen.Scenario_remove_traffic_sign removeSign removeSignBody
  by_cases h : k ∈ s.net.signs <;> simp [h, findSign, idSetRemove_eq_release]

theorem tie_remove_traffic_sign_list (s : St) (ks : List Nat) :
    Gen.Scenario_remove_traffic_sign_list s ks = removeSigns s ks := by
  unfold Gen.Scenario_remove_traffic_sign_list removeSigns
  simp only [tryE_ret, tie_remove_traffic_sign, forE_eq_forEach]

theorem tie_remove_traffic_light (s : St) (k : Nat) :
    Gen.Scenario_remove_traffic_light s k = removeLight s k := by
  unfold Gen.Scenario_remove_traffic_light removeLight removeLightBody
  by_cases h : k ∈ s.net.lights <;> simp [h, findLight, idSetRemove_eq_release]

theorem tie_remove_traffic_light_list (s : St) (ks : List Nat) :
    Gen.Scenario_remove_traffic_light_list s ks = removeLights s ks := by
  unfold Gen.Scenario_remove_traffic_light_list removeLights
  simp only [tryE_ret, tie_remove_traffic_light, forE_eq_forEach]

/-- `remove_intersection` (one intersection): looked up by id (KeyError if absent); deleted, its id released, then
    the id of every incoming element of the CONTAINED intersection. -/
theorem tie_remove_intersection (s : St) (i : Inter) :
    Gen.Scenario_remove_intersection s i = removeInter s i := by
  unfold Gen.Scenario_remove_intersection removeInter removeInterBody findInter
  cases h : s.net.inters.find? (fun j => j.id = i.id) with
  | none => simp
  | some j =>
    have hj : j.id = i.id := by simpa using List.find?_some h
    simp only [Option.isNone_some, Bool.false_eq_true, if_false, Option.getD_some, tryE_ret]
    simp only [tryE_eq_andThen, forE_eq_forEach, idSetRemove_eq_release, hj]

theorem tie_remove_intersection_list (s : St) (is : List Inter) :
    Gen.Scenario_remove_intersection_list s is = removeInters s is := by
  unfold Gen.Scenario_remove_intersection_list removeInters
  simp only [tryE_ret, tie_remove_intersection, forE_eq_forEach]


/-! ### remove_hanging_lanelet_members / remove_lanelet / erase / replace -/

/-- a loop `for t in xs: if p(t): acc.append(g(t))` collects `g` over the filtered list -/
theorem foldl_collect {α β : Type} (f : List β → α → List β) (p : α → Bool) (g : α → β)
    (hf : ∀ acc t, f acc t = if p t then acc ++ [g t] else acc) (xs : List α) (acc : List β) :
    xs.foldl f acc = acc ++ (xs.filter p).map g := by
  induction xs generalizing acc with
  | nil => simp
  | cons x xs ih =>
    simp only [List.foldl_cons, ih, hf]
    by_cases h : p x <;> simp [h]

/-- the objects `find_*_by_id` returns for ids taken from the dict itself are these ids -/
theorem somes_find (find : Nat → Option Nat) (xs : List Nat) (h : ∀ t ∈ xs, find t = some t) :
    somes (xs.map find) = xs := by
  induction xs with
  | nil => rfl
  | cons x xs ih =>
    have hx := h x (by simp)
    have := ih (fun t ht => h t (by simp [ht]))
    simp only [somes] at this ⊢
    simp [hx, this]

theorem hanging_eq (find : Nat → Option Nat) (xs : List Nat) (hfind : ∀ t ∈ xs, find t = some t)
    (ls rem : List (List Nat)) :
    somes ((xs.filter (fun t => decide (t ∈ setDiff (unionAll ls) (unionAll rem)))).map find)
      = xs.filter (fun t => t ∈ ls.flatMap id ∧ t ∉ rem.flatMap id) := by
  rw [somes_find]
  · apply List.filter_congr
    intro t _
    rw [decide_eq_decide]
    simp only [setDiff, unionAll, List.mem_filter]
    constructor
    · intro h; exact ⟨h.1, of_decide_eq_true h.2⟩
    · intro h; exact ⟨h.1, decide_eq_true h.2⟩
  · intro t ht
    exact hfind t (List.mem_filter.mp ht).1

/-- `remove_hanging_lanelet_members`: the signs / lights referenced by the lanelets to remove and by no remaining
    lanelet, as far as they exist in the network, are removed (signs first), each with its id. -/
theorem tie_remove_hanging_lanelet_members (s : St) (ls : List Lanelet) :
    Gen.Scenario_remove_hanging_lanelet_members s ls = removeHanging s ls := by
  unfold Gen.Scenario_remove_hanging_lanelet_members removeHanging hangingSigns hangingLights
  simp only [tryE_ret]
  rw [foldl_collect _ _ _ (by intro acc t; rfl), foldl_collect _ _ _ (by intro acc t; rfl)]
  simp only [List.nil_append, tie_remove_traffic_sign_list, tie_remove_traffic_light_list, tryE_eq_andThen]
  rw [hanging_eq _ _ (by intro t ht; simp [findSign, ht]), hanging_eq _ _ (by intro t ht; simp [findLight, ht])]
  simp [List.flatMap_map]

theorem drop_loop (f : St → Lanelet → St × Out)
    (hf : ∀ s l, f s l = if (findLanelet s.net l.id).isNone then (s, .err .key)
      else idSetRemove { s with net := s.net.removeLanelet l.id } l.id)
    (s : St) (ls : List Lanelet) : forE f s ls = forEach dropLanelet s ls := by
  rw [forE_eq_forEach]
  congr 1
  funext s l
  rw [hf]
  unfold dropLanelet dropLaneletBody
  by_cases h : l.id ∈ s.net.lanelets.map (·.id)
  · obtain ⟨x, hx⟩ := Option.isSome_iff_exists.mp ((findLanelet_isSome s.net l.id).mpr h)
    simp only [hx, Option.isNone_some, Bool.false_eq_true, if_false, if_pos h, idSetRemove_eq_release]
  · have hx : findLanelet s.net l.id = none := by
      cases hx : findLanelet s.net l.id with
      | none => rfl
      | some x => exact absurd ((findLanelet_isSome s.net l.id).mp (by simp [hx])) h
    simp only [hx, Option.isNone_none, if_true, if_neg h]

/-- `remove_lanelet` (list form): hanging signs / lights first (if asked for), then every listed lanelet: KeyError
    if it is not contained, else deleted from the network and its id released. -/
theorem tie_remove_lanelet_list (s : St) (ls : List Lanelet) (refd : Bool) :
    Gen.Scenario_remove_lanelet_list s ls refd = removeLanelets s ls refd := by
  unfold Gen.Scenario_remove_lanelet_list removeLanelets
  simp only [tryE_ret, tie_remove_hanging_lanelet_members]
  simp only [drop_loop _ (fun _ _ => rfl), tryE_eq_andThen]
  cases refd <;> simp [removeHanging, andThen]

/-- `remove_lanelet` (one lanelet) wraps it into a list. -/
theorem tie_remove_lanelet (s : St) (l : Lanelet) (refd : Bool) :
    Gen.Scenario_remove_lanelet s l refd = removeLanelets s [l] refd := by
  unfold Gen.Scenario_remove_lanelet removeLanelets
  simp only [tryE_ret, tie_remove_hanging_lanelet_members]
  simp only [drop_loop _ (fun _ _ => rfl), tryE_eq_andThen]
  cases refd <;> simp [removeHanging, andThen]

theorem erase_loop (f : St → Nat → St × Out)
    (hf : ∀ s k, f s k = withLanelet s k (fun l => removeLanelets s [l] true)) (s : St) (ks : List Nat) :
    forE f s ks = forEach eraseLanelet s ks := by
  rw [forE_eq_forEach]
  congr 1
  funext s k
  rw [hf]
  unfold withLanelet eraseLanelet
  rfl

/-- `erase_lanelet_network`: every lanelet (with its hanging signs / lights), then the remaining signs, lights,
    intersections are removed through the removal operations (ids released), then the network object is replaced. -/
theorem tie_erase_lanelet_network (s : St) : Gen.Scenario_erase_lanelet_network s = erase s := by
  unfold Gen.Scenario_erase_lanelet_network erase
  simp only [tryE_ret, tie_remove_lanelet, tie_remove_traffic_sign, tie_remove_traffic_light, tie_remove_intersection]
  rw [erase_loop _ (fun _ _ => rfl)]
  simp only [forE_eq_forEach, tryE_eq_andThen]

/-- `replace_lanelet_network` = erase, then `add_objects(network)`. -/
theorem tie_replace_lanelet_network (s : St) (n : Net) :
    Gen.Scenario_replace_lanelet_network s n = replaceNet s n := by
  unfold Gen.Scenario_replace_lanelet_network replaceNet
  simp only [tryE_ret]
  simp only [tie_erase_lanelet_network, tie_add_objects, tryE_eq_andThen]
  simp [addObj]

end CR.IdPool
