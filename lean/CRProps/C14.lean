/-
  C14 — Solution files round-trip exactly and follow the solution schema.
  Property theorems only (helper lemmas: CRProofs/SolutionXml.lean; model: CRModel/SolutionXml.lean, a mirror of
  commonroad/common/solution.py and of CommonRoadSolution_schema.xsd).

  Number / date text is a parameter (`Codec`): the theorems hold for every codec that reads back what it printed
  (`Codec.Lawful`, trusted for CPython/numpy, sampled by the float.hex oracle on every run).
  The benchmark id is modelled at token level (vehicle ids, cost ids, scenario id, version); see the model header.
-/
import CRProofs.SolutionXml
namespace CR.Sol

/-! ## (a) the field tables are index-aligned — decided over the whole table -/

/-- For every member of `StateFields` / `XMLStateFields`: same length; the XML element names are pairwise different
    (so `find(name)` is unambiguous); the field names are pairwise different; a tuple entry sits exactly at
    `position` and the name "time" exactly at `time_step`; the reader's state class for that member has exactly the
    member's fields as attributes; the reader's `state_types` table has an entry for it; and the trajectory tag maps
    back to the member. -/
theorem C14_tables_aligned (T : TType) :
    (fields T).length = (xmlFields T).length ∧
    (leafNames T).Nodup ∧ (fields T).Nodup ∧
    (∀ e ∈ table T, (e.1 = XName.one "time" ↔ e.2 = "time_step") ∧
                    ((match e.1 with | .pair _ _ => true | .one _ => false) = true ↔ e.2 = "position")) ∧
    (∀ a ∈ classAttrs T, a ∈ fields T) ∧ (∀ a ∈ fields T, a ∈ classAttrs T) ∧
    T ∈ readerStateTypes ∧
    TType.ofTrajTag? (trajTag T) = some T := by
  cases T <;> decide

/-- The same facts in the Boolean form the proofs consume. -/
theorem C14_tables_ok (T : TType) : tableOK T = true ∧ tableOK2 T = true :=
  ⟨tableOK_all T, tableOK2_all T⟩

/-! ## (b) round trip -/

/-- One state: written with the table of `T`, read back with the table of `T`, gives the values of all of `T`'s
    fields, held by the class of `T`.  Any lawful number codec, any typed state, every `T`. -/
theorem C14_state_roundtrip (c : Codec) (hc : c.Lawful) (T : TType) (st : State)
    (ht : typedFor (table T) st = true) :
    ∃ n, createStateNode c T st = .ok n ∧ parseState c T n = .ok (projectState T st) :=
  ⟨_, createStateNode_ok c T st ht, parseState_written c hc T st ht⟩

/-- … and the state that comes back carries, for every field of `T`, the very value token that went in
    ("bit-identical state values"). -/
theorem C14_state_values (T : TType) (st : State) (ht : typedFor (table T) st = true) :
    ∀ f ∈ fields T, getattr (projectState T st) f = getattr st f ∧ getattr st f ≠ none := by
  intro f hf
  obtain ⟨hmap, _, hsub, _, _, _, _, _⟩ := tableOK_parts T
  rw [← hmap, List.mem_map] at hf
  obtain ⟨e, he, rfl⟩ := hf
  have hok := typed_entry ht he
  unfold entryOK at hok
  cases hg : getattr st e.2 with
  | none => simp [hg] at hok
  | some v =>
    rw [getattr_project T st e.2 (hsub e he)]
    simp [valOf, hg]

/-- The whole document.  For every admissible solution — any number of planning problems, every vehicle model ×
    trajectory type × cost function the constructors accept, any number of states in any order, optional date,
    computation time and processor name — writing succeeds and reading the written tree gives `normSol auto s`:
    the same solution with each trajectory's states in ascending time-step order (stable), each state reduced to
    the fields of its trajectory type, the date cut to the second, and the keyword "auto" replaced by the machine's
    processor name. -/
theorem C14_sol_roundtrip (c : Codec) (hc : c.Lawful) (auto : Option String) (s : Solution)
    (h : Admissible c s) :
    ∃ r, encodeSol c auto s = .ok r ∧ decodeSol c r = .ok (normSol auto s) := by
  obtain ⟨hgood, hdist, hpos⟩ := h
  refine ⟨_, encodeSol_ok c auto s hgood, ?_⟩
  have hnodes := parseNodes_written c hc s.pps hgood
  have hdict := dictOf_distinct _ (distinctIds_map_norm s.pps hdist)
  simp only [decodeSol, parseHeader_written c hc auto s, benchOf, hnodes, mkSolution, hdict, normSol]
  cases hct : s.ct with
  | none => rfl
  | some t => simp [hpos t hct]

/-- What `normSol` keeps unchanged: benchmark id (vehicle ids, cost ids, scenario id, version), planning-problem
    ids, trajectory types, computation time; the processor name unless it is the keyword "auto". -/
theorem C14_roundtrip_keeps (auto : Option String) (s : Solution) :
    benchOf (normSol auto s) = benchOf s ∧
    (normSol auto s).pps.map (·.ppId) = s.pps.map (·.ppId) ∧
    (normSol auto s).pps.map (·.ttype) = s.pps.map (·.ttype) ∧
    (normSol auto s).ct = s.ct ∧
    (s.proc ≠ some "auto" → (normSol auto s).proc = s.proc) ∧
    (normSol auto s).date = s.date.map (fun d => ⟨d.sec, 0⟩) := by
  refine ⟨?_, ?_, ?_, rfl, ?_, rfl⟩
  · simp [benchOf, normSol, normPPS, Function.comp_def]
  · simp [normSol, normPPS, Function.comp_def]
  · simp [normSol, normPPS, Function.comp_def]
  · intro h; simp [normSol, h]

/-- The states that come back are in ascending time-step order and are exactly the written states (a permutation
    of them, each reduced to the type's fields). -/
theorem C14_roundtrip_time_ascending (T : TType) (tr : Traj) :
    (normTraj T tr).states.Pairwise (fun a b => timeOf a ≤ timeOf b) ∧
    (normTraj T tr).states.Perm (tr.states.map (projectState T)) := by
  refine ⟨?_, List.mergeSort_perm _ _⟩
  have := List.pairwise_mergeSort timeLe_trans timeLe_total (tr.states.map (projectState T))
  exact this.imp (fun h => by simpa [timeLe] using h)

/-- `decodeSol (encodeSol s) = s` — exact round trip for every admissible solution in normal form (time steps
    ascending, states of the type's own class, date to the second, processor name not the keyword "auto"). -/
theorem C14_sol_roundtrip_exact (c : Codec) (hc : c.Lawful) (auto : Option String) (s : Solution)
    (h : Admissible c s) (hn : IsNormal s) :
    ∃ r, encodeSol c auto s = .ok r ∧ decodeSol c r = .ok s := by
  have := C14_sol_roundtrip c hc auto s h
  rwa [normSol_of_normal auto s h.1 hn] at this

/-! ## (c) the written document conforms to the schema -/

/-- For every admissible solution whose trajectory types are all defined by the schema and listed in the schema's
    order, whose time steps fit `xs:int`, and whose number / date texts are in the lexical spaces of `xs:float` /
    `xs:dateTime` (Python's `repr` of a finite double, `strftime` with a four-digit year), the written tree is
    valid against the schema's content model. -/
theorem C14_sol_valid (c : Codec) (lx : Lex) (auto : Option String) (s : Solution)
    (h : Admissible c s)
    (hord : inSchemaOrder solSchema (s.pps.map fun p => trajTag p.ttype) = true)
    (hF : ∀ v, lx.float (c.fmtNum v) = true)
    (hD : ∀ d, lx.dateTime (c.fmtDate d) = true)
    (hI : ∀ t : Int, 0 ≤ t → t ≤ 2147483647 → lx.int (c.fmtInt t) = true)
    (hT : ∀ p ∈ s.pps, ∀ st ∈ p.traj.states, timeOf st ≤ 2147483647) :
    ∃ r, encodeSol c auto s = .ok r ∧ validate lx solSchema r = true := by
  obtain ⟨hgood, _, _⟩ := h
  refine ⟨_, encodeSol_ok c auto s hgood, ?_⟩
  simp only [inSchemaOrder, Bool.and_eq_true, List.all_eq_true, List.mem_map, forall_exists_index, and_imp,
    forall_apply_eq_imp_iff₂, List.map_map] at hord
  obtain ⟨hsome, hmono⟩ := hord
  rw [List.all_eq_true] at hgood
  have hseq : matchSeq lx solSchema.trajs (s.pps.map (ppsNode c)) = true := by
    apply matchSeq_ok
    · intro n hn
      rw [List.mem_map] at hn
      obtain ⟨p, hp, rfl⟩ := hn
      exact hsome p hp
    · rw [List.map_map]
      exact hmono
    · intro n hn d hd htag
      rw [List.mem_map] at hn
      obtain ⟨p, hp, rfl⟩ := hn
      have hg := (goodPPS_parts (hgood p hp)).2.2
      have hrow := rowOK_all p.ttype (hsome p hp) d hd htag
      apply validTraj_written c lx p d hrow hg hF
      intro st hst
      exact hI _ ((goodTraj_parts hg).2.1 st hst) (hT p hp st hst)
  have hb : (solSchema.attrs.lookup "benchmark_id").isSome = true := by decide
  simp only [validate, validAttrs_written c lx auto s hF hD, hseq, hb, Bool.and_true, beq_iff_eq]
  rfl

/-- The schema does not define the KST trajectory type (so the property text exempts it). -/
theorem C14_kst_not_in_schema : schemaIndex solSchema (trajTag .KST) = none := by decide

/-- The other six types are defined, in this order. -/
theorem C14_schema_order :
    [TType.PMInput, .Input, .PM, .KS, .ST, .MB].map (fun T => schemaIndex solSchema (trajTag T)) =
      [some 0, some 1, some 2, some 3, some 4, some 5] := by decide

/-- A document that starts with a KST trajectory is rejected by the schema's content model (so the exemption
    is needed: `sol_valid` cannot hold for KST). -/
theorem C14_kst_document_invalid (c : Codec) (lx : Lex) (auto : Option String) (s : Solution) (p : PPS)
    (ps : List PPS) (hs : s.pps = p :: ps) (hk : p.ttype = .KST) (hg : s.pps.all goodPPS = true) :
    ∃ r, encodeSol c auto s = .ok r ∧ validate lx solSchema r = false := by
  refine ⟨_, encodeSol_ok c auto s hg, ?_⟩
  have : matchSeq lx solSchema.trajs (s.pps.map (ppsNode c)) = false := by
    rw [hs, List.map_cons]
    apply matchSeq_undeclared
    simp only [ppsNode, trajNodeOf, hk]
    exact C14_kst_not_in_schema
  simp [validate, this]

/-! ## the defect that was repaired: the reader's state-type table without KST -/

/-- With the `state_types` table as shipped before the repair (no `StateType.KST` key) reading any well-formed KST
    state ends in `KeyError`, for every codec and every typed state; with the repaired table it succeeds
    (`C14_state_roundtrip`). -/
theorem C14_witness_unrepaired_kst_keyerror (c : Codec) (hc : c.Lawful) (st : State)
    (ht : typedFor (table .KST) st = true) :
    parseStateWith readerStateTypesUnrepaired c .KST ⟨stateTag .KST, tableLeaves c st (table .KST)⟩ = .error .key := by
  obtain ⟨_, hnd, _, _, _, _, _, _⟩ := tableOK_parts .KST
  have hp := parse_written c hc st (table .KST) [] ht hnd (by simp)
  simp only [List.nil_append] at hp
  have hk : readerStateTypesUnrepaired.contains TType.KST = false := by decide
  simp only [parseStateWith, bne_self_eq_false, Bool.false_eq_true, if_false, hp, hk]

/-! ## non-vacuity: the hypotheses are satisfiable by concrete, non-trivial values -/

/-- a lawful codec exists -/
example : Codec.ident.Lawful := Codec.ident_lawful

def exPM (t : Int) : State :=
  [("time_step", .time t), ("position", .vec "0x1.8p+1" "-0x0.0p+0"), ("velocity", .num "0x1p-1074"),
   ("velocity_y", .num "0x1.fffffffffffffp+1023")]

def exKS (t : Int) : State :=
  [("time_step", .time t), ("position", .vec "a" "b"), ("steering_angle", .num "c"), ("velocity", .num "d"),
   ("orientation", .num "e")]

def exKST (t : Int) : State := exKS t ++ [("hitch_angle", .num "h")]

/-- a cooperative solution: PM (states given out of order) and KS, in schema order, with date, time, name -/
def exSol : Solution :=
  ⟨"C-USA_US101-33_2_T-1", "2020a",
   [⟨7, .PM, .BMW_320i, .JB1, .PM, ⟨2, [exPM 2, exPM 0, exPM 1]⟩⟩, ⟨3, .KS, .TRUCK, .SM1, .KS, ⟨5, [exKS 5]⟩⟩],
   some ⟨"2020-01-02T03:04:05", 678⟩, some "0x1.8p+0", some "cpu <x>"⟩

def exKstSol : Solution :=
  ⟨"ZAM_Test-1", "2020a", [⟨1, .KST, .TRUCK, .TR1, .KST, ⟨0, [exKST 0, exKST 1]⟩⟩], none, none, none⟩

example : Admissible Codec.ident exSol := ⟨by decide, by decide, fun _ _ => rfl⟩
example : Admissible Codec.ident exKstSol := ⟨by decide, by decide, fun _ h => by simp [exKstSol] at h⟩
example : typedFor (table .KST) (exKST 4) = true := by decide
example : typedFor (table .MB) ((classAttrs .MB).map fun a =>
    (a, if a = "time_step" then FVal.time 3 else if a = "position" then FVal.vec "x" "y" else FVal.num a)) = true := by
  decide
example : inSchemaOrder solSchema (exSol.pps.map fun p => trajTag p.ttype) = true := by decide
example : inSchemaOrder solSchema ["ksTrajectory", "pmTrajectory"] = false := by decide
example : IsNormal exKstSol := ⟨by decide, by simp [exKstSol], by simp [exKstSol]⟩
/-- the out-of-order example is admissible but not in normal form: the round trip really reorders it -/
example : ¬ IsNormal exSol := by
  intro h
  have := (h.1 _ (List.mem_cons_self ..)).2
  revert this
  decide
/-- the lexical hypotheses of `C14_sol_valid` hold for a concrete checker and codec -/
example : ∃ (c : Codec) (lx : Lex), (∀ v, lx.float (c.fmtNum v) = true) ∧ (∀ d, lx.dateTime (c.fmtDate d) = true) ∧
    (∀ t : Int, 0 ≤ t → t ≤ 2147483647 → lx.int (c.fmtInt t) = true) ∧ (∃ t : Int, lx.int (c.fmtInt t) = false) :=
  ⟨Codec.ident, ⟨fun _ => true, fun s => s.toInt?.any (fun i => decide (0 ≤ i ∧ i ≤ 2147483647)), fun _ => true⟩,
   fun _ => rfl, fun _ => rfl, fun t h0 h1 => by simp [Codec.ident, h0, h1], ⟨-1, by simp [Codec.ident]⟩⟩

end CR.Sol
