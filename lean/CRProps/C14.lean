/-
  C14 — Solution files round-trip exactly and follow the solution schema.
  Property theorems only (helper lemmas: CRProofs/SolutionXml.lean, SolutionLex.lean, SolutionDoc.lean; model:
  CRModel/SolutionXml.lean, a mirror of commonroad/common/solution.py and of CommonRoadSolution_schema.xsd).

  What is assumed, and where.  Number / date text is a parameter (`Codec`).  A theorem about reading needs
  `c.LawfulFor s`: for the number tokens and the date that OCCUR in `s` (and for every integer) the codec reads
  back what it printed.  A theorem about the schema needs the printed texts of the tokens that occur in `s` to be
  lexically valid.  Both are discharged for the concrete decimal-text codec `Codec.py` (a number token is the text
  Python writes; its grammar is `pyNumL`: optional `-`, digits, optional `.digits`, optional `e±digits`) and the
  concrete checkers `Lex.xsd` in `C14_sol_roundtrip_py` / `C14_sol_valid_xsd`.  What stays trusted is CPython's
  contract that `str(x)` of a finite float is such a text and that `float(str(x)) == x` bit for bit (the text
  determines the value): sampled on every run by the float.hex oracle and the `py_texts` correspondence.
  The benchmark-id string is handled by C13's character-level model; `C14_doc_roundtrip` composes the two.
-/
import CRProofs.SolutionDoc
import CRProps.C13
set_option linter.unusedSimpArgs false
namespace CR.Sol

/-! ## (a) the field tables are index-aligned — decided over the whole (finite) table -/

/-- For every member of `StateFields` / `XMLStateFields`: same length; the XML element names are pairwise different
    (so `find(name)` is unambiguous); the field names are pairwise different; a tuple entry sits exactly at
    `position` and the name "time" exactly at `time_step`; the reader's state class for that member has exactly the
    member's fields as attributes; the reader's `state_types` table has an entry for it; and the trajectory tag maps
    back to the member.  (A finite check: `decide` for each of the seven members.) -/
theorem C14_tables_aligned (T : TType) :
    (fields T).length = (xmlFields T).length ∧
    (leafNames T).Nodup ∧ (fields T).Nodup ∧
    (∀ e ∈ table T, (e.1 = XName.one "time" ↔ e.2 = "time_step") ∧
                    ((match e.1 with | .pair _ _ => true | .one _ => false) = true ↔ e.2 = "position")) ∧
    (∀ a ∈ classAttrs T, a ∈ fields T) ∧ (∀ a ∈ fields T, a ∈ classAttrs T) ∧
    T ∈ readerStateTypes ∧
    TType.ofTrajTag? (trajTag T) = some T := by
  cases T <;> decide

/-! ## (b) round trip -/

/-- One state: written with the table of `T` and read back with the table of `T` — for any codec that reads back the
    number tokens of THIS state, any typed state, every `T` — gives a state `st'` of the class of `T` that carries,
    for every field of `T`, the very value token that went in ("bit-identical state values"). -/
theorem C14_state_roundtrip (c : Codec) (T : TType) (st : State)
    (hnum : ∀ v ∈ stateToks st, c.prsNum (c.fmtNum v) = .ok v) (hint : ∀ i, c.prsInt (c.fmtInt i) = .ok i)
    (ht : typedFor (table T) st = true) :
    ∃ n st', createStateNode c T st = .ok n ∧ parseState c T n = .ok st' ∧ attrsOf st' = classAttrs T ∧
      ∀ f ∈ fields T, getattr st' f = getattr st f ∧ getattr st f ≠ none :=
  ⟨_, _, createStateNode_ok c T st ht, parseState_written c T st hnum hint ht, attrsOf_project T st,
    project_values T st ht⟩

/-- The whole element tree.  For every admissible solution — any number of planning problems, every vehicle model ×
    trajectory type × cost function the constructors accept, any number of states in any order, optional date,
    computation time and processor name — and every codec that reads back the tokens occurring in it, writing
    succeeds and reading the written tree gives `normSol auto s`: the same solution with each trajectory's states in
    ascending time-step order (stable), each state reduced to the fields of its trajectory type, the date cut to the
    second, and the keyword "auto" replaced by the machine's processor name. -/
theorem C14_sol_roundtrip (c : Codec) (auto : Option String) (s : Solution)
    (hc : c.LawfulFor s) (h : Admissible c s) :
    ∃ r, encodeSol c auto s = .ok r ∧ decodeSol c r = .ok (normSol auto s) := by
  obtain ⟨hgood, hdist, hpos⟩ := h
  refine ⟨_, encodeSol_ok c auto s hgood, ?_⟩
  have hnodes := parseNodes_written c hc.int s.pps (LawfulFor_states hc) hgood
  have hdict := dictOf_distinct _ (distinctIds_map_norm s.pps hdist)
  simp only [decodeSol, parseHeader_written c auto s (LawfulFor_ct hc) hc.date, benchOf, hnodes, mkSolution, hdict,
    normSol]
  cases hct : s.ct with
  | none => rfl
  | some t => simp [hpos t hct]

/-- The same with the concrete decimal-text codec: the only hypotheses about numbers are that the number tokens of
    `s` are texts of Python's number grammar and the date a `strftime` text. -/
theorem C14_sol_roundtrip_py (auto : Option String) (s : Solution) (h : Admissible Codec.py s)
    (hn : ∀ v ∈ numToks s, pyNumL v.toList = true) (hd : ∀ d, s.date = some d → pyDateL d.sec.toList = true) :
    ∃ r, encodeSol Codec.py auto s = .ok r ∧ decodeSol Codec.py r = .ok (normSol auto s) :=
  C14_sol_roundtrip Codec.py auto s (Codec.py_lawfulFor s hn hd) h

/-- What comes back from `decodeSol (encodeSol s)`, clause by clause of the property text: the same benchmark id
    (vehicle ids, cost ids, scenario id, version), planning-problem ids, trajectory types, computation time, the
    processor name (unless it was the keyword "auto"), the date to the second. -/
theorem C14_roundtrip_keeps (c : Codec) (auto : Option String) (s : Solution)
    (hc : c.LawfulFor s) (h : Admissible c s) :
    ∃ r s', encodeSol c auto s = .ok r ∧ decodeSol c r = .ok s' ∧
      benchOf s' = benchOf s ∧
      s'.pps.map (·.ppId) = s.pps.map (·.ppId) ∧
      s'.pps.map (·.ttype) = s.pps.map (·.ttype) ∧
      s'.ct = s.ct ∧
      (s.proc ≠ some "auto" → s'.proc = s.proc) ∧
      s'.date = s.date.map (fun d => ⟨d.sec, 0⟩) := by
  obtain ⟨r, h1, h2⟩ := C14_sol_roundtrip c auto s hc h
  refine ⟨r, _, h1, h2, ?_, ?_, ?_, rfl, ?_, rfl⟩
  · simp [benchOf, normSol, normPPS, Function.comp_def]
  · simp [normSol, normPPS, Function.comp_def]
  · simp [normSol, normPPS, Function.comp_def]
  · intro h; simp [normSol, h]

/-- … and the states: every planning problem of `decodeSol (encodeSol s)` stems from one of `s` with the same id and
    type; its time steps are in ascending order; its states are a permutation of the written ones; and each state
    that comes back carries, for every field of the trajectory type, the value token of the written state it stems
    from. -/
theorem C14_roundtrip_states (c : Codec) (auto : Option String) (s : Solution)
    (hc : c.LawfulFor s) (h : Admissible c s) :
    ∃ r s', encodeSol c auto s = .ok r ∧ decodeSol c r = .ok s' ∧ s'.pps.length = s.pps.length ∧
      ∀ p' ∈ s'.pps, ∃ p ∈ s.pps, p'.ppId = p.ppId ∧ p'.ttype = p.ttype ∧
        p'.traj.states.Pairwise (fun a b => timeOf a ≤ timeOf b) ∧
        p'.traj.states.length = p.traj.states.length ∧
        p'.traj.states.Perm (p.traj.states.map (projectState p.ttype)) ∧
        ∀ st' ∈ p'.traj.states, ∃ st ∈ p.traj.states, timeOf st' = timeOf st ∧
          ∀ f ∈ fields p.ttype, getattr st' f = getattr st f ∧ getattr st f ≠ none := by
  obtain ⟨r, h1, h2⟩ := C14_sol_roundtrip c auto s hc h
  refine ⟨r, _, h1, h2, by simp [normSol], ?_⟩
  intro p' hp'
  simp only [normSol, List.mem_map] at hp'
  obtain ⟨p, hp, rfl⟩ := hp'
  have hgood := h.1
  rw [List.all_eq_true] at hgood
  obtain ⟨ht, _, _⟩ := goodTraj_parts (goodPPS_parts (hgood p hp)).2.2
  obtain ⟨hsorted, hperm⟩ := normTraj_states p.ttype p.traj
  refine ⟨p, hp, rfl, rfl, hsorted, by simpa [normPPS] using hperm.length_eq, hperm, ?_⟩
  intro st' hst'
  have := hperm.mem_iff.1 hst'
  rw [List.mem_map] at this
  obtain ⟨st, hst, rfl⟩ := this
  exact ⟨st, hst, (time_project p.ttype st (ht st hst)).2, project_values p.ttype st (ht st hst)⟩

/-- `decodeSol (encodeSol s) = s` — exact round trip for every admissible solution in normal form (time steps
    ascending, states of the type's own class, date to the second, processor name not the keyword "auto"). -/
theorem C14_sol_roundtrip_exact (c : Codec) (auto : Option String) (s : Solution)
    (hc : c.LawfulFor s) (h : Admissible c s) (hn : IsNormal s) :
    ∃ r, encodeSol c auto s = .ok r ∧ decodeSol c r = .ok s := by
  have := C14_sol_roundtrip c auto s hc h
  rwa [normSol_of_normal auto s h.1 hn] at this

/-! ### the benchmark-id string (composition with C13) -/

/-- The text the writer stores in the `benchmark_id` attribute is C13's `Solution.benchmark_id` of the solution's
    (model, type) pairs, cost functions and scenario id, and the solution reader recovers from it exactly these, in
    the order of the trajectories (C13_solution_roundtrip, cited). -/
theorem C14_benchmark_id_roundtrip {cs : List CR.BenchId.Str} (hcs : CR.BenchId.CountriesOk cs)
    {r : CR.BenchId.Raw} (hv : CR.BenchId.Valid cs r) (s : Solution) (hne : s.pps ≠ [])
    (hscen : s.scen = String.ofList (CR.BenchId.print (CR.BenchId.norm r)))
    (hver : s.ver = String.ofList (CR.BenchId.norm r).version) :
    (benchString (benchOf s)).toList = CR.BenchId.benchmarkId (bVehicles s) (bCosts s) (CR.BenchId.norm r) ∧
    CR.BenchId.readSolutionIds cs (benchString (benchOf s)).toList s.pps.length =
      .ok (CR.BenchId.zip3 (bVehicles s) (bCosts s), CR.BenchId.norm r) := by
  have hb := benchString_eq s (CR.BenchId.norm r) hscen hver
  refine ⟨hb, ?_⟩
  rw [hb]
  have := CR.BenchId.C13_solution_roundtrip hcs hv (bVehicles s) (bCosts s) (by simp [bVehicles, bCosts])
    (by simpa [bVehicles] using hne)
  simpa [bVehicles] using this

/-- The document with the benchmark id as ONE attribute string: header, C13's `_parse_benchmark_id` /
    `ScenarioID.from_benchmark_id` on the attribute text, trajectories, `Solution(...)`.  For every admissible
    solution with at least one planning problem whose scenario id is a valid one (C13's domain), reading the written
    document gives `normSol auto s`. -/
theorem C14_doc_roundtrip (c : Codec) {cs : List CR.BenchId.Str} (hcs : CR.BenchId.CountriesOk cs)
    {r : CR.BenchId.Raw} (hv : CR.BenchId.Valid cs r) (auto : Option String) (s : Solution)
    (hc : c.LawfulFor s) (h : Admissible c s) (hne : s.pps ≠ [])
    (hscen : s.scen = String.ofList (CR.BenchId.print (CR.BenchId.norm r)))
    (hver : s.ver = String.ofList (CR.BenchId.norm r).version) :
    ∃ root, encodeSol c auto s = .ok root ∧ decodeDoc c cs (toDoc root) = .ok (normSol auto s) :=
  decodeDoc_written c cs hcs hv auto s hc h hne hscen hver

/-! ## (c) the written document conforms to the schema -/

/-- For every admissible solution whose trajectory types are all defined by the schema and listed in the schema's
    order: if the printed texts of the number tokens, the date and the time steps that OCCUR in the solution are
    lexically valid for `xs:float` / `xs:dateTime` / `xs:int`, the written tree is valid against the schema's
    content model. -/
theorem C14_sol_valid (c : Codec) (lx : Lex) (auto : Option String) (s : Solution)
    (h : Admissible c s)
    (hord : inSchemaOrder solSchema (s.pps.map fun p => trajTag p.ttype) = true)
    (hF : ∀ v ∈ numToks s, lx.float (c.fmtNum v) = true)
    (hD : ∀ d, s.date = some d → lx.dateTime (c.fmtDate d.sec) = true)
    (hI : ∀ t ∈ timeSteps s, lx.int (c.fmtInt t) = true) :
    ∃ r, encodeSol c auto s = .ok r ∧ validate lx solSchema r = true := by
  obtain ⟨hgood, _, _⟩ := h
  refine ⟨_, encodeSol_ok c auto s hgood, ?_⟩
  simp only [inSchemaOrder, Bool.and_eq_true, List.all_eq_true, List.mem_map, forall_exists_index, and_imp,
    forall_apply_eq_imp_iff₂, List.map_map] at hord
  obtain ⟨hsome, hmono⟩ := hord
  rw [List.all_eq_true] at hgood
  have hseq : matchSeq lx solSchema.trajs (s.pps.map (ppsNode c)) = true := by
    apply matchSeq_ok
    · intro n hn
      rw [List.mem_map] at hn
      obtain ⟨p, hp, rfl⟩ := hn
      exact hsome p hp
    · rw [List.map_map]
      exact hmono
    · intro n hn d hd htag
      rw [List.mem_map] at hn
      obtain ⟨p, hp, rfl⟩ := hn
      have hg := (goodPPS_parts (hgood p hp)).2.2
      have hrow := rowOK_all p.ttype (hsome p hp) d hd htag
      apply validTraj_written c lx p d hrow hg
      · intro st hst v hv
        apply hF
        simp only [numToks, List.mem_append, List.mem_flatMap, ppsToks]
        exact Or.inl ⟨p, hp, st, hst, hv⟩
      · intro st hst
        apply hI
        simp only [timeSteps, List.mem_flatMap, List.mem_map]
        exact ⟨p, hp, st, hst, rfl⟩
  have hb : (solSchema.attrs.lookup "benchmark_id").isSome = true := by decide
  have hattrs := validAttrs_written c lx auto s (fun t ht => hF t (by simp [numToks, ht])) hD
  simp only [validate, hattrs, hseq, hb, Bool.and_true, beq_iff_eq]
  rfl

/-- The schema clause about the REAL lexical spaces: with the decimal-text codec (tokens are the texts Python
    writes) and the concrete `xs:float` / `xs:int` / `xs:dateTime` checkers, for every admissible solution whose
    types the schema defines, listed in its order, whose numbers are finite (their text is of Python's number
    grammar — not `inf` / `nan`), whose date has a four-digit year and whose time steps fit 32 bits, the written
    tree is valid. -/
theorem C14_sol_valid_xsd (auto : Option String) (s : Solution) (h : Admissible Codec.py s)
    (hord : inSchemaOrder solSchema (s.pps.map fun p => trajTag p.ttype) = true)
    (hn : ∀ v ∈ numToks s, pyNumL v.toList = true)
    (hd : ∀ d, s.date = some d → pyDateL d.sec.toList = true)
    (ht : ∀ t ∈ timeSteps s, t ≤ 2147483647) :
    ∃ r, encodeSol Codec.py auto s = .ok r ∧ validate Lex.xsd solSchema r = true := by
  apply C14_sol_valid Codec.py Lex.xsd auto s h hord
  · intro v hv
    exact isXsFloat_of_pyNum v (hn v hv)
  · intro d hd'
    exact isXsDateTime_of_pyDate d.sec (hd d hd')
  · intro t htm
    have h0 : 0 ≤ t := by
      simp only [timeSteps, List.mem_flatMap, List.mem_map] at htm
      obtain ⟨p, hp, st, hst, rfl⟩ := htm
      have hgood := h.1
      rw [List.all_eq_true] at hgood
      exact (goodTraj_parts (goodPPS_parts (hgood p hp)).2.2).2.1 st hst
    exact isXsInt_repr t h0 (ht t htm)

/-- The schema does not define the KST trajectory type (so the property text exempts it); the other six types are
    defined, in this order.  (Finite facts about the schema term, by evaluation.) -/
theorem C14_schema_order :
    schemaIndex solSchema (trajTag .KST) = none ∧
    [TType.PMInput, .Input, .PM, .KS, .ST, .MB].map (fun T => schemaIndex solSchema (trajTag T)) =
      [some 0, some 1, some 2, some 3, some 4, some 5] := by decide

/-- A document that contains a KST trajectory AT ANY POSITION is rejected by the schema's content model, for every
    codec and every lexical checker (so the exemption in the property text is needed). -/
theorem C14_kst_document_invalid (c : Codec) (lx : Lex) (auto : Option String) (s : Solution)
    (hg : s.pps.all goodPPS = true) (hk : ∃ p ∈ s.pps, p.ttype = .KST) :
    ∃ r, encodeSol c auto s = .ok r ∧ validate lx solSchema r = false := by
  refine ⟨_, encodeSol_ok c auto s hg, ?_⟩
  obtain ⟨p, hp, hpk⟩ := hk
  have : matchSeq lx solSchema.trajs (s.pps.map (ppsNode c)) = false := by
    cases hm : matchSeq lx solSchema.trajs (s.pps.map (ppsNode c)) with
    | false => rfl
    | true =>
      have := matchSeq_declared lx _ _ hm (ppsNode c p) (List.mem_map_of_mem hp)
      simp only [ppsNode, trajNodeOf, hpk] at this
      have hnone := C14_schema_order.1
      simp only [schemaIndex] at hnone
      simp [hnone] at this
  simp [validate, this]

/-- Likewise a document whose trajectories are not in the schema's order is rejected (concrete instance: KS before
    PM), so the restriction "listed in the order it defines them" is needed too. -/
theorem C14_order_needed (c : Codec) (lx : Lex) (auto : Option String) (s : Solution) (p q : PPS)
    (hs : s.pps = [p, q]) (hp : p.ttype = .KS) (hq : q.ttype = .PM) (hg : s.pps.all goodPPS = true) :
    ∃ r, encodeSol c auto s = .ok r ∧ validate lx solSchema r = false := by
  refine ⟨_, encodeSol_ok c auto s hg, ?_⟩
  have : matchSeq lx solSchema.trajs (s.pps.map (ppsNode c)) = false := by
    simp [hs, ppsNode, trajNodeOf, hp, hq, solSchema, matchSeq, trajTag]
  simp [validate, this]

/-! ## the defect that was repaired: the reader's state-type table without KST -/

/-- With the `state_types` table as shipped before the repair (no `StateType.KST` key) reading any well-formed KST
    state ends in `KeyError`, for every codec and every typed state; with the repaired table it succeeds
    (`C14_state_roundtrip`). -/
theorem C14_witness_unrepaired_kst_keyerror (c : Codec) (st : State)
    (hnum : ∀ v ∈ stateToks st, c.prsNum (c.fmtNum v) = .ok v) (hint : ∀ i, c.prsInt (c.fmtInt i) = .ok i)
    (ht : typedFor (table .KST) st = true) :
    parseStateWith readerStateTypesUnrepaired c .KST ⟨stateTag .KST, tableLeaves c st (table .KST)⟩ = .error .key := by
  obtain ⟨_, hnd, _, _, _, _, _, _⟩ := tableOK_parts .KST
  have hp := parse_written c st hnum hint (table .KST) [] ht hnd (by simp)
  simp only [List.nil_append] at hp
  have hk : readerStateTypesUnrepaired.contains TType.KST = false := by decide
  simp only [parseStateWith, bne_self_eq_false, Bool.false_eq_true, if_false, hp, hk]

/-! ## non-vacuity: the hypotheses are satisfiable by concrete, non-trivial values -/

/-- texts Python really writes are in the grammar, others are not -/
example : ["1e-05", "-0.0", "3", "1.7976931348623157e+308", "5e-324", "9007199254740992.0", "-7", "1.5e+16"].all
    (fun t => pyNumL t.toList) = true := by decide
example : ["inf", "nan", "-inf", "1e5", "1.", ".5", "+1.0", "1.0 ", "0x1p3", ""].any (fun t => pyNumL t.toList) = false := by
  decide
example : pyDateL "2020-01-02T03:04:05".toList = true ∧ pyDateL "999-01-02T03:04:05".toList = false ∧
    pyDateL "2021-02-29T00:00:00".toList = false := by decide
/-- the concrete checkers reject what the schema's types reject -/
example : xsFloatL "inf".toList = false ∧ xsFloatL "1_0".toList = false ∧ xsIntL "2147483648".toList = false ∧
    xsIntL "1.0".toList = false ∧ xsDateTimeL "999-01-02T03:04:05".toList = false := by decide

/-- lawful codecs exist: the identity codec for all tokens, the decimal-text codec on Python's texts -/
example : Codec.ident.Lawful := Codec.ident_lawful

def exPM (t : Int) : State :=
  [("time_step", .time t), ("position", .vec "3.0" "-0.0"), ("velocity", .num "5e-324"),
   ("velocity_y", .num "1.7976931348623157e+308")]

def exKS (t : Int) : State :=
  [("time_step", .time t), ("position", .vec "1.5" "2"), ("steering_angle", .num "1e-05"), ("velocity", .num "-7"),
   ("orientation", .num "0.1")]

def exKST (t : Int) : State := exKS t ++ [("hitch_angle", .num "0.25")]

/-- a cooperative solution: PM (states given out of order) and KS, in schema order, with date, time, name -/
def exSol : Solution :=
  ⟨"C-USA_US101-33_2_T-1-2", "2020a",
   [⟨7, .PM, .BMW_320i, .JB1, .PM, ⟨2, [exPM 2, exPM 0, exPM 1]⟩⟩, ⟨3, .KS, .TRUCK, .SM1, .KS, ⟨5, [exKS 5]⟩⟩],
   some ⟨"2020-01-02T03:04:05", 678⟩, some "1.5", some "cpu <x>"⟩

def exKstSol : Solution :=
  ⟨"ZAM_Test-1", "2020a", [⟨1, .KST, .TRUCK, .TR1, .KST, ⟨0, [exKST 0, exKST 1]⟩⟩], none, none, none⟩

example : Admissible Codec.py exSol :=
  ⟨by decide, by decide, fun t h => by simp only [exSol, Option.some.injEq] at h; subst h; decide⟩
example : Admissible Codec.py exKstSol := ⟨by decide, by decide, fun _ h => by simp [exKstSol] at h⟩
example : ∀ v ∈ numToks exSol, pyNumL v.toList = true := by decide
example : ∀ d, exSol.date = some d → pyDateL d.sec.toList = true := by
  intro d h; simp only [exSol, Option.some.injEq] at h; subst h; decide
example : ∀ t ∈ timeSteps exSol, t ≤ 2147483647 := by decide
example : inSchemaOrder solSchema (exSol.pps.map fun p => trajTag p.ttype) = true := by decide
example : inSchemaOrder solSchema ["ksTrajectory", "pmTrajectory"] = false := by decide
example : typedFor (table .KST) (exKST 4) = true := by decide
example : typedFor (table .MB) ((classAttrs .MB).map fun a =>
    (a, if a = "time_step" then FVal.time 3 else if a = "position" then FVal.vec "1.0" "2.0" else FVal.num "0.5")) = true := by
  decide
example : IsNormal exKstSol := ⟨by decide, by simp [exKstSol], by simp [exKstSol]⟩
/-- the out-of-order example is admissible but not in normal form: the round trip really reorders it -/
example : ¬ IsNormal exSol := by
  intro h
  have := (h.1 _ (List.mem_cons_self ..)).2
  revert this
  decide
/-- the scenario id of the example is the one C13 proves valid, so `C14_doc_roundtrip` applies to `exSol` -/
example : exSol.scen = String.ofList (CR.BenchId.print (CR.BenchId.norm CR.BenchId.exRaw)) ∧
    exSol.ver = String.ofList (CR.BenchId.norm CR.BenchId.exRaw).version := by decide
example : (benchString (benchOf exSol)) = "[PM2,KS4]:[JB1,SM1]:C-USA_US101-33_2_T-1-2:2020a" := by decide

end CR.Sol
