import CRModel.SolutionXml
namespace CR.Sol
theorem C14_stub : True := trivial
end CR.Sol
