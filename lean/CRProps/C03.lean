import CRModel.XsdModel
import CRModel.XmlNum
import CRModel.CRXml
import Gen.XsdScenario

namespace CR.C03
open CR.Xsd

theorem C03_placeholder : (CR.Xsd.Gen.schema.rootName = "commonRoad") := by decide

end CR.C03
