/-
  C03 — every written XML scenario file is valid against the shipped CommonRoad 2020a XSD.

  The schema term `CR.Xsd.Gen.schema` is regenerated from the XSD of the working tree on every run
  (harness/translate/xsd.py -> lean/Gen/XsdScenario.lean) and imported here directly: every theorem below that mentions
  it is re-checked against what the XSD says *now*.

  Clauses of the property                       theorems
  ───────────────────────────────────────────  ──────────────────────────────────────────────────────────────────
  plain decimal numbers (no exponent,          C03_decimal_lexical (float_to_str), C03_fixed_format_decimal,
   no nan/inf, at most one dot), all            C03_decimal_to_str_lexical, C03_decimal_no_exponent_nan_inf,
   finite floats, all precisions                C03_decimal_one_dot, C03_positive_decimal (positiveDecimal facet),
                                                C03_decimal_accepted, C03_positive_decimal_accepted
  element order per node builder               C03_order_* (23 builders), C03_shape_order, C03_position_order,
                                                C03_state_all / C03_initial_state_all / C03_tags_all (xs:all content)
  enumerations use schema values               C03_enum_*
  required elements / complete subtrees        C03_valid_point, C03_valid_rectangle, C03_valid_circle (full recursive validity)
  every subtree down to the leaves             C03_valid_* (section 7: states, shapes, predictions, obstacles, lanelets, signs,
                                                lights, intersections, planning problems, location, tags), C03_valid_tree
  id / ref key constraints                     C03_keys_ok, C03_doc_key_values, C03_doc_refs
  whole document                               C03_valid_doc : C03_valid_doc_full writerModel  (complete writer model);
                                                C03_valid_doc_partial / C03_valid_doc_parts (root assembly from valid parts)
-/
import CRProofs.Xsd
import CRProofs.XsdEnum
import CRProofs.XsdEnumA1
import CRProofs.XsdEnumA2
import CRProofs.XsdEnumA3
import CRProofs.XsdEnumA4
import CRProofs.XsdEnumB
import CRProofs.XsdDocF
import Gen.XsdScenario
import Gen.PyEnums

namespace CR.C03
open CR.Xsd CR.XmlNum CR.XmlW

/-! ## 1. Numbers -/

/-- **decimal_lexical.** For every finite float (whatever its repr: plain or exponent form, whatever its exact value
    `(-1)^neg · num/den`) and every precision `p`, `float_to_str` writes a string in the lexical space of xs:decimal. -/
theorem C03_decimal_lexical (repr : Str) (neg : Bool) (num den p : Nat)
    (hfinite : isPlainRepr repr = true ∨ repr.contains 'e' = true) :
    isDecimal (floatToStr repr neg num den p) = true :=
  floatToStr_isDecimal repr neg num den p hfinite

/-- `format(x, ".pf")` — the branch taken for exponent-form reprs — is a decimal for all values and precisions. -/
theorem C03_fixed_format_decimal (neg : Bool) (num den p : Nat) : isDecimal (fixedFmt neg num den p) = true :=
  fixedFmt_isDecimal neg num den p

/-- `decimal_to_str` (lengths, radii, shape orientation, gps, geo transformation, time step size) writes a decimal for
    every finite float repr, plain or scientific. -/
theorem C03_decimal_to_str_lexical (repr : Str) (hfinite : isPlainRepr repr = true ∨ isSciRepr repr = true) :
    isDecimal (decimalToStr repr) = true :=
  decimalToStr_isDecimal hfinite

/-- A decimal literal consists of digits, at most a leading sign, and points: in particular it contains no `e`/`E`
    and is none of `nan`, `inf`, `-inf`, `NaN`, `INF`. -/
theorem C03_decimal_no_exponent_nan_inf (s : Str) (h : isDecimal s = true) :
    'e' ∉ s ∧ 'E' ∉ s ∧ 'n' ∉ s ∧ 'N' ∉ s ∧ 'i' ∉ s ∧ 'I' ∉ s := by
  have hc := isDecimal_chars h
  have key : ∀ c : Char, c.isDigit = false → c ≠ '.' → c ≠ '+' → c ≠ '-' → c ∉ s := by
    intro c h1 h2 h3 h4 hm
    rcases hc c hm with h | h | h | h
    · rw [h1] at h; exact absurd h (by decide)
    · exact h2 h
    · exact h3 h
    · exact h4 h
  exact ⟨key _ (by decide) (by decide) (by decide) (by decide), key _ (by decide) (by decide) (by decide) (by decide),
         key _ (by decide) (by decide) (by decide) (by decide), key _ (by decide) (by decide) (by decide) (by decide),
         key _ (by decide) (by decide) (by decide) (by decide), key _ (by decide) (by decide) (by decide) (by decide)⟩

theorem C03_decimal_one_dot (s : Str) (h : isDecimal s = true) : s.count '.' ≤ 1 := isDecimal_one_dot h

/-- A positive finite float (no sign, a non-zero mantissa digit) is written by `decimal_to_str` as a decimal > 0:
    no digit is cut off, whatever the precision setting (lengths below 1e-4 stay positive). -/
theorem C03_positive_decimal (repr : Str) (hfinite : isPlainRepr repr = true ∨ isSciRepr repr = true)
    (hpos : isNeg repr = false ∧ (mantissa repr).any nz = true) :
    isDecimal (decimalToStr repr) = true ∧ decGt (decimalToStr repr) 0 = true := by
  have h := decimalToStr_positive hfinite hpos.1 hpos.2
  exact ⟨decimalToStr_isDecimal hfinite, decGt_zero h.1 h.2⟩

/-- … and the schema's own simple types accept these strings. -/
theorem C03_decimal_accepted (s : Str) (h : isDecimal s = true) :
    (simpleOf schema "xs:decimal").map (·.accepts s) = some true := by
  have e : simpleOf schema "xs:decimal" =
      some { base := .decimal, enum := [], minExcl := none, minIncl := none, maxIncl := none } := by decide
  rw [e]; simp only [Option.map_some]; rw [decimal_accepts h]

theorem C03_positive_decimal_accepted (repr : Str) (hfinite : isPlainRepr repr = true ∨ isSciRepr repr = true)
    (hpos : isNeg repr = false ∧ (mantissa repr).any nz = true) :
    (simpleOf schema "positiveDecimal").map (·.accepts (decimalToStr repr)) = some true := by
  have e : simpleOf schema "positiveDecimal" =
      some { base := .decimal, enum := [], minExcl := some 0, minIncl := none, maxIncl := none } := by decide
  have h := decimalToStr_positive hfinite hpos.1 hpos.2
  rw [e]; simp only [Option.map_some]
  rw [positiveDecimal_accepts (decimalToStr_isDecimal hfinite) h.1 h.2]

-- non-vacuity: the hypotheses are satisfiable by the reprs the property text names, and the conclusions are not trivial
example : isSciRepr "1e-05".toList = true ∧ isNeg "1e-05".toList = false ∧ (mantissa "1e-05".toList).any nz = true := by decide
example : decimalToStr "1e-05".toList = "0.00001".toList := by decide
example : decimalToStr "1.5e+17".toList = "150000000000000000.0".toList := by decide
example : floatToStr "1e-06".toList false 1 1000000 4 = "0.0000".toList := by decide
example : floatToStr "123456.789012".toList false 123456789012 1000000 4 = "123456.7890".toList := by decide
example : isDecimal "1e-05".toList = false ∧ isDecimal "nan".toList = false ∧ isDecimal "inf".toList = false := by decide
example : isPlainRepr "100000.0".toList = true ∧ isPlainRepr "-0.0".toList = true ∧ isPlainRepr "nan".toList = false := by decide


/-! ## 2. Element order per node builder

`XmlW.<builder>Kids` is the sequence of child-element names the builder emits (CRModel/CRXmlW.lean, tied to the code by the
correspondence op `kids`).  Each theorem: for ALL shapes of the object that the schema can express (the hypotheses are the
`minOccurs` the XSD itself demands: ≥ 2 bound points, ≥ 3 polygon vertices, ≥ 1 lanelet, …) the emitted sequence matches
the content model of the complex type in the regenerated schema. -/

def Ok (type : String) (kids : List String) : Prop := (matchGroup (schema.content type) kids).isSome = true

instance (type : String) (kids : List String) : Decidable (Ok type kids) :=
  inferInstanceAs (Decidable ((matchGroup (schema.content type) kids).isSome = true))

macro "kids_eq" defs:Lean.Parser.Tactic.simpLemma,* : tactic =>
  `(tactic| (simp only [$defs,*, blocksN, CR.XmlW.rep, CR.XmlW.opt, List.map, Cnt.val] <;> (try split) <;> simp))

theorem C03_order_point (z : Bool) : Ok "point" (pointKids z) := by cases z <;> decide
/-- rectangles and circles, also as shapes of dynamic obstacles with any combination of a non-default orientation / center -/
theorem C03_order_rectangle (dyn oriSet ctrSet : Bool) : Ok "rectangle" (rectangleKids dyn oriSet ctrSet) := by
  cases dyn <;> cases oriSet <;> cases ctrSet <;> decide
theorem C03_order_circle (dyn ctrSet : Bool) : Ok "circle" (circleKids dyn ctrSet) := by
  cases dyn <;> cases ctrSet <;> decide

theorem C03_order_polygon (n : Nat) (h : 3 ≤ n) : Ok "polygon" (polygonKids n) :=
  order_of (by decide) ["point"] (by decide) [.ge 3 n h] (by rfl) (by kids_eq polygonKids)

theorem C03_order_bound (n : Nat) (marking : Bool) (h : 2 ≤ n) : Ok "bound" (boundKids n marking) :=
  order_of (by decide) ["point", "lineMarking"] (by decide) [.ge 2 n h, .opt marking] (by rfl) (by
    cases marking <;> kids_eq boundKids)

theorem C03_order_lanelet (p : LaneletP) : Ok "lanelet" (laneletKids p) :=
  order_of (by decide)
    ["leftBound", "rightBound", "predecessor", "successor", "adjacentLeft", "adjacentRight", "stopLine", "laneletType",
     "userOneWay", "userBidirectional", "trafficSignRef", "trafficLightRef"] (by decide)
    [.const 1, .const 1, .any p.nPred, .any p.nSucc, .opt p.adjL, .opt p.adjR, .opt p.stop,
     .ge 1 (if p.nTypes = 0 then 1 else p.nTypes) (by split <;> omega), .any p.nOneWay, .any p.nBidir, .any p.nSigns,
     .any p.nLights] (by rfl) (by
      simp only [laneletKids, blocksN, CR.XmlW.rep, CR.XmlW.opt, List.map, Cnt.val]
      cases p.adjL <;> cases p.adjR <;> cases p.stop <;> simp)

/-- the stop line's `lineMarking` is always emitted (`if stop_line.line_marking:` — an enum member is truthy) -/
theorem C03_order_stopLine (points : Bool) (nSigns nLights : Nat) : Ok "stopLine" (stopLineKids points true nSigns nLights) :=
  order_of (by decide) ["point", "lineMarking", "trafficSignRef", "trafficLightRef"] (by decide)
    [.const (if points then 2 else 0), .const 1, .any nSigns, .any nLights] (by cases points <;> rfl) (by
      cases points <;> simp [stopLineKids, blocksN, CR.XmlW.rep, CR.XmlW.opt, Cnt.val])

theorem C03_order_trafficSign (n : Nat) (position virtual : Bool) (h : 1 ≤ n) :
    Ok "trafficSign" (trafficSignKids n position virtual) :=
  order_of (by decide) ["trafficSignElement", "position", "virtual"] (by decide) [.ge 1 n h, .opt position, .opt virtual]
    (by rfl) (by cases position <;> cases virtual <;> simp [trafficSignKids, blocksN, CR.XmlW.rep, CR.XmlW.opt, Cnt.val])

theorem C03_order_trafficSignElement (n : Nat) : Ok "trafficSign/trafficSignElement" (signElementKids n) :=
  order_of (by decide) ["trafficSignID", "additionalValue"] (by decide) [.const 1, .any n] (by rfl)
    (by simp [signElementKids, blocksN, CR.XmlW.rep, Cnt.val])

/-- a traffic light needs its cycle (the schema requires `cycle`) -/
theorem C03_order_trafficLight (position direction active : Bool) :
    Ok "trafficLight" (trafficLightKids true position direction active) := by
  cases position <;> cases direction <;> cases active <;> decide

theorem C03_order_cycle (n : Nat) (offset : Bool) (h : 1 ≤ n) : Ok "trafficLightCycle" (cycleKids n offset) :=
  order_of (by decide) ["cycleElement", "timeOffset"] (by decide) [.ge 1 n h, .opt offset] (by rfl)
    (by cases offset <;> simp [cycleKids, blocksN, CR.XmlW.rep, CR.XmlW.opt, Cnt.val])

theorem C03_order_cycleElement : Ok "trafficCycleElement" cycleElementKids := by decide

theorem C03_order_incoming (nIn nRight nStraight nLeft : Nat) (leftOf : Bool) (h : 1 ≤ nIn) :
    Ok "incoming" (incomingKids nIn nRight nStraight nLeft leftOf) :=
  order_of (by decide) ["incomingLanelet", "successorsRight", "successorsStraight", "successorsLeft", "isLeftOf"] (by decide)
    [.ge 1 nIn h, .any nRight, .any nStraight, .any nLeft, .opt leftOf] (by rfl)
    (by cases leftOf <;> simp [incomingKids, blocksN, CR.XmlW.rep, CR.XmlW.opt, Cnt.val])

theorem C03_order_intersection (n : Nat) (crossing : Bool) (h : 1 ≤ n) : Ok "intersection" (intersectionKids n crossing) :=
  order_of (by decide) ["incoming", "crossing"] (by decide) [.ge 1 n h, .opt crossing] (by rfl)
    (by cases crossing <;> simp [intersectionKids, blocksN, CR.XmlW.rep, CR.XmlW.opt, Cnt.val])

theorem C03_order_crossing (n : Nat) (h : 1 ≤ n) : Ok "crossing" (crossingKids n) :=
  order_of (by decide) ["crossingLanelet"] (by decide) [.ge 1 n h] (by rfl) (by simp [crossingKids, blocksN, CR.XmlW.rep, Cnt.val])

theorem C03_order_location (geo env : Bool) : Ok "location" (locationKids geo env) := by cases geo <;> cases env <;> decide
theorem C03_order_geoTransformation : Ok "geoTransformation" geoTransformationKids := by decide
theorem C03_order_additionalTransformation : Ok "additionalTransformation" additionalTransformationKids := by decide

/-- the three guards of the environment builder are always true in the code, so all four children are emitted -/
theorem C03_order_environment : Ok "environment" (environmentKids true true true) := by decide

theorem C03_order_staticObstacle : Ok "staticObstacle" staticObstacleKids := by decide
theorem C03_order_environmentObstacle : Ok "environmentObstacle" environmentObstacleKids := by decide
theorem C03_order_occupancy : Ok "occupancy" occupancyKids := by decide

/-- a dynamic obstacle needs a prediction (the schema requires trajectory | occupancySet) -/
theorem C03_order_dynamicObstacle (signal0 series : Bool) (pred : Pred) (h : pred ≠ .none) :
    Ok "dynamicObstacle" (dynamicObstacleKids signal0 pred series) := by
  cases pred with
  | none => exact absurd rfl h
  | trajectory => cases signal0 <;> cases series <;> decide
  | occupancySet => cases signal0 <;> cases series <;> decide

theorem C03_order_phantomObstacle : Ok "phantomObstacle" (phantomObstacleKids true) := by decide

theorem C03_order_trajectory (n : Nat) (h : 1 ≤ n) : Ok "dynamicObstacle/trajectory" (trajectoryKids n) :=
  order_of (by decide) ["state"] (by decide) [.ge 1 n h] (by rfl) (by simp [trajectoryKids, blocksN, CR.XmlW.rep, Cnt.val])

theorem C03_order_occupancySet (n : Nat) (h : 1 ≤ n) :
    Ok "dynamicObstacle/occupancySet" (occupancySetKids n) ∧ Ok "phantomObstacle/occupancySet" (occupancySetKids n) :=
  ⟨order_of (by decide) ["occupancy"] (by decide) [.ge 1 n h] (by rfl) (by simp [occupancySetKids, blocksN, CR.XmlW.rep, Cnt.val]),
   order_of (by decide) ["occupancy"] (by decide) [.ge 1 n h] (by rfl) (by simp [occupancySetKids, blocksN, CR.XmlW.rep, Cnt.val])⟩

theorem C03_order_signalSeries (n : Nat) (h : 1 ≤ n) : Ok "dynamicObstacle/signalSeries" (signalSeriesKids n) :=
  order_of (by decide) ["signalState"] (by decide) [.ge 1 n h] (by rfl) (by simp [signalSeriesKids, blocksN, CR.XmlW.rep, Cnt.val])

theorem C03_order_planningProblem (n : Nat) (h : 1 ≤ n) : Ok "planningProblem" (planningProblemKids n) :=
  order_of (by decide) ["initialState", "goalState"] (by decide) [.const 1, .ge 1 n h] (by rfl)
    (by simp [planningProblemKids, blocksN, CR.XmlW.rep, Cnt.val])

/-- the root: location, tags, then the object families in the schema's order; ≥ 1 lanelet and ≥ 1 planning problem -/
theorem C03_order_root (p : RootP) (hl : 1 ≤ p.nLanelets) (hp : 1 ≤ p.nProblems) : Ok "/commonRoad" (rootKids p) :=
  order_of (by decide)
    ["location", "scenarioTags", "lanelet", "trafficSign", "trafficLight", "intersection", "staticObstacle", "dynamicObstacle",
     "phantomObstacle", "environmentObstacle", "planningProblem"] (by decide)
    [.const 1, .const 1, .ge 1 p.nLanelets hl, .any p.nSigns, .any p.nLights, .any p.nIntersections, .any p.nStatic,
     .any p.nDynamic, .any p.nPhantom, .any p.nEnvironment, .ge 1 p.nProblems hp] (by rfl)
    (by simp [rootKids, blocksN, CR.XmlW.rep, Cnt.val])

/-- exact values and intervals against every value type the schema uses -/
theorem C03_order_value (interval : Bool) :
    Ok "decimalExactOrInterval" (valueKids interval) ∧ Ok "integerExactOrIntervalGreaterZero" (valueKids interval) ∧
    Ok "decimalInterval" (valueKids true) ∧ Ok "integerIntervalGreaterZero" (valueKids true) ∧
    Ok "decimalExact" (valueKids false) ∧ Ok "integerExactZero" (valueKids false) := by
  cases interval <;> decide

/-- shapes: any non-empty list of rectangles / circles / polygons (a ShapeGroup is written member by member) -/
theorem C03_shape_order (ks : List ShapeK) (h : ks ≠ []) : Ok "shape" (shapeKids ks) := by
  have hc : schema.content "shape" = .choice ((elemsOf (schema.content "shape")).map Item.elem) 1 none := by decide
  unfold Ok; rw [hc]
  refine unit_choice_ok (by decide) 1 _ ?_ ?_
  · intro n hn
    simp only [shapeKids, List.mem_map] at hn
    obtain ⟨k, _, rfl⟩ := hn
    cases k <;> decide
  · cases ks with
    | nil => exact absurd rfl h
    | cons _ _ => simp [shapeKids]

/-- positions: one point, or a run of shapes of ONE kind, or a run of lanelet references -/
theorem C03_position_order (n : Nat) :
    Ok "position" ["point"] ∧ Ok "position" (List.replicate (n + 1) "rectangle") ∧
    Ok "position" (List.replicate (n + 1) "circle") ∧ Ok "position" (List.replicate (n + 1) "polygon") ∧
    Ok "position" (List.replicate (n + 1) "lanelet") ∧
    Ok "positionInterval" (List.replicate (n + 1) "rectangle") ∧ Ok "positionInterval" (List.replicate (n + 1) "circle") ∧
    Ok "positionInterval" (List.replicate (n + 1) "polygon") ∧ Ok "positionInterval" (List.replicate (n + 1) "lanelet") ∧
    Ok "positionExact" ["point"] := by
  have run : ∀ (t : String) (e : ElemP), e ∈ elemsOf (schema.content t) → e.max = none → e.min ≤ 1 →
      schema.content t = .choice ((elemsOf (schema.content t)).map Item.elem) 1 (some 1) →
      (elemsOf (schema.content t)).all (fun e => decide (1 ≤ e.min)) = true →
      ((elemsOf (schema.content t)).map (·.name)).Nodup → Ok t (List.replicate (n + 1) e.name) := by
    intro t e he hmax hmin hg hall hnd
    exact choice_run_ok hg hall hnd e he hmax n (by omega)
  refine ⟨by decide, ?_, ?_, ?_, ?_, ?_, ?_, ?_, ?_, by decide⟩
  · exact run "position" { name := "rectangle", type := "rectangle", min := 1, max := none } (by decide) rfl (by decide) (by decide) (by decide) (by decide)
  · exact run "position" { name := "circle", type := "circle", min := 1, max := none } (by decide) rfl (by decide) (by decide) (by decide) (by decide)
  · exact run "position" { name := "polygon", type := "polygon", min := 1, max := none } (by decide) rfl (by decide) (by decide) (by decide) (by decide)
  · exact run "position" { name := "lanelet", type := "laneletRef", min := 1, max := none } (by decide) rfl (by decide) (by decide) (by decide) (by decide)
  · exact run "positionInterval" { name := "rectangle", type := "rectangle", min := 1, max := none } (by decide) rfl (by decide) (by decide) (by decide) (by decide)
  · exact run "positionInterval" { name := "circle", type := "circle", min := 1, max := none } (by decide) rfl (by decide) (by decide) (by decide) (by decide)
  · exact run "positionInterval" { name := "polygon", type := "polygon", min := 1, max := none } (by decide) rfl (by decide) (by decide) (by decide) (by decide)
  · exact run "positionInterval" { name := "lanelet", type := "laneletRef", min := 1, max := none } (by decide) rfl (by decide) (by decide) (by decide) (by decide)


/-! ## 3. xs:all content (states, signal states, tags): any order, no duplicates, required elements present -/

/-- `state` (trajectory states): the used attributes map to pairwise different element names that the `state` type
    declares, and position, orientation and time are among them. -/
theorem C03_state_all (attrs : List String) (hnd : (stateKids attrs).Nodup)
    (hdecl : ∀ n ∈ stateKids attrs, n ∈ (elemsOf (schema.content "state")).map (·.name))
    (hreq : ∀ r ∈ ["position", "orientation", "time"], r ∈ stateKids attrs) : Ok "state" (stateKids attrs) :=
  all_group_ok (by decide) (by decide) ["position", "orientation", "time"] (by decide) hnd hdecl hreq

/-- `initialState` of obstacles has the same element set as `state` -/
theorem C03_initial_state_all (attrs : List String) (hnd : (stateKids attrs).Nodup)
    (hdecl : ∀ n ∈ stateKids attrs, n ∈ (elemsOf (schema.content "initialState")).map (·.name))
    (hreq : ∀ r ∈ ["position", "orientation", "time"], r ∈ stateKids attrs) : Ok "initialState" (stateKids attrs) :=
  all_group_ok (by decide) (by decide) ["position", "orientation", "time"] (by decide) hnd hdecl hreq

/-- `initialStateExact` of planning problems: position, velocity, orientation, yawRate, slipAngle, time (+ acceleration) -/
theorem C03_planning_initial_state_all (attrs : List String) (hnd : (stateKids attrs).Nodup)
    (hdecl : ∀ n ∈ stateKids attrs, n ∈ (elemsOf (schema.content "initialStateExact")).map (·.name))
    (hreq : ∀ r ∈ ["position", "velocity", "orientation", "yawRate", "slipAngle", "time"], r ∈ stateKids attrs) :
    Ok "initialStateExact" (stateKids attrs) :=
  all_group_ok (by decide) (by decide) ["position", "velocity", "orientation", "yawRate", "slipAngle", "time"] (by decide)
    hnd hdecl hreq

/-- `goalState`: time, and optionally position / orientation / velocity -/
theorem C03_goal_state_all (attrs : List String) (hnd : (stateKids attrs).Nodup)
    (hdecl : ∀ n ∈ stateKids attrs, n ∈ ["time", "position", "orientation", "velocity"]) (hreq : "time" ∈ stateKids attrs) :
    Ok "goalState" (stateKids attrs) :=
  all_group_ok (by decide) (by decide) ["time"] (by decide) hnd
    (by intro n hn; have := hdecl n hn; revert this; generalize n = m; intro h
        have e : (elemsOf (schema.content "goalState")).map (·.name) = ["time", "position", "orientation", "velocity"] := by decide
        rw [e]; exact h)
    (by intro r hr; simp at hr; subst hr; exact hreq)

/-- signal states: `time` first, then whichever of the six flags (horn included) are set (all 64 combinations) -/
theorem C03_signal_state_all (horn il ir bl hz fb : Bool) :
    Ok "signalState" (signalStateKids horn il ir bl hz fb) ∧ Ok "initialSignalState" (signalStateKids horn il ir bl hz fb) := by
  cases horn <;> cases il <;> cases ir <;> cases bl <;> cases hz <;> cases fb <;> decide

/-- scenario tags: a set of tags (no duplicates) whose values the `tag` type declares -/
theorem C03_tags_all (tags : List String) (hnd : tags.Nodup)
    (hdecl : ∀ t ∈ tags, t ∈ (elemsOf (schema.content "tag")).map (·.name)) : Ok "tag" (tagKids tags) :=
  all_group_ok (by decide) (by decide) [] (by decide) hnd hdecl (by intro r hr; cases hr)

/-- the element names `_map_to_xml_prop` produces for the attributes of the state classes the schema can express
    (InitialState, KSState, STState, ExtendedPMState, MBState, jerk/jounce/curvature custom attributes) are all declared -/
theorem C03_state_names_declared :
    ∀ a ∈ ["time_step", "position", "orientation", "velocity", "acceleration", "yaw_rate", "slip_angle", "steering_angle",
           "roll_angle", "roll_rate", "pitch_angle", "pitch_rate", "velocity_y", "position_z", "velocity_z",
           "roll_angle_front", "roll_rate_front", "velocity_y_front", "position_z_front", "velocity_z_front",
           "roll_angle_rear", "roll_rate_rear", "velocity_y_rear", "position_z_rear", "velocity_z_rear",
           "left_front_wheel_angular_speed", "right_front_wheel_angular_speed", "left_rear_wheel_angular_speed",
           "right_rear_wheel_angular_speed", "delta_y_f", "delta_y_r", "curvature", "curvature_rate", "jerk", "jounce"],
      xmlProp a ∈ (elemsOf (schema.content "state")).map (·.name) := by decide

/-! ## 4. Enumerations: the value the writer emits is a value the schema enumerates

`CR.Py.Gen.*` are the (member name, value) tables of the Python enums, regenerated from the working tree on every run
(harness/translate/pyenums.py).  A finite table checked by `decide` IS the statement for all members. -/

open CR.Py.Gen in
/-- enums whose every member is expressible: written `.value` (bounds: lineMarking; stop line: `.name.lower()`) -/
theorem C03_enum_total :
    (lineMarking.all fun (_, v) => acceptsV "lineMarking" v) = true ∧
    (lineMarkingLowerName.all fun v => acceptsV "lineMarking" v) = true ∧
    (laneletType.all fun (_, v) => acceptsV "laneletType" v) = true ∧
    (roadUser.all fun (_, v) => acceptsV "vehicleType" v) = true ∧
    (trafficLightState.all fun (_, v) => acceptsV "trafficLightColor" v) = true ∧
    (trafficLightDirection.all fun (_, v) => acceptsV "trafficLight/direction" v) = true ∧
    (tag.all fun (_, v) => ((elemsOf (schema.content "tag")).map (·.name)).contains v) = true ∧
    (obstacleRole.all fun (_, v) =>
      ((elemsOf (schema.content "/commonRoad")).map (·.name)).contains (v ++ "Obstacle")) = true ∧
    acceptsV "/commonRoad/@commonRoadVersion" scenarioVersion = true := by decide

open CR.Py.Gen in
/-- enums with members the schema cannot express: exactly the listed members are accepted (the same lists drive the
    generator, harness/c03_gen.py) -/
theorem C03_enum_partial :
    (timeOfDay.all fun (n, v) => acceptsV "timeOfDay" v == ["NIGHT", "UNKNOWN"].contains n) = true ∧
    (weather.all fun (n, v) => acceptsV "weather" v == ["LIGHT_RAIN", "HEAVY_RAIN", "FOG", "SNOW", "HAIL"].contains n) = true ∧
    (underground.all fun (n, v) => acceptsV "underground" v == !(["UNKNOWN"].contains n)) = true ∧
    (obstacleType.all fun (n, v) => acceptsV "obstacleTypeStatic" v ==
      ["UNKNOWN", "PARKED_VEHICLE", "CONSTRUCTION_ZONE", "ROAD_BOUNDARY"].contains n) = true ∧
    (obstacleType.all fun (n, v) => acceptsV "obstacleTypeDynamic" v ==
      ["UNKNOWN", "CAR", "TRUCK", "BUS", "MOTORCYCLE", "BICYCLE", "PEDESTRIAN", "PRIORITY_VEHICLE", "TRAIN", "TAXI"].contains n) = true ∧
    (obstacleType.all fun (n, v) => acceptsV "obstacleTypeEnvironment" v ==
      ["UNKNOWN", "BUILDING", "PILLAR", "MEDIAN_STRIP"].contains n) = true := by decide

theorem gerExcl_listed (c n : String) (hc : c = "TrafficSignIDGermany" ∨ c = "TrafficSignIDZamunda") (hn : n ∈ gerExcl) :
    (c, n) ∈ signNotExpressible := by
  simp only [gerExcl, List.mem_cons, List.not_mem_nil, or_false] at hn
  rcases hc with rfl | rfl <;> rcases hn with rfl | rfl | rfl | rfl | rfl | rfl <;> decide

theorem okNV_ger (p : String × String) (hp : p ∈ gerSigns) : okNV p = true := by
  have := List.take_append_drop 120 gerSigns
  rw [← this] at hp
  rcases List.mem_append.mp hp with h | h
  · exact List.all_eq_true.mp signs_ger_1 p h
  · have := List.take_append_drop 60 (gerSigns.drop 120)
    rw [← this] at h
    rcases List.mem_append.mp h with h | h
    · exact List.all_eq_true.mp signs_ger_2 p h
    · exact List.all_eq_true.mp signs_ger_3 p h

/-- traffic-sign ids of all 14 country enums: every member except `UNKNOWN` (value "") and the 24 members listed in
    `signNotExpressible` (CRProofs/XsdEnum.lean; the same list drives the generator) is a value the schema enumerates.
    (The finite checks are `decide`d in CRProofs/XsdEnumA1..A4, B: German table in three parts, the Zamunda table is the
    German one, the other twelve countries.) -/
theorem C03_enum_traffic_sign (x : String × String × String) (hx : x ∈ CR.Py.Gen.trafficSignId) :
    acceptsV "trafficSignID" x.2.2 = true ∨ x.2.1 = "UNKNOWN" ∨ (x.1, x.2.1) ∈ signNotExpressible := by
  have fromNV : ∀ (hc : x.1 = "TrafficSignIDGermany" ∨ x.1 = "TrafficSignIDZamunda"), okNV x.2 = true →
      acceptsV "trafficSignID" x.2.2 = true ∨ x.2.1 = "UNKNOWN" ∨ (x.1, x.2.1) ∈ signNotExpressible := by
    intro hc h
    simp only [okNV, Bool.or_eq_true, beq_iff_eq, List.contains_iff_mem] at h
    rcases h with (h | h) | h
    · exact Or.inl h
    · exact Or.inr (Or.inl h)
    · exact Or.inr (Or.inr (gerExcl_listed _ _ hc h))
  by_cases hg : x.1 = "TrafficSignIDGermany"
  · exact fromNV (Or.inl hg) (okNV_ger x.2 (List.mem_map.mpr ⟨x, List.mem_filter.mpr ⟨hx, by simp [hg]⟩, rfl⟩))
  · by_cases hz : x.1 = "TrafficSignIDZamunda"
    · have : x.2 ∈ zamSigns := List.mem_map.mpr ⟨x, List.mem_filter.mpr ⟨hx, by simp [hz]⟩, rfl⟩
      rw [signs_zam_eq_ger] at this
      exact fromNV (Or.inr hz) (okNV_ger x.2 this)
    · have h : signOk x = true :=
        List.all_eq_true.mp signs_other x (List.mem_filter.mpr ⟨hx, by simp [hg, hz]⟩)
      simp only [signOk, Bool.or_eq_true, beq_iff_eq, List.contains_iff_mem] at h
      rcases h with (h | h) | h
      · exact Or.inl h
      · exact Or.inr (Or.inl h)
      · exact Or.inr (Or.inr h)

/-- booleans are written as `str(b).lower()`, the adjacency direction as "same" / "opposite" -/
theorem C03_enum_literals :
    acceptsV "xs:boolean" "true" = true ∧ acceptsV "xs:boolean" "false" = true ∧ acceptsV "xs:boolean" "True" = false ∧
    acceptsV "drivingDir" "same" = true ∧ acceptsV "drivingDir" "opposite" = true := by decide

/-! ## 5. Complete subtrees: points, rectangles and circles the writer emits are valid, recursively, for all finite numbers -/

theorem lookup_decimal : schema.lookup "xs:decimal" =
    some (.simple { base := .decimal, enum := [], minExcl := none, minIncl := none, maxIncl := none }) := by decide
theorem lookup_positiveDecimal : schema.lookup "positiveDecimal" =
    some (.simple { base := .decimal, enum := [], minExcl := some 0, minIncl := none, maxIncl := none }) := by decide

theorem valid_decimal_leaf (n : String) (x : Str) (h : isDecimal x = true) : validNode schema "xs:decimal" (leaf n x) = true :=
  validNode_simple lookup_decimal n (decimal_accepts h)

/-- a positive decimal literal: decimal, no minus sign, some non-zero digit -/
def PosDec (s : Str) : Prop := isDecimal s = true ∧ isNeg s = false ∧ s.any nz = true

theorem valid_posdecimal_leaf (n : String) (x : Str) (h : PosDec x) : validNode schema "positiveDecimal" (leaf n x) = true :=
  validNode_simple lookup_positiveDecimal n (positiveDecimal_accepts h.1 h.2.1 h.2.2)

theorem C03_valid_point (tag : String) (x y : Str) (z : Option Str) (hx : isDecimal x = true) (hy : isDecimal y = true)
    (hz : ∀ z', z = some z' → isDecimal z' = true) : validNode schema "point" (pointNode tag x y z) = true := by
  have hl : schema.lookup "point" = some (.complex [] false (schema.content "point")) := by decide
  cases z with
  | none =>
    have hm : matchGroup (schema.content "point") ["x", "y"] = some ["xs:decimal", "xs:decimal"] := by decide
    rw [pointNode, validNode_complex hl (ts := ["xs:decimal", "xs:decimal"]) (by rfl) (by simpa [leaf, Xml.name] using hm)]
    simp only [List.append_nil, validKids, valid_decimal_leaf _ _ hx, valid_decimal_leaf _ _ hy, Bool.and_self]
  | some z' =>
    have hm : matchGroup (schema.content "point") ["x", "y", "z"] = some ["xs:decimal", "xs:decimal", "xs:decimal"] := by decide
    rw [pointNode, validNode_complex hl (ts := ["xs:decimal", "xs:decimal", "xs:decimal"]) (by rfl)
      (by simpa [leaf, Xml.name] using hm)]
    simp only [List.cons_append, List.nil_append, validKids, valid_decimal_leaf _ _ hx, valid_decimal_leaf _ _ hy,
      valid_decimal_leaf _ _ (hz z' rfl), Bool.and_self]

/-- rectangles with any combination of orientation / center present (static shapes: both; shapes of dynamic obstacles:
    each only when it is not the default) -/
theorem C03_valid_rectangle (l w : Str) (o : Option Str) (c : Option (Str × Str)) (hl : PosDec l) (hw : PosDec w)
    (ho : ∀ o', o = some o' → isDecimal o' = true)
    (hc : ∀ cx cy, c = some (cx, cy) → isDecimal cx = true ∧ isDecimal cy = true) :
    validNode schema "rectangle" (rectangleNode l w o c) = true := by
  have hlk : schema.lookup "rectangle" = some (.complex [] false (schema.content "rectangle")) := by decide
  cases o with
  | none =>
    cases c with
    | none =>
      have hm : matchGroup (schema.content "rectangle") ["length", "width"] = some ["positiveDecimal", "positiveDecimal"] := by decide
      rw [rectangleNode, validNode_complex hlk (ts := ["positiveDecimal", "positiveDecimal"]) (by rfl)
        (by simpa [leaf, Xml.name] using hm)]
      simp only [List.append_nil, validKids, valid_posdecimal_leaf _ _ hl, valid_posdecimal_leaf _ _ hw, Bool.and_self]
    | some t =>
      obtain ⟨cx, cy⟩ := t
      obtain ⟨hcx, hcy⟩ := hc cx cy rfl
      have hm : matchGroup (schema.content "rectangle") ["length", "width", "center"] =
          some ["positiveDecimal", "positiveDecimal", "point"] := by decide
      rw [rectangleNode, validNode_complex hlk (ts := ["positiveDecimal", "positiveDecimal", "point"]) (by rfl)
        (by simpa [leaf, pointNode, Xml.name] using hm)]
      simp only [List.append_nil, List.cons_append, List.nil_append, validKids, valid_posdecimal_leaf _ _ hl,
        valid_posdecimal_leaf _ _ hw, C03_valid_point "center" cx cy none hcx hcy (by intro _ h; cases h), Bool.and_self]
  | some o' =>
    have ho' := ho o' rfl
    cases c with
    | none =>
      have hm : matchGroup (schema.content "rectangle") ["length", "width", "orientation"] =
          some ["positiveDecimal", "positiveDecimal", "xs:decimal"] := by decide
      rw [rectangleNode, validNode_complex hlk (ts := ["positiveDecimal", "positiveDecimal", "xs:decimal"]) (by rfl)
        (by simpa [leaf, Xml.name] using hm)]
      simp only [List.append_nil, List.cons_append, List.nil_append, validKids, valid_posdecimal_leaf _ _ hl,
        valid_posdecimal_leaf _ _ hw, valid_decimal_leaf _ _ ho', Bool.and_self]
    | some t =>
      obtain ⟨cx, cy⟩ := t
      obtain ⟨hcx, hcy⟩ := hc cx cy rfl
      have hm : matchGroup (schema.content "rectangle") ["length", "width", "orientation", "center"] =
          some ["positiveDecimal", "positiveDecimal", "xs:decimal", "point"] := by decide
      rw [rectangleNode, validNode_complex hlk (ts := ["positiveDecimal", "positiveDecimal", "xs:decimal", "point"]) (by rfl)
        (by simpa [leaf, pointNode, Xml.name] using hm)]
      simp only [List.cons_append, List.nil_append, validKids, valid_posdecimal_leaf _ _ hl,
        valid_posdecimal_leaf _ _ hw, valid_decimal_leaf _ _ ho', C03_valid_point "center" cx cy none hcx hcy (by intro _ h; cases h),
        Bool.and_self]

theorem C03_valid_circle (r : Str) (c : Option (Str × Str)) (hr : PosDec r)
    (hc : ∀ cx cy, c = some (cx, cy) → isDecimal cx = true ∧ isDecimal cy = true) :
    validNode schema "circle" (circleNode r c) = true := by
  have hlk : schema.lookup "circle" = some (.complex [] false (schema.content "circle")) := by decide
  cases c with
  | none =>
    have hm : matchGroup (schema.content "circle") ["radius"] = some ["positiveDecimal"] := by decide
    rw [circleNode, validNode_complex hlk (ts := ["positiveDecimal"]) (by rfl) (by simpa [leaf, Xml.name] using hm)]
    simp only [List.append_nil, validKids, valid_posdecimal_leaf _ _ hr, Bool.and_self]
  | some t =>
    obtain ⟨cx, cy⟩ := t
    obtain ⟨hcx, hcy⟩ := hc cx cy rfl
    have hm : matchGroup (schema.content "circle") ["radius", "center"] = some ["positiveDecimal", "point"] := by decide
    rw [circleNode, validNode_complex hlk (ts := ["positiveDecimal", "point"]) (by rfl)
      (by simpa [leaf, pointNode, Xml.name] using hm)]
    simp only [List.cons_append, List.nil_append, validKids, valid_posdecimal_leaf _ _ hr,
      C03_valid_point "center" cx cy none hcx hcy (by intro _ h; cases h), Bool.and_self]

/-- a finite float as the harness describes it: its repr and its exact value -/
structure FloatRepr where
  repr : Str
  neg : Bool
  num : Nat
  den : Nat

def FloatRepr.Finite (f : FloatRepr) : Prop := isPlainRepr f.repr = true ∨ isSciRepr f.repr = true
def FloatRepr.Positive (f : FloatRepr) : Prop := isNeg f.repr = false ∧ (mantissa f.repr).any nz = true

theorem sci_contains_e {s : Str} (h : isSciRepr s = true) (hlower : s.any (· == 'E') = false) : s.contains 'e' = true := by
  have hd := decimalToStr_isDecimal (s := s) (Or.inr h)
  by_cases he : s.any isE = true
  · obtain ⟨c, hc, hce⟩ := List.any_eq_true.mp he
    have : c = 'e' := by
      simp only [isE, Bool.or_eq_true, beq_iff_eq] at hce
      rcases hce with h1 | h1
      · exact h1
      · exfalso
        have := List.any_eq_false.mp hlower c hc
        simp [h1] at this
    subst this
    simpa using hc
  · exfalso
    -- a scientific repr does contain an exponent marker (shown inside decimalToStr_isDecimal's proof); re-derive
    unfold isSciRepr at h
    simp only [Bool.and_eq_true] at h
    have h2 := h.1.2
    split at h2
    · rename_i c ex heq
      have hmem : c ∈ (dropSign s).dropWhile (fun c => !isE c) := by rw [heq]; exact List.mem_cons_self
      have hc : isE c = true := by
        have := List.head?_dropWhile_not (fun c => !isE c) (dropSign s)
        rw [heq] at this; simpa using this
      have hin : c ∈ dropSign s := (List.dropWhile_sublist _).subset hmem
      have hins : c ∈ s := by
        rcases dropSign_cases s with h0 | ⟨r, hs, hr⟩ | ⟨r, hs, hr⟩
        · rwa [h0] at hin
        · rw [hr] at hin; rw [hs]; exact List.mem_cons_of_mem _ hin
        · rw [hr] at hin; rw [hs]; exact List.mem_cons_of_mem _ hin
      exact he (List.any_eq_true.mpr ⟨c, hins, hc⟩)
    · exact absurd h2 (by decide)

/-- **end to end for a rectangle**: whatever finite positive length and width, finite orientation and centre, and
    precision `p` — the `<rectangle>` subtree the writer emits (lengths and orientation through `decimal_to_str`, centre
    through `float_to_str`) is valid against the schema's `rectangle` type, down to every leaf; `withOri` / `withCtr` say
    whether orientation / center are written (both outside dynamic-obstacle shapes, each iff non-default inside them). -/
theorem C03_written_rectangle_valid (l w o cx cy : FloatRepr) (p : Nat) (withOri withCtr : Bool)
    (hl : l.Finite ∧ l.Positive) (hw : w.Finite ∧ w.Positive) (ho : o.Finite)
    (hcx : isPlainRepr cx.repr = true ∨ cx.repr.contains 'e' = true)
    (hcy : isPlainRepr cy.repr = true ∨ cy.repr.contains 'e' = true) :
    validNode schema "rectangle"
      (rectangleNode (decimalToStr l.repr) (decimalToStr w.repr)
        (if withOri then some (decimalToStr o.repr) else none)
        (if withCtr then some (floatToStr cx.repr cx.neg cx.num cx.den p, floatToStr cy.repr cy.neg cy.num cy.den p) else none)) = true := by
  have pl := decimalToStr_positive hl.1 hl.2.1 hl.2.2
  have pw := decimalToStr_positive hw.1 hw.2.1 hw.2.2
  refine C03_valid_rectangle _ _ _ _ ⟨decimalToStr_isDecimal hl.1, pl.1, pl.2⟩ ⟨decimalToStr_isDecimal hw.1, pw.1, pw.2⟩ ?_ ?_
  · intro o' h
    cases withOri
    · cases h
    · cases h; exact decimalToStr_isDecimal ho
  · intro cx' cy' h
    cases withCtr
    · cases h
    · cases h
      exact ⟨floatToStr_isDecimal _ _ _ _ _ hcx, floatToStr_isDecimal _ _ _ _ _ hcy⟩

/-- … and for a circle. -/
theorem C03_written_circle_valid (r cx cy : FloatRepr) (p : Nat) (withCtr : Bool) (hr : r.Finite ∧ r.Positive)
    (hcx : isPlainRepr cx.repr = true ∨ cx.repr.contains 'e' = true)
    (hcy : isPlainRepr cy.repr = true ∨ cy.repr.contains 'e' = true) :
    validNode schema "circle"
      (circleNode (decimalToStr r.repr)
        (if withCtr then some (floatToStr cx.repr cx.neg cx.num cx.den p, floatToStr cy.repr cy.neg cy.num cy.den p) else none)) = true := by
  have pr := decimalToStr_positive hr.1 hr.2.1 hr.2.2
  refine C03_valid_circle _ _ ⟨decimalToStr_isDecimal hr.1, pr.1, pr.2⟩ ?_
  intro cx' cy' h
  cases withCtr
  · cases h
  · cases h
    exact ⟨floatToStr_isDecimal _ _ _ _ _ hcx, floatToStr_isDecimal _ _ _ _ _ hcy⟩

-- non-vacuity: a length of 1e-05 m, an orientation of 1e-06 rad and a centre at 1e5 m / 1e-6 m at precision 4
example : validNode schema "rectangle"
    (rectangleNode (decimalToStr "1e-05".toList) (decimalToStr "2.0".toList)
      (some (decimalToStr "1e-06".toList)) (some (floatToStr "100000.0".toList false 100000 1 4, floatToStr "1e-06".toList false 1 1000000 4)))
    = true := by decide
-- the shape of a dynamic obstacle that is rotated but centred: orientation without center
example : validNode schema "rectangle"
    (rectangleNode (decimalToStr "4.5".toList) (decimalToStr "1.8".toList) (some (decimalToStr "1e-06".toList)) none) = true := by decide
-- … while the strings the unrepaired writer produced are rejected by the same validator
example : validNode schema "rectangle"
    (rectangleNode "1e-05".toList "2.0".toList (some "1e-06".toList) (some ("100000.0".toList, "0.0000".toList))) = false := by decide
-- and a length cut to precision 4 would not be a positiveDecimal
example : validNode schema "rectangle" (rectangleNode "0.0000".toList "2.0".toList none none) = false := by decide


/-! ## 6. The whole document

`seq_assembly` (CRProofs/Xsd.lean) is the general composition rule: an element whose type is a sequence of distinctly named
element particles is valid if its attributes are, and its children are families of valid elements in particle order.
Instantiated at the root it gives `C03_valid_doc_partial`. -/

/-- the parts of a written document: header attributes and the object families in the order the writer appends them
    (XMLFileWriter._add_all_objects_from_scenario / _add_all_planning_problems_from_planning_problem_set) -/
structure Parts where
  attrs : List (String × String)
  location : Xml
  tags : Xml
  lanelets : List Xml
  signs : List Xml
  lights : List Xml
  intersections : List Xml
  statics : List Xml
  dynamics : List Xml
  phantoms : List Xml
  environments : List Xml
  problems : List Xml

def Parts.families (p : Parts) : List (List Xml) :=
  [[p.location], [p.tags], p.lanelets, p.signs, p.lights, p.intersections, p.statics, p.dynamics, p.phantoms,
   p.environments, p.problems]

def rootNode (p : Parts) : Xml := .node "commonRoad" p.attrs [] p.families.flatten

/-- every member of the family is an element `name` that is valid against `type` -/
def Fam (name type : String) (f : List Xml) : Prop := ∀ x ∈ f, x.name = name ∧ validNode schema type x = true


/-- **valid_doc (partial).** If the header attributes are valid, every object subtree is valid against the type of its
    family, there is at least one lanelet and one planning problem, and the identity constraints hold, then the document
    the writer assembles is valid against the schema: the families are appended in exactly the order of the root sequence. -/
theorem C03_valid_doc_partial (p : Parts) (ha : attrsOk schema rootDecl p.attrs = true)
    (hloc : Fam "location" "location" [p.location]) (htag : Fam "scenarioTags" "tag" [p.tags])
    (hlan : Fam "lanelet" "lanelet" p.lanelets) (hsig : Fam "trafficSign" "trafficSign" p.signs)
    (hlig : Fam "trafficLight" "trafficLight" p.lights) (hint : Fam "intersection" "intersection" p.intersections)
    (hsta : Fam "staticObstacle" "staticObstacle" p.statics) (hdyn : Fam "dynamicObstacle" "dynamicObstacle" p.dynamics)
    (hpha : Fam "phantomObstacle" "phantomObstacle" p.phantoms)
    (henv : Fam "environmentObstacle" "environmentObstacle" p.environments)
    (hpro : Fam "planningProblem" "planningProblem" p.problems)
    (h1 : 1 ≤ p.lanelets.length) (h2 : 1 ≤ p.problems.length)
    (hkeys : keysOk schema (rootNode p) = true) (hrefs : refsOk schema (rootNode p) = true) :
    validDoc schema (rootNode p) = true := by
  have hl : schema.lookup "/commonRoad" = some (.complex rootDecl false (schema.content "/commonRoad")) := by decide
  have he : elemsOf (schema.content "/commonRoad") =
      [{ name := "location", type := "location", min := 1, max := some 1 },
       { name := "scenarioTags", type := "tag", min := 1, max := some 1 },
       { name := "lanelet", type := "lanelet", min := 1, max := none },
       { name := "trafficSign", type := "trafficSign", min := 0, max := none },
       { name := "trafficLight", type := "trafficLight", min := 0, max := none },
       { name := "intersection", type := "intersection", min := 0, max := none },
       { name := "staticObstacle", type := "staticObstacle", min := 0, max := none },
       { name := "dynamicObstacle", type := "dynamicObstacle", min := 0, max := none },
       { name := "phantomObstacle", type := "phantomObstacle", min := 0, max := none },
       { name := "environmentObstacle", type := "environmentObstacle", min := 0, max := none },
       { name := "planningProblem", type := "planningProblem", min := 1, max := none }] := by decide
  have any0 : ∀ (nm ty : String) (k : Nat), inRange { name := nm, type := ty, min := 0, max := none } k :=
    fun _ _ _ => ⟨Nat.zero_le _, fun m hm => by cases hm⟩
  have hf : FamsOk schema (elemsOf (schema.content "/commonRoad")) p.families := by
    rw [he]
    exact ⟨hloc, ⟨by simp, fun m hm => by cases hm; simp⟩, htag, ⟨by simp, fun m hm => by cases hm; simp⟩,
           hlan, ⟨h1, fun m hm => by cases hm⟩, hsig, any0 _ _ _, hlig, any0 _ _ _, hint, any0 _ _ _, hsta, any0 _ _ _,
           hdyn, any0 _ _ _, hpha, any0 _ _ _, henv, any0 _ _ _, hpro, ⟨h2, fun m hm => by cases hm⟩, trivial⟩
  have hv : validNode schema "/commonRoad" (rootNode p) = true :=
    seq_assembly hl (by decide) "commonRoad" p.attrs ha p.families hf (by simp [Parts.families])
  have hn : schema.rootName = "commonRoad" := by decide
  have hrt : schema.rootType = "/commonRoad" := by decide
  unfold validDoc
  rw [hrt, hv, hkeys, hrefs, hn]
  simp [rootNode, Xml.name]

/-- the header the writer sets (`_write_header`): time step size through `decimal_to_str`, the fixed version string,
    free-text author / affiliation / source / benchmark id, today's date — valid for every finite time step size -/
theorem C03_root_attrs_ok (dt : FloatRepr) (hdt : dt.Finite) (author affiliation source benchmark date : String)
    (hdate : isDate date.toList = true) :
    attrsOk schema rootDecl
      [("timeStepSize", String.ofList (decimalToStr dt.repr)), ("commonRoadVersion", CR.Py.Gen.scenarioVersion),
       ("author", author), ("affiliation", affiliation), ("source", source), ("benchmarkID", benchmark), ("date", date)] = true := by
  have hd : rootDecl =
      [{ name := "commonRoadVersion", type := "/commonRoad/@commonRoadVersion", required := true },
       { name := "benchmarkID", type := "xs:string", required := true },
       { name := "date", type := "xs:date", required := true },
       { name := "author", type := "xs:string", required := true },
       { name := "affiliation", type := "xs:string", required := true },
       { name := "source", type := "xs:string", required := true },
       { name := "timeStepSize", type := "xs:decimal", required := true }] := by decide
  have s1 : simpleOf schema "xs:string" = some { base := .string } := by decide
  have s2 : simpleOf schema "xs:date" = some { base := .date } := by decide
  have s3 : simpleOf schema "xs:decimal" = some { base := .decimal } := by decide
  have s4 : (simpleOf schema "/commonRoad/@commonRoadVersion").map (·.accepts CR.Py.Gen.scenarioVersion.toList) = some true := by decide
  have hdec := decimal_accepts (decimalToStr_isDecimal hdt)
  have hstr : ∀ v : String, ({ base := .string } : Simple).accepts v.toList = true := by intro v; simp [Simple.accepts]
  have hdt' : ({ base := .date } : Simple).accepts date.toList = true := by simp [Simple.accepts, hdate]
  rw [hd]
  cases h4 : simpleOf schema "/commonRoad/@commonRoadVersion" with
  | none => rw [h4] at s4; simp at s4
  | some st =>
    rw [h4] at s4
    simp only [Option.map_some, Option.some.injEq] at s4
    simp [attrsOk, s1, s2, s3, h4, s4, hstr, hdt', hdec]

/-- what a complete model of the writer has to provide for the full statement -/
structure WriterModel where
  Input : Type
  Expressible : Input → Prop
  encode : Input → Xml

/-- **valid_doc (full statement).** Every expressible input is encoded as a document that is valid against the schema,
    including the identity constraints. -/
def C03_valid_doc_full (W : WriterModel) : Prop := ∀ i, W.Expressible i → validDoc schema (W.encode i) = true

/-- The instance that IS proved: inputs are the `Parts` whose object subtrees are valid against their family types.
    Missing for the instance "Python scenario objects ↦ the real writer's tree": complete tree encoders (and their recursive
    validity proofs) for lanelet, trafficSign, trafficLight, intersection, static/dynamic/phantom/environment obstacle
    and planningProblem subtrees — for those, child order (C03_order_*), xs:all content (C03_*_all), enumerations (C03_enum_*)
    and leaf grammar (section 1) are proved per node, and points / rectangles / circles completely (section 5); they would
    be composed with `seq_assembly` / `validNode_complex` exactly as the root is composed here — and the key / keyref
    clause, which rests on the uniqueness of ids in a Scenario (C09's invariant) and on references being resolvable
    (part of "schema-expressible"). -/
def partsWriter : WriterModel where
  Input := Parts
  Expressible p :=
    attrsOk schema rootDecl p.attrs = true ∧ Fam "location" "location" [p.location] ∧ Fam "scenarioTags" "tag" [p.tags] ∧
    Fam "lanelet" "lanelet" p.lanelets ∧ Fam "trafficSign" "trafficSign" p.signs ∧ Fam "trafficLight" "trafficLight" p.lights ∧
    Fam "intersection" "intersection" p.intersections ∧ Fam "staticObstacle" "staticObstacle" p.statics ∧
    Fam "dynamicObstacle" "dynamicObstacle" p.dynamics ∧ Fam "phantomObstacle" "phantomObstacle" p.phantoms ∧
    Fam "environmentObstacle" "environmentObstacle" p.environments ∧ Fam "planningProblem" "planningProblem" p.problems ∧
    1 ≤ p.lanelets.length ∧ 1 ≤ p.problems.length ∧ keysOk schema (rootNode p) = true ∧ refsOk schema (rootNode p) = true
  encode := rootNode

theorem C03_valid_doc_parts : C03_valid_doc_full partsWriter := by
  intro p h
  obtain ⟨a, b, c, d, e, f, g, h1, i, j, k, l, m, n, o, q⟩ := h
  exact C03_valid_doc_partial p a b c d e f g h1 i j k l m n o q


/-! ## 7. Every subtree, down to every leaf — and the whole document

`CR.XmlW.docNode` (CRModel/CRXmlWDoc.lean) is the complete tree the writer builds from the data it reads off the scenario
objects (`DocD`: numbers as repr + exact value, ids, enum values as written, optional parts, lists in iteration order).  The
harness compares it with the tree the real writer produced for every generated document (op `tree`).  The predicates
`…Ok` say "schema-expressible" for each kind of object; they are the `minOccurs` / facets / required elements of the XSD
itself (ids ≥ 1, lengths > 0, ≥ 2 bound points, time steps ≥ 1 / = 0, interval goals, enum values the schema lists …).
Proofs: CRProofs/XsdDoc.lean (leaf lemmas, assembly rules), XsdDocA–E. -/

/-- states: trajectory state, obstacle initial state, planning-problem initial state, goal state; signal states -/
theorem C03_valid_state (p : Nat) (tag : String) (st : List Attr) (h : StateOk st) :
    validNode schema "state" (stateNode p tag st) = true := valid_state p tag h
theorem C03_valid_initialState (p : Nat) (tag : String) (st : List Attr) (h : InitialStateOk st) :
    validNode schema "initialState" (stateNode p tag st) = true := valid_initialState p tag h
theorem C03_valid_planningInitialState (p : Nat) (tag : String) (st : List Attr) (h : PlanningInitialStateOk st) :
    validNode schema "initialStateExact" (stateNode p tag st) = true := valid_planningInitialState p tag h
theorem C03_valid_goalState (p : Nat) (tag : String) (st : List Attr) (h : GoalStateOk st) :
    validNode schema "goalState" (stateNode p tag st) = true := valid_goalState p tag h
theorem C03_valid_signalState (tag : String) (s : Signal) (h : 1 ≤ s.t) :
    validNode schema "signalState" (signalNode tag s) = true := valid_signalState tag s h
theorem C03_valid_initialSignalState (tag : String) (s : Signal) (h : s.t = 0) :
    validNode schema "initialSignalState" (signalNode tag s) = true := valid_initialSignalState tag s h

/-- shapes (any mixture, static or in the frame of a dynamic obstacle), positions -/
theorem C03_valid_shape (p : Nat) (dyn : Bool) (s : List Shape1) (h : ShapeOk s) :
    validNode schema "shape" (el "shape" (shapeNodes p dyn s)) = true := valid_shape p dyn h
theorem C03_valid_position (p : Nat) (q : CR.XmlW.Pos) (h : PosOk q) : validNode schema "position" (posNode p q) = true :=
  valid_pos p h

/-- occupancies, set-based predictions, trajectories -/
theorem C03_valid_occupancy (p : Nat) (o : Occ) (h : OccOk o) : validNode schema "occupancy" (occNode p o) = true := valid_occ p h
theorem C03_valid_occupancySet (p : Nat) (os : List Occ) (hne : os ≠ []) (h : ∀ o ∈ os, OccOk o) :
    validNode schema "dynamicObstacle/occupancySet" (occSetNode p os) = true ∧
    validNode schema "phantomObstacle/occupancySet" (occSetNode p os) = true :=
  ⟨valid_occSet _ pt_dynOccSet (by decide) (by decide) p hne h, valid_occSet _ pt_phOccSet (by decide) (by decide) p hne h⟩
theorem C03_valid_trajectory (p : Nat) (sts : List (List Attr)) (hne : sts ≠ []) (h : ∀ st ∈ sts, StateOk st) :
    validNode schema "dynamicObstacle/trajectory" (trajNode p sts) = true := valid_traj p hne h

/-- obstacles -/
theorem C03_valid_staticObstacle (p : Nat) (o : StaticObs) (h : StaticOk o) :
    validNode schema "staticObstacle" (staticNode p o) = true := valid_static p h
theorem C03_valid_dynamicObstacle (p : Nat) (o : DynObs) (h : DynOk o) :
    validNode schema "dynamicObstacle" (dynNode p o) = true := valid_dynamic p h
theorem C03_valid_environmentObstacle (p : Nat) (o : EnvObs) (h : EnvObsOk o) :
    validNode schema "environmentObstacle" (envObsNode p o) = true := valid_envObs p h
theorem C03_valid_phantomObstacle (p : Nat) (o : PhantomObs) (h : PhantomOk o) :
    validNode schema "phantomObstacle" (phantomNode p o) = true := valid_phantom p h

/-- lanelets (bounds, line markings, predecessor / successor / adjacency references, stop line, types / users, sign and
    light references), traffic signs, traffic lights, intersections -/
theorem C03_valid_lanelet (p : Nat) (l : LaneletD) (h : LaneletOk l) : validNode schema "lanelet" (laneletNode p l) = true :=
  valid_lanelet p h
theorem C03_valid_stopLine (p : Nat) (s : StopLineD) (h : StopOk s) : validNode schema "stopLine" (stopLineNode p s) = true :=
  valid_stopLine p h
theorem C03_valid_trafficSign (p : Nat) (s : SignD) (h : SignOk s) : validNode schema "trafficSign" (signNode p s) = true :=
  valid_sign p h
theorem C03_valid_trafficLight (p : Nat) (l : LightD) (h : LightOk l) : validNode schema "trafficLight" (lightNode p l) = true :=
  valid_light p h
theorem C03_valid_intersection (x : IntersectionD) (h : IntersectionOk x) :
    validNode schema "intersection" (intersectionNode x) = true := valid_intersection h

/-- planning problems (initial state, goal states incl. lanelet positions), location / environment / tags -/
theorem C03_valid_planningProblem (p : Nat) (q : ProblemD) (h : ProblemOk q) :
    validNode schema "planningProblem" (problemNode p q) = true := valid_problem p h
theorem C03_valid_location (l : LocationD) (h : LocationOk l) : validNode schema "location" (locationNode l) = true :=
  valid_location h
theorem C03_valid_tags (tags : List String) (h : TagsOk tags) : validNode schema "tag" (tagsNode tags) = true := valid_tags h

/-- the whole element tree against the root type: every element, attribute and leaf -/
theorem C03_valid_tree (d : DocD) (h : DocOk d) : validNode schema "/commonRoad" (docNode d) = true := valid_docNode h

/-- **keys_ok.** Over any element tree: if the elements selected by the schema's key selector carry exactly the ids `ids`,
    these are pairwise different, and every `@ref` below the root has the value of one of them, then xs:key and xs:keyref hold. -/
theorem C03_keys_ok (root : Xml) (ids : List Int)
    (hk : keyValues { schema with keyPaths := schema.keyPaths.eraseDups } root = ids.map some) (hunique : ids.Nodup)
    (hresolve : ∀ v ∈ refsOfList schema.refField root.kids, ∃ i ∈ ids, intValue v.toList = some i) :
    keysOk schema root = true ∧ refsOk schema root = true := keys_refs_ok schema root ids hk hunique hresolve

/-- … and for the document tree the key selector selects exactly `docIds d`: the ids of the lanelets, signs, lights,
    intersections, obstacles, planning problems and incomings. -/
theorem C03_doc_key_values (d : DocD) :
    keyValues { schema with keyPaths := schema.keyPaths.eraseDups } (docNode d) = (docIds d).map some := doc_keyValues d

/-- the `@ref` values below the root are the written forms of `docRefs d`: predecessor / successor / adjacency / stop-line /
    sign / light references of the lanelets, the lanelet references of the intersections, and the lanelet positions of goal
    states -/
theorem C03_doc_refs (d : DocD) : refsOfList "ref" (docNode d).kids = (docRefs d).map istr := doc_refs d

/-- the writer model: inputs are the data of a scenario + planning-problem set; expressible means schema-expressible
    (`DocOk`), pairwise different ids, and every reference points at one of the ids -/
def writerModel : WriterModel where
  Input := DocD
  Expressible := CR.C03.Expressible   -- DocOk d ∧ (docIds d).Nodup ∧ ∀ r ∈ docRefs d, r ∈ docIds d  (decidable)
  encode := docNode

/-- **valid_doc.** `C03_valid_doc_full` for the complete writer model: every schema-expressible scenario with unique ids and
    resolvable references is written as a document that is valid against the shipped 2020a XSD — element order, plain
    decimal numbers, enumeration values, required elements, attributes, xs:key and xs:keyref. -/
theorem C03_valid_doc : C03_valid_doc_full writerModel := by
  intro d h
  exact valid_doc_data d h.1 h.2.1 h.2.2

-- non-vacuity: a concrete schema-expressible scenario with the magnitudes the property names, and its document
private def n (s : String) (neg : Bool) (a b : Nat) : Num := { repr := s.toList, neg := neg, num := a, den := b }
private def pt2 (x y : Num) : Pt := { x := x, y := y }

/-- one lanelet of 1e5 m, a static obstacle of length 1e-05 m rotated by 1e-06 rad, one planning problem -/
def exampleDoc : DocD :=
  { precision := 4, dt := n "1e-05" false 1 100000, version := "2020a", author := "A", affiliation := "TUM", source := "",
    benchmark := "ZAM_Test-1_1_T-1", date := "2026-09-29",
    location := { geoNameId := -999, lat := n "999" false 999 1, lon := n "999" false 999 1, geo := none, env := none },
    tags := ["urban"],
    lanelets := [{ id := 1, left := [pt2 (n "0.0" false 0 1) (n "1.0" false 1 1), pt2 (n "100000.0" false 100000 1) (n "1.0" false 1 1)],
                   right := [pt2 (n "0.0" false 0 1) (n "-1.0" true 1 1), pt2 (n "100000.0" false 100000 1) (n "-1.0" true 1 1)],
                   lmLeft := some "solid", lmRight := none, pred := [], succ := [1], adjL := none, adjR := none, stop := none,
                   types := [], oneWay := ["car"], bidir := [], signs := [], lights := [] }],
    signs := [], lights := [], intersections := [],
    statics := [{ id := 2, type := "parkedVehicle",
                  shape := [.rect (n "1e-05" false 1 100000) (n "2.0" false 2 1) (n "1e-06" false 1 1000000) (n "5.0" false 5 1) (n "0.0" false 0 1)],
                  init := [.time (.exact 0), .position (.point (pt2 (n "5.0" false 5 1) (n "0.0" false 0 1))),
                           .value "orientation" (.exact (n "1e-06" false 1 1000000))] }],
    dynamics := [], phantoms := [], envs := [],
    problems := [{ id := 3,
                   init := [.time (.exact 0), .position (.point (pt2 (n "0.0" false 0 1) (n "0.0" false 0 1))),
                            .value "orientation" (.exact (n "0.0" false 0 1)), .value "velocity" (.exact (n "10.0" false 10 1)),
                            .value "yaw_rate" (.exact (n "0.0" false 0 1)), .value "slip_angle" (.exact (n "0.0" false 0 1))],
                   goals := [[.time (.interval 1 50), .position (.lanelets [1])]] }] }

set_option maxRecDepth 100000 in
example : writerModel.Expressible exampleDoc := by show CR.C03.Expressible exampleDoc; decide
set_option maxRecDepth 100000 in
example : validDoc schema (docNode exampleDoc) = true := by decide

example : (docNode exampleDoc).attrs.lookup "timeStepSize" = some "0.00001" := by decide

end CR.C03
