/-
  C03 — every written XML scenario file is valid against the shipped CommonRoad 2020a XSD.

  The schema term `CR.Xsd.Gen.schema` is regenerated from the XSD of the working tree on every run
  (harness/translate/xsd.py -> lean/Gen/XsdScenario.lean) and imported here directly: every theorem below that mentions
  it is re-checked against what the XSD says *now*.

  Clauses of the property                       theorems
  ───────────────────────────────────────────  ──────────────────────────────────────────────────────────────────
  plain decimal numbers (no exponent,          C03_decimal_lexical (float_to_str), C03_fixed_format_decimal,
   no nan/inf, at most one dot), all            C03_decimal_to_str_lexical, C03_decimal_no_exponent_nan_inf,
   finite floats, all precisions                C03_decimal_one_dot, C03_positive_decimal (positiveDecimal facet),
                                                C03_decimal_accepted, C03_positive_decimal_accepted
  element order per node builder               C03_order_* / C03_shape_order / C03_position_order on the name-list models
                                                `XmlW.*Kids`, which ARE the children of the tree encoders: C03_kids_*
                                                (all subsumed by the C03_valid_* theorems of section 7)
  xs:all content of states                     derived from the attribute set: C03_shape_of_attrs, C03_*_shape,
                                                C03_state_attrs_declared; C03_signal_state_all (all 64 flag subsets)
  enumerations use schema values               C03_enum_total / C03_enum_partial (== : exactly the listed members) /
                                                C03_enum_traffic_sign (<-> : exactly the listed members are rejected) on the
                                                regenerated tables; C03_enum_written: what the writer model emits for a MEMBER
                                                is accepted — the enum clause of C03_valid_doc is proved, not assumed
  complete subtrees                            C03_valid_point, C03_valid_rectangle, C03_valid_circle, C03_written_*_valid
  every subtree down to the leaves             C03_valid_* (section 7: states, shapes, predictions, obstacles, lanelets, signs,
                                                lights, intersections, planning problems, location, tags), C03_valid_tree
  id / ref key constraints                     C03_keys_ok, C03_doc_key_values, C03_doc_refs
  whole document                               C03_valid_doc : C03_valid_doc_full writerModel  (complete writer model)

  NOT in these theorems: "the file is also accepted by the library's own reader" — that clause is C01's
  (`C01_xml_roundtrip_whole_file`: decoding the written tree yields `some (normFile f)`, for C01's own model of writer and
  reader) and is evaluated on every generated file by the oracle of this check (CommonRoadFileReader on the written bytes);
  the byte level (XML escaping / serialisation of the element tree) is outside the model (trusted: lxml).
-/
import CRProofs.Xsd
import CRProofs.XsdEnum
import CRProofs.XsdEnumT
import CRProofs.XsdEnumS
import CRProofs.XsdDocF
import CRProofs.XsdDocK
import CRProofs.XsdOrd1
import CRProofs.XsdOrd2
import CRProofs.XsdOrd3
import Gen.XsdScenario
import Gen.PyEnums

namespace CR.C03
open CR.Xsd CR.XmlNum CR.XmlW

/-! ## 1. Numbers -/

/-- **decimal_lexical.** For every finite float (whatever its repr: plain or exponent form, whatever its exact value
    `(-1)^neg · num/den`) and every precision `p`, `float_to_str` writes a string in the lexical space of xs:decimal. -/
theorem C03_decimal_lexical (repr : Str) (neg : Bool) (num den p : Nat)
    (hfinite : isPlainRepr repr = true ∨ repr.contains 'e' = true) :
    isDecimal (floatToStr repr neg num den p) = true :=
  floatToStr_isDecimal repr neg num den p hfinite

/-- `format(x, ".pf")` — the branch taken for exponent-form reprs — is a decimal for all values and precisions. -/
theorem C03_fixed_format_decimal (neg : Bool) (num den p : Nat) : isDecimal (fixedFmt neg num den p) = true :=
  fixedFmt_isDecimal neg num den p

/-- `decimal_to_str` (lengths, radii, shape orientation, gps, geo transformation, time step size) writes a decimal for
    every finite float repr, plain or scientific. -/
theorem C03_decimal_to_str_lexical (repr : Str) (hfinite : isPlainRepr repr = true ∨ isSciRepr repr = true) :
    isDecimal (decimalToStr repr) = true :=
  decimalToStr_isDecimal hfinite

/-- A decimal literal consists of digits, at most a leading sign, and points: in particular it contains no `e`/`E`
    and is none of `nan`, `inf`, `-inf`, `NaN`, `INF`. -/
theorem C03_decimal_no_exponent_nan_inf (s : Str) (h : isDecimal s = true) :
    'e' ∉ s ∧ 'E' ∉ s ∧ 'n' ∉ s ∧ 'N' ∉ s ∧ 'i' ∉ s ∧ 'I' ∉ s := by
  have hc := isDecimal_chars h
  have key : ∀ c : Char, c.isDigit = false → c ≠ '.' → c ≠ '+' → c ≠ '-' → c ∉ s := by
    intro c h1 h2 h3 h4 hm
    rcases hc c hm with h | h | h | h
    · rw [h1] at h; exact absurd h (by decide)
    · exact h2 h
    · exact h3 h
    · exact h4 h
  exact ⟨key _ (by decide) (by decide) (by decide) (by decide), key _ (by decide) (by decide) (by decide) (by decide),
         key _ (by decide) (by decide) (by decide) (by decide), key _ (by decide) (by decide) (by decide) (by decide),
         key _ (by decide) (by decide) (by decide) (by decide), key _ (by decide) (by decide) (by decide) (by decide)⟩

theorem C03_decimal_one_dot (s : Str) (h : isDecimal s = true) : s.count '.' ≤ 1 := isDecimal_one_dot h

/-- A positive finite float (no sign, a non-zero mantissa digit) is written by `decimal_to_str` as a decimal > 0:
    no digit is cut off, whatever the precision setting (lengths below 1e-4 stay positive). -/
theorem C03_positive_decimal (repr : Str) (hfinite : isPlainRepr repr = true ∨ isSciRepr repr = true)
    (hpos : isNeg repr = false ∧ (mantissa repr).any nz = true) :
    isDecimal (decimalToStr repr) = true ∧ decGt (decimalToStr repr) 0 = true := by
  have h := decimalToStr_positive hfinite hpos.1 hpos.2
  exact ⟨decimalToStr_isDecimal hfinite, decGt_zero h.1 h.2⟩

/-- … and the schema's own simple types accept these strings. -/
theorem C03_decimal_accepted (s : Str) (h : isDecimal s = true) :
    (simpleOf schema "xs:decimal").map (·.accepts s) = some true := by
  have e : simpleOf schema "xs:decimal" =
      some { base := .decimal, enum := [], minExcl := none, minIncl := none, maxIncl := none } := by decide
  rw [e]; simp only [Option.map_some]; rw [decimal_accepts h]

theorem C03_positive_decimal_accepted (repr : Str) (hfinite : isPlainRepr repr = true ∨ isSciRepr repr = true)
    (hpos : isNeg repr = false ∧ (mantissa repr).any nz = true) :
    (simpleOf schema "positiveDecimal").map (·.accepts (decimalToStr repr)) = some true := by
  have e : simpleOf schema "positiveDecimal" =
      some { base := .decimal, enum := [], minExcl := some 0, minIncl := none, maxIncl := none } := by decide
  have h := decimalToStr_positive hfinite hpos.1 hpos.2
  rw [e]; simp only [Option.map_some]
  rw [positiveDecimal_accepts (decimalToStr_isDecimal hfinite) h.1 h.2]

-- non-vacuity: the hypotheses are satisfiable by the reprs the property text names, and the conclusions are not trivial
example : isSciRepr "1e-05".toList = true ∧ isNeg "1e-05".toList = false ∧ (mantissa "1e-05".toList).any nz = true := by decide
example : decimalToStr "1e-05".toList = "0.00001".toList := by decide
example : decimalToStr "1.5e+17".toList = "150000000000000000.0".toList := by decide
example : floatToStr "1e-06".toList false 1 1000000 4 = "0.0000".toList := by decide
example : floatToStr "123456.789012".toList false 123456789012 1000000 4 = "123456.7890".toList := by decide
example : isDecimal "1e-05".toList = false ∧ isDecimal "nan".toList = false ∧ isDecimal "inf".toList = false := by decide
example : isPlainRepr "100000.0".toList = true ∧ isPlainRepr "-0.0".toList = true ∧ isPlainRepr "nan".toList = false := by decide


/-! ## 2. Element order per node builder

`XmlW.<builder>Kids` is the sequence of child-element names the builder emits (CRModel/CRXmlW.lean, tied to the code by the
correspondence op `kids`, and to the tree encoders of section 7 by the `C03_kids_*` theorems of section 2b: it is their
`kidNames`).  These theorems are about the content-model matcher only and are subsumed by the `C03_valid_*` theorems, which
also cover attributes, leaf texts and the recursion into the children.  Each theorem: for ALL shapes of the object that the schema can express (the hypotheses are the
`minOccurs` the XSD itself demands: ≥ 2 bound points, ≥ 3 polygon vertices, ≥ 1 lanelet, …) the emitted sequence matches
the content model of the complex type in the regenerated schema.
(The proofs are in CRProofs/XsdOrd1..3.lean: `ord_*`; `Ok` is defined in CRProofs/XsdOrd.lean.) -/

theorem C03_order_point (z : Bool) : Ok "point" (pointKids z) := ord_order_point z

/-- rectangles and circles, also as shapes of dynamic obstacles with any combination of a non-default orientation / center -/
theorem C03_order_rectangle (dyn oriSet ctrSet : Bool) : Ok "rectangle" (rectangleKids dyn oriSet ctrSet) := ord_order_rectangle dyn oriSet ctrSet

theorem C03_order_circle (dyn ctrSet : Bool) : Ok "circle" (circleKids dyn ctrSet) := ord_order_circle dyn ctrSet

theorem C03_order_polygon (n : Nat) (h : 3 ≤ n) : Ok "polygon" (polygonKids n) := ord_order_polygon n h

theorem C03_order_bound (n : Nat) (marking : Bool) (h : 2 ≤ n) : Ok "bound" (boundKids n marking) := ord_order_bound n marking h

theorem C03_order_lanelet (p : LaneletP) : Ok "lanelet" (laneletKids p) := ord_order_lanelet p

/-- the stop line's `lineMarking` is always emitted (`if stop_line.line_marking:` — an enum member is truthy) -/
theorem C03_order_stopLine (points : Bool) (nSigns nLights : Nat) : Ok "stopLine" (stopLineKids points true nSigns nLights) := ord_order_stopLine points nSigns nLights

theorem C03_order_trafficSign (n : Nat) (position virtual : Bool) (h : 1 ≤ n) :
    Ok "trafficSign" (trafficSignKids n position virtual) := ord_order_trafficSign n position virtual h

theorem C03_order_trafficSignElement (n : Nat) : Ok "trafficSign/trafficSignElement" (signElementKids n) := ord_order_trafficSignElement n

/-- a traffic light needs its cycle (the schema requires `cycle`) -/
theorem C03_order_trafficLight (position direction active : Bool) :
    Ok "trafficLight" (trafficLightKids true position direction active) := ord_order_trafficLight position direction active

theorem C03_order_cycle (n : Nat) (offset : Bool) (h : 1 ≤ n) : Ok "trafficLightCycle" (cycleKids n offset) := ord_order_cycle n offset h

theorem C03_order_cycleElement : Ok "trafficCycleElement" cycleElementKids := ord_order_cycleElement

theorem C03_order_incoming (nIn nRight nStraight nLeft : Nat) (leftOf : Bool) (h : 1 ≤ nIn) :
    Ok "incoming" (incomingKids nIn nRight nStraight nLeft leftOf) := ord_order_incoming nIn nRight nStraight nLeft leftOf h

theorem C03_order_intersection (n : Nat) (crossing : Bool) (h : 1 ≤ n) : Ok "intersection" (intersectionKids n crossing) := ord_order_intersection n crossing h

theorem C03_order_crossing (n : Nat) (h : 1 ≤ n) : Ok "crossing" (crossingKids n) := ord_order_crossing n h

theorem C03_order_location (geo env : Bool) : Ok "location" (locationKids geo env) := ord_order_location geo env

theorem C03_order_geoTransformation : Ok "geoTransformation" geoTransformationKids := ord_order_geoTransformation

theorem C03_order_additionalTransformation : Ok "additionalTransformation" additionalTransformationKids := ord_order_additionalTransformation

/-- the three guards of the environment builder are always true in the code, so all four children are emitted -/
theorem C03_order_environment : Ok "environment" (environmentKids true true true) := ord_order_environment

theorem C03_order_staticObstacle : Ok "staticObstacle" staticObstacleKids := ord_order_staticObstacle

theorem C03_order_environmentObstacle : Ok "environmentObstacle" environmentObstacleKids := ord_order_environmentObstacle

theorem C03_order_occupancy : Ok "occupancy" occupancyKids := ord_order_occupancy

/-- a dynamic obstacle needs a prediction (the schema requires trajectory | occupancySet) -/
theorem C03_order_dynamicObstacle (signal0 series : Bool) (pred : Pred) (h : pred ≠ .none) :
    Ok "dynamicObstacle" (dynamicObstacleKids signal0 pred series) := ord_order_dynamicObstacle signal0 series pred h

theorem C03_order_phantomObstacle : Ok "phantomObstacle" (phantomObstacleKids true) := ord_order_phantomObstacle

theorem C03_order_trajectory (n : Nat) (h : 1 ≤ n) : Ok "dynamicObstacle/trajectory" (trajectoryKids n) := ord_order_trajectory n h

theorem C03_order_occupancySet (n : Nat) (h : 1 ≤ n) :
    Ok "dynamicObstacle/occupancySet" (occupancySetKids n) ∧ Ok "phantomObstacle/occupancySet" (occupancySetKids n) := ord_order_occupancySet n h

theorem C03_order_signalSeries (n : Nat) (h : 1 ≤ n) : Ok "dynamicObstacle/signalSeries" (signalSeriesKids n) := ord_order_signalSeries n h

theorem C03_order_planningProblem (n : Nat) (h : 1 ≤ n) : Ok "planningProblem" (planningProblemKids n) := ord_order_planningProblem n h

/-- the root: location, tags, then the object families in the schema's order; ≥ 1 lanelet and ≥ 1 planning problem -/
theorem C03_order_root (p : RootP) (hl : 1 ≤ p.nLanelets) (hp : 1 ≤ p.nProblems) : Ok "/commonRoad" (rootKids p) := ord_order_root p hl hp

/-- exact values and intervals against every value type the schema uses -/
theorem C03_order_value (interval : Bool) :
    Ok "decimalExactOrInterval" (valueKids interval) ∧ Ok "integerExactOrIntervalGreaterZero" (valueKids interval) ∧
    Ok "decimalInterval" (valueKids true) ∧ Ok "integerIntervalGreaterZero" (valueKids true) ∧
    Ok "decimalExact" (valueKids false) ∧ Ok "integerExactZero" (valueKids false) := ord_order_value interval

/-- shapes: any non-empty list of rectangles / circles / polygons (a ShapeGroup is written member by member) -/
theorem C03_shape_order (ks : List ShapeK) (h : ks ≠ []) : Ok "shape" (shapeKids ks) := ord_shape_order ks h

/-- positions: one point, or a run of shapes of ONE kind, or a run of lanelet references -/
theorem C03_position_order (n : Nat) :
    Ok "position" ["point"] ∧ Ok "position" (List.replicate (n + 1) "rectangle") ∧
    Ok "position" (List.replicate (n + 1) "circle") ∧ Ok "position" (List.replicate (n + 1) "polygon") ∧
    Ok "position" (List.replicate (n + 1) "lanelet") ∧
    Ok "positionInterval" (List.replicate (n + 1) "rectangle") ∧ Ok "positionInterval" (List.replicate (n + 1) "circle") ∧
    Ok "positionInterval" (List.replicate (n + 1) "polygon") ∧ Ok "positionInterval" (List.replicate (n + 1) "lanelet") ∧
    Ok "positionExact" ["point"] := ord_position_order n


/-! ## 2b. The name-list models are the children of the tree encoders

For every tree encoder of CRModel/CRXmlWDoc.lean, the names of the children it builds are the `XmlW.*Kids` sequence of the
object's shape — so each order theorem above is a statement about the encoder's node (e.g. `C03_order_lanelet_node`). -/

theorem C03_kids_point (p : Nat) (tag : String) (q : Pt) : (ptNode p tag q).kidNames = pointKids q.z.isSome := kids_point p tag q
theorem C03_kids_rectangle (p : Nat) (dyn : Bool) (l w o cx cy : Num) :
    (shape1Node p dyn (.rect l w o cx cy)).kidNames = rectangleKids dyn (!o.isZero) (!(cx.isZero && cy.isZero)) :=
  kids_rectangle p dyn l w o cx cy
theorem C03_kids_circle (p : Nat) (dyn : Bool) (r cx cy : Num) :
    (shape1Node p dyn (.circ r cx cy)).kidNames = circleKids dyn (!(cx.isZero && cy.isZero)) := kids_circle p dyn r cx cy
theorem C03_kids_polygon (p : Nat) (dyn : Bool) (vs : List (Num × Num)) :
    (shape1Node p dyn (.poly vs)).kidNames = polygonKids vs.length := kids_polygon p dyn vs
theorem C03_kids_shape (p : Nat) (dyn : Bool) (s : List Shape1) :
    (el "shape" (shapeNodes p dyn s)).kidNames = shapeKids (s.map Shape1.kind) := kids_shape p dyn s
theorem C03_kids_bound (p : Nat) (tag : String) (pts : List Pt) (lm : String) :
    (boundNode p tag pts lm).kidNames = boundKids pts.length (lm != "UNKNOWN") := kids_bound p tag pts lm
theorem C03_kids_lanelet (p : Nat) (l : LaneletD) :
    (laneletNode p l).kidNames = laneletKids
      { nPred := l.pred.length, nSucc := l.succ.length, adjL := l.adjL.isSome, adjR := l.adjR.isSome, stop := l.stop.isSome,
        nTypes := l.types.length, nOneWay := l.oneWay.length, nBidir := l.bidir.length, nSigns := l.signs.length,
        nLights := l.lights.length } := kids_lanelet p l
theorem C03_kids_stopLine (p : Nat) (s : StopLineD) :
    (stopLineNode p s).kidNames = stopLineKids s.pts.isSome s.marking.isSome s.signs.length s.lights.length := kids_stopLine p s
theorem C03_kids_trafficSign (p : Nat) (s : SignD) :
    (signNode p s).kidNames = trafficSignKids s.elements.length s.pos.isSome s.virtual.isSome := kids_trafficSign p s
theorem C03_kids_trafficSignElement (e : String × String × List String) :
    (signElementNode e).kidNames = signElementKids e.2.2.length := kids_signElement e
theorem C03_kids_trafficLight (p : Nat) (l : LightD) :
    (lightNode p l).kidNames = trafficLightKids l.cycle.isSome l.pos.isSome (l.direction != "ALL") l.active.isSome :=
  kids_trafficLight p l
theorem C03_kids_cycle (es : List (Int × String)) (off : Option Int) :
    (cycleNode es off).kidNames = cycleKids es.length (match off with | some o => decide (0 < o) | none => false) := kids_cycle es off
theorem C03_kids_cycleElement (e : Int × String) : (cycleElementNode e).kidNames = cycleElementKids := kids_cycleElement e
theorem C03_kids_incoming (i : IncomingD) :
    (incomingNode i).kidNames = incomingKids i.lanelets.length i.right.length i.straight.length i.left.length i.leftOf.isSome :=
  kids_incoming i
theorem C03_kids_intersection (x : IntersectionD) :
    (intersectionNode x).kidNames = intersectionKids x.incomings.length (!x.crossings.isEmpty) := kids_intersection x
theorem C03_kids_crossing (ids : List Int) :
    (el "crossing" (ids.map (refNode "crossingLanelet"))).kidNames = crossingKids ids.length := kids_crossing ids
theorem C03_kids_location (l : LocationD) : (locationNode l).kidNames = locationKids l.geo.isSome l.env.isSome := kids_location l
theorem C03_kids_geoTransformation (g : GeoD) :
    (geoNode g).kidNames = geoTransformationKids ∧
    (el "additionalTransformation" [leaf "xTranslation" g.x.dec, leaf "yTranslation" g.y.dec, leaf "zRotation" g.rot.dec,
      leaf "scaling" g.scale.dec]).kidNames = additionalTransformationKids := ⟨rfl, rfl⟩
/-- the three guards of the environment builder are `<str> is not <Enum member>`: always true -/
theorem C03_kids_environment (e : EnvD) : (envNode e).kidNames = environmentKids true true true := kids_environment e
theorem C03_kids_obstacles (p : Nat) (s : StaticObs) (e : EnvObs) (d : DynObs) (ph : PhantomObs) :
    (staticNode p s).kidNames = staticObstacleKids ∧ (envObsNode p e).kidNames = environmentObstacleKids ∧
    (dynNode p d).kidNames = dynamicObstacleKids d.sig0.isSome d.pred.kind (!d.series.isEmpty) ∧
    (phantomNode p ph).kidNames = phantomObstacleKids ph.occ.isSome :=
  ⟨rfl, rfl, kids_dynamicObstacle p d, kids_phantomObstacle p ph⟩
theorem C03_kids_predictions (p : Nat) (o : Occ) (os : List Occ) (sts : List (List Attr)) (ss : List Signal) :
    (occNode p o).kidNames = occupancyKids ∧ (occSetNode p os).kidNames = occupancySetKids os.length ∧
    (trajNode p sts).kidNames = trajectoryKids sts.length ∧
    (el "signalSeries" (ss.map (signalNode "signalState"))).kidNames = signalSeriesKids ss.length :=
  ⟨rfl, kids_occupancySet p os, kids_trajectory p sts, kids_signalSeries ss⟩
theorem C03_kids_value (p : Nat) (n : String) (v : Val) (t : TimeV) :
    (el n (valKids p v)).kidNames = valueKids v.isInterval ∧ (el n (timeKids t)).kidNames = valueKids t.isInterval :=
  ⟨kids_value p n v, kids_time n t⟩
theorem C03_kids_signalState (tag : String) (s : Signal) :
    (signalNode tag s).kidNames = signalStateKids s.horn.isSome s.il.isSome s.ir.isSome s.bl.isSome s.hz.isSome s.fb.isSome :=
  kids_signalState tag s
/-- a state node's children are the used attributes, mapped by `_map_to_xml_prop`, in `used_attributes` order -/
theorem C03_kids_state (p : Nat) (tag : String) (st : List Attr) :
    (stateNode p tag st).kidNames = stateKids (st.map Attr.pyName) := kids_state p tag st
theorem C03_kids_planningProblem (p : Nat) (q : ProblemD) :
    (problemNode p q).kidNames = planningProblemKids q.goals.length := kids_planningProblem p q
theorem C03_kids_tags (tags : List String) : (tagsNode tags).kidNames = tagKids (tags.map (enumValue CR.Py.Gen.tag)) := kids_tags tags
theorem C03_kids_root (d : DocD) :
    (docNode d).kidNames = rootKids
      { nLanelets := d.lanelets.length, nSigns := d.signs.length, nLights := d.lights.length,
        nIntersections := d.intersections.length, nStatic := d.statics.length, nDynamic := d.dynamics.length,
        nPhantom := d.phantoms.length, nEnvironment := d.envs.length, nProblems := d.problems.length } := kids_root d

/-- e.g.: the children of every lanelet node the encoder builds are in the order of the schema's `lanelet` type -/
theorem C03_order_lanelet_node (p : Nat) (l : LaneletD) : Ok "lanelet" (laneletNode p l).kidNames := by
  rw [kids_lanelet]; exact C03_order_lanelet _

/-- … and of the root of every document with ≥ 1 lanelet and ≥ 1 planning problem -/
theorem C03_order_root_node (d : DocD) (hl : d.lanelets ≠ []) (hp : d.problems ≠ []) : Ok "/commonRoad" (docNode d).kidNames := by
  rw [kids_root]
  refine C03_order_root _ ?_ ?_
  · cases h : d.lanelets with
    | nil => exact absurd h hl
    | cons _ _ => simp
  · cases h : d.problems with
    | nil => exact absurd h hp
    | cons _ _ => simp

/-! ## 3. xs:all content of states: derived from the attribute set

A state is given by its used attributes (`Attr`, Python attribute names, in `used_attributes` order).  The xs:all conditions
of the four state containers — pairwise different element names, all declared by the container type, required elements
present (`StateShape`) — are DERIVED from what a Python state object guarantees (`AttrSet`: the used attributes are pairwise
different keys of `__dict__`, the required ones are set) and from the attribute table: `_map_to_xml_prop` is injective on the
attributes the container admits and maps them to declared elements. -/

/-- general form -/
theorem C03_shape_of_attrs (T : String) (allowed reqPy : List String) (st : List Attr)
    (hinj : (("position" :: "time_step" :: allowed).map xmlProp).Nodup)
    (hdecl : ∀ n ∈ "position" :: "time_step" :: allowed, xmlProp n ∈ (stateEs T).map (·.name))
    (h : AttrSet reqPy st) (hin : ∀ a ∈ st, a.pyName ∈ "position" :: "time_step" :: allowed) :
    StateShape T (reqPy.map xmlProp) st := shape_of_attrs hinj hdecl h hin

theorem C03_state_shape (st : List Attr) (h : StateOk st) : StateShape "state" ["position", "orientation", "time"] st :=
  state_shape h
theorem C03_initial_state_shape (st : List Attr) (h : InitialStateOk st) :
    StateShape "initialState" ["position", "orientation", "time"] st := initialState_shape h
theorem C03_planning_initial_state_shape (st : List Attr) (h : PlanningInitialStateOk st) :
    StateShape "initialStateExact" ["position", "velocity", "orientation", "yawRate", "slipAngle", "time"] st :=
  planningInitialState_shape h
theorem C03_goal_state_shape (st : List Attr) (h : GoalStateOk st) : StateShape "goalState" ["time"] st := goalState_shape h

/-- The attribute table: of the 36 state attributes `_map_to_xml_prop` knows (the fields of all state classes of
    commonroad/scenario/state.py that have a position, and the custom attributes curvature(_rate), jerk, jounce), the `state`
    and `initialState` types declare an element for exactly the 33 of `stateAttrs` — `hitch_angle` (KSTState) and
    `front_wheel_angular_speed`, `rear_wheel_angular_speed` (STDState) have none, so these two classes are not
    schema-expressible; `_map_to_xml_prop` is injective on all of them.  (Any other attribute name falls through `xmlProp`
    unchanged and is not in `stateAttrs`, hence not admitted by `StateOk`.) -/
theorem C03_state_attrs_declared :
    ((stateAttrs ++ ["hitch_angle", "front_wheel_angular_speed", "rear_wheel_angular_speed"]).all fun a =>
      ((stateEs "state").map (·.name)).contains (xmlProp a) == stateAttrs.contains a &&
      ((stateEs "initialState").map (·.name)).contains (xmlProp a) == stateAttrs.contains a) = true ∧
    (("position" :: "time_step" :: stateAttrs ++ ["hitch_angle", "front_wheel_angular_speed", "rear_wheel_angular_speed"]).map
      xmlProp).Nodup := by decide

/-- signal states: `time` first, then whichever of the six flags (horn included) are set (all 64 combinations);
    by `C03_kids_signalState` these are the children of `signalNode` -/
theorem C03_signal_state_all (horn il ir bl hz fb : Bool) :
    Ok "signalState" (signalStateKids horn il ir bl hz fb) ∧ Ok "initialSignalState" (signalStateKids horn il ir bl hz fb) := by
  cases horn <;> cases il <;> cases ir <;> cases bl <;> cases hz <;> cases fb <;> decide

/-! ## 4. Enumerations: the text the writer emits for an enum member is a value the schema enumerates

`CR.Py.Gen.*` are the (member name, value) tables of the Python enums, regenerated from the working tree on every run
(harness/translate/pyenums.py).  A finite table checked by `decide` IS the statement for all members.  The data of the writer
model (`DocD`) carries MEMBER NAMES; the member -> text mapping (`.value`, `.name.lower()` for stop lines, nothing for
`LineMarking.UNKNOWN` / `TrafficLightDirection.ALL`) is part of `docNode` (`enumValue`, `lineMarkingLower`, `signValue`,
`boundMarking`, `lightDirection`), and `C03_enum_written` derives from the table facts that this text is accepted. -/

open CR.Py.Gen in
/-- enums whose every member is expressible: written `.value` (bounds: lineMarking; stop line: `.name.lower()`) -/
theorem C03_enum_total :
    (lineMarking.all fun (_, v) => acceptsV "lineMarking" v) = true ∧
    ((lineMarking.map (·.1)).all fun n => acceptsV "lineMarking" (lineMarkingLower n)) = true ∧
    (laneletType.all fun (_, v) => acceptsV "laneletType" v) = true ∧
    (roadUser.all fun (_, v) => acceptsV "vehicleType" v) = true ∧
    (trafficLightState.all fun (_, v) => acceptsV "trafficLightColor" v) = true ∧
    (trafficLightDirection.all fun (_, v) => acceptsV "trafficLight/direction" v) = true ∧
    (tag.all fun (_, v) => ((elemsOf (schema.content "tag")).map (·.name)).contains v) = true ∧
    (obstacleRole.all fun (_, v) =>
      ((elemsOf (schema.content "/commonRoad")).map (·.name)).contains (v ++ "Obstacle")) = true ∧
    acceptsV "/commonRoad/@commonRoadVersion" scenarioVersion = true := enum_total

open CR.Py.Gen in
/-- enums with members the schema cannot express: a member's value is accepted **iff** the member is listed
    (`timeOfDayOk` …, CRModel/CRXmlWOk.lean; the same lists drive the generator, harness/c03_gen.py) -/
theorem C03_enum_partial :
    (timeOfDay.all fun (n, v) => acceptsV "timeOfDay" v == timeOfDayOk.contains n) = true ∧
    (weather.all fun (n, v) => acceptsV "weather" v == weatherOk.contains n) = true ∧
    (underground.all fun (n, v) => acceptsV "underground" v == !(undergroundNot.contains n)) = true ∧
    (obstacleType.all fun (n, v) => acceptsV "obstacleTypeStatic" v == staticTypes.contains n) = true ∧
    (obstacleType.all fun (n, v) => acceptsV "obstacleTypeDynamic" v == dynamicTypes.contains n) = true ∧
    (obstacleType.all fun (n, v) => acceptsV "obstacleTypeEnvironment" v == environmentTypes.contains n) = true := enum_partial

/-- traffic-sign ids of all 14 country enums: the schema accepts a member's value **iff** the member is neither `UNKNOWN`
    (value "") nor one of the 24 members of `signNotExpressible` (CRModel/CRXmlWOk.lean; the same list drives the generator)
    — the list is exact: every listed member is rejected, every other member is accepted.
    (The finite checks are `decide`d in chunks, CRProofs/XsdEnumG1..8 (German table), Z1..4 (the Zamunda table is the
    German one), O1..2 (the other twelve countries), and put together in CRProofs/XsdEnumS.) -/
theorem C03_enum_traffic_sign (x : String × String × String) (hx : x ∈ CR.Py.Gen.trafficSignId) :
    acceptsV "trafficSignID" x.2.2 = true ↔ (x.2.1 ≠ "UNKNOWN" ∧ (x.1, x.2.1) ∉ signNotExpressible) :=
  sign_accepts_iff x hx

open CR.Py.Gen in
/-- **the enum clause of the writer model**: for every enum member the data may name (all members of the total enums, the
    listed members of the partial ones, the expressible traffic-sign members), the text `docNode` writes for it is accepted
    by the schema's simple type of the element it is written into.  These are the facts the `C03_valid_*` proofs use; the
    predicates `…Ok` only ask that the names ARE such members. -/
theorem C03_enum_written :
    (∀ n, memberOf lineMarking n → acceptsV "lineMarking" (enumValue lineMarking n) = true ∧
                                   acceptsV "lineMarking" (lineMarkingLower n) = true) ∧
    (∀ n, memberOf laneletType n → acceptsV "laneletType" (enumValue laneletType n) = true) ∧
    (∀ n, memberOf roadUser n → acceptsV "vehicleType" (enumValue roadUser n) = true) ∧
    (∀ n, memberOf trafficLightState n → acceptsV "trafficLightColor" (enumValue trafficLightState n) = true) ∧
    (∀ n, memberOf trafficLightDirection n → acceptsV "trafficLight/direction" (enumValue trafficLightDirection n) = true) ∧
    (∀ n, memberOf tag n → enumValue tag n ∈ (elemsOf (schema.content "tag")).map (·.name)) ∧
    (∀ n ∈ timeOfDayOk, acceptsV "timeOfDay" (enumValue timeOfDay n) = true) ∧
    (∀ n ∈ weatherOk, acceptsV "weather" (enumValue weather n) = true) ∧
    (∀ n, memberOf underground n → n ∉ undergroundNot → acceptsV "underground" (enumValue underground n) = true) ∧
    (∀ n ∈ staticTypes, acceptsV "obstacleTypeStatic" (enumValue obstacleType n) = true) ∧
    (∀ n ∈ dynamicTypes, acceptsV "obstacleTypeDynamic" (enumValue obstacleType n) = true) ∧
    (∀ n ∈ environmentTypes, acceptsV "obstacleTypeEnvironment" (enumValue obstacleType n) = true) ∧
    (∀ e : String × String × List String, SignElemOk e → acceptsV "trafficSignID" (signValue e.1 e.2.1) = true) :=
  ⟨fun _ h => ⟨ok_lineMarking h, ok_lineMarkingLower h⟩, fun _ h => ok_laneletType h, fun _ h => ok_roadUser h,
   fun _ h => ok_lightState h, fun _ h => ok_lightDirection h, fun _ h => ok_tag h, fun _ h => ok_timeOfDay h,
   fun _ h => ok_weather h, fun _ hm h => ok_underground hm h, fun _ h => ok_static h, fun _ h => ok_dynamic h,
   fun _ h => ok_environment h, fun _ h => ok_sign h⟩

/-- booleans are written as `str(b).lower()`, the adjacency direction as "same" / "opposite" -/
theorem C03_enum_literals :
    acceptsV "xs:boolean" "true" = true ∧ acceptsV "xs:boolean" "false" = true ∧ acceptsV "xs:boolean" "True" = false ∧
    acceptsV "drivingDir" "same" = true ∧ acceptsV "drivingDir" "opposite" = true := by decide

/-! ## 5. Complete subtrees: points, rectangles and circles the writer emits are valid, recursively, for all finite numbers -/

theorem lookup_decimal : schema.lookup "xs:decimal" =
    some (.simple { base := .decimal, enum := [], minExcl := none, minIncl := none, maxIncl := none }) := by decide
theorem lookup_positiveDecimal : schema.lookup "positiveDecimal" =
    some (.simple { base := .decimal, enum := [], minExcl := some 0, minIncl := none, maxIncl := none }) := by decide

theorem valid_decimal_leaf (n : String) (x : Str) (h : isDecimal x = true) : validNode schema "xs:decimal" (leaf n x) = true :=
  validNode_simple lookup_decimal n (decimal_accepts h)

/-- a positive decimal literal: decimal, no minus sign, some non-zero digit -/
def PosDec (s : Str) : Prop := isDecimal s = true ∧ isNeg s = false ∧ s.any nz = true

theorem valid_posdecimal_leaf (n : String) (x : Str) (h : PosDec x) : validNode schema "positiveDecimal" (leaf n x) = true :=
  validNode_simple lookup_positiveDecimal n (positiveDecimal_accepts h.1 h.2.1 h.2.2)

theorem C03_valid_point (tag : String) (x y : Str) (z : Option Str) (hx : isDecimal x = true) (hy : isDecimal y = true)
    (hz : ∀ z', z = some z' → isDecimal z' = true) : validNode schema "point" (pointNode tag x y z) = true := by
  have hl : schema.lookup "point" = some (.complex [] false (schema.content "point")) := by decide
  cases z with
  | none =>
    have hm : matchGroup (schema.content "point") ["x", "y"] = some ["xs:decimal", "xs:decimal"] := by decide
    rw [pointNode, validNode_complex hl (ts := ["xs:decimal", "xs:decimal"]) (by rfl) (by simpa [leaf, Xml.name] using hm)]
    simp only [List.append_nil, validKids, valid_decimal_leaf _ _ hx, valid_decimal_leaf _ _ hy, Bool.and_self]
  | some z' =>
    have hm : matchGroup (schema.content "point") ["x", "y", "z"] = some ["xs:decimal", "xs:decimal", "xs:decimal"] := by decide
    rw [pointNode, validNode_complex hl (ts := ["xs:decimal", "xs:decimal", "xs:decimal"]) (by rfl)
      (by simpa [leaf, Xml.name] using hm)]
    simp only [List.cons_append, List.nil_append, validKids, valid_decimal_leaf _ _ hx, valid_decimal_leaf _ _ hy,
      valid_decimal_leaf _ _ (hz z' rfl), Bool.and_self]

/-- rectangles with any combination of orientation / center present (static shapes: both; shapes of dynamic obstacles:
    each only when it is not the default) -/
theorem C03_valid_rectangle (l w : Str) (o : Option Str) (c : Option (Str × Str)) (hl : PosDec l) (hw : PosDec w)
    (ho : ∀ o', o = some o' → isDecimal o' = true)
    (hc : ∀ cx cy, c = some (cx, cy) → isDecimal cx = true ∧ isDecimal cy = true) :
    validNode schema "rectangle" (rectangleNode l w o c) = true := by
  have hlk : schema.lookup "rectangle" = some (.complex [] false (schema.content "rectangle")) := by decide
  cases o with
  | none =>
    cases c with
    | none =>
      have hm : matchGroup (schema.content "rectangle") ["length", "width"] = some ["positiveDecimal", "positiveDecimal"] := by decide
      rw [rectangleNode, validNode_complex hlk (ts := ["positiveDecimal", "positiveDecimal"]) (by rfl)
        (by simpa [leaf, Xml.name] using hm)]
      simp only [List.append_nil, validKids, valid_posdecimal_leaf _ _ hl, valid_posdecimal_leaf _ _ hw, Bool.and_self]
    | some t =>
      obtain ⟨cx, cy⟩ := t
      obtain ⟨hcx, hcy⟩ := hc cx cy rfl
      have hm : matchGroup (schema.content "rectangle") ["length", "width", "center"] =
          some ["positiveDecimal", "positiveDecimal", "point"] := by decide
      rw [rectangleNode, validNode_complex hlk (ts := ["positiveDecimal", "positiveDecimal", "point"]) (by rfl)
        (by simpa [leaf, pointNode, Xml.name] using hm)]
      simp only [List.append_nil, List.cons_append, List.nil_append, validKids, valid_posdecimal_leaf _ _ hl,
        valid_posdecimal_leaf _ _ hw, C03_valid_point "center" cx cy none hcx hcy (by intro _ h; cases h), Bool.and_self]
  | some o' =>
    have ho' := ho o' rfl
    cases c with
    | none =>
      have hm : matchGroup (schema.content "rectangle") ["length", "width", "orientation"] =
          some ["positiveDecimal", "positiveDecimal", "xs:decimal"] := by decide
      rw [rectangleNode, validNode_complex hlk (ts := ["positiveDecimal", "positiveDecimal", "xs:decimal"]) (by rfl)
        (by simpa [leaf, Xml.name] using hm)]
      simp only [List.append_nil, List.cons_append, List.nil_append, validKids, valid_posdecimal_leaf _ _ hl,
        valid_posdecimal_leaf _ _ hw, valid_decimal_leaf _ _ ho', Bool.and_self]
    | some t =>
      obtain ⟨cx, cy⟩ := t
      obtain ⟨hcx, hcy⟩ := hc cx cy rfl
      have hm : matchGroup (schema.content "rectangle") ["length", "width", "orientation", "center"] =
          some ["positiveDecimal", "positiveDecimal", "xs:decimal", "point"] := by decide
      rw [rectangleNode, validNode_complex hlk (ts := ["positiveDecimal", "positiveDecimal", "xs:decimal", "point"]) (by rfl)
        (by simpa [leaf, pointNode, Xml.name] using hm)]
      simp only [List.cons_append, List.nil_append, validKids, valid_posdecimal_leaf _ _ hl,
        valid_posdecimal_leaf _ _ hw, valid_decimal_leaf _ _ ho', C03_valid_point "center" cx cy none hcx hcy (by intro _ h; cases h),
        Bool.and_self]

theorem C03_valid_circle (r : Str) (c : Option (Str × Str)) (hr : PosDec r)
    (hc : ∀ cx cy, c = some (cx, cy) → isDecimal cx = true ∧ isDecimal cy = true) :
    validNode schema "circle" (circleNode r c) = true := by
  have hlk : schema.lookup "circle" = some (.complex [] false (schema.content "circle")) := by decide
  cases c with
  | none =>
    have hm : matchGroup (schema.content "circle") ["radius"] = some ["positiveDecimal"] := by decide
    rw [circleNode, validNode_complex hlk (ts := ["positiveDecimal"]) (by rfl) (by simpa [leaf, Xml.name] using hm)]
    simp only [List.append_nil, validKids, valid_posdecimal_leaf _ _ hr, Bool.and_self]
  | some t =>
    obtain ⟨cx, cy⟩ := t
    obtain ⟨hcx, hcy⟩ := hc cx cy rfl
    have hm : matchGroup (schema.content "circle") ["radius", "center"] = some ["positiveDecimal", "point"] := by decide
    rw [circleNode, validNode_complex hlk (ts := ["positiveDecimal", "point"]) (by rfl)
      (by simpa [leaf, pointNode, Xml.name] using hm)]
    simp only [List.cons_append, List.nil_append, validKids, valid_posdecimal_leaf _ _ hr,
      C03_valid_point "center" cx cy none hcx hcy (by intro _ h; cases h), Bool.and_self]

/-- a finite float as the harness describes it: its repr and its exact value -/
structure FloatRepr where
  repr : Str
  neg : Bool
  num : Nat
  den : Nat

def FloatRepr.Finite (f : FloatRepr) : Prop := isPlainRepr f.repr = true ∨ isSciRepr f.repr = true
def FloatRepr.Positive (f : FloatRepr) : Prop := isNeg f.repr = false ∧ (mantissa f.repr).any nz = true

theorem sci_contains_e {s : Str} (h : isSciRepr s = true) (hlower : s.any (· == 'E') = false) : s.contains 'e' = true := by
  have hd := decimalToStr_isDecimal (s := s) (Or.inr h)
  by_cases he : s.any isE = true
  · obtain ⟨c, hc, hce⟩ := List.any_eq_true.mp he
    have : c = 'e' := by
      simp only [isE, Bool.or_eq_true, beq_iff_eq] at hce
      rcases hce with h1 | h1
      · exact h1
      · exfalso
        have := List.any_eq_false.mp hlower c hc
        simp [h1] at this
    subst this
    simpa using hc
  · exfalso
    -- a scientific repr does contain an exponent marker (shown inside decimalToStr_isDecimal's proof); re-derive
    unfold isSciRepr at h
    simp only [Bool.and_eq_true] at h
    have h2 := h.1.2
    split at h2
    · rename_i c ex heq
      have hmem : c ∈ (dropSign s).dropWhile (fun c => !isE c) := by rw [heq]; exact List.mem_cons_self
      have hc : isE c = true := by
        have := List.head?_dropWhile_not (fun c => !isE c) (dropSign s)
        rw [heq] at this; simpa using this
      have hin : c ∈ dropSign s := (List.dropWhile_sublist _).subset hmem
      have hins : c ∈ s := by
        rcases dropSign_cases s with h0 | ⟨r, hs, hr⟩ | ⟨r, hs, hr⟩
        · rwa [h0] at hin
        · rw [hr] at hin; rw [hs]; exact List.mem_cons_of_mem _ hin
        · rw [hr] at hin; rw [hs]; exact List.mem_cons_of_mem _ hin
      exact he (List.any_eq_true.mpr ⟨c, hins, hc⟩)
    · exact absurd h2 (by decide)

/-- **end to end for a rectangle**: whatever finite positive length and width, finite orientation and centre, and
    precision `p` — the `<rectangle>` subtree the writer emits (lengths and orientation through `decimal_to_str`, centre
    through `float_to_str`) is valid against the schema's `rectangle` type, down to every leaf; `withOri` / `withCtr` say
    whether orientation / center are written (both outside dynamic-obstacle shapes, each iff non-default inside them). -/
theorem C03_written_rectangle_valid (l w o cx cy : FloatRepr) (p : Nat) (withOri withCtr : Bool)
    (hl : l.Finite ∧ l.Positive) (hw : w.Finite ∧ w.Positive) (ho : o.Finite)
    (hcx : isPlainRepr cx.repr = true ∨ cx.repr.contains 'e' = true)
    (hcy : isPlainRepr cy.repr = true ∨ cy.repr.contains 'e' = true) :
    validNode schema "rectangle"
      (rectangleNode (decimalToStr l.repr) (decimalToStr w.repr)
        (if withOri then some (decimalToStr o.repr) else none)
        (if withCtr then some (floatToStr cx.repr cx.neg cx.num cx.den p, floatToStr cy.repr cy.neg cy.num cy.den p) else none)) = true := by
  have pl := decimalToStr_positive hl.1 hl.2.1 hl.2.2
  have pw := decimalToStr_positive hw.1 hw.2.1 hw.2.2
  refine C03_valid_rectangle _ _ _ _ ⟨decimalToStr_isDecimal hl.1, pl.1, pl.2⟩ ⟨decimalToStr_isDecimal hw.1, pw.1, pw.2⟩ ?_ ?_
  · intro o' h
    cases withOri
    · cases h
    · cases h; exact decimalToStr_isDecimal ho
  · intro cx' cy' h
    cases withCtr
    · cases h
    · cases h
      exact ⟨floatToStr_isDecimal _ _ _ _ _ hcx, floatToStr_isDecimal _ _ _ _ _ hcy⟩

/-- … and for a circle. -/
theorem C03_written_circle_valid (r cx cy : FloatRepr) (p : Nat) (withCtr : Bool) (hr : r.Finite ∧ r.Positive)
    (hcx : isPlainRepr cx.repr = true ∨ cx.repr.contains 'e' = true)
    (hcy : isPlainRepr cy.repr = true ∨ cy.repr.contains 'e' = true) :
    validNode schema "circle"
      (circleNode (decimalToStr r.repr)
        (if withCtr then some (floatToStr cx.repr cx.neg cx.num cx.den p, floatToStr cy.repr cy.neg cy.num cy.den p) else none)) = true := by
  have pr := decimalToStr_positive hr.1 hr.2.1 hr.2.2
  refine C03_valid_circle _ _ ⟨decimalToStr_isDecimal hr.1, pr.1, pr.2⟩ ?_
  intro cx' cy' h
  cases withCtr
  · cases h
  · cases h
    exact ⟨floatToStr_isDecimal _ _ _ _ _ hcx, floatToStr_isDecimal _ _ _ _ _ hcy⟩

-- non-vacuity: a length of 1e-05 m, an orientation of 1e-06 rad and a centre at 1e5 m / 1e-6 m at precision 4
example : validNode schema "rectangle"
    (rectangleNode (decimalToStr "1e-05".toList) (decimalToStr "2.0".toList)
      (some (decimalToStr "1e-06".toList)) (some (floatToStr "100000.0".toList false 100000 1 4, floatToStr "1e-06".toList false 1 1000000 4)))
    = true := by decide
-- the shape of a dynamic obstacle that is rotated but centred: orientation without center
example : validNode schema "rectangle"
    (rectangleNode (decimalToStr "4.5".toList) (decimalToStr "1.8".toList) (some (decimalToStr "1e-06".toList)) none) = true := by decide
-- … while the strings the unrepaired writer produced are rejected by the same validator
example : validNode schema "rectangle"
    (rectangleNode "1e-05".toList "2.0".toList (some "1e-06".toList) (some ("100000.0".toList, "0.0000".toList))) = false := by decide
-- and a length cut to precision 4 would not be a positiveDecimal
example : validNode schema "rectangle" (rectangleNode "0.0000".toList "2.0".toList none none) = false := by decide


/-! ## 6. The whole document: what has to be shown -/

/-- what a complete model of the writer has to provide for the full statement -/
structure WriterModel where
  Input : Type
  Expressible : Input → Prop
  encode : Input → Xml

/-- **valid_doc (full statement).** Every expressible input is encoded as a document that is valid against the schema,
    including the identity constraints.  Proved for the complete writer model in section 7 (`C03_valid_doc`). -/
def C03_valid_doc_full (W : WriterModel) : Prop := ∀ i, W.Expressible i → validDoc schema (W.encode i) = true

/-! ## 7. Every subtree, down to every leaf — and the whole document

`CR.XmlW.docNode` (CRModel/CRXmlWDoc.lean) is the complete tree the writer builds from the data it reads off the scenario
objects (`DocD`: numbers as repr + exact value, ids, enum MEMBER names, optional parts, lists in iteration order).  The
harness compares it with the tree the real writer produced for every generated document (op `tree`).  The predicates
`…Ok` say "schema-expressible" for each kind of object; they are the `minOccurs` / facets / required elements of the XSD
itself (ids ≥ 1, lengths > 0, ≥ 2 bound points, time steps ≥ 1 / = 0, interval goals, enum members that are expressible —
that their written text is a schema value is proved, `C03_enum_written` — attribute sets of states, not their xs:all shape).
Proofs: CRProofs/XsdDoc.lean (leaf lemmas, assembly rules), XsdDocA–F, XsdEnumT. -/

/-- states: trajectory state, obstacle initial state, planning-problem initial state, goal state; signal states -/
theorem C03_valid_state (p : Nat) (tag : String) (st : List Attr) (h : StateOk st) :
    validNode schema "state" (stateNode p tag st) = true := valid_state p tag h
theorem C03_valid_initialState (p : Nat) (tag : String) (st : List Attr) (h : InitialStateOk st) :
    validNode schema "initialState" (stateNode p tag st) = true := valid_initialState p tag h
theorem C03_valid_planningInitialState (p : Nat) (tag : String) (st : List Attr) (h : PlanningInitialStateOk st) :
    validNode schema "initialStateExact" (stateNode p tag st) = true := valid_planningInitialState p tag h
theorem C03_valid_goalState (p : Nat) (tag : String) (st : List Attr) (h : GoalStateOk st) :
    validNode schema "goalState" (stateNode p tag st) = true := valid_goalState p tag h
theorem C03_valid_signalState (tag : String) (s : Signal) (h : 1 ≤ s.t) :
    validNode schema "signalState" (signalNode tag s) = true := valid_signalState tag s h
theorem C03_valid_initialSignalState (tag : String) (s : Signal) (h : s.t = 0) :
    validNode schema "initialSignalState" (signalNode tag s) = true := valid_initialSignalState tag s h

/-- shapes (any mixture, static or in the frame of a dynamic obstacle), positions -/
theorem C03_valid_shape (p : Nat) (dyn : Bool) (s : List Shape1) (h : ShapeOk s) :
    validNode schema "shape" (el "shape" (shapeNodes p dyn s)) = true := valid_shape p dyn h
theorem C03_valid_position (p : Nat) (q : CR.XmlW.Pos) (h : PosOk q) : validNode schema "position" (posNode p q) = true :=
  valid_pos p h

/-- occupancies, set-based predictions, trajectories -/
theorem C03_valid_occupancy (p : Nat) (o : Occ) (h : OccOk o) : validNode schema "occupancy" (occNode p o) = true := valid_occ p h
theorem C03_valid_occupancySet (p : Nat) (os : List Occ) (hne : os ≠ []) (h : ∀ o ∈ os, OccOk o) :
    validNode schema "dynamicObstacle/occupancySet" (occSetNode p os) = true ∧
    validNode schema "phantomObstacle/occupancySet" (occSetNode p os) = true :=
  ⟨valid_occSet _ pt_dynOccSet (by decide) (by decide) p hne h, valid_occSet _ pt_phOccSet (by decide) (by decide) p hne h⟩
theorem C03_valid_trajectory (p : Nat) (sts : List (List Attr)) (hne : sts ≠ []) (h : ∀ st ∈ sts, StateOk st) :
    validNode schema "dynamicObstacle/trajectory" (trajNode p sts) = true := valid_traj p hne h

/-- obstacles -/
theorem C03_valid_staticObstacle (p : Nat) (o : StaticObs) (h : StaticOk o) :
    validNode schema "staticObstacle" (staticNode p o) = true := valid_static p h
theorem C03_valid_dynamicObstacle (p : Nat) (o : DynObs) (h : DynOk o) :
    validNode schema "dynamicObstacle" (dynNode p o) = true := valid_dynamic p h
theorem C03_valid_environmentObstacle (p : Nat) (o : EnvObs) (h : EnvObsOk o) :
    validNode schema "environmentObstacle" (envObsNode p o) = true := valid_envObs p h
theorem C03_valid_phantomObstacle (p : Nat) (o : PhantomObs) (h : PhantomOk o) :
    validNode schema "phantomObstacle" (phantomNode p o) = true := valid_phantom p h

/-- lanelets (bounds, line markings, predecessor / successor / adjacency references, stop line, types / users, sign and
    light references), traffic signs, traffic lights, intersections -/
theorem C03_valid_lanelet (p : Nat) (l : LaneletD) (h : LaneletOk l) : validNode schema "lanelet" (laneletNode p l) = true :=
  valid_lanelet p h
theorem C03_valid_stopLine (p : Nat) (s : StopLineD) (h : StopOk s) : validNode schema "stopLine" (stopLineNode p s) = true :=
  valid_stopLine p h
theorem C03_valid_trafficSign (p : Nat) (s : SignD) (h : SignOk s) : validNode schema "trafficSign" (signNode p s) = true :=
  valid_sign p h
theorem C03_valid_trafficLight (p : Nat) (l : LightD) (h : LightOk l) : validNode schema "trafficLight" (lightNode p l) = true :=
  valid_light p h
theorem C03_valid_intersection (x : IntersectionD) (h : IntersectionOk x) :
    validNode schema "intersection" (intersectionNode x) = true := valid_intersection h

/-- planning problems (initial state, goal states incl. lanelet positions), location / environment / tags -/
theorem C03_valid_planningProblem (p : Nat) (q : ProblemD) (h : ProblemOk q) :
    validNode schema "planningProblem" (problemNode p q) = true := valid_problem p h
theorem C03_valid_location (l : LocationD) (h : LocationOk l) : validNode schema "location" (locationNode l) = true :=
  valid_location h
theorem C03_valid_tags (tags : List String) (h : TagsOk tags) : validNode schema "tag" (tagsNode tags) = true := valid_tags h

/-- the header the writer sets (`_write_header`): time step size through `decimal_to_str`, the fixed version string
    (`commonroad.SCENARIO_VERSION`, regenerated), free-text author / affiliation / source / benchmark id, the date -/
theorem C03_header_ok (d : DocD) (h : HeaderOk d) : attrsOk schema rootDecl (headerAttrs d) = true := header_ok h

/-- the whole element tree against the root type: every element, attribute and leaf -/
theorem C03_valid_tree (d : DocD) (h : DocOk d) : validNode schema "/commonRoad" (docNode d) = true := valid_docNode h

/-- **keys_ok.** Over any element tree: if the elements selected by the schema's key selector carry exactly the ids `ids`,
    these are pairwise different, and every `@ref` below the root has the value of one of them, then xs:key and xs:keyref hold. -/
theorem C03_keys_ok (root : Xml) (ids : List Int)
    (hk : keyValues { schema with keyPaths := schema.keyPaths.eraseDups } root = ids.map some) (hunique : ids.Nodup)
    (hresolve : ∀ v ∈ refsOfList schema.refField root.kids, ∃ i ∈ ids, intValue v.toList = some i) :
    keysOk schema root = true ∧ refsOk schema root = true := keys_refs_ok schema root ids hk hunique hresolve

/-- … and for the document tree the key selector selects exactly `docIds d`: the ids of the lanelets, signs, lights,
    intersections, obstacles, planning problems and incomings. -/
theorem C03_doc_key_values (d : DocD) :
    keyValues { schema with keyPaths := schema.keyPaths.eraseDups } (docNode d) = (docIds d).map some := doc_keyValues d

/-- the `@ref` values below the root are the written forms of `docRefs d`: predecessor / successor / adjacency / stop-line /
    sign / light references of the lanelets, the lanelet references of the intersections, and the lanelet positions of goal
    states -/
theorem C03_doc_refs (d : DocD) : refsOfList "ref" (docNode d).kids = (docRefs d).map istr := doc_refs d

/-- the writer model: inputs are the data of a scenario + planning-problem set; expressible means schema-expressible
    (`DocOk`), pairwise different ids, and every reference points at one of the ids -/
def writerModel : WriterModel where
  Input := DocD
  Expressible := CR.C03.Expressible   -- DocOk d ∧ (docIds d).Nodup ∧ ∀ r ∈ docRefs d, r ∈ docIds d  (decidable)
  encode := docNode

/-- **valid_doc.** `C03_valid_doc_full` for the complete writer model: every schema-expressible scenario with unique ids and
    resolvable references is written as a document that is valid against the shipped 2020a XSD — element order, plain
    decimal numbers, enumeration values, required elements, attributes, xs:key and xs:keyref. -/
theorem C03_valid_doc : C03_valid_doc_full writerModel := by
  intro d h
  exact valid_doc_data d h.1 h.2.1 h.2.2

-- non-vacuity: a concrete schema-expressible scenario with the magnitudes the property names, and its document
private def n (s : String) (neg : Bool) (a b : Nat) : Num := { repr := s.toList, neg := neg, num := a, den := b }
private def pt2 (x y : Num) : Pt := { x := x, y := y }

/-- one lanelet of 1e5 m, a static obstacle of length 1e-05 m rotated by 1e-06 rad, one planning problem -/
def exampleDoc : DocD :=
  { precision := 4, dt := n "1e-05" false 1 100000, author := "A", affiliation := "TUM", source := "",
    benchmark := "ZAM_Test-1_1_T-1", date := "2026-09-29",
    location := { geoNameId := -999, lat := n "999" false 999 1, lon := n "999" false 999 1, geo := none, env := none },
    tags := ["URBAN"],
    lanelets := [{ id := 1, left := [pt2 (n "0.0" false 0 1) (n "1.0" false 1 1), pt2 (n "100000.0" false 100000 1) (n "1.0" false 1 1)],
                   right := [pt2 (n "0.0" false 0 1) (n "-1.0" true 1 1), pt2 (n "100000.0" false 100000 1) (n "-1.0" true 1 1)],
                   lmLeft := "SOLID", lmRight := "UNKNOWN", pred := [], succ := [1], adjL := none, adjR := none, stop := none,
                   types := [], oneWay := ["CAR"], bidir := [], signs := [], lights := [] }],
    signs := [], lights := [], intersections := [],
    statics := [{ id := 2, type := "PARKED_VEHICLE",
                  shape := [.rect (n "1e-05" false 1 100000) (n "2.0" false 2 1) (n "1e-06" false 1 1000000) (n "5.0" false 5 1) (n "0.0" false 0 1)],
                  init := [.time (.exact 0), .position (.point (pt2 (n "5.0" false 5 1) (n "0.0" false 0 1))),
                           .value "orientation" (.exact (n "1e-06" false 1 1000000))] }],
    dynamics := [], phantoms := [], envs := [],
    problems := [{ id := 3,
                   init := [.time (.exact 0), .position (.point (pt2 (n "0.0" false 0 1) (n "0.0" false 0 1))),
                            .value "orientation" (.exact (n "0.0" false 0 1)), .value "velocity" (.exact (n "10.0" false 10 1)),
                            .value "yaw_rate" (.exact (n "0.0" false 0 1)), .value "slip_angle" (.exact (n "0.0" false 0 1))],
                   goals := [[.time (.interval 1 50), .position (.lanelets [1])]] }] }

set_option maxRecDepth 100000 in
example : writerModel.Expressible exampleDoc := by show CR.C03.Expressible exampleDoc; decide
set_option maxRecDepth 100000 in
example : validDoc schema (docNode exampleDoc) = true := by decide

example : (docNode exampleDoc).attrs.lookup "timeStepSize" = some "0.00001" := by decide

end CR.C03
