/-
  C05 — translate_rotate is the exact rigid motion on every object.
  Model: CRModel/Rigid.lean (mirror of the `translate_rotate` methods of commonroad-io, see the header there).
  All statements are over `Rat` (every float is a rational) and hold for ARBITRARY parameters `(c, s)`; the code passes
  `(math.cos a, math.sin a)`, for which `c² + s² = 1` up to rounding — the isometry statements take `c² + s² = 1` as
  hypothesis, the scaling statements show what happens otherwise (this is how the small-angle defect shows).
  `τ > 0` is the value of TWO_PI.
-/
import CRProofs.Rigid
namespace CR.Rigid
open CR.Iv

/-! ### the motion of one point -/

/-- squared distances scale by `c² + s²`. -/
theorem C05_dist_sq (c s : Rat) (t p q : Pt) :
    dist2 (tr c s t p) (tr c s t q) = (c ^ 2 + s ^ 2) * dist2 p q := dist2_tr c s t p q

/-- for the cosine and sine of an angle the motion is an isometry: all pairwise distances are preserved. -/
theorem C05_isometry (c s : Rat) (h : c ^ 2 + s ^ 2 = 1) (t p q : Pt) :
    dist2 (tr c s t p) (tr c s t q) = dist2 p q := by rw [dist2_tr, h, one_mul]

/-- The branch of the pinned tree (`|a| ≤ 0.05 ↦ cos = 1, sin = a`) is NOT a rigid motion for any `a ≠ 0`:
    every distance between distinct points is changed (scaled by `√(1 + a²)`).  Witness that the unrepaired code
    violates the property for every small non-zero angle, whatever the translation. -/
theorem C05_small_angle_branch_not_rigid (a cosA sinA : Rat) (ha : a ≠ 0) (hs : -(1 / 20) ≤ a ∧ a ≤ 1 / 20) :
    csBeforeFix a cosA sinA = (1, a) ∧
    ∀ (t p q : Pt), p ≠ q → dist2 (tr 1 a t p) (tr 1 a t q) = (1 + a ^ 2) * dist2 p q
      ∧ dist2 (tr 1 a t p) (tr 1 a t q) ≠ dist2 p q := by
  constructor
  · unfold csBeforeFix
    by_cases h0 : a < 0
    · have : ¬ (20⁻¹ : Rat) < -a := by norm_num; linarith
      simp [h0, this]
    · have : ¬ (20⁻¹ : Rat) < a := by norm_num; linarith [hs.2]
      simp [h0, this]
  · intro t p q hpq
    have e : dist2 (tr 1 a t p) (tr 1 a t q) = (1 + a ^ 2) * dist2 p q := by rw [dist2_tr]; ring
    refine ⟨e, ?_⟩
    rw [e]
    have hd := dist2_pos hpq
    have ha2 : 0 < a ^ 2 := by positivity
    nlinarith

/-- undoing the motion restores the original: rotate back by `-a` (cos = c, sin = -s) with zero translation, then translate
    by `-t` with zero angle (cos = 1, sin = 0). -/
theorem C05_inverse (c s : Rat) (h : c ^ 2 + s ^ 2 = 1) (t p : Pt) :
    tr 1 0 ⟨-t.x, -t.y⟩ (tr c (-s) ⟨0, 0⟩ (tr c s t p)) = p := by
  apply Pt.ext'
  · simp only [tr]; linear_combination (p.x + t.x) * h
  · simp only [tr]; linear_combination (p.y + t.y) * h

/-- two motions compose to one motion: angle addition for `(c, s)`, translation `t₁ + R₁ᵀ t₂`. -/
theorem C05_compose (c₁ s₁ c₂ s₂ : Rat) (h : c₁ ^ 2 + s₁ ^ 2 = 1) (t₁ t₂ p : Pt) :
    tr c₂ s₂ t₂ (tr c₁ s₁ t₁ p)
      = tr (c₁ * c₂ - s₁ * s₂) (s₁ * c₂ + c₁ * s₂)
           ⟨t₁.x + (c₁ * t₂.x + s₁ * t₂.y), t₁.y + (-s₁ * t₂.x + c₁ * t₂.y)⟩ p := by
  apply Pt.ext'
  · simp only [tr]; linear_combination (-(c₂ * t₂.x) + s₂ * t₂.y) * h
  · simp only [tr]; linear_combination (-(s₂ * t₂.x) - c₂ * t₂.y) * h

/-- the velocity vector of a point-mass state `v = r (cos φ, sin φ)` becomes `r (cos (φ + a), sin (φ + a))` (angle
    addition formulas): its derived orientation `atan2(v_y, v_x)` turns by `a`, its length is kept. -/
theorem C05_pm_velocity (c s r cφ sφ : Rat) :
    rot c s ⟨r * cφ, r * sφ⟩ = ⟨r * (cφ * c - sφ * s), r * (sφ * c + cφ * s)⟩
    ∧ (c ^ 2 + s ^ 2 = 1 → ∀ v : Pt, (rot c s v).x ^ 2 + (rot c s v).y ^ 2 = v.x ^ 2 + v.y ^ 2) := by
  constructor
  · apply Pt.ext' <;> simp only [rot] <;> ring
  · intro h v
    simp only [rot]; linear_combination (v.x ^ 2 + v.y ^ 2) * h

/-! ### polygons, rectangles -/

/-- shoelace area of a closed ring of ANY length scales by `c² + s²` (induction over the vertex list). -/
theorem C05_shoelace (c s : Rat) (t : Pt) (l : List Pt) (hl : ClosedRing l) :
    chain2 (l.map (tr c s t)) = (c ^ 2 + s ^ 2) * chain2 l := chain2_map_closed c s t l hl

/-- polygon areas (and their orientation) are preserved by the rigid motion. -/
theorem C05_area_preserved (c s : Rat) (h : c ^ 2 + s ^ 2 = 1) (t : Pt) (l : List Pt) (hl : ClosedRing l) :
    chain2 (l.map (tr c s t)) = chain2 l := by rw [chain2_map_closed c s t l hl, h, one_mul]

/-- `Polygon.__init__` (close the ring, orient clockwise) commutes with the motion: the polygon constructed from the moved
    vertices stores exactly the moved vertices of the original polygon — for every vertex list, including the error case. -/
theorem C05_polygon_ctor_commutes (c s : Rat) (t : Pt) (hk : 0 < c ^ 2 + s ^ 2) (l : List Pt) :
    polyMk (l.map (tr c s t)) = (polyMk l).map (List.map (tr c s t)) := polyMk_map c s t hk l

/-- what `Polygon.__init__` stores is in normal form (constructing again changes nothing): the well-formedness hypothesis
    `Shape.WF` / `Lanelet.WF` of the `all_moved` theorems holds for every polygon that came out of the constructor. -/
theorem C05_polygon_normal_form (vs r : List Pt) (h : polyMk vs = .ok r) : polyMk r = .ok r := polyMk_idem vs r h

/-- the corner points of the moved rectangle (centre moved, orientation `θ + a`: angle addition for its cosine and sine)
    are the moved corner points: length and width are untouched, the rectangle is moved as a rigid body. -/
theorem C05_rect_corners (c s : Rat) (t ctr : Pt) (l w cθ sθ : Rat) :
    rectCorners l w (tr c s t ctr) (cθ * c - sθ * s) (sθ * c + cθ * s)
      = (rectCorners l w ctr cθ sθ).map (tr c s t) := by
  simp only [rectCorners, List.map_cons, List.map_nil, tr]
  refine List.cons_eq_cons.mpr ⟨?_, List.cons_eq_cons.mpr ⟨?_, List.cons_eq_cons.mpr ⟨?_, List.cons_eq_cons.mpr ⟨?_, rfl⟩⟩⟩⟩ <;>
    (apply Pt.ext' <;> ring)

/-! ### orientations -/

/-- `make_valid_orientation(θ + a)` is `θ + a` as an angle (differs by a multiple of `τ`) and lies in `[-τ, τ]`. -/
theorem C05_angle_wrap (m : Mo) (hτ : 0 < m.τ) (θ : Rat) :
    ∃ k : Int, m.wr θ = θ + m.a + k * m.τ ∧ -m.τ ≤ m.wr θ ∧ m.wr θ ≤ m.τ := by
  obtain ⟨k, e, h1, h2⟩ := makeValid_spec m.τ hτ (θ + m.a)
  exact ⟨k, e, h1, h2⟩

/-- turning back by `-a` restores the orientation as an angle. -/
theorem C05_angle_inverse (τ a θ : Rat) (hτ : 0 < τ) :
    ∃ k : Int, makeValid τ (makeValid τ (θ + a) + -a) = θ + k * τ := by
  obtain ⟨k1, e1, _, _⟩ := makeValid_spec τ hτ (θ + a)
  obtain ⟨k2, e2, _, _⟩ := makeValid_spec τ hτ (makeValid τ (θ + a) + -a)
  exact ⟨k1 + k2, by rw [e2, e1]; push_cast; ring⟩

/-- shifting a constructed orientation interval never raises; both ends move by `a` plus the same multiple of `τ`:
    the length is unchanged and the ends stay in `[-τ, τ]`. -/
theorem C05_interval_shift (m : Mo) (h : Adm m) (i : I) (h1 : i.lo ≤ i.hi) (h2 : i.hi - i.lo < m.τ) :
    ∃ i', addAngle m.τ i m.a = .ok i' ∧ IvMoved m i i' ∧ length i' = length i := by
  obtain ⟨i', e, hm, _⟩ := addAngle_spec h i h1 h2
  refine ⟨i', e, hm, ?_⟩
  obtain ⟨k, e1, e2, _, _⟩ := hm
  simp only [length, e1, e2]; ring

/-! ### all components moved, none forgotten, never fails -/

/-- every shape kind (rectangle, circle, polygon, arbitrarily nested group): the call succeeds and EVERY stored point is
    moved, every orientation turned, every dimension (length, width, radius) unchanged. -/
theorem C05_all_moved_shape (m : Mo) (h : Adm m) (sh : Shape) (hw : sh.WF) :
    ∃ sh', sh.move m = .ok sh' ∧ Moved m sh.obs sh'.obs ∧ sh'.WF := Shape.move_spec h sh hw

/-- every state (position array or region, orientation scalar or interval, point-mass velocity vector). -/
theorem C05_all_moved_state (m : Mo) (h : Adm m) (st : State) (hw : st.WF m.τ) :
    ∃ st', st.move m = .ok st' ∧ Moved m st.obs st'.obs ∧ st'.WF m.τ := State.move_spec h st hw

/-- a lanelet: left / center / right polyline of any length, the stop line, the polygon. -/
theorem C05_all_moved_lanelet (m : Mo) (h : Adm m) (la : Lanelet) (hw : la.WF) :
    ∃ la', la.move m = .ok la' ∧ Moved m la.obs la'.obs ∧ la'.WF := Lanelet.move_spec h la hw

/-- every obstacle role: static, dynamic (trajectory prediction of any length / set-based prediction / none),
    phantom, environment. -/
theorem C05_all_moved_obstacle (m : Mo) (h : Adm m) (o : Obstacle) (hw : o.WF m.τ) :
    ∃ o', o.move m = .ok o' ∧ Moved m o.obs o'.obs := Obstacle.move_spec h o hw

/-- THE property on the model: for a scenario containing ANY mix and number of lanelets (with stop lines), traffic signs,
    traffic lights and obstacles of all four roles, `translate_rotate` with an admissible angle never fails, and the list
    of all stored points of the result is `tr` mapped over the list of all stored points of the input (none forgotten),
    all orientations are turned by `a`, all orientation intervals shifted, all dimensions unchanged. -/
theorem C05_all_moved_scenario (m : Mo) (h : Adm m) (sc : Scenario) (hw : sc.WF m.τ) :
    ∃ sc', sc.move m = .ok sc' ∧ Moved m sc.obs sc'.obs := Scenario.move_spec h sc hw

/-- the same for a planning-problem set: initial states and all goal states (regions, orientation intervals). -/
theorem C05_all_moved_problems (m : Mo) (h : Adm m) (l : List Problem) (hw : ∀ pp ∈ l, pp.WF m.τ) :
    ∃ l', moveProblems m l = .ok l' ∧ Moved m (obsL Problem.obs l) (obsL Problem.obs l') :=
  moveProblems_spec h l hw

/-- Consequently (c² + s² = 1): the relative configuration of ALL objects of the scenario is preserved — the distance between
    any two stored points (of the same or of different components) is the same before and after. -/
theorem C05_scenario_isometry (m : Mo) (h : Adm m) (h1 : m.c ^ 2 + m.s ^ 2 = 1) (sc : Scenario) (hw : sc.WF m.τ) :
    ∃ sc', sc.move m = .ok sc' ∧ sc'.obs.pts = sc.obs.pts.map m.mv
      ∧ ∀ i j : Nat, ∀ p q p' q' : Pt, sc.obs.pts[i]? = some p → sc.obs.pts[j]? = some q →
          sc'.obs.pts[i]? = some p' → sc'.obs.pts[j]? = some q' → dist2 p' q' = dist2 p q := by
  obtain ⟨sc', e, hm⟩ := Scenario.move_spec h sc hw
  refine ⟨sc', e, hm.pts, ?_⟩
  intro i j p q p' q' hp hq hp' hq'
  rw [hm.pts, List.getElem?_map, hp] at hp'
  rw [hm.pts, List.getElem?_map, hq] at hq'
  simp only [Option.map_some, Option.some.injEq] at hp' hq'
  rw [← hp', ← hq']
  exact C05_isometry m.c m.s h1 m.t p q

/-- an angle outside `[-2π, 2π]` is rejected by the assertion at the head of `Scenario.translate_rotate`. -/
theorem C05_guard_rejects (m : Mo) (h : validOrientation m.τ m.a = false) (sc : Scenario) :
    sc.move m = .error .assert := by simp [Scenario.move, guard, h]

/-! ### non-vacuity -/

/-- the 3-4-5 rotation with `τ = 7 > 2·3`, `a = 1`, translation `(2, -1)`. -/
def exMo : Mo := ⟨3 / 5, 4 / 5, 1, ⟨2, -1⟩, 7⟩

example : Adm exMo := ⟨by norm_num [exMo], by decide +kernel, by norm_num [exMo]⟩
example : exMo.c ^ 2 + exMo.s ^ 2 = 1 := by norm_num [exMo]

/-- a clockwise closed triangle is in the constructor's normal form. -/
def exTri : List Pt := [⟨0, 0⟩, ⟨0, 1⟩, ⟨1, 0⟩, ⟨0, 0⟩]
example : polyMk exTri = .ok exTri := by decide +kernel
example : polyMk [⟨0, 0⟩, ⟨1, 0⟩, ⟨0, 1⟩] = .ok exTri := by decide +kernel     -- counter-clockwise, open: reversed and closed
example : ClosedRing exTri := by show lastOf _ _ = _; decide +kernel
example : chain2 exTri = -1 := by decide +kernel

def exLanelet : Lanelet :=
  ⟨[⟨0, 1⟩, ⟨4, 1⟩], [⟨0, 0⟩, ⟨4, 0⟩], [⟨0, -1⟩, ⟨4, -1⟩], some (⟨4, -1⟩, ⟨4, 1⟩),
   [⟨0, -1⟩, ⟨0, 1⟩, ⟨4, 1⟩, ⟨4, -1⟩, ⟨0, -1⟩]⟩
example : exLanelet.WF := by show polyMk _ = _; decide +kernel

def exScenario : Scenario :=
  ⟨[exLanelet], [⟨1, 2⟩], [⟨3, 2⟩],
   [.static ⟨.pt ⟨1, 0⟩, .exact 6, none⟩,
    .dynamic ⟨.region (.rect 2 1 ⟨1, 0⟩ (-6)), .iv ⟨5, 6⟩, none⟩ (.traj [⟨.pt ⟨2, 0⟩, .none, some ⟨3, 4⟩⟩]),
    .dynamic ⟨.pt ⟨0, 0⟩, .exact 0, none⟩ (.occ [.group [.circ 1 ⟨0, 0⟩, .poly exTri]]),
    .phantom (some [.circ 2 ⟨5, 5⟩]), .phantom none, .env (.poly exTri)]⟩

example : exScenario.WF exMo.τ := by
  refine ⟨?_, ?_⟩
  · intro la hla
    simp only [exScenario, List.mem_singleton] at hla
    subst hla; show polyMk _ = _; decide +kernel
  · intro o ho
    simp only [exScenario, List.mem_cons, List.not_mem_nil, or_false] at ho
    rcases ho with rfl | rfl | rfl | rfl | rfl | rfl
    · exact ⟨trivial, trivial⟩
    · refine ⟨⟨trivial, by norm_num [exMo], by norm_num [exMo]⟩, ?_⟩
      intro st hst
      simp only [List.mem_singleton] at hst
      subst hst; exact ⟨trivial, trivial⟩
    · refine ⟨⟨trivial, trivial⟩, ?_⟩
      intro sh hsh
      simp only [List.mem_singleton] at hsh
      subst hsh
      exact ⟨trivial, (by decide +kernel : polyMk exTri = .ok exTri), trivial⟩
    · intro sh hsh
      simp only [List.mem_singleton] at hsh
      subst hsh; trivial
    · trivial
    · exact (by decide +kernel : polyMk exTri = .ok exTri)

/-- the orientation 6 + 1 = 7 is not above τ = 7 and stays; -6 + 1 stays; the interval [5, 6] + 1 = [6, 7] stays;
    with a = 2 the orientation 6 wraps to 1. -/
example : exMo.wr 6 = 7 := by decide +kernel
example : makeValid 7 (6 + 2) = 1 := by decide +kernel
example : addAngle 7 ⟨5, 6⟩ 3 = .ok ⟨1, 2⟩ := by decide +kernel
example : tr (3 / 5) (4 / 5) ⟨2, -1⟩ ⟨3, 1⟩ = ⟨3, 4⟩ := by decide +kernel
example : csBeforeFix (3 / 100) 1 0 = (1, 3 / 100) := by decide +kernel

end CR.Rigid
