/-
  C05 — translate_rotate is the exact rigid motion on every object.
  Model: CRModel/Rigid.lean (mirror of the `translate_rotate` methods of commonroad-io, see the header there).
  All statements are over `Rat` (every float is a rational).  A motion `m : Mo` carries the matrix entries `(c, s)` — the code
  passes `(math.cos a, math.sin a)` — the angle `a` that is added to orientations, the translation `t` and `τ = TWO_PI`.
  * Statements about points need `c² + s² = 1` (isometry) or `0 < c² + s²` (non-singular).
  * `(c, s)` and `a` are tied together by `Coherent m dir` (CRProofs/Rigid.lean): `dir` stands for `θ ↦ (cos θ, sin θ)`, and
    coherence says `dir (θ + a) = rot c s (dir θ)` (angle-sum formulas) and `dir` has period `τ`.  Under it the headings of
    the stored orientations turn by the SAME rotation as the points (`C05_scenario_headings`).
  * "all moved" is relative to the fields of the model records.  The records list every world-frame attribute of the Python
    classes; harness/c05.py holds the attribute table (ATTR_TABLE) with one decision per attribute and its reflection pass
    stops the run when a class has a spatial attribute the table does not list.  Area borders and the history of dynamic
    obstacles (left in place by earlier trees; repaired by 00d3698 / 6df6dd6) are part of `obs` like every other world-frame
    field: `C05_all_moved_scenario_full` / `C05_all_moved_obstacle_full` are theorems.
-/
import CRProofs.Rigid
import Mathlib.Algebra.Order.Floor.Ring
namespace CR.Rigid
open CR.Iv

/-! ### the motion of one point: distances, order of translation and rotation, sense of rotation -/

/-- squared distances scale by `c² + s²`. -/
theorem C05_dist_sq (c s : Rat) (t p q : Pt) :
    dist2 (tr c s t p) (tr c s t q) = (c ^ 2 + s ^ 2) * dist2 p q := dist2_tr c s t p q

/-- for the cosine and sine of an angle the motion is an isometry: all pairwise distances are preserved. -/
theorem C05_isometry (c s : Rat) (h : c ^ 2 + s ^ 2 = 1) (t p q : Pt) :
    dist2 (tr c s t p) (tr c s t q) = dist2 p q := by rw [dist2_tr, h, one_mul]

/-- Translate FIRST, then rotate about the origin — for all parameters: `tr` is the rotation applied to `p + t`; equivalently
    the rotated point plus the ROTATED translation (not `rot p + t`, which is rotate-then-translate); the point `-t` goes to
    the origin; with `(c, s) = (1, 0)` the motion is the pure translation. -/
theorem C05_translate_then_rotate (c s : Rat) (t p : Pt) :
    tr c s t p = rot c s ⟨p.x + t.x, p.y + t.y⟩
    ∧ tr c s t p = ⟨(rot c s p).x + (rot c s t).x, (rot c s p).y + (rot c s t).y⟩
    ∧ tr c s t ⟨-t.x, -t.y⟩ = ⟨0, 0⟩
    ∧ tr 1 0 t p = ⟨p.x + t.x, p.y + t.y⟩ := by
  refine ⟨rfl, ?_, ?_, ?_⟩ <;> (apply Pt.ext' <;> simp only [tr, rot] <;> ring)

/-- rotate-then-translate is a different map: the two agree on a point iff the translation is a fixed point of the
    rotation (so a code path that swaps the order is told apart by every `t` with `rot c s t ≠ t`). -/
theorem C05_order_matters (c s : Rat) (t p : Pt) :
    tr c s t p = ⟨(rot c s p).x + t.x, (rot c s p).y + t.y⟩ ↔ rot c s t = t := by
  constructor
  · intro h
    simp only [tr, rot, Pt.mk.injEq] at h
    apply Pt.ext' <;> simp only [rot] <;> linarith [h.1, h.2]
  · intro h
    have hx : (rot c s t).x = t.x := by rw [h]
    have hy : (rot c s t).y = t.y := by rw [h]
    simp only [rot] at hx hy
    apply Pt.ext' <;> simp only [tr, rot] <;> linarith

/-- the same for the model `rt` of `transform.rotate_translate` (tied to the source in T05): `translate_rotate` and
    `rotate_translate` agree on a point iff the translation is fixed by the rotation. -/
theorem C05_tr_vs_rt (c s : Rat) (t p : Pt) : tr c s t p = rt c s t p ↔ rot c s t = t :=
  C05_order_matters c s t p

/-- Sense of rotation — counter-clockwise, for all `(c, s)`: the unit vector `e₁` goes to `(c, s)` and `e₂` to `(-s, c)`;
    these are the values the harness reads back from every public `translate_rotate` (probe cases). -/
theorem C05_rotation_sense (c s : Rat) :
    tr c s ⟨0, 0⟩ ⟨1, 0⟩ = ⟨c, s⟩ ∧ tr c s ⟨0, 0⟩ ⟨0, 1⟩ = ⟨-s, c⟩ ∧ rot c s ⟨1, 0⟩ = ⟨c, s⟩ := by
  refine ⟨?_, ?_, ?_⟩ <;> (apply Pt.ext' <;> simp [tr, rot])

/-- A pair `(1, a)` in place of `(cos a, sin a)` is NOT a rigid motion for any `a ≠ 0`: every distance between distinct
    points is scaled by `√(1 + a²)`, whatever the translation.  The pinned tree used this pair for `|a| ≤ 0.05`
    (transform.py, small-angle branch; repaired by `fix: translation_rotation_matrix uses the exact cosine and sine for
    small angles`); corpus/C05/small_angle_lanelet.json replays it on the real code. -/
theorem C05_witness_small_angle_pair_not_rigid (a : Rat) (ha : a ≠ 0) (t p q : Pt) (hpq : p ≠ q) :
    dist2 (tr 1 a t p) (tr 1 a t q) = (1 + a ^ 2) * dist2 p q
      ∧ dist2 (tr 1 a t p) (tr 1 a t q) ≠ dist2 p q := by
  have e : dist2 (tr 1 a t p) (tr 1 a t q) = (1 + a ^ 2) * dist2 p q := by rw [dist2_tr]; ring
  refine ⟨e, ?_⟩
  rw [e]
  have hd := dist2_pos hpq
  have ha2 : 0 < a ^ 2 := by positivity
  nlinarith

/-- undoing the motion restores the point: rotate back by `-a` (cos = c, sin = -s) with zero translation, then translate
    by `-t` with zero angle (cos = 1, sin = 0).  (On composites: `C05_scenario_inverse`.) -/
theorem C05_inverse (c s : Rat) (h : c ^ 2 + s ^ 2 = 1) (t p : Pt) :
    tr 1 0 ⟨-t.x, -t.y⟩ (tr c (-s) ⟨0, 0⟩ (tr c s t p)) = p := by
  apply Pt.ext'
  · simp only [tr]; linear_combination (p.x + t.x) * h
  · simp only [tr]; linear_combination (p.y + t.y) * h

/-- two motions compose to one motion: angle addition for `(c, s)`, translation `t₁ + R₁ᵀ t₂`. -/
theorem C05_compose (c₁ s₁ c₂ s₂ : Rat) (h : c₁ ^ 2 + s₁ ^ 2 = 1) (t₁ t₂ p : Pt) :
    tr c₂ s₂ t₂ (tr c₁ s₁ t₁ p)
      = tr (c₁ * c₂ - s₁ * s₂) (s₁ * c₂ + c₁ * s₂)
           ⟨t₁.x + (c₁ * t₂.x + s₁ * t₂.y), t₁.y + (-s₁ * t₂.x + c₁ * t₂.y)⟩ p := by
  apply Pt.ext'
  · simp only [tr]; linear_combination (-(c₂ * t₂.x) + s₂ * t₂.y) * h
  · simp only [tr]; linear_combination (-(s₂ * t₂.x) - c₂ * t₂.y) * h

/-- The velocity vector of a point-mass state is rotated by the same matrix as the points: its length is kept, and if it
    points in direction `φ` (`v = r · dir φ`) it points in direction `φ + a` afterwards (`r · dir (φ + a)`) — so the derived
    orientation of a PMState turns by `a` as an angle (the harness compares `atan2` of the real velocities). -/
theorem C05_pm_velocity (m : Mo) (dir : Rat → Pt) (hc : Coherent m dir) (r φ : Rat) :
    m.rv ⟨r * (dir φ).x, r * (dir φ).y⟩ = ⟨r * (dir (φ + m.a)).x, r * (dir (φ + m.a)).y⟩
    ∧ (m.c ^ 2 + m.s ^ 2 = 1 → ∀ v : Pt, (m.rv v).x ^ 2 + (m.rv v).y ^ 2 = v.x ^ 2 + v.y ^ 2) := by
  constructor
  · rw [hc.add]
    apply Pt.ext' <;> simp only [Mo.rv, rot] <;> ring
  · intro h v
    simp only [Mo.rv, rot]; linear_combination (v.x ^ 2 + v.y ^ 2) * h

/-! ### polygons, rectangles -/

/-- shoelace area of a closed ring of ANY length scales by `c² + s²` (induction over the vertex list). -/
theorem C05_shoelace (c s : Rat) (t : Pt) (l : List Pt) (hl : ClosedRing l) :
    chain2 (l.map (tr c s t)) = (c ^ 2 + s ^ 2) * chain2 l := chain2_map_closed c s t l hl

/-- the area functional used on composites (`areaOf`, fan from the first vertex) is the shoelace sum on closed rings, and
    it is preserved for every vertex list, closed or not. -/
theorem C05_area_functional (c s : Rat) (h : c ^ 2 + s ^ 2 = 1) (t : Pt) (l : List Pt) :
    areaOf (l.map (tr c s t)) = areaOf l ∧ (ClosedRing l → areaOf l = chain2 l) :=
  ⟨by rw [areaOf_map, h, one_mul], areaOf_eq_chain2 l⟩

/-- `Polygon.__init__` (close the ring, orient clockwise) commutes with the motion: the polygon constructed from the moved
    vertices stores exactly the moved vertices of the original polygon — for every vertex list, including the error case. -/
theorem C05_polygon_ctor_commutes (c s : Rat) (t : Pt) (hk : 0 < c ^ 2 + s ^ 2) (l : List Pt) :
    polyMk (l.map (tr c s t)) = (polyMk l).map (List.map (tr c s t)) := polyMk_map c s t hk l

/-- what `Polygon.__init__` stores is in normal form (constructing again changes nothing): the well-formedness hypothesis
    `Shape.WF` / `Lanelet.WF` of the composite theorems holds for every polygon that came out of the constructor. -/
theorem C05_polygon_normal_form (vs r : List Pt) (h : polyMk vs = .ok r) : polyMk r = .ok r := polyMk_idem vs r h

/-- the corner points of the rectangle with moved centre and heading `rot c s (cθ, sθ)` are the moved corner points:
    length and width are untouched, the rectangle is moved as a rigid body.  (With `Coherent`, `rot c s (dir θ)` IS the
    heading of the stored orientation `make_valid_orientation(θ + a)`: `C05_scenario_headings`.) -/
theorem C05_rect_corners (c s : Rat) (t ctr : Pt) (l w cθ sθ : Rat) :
    rectCorners l w (tr c s t ctr) (rot c s ⟨cθ, sθ⟩).x (rot c s ⟨cθ, sθ⟩).y
      = (rectCorners l w ctr cθ sθ).map (tr c s t) := rectCorners_tr c s t ctr l w cθ sθ

/-- Occupancy of a polygon-shaped obstacle (`occupancy_shape_from_state` → `Polygon.rotate_translate_local`: rotate the body
    polygon about its centroid `o` by the state's heading, translate to the state's position).  Moving the state (position by
    `tr`, heading by the rotation `(c, s)`) and placing again gives the rigid image of the old occupancy vertex plus the offset
    `R o - o`: it IS the rigid image exactly when the centroid is a fixed point of the rotation — for every angle: when the
    centroid is the local origin (the convention for obstacle shapes).  A placement that rotates about any other point `b` of
    the body (e.g. the bounding-box centre) is off by `R b - b` for every non-trivial rotation. -/
theorem C05_occupancy_placement (c s : Rat) (t o pos v : Pt) (cθ sθ : Rat) :
    tr c s t (placeAbout cθ sθ o pos v)
      = ⟨(placeAbout (rot c s ⟨cθ, sθ⟩).x (rot c s ⟨cθ, sθ⟩).y o (tr c s t pos) v).x + ((rot c s o).x - o.x),
         (placeAbout (rot c s ⟨cθ, sθ⟩).x (rot c s ⟨cθ, sθ⟩).y o (tr c s t pos) v).y + ((rot c s o).y - o.y)⟩
    ∧ tr c s t (placeAbout cθ sθ ⟨0, 0⟩ pos v)
        = placeAbout (rot c s ⟨cθ, sθ⟩).x (rot c s ⟨cθ, sθ⟩).y ⟨0, 0⟩ (tr c s t pos) v := by
  constructor <;> (apply Pt.ext' <;> simp only [tr, rot, placeAbout] <;> ring)

/-- the whole occupancy polygon (any number of vertices, constructor included): for a body polygon with its centroid at the
    local origin the occupancy at the moved state is the moved occupancy. -/
theorem C05_occupancy_polygon_moved (c s : Rat) (hk : 0 < c ^ 2 + s ^ 2) (t pos : Pt) (cθ sθ : Rat) (ring : List Pt) :
    placePolygon (rot c s ⟨cθ, sθ⟩).x (rot c s ⟨cθ, sθ⟩).y ⟨0, 0⟩ (tr c s t pos) ring
      = (placePolygon cθ sθ ⟨0, 0⟩ pos ring).map (List.map (tr c s t)) := by
  unfold placePolygon
  rw [← polyMk_map c s t hk, List.map_map]
  congr 1
  apply List.map_congr_left
  intro v _
  exact ((C05_occupancy_placement c s t ⟨0, 0⟩ pos v cθ sθ).2).symm

/-! ### orientations -/

/-- `make_valid_orientation(θ + a)` for a valid orientation `θ` and a valid angle `a`, computed exactly: it IS `θ + a` when
    that lies in `[-τ, τ]`, `θ + a - τ` when it is above, `θ + a + τ` when it is below: the multiple `k` of `τ` is
    0, -1 or +1 and is determined. -/
theorem C05_angle_wrap_exact (m : Mo) (hτ : 0 < m.τ) (θ : Rat) (hθ : -m.τ ≤ θ ∧ θ ≤ m.τ) (ha : -m.τ ≤ m.a ∧ m.a ≤ m.τ) :
    m.wr θ = if m.τ < θ + m.a then θ + m.a - m.τ else if θ + m.a < -m.τ then θ + m.a + m.τ else θ + m.a :=
  makeValid_exact m.τ hτ (θ + m.a) (by linarith [hθ.1, ha.1]) (by linarith [hθ.2, ha.2])

/-- in particular no wrap happens when `θ + a` is already a valid orientation. -/
theorem C05_angle_no_wrap (m : Mo) (hτ : 0 < m.τ) (θ : Rat) (h1 : -m.τ ≤ θ + m.a) (h2 : θ + m.a ≤ m.τ) :
    m.wr θ = θ + m.a := by
  have := makeValid_exact m.τ hτ (θ + m.a) (by linarith) (by linarith)
  rw [show m.wr θ = makeValid m.τ (θ + m.a) from rfl, this]
  have n1 : ¬ m.τ < θ + m.a := by linarith
  have n2 : ¬ θ + m.a < -m.τ := by linarith
  simp [n1, n2]

/-- for EVERY `θ` (also outside `[-τ, τ]`): the result is `θ + a` as an angle and a valid orientation. -/
theorem C05_angle_wrap (m : Mo) (hτ : 0 < m.τ) (θ : Rat) :
    ∃ k : Int, m.wr θ = θ + m.a + k * m.τ ∧ -m.τ ≤ m.wr θ ∧ m.wr θ ≤ m.τ := by
  obtain ⟨k, e, h1, h2⟩ := makeValid_spec m.τ hτ (θ + m.a)
  exact ⟨k, e, h1, h2⟩

/-- shifting a constructed orientation interval never raises; both ends move by `a` plus the same multiple of `τ`:
    the length is unchanged and the ends stay in `[-τ, τ]`. -/
theorem C05_interval_shift (m : Mo) (h : Adm m) (i : I) (h1 : i.lo ≤ i.hi) (h2 : i.hi - i.lo < m.τ) :
    ∃ i', addAngle m.τ i m.a = .ok i' ∧ IvMoved m i i' ∧ length i' = length i := by
  obtain ⟨i', e, hm, _⟩ := addAngle_spec h i h1 h2
  refine ⟨i', e, hm, ?_⟩
  obtain ⟨k, e1, e2, _, _⟩ := hm
  simp only [length, e1, e2]; ring

/-- the multiple of `τ` is determined for a constructed interval (ends valid orientations) and a valid angle: 0 when
    `[lo + a, hi + a]` is inside `[-τ, τ]`, -1 when `hi + a > τ`, +1 when `lo + a < -τ`. -/
theorem C05_interval_shift_exact (τ a : Rat) (hτ : 0 < τ) (i : I) (h1 : i.lo ≤ i.hi) (h2 : i.hi - i.lo < τ)
    (hlo : -τ ≤ i.lo) (hhi : i.hi ≤ τ) (ha1 : -τ ≤ a) (ha2 : a ≤ τ) :
    addAngle τ i a = .ok (if τ < i.hi + a then ⟨i.lo + a - τ, i.hi + a - τ⟩
                          else if i.lo + a < -τ then ⟨i.lo + a + τ, i.hi + a + τ⟩ else ⟨i.lo + a, i.hi + a⟩) :=
  addAngle_exact τ a hτ i h1 h2 hlo hhi ha1 ha2

/-! ### every component kind: the call succeeds and the listed content is moved -/

/-- every shape kind (rectangle, circle, polygon, arbitrarily nested group): the call succeeds and every stored point is
    moved, every orientation turned, every dimension (length, width, radius) unchanged, polygons vertex by vertex. -/
theorem C05_all_moved_shape (m : Mo) (h : Adm m) (sh : Shape) (hw : sh.WF) :
    ∃ sh', sh.move m = .ok sh' ∧ Moved m sh.obs sh'.obs ∧ sh'.WF := Shape.move_spec h sh hw

/-- every admissible state (position array or region, orientation scalar or interval, point-mass velocity vector). -/
theorem C05_all_moved_state (m : Mo) (h : Adm m) (st : State) (hw : st.WF m.τ) :
    ∃ st', st.move m = .ok st' ∧ Moved m st.obs st'.obs ∧ st'.WF m.τ := State.move_spec h st hw

/-- the `TypeError` branches of `State.translate_rotate` (state.py:272-276, 284-288): a position that is neither an array
    nor a shape, or an orientation that is neither a number nor an `AngleInterval`, is rejected — these are exactly the states
    excluded by `State.WF`, i.e. "never fails" is a statement about admissible states and the failure outside is modelled. -/
theorem C05_inadmissible_state_rejected (m : Mo) (h : Adm m) (st : State) :
    (st.pos = .other → st.move m = .error .type)
    ∧ (st.pos.WF → st.ori = .other → st.move m = .error .type) := by
  constructor
  · intro hp
    simp [State.move, guard_ok h, hp, Pos.move]
  · intro hw ho
    obtain ⟨p', e, _, _⟩ := Pos.move_spec h st.pos hw
    simp [State.move, guard_ok h, e, ho, Ori.move]

/-- a lanelet: left / center / right polyline of any length, the stop line, the polygon. -/
theorem C05_all_moved_lanelet (m : Mo) (h : Adm m) (la : Lanelet) (hw : la.WF) :
    ∃ la', la.move m = .ok la' ∧ Moved m la.obs la'.obs ∧ la'.WF := Lanelet.move_spec h la hw

/-- every obstacle role — static, dynamic (trajectory prediction of any length / set-based prediction / none, history of
    any length), phantom, environment: initial state, predicted states, HISTORY states, occupancies and the environment shape
    are moved; the body-frame shapes (`obstacle_shape`, `TrajectoryPrediction.shape`) stay. -/
theorem C05_all_moved_obstacle_full (m : Mo) (h : Adm m) (o : Obstacle) (hw : o.WF m.τ) :
    ∃ o', o.move m = .ok o' ∧ Moved m o.obs o'.obs ∧ o'.WF m.τ ∧ o'.bodies = o.bodies :=
  Obstacle.move_spec h o hw

/-- a traffic light: the position is moved, the optional `shape` (body frame) stays.
    (definitional: documents the model; tied to the code by the correspondence.) -/
theorem C05_light (m : Mo) (h : Adm m) (l : Light) :
    ∃ l', l.move m = .ok l' ∧ l'.pos = m.mv l.pos ∧ l'.shape = l.shape :=
  ⟨⟨m.mv l.pos, l.shape⟩, by simp [Light.move, movePosition, guard_ok h], rfl, rfl⟩

/-! ### the scenario -/

/-- FULL statement ("every stored point"): for a scenario containing ANY mix and number of lanelets (with stop lines), traffic
    signs, traffic lights, obstacles of all four roles (with histories) and areas, `translate_rotate` with an admissible angle
    never fails, and for ALL world-frame fields of the model record the list of stored points of the result is `tr` mapped over
    the list of stored points of the input (nothing skipped or added), all orientations are `make_valid_orientation(θ + a)`,
    all orientation intervals shifted, all dimensions unchanged, every polygon / polyline (incl. area borders) / rectangle moved
    as a whole.  The model record lists every world-frame attribute of the Python classes (harness ATTR_TABLE + reflection
    pass: checked per run, not a theorem). -/
theorem C05_all_moved_scenario_full (m : Mo) (h : Adm m) (sc : Scenario) (hw : sc.WF m.τ) :
    ∃ sc', sc.move m = .ok sc' ∧ Moved m sc.obs sc'.obs ∧ sc'.WF m.τ := Scenario.move_spec h sc hw

/-- in particular the field that earlier trees left in place at scenario level: every area border is moved vertex by vertex.
    Regression case: corpus/C05/area_regression.json. -/
theorem C05_areas_moved (m : Mo) (h : Adm m) (sc : Scenario) (hw : sc.WF m.τ) :
    ∃ sc', sc.move m = .ok sc' ∧ Moved m (areasObs sc.areas) (areasObs sc'.areas) := by
  obtain ⟨ls, e1, _⟩ := mapR_moved m (Lanelet.move m) Lanelet.obs Lanelet.WF
    (fun la hla => Lanelet.move_spec h la hla) sc.lanelets hw.1
  obtain ⟨lt, e3, _⟩ := mapR_moved m (Light.move m) Light.obs (fun _ => True)
    (fun l _ => let ⟨l', e, hm, _⟩ := Light.move_spec h l; ⟨l', e, hm, trivial⟩) sc.lights (fun _ _ => trivial)
  obtain ⟨obs, e4, _⟩ := mapR_moved m (Obstacle.move m) Obstacle.obs (Obstacle.WF m.τ)
    (fun o ho => let ⟨o', e, hm, hw', _⟩ := Obstacle.move_spec h o ho; ⟨o', e, hm, hw'⟩) sc.obstacles hw.2
  exact ⟨⟨ls, sc.signs.map m.mv, lt, obs, sc.areas.map (List.map (List.map m.mv))⟩,
         by simp [Scenario.move, guard_ok h, e1, mapR_movePosition h, e3, e4], areasObs_moved m _⟩

/-- and at obstacle level: every history state of a dynamic obstacle is moved (by `State.translate_rotate`, like the states of
    a trajectory).  Regression case: corpus/C05/history_regression.json. -/
theorem C05_history_moved (m : Mo) (h : Adm m) (b : Shape) (st : State) (p : Pred) (hist : List State)
    (hw : (Obstacle.dynamic b st p hist).WF m.τ) :
    ∃ st' p' hist', (Obstacle.dynamic b st p hist).move m = .ok (.dynamic b st' p' hist')
      ∧ moveStates m hist = .ok hist' ∧ Moved m (obsL State.obs hist) (obsL State.obs hist') := by
  obtain ⟨st', e1, _, _⟩ := State.move_spec h st hw.1
  obtain ⟨p', e2, _, _, _⟩ := Pred.move_spec h p hw.2.1
  obtain ⟨hist', e3, hm3, _⟩ := moveStates_spec h hist hw.2.2
  exact ⟨st', p', hist', by simp [Obstacle.move, guard_ok h, e1, e2, e3], e3, hm3⟩

/-- the 3-4-5 rotation with `τ = 7 > 2·3`, `a = 1`, translation `(2, -1)`. -/
def exMo : Mo := ⟨3 / 5, 4 / 5, 1, ⟨2, -1⟩, 7⟩

theorem exMo_adm : Adm exMo := ⟨by norm_num [exMo], by decide +kernel, by norm_num [exMo]⟩

/-- LEGACY (trees before 00d3698 / 6df6dd6 left area borders and histories where they were): leaving a stored point in place is
    not the motion — under `exMo` the point (1, 0) of the two regression cases is not a fixed point, so content that keeps it
    cannot be `Moved`. -/
theorem C05_witness_legacy_left_in_place_not_moved :
    exMo.mv ⟨1, 0⟩ ≠ ⟨1, 0⟩ ∧ ¬ Moved exMo (areasObs [[[⟨1, 0⟩]]]) (areasObs [[[⟨1, 0⟩]]]) := by
  have hne : exMo.mv ⟨1, 0⟩ ≠ ⟨1, 0⟩ := by decide +kernel
  refine ⟨hne, fun hm => ?_⟩
  have := hm.pts
  have e : (areasObs [[[(⟨1, 0⟩ : Pt)]]]).pts = [⟨1, 0⟩] := rfl
  rw [e] at this
  simp only [List.map_cons, List.map_nil, List.cons.injEq, and_true] at this
  exact hne this.symm

/-- a planning-problem set: initial states and all goal states (regions, orientation intervals) — the `Problem` record has no
    further spatial field. -/
theorem C05_all_moved_problems (m : Mo) (h : Adm m) (l : List Problem) (hw : ∀ pp ∈ l, pp.WF m.τ) :
    ∃ l', moveProblems m l = .ok l' ∧ Moved m (obsL Problem.obs l) (obsL Problem.obs l') ∧ (∀ pp ∈ l', pp.WF m.τ) :=
  moveProblems_spec h l hw

/-! ### consequences on composites (c² + s² = 1): distances, areas, lengths, headings, inverse -/

/-- On the scenario as a whole: the distance between ANY two listed points (of the same or of different components) is
    preserved; the area of EVERY polygon (lanelet polygons, polygon shapes of occupancies / regions / environment
    obstacles) is preserved; the squared length of EVERY segment of every polyline (left / center / right boundary of every
    lanelet, stop lines, area borders) is preserved — hence every lanelet length, being the sum of the roots of equal numbers. -/
theorem C05_scenario_preserved (m : Mo) (h : Adm m) (h1 : m.c ^ 2 + m.s ^ 2 = 1) (sc : Scenario) (hw : sc.WF m.τ) :
    ∃ sc', sc.move m = .ok sc'
      ∧ (∀ i j : Nat, ∀ p q p' q' : Pt, sc.obs.pts[i]? = some p → sc.obs.pts[j]? = some q →
          sc'.obs.pts[i]? = some p' → sc'.obs.pts[j]? = some q' → dist2 p' q' = dist2 p q)
      ∧ sc'.obs.rings.map areaOf = sc.obs.rings.map areaOf
      ∧ sc'.obs.lines.map segs2 = sc.obs.lines.map segs2
      ∧ sc'.obs.dims = sc.obs.dims := by
  obtain ⟨sc', e, hm, _⟩ := Scenario.move_spec h sc hw
  exact ⟨sc', e, hm.dists h1, hm.areas h1, hm.lengths h1, hm.dims⟩

/-- the same on one lanelet: polygon area, and the segment lengths of `[left, center, right, stop line]`. -/
theorem C05_lanelet_preserved (m : Mo) (h : Adm m) (h1 : m.c ^ 2 + m.s ^ 2 = 1) (la : Lanelet) (hw : la.WF) :
    ∃ la', la.move m = .ok la'
      ∧ areaOf la'.poly = areaOf la.poly
      ∧ [la'.left, la'.center, la'.right, stopLine la'.stop].map segs2
          = [la.left, la.center, la.right, stopLine la.stop].map segs2 := by
  obtain ⟨la', e, hm, _⟩ := Lanelet.move_spec h la hw
  refine ⟨la', e, ?_, hm.lengths h1⟩
  have := hm.areas h1
  simpa [Lanelet.obs] using this

/-- the same on one obstacle (any role): distances between its points, polygon areas, dimensions. -/
theorem C05_obstacle_preserved (m : Mo) (h : Adm m) (h1 : m.c ^ 2 + m.s ^ 2 = 1) (o : Obstacle) (hw : o.WF m.τ) :
    ∃ o', o.move m = .ok o'
      ∧ (∀ i j : Nat, ∀ p q p' q' : Pt, o.obs.pts[i]? = some p → o.obs.pts[j]? = some q →
          o'.obs.pts[i]? = some p' → o'.obs.pts[j]? = some q' → dist2 p' q' = dist2 p q)
      ∧ o'.obs.rings.map areaOf = o.obs.rings.map areaOf ∧ o'.obs.dims = o.obs.dims := by
  obtain ⟨o', e, hm, _⟩ := Obstacle.move_spec h o hw
  exact ⟨o', e, hm.dists h1, hm.areas h1, hm.dims⟩

/-- Points and headings turn by the SAME rotation.  Let `dir` be coherent with `m` (it stands for `θ ↦ (cos θ, sin θ)`, and
    coherence is `c = cos a`, `s = sin a` in the form of the angle-sum formulas).  Then in the moved scenario
    * the heading of every stored orientation is the old heading rotated by `(c, s)` — the matrix that moves the points,
    * both end headings of every orientation interval are rotated by `(c, s)`,
    * the corner points of every stored rectangle (computed from its NEW centre and NEW orientation) are the moved corners,
    * every point-mass velocity vector is rotated by `(c, s)`. -/
theorem C05_scenario_headings (m : Mo) (h : Adm m) (dir : Rat → Pt) (hc : Coherent m dir) (sc : Scenario)
    (hw : sc.WF m.τ) :
    ∃ sc', sc.move m = .ok sc'
      ∧ sc'.obs.angs.map dir = sc.obs.angs.map (fun θ => m.rv (dir θ))
      ∧ sc'.obs.ivs.map (fun i => (dir i.lo, dir i.hi)) = sc.obs.ivs.map (fun i => (m.rv (dir i.lo), m.rv (dir i.hi)))
      ∧ sc'.obs.rects.map (Rect.corners dir) = sc.obs.rects.map (fun r => (r.corners dir).map m.mv)
      ∧ sc'.obs.vels = sc.obs.vels.map m.rv := by
  obtain ⟨sc', e, hm, _⟩ := Scenario.move_spec h sc hw
  exact ⟨sc', e, hm.headings hc h.τpos, IvsMoved.headings hc hm.ivs, hm.corners hc h.τpos, hm.vels⟩

/-- the same for planning problems (initial states, goal regions with rectangles and orientation intervals). -/
theorem C05_problems_headings (m : Mo) (h : Adm m) (dir : Rat → Pt) (hc : Coherent m dir) (l : List Problem)
    (hw : ∀ pp ∈ l, pp.WF m.τ) :
    ∃ l', moveProblems m l = .ok l'
      ∧ (obsL Problem.obs l').angs.map dir = (obsL Problem.obs l).angs.map (fun θ => m.rv (dir θ))
      ∧ (obsL Problem.obs l').ivs.map (fun i => (dir i.lo, dir i.hi))
          = (obsL Problem.obs l).ivs.map (fun i => (m.rv (dir i.lo), m.rv (dir i.hi)))
      ∧ (obsL Problem.obs l').rects.map (Rect.corners dir)
          = (obsL Problem.obs l).rects.map (fun r => (r.corners dir).map m.mv) := by
  obtain ⟨l', e, hm, _⟩ := moveProblems_spec h l hw
  exact ⟨l', e, hm.headings hc h.τpos, IvsMoved.headings hc hm.ivs, hm.corners hc h.τpos⟩

/-- Undoing the motion on the whole scenario: `translate_rotate(0, -a)` followed by `translate_rotate(-t, 0)` (all three
    calls succeed) gives back every listed point, polygon, polyline, dimension and velocity vector EXACTLY, every orientation
    as an angle (`θ + k τ`), every orientation interval shifted by a multiple of `τ` (both ends alike). -/
theorem C05_scenario_inverse (m : Mo) (h : Adm m) (h1 : m.c ^ 2 + m.s ^ 2 = 1) (sc : Scenario) (hw : sc.WF m.τ) :
    ∃ sc1 sc2 sc3, sc.move m = .ok sc1 ∧ sc1.move m.invRot = .ok sc2 ∧ sc2.move m.invTr = .ok sc3
      ∧ Restored m.τ sc.obs sc3.obs := by
  obtain ⟨sc1, e1, hm1, hw1⟩ := Scenario.move_spec h sc hw
  obtain ⟨sc2, e2, hm2, hw2⟩ := Scenario.move_spec h.invRot sc1 hw1
  obtain ⟨sc3, e3, hm3, _⟩ := Scenario.move_spec h.invTr sc2 hw2
  exact ⟨sc1, sc2, sc3, e1, e2, e3, hm1.restored h1 h.τpos hm2 hm3⟩

/-- the same for a planning-problem set. -/
theorem C05_problems_inverse (m : Mo) (h : Adm m) (h1 : m.c ^ 2 + m.s ^ 2 = 1) (l : List Problem)
    (hw : ∀ pp ∈ l, pp.WF m.τ) :
    ∃ l1 l2 l3, moveProblems m l = .ok l1 ∧ moveProblems m.invRot l1 = .ok l2 ∧ moveProblems m.invTr l2 = .ok l3
      ∧ Restored m.τ (obsL Problem.obs l) (obsL Problem.obs l3) := by
  obtain ⟨l1, e1, hm1, hw1⟩ := moveProblems_spec h l hw
  obtain ⟨l2, e2, hm2, hw2⟩ := moveProblems_spec h.invRot l1 hw1
  obtain ⟨l3, e3, hm3, _⟩ := moveProblems_spec h.invTr l2 hw2
  exact ⟨l1, l2, l3, e1, e2, e3, hm1.restored h1 h.τpos hm2 hm3⟩

/-- an angle outside `[-2π, 2π]` is rejected by the assertion at the head of `Scenario.translate_rotate`. -/
theorem C05_guard_rejects (m : Mo) (h : validOrientation m.τ m.a = false) (sc : Scenario) :
    sc.move m = .error .assert := by simp [Scenario.move, guard, h]

/-! ### non-vacuity -/

example : exMo.c ^ 2 + exMo.s ^ 2 = 1 := by norm_num [exMo]

/-- a coherent direction map exists for a non-trivial motion: quarter turns (`a = 1`, `τ = 4`, `(c, s) = (0, 1)`),
    `dir θ` = the unit vector of the quarter `⌊θ⌋ mod 4`. -/
def qdir (n : Int) : Pt :=
  match n % 4 with
  | 0 => ⟨1, 0⟩
  | 1 => ⟨0, 1⟩
  | 2 => ⟨-1, 0⟩
  | _ => ⟨0, -1⟩

def exQuarter : Mo := ⟨0, 1, 1, ⟨2, -1⟩, 4⟩
def exDir (θ : Rat) : Pt := qdir ⌊θ⌋

theorem qdir_succ (n : Int) : qdir (n + 1) = rot 0 1 (qdir n) := by
  have h : n % 4 = 0 ∨ n % 4 = 1 ∨ n % 4 = 2 ∨ n % 4 = 3 := by omega
  rcases h with h | h | h | h
  · have h' : (n + 1) % 4 = 1 := by omega
    simp [qdir, h, h', rot]
  · have h' : (n + 1) % 4 = 2 := by omega
    simp [qdir, h, h', rot]
  · have h' : (n + 1) % 4 = 3 := by omega
    simp [qdir, h, h', rot]
  · have h' : (n + 1) % 4 = 0 := by omega
    simp [qdir, h, h', rot]

theorem qdir_period (n k : Int) : qdir (n + k * 4) = qdir n := by
  have : (n + k * 4) % 4 = n % 4 := by omega
  simp [qdir, this]

theorem exQuarter_coherent : Coherent exQuarter exDir := by
  constructor
  · intro θ
    show qdir ⌊θ + 1⌋ = rot 0 1 (qdir ⌊θ⌋)
    rw [Int.floor_add_one]; exact qdir_succ _
  · intro θ k
    show qdir ⌊θ + (k : Rat) * 4⌋ = qdir ⌊θ⌋
    have : (k : Rat) * 4 = ((k * 4 : Int) : Rat) := by push_cast; ring
    rw [this, Int.floor_add_intCast]; exact qdir_period _ _

example : Adm exQuarter := ⟨by norm_num [exQuarter], by decide +kernel, by norm_num [exQuarter]⟩
example : exDir 0 = ⟨1, 0⟩ ∧ exDir 1 = ⟨0, 1⟩ ∧ exDir (5 / 2) = ⟨-1, 0⟩ := by
  refine ⟨?_, ?_, ?_⟩ <;> simp [exDir, qdir] <;> norm_num

/-- a clockwise closed triangle is in the constructor's normal form. -/
def exTri : List Pt := [⟨0, 0⟩, ⟨0, 1⟩, ⟨1, 0⟩, ⟨0, 0⟩]
example : polyMk exTri = .ok exTri := by decide +kernel
example : polyMk [⟨0, 0⟩, ⟨1, 0⟩, ⟨0, 1⟩] = .ok exTri := by decide +kernel     -- counter-clockwise, open: reversed and closed
example : ClosedRing exTri := by show lastOf _ _ = _; decide +kernel
example : chain2 exTri = -1 ∧ areaOf exTri = -1 := by decide +kernel

def exLanelet : Lanelet :=
  ⟨[⟨0, 1⟩, ⟨4, 1⟩], [⟨0, 0⟩, ⟨4, 0⟩], [⟨0, -1⟩, ⟨4, -1⟩], some (⟨4, -1⟩, ⟨4, 1⟩),
   [⟨0, -1⟩, ⟨0, 1⟩, ⟨4, 1⟩, ⟨4, -1⟩, ⟨0, -1⟩]⟩
example : exLanelet.WF := by show polyMk _ = _; decide +kernel

def exBody : Shape := .rect 4 2 ⟨0, 0⟩ 0

def exScenario : Scenario :=
  ⟨[exLanelet], [⟨1, 2⟩], [⟨⟨3, 2⟩, some (.rect 1 3 ⟨0, 0⟩ 0)⟩, ⟨⟨3, 3⟩, none⟩],
   [.static exBody ⟨.pt ⟨1, 0⟩, .exact 6, none⟩,
    .dynamic exBody ⟨.region (.rect 2 1 ⟨1, 0⟩ (-6)), .iv ⟨5, 6⟩, none⟩
      (.traj exBody [⟨.pt ⟨2, 0⟩, .none, some ⟨3, 4⟩⟩]) [⟨.pt ⟨0, 0⟩, .exact 0, none⟩],
    .dynamic exBody ⟨.pt ⟨0, 0⟩, .exact 0, none⟩ (.occ [.group [.circ 1 ⟨0, 0⟩, .poly exTri]]) [],
    .phantom (some [.circ 2 ⟨5, 5⟩]), .phantom none, .env (.poly exTri)],
   [[[⟨0, 1⟩, ⟨4, 1⟩, ⟨4, 3⟩]]]⟩

example : exScenario.WF exMo.τ := by
  refine ⟨?_, ?_⟩
  · intro la hla
    simp only [exScenario, List.mem_singleton] at hla
    subst hla; show polyMk _ = _; decide +kernel
  · intro o ho
    simp only [exScenario, List.mem_cons, List.not_mem_nil, or_false] at ho
    rcases ho with rfl | rfl | rfl | rfl | rfl | rfl
    · exact ⟨trivial, trivial⟩
    · refine ⟨⟨trivial, by norm_num [exMo], by norm_num [exMo]⟩, ?_, ?_⟩
      · intro st hst
        simp only [List.mem_singleton] at hst
        subst hst; exact ⟨trivial, trivial⟩
      · intro st hst
        simp only [List.mem_singleton] at hst
        subst hst; exact ⟨trivial, trivial⟩
    · refine ⟨⟨trivial, trivial⟩, ?_, by simp⟩
      intro sh hsh
      simp only [List.mem_singleton] at hsh
      subst hsh
      exact ⟨trivial, (by decide +kernel : polyMk exTri = .ok exTri), trivial⟩
    · intro sh hsh
      simp only [List.mem_singleton] at hsh
      subst hsh; trivial
    · trivial
    · exact (by decide +kernel : polyMk exTri = .ok exTri)

/-- literal evaluations: the orientation 6 + 1 = 7 is not above τ = 7 and stays; with a = 2 the orientation 6 wraps to 1;
    the interval [5, 6] + 3 wraps to [1, 2]; a point under the 3-4-5 rotation; a tuple position is a TypeError. -/
example : exMo.wr 6 = 7 := by decide +kernel
example : makeValid 7 (6 + 2) = 1 := by decide +kernel
example : addAngle 7 ⟨5, 6⟩ 3 = .ok ⟨1, 2⟩ := by decide +kernel
example : tr (3 / 5) (4 / 5) ⟨2, -1⟩ ⟨3, 1⟩ = ⟨3, 4⟩ := by decide +kernel
-- a triangle body with centroid (0, 0) and bounding-box centre (1/2, 0), heading a quarter turn, placed at (5, 5)
example : placePolygon 0 1 ⟨0, 0⟩ ⟨5, 5⟩ [⟨2, 0⟩, ⟨-1, -3 / 2⟩, ⟨-1, 3 / 2⟩, ⟨2, 0⟩]
    = .ok [⟨5, 7⟩, ⟨13 / 2, 4⟩, ⟨7 / 2, 4⟩, ⟨5, 7⟩] := by decide +kernel
example : (State.move exMo ⟨.other, .none, none⟩).toOption.isNone = true := by
  simp [State.move, guard, exMo, Pos.move, Except.toOption]; decide +kernel

/-! ### a planning-problem set as objects: goal regions that are shared by, or equal among, several problems -/

/-- invariant of `ProblemSet.loop`: the goal-region objects in `done` hold the image of what they held at the start, all others
    still hold what they held at the start. -/
def LoopInv (m : Mo) (orig goals : List (List State)) (done : List Nat) : Prop :=
  goals.length = orig.length ∧
  ∀ r, r < orig.length →
    (r ∈ done → moveStates m (goalAt orig r) = .ok (goalAt goals r)) ∧ (r ∉ done → goalAt goals r = goalAt orig r)

theorem goalAt_set_self (goals : List (List State)) (r : Nat) (g : List State) (h : r < goals.length) :
    goalAt (goals.set r g) r = g := by
  simp [goalAt, List.getElem?_set_self h]

theorem goalAt_set_ne (goals : List (List State)) (r q : Nat) (g : List State) (h : r ≠ q) :
    goalAt (goals.set r g) q = goalAt goals q := by
  simp [goalAt, List.getElem?_set_ne h]

theorem LoopInv.step {m : Mo} {orig goals : List (List State)} {done : List Nat} (hinv : LoopInv m orig goals done)
    {r : Nat} (hr : r < orig.length) (hd : r ∉ done) {g' : List State} (hg : moveStates m (goalAt goals r) = .ok g') :
    LoopInv m orig (goals.set r g') (r :: done) := by
  refine ⟨by rw [List.length_set]; exact hinv.1, fun q hq => ⟨fun hin => ?_, fun hnin => ?_⟩⟩
  · by_cases e : r = q
    · subst e
      rw [goalAt_set_self _ _ _ (by rw [hinv.1]; exact hr), ← (hinv.2 r hr).2 hd]; exact hg
    · rw [goalAt_set_ne _ _ _ _ e]
      have : q ∈ done := by
        rcases List.mem_cons.mp hin with h | h
        · exact absurd h.symm e
        · exact h
      exact (hinv.2 q hq).1 this
  · have e : r ≠ q := fun e => hnin (by simp [e])
    rw [goalAt_set_ne _ _ _ _ e]
    exact (hinv.2 q hq).2 (fun h => hnin (List.mem_cons_of_mem _ h))

theorem ProblemSet.loop_spec (m : Mo) (orig : List (List State)) :
    ∀ (rest : List (State × Nat)) (goals : List (List State)) (done : List Nat),
      LoopInv m orig goals done → (∀ p ∈ rest, p.2 < orig.length) →
      match ProblemSet.loop m rest goals done with
      | .error e => moveProblems m (rest.map fun p => ⟨p.1, goalAt orig p.2⟩) = .error e
      | .ok (ps, g) => ∃ done', LoopInv m orig g done' ∧ (∀ r ∈ done, r ∈ done') ∧
          moveProblems m (rest.map fun p => ⟨p.1, goalAt orig p.2⟩) = .ok (ps.map fun p => ⟨p.1, goalAt g p.2⟩)
  | [], goals, done, hinv, _ => by
    simp only [ProblemSet.loop]
    exact ⟨done, hinv, fun _ h => h, rfl⟩
  | p :: rest, goals, done, hinv, hr => by
    have hp : p.2 < orig.length := hr p (by simp)
    have hrest : ∀ q ∈ rest, q.2 < orig.length := fun q hq => hr q (by simp [hq])
    simp only [ProblemSet.loop, List.map_cons, moveProblems, mapR, Problem.move]
    cases h1 : State.move m p.1 with
    | error e => simp
    | ok i' =>
      by_cases hd : p.2 ∈ done
      · have ih := ProblemSet.loop_spec m orig rest goals done hinv hrest
        have hg := (hinv.2 p.2 hp).1 hd
        simp only [hd, if_true, hg]
        cases h3 : ProblemSet.loop m rest goals done with
        | error e =>
          rw [h3] at ih
          simp only [moveProblems] at ih
          simp only [ih]
        | ok pg =>
          obtain ⟨ps, g⟩ := pg
          rw [h3] at ih
          obtain ⟨done', hinv', hsub, hmv⟩ := ih
          refine ⟨done', hinv', hsub, ?_⟩
          have hg' := (hinv'.2 p.2 hp).1 (hsub _ hd)
          rw [hg] at hg'
          simp only [moveProblems] at hmv
          simp only [hmv, List.map_cons]
          injection hg' with hg'
          rw [hg']
      · have ho := (hinv.2 p.2 hp).2 hd
        simp only [hd, if_false, ← ho]
        cases h2 : moveStates m (goalAt goals p.2) with
        | error e => simp
        | ok g' =>
          dsimp only
          have hinv2 := hinv.step hp hd h2
          have ih := ProblemSet.loop_spec m orig rest (goals.set p.2 g') (p.2 :: done) hinv2 hrest
          cases h3 : ProblemSet.loop m rest (goals.set p.2 g') (p.2 :: done) with
          | error e =>
            rw [h3] at ih
            simp only [moveProblems] at ih
            simp only [ih]
          | ok pg =>
            obtain ⟨ps, g⟩ := pg
            rw [h3] at ih
            obtain ⟨done', hinv', hsub, hmv⟩ := ih
            refine ⟨done', hinv', fun r hr' => hsub r (List.mem_cons_of_mem _ hr'), ?_⟩
            have hg' := (hinv'.2 p.2 hp).1 (hsub _ (by simp))
            rw [← ho, h2] at hg'
            simp only [moveProblems] at hmv
            simp only [hmv, List.map_cons]
            injection hg' with hg'
            rw [hg']

/-- **Objects and values agree.** For every planning-problem set - whichever problems share ONE goal-region object and
    whichever goal-region objects are equal by value - `PlanningProblemSet.translate_rotate` (the loop over objects) shows
    through the public accessors exactly what moving every problem's values once gives, error for error. With
    `C05_all_moved_problems`: every stored point of every problem is moved exactly once. -/
theorem C05_problem_set_objects (m : Mo) (ps : ProblemSet) (hr : ∀ p ∈ ps.problems, p.2 < ps.goals.length) :
    (match ps.move m with | .error e => .error e | .ok ps' => .ok ps'.view) = moveProblems m ps.view := by
  have h := ProblemSet.loop_spec m ps.goals ps.problems ps.goals []
    ⟨rfl, fun r _ => ⟨fun h => absurd h (by simp), fun _ => rfl⟩⟩ hr
  simp only [ProblemSet.move, ProblemSet.view]
  cases h3 : ProblemSet.loop m ps.problems ps.goals [] with
  | error e => rw [h3] at h; simp only [h]
  | ok pg =>
    obtain ⟨p, g⟩ := pg
    rw [h3] at h
    obtain ⟨_, _, _, hmv⟩ := h
    simp only [hmv]

/-- … hence for an admissible motion and well-formed states the call on the objects never fails and everything the problems
    show is moved, shared and twin goal regions included. -/
theorem C05_all_moved_problem_set (m : Mo) (h : Adm m) (ps : ProblemSet) (hr : ∀ p ∈ ps.problems, p.2 < ps.goals.length)
    (hw : ∀ pp ∈ ps.view, pp.WF m.τ) :
    ∃ ps', ps.move m = .ok ps' ∧ Moved m (obsL Problem.obs ps.view) (obsL Problem.obs ps'.view) := by
  obtain ⟨l', e, hm, _⟩ := C05_all_moved_problems m h ps.view hw
  have ho := C05_problem_set_objects m ps hr
  rw [e] at ho
  cases h3 : ps.move m with
  | error e' => rw [h3] at ho; simp at ho
  | ok ps' =>
    rw [h3] at ho
    simp only [Except.ok.injEq] at ho
    exact ⟨ps', rfl, by rw [ho]; exact hm⟩

/-- two problems (starting at (0, 0) and (0, 4)) holding ONE goal-region object whose only state is at (1, 0). -/
def exShared : ProblemSet :=
  ⟨[[⟨.pt ⟨1, 0⟩, .none, none⟩]], [(⟨.pt ⟨0, 0⟩, .none, none⟩, 0), (⟨.pt ⟨0, 4⟩, .none, none⟩, 0)]⟩

/-- two problems with two goal-region objects of EQUAL value (twins). -/
def exTwins : ProblemSet :=
  ⟨[[⟨.pt ⟨1, 0⟩, .none, none⟩], [⟨.pt ⟨1, 0⟩, .none, none⟩]], [(⟨.pt ⟨0, 0⟩, .none, none⟩, 0), (⟨.pt ⟨0, 4⟩, .none, none⟩, 1)]⟩

def goalPts (r : Res ProblemSet) (i : Nat) : List Pt :=
  match r with
  | .ok ps => (obsL State.obs (goalAt ps.goals i)).pts
  | .error _ => []

/-- Refuting witness for the loop before the repair b4f94f9 (every problem moves the goal-region object it holds): the shared
    object ends up at `R(R(p + t) + t)`, which is not the motion; the repaired loop moves it once. -/
theorem C05_witness_shared_goal_moved_twice :
    goalPts (match ProblemSet.loopEach exMo exShared.problems exShared.goals with
             | .ok (p, g) => .ok ⟨g, p⟩ | .error e => .error e) 0 = [exMo.mv (exMo.mv ⟨1, 0⟩)]
    ∧ goalPts (exShared.move exMo) 0 = [exMo.mv ⟨1, 0⟩]
    ∧ exMo.mv (exMo.mv ⟨1, 0⟩) ≠ exMo.mv ⟨1, 0⟩ := by
  decide +kernel

/-- Refuting witness for "move each goal region once" over a container in which equal VALUES collapse (a `set` of goal
    regions: `GoalRegion.__hash__` / `__eq__` go by value): of two twins only one is picked, the other problem's goal region
    stays where it was; the loop over objects moves both. -/
theorem C05_witness_twin_goal_left :
    goalAt exTwins.goals 0 = goalAt exTwins.goals 1
    ∧ goalPts (exTwins.movePicked exMo [0]) 1 = [⟨1, 0⟩]
    ∧ goalPts (exTwins.move exMo) 0 = [exMo.mv ⟨1, 0⟩] ∧ goalPts (exTwins.move exMo) 1 = [exMo.mv ⟨1, 0⟩]
    ∧ exMo.mv ⟨1, 0⟩ ≠ (⟨1, 0⟩ : Pt) := by
  refine ⟨rfl, ?_, ?_, ?_, ?_⟩ <;> decide +kernel

/-- the hypotheses of `C05_problem_set_objects` / `C05_all_moved_problem_set` are satisfiable by sets with shared and twin goals. -/
example : (∀ p ∈ exShared.problems, p.2 < exShared.goals.length) ∧ (∀ p ∈ exTwins.problems, p.2 < exTwins.goals.length) := by
  decide

end CR.Rigid
