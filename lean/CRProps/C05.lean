import CRModel.Rigid
namespace CR.Rigid
theorem C05_placeholder : True := trivial
end CR.Rigid
