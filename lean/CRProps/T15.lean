/-
  T15 — translator tie for C15 (a file writer's output depends only on its own inputs).

  lean/Gen/SrcC15.lean is regenerated on every run by harness/translate/src_c15.py from the CURRENT source of
    commonroad/common/writer/file_writer_interface.py, file_writer_xml.py, file_writer_protobuf.py,
    commonroad/common/file_writer.py, commonroad/common/util.py (FileFormat).
  This module proves every generated definition equal to the hand model CRModel/WriterSM.lean the C15 theorems are about:

  functional (method body = program in `CR.PyW.M (St …)`, CRModel/PyExtC15.lean), for all arguments and all states:
    tie_handle_file_path            FileWriter._handle_file_path            = handleFilePath
    tie_own_decimal_precision       FileWriter._own_decimal_precision       = withOwnPrecision repaired   (any with-block)
    tie_xml_write_to_file           XMLFileWriter.write_to_file             = writeStep repaired … .full          (XML writer)
    tie_xml_write_scenario_to_file  XMLFileWriter.write_scenario_to_file    = writeStep repaired … .scenarioOnly  (XML writer)
    tie_pb_write_to_file            ProtobufFileWriter.write_to_file        = writeStep repaired … .full          (protobuf writer)
    tie_pb_write_scenario_to_file   ProtobufFileWriter.write_scenario_to_file (+ _serialize_write_msg)
    tie_facade_write_to_file / tie_facade_write_scenario_to_file   CommonRoadFileWriter.* = step repaired (.write …), any live writer
    tie_suffix, tie_overwrite_modes _get_suffix / FileFormat values, OverwriteExistingFile members
  structural (ordered table of state accesses = the model's table `Tables.*`, compared completely):
    tie_ctor_accesses, tie_xml_ctor_accesses, tie_pb_ctor_accesses, tie_facade_ctor_accesses,
    tie_{xml,pb}_{header,scenario,planning}_accesses

  `other` is what the user types when it is not "n" (hypothesis `other ≠ "n"`); `hw : st.ws[i]? = some w` says the method
  is called on a live writer object, `hf` that it is of the class the method belongs to.
  The helper lemmas (`seq_full`, `xml_build_full`, …) relate the translated statement sequences to `buildDocument` / `buildFor`.
-/
import Gen.SrcC15
import CRProofs.WriterSM
namespace CR.Writer
open CR.PyW

variable {Input Item Node Bytes Date Content : Type}

theorem M_bind_apply {σ α β : Type} (m : M σ α) (f : α → M σ β) (s : σ) :
    (m >>= f) s = (match m s with
      | (s', .ok a) => f a s'
      | (s', .error e) => (s', .error e)) := rfl

theorem M_pure_apply {σ α : Type} (a : α) (s : σ) : (pure a : M σ α) s = (s, .ok a) := rfl

theorem input_n_bind {σ β : Type} (other : String) (f : String → M σ β) (s : σ) :
    (PyW.input Answer.n other >>= f) s = f "n" s := rfl
theorem input_other_bind {σ β : Type} (other : String) (f : String → M σ β) (s : σ) :
    (PyW.input Answer.other other >>= f) s = f other s := rfl
theorem input_eof_bind {σ β : Type} (other : String) (f : String → M σ β) (s : σ) :
    (PyW.input Answer.eof other >>= f) s = (s, .error .other) := rfl
theorem noop_bind {σ β : Type} (f : Unit → M σ β) (s : σ) : (PyW.noop >>= f) s = f () s := rfl

theorem tie_own_decimal_precision (c : Codec Input Item Node Bytes Date Content) (a : Answer) (other : String) (date : Date)
    (st : St Input Node Bytes Date) (i : Nat) (w : Writer Input Node Date) (body : M (St Input Node Bytes Date) Unit)
    (hw : st.ws[i]? = some w) :
    toStep (Gen.FileWriter_own_decimal_precision c a other date i body) st =
      withOwnPrecision repaired st w.prec (toStep body) := by
  unfold Gen.FileWriter_own_decimal_precision withOwnPrecision toStep
  simp only [M_bind_apply, M_pure_apply, getDecimals, ownDecimalPrecision, hw, setDecimals, M.tryFinally, repaired]
  rcases h : body { st with gprec := w.prec } with ⟨s, _ | _⟩ <;> simp

theorem tie_handle_file_path (c : Codec Input Item Node Bytes Date Content) (a : Answer) (other : String) (date : Date)
    (st : St Input Node Bytes Date) (i : Nat) (w : Writer Input Node Date) (file : Option String) (mode : Mode)
    (hw : st.ws[i]? = some w) (ho : other ≠ "n") :
    Gen.FileWriter_handle_file_path c a other date i file mode st = (st, handleFilePath c st w file mode a) := by
  unfold Gen.FileWriter_handle_file_path handleFilePath
  cases file with
  | some f =>
    simp only [orElse, M_bind_apply, M_pure_apply, M.pure, isFile, resolveName]
    by_cases hf : f = "" <;> by_cases hx : (st.fs f).isSome = true <;> cases mode <;> cases a <;>
      simp [hf, hx, M_bind_apply, M_pure_apply, input, M.pure, M.raise, noop, askRaises, keepExisting, ho]
  | none =>
    have hn : resolveName c w .full none = c.benchId w.inp ++ (match w.fmt with
        | Format.xml => Gen.XMLFileWriter_get_suffix
        | Format.pb => Gen.ProtobufFileWriter_get_suffix) := by
      cases hfm : w.fmt <;>
        simp [resolveName, hfm, suffix, Gen.XMLFileWriter_get_suffix, Gen.ProtobufFileWriter_get_suffix,
          Gen.FileFormat_XML_value, Gen.FileFormat_PROTOBUF_value]
    rw [hn]
    simp only [orElse, M_bind_apply, M_pure_apply, scenarioIdStr, virtual, hw, isFile]
    generalize (c.benchId w.inp ++ match w.fmt with
        | Format.xml => Gen.XMLFileWriter_get_suffix
        | Format.pb => Gen.ProtobufFileWriter_get_suffix) = f
    by_cases hf : f = "" <;> by_cases hx : (st.fs f).isSome = true <;> cases mode <;> cases a <;>
      simp [hf, hx, M_bind_apply, M_pure_apply, input, M.pure, M.raise, noop, askRaises, keepExisting, ho]

/-! ### header + loops -/

theorem appendItem_unwritable (c : Codec Input Item Node Bytes Date Content) (st : St Input Node Bytes Date) (i : Nat) (it : Item) :
    (appendItem c st i it).1.unwritable = st.unwritable := by
  unfold appendItem
  split
  · rfl
  · split <;> rfl

theorem appendItems_unwritable (c : Codec Input Item Node Bytes Date Content) (i : Nat) :
    ∀ (items : List Item) (st : St Input Node Bytes Date), (appendItems c st i items).1.unwritable = st.unwritable
  | [], _ => rfl
  | it :: r, st => by
    simp only [appendItems]
    have h1 := appendItem_unwritable c st i it
    rcases h : appendItem c st i it with ⟨s', _ | e⟩
    · rw [h] at h1
      simp only
      rw [appendItems_unwritable c i r s']
      exact h1
    · rw [h] at h1
      exact h1

/-- `_write_header(); _add_all_objects_from_scenario(); _add_all_planning_problems…(); k` as translated
    is `buildDocument … .full` followed by `k`. -/
theorem seq_full {β : Type} (c : Codec Input Item Node Bytes Date Content) (st : St Input Node Bytes Date) (i : Nat)
    (w : Writer Input Node Date) (date : Date) (hw : st.ws[i]? = some w) (k : Unit → M (St Input Node Bytes Date) β) :
    (PyW.writeHeader i date >>= fun _ => PyW.addScenarioObjects c i >>= fun _ => PyW.addPlanningProblems c i >>= k) st =
      (match buildDocument c st i w.inp .full date with
       | (s2, none) => k () s2
       | (s2, some e) => (s2, .error e)) := by
  have hh : Writer.writeHeader st i date = setWriter st i { w with date := some date } := by simp [Writer.writeHeader, hw]
  have hw1 := setWriter_get st i w { w with date := some date } hw
  have h1 := appendItems_spec c (c.scItems w.inp) (setWriter st i { w with date := some date }) i _ hw1
  unfold buildDocument
  simp only [M_bind_apply, PyW.writeHeader, hh, addScenarioObjects, hw1, ofStep]
  cases hm : mkNodes (creator c w.fmt (setWriter st i { w with date := some date }).gprec) (c.scItems w.inp) with
  | error e =>
    rw [hm] at h1
    obtain ⟨ns', h⟩ := h1
    simp only [h]
  | ok ns =>
    rw [hm] at h1
    simp only at h1
    simp only [h1]
    have hw2 : (DocOf (setWriter st i { w with date := some date }) i { w with date := some date } (some date) (w.root ++ ns)).ws[i]? =
        some { w with date := some date, root := w.root ++ ns } := setWriter_get _ i _ _ hw1
    simp only [addPlanningProblems, hw2, ofStep]
    rcases appendItems c _ i (c.ppItems w.inp) with ⟨s3, _ | e⟩ <;> rfl

/-- `_write_header(); _add_all_objects_from_scenario(); k` as translated is `buildDocument … .scenarioOnly`, then `k`. -/
theorem seq_scenario {β : Type} (c : Codec Input Item Node Bytes Date Content) (st : St Input Node Bytes Date) (i : Nat)
    (w : Writer Input Node Date) (date : Date) (hw : st.ws[i]? = some w) (k : Unit → M (St Input Node Bytes Date) β) :
    (PyW.writeHeader i date >>= fun _ => PyW.addScenarioObjects c i >>= k) st =
      (match buildDocument c st i w.inp .scenarioOnly date with
       | (s2, none) => k () s2
       | (s2, some e) => (s2, .error e)) := by
  have hh : Writer.writeHeader st i date = setWriter st i { w with date := some date } := by simp [Writer.writeHeader, hw]
  have hw1 := setWriter_get st i w { w with date := some date } hw
  unfold buildDocument
  simp only [M_bind_apply, PyW.writeHeader, hh, addScenarioObjects, hw1, ofStep]
  rcases appendItems c _ i (c.scItems w.inp) with ⟨s3, _ | e⟩ <;> rfl

theorem of_toStep {σ : Type} (m : M σ Unit) (s : σ) :
    m s = (match toStep m s with
      | (s', none) => (s', .ok ())
      | (s', some e) => (s', .error e)) := by
  unfold toStep
  rcases m s with ⟨s', _ | _⟩ <;> rfl

theorem freshDocument_get (st : St Input Node Bytes Date) (i : Nat) (w : Writer Input Node Date) (hw : st.ws[i]? = some w) :
    (freshDocument st i).ws[i]? = some { w with date := none, root := [] } := by
  have hf : freshDocument st i = setWriter st i { w with date := none, root := [] } := by simp [freshDocument, hw]
  rw [hf]
  exact setWriter_get st i w _ hw

/-- XML: new root element, then header and loops inside `with self._own_decimal_precision()` = `buildFor`. -/
theorem xml_build_full {β : Type} (c : Codec Input Item Node Bytes Date Content) (a : Answer) (other : String) (date : Date)
    (st : St Input Node Bytes Date) (i : Nat) (w : Writer Input Node Date) (hw : st.ws[i]? = some w) (hf : w.fmt = .xml)
    (k : Unit → M (St Input Node Bytes Date) β) :
    (PyW.newDocument i >>= fun _ => Gen.FileWriter_own_decimal_precision c a other date i (do
        PyW.writeHeader i date
        PyW.addScenarioObjects c i
        PyW.addPlanningProblems c i
        pure ()) >>= k) st =
      (match buildFor repaired c st i w .full date with
       | (s2, none) => k () s2
       | (s2, some e) => (s2, .error e)) := by
  have hw1 := freshDocument_get st i w hw
  have hw2 : ({ freshDocument st i with gprec := w.prec } : St Input Node Bytes Date).ws[i]? =
      some { w with date := none, root := [] } := hw1
  simp only [M_bind_apply, newDocument]
  rw [of_toStep (Gen.FileWriter_own_decimal_precision _ _ _ _ _ _), tie_own_decimal_precision c a other date _ i _ _ hw1]
  unfold buildFor withOwnPrecision
  simp only [hf, repaired, Bool.or_true, if_true]
  simp only [toStep]
  rw [seq_full c _ i _ date hw2 (fun _ => pure ())]
  rcases buildDocument c _ i w.inp Kind.full date with ⟨s3, _ | e⟩ <;> rfl

theorem buildFor_unwritable (c : Codec Input Item Node Bytes Date Content) (st : St Input Node Bytes Date) (i : Nat)
    (w : Writer Input Node Date) (kind : Kind) (date : Date) :
    (buildFor repaired c st i w kind date).1.unwritable = st.unwritable := by
  have hfd : ∀ s : St Input Node Bytes Date, (freshDocument s i).unwritable = s.unwritable := by
    intro s; unfold freshDocument; split <;> rfl
  have hwh : ∀ (s : St Input Node Bytes Date) d, (Writer.writeHeader s i d).unwritable = s.unwritable := by
    intro s d; unfold Writer.writeHeader; split <;> rfl
  have hbd : ∀ s : St Input Node Bytes Date, (buildDocument c s i w.inp kind date).1.unwritable = s.unwritable := by
    intro s
    unfold buildDocument
    simp only
    have h1 := appendItems_unwritable c i (c.scItems w.inp) (Writer.writeHeader s i date)
    rcases h : appendItems c (Writer.writeHeader s i date) i (c.scItems w.inp) with ⟨s2, _ | e⟩
    · rw [h] at h1
      simp only at h1 ⊢
      cases kind
      · simp only
        rw [appendItems_unwritable, h1, hwh]
      · simp only
        rw [h1, hwh]
    · rw [h] at h1
      simp only at h1 ⊢
      rw [h1, hwh]
  unfold buildFor withOwnPrecision
  simp only [repaired, Bool.or_true, if_true]
  cases w.fmt
  · simp only
    rw [hbd]
    exact hfd st
  · simp only
    rw [hbd]
    exact hfd st

/-- XML, scenario only: new root element, header and one loop inside the with-block = `buildFor … .scenarioOnly`. -/
theorem xml_build_scenario {β : Type} (c : Codec Input Item Node Bytes Date Content) (a : Answer) (other : String) (date : Date)
    (st : St Input Node Bytes Date) (i : Nat) (w : Writer Input Node Date) (hw : st.ws[i]? = some w) (hf : w.fmt = .xml)
    (k : Unit → M (St Input Node Bytes Date) β) :
    (PyW.newDocument i >>= fun _ => Gen.FileWriter_own_decimal_precision c a other date i (do
        PyW.writeHeader i date
        PyW.addScenarioObjects c i
        pure ()) >>= k) st =
      (match buildFor repaired c st i w .scenarioOnly date with
       | (s2, none) => k () s2
       | (s2, some e) => (s2, .error e)) := by
  have hw1 := freshDocument_get st i w hw
  have hw2 : ({ freshDocument st i with gprec := w.prec } : St Input Node Bytes Date).ws[i]? =
      some { w with date := none, root := [] } := hw1
  simp only [M_bind_apply, newDocument]
  rw [of_toStep (Gen.FileWriter_own_decimal_precision _ _ _ _ _ _), tie_own_decimal_precision c a other date _ i _ _ hw1]
  unfold buildFor withOwnPrecision
  simp only [hf, repaired, Bool.or_true, if_true]
  simp only [toStep]
  rw [seq_scenario c _ i _ date hw2 (fun _ => pure ())]
  rcases buildDocument c _ i w.inp Kind.scenarioOnly date with ⟨s3, _ | e⟩ <;> rfl

/-- protobuf: new message, header and loops (no precision handling) = `buildFor … .full`. -/
theorem pb_build_full {β : Type} (c : Codec Input Item Node Bytes Date Content) (date : Date)
    (st : St Input Node Bytes Date) (i : Nat) (w : Writer Input Node Date) (hw : st.ws[i]? = some w) (hf : w.fmt = .pb)
    (k : Unit → M (St Input Node Bytes Date) β) :
    (PyW.newDocument i >>= fun _ => PyW.writeHeader i date >>= fun _ => PyW.addScenarioObjects c i >>= fun _ =>
        PyW.addPlanningProblems c i >>= k) st =
      (match buildFor repaired c st i w .full date with
       | (s2, none) => k () s2
       | (s2, some e) => (s2, .error e)) := by
  have hw1 := freshDocument_get st i w hw
  rw [M_bind_apply]
  simp only [newDocument]
  rw [seq_full c _ i _ date hw1 k]
  unfold buildFor
  simp only [hf, repaired, Bool.or_true, if_true]

/-- protobuf, scenario only. -/
theorem pb_build_scenario {β : Type} (c : Codec Input Item Node Bytes Date Content) (date : Date)
    (st : St Input Node Bytes Date) (i : Nat) (w : Writer Input Node Date) (hw : st.ws[i]? = some w) (hf : w.fmt = .pb)
    (k : Unit → M (St Input Node Bytes Date) β) :
    (PyW.newDocument i >>= fun _ => PyW.writeHeader i date >>= fun _ => PyW.addScenarioObjects c i >>= k) st =
      (match buildFor repaired c st i w .scenarioOnly date with
       | (s2, none) => k () s2
       | (s2, some e) => (s2, .error e)) := by
  have hw1 := freshDocument_get st i w hw
  rw [M_bind_apply]
  simp only [newDocument]
  rw [seq_scenario c _ i _ date hw1 k]
  unfold buildFor
  simp only [hf, repaired, Bool.or_true, if_true]

/-! ### the write methods -/

set_option hygiene false in
/-- after the document-building prefix has been rewritten to `buildFor`: evaluate the dump -/
macro "c15_tail" k:term : tactic => `(tactic| (
  have hu := buildFor_unwritable c st i w $k date
  rcases hb : buildFor repaired c st i w $k date with ⟨s2, _ | e⟩
  · rw [hb] at hu
    simp only at hu
    (try cases cv) <;> by_cases hq : st.unwritable name = true <;> cases hg : s2.ws[i]? <;>
      simp [M_bind_apply, M_pure_apply, elementTree, treeWrite, noop, M.pure, hn, hu, hq, hg, toOutcome,
        Gen.ProtobufFileWriter_serialize_write_msg]
  · simp [toOutcome]))

/-- `XMLFileWriter.write_to_file` as the CURRENT source has it is the model's write step (`Kind.full`) on an XML writer. -/
theorem tie_xml_write_to_file (c : Codec Input Item Node Bytes Date Content) (a : Answer) (other : String) (date : Date)
    (st : St Input Node Bytes Date) (i : Nat) (w : Writer Input Node Date) (file : Option String) (mode : Mode) (cv : Bool)
    (hw : st.ws[i]? = some w) (hf : w.fmt = .xml) (ho : other ≠ "n") :
    toOutcome (Gen.XMLFileWriter_write_to_file c a other date i file mode cv st) =
      writeStep repaired c st i .full file mode a date := by
  unfold Gen.XMLFileWriter_write_to_file
  rw [M_bind_apply, tie_handle_file_path c a other date st i w file mode hw ho]
  unfold writeStep handleFilePath
  simp only [hw, hf]
  generalize resolveName c w .full file = name
  by_cases hn : name = ""
  · subst hn
    simp [toOutcome, M_pure_apply]
  · by_cases hx : (st.fs name).isSome = true
    · cases mode <;> cases a <;> simp [hn, hx, askRaises, keepExisting, toOutcome, M_pure_apply]
      all_goals
        rw [xml_build_full c _ other date st i w hw hf]
        c15_tail Kind.full
    · simp [hn, hx, toOutcome, M_pure_apply]
      rw [xml_build_full c _ other date st i w hw hf]
      c15_tail Kind.full

/-- `ProtobufFileWriter.write_to_file` = the model's write step (`Kind.full`) on a protobuf writer. -/
theorem tie_pb_write_to_file (c : Codec Input Item Node Bytes Date Content) (a : Answer) (other : String) (date : Date)
    (st : St Input Node Bytes Date) (i : Nat) (w : Writer Input Node Date) (file : Option String) (mode : Mode) (cv : Bool)
    (hw : st.ws[i]? = some w) (hf : w.fmt = .pb) (ho : other ≠ "n") :
    toOutcome (Gen.ProtobufFileWriter_write_to_file c a other date i file mode cv st) =
      writeStep repaired c st i .full file mode a date := by
  unfold Gen.ProtobufFileWriter_write_to_file
  rw [M_bind_apply, tie_handle_file_path c a other date st i w file mode hw ho]
  unfold writeStep handleFilePath
  simp only [hw, hf]
  generalize resolveName c w .full file = name
  by_cases hn : name = ""
  · subst hn
    simp [toOutcome, M_pure_apply]
  · by_cases hx : (st.fs name).isSome = true
    · cases mode <;> cases a <;> simp [hn, hx, askRaises, keepExisting, toOutcome, M_pure_apply]
      all_goals
        rw [pb_build_full c date st i w hw hf]
        c15_tail Kind.full
    · simp [hn, hx, toOutcome, M_pure_apply]
      rw [pb_build_full c date st i w hw hf]
      c15_tail Kind.full

/-- `ProtobufFileWriter.write_scenario_to_file` = the model's write step (`Kind.scenarioOnly`) on a protobuf writer. -/
theorem tie_pb_write_scenario_to_file (c : Codec Input Item Node Bytes Date Content) (a : Answer) (other : String) (date : Date)
    (st : St Input Node Bytes Date) (i : Nat) (w : Writer Input Node Date) (file : Option String) (mode : Mode)
    (hw : st.ws[i]? = some w) (hf : w.fmt = .pb) (ho : other ≠ "n") :
    toOutcome (Gen.ProtobufFileWriter_write_scenario_to_file c a other date i file mode st) =
      writeStep repaired c st i .scenarioOnly file mode a date := by
  have hr : resolveName c w .scenarioOnly file = resolveName c w .full file := by
    cases file <;> simp [resolveName, hf]
  unfold Gen.ProtobufFileWriter_write_scenario_to_file
  rw [M_bind_apply, tie_handle_file_path c a other date st i w file mode hw ho]
  unfold writeStep handleFilePath
  simp only [hw, hf, hr]
  generalize resolveName c w .full file = name
  by_cases hn : name = ""
  · subst hn
    simp [toOutcome, M_pure_apply]
  · by_cases hx : (st.fs name).isSome = true
    · cases mode <;> cases a <;> simp [hn, hx, askRaises, keepExisting, toOutcome, M_pure_apply]
      all_goals
        rw [pb_build_scenario c date st i w hw hf]
        c15_tail Kind.scenarioOnly
    · simp [hn, hx, toOutcome, M_pure_apply]
      rw [pb_build_scenario c date st i w hw hf]
      c15_tail Kind.scenarioOnly

/-- `XMLFileWriter.write_scenario_to_file` (its own copy of the path handling: no suffix, an empty name goes on to
    `tree.write("")`) = the model's write step (`Kind.scenarioOnly`) on an XML writer. -/
theorem tie_xml_write_scenario_to_file (c : Codec Input Item Node Bytes Date Content) (a : Answer) (other : String) (date : Date)
    (st : St Input Node Bytes Date) (i : Nat) (w : Writer Input Node Date) (file : Option String) (mode : Mode)
    (hw : st.ws[i]? = some w) (hf : w.fmt = .xml) (ho : other ≠ "n") :
    toOutcome (Gen.XMLFileWriter_write_scenario_to_file c a other date i file mode st) =
      writeStep repaired c st i .scenarioOnly file mode a date := by
  have hname : (orElse file (do
      let t1 ← scenarioIdStr c i
      pure t1)) st = (st, .ok (resolveName c w .scenarioOnly file)) := by
    cases file <;> simp [orElse, M.pure, M_bind_apply, M_pure_apply, scenarioIdStr, hw, resolveName, hf]
  unfold Gen.XMLFileWriter_write_scenario_to_file
  rw [M_bind_apply, hname]
  unfold writeStep
  simp only [hw, hf]
  generalize resolveName c w .scenarioOnly file = name
  rw [M_bind_apply]
  simp only [isFile]
  by_cases hn : name = ""
  · simp [hn, toOutcome, M_pure_apply]
    rw [xml_build_scenario c _ other date st i w hw hf]
    c15_tail Kind.scenarioOnly
  · by_cases hx : (st.fs name).isSome = true
    · cases mode <;> cases a <;>
        simp [hn, hx, askRaises, keepExisting, toOutcome, M_pure_apply, input_n_bind, input_other_bind, input_eof_bind,
          noop_bind, ho]
      all_goals
        rw [xml_build_scenario c _ other date st i w hw hf]
        c15_tail Kind.scenarioOnly
    · simp [hn, hx, toOutcome, M_pure_apply]
      rw [xml_build_scenario c _ other date st i w hw hf]
      c15_tail Kind.scenarioOnly

/-! ### the facade -/

theorem bind_pure_apply {σ α : Type} (m : M σ α) (s : σ) : (m >>= fun x => pure x) s = m s := by
  rw [M_bind_apply]
  rcases m s with ⟨s', _ | _⟩ <;> rfl

/-- `CommonRoadFileWriter.write_to_file` (delegation to the format writer, arguments in order) = the model's write step. -/
theorem tie_facade_write_to_file (c : Codec Input Item Node Bytes Date Content) (a : Answer) (other : String) (date : Date)
    (st : St Input Node Bytes Date) (i : Nat) (w : Writer Input Node Date) (file : Option String) (mode : Mode) (cv : Bool)
    (hw : st.ws[i]? = some w) (ho : other ≠ "n") :
    toOutcome (Gen.CommonRoadFileWriter_write_to_file c a other date i file mode cv st) =
      (step repaired c st (.write i .full file mode a date)) := by
  unfold Gen.CommonRoadFileWriter_write_to_file
  simp only [dispatch, hw, step]
  cases hf : w.fmt
  · exact tie_xml_write_to_file c a other date st i w file mode cv hw hf ho
  · exact tie_pb_write_to_file c a other date st i w file mode cv hw hf ho

/-- `CommonRoadFileWriter.write_scenario_to_file` = the model's write step (`Kind.scenarioOnly`). -/
theorem tie_facade_write_scenario_to_file (c : Codec Input Item Node Bytes Date Content) (a : Answer) (other : String)
    (date : Date) (st : St Input Node Bytes Date) (i : Nat) (w : Writer Input Node Date) (file : Option String) (mode : Mode)
    (hw : st.ws[i]? = some w) (ho : other ≠ "n") :
    toOutcome (Gen.CommonRoadFileWriter_write_scenario_to_file c a other date i file mode st) =
      (step repaired c st (.write i .scenarioOnly file mode a date)) := by
  unfold Gen.CommonRoadFileWriter_write_scenario_to_file
  simp only [dispatch, hw, step]
  cases hf : w.fmt
  · exact tie_xml_write_scenario_to_file c a other date st i w file mode hw hf ho
  · exact tie_pb_write_scenario_to_file c a other date st i w file mode hw hf ho

/-! ### structural extraction: the access tables of the CURRENT source are the model's tables
  (finite tables compared completely, entry by entry — the comparison IS the proof for these tables) -/

theorem tie_suffix : Gen.XMLFileWriter_get_suffix = suffix .xml ∧ Gen.ProtobufFileWriter_get_suffix = suffix .pb := by
  decide
theorem tie_overwrite_modes : Gen.OverwriteExistingFile_members = Tables.overwriteModes := by decide
theorem tie_ctor_accesses : Gen.FileWriter_init_accesses = Tables.ctorAccesses := by rfl
theorem tie_xml_ctor_accesses : Gen.XMLFileWriter_init_accesses = Tables.xmlCtorAccesses := by rfl
theorem tie_pb_ctor_accesses : Gen.ProtobufFileWriter_init_accesses = Tables.pbCtorAccesses := by rfl
theorem tie_facade_ctor_accesses : Gen.CommonRoadFileWriter_init_accesses = Tables.facadeCtorAccesses := by rfl
theorem tie_xml_header_accesses : Gen.XMLFileWriter_write_header_accesses = Tables.xmlHeaderAccesses := by rfl
theorem tie_xml_scenario_accesses : Gen.XMLFileWriter_add_all_objects_accesses = Tables.xmlScenarioAccesses := by rfl
theorem tie_xml_planning_accesses :
    Gen.XMLFileWriter_add_all_planning_problems_accesses = Tables.xmlPlanningAccesses := by rfl
theorem tie_pb_header_accesses : Gen.ProtobufFileWriter_write_header_accesses = Tables.pbHeaderAccesses := by rfl
theorem tie_pb_scenario_accesses : Gen.ProtobufFileWriter_add_all_objects_accesses = Tables.pbScenarioAccesses := by rfl
theorem tie_pb_planning_accesses :
    Gen.ProtobufFileWriter_add_all_planning_problems_accesses = Tables.pbPlanningAccesses := by rfl

end CR.Writer
