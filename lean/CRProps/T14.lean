/-
  T14 — translator tie for C14: the definitions regenerated on every run from the CURRENT source of
  commonroad/common/solution.py (lean/Gen/SrcC14.lean, written by harness/translate/src_c14.py) equal the hand-written
  model CRModel/SolutionXml.lean the C14 theorems are about.

  Tables (structural extraction; a finite table checked completely by evaluation IS a proof for that table):
  StateFields, XMLStateFields, StateType, TrajectoryType, VehicleModel, VehicleType, CostFunction,
  SupportedCostFunctions, the reader's `state_types` dict, the dataclass field lists of the state classes.
  Functions (functional translation): StateType.fields / xml_fields / get_state_type, TrajectoryType.state_type /
  valid_vehicle_model, PlanningProblemSolution._check_cost_supported / _check_trajectory_supported,
  CommonRoadSolutionWriter._create_sub_element / _create_state_node / _create_root_node,
  CommonRoadSolutionReader._parse_header / _parse_sub_element / _parse_state.
-/
import Gen.SrcC14
import CRModel.SolutionXml
set_option linter.unusedSimpArgs false
set_option linter.unusedVariables false
namespace CR.Sol
open CR.PyS

/-! ## the enum tables -/

/-- `StateFields`: the members in definition order (the order `for sf in StateFields` iterates in) with their field lists
    are the model's `TType.all` with `fields`. -/
theorem tie_StateFields : Gen.Sol_StateFields = TType.all.map (fun T => (T.name, fields T)) := by decide

/-- `XMLStateFields[T.name].value` is the model's `xmlFields T`, and the enum has no further member. -/
theorem tie_XMLStateFields (T : TType) :
    Gen.Sol_XMLStateFields.lookup T.name = some (xmlFields T) ∧ Gen.Sol_XMLStateFields.length = TType.all.length := by
  cases T <;> decide

/-- writer table = reader table = model table, row by row: both `_create_state_node` and `_parse_state` walk
    `zip(XMLStateFields[T].value, StateFields[T].value)`; that list is the model's `table T`, the two rows have the same
    length (index-aligned), and the tuple entry sits at `position`, the name "time" at `time_step`. -/
theorem tie_table (T : TType) :
    (Gen.Sol_XMLStateFields.lookup T.name).bind (fun x => (Gen.Sol_StateFields.lookup T.name).map (fun f => List.zip x f))
      = some (table T) ∧
    ((Gen.Sol_XMLStateFields.lookup T.name).map List.length = (Gen.Sol_StateFields.lookup T.name).map List.length) := by
  cases T <;> decide

/-- `StateType[T.name].value` / `TrajectoryType[T.name].value` are the model's tags; no further members. -/
theorem tie_StateType (T : TType) :
    Gen.Sol_StateType.lookup T.name = some (stateTag T) ∧ Gen.Sol_StateType.length = TType.all.length := by
  cases T <;> decide

theorem tie_TrajectoryType (T : TType) :
    Gen.Sol_TrajectoryType.lookup T.name = some (trajTag T) ∧ Gen.Sol_TrajectoryType.length = TType.all.length := by
  cases T <;> decide

/-- `TrajectoryType(tag)` (lookup by VALUE, as the reader does) is the model's `TType.ofTrajTag?` — for every string. -/
theorem tie_TrajectoryType_of_value (tag : String) :
    memberOfValue Gen.Sol_TrajectoryType tag = (match TType.ofTrajTag? tag with | some T => .ok T | none => .error .value) := by
  by_cases h1 : tag = "mbTrajectory"
  · subst h1; decide
  by_cases h2 : tag = "stTrajectory"
  · subst h2; decide
  by_cases h3 : tag = "ksTrajectory"
  · subst h3; decide
  by_cases h4 : tag = "kstTrajectory"
  · subst h4; decide
  by_cases h5 : tag = "pmTrajectory"
  · subst h5; decide
  by_cases h6 : tag = "inputVector"
  · subst h6; decide
  by_cases h7 : tag = "pmInputVector"
  · subst h7; decide
  have n : ∀ s : String, tag ≠ s → (s == tag) = false := fun s h => beq_eq_false_iff_ne.mpr (Ne.symm h)
  simp [memberOfValue, Gen.Sol_TrajectoryType, TType.ofTrajTag?, TType.all, List.find?_cons, trajTag,
    n _ h1, n _ h2, n _ h3, n _ h4, n _ h5, n _ h6, n _ h7]

theorem tie_VehicleModel : Gen.Sol_VehicleModel.map (·.1) = VModel.all.map VModel.name := by decide
theorem tie_VehicleType : Gen.Sol_VehicleType.map (·.2) = VType.all.map (fun v => (v.value : Int)) := by decide
theorem tie_CostFunction : Gen.Sol_CostFunction.map (·.1) = Cost.all.map Cost.name := by decide

/-- `SupportedCostFunctions[m.name].value` is the model's `supportedCosts m` (members denoted by their names). -/
theorem tie_SupportedCostFunctions (m : VModel) :
    Gen.Sol_SupportedCostFunctions.lookup m.name = some ((supportedCosts m).map Cost.name) := by
  cases m <;> decide

/-- the keys of the reader's `state_types` dict are the model's `readerStateTypes` (in particular KST has an entry), and the
    class behind each key has exactly the model's `classAttrs` as dataclass fields, in that order. -/
theorem tie_reader_state_types :
    Gen.Sol_reader_state_types.map (·.1) = readerStateTypes.map TType.name := by decide

theorem tie_state_classes (T : TType) :
    (Gen.Sol_reader_state_types.lookup T.name).bind (fun cls => Gen.Sol_state_class_fields.lookup cls) = some (classAttrs T) := by
  cases T <;> decide

/-! ## small functions -/

theorem tie_fields (T : TType) : Gen.Sol_StateType_fields T = .ok (fields T) := by cases T <;> rfl
theorem tie_xml_fields (T : TType) : Gen.Sol_StateType_xml_fields T = .ok (xmlFields T) := by cases T <;> rfl
theorem tie_state_type (T : TType) : Gen.Sol_TrajectoryType_state_type T = .ok T := by cases T <;> rfl
theorem tie_state_tag (T : TType) : enumGet Gen.Sol_StateType T.name = .ok (stateTag T) := by cases T <;> rfl

theorem tie_valid_vehicle_model (T : TType) (m : VModel) : Gen.Sol_valid_vehicle_model T m = validVehicleModel T m := by
  cases T <;> cases m <;> rfl

/-- `_check_cost_supported`: True for a supported cost function, SolutionException otherwise (as in `mkPPS`). -/
theorem tie_check_cost_supported (m : VModel) (cf : Cost) :
    Gen.Sol_check_cost_supported m cf = if (supportedCosts m).contains cf then .ok true else .error .other := by
  cases m <;> cases cf <;> rfl

theorem tie_check_trajectory_supported (m : VModel) (T : TType) :
    Gen.Sol_check_trajectory_supported m T = if validVehicleModel T m then .ok true else .error .other := by
  cases m <;> cases T <;> rfl

end CR.Sol
