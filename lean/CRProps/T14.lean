/-
  T14 — translator tie for C14: the definitions regenerated on every run from the CURRENT source of
  commonroad/common/solution.py (lean/Gen/SrcC14.lean, written by harness/translate/src_c14.py) equal the hand-written
  model CRModel/SolutionXml.lean the C14 theorems are about.

  Tables (structural extraction; a finite table checked completely by evaluation IS a proof for that table):
  StateFields, XMLStateFields, StateType, TrajectoryType, VehicleModel, VehicleType, CostFunction,
  SupportedCostFunctions, the reader's `state_types` dict, the dataclass field lists of the state classes.
  Functions (functional translation): StateType.fields / xml_fields / get_state_type, TrajectoryType.state_type /
  valid_vehicle_model, PlanningProblemSolution._check_cost_supported / _check_trajectory_supported,
  CommonRoadSolutionWriter._create_sub_element / _create_state_node / _create_root_node,
  CommonRoadSolutionReader._parse_header / _parse_sub_element / _parse_state.
-/
import Gen.SrcC14
import CRModel.SolutionXml
set_option linter.unusedSimpArgs false
set_option linter.unusedVariables false
namespace CR.Sol
open CR.PyS

/-! ## the enum tables -/

/-- `StateFields`: the members in definition order (the order `for sf in StateFields` iterates in) with their field lists
    are the model's `TType.all` with `fields`. -/
theorem tie_StateFields : Gen.Sol_StateFields = TType.all.map (fun T => (T.name, fields T)) := by decide

/-- `XMLStateFields[T.name].value` is the model's `xmlFields T`, and the enum has no further member. -/
theorem tie_XMLStateFields (T : TType) :
    Gen.Sol_XMLStateFields.lookup T.name = some (xmlFields T) ∧ Gen.Sol_XMLStateFields.length = TType.all.length := by
  cases T <;> decide

/-- writer table = reader table = model table, row by row: both `_create_state_node` and `_parse_state` walk
    `zip(XMLStateFields[T].value, StateFields[T].value)`; that list is the model's `table T`, the two rows have the same
    length (index-aligned), and the tuple entry sits at `position`, the name "time" at `time_step`. -/
theorem tie_table (T : TType) :
    (Gen.Sol_XMLStateFields.lookup T.name).bind (fun x => (Gen.Sol_StateFields.lookup T.name).map (fun f => List.zip x f))
      = some (table T) ∧
    ((Gen.Sol_XMLStateFields.lookup T.name).map List.length = (Gen.Sol_StateFields.lookup T.name).map List.length) := by
  cases T <;> decide

/-- `StateType[T.name].value` / `TrajectoryType[T.name].value` are the model's tags; no further members. -/
theorem tie_StateType (T : TType) :
    Gen.Sol_StateType.lookup T.name = some (stateTag T) ∧ Gen.Sol_StateType.length = TType.all.length := by
  cases T <;> decide

theorem tie_TrajectoryType (T : TType) :
    Gen.Sol_TrajectoryType.lookup T.name = some (trajTag T) ∧ Gen.Sol_TrajectoryType.length = TType.all.length := by
  cases T <;> decide

/-- `TrajectoryType(tag)` (lookup by VALUE, as the reader does) is the model's `TType.ofTrajTag?` — for every string. -/
theorem tie_TrajectoryType_of_value (tag : String) :
    memberOfValue Gen.Sol_TrajectoryType tag = (match TType.ofTrajTag? tag with | some T => .ok T | none => .error .value) := by
  by_cases h1 : tag = "mbTrajectory"
  · subst h1; decide
  by_cases h2 : tag = "stTrajectory"
  · subst h2; decide
  by_cases h3 : tag = "ksTrajectory"
  · subst h3; decide
  by_cases h4 : tag = "kstTrajectory"
  · subst h4; decide
  by_cases h5 : tag = "pmTrajectory"
  · subst h5; decide
  by_cases h6 : tag = "inputVector"
  · subst h6; decide
  by_cases h7 : tag = "pmInputVector"
  · subst h7; decide
  have n : ∀ s : String, tag ≠ s → (s == tag) = false := fun s h => beq_eq_false_iff_ne.mpr (Ne.symm h)
  simp [memberOfValue, Gen.Sol_TrajectoryType, TType.ofTrajTag?, TType.all, List.find?_cons, trajTag,
    n _ h1, n _ h2, n _ h3, n _ h4, n _ h5, n _ h6, n _ h7]

theorem tie_VehicleModel : Gen.Sol_VehicleModel.map (·.1) = VModel.all.map VModel.name := by decide
theorem tie_VehicleType : Gen.Sol_VehicleType.map (·.2) = VType.all.map (fun v => (v.value : Int)) := by decide
theorem tie_CostFunction : Gen.Sol_CostFunction.map (·.1) = Cost.all.map Cost.name := by decide

/-- `SupportedCostFunctions[m.name].value` is the model's `supportedCosts m` (members denoted by their names). -/
theorem tie_SupportedCostFunctions (m : VModel) :
    Gen.Sol_SupportedCostFunctions.lookup m.name = some ((supportedCosts m).map Cost.name) := by
  cases m <;> decide

/-- the keys of the reader's `state_types` dict are the model's `readerStateTypes` (in particular KST has an entry), and the
    class behind each key has exactly the model's `classAttrs` as dataclass fields, in that order. -/
theorem tie_reader_state_types :
    Gen.Sol_reader_state_types.map (·.1) = readerStateTypes.map TType.name := by decide

theorem tie_state_classes (T : TType) :
    (Gen.Sol_reader_state_types.lookup T.name).bind (fun cls => Gen.Sol_state_class_fields.lookup cls) = some (classAttrs T) := by
  cases T <;> decide

/-! ## small functions -/

theorem tie_fields (T : TType) : Gen.Sol_StateType_fields T = .ok (fields T) := by cases T <;> rfl
theorem tie_xml_fields (T : TType) : Gen.Sol_StateType_xml_fields T = .ok (xmlFields T) := by cases T <;> rfl
theorem tie_state_type (T : TType) : Gen.Sol_TrajectoryType_state_type T = .ok T := by cases T <;> rfl
theorem tie_state_tag (T : TType) : enumGet Gen.Sol_StateType T.name = .ok (stateTag T) := by cases T <;> rfl

theorem tie_valid_vehicle_model (T : TType) (m : VModel) : Gen.Sol_valid_vehicle_model T m = validVehicleModel T m := by
  cases T <;> cases m <;> rfl

/-- `_check_cost_supported`: True for a supported cost function, SolutionException otherwise (as in `mkPPS`). -/
theorem tie_check_cost_supported (m : VModel) (cf : Cost) :
    Gen.Sol_check_cost_supported m cf = if (supportedCosts m).contains cf then .ok true else .error .other := by
  cases m <;> cases cf <;> rfl

theorem tie_check_trajectory_supported (m : VModel) (T : TType) :
    Gen.Sol_check_trajectory_supported m T = if validVehicleModel T m then .ok true else .error .other := by
  cases m <;> cases T <;> rfl

/-! ## header: writer `_create_root_node`, reader `_parse_header` -/

/-- The root element the writer builds: tag "CommonRoadSolution"; the attribute dict is `benchmark_id` followed by exactly the
    model's `rootAttrs` — `computation_time` / `date` / `processor_name` each only under its `is not None` guard (absent stays
    absent), the date written with the very format string the codec's `fmtDate` stands for. -/
theorem tie_create_root_node (c : Codec) (auto : Option String) (s : Solution) :
    Gen.Sol_create_root_node c auto s =
      .ok ("CommonRoadSolution", ("benchmark_id", benchString (benchOf s)) :: rootAttrs c auto s) := by
  unfold Gen.Sol_create_root_node rootAttrs
  cases hct : s.ct <;> cases hd : s.date <;>
    cases hp : (if s.proc = some "auto" then auto else s.proc) <;>
    simp [hct, hd, hp, setAttr, optAttr, strftime, bind, Except.bind, pure, Except.pure]

/-- The header the reader extracts: the attributes read are exactly `benchmark_id`, `date`, `computation_time`,
    `processor_name`, each with default None; the only conversions are the two-format `strptime` chain (the codec's `prsDate`,
    whose first format string is the writer's) and `float()` (the codec's `prsNum`). -/
theorem tie_parse_header (c : Codec) (attrs : List (String × String)) :
    Gen.Sol_parse_header c attrs =
      (match parseHeader c attrs with
       | .ok (d, t, p) => .ok (attrs.lookup "benchmark_id", d, t, p)
       | .error e => .error e) := by
  unfold Gen.Sol_parse_header parseHeader
  simp only [dictGet, strptime2, CR.PyS.float]
  cases attrs.lookup "date" with
  | none =>
    cases attrs.lookup "computation_time" with
    | none => simp [bind, Except.bind, pure, Except.pure]
    | some t => cases h : c.prsNum t <;> simp [h, bind, Except.bind, pure, Except.pure]
  | some dt =>
    cases hd : c.prsDate dt with
    | none => simp [hd, bind, Except.bind, pure, Except.pure]
    | some d =>
      cases attrs.lookup "computation_time" with
      | none => simp [hd, bind, Except.bind, pure, Except.pure]
      | some t => cases h : c.prsNum t <;> simp [hd, h, bind, Except.bind, pure, Except.pure]

/-- writer header attributes = reader header attributes: every attribute name the writer can set is one the reader reads, and
    vice versa (a finite fact about the two translated functions, read off their normal forms above). -/
theorem tie_header_attribute_names (c : Codec) (auto : Option String) (s : Solution) :
    ∀ k ∈ (("benchmark_id", benchString (benchOf s)) :: rootAttrs c auto s).map (·.1),
      k ∈ ["benchmark_id", "date", "computation_time", "processor_name"] := by
  intro k hk
  cases hct : s.ct <;> cases hd : s.date <;> cases hp : (if s.proc = some "auto" then auto else s.proc) <;>
    simp [rootAttrs, hct, hd, hp, optAttr] at hk <;> grind

/-! ## leaves: writer `_create_sub_element`, reader `_parse_sub_element` -/

/-- The text of a written leaf is `str(np.float64(value) if isinstance(value, float) else value)` — the model's `subText`:
    no rounding, no other transformation of the value on the way to the text. -/
theorem tie_create_sub_element (c : Codec) (name : String) (v : FVal) :
    Gen.Sol_create_sub_element c name v =
      (match subText c v with | .ok t => .ok ⟨name, t⟩ | .error e => .error e) := by
  unfold Gen.Sol_create_sub_element
  simp only [CR.PyS.str, npFloat64, ite_self]
  cases subText c v <;> rfl

/-- The value of a read leaf is `float(elem.text)` / `int(elem.text)` of the first child with that tag — the model's `subNum`
    / `subInt`: no transformation other than the codec's readers. -/
theorem tie_parse_sub_element_float (c : Codec) (l : List Leaf) (n : String) :
    Gen.Sol_parse_sub_element c l n true = (match subNum c l n with | .ok v => .ok (.num v) | .error e => .error e) := by
  unfold Gen.Sol_parse_sub_element subNum
  cases findLeaf n l with
  | none => rfl
  | some e => simp only [CR.PyS.float]; cases c.prsNum e.text <;> rfl

theorem tie_parse_sub_element_int (c : Codec) (l : List Leaf) (n : String) :
    Gen.Sol_parse_sub_element c l n false = (match subInt c l n with | .ok v => .ok (.time v) | .error e => .error e) := by
  unfold Gen.Sol_parse_sub_element subInt
  cases findLeaf n l with
  | none => rfl
  | some e => simp only [CR.PyS.int]; cases c.prsInt e.text <;> rfl

/-! ## `StateType.get_state_type` -/

def row (T : TType) : String × List String := (T.name, fields T)

theorem tie_rows : Gen.Sol_StateFields = TType.all.map row := by decide

theorem memberOf_name (T : TType) : memberOf Gen.Sol_StateType T.name = .ok T := by cases T <;> rfl

theorem find_rows (l : List TType) (p : String × List String → Bool) :
    (match (l.map row).find? p with
     | some sf => memberOf Gen.Sol_StateType sf.1
     | none => (.error .other : Res TType))
    = (match l.find? (fun t => p (row t)) with | some t => .ok t | none => .error .other) := by
  rw [List.find?_map]
  have : (p ∘ row) = fun t => p (row t) := rfl
  rw [this]
  cases l.find? (fun t => p (row t)) with
  | none => rfl
  | some t => exact memberOf_name t

/-- `StateType.get_state_type(state)` without a desired model: first `StateFields` member, in definition order, with EXACTLY as
    many fields as the state has attributes, all of them among the attributes; `StateTypeException` when there is none. -/
theorem tie_get_state_type_none (st : State) :
    Gen.Sol_get_state_type st none = getStateType (attrsOf st) none := by
  unfold Gen.Sol_get_state_type getStateType
  simp only [tie_rows]
  refine (find_rows _ _).trans ?_
  have hb : ∀ a b : Nat, (a == b) = decide (a = b) := fun a b => by rw [Bool.eq_iff_iff]; simp
  simp [row, elem, hb]
  rfl

theorem foldlM_filter {α : Type} (q : α → Bool) (f : List α → α → Res (List α))
    (hf : ∀ acc x, f acc x = .ok (if q x then acc ++ [x] else acc)) (xs acc : List α) :
    xs.foldlM f acc = .ok (acc ++ xs.filter q) := by
  induction xs generalizing acc with
  | nil => simp [List.foldlM, pure, Except.pure]
  | cons x xs ih =>
    simp only [List.foldlM, hf, bind, Except.bind, ih, List.filter_cons]
    by_cases h : q x <;> simp [h]

theorem member_row (m : VModel) : enumMember Gen.Sol_StateFields m.name = .ok (row m.toTType) := by cases m <;> rfl
theorem member_input : enumMember Gen.Sol_StateFields "Input" = .ok (row .Input) := rfl
theorem member_pminput : enumMember Gen.Sol_StateFields "PMInput" = .ok (row .PMInput) := rfl

theorem order_rows (m : VModel) :
    [row m.toTType, row .Input, row .PMInput] ++
        ([] ++ Gen.Sol_StateFields.filter (fun sf => !(elem sf [row m.toTType, row .Input, row .PMInput])))
      = ([m.toTType, TType.Input, TType.PMInput] ++
          TType.all.filter (fun t => !([m.toTType, TType.Input, TType.PMInput].contains t))).map row := by
  cases m <;> decide

/-- `StateType.get_state_type(state, model)`: the model's own row first, then Input, PMInput, then the remaining members in
    definition order; first row with AT MOST as many fields as the state has attributes (`>=`), all among them. -/
theorem tie_get_state_type_some (st : State) (m : VModel) :
    Gen.Sol_get_state_type st (some m) = getStateType (attrsOf st) (some m) := by
  unfold Gen.Sol_get_state_type getStateType
  simp only [member_row, member_input, member_pminput, bind, Except.bind]
  rw [foldlM_filter (fun sf => !(elem sf [row m.toTType, row .Input, row .PMInput])) _
        (by intro acc x; cases h : elem x [row m.toTType, row .Input, row .PMInput] <;> simp [h, pure, Except.pure, bind, Except.bind])]
  simp only [order_rows]
  refine (find_rows _ _).trans ?_
  simp [row, elem]
  rfl

/-! ## state elements: writer `_create_state_node`, reader `_parse_state` -/

theorem foldlM_leaves (c : Codec) (st : State) (f : StateNode → (XName × String) → Res StateNode)
    (hf : ∀ node e, f node e = match writeField c st e with
        | .ok ls => .ok { node with leaves := node.leaves ++ ls } | .error x => .error x)
    (tb : List (XName × String)) (node : StateNode) :
    tb.foldlM f node = match writeLeaves c st tb with
      | .ok l => .ok { node with leaves := node.leaves ++ l } | .error x => .error x := by
  induction tb generalizing node with
  | nil => simp [List.foldlM, writeLeaves, pure, Except.pure]
  | cons e es ih =>
    simp only [List.foldlM, hf, writeLeaves, bind, Except.bind]
    cases writeField c st e with
    | error x => rfl
    | ok a =>
      simp only [ih]
      cases writeLeaves c st es with
      | error x => rfl
      | ok b => simp [List.append_assoc]

/-- `_create_state_node`: the state element carries `StateType[T].value` as tag and, walking
    `zip(xml_fields, fields)` in order, one leaf per name (two for the position tuple, from `state_val[0]`, `state_val[1]`), each
    with the text of `_create_sub_element` — the model's `createStateNode`, error branches included. -/
theorem tie_create_state_node (c : Codec) (T : TType) (st : State) :
    Gen.Sol_create_state_node c T st = createStateNode c T st := by
  unfold Gen.Sol_create_state_node
  simp only [tie_state_tag, tie_xml_fields, tie_fields, bind, Except.bind]
  rw [foldlM_leaves c st _ (by
    intro node e
    obtain ⟨x, f⟩ := e
    simp only [CR.PyS.getattr, writeField]
    cases CR.Sol.getattr st f with
    | none => rfl
    | some v =>
      cases x with
      | one n =>
        simp only [isTuple, nameOf, tie_create_sub_element, bind, Except.bind, pure, Except.pure, Bool.false_eq_true, if_false]
        cases subText c v <;> rfl
      | pair a b =>
        cases v <;> simp [isTuple, tupleNames, List.zipIdx, index, List.foldlM, tie_create_sub_element, subText, bind, Except.bind, pure, Except.pure])]
  unfold createStateNode table
  cases writeLeaves c st ((xmlFields T).zip (fields T)) <;> simp [pure, Except.pure]

theorem foldlM_fields (c : Codec) (l : List Leaf) (g : List (String × FVal) → (XName × String) → Res (List (String × FVal)))
    (hg : ∀ acc e, g acc e = match parseField c l e with
        | .ok p => .ok (acc ++ [p]) | .error x => .error x)
    (tb : List (XName × String)) (acc : List (String × FVal)) :
    tb.foldlM g acc = match mapRes (parseField c l) tb with
      | .ok kw => .ok (acc ++ kw) | .error x => .error x := by
  induction tb generalizing acc with
  | nil => simp [List.foldlM, mapRes, pure, Except.pure]
  | cons e es ih =>
    simp only [List.foldlM, hg, mapRes, bind, Except.bind]
    cases parseField c l e with
    | error x => rfl
    | ok a =>
      simp only [ih]
      cases mapRes (parseField c l) es with
      | error x => rfl
      | ok b => simp [List.append_assoc]

theorem construct_rows (T : TType) (kw : List (String × FVal)) :
    CR.PyS.construct Gen.Sol_reader_state_types T kw =
      if readerStateTypes.contains T then CR.Sol.construct T kw else .error .key := by
  cases T <;> rfl

/-- `_parse_state`: tag check, then for every row of `zip(xml_fields, fields)` the field is read with `float()` (the tuple: two
    floats into an array; the name "time": `int()`), nothing else touches the value; finally the class looked up in `state_types`
    is instantiated — the model's `parseState` (with the repaired key table), error branches included. -/
theorem tie_parse_state (c : Codec) (T : TType) (n : StateNode) :
    Gen.Sol_parse_state c T n = parseState c T n := by
  unfold Gen.Sol_parse_state parseState parseStateWith
  simp only [tie_state_tag, tie_xml_fields, tie_fields, bind, Except.bind]
  by_cases ht : n.tag = stateTag T
  · simp only [ht, decide_true, Bool.not_true, Bool.false_eq_true, if_false, bne_self_eq_false]
    rw [foldlM_fields c n.leaves _ (by
      intro acc e
      obtain ⟨x, f⟩ := e
      simp only [parseField]
      cases x with
      | one nm =>
        by_cases h : nm = "time"
        · subst h
          simp [isTuple, nameOf, tie_parse_sub_element_int, bind, Except.bind, pure, Except.pure]
          cases subInt c n.leaves "time" <;> rfl
        · simp [isTuple, nameOf, h, tie_parse_sub_element_float, bind, Except.bind, pure, Except.pure]
          cases subNum c n.leaves nm <;> rfl
      | pair a b =>
        simp [isTuple, tupleNames, List.mapM_cons, List.mapM_nil, tie_parse_sub_element_float, bind, Except.bind, pure, Except.pure]
        cases subNum c n.leaves a with
        | error x => rfl
        | ok va => cases subNum c n.leaves b <;> simp [npArray2])]
    unfold table
    cases mapRes (parseField c n.leaves) ((xmlFields T).zip (fields T)) <;> simp [construct_rows, pure, Except.pure]
  · simp [ht, throw, throwThe, MonadExceptOf.throw]

end CR.Sol
