/-
  C18 — Read-only operations do not change scenarios or planning problems.
  Property theorems (helper lemmas: CRProofs/Frame.lean; model: CRModel/Frame.lean).

  The model runs every listed operation as `step op : St → St × Res Out` over the observable state plus the hidden caches
  the operation touches (occupancy cache of a trajectory prediction, lanelet index, `_cycle_init_timesteps`).
  `St.obs` blanks the hidden caches; two states are observably equal iff their `obs` are equal: this covers the attribute
  lists of all states (names, order, values), predictions, obstacle lists, the lanelets, the lights and the goal-lanelet
  tables with their dict kind, key set and key order.
-/
import CRProofs.Frame
namespace CR.Frame

/-- C18 (a) **observation frame**: any single read-only operation — occupancy / state / lanelet / traffic-light query,
    goal check, ==, hash, copy, deepcopy, pickle, draw (`reads`), XML or protobuf export — leaves every observable
    attribute unchanged, whatever its arguments, whether it succeeds or raises. -/
theorem C18_obs_frame (op : Op) (s : St) : (step op s).1.obs = s.obs := step_obs op s

/-- C18 (a') for ALL sequences of read-only operations (induction over the sequence, no length bound). -/
theorem C18_obs_frame_run (ops : List Op) (s : St) : (run ops s).obs = s.obs := run_obs ops s

/-- every intermediate state of a run (what the driver's `trace` reports step by step) is observably the initial state -/
theorem C18_obs_frame_trace (ops : List Op) (s : St) : ∀ r ∈ trace ops s, r.1.obs = s.obs := by
  induction ops generalizing s with
  | nil => intro r hr; simp [trace] at hr
  | cons op rest ih =>
    intro r hr
    simp only [trace, List.mem_cons] at hr
    rcases hr with rfl | hr
    · exact step_obs op s
    · rw [ih (step op s).1 r hr, step_obs]

/-- C18 corollary: the goal-lanelet tables are literally the same tables afterwards (kind, keys, key order, values). -/
theorem C18_goal_tables_unchanged (ops : List Op) (s : St) : (run ops s).problems = s.problems := by
  have := congrArg St.problems (run_obs ops s)
  exact this

/-- C18 corollary: what the writers read from the obstacles (ids, populated attributes of every state with their values,
    time steps, set-based occupancies) is unchanged. -/
theorem C18_obstacle_content_unchanged (ops : List Op) (s : St) :
    (run ops s).obstacles.map Obstacle.file = s.obstacles.map Obstacle.file := by
  have := congrArg (fun x => x.obstacles.map Obstacle.file) (run_obs ops s)
  simpa only [St.obs, map_file_obs] using this

/-- C18 (b) **export_same**: exporting before and after any sequence of read-only operations gives the same file, for both
    writers, with and without planning problems.  No assumption on the hidden caches. -/
theorem C18_export_same (ops : List Op) (s : St) (wp : Bool) :
    (step (.writeXml wp) (run ops s)).2 = (step (.writeXml wp) s).2 ∧
    (step (.writePb wp) (run ops s)).2 = (step (.writePb wp) s).2 := by
  constructor
  · simp only [step]
    rw [St.write_snd_congr goalLanelets true wp _ s (run_obs ops s)]
  · simp only [step]
    rw [St.write_snd_congr goalLanelets false wp _ s (run_obs ops s)]

/-- C18 (b') the writers' goal-lanelet lookup never fails (no KeyError for a plain dict with missing keys) and the writer
    hands back the state it was given, not merely an observably equal one. -/
theorem C18_export_total (s : St) (wp : Bool) :
    (∃ f, (step (.writeXml wp) s).2 = .ok (.file f)) ∧ (∃ f, (step (.writePb wp) s).2 = .ok (.file f)) ∧
    (step (.writeXml wp) s).1 = s ∧ (step (.writePb wp) s).1 = s := by
  refine ⟨?_, ?_, ?_, ?_⟩
  · obtain ⟨f, hf⟩ := St.write_ok true wp s
    exact ⟨f, by simp only [step, hf]; rfl⟩
  · obtain ⟨f, hf⟩ := St.write_ok false wp s
    exact ⟨f, by simp only [step, hf]; rfl⟩
  · simp only [step, St.write_fst]
  · simp only [step, St.write_fst]

/-- C18 (c) the hidden caches stay consistent with the observable state along every sequence. -/
theorem C18_caches_consistent (ops : List Op) (s : St) (h : s.Inv) : (run ops s).Inv := run_inv ops s h

/-- C18 (d) **answers are stable**: with consistent caches, the answer of any operation after any sequence of read-only
    operations is the answer it gives right away (a returned copy is compared through `obs`), provided the lanelet index
    is in the same built / not-built condition. -/
theorem C18_answers_stable_gen (ops : List Op) (op : Op) (s : St) (h : s.Inv)
    (hi : (run ops s).net.index.isSome = s.net.index.isSome) :
    (step op (run ops s)).2.map Out.obs = (step op s).2.map Out.obs :=
  answer_congr op (run ops s) s (run_inv ops s h) h (run_obs ops s) hi

/-- C18 (d') for a scenario whose lanelet index has been built (every network that got a lanelet through `add_lanelet`,
    every unpickled or deep-copied network): all answers are stable, including those of `find_lanelet_by_position`. -/
theorem C18_answers_stable (ops : List Op) (op : Op) (s : St) (h : s.Inv) (hi : s.net.index = some s.net.lanelets) :
    (step op (run ops s)).2.map Out.obs = (step op s).2.map Out.obs := by
  apply C18_answers_stable_gen ops op s h
  rw [run_index ops s hi, hi]
  rfl

/-- C18 (e) `copy.deepcopy` leaves a built index built and equal to what it was (drop + rebuild is the identity on a
    consistent network), and builds a missing one. -/
theorem C18_deepcopy_index (s : St) :
    (s.net.index = some s.net.lanelets → (step .deepcopy s).1 = s) ∧
    (step .deepcopy s).1.net.index = some s.net.lanelets := by
  constructor
  · intro h
    simp only [step, Net.deepcopy, Net.rebuild]
    cases s with
    | mk os net ls ps =>
      cases net with
      | mk lan idx =>
        simp only at h
        simp only [h]
  · rfl

/-! ### The two defects of the pinned tree, as theorems about the unrepaired definitions -/

/-- Before the repair, computing the occupancies of a trajectory whose first state has no `orientation` (and whose heading
    can be computed from `velocity_y`, `velocity`) changed that state: for every such trajectory. -/
theorem C18_unrepaired_occupancy_changes_states (sh : Int) (s : TState) (rest : List TState) (o : Ori)
    (h1 : s.hasattr "orientation" = false) (h2 : stateOri s = .ok o) :
    (createOccSetOld sh (s :: rest) 0).1 ≠ s :: rest := by
  have hne : ({ s with attrs := s.attrs ++ [("orientation", some (-1 - ((0 : Nat) : Int)))] } : TState) ≠ s := by
    intro heq
    have := congrArg (fun x => x.attrs.length) heq
    simp at this
  simp only [createOccSetOld, h1, h2, Bool.false_eq_true, if_false]
  split
  · intro heq
    exact hne (List.cons.inj heq).1
  · intro heq
    exact hne (List.cons.inj heq).1

/-- the repaired computation reads the same states and touches nothing (it has no state output at all);
    a concrete CustomState(position, velocity, velocity_y): the old code appended `orientation`. -/
example :
    let s : TState := ⟨1, false, [("position", some 0), ("velocity", some 1), ("velocity_y", some 2)]⟩
    (createOccSetOld 7 [s] 0).1 = [{ s with attrs := s.attrs ++ [("orientation", some (-1))] }] ∧
    createOccSet 7 [s] = .ok [⟨1, 1, .placed 7 0 (.atan2 2 1)⟩] := by decide

/-- Before the repair, the protobuf writer changed the observable state: a `defaultdict` goal-lanelet table with a missing
    key got that key inserted … -/
theorem C18_unrepaired_pb_writer_inserts :
    let s : St := ⟨[], ⟨[], none⟩, [], [{ id := 900, goals := [["position"], ["position"]], tbl := some ⟨.dflt, [(1, [100])]⟩ }]⟩
    (stepPbOld true s).1.obs ≠ s.obs ∧
    (stepPbOld true s).1.problems = [{ id := 900, goals := [["position"], ["position"]], tbl := some ⟨.dflt, [(1, [100]), (0, [])]⟩ }] := by decide

/-- … and a plain `dict` with a missing key made it fail with KeyError, where the repaired writer writes the file. -/
theorem C18_unrepaired_pb_writer_keyerror :
    let s : St := ⟨[], ⟨[], none⟩, [], [{ id := 900, goals := [["position"], ["position"]], tbl := some ⟨.plain, [(1, [100])]⟩ }]⟩
    (stepPbOld true s).2 = .error .key ∧
    (step (.writePb true) s).2 = .ok (.file ⟨[], [(900, [[], [100]])]⟩) := by decide

/-! ### Non-vacuity: a concrete scenario, consistent caches, operations that do fill the hidden caches -/

/-- two consecutive lanelets; obstacle 1 is registered on the second one, obstacle 2 on the first at t = 1; query point 0 and
    query shape 5 lie on the first -/
def exampleLanelets : List Lanelet :=
  [{ id := 100, cells := [0, 5], succ := [101], dynObs := [(1, [2])] },
   { id := 101, cells := [], pred := [100], staticObs := [1], dynObs := [(1, [7]), (2, [2])] }]

/-- one static obstacle, one dynamic obstacle with a two-state CustomState(position, velocity, velocity_y) trajectory, a
    phantom obstacle, one lanelet containing query point 0, one light, one planning problem with a defaultdict table -/
def exampleSt : St :=
  { obstacles := [
      .static 1 ⟨0, false, [("position", some 0), ("orientation", some 1)]⟩ (.placed 5 0 (.tok 1)),
      .dynamic 2 ⟨0, false, [("position", some 2), ("orientation", some 3), ("velocity", none)]⟩ (.placed 6 2 (.tok 3))
        (.traj 1 [⟨1, false, [("position", some 10), ("velocity", some 11), ("velocity_y", some 12)]⟩,
                  ⟨2, false, [("position", some 13), ("velocity", some 14), ("velocity_y", some 15)]⟩] 6 none),
      .phantom 3 (.setBased [⟨1, 3, 8⟩])],
    net := ⟨exampleLanelets, some exampleLanelets⟩,
    lights := [{ id := 400, es := [(0, 2), (3, 1)], off := 1, cache := none }],
    problems := [{ id := 900, init := ⟨0, false, [("position", some 20), ("orientation", some 21), ("velocity", some 22)]⟩,
                   goals := [["position", "velocity"], ["orientation"]], tbl := some ⟨.dflt, [(1, [100])]⟩ }] }


/-! ### Operations that used to be the catch-all `reads`: what the frame theorem says about each of them -/

/-- C18 (f) `GoalRegion.is_reached(state)` hands the checked state back with the same attributes in the same order with the
    same values — for a state passed in from outside as well as for one the scenario owns, for every goal region, whatever
    the decisions, and also when the check raises.  (The model runs the check on an object store in which the copy made by
    `_harmonize_state_types` and the rebuilt `CustomState` are separate slots; `(isReached …).1` is slot 0 afterwards.) -/
theorem C18_is_reached_state_untouched (goals : List (List String)) (st : TState) (dec : List (Res Bool)) :
    (isReached goals st dec).1 = st := isReached_fst goals st dec

/-- C18 (f') `PlanningProblem.goal_reached(trajectory)`: every state of the trajectory is handed back as it was. -/
theorem C18_goal_reached_states_untouched (goals : List (List String)) (ss : List TState) (ds : List (List (Res Bool))) :
    (goalReachedStates goals ss ds).1 = ss := goalReachedStates_fst goals ss ds

/-- C18 (g) goal checks (on own or foreign states), `==`, `hash`, `copy.copy`, `find_lanelet_by_shape`,
    `Lanelet.dynamic_obstacle_by_time_step` and the merge queries return exactly the state they were given: not even a
    hidden cache is filled, the obstacle registries of every lanelet are the same lists. -/
theorem C18_pure_operations_identity (s : St) :
    (∀ pid loc dec, (step (.reached pid loc dec) s).1 = s) ∧ (∀ pid src decs, (step (.goalReached pid src decs) s).1 = s) ∧
    (∀ t, (step (.eq t) s).1 = s) ∧ (∀ t, (step (.hash t) s).1 = s) ∧ (∀ t, (step (.shallowCopy t) s).1 = s) ∧
    (∀ sh, (step (.findShape sh) s).1 = s) ∧ (∀ lid t, (step (.dynByTime lid t) s).1 = s) ∧
    (∀ lid paths, (step (.mergeFrom lid paths) s).1 = s) :=
  ⟨fun _ _ _ => step_fst_eq _ s (Or.inl ⟨_, _, _, rfl⟩),
   fun _ _ _ => step_fst_eq _ s (Or.inr (Or.inl ⟨_, _, _, rfl⟩)),
   fun _ => rfl, fun _ => rfl, fun _ => rfl, fun _ => rfl,
   fun _ _ => step_fst_eq _ s (Or.inr (Or.inr (Or.inr (Or.inr (Or.inr (Or.inr (Or.inl ⟨_, _, rfl⟩))))))),
   fun _ _ => step_fst_eq _ s (Or.inr (Or.inr (Or.inr (Or.inr (Or.inr (Or.inr (Or.inr ⟨_, _, rfl⟩)))))))⟩

/-- C18 (h) `copy.copy` shares its children: the copy of a scenario / obstacle / planning problem IS the state (hidden caches
    included), the copy of a lanelet network differs only in having an index of its own. -/
theorem C18_shallow_copy_shares (s : St) (tgt : Target) :
    (tgt ≠ .net → (step (.shallowCopy tgt) s).2 = .ok (.copy s)) ∧
    (step (.shallowCopy .net) s).2 = .ok (.copy { s with net := { s.net with index := some s.net.lanelets } }) := by
  constructor
  · intro h
    simp only [step, h, if_false]
  · rfl

/-- C18 (i) `obstacles_by_position_intervals`, `map_obstacles_to_lanelets`, `Lanelet.get_obstacles` and draw + render leave
    the lanelet network (lanelets, registries, index) and the planning problems literally unchanged; the first three also
    the traffic lights; all they do to the obstacles is fill occupancy caches (`C18_obs_frame`). -/
theorem C18_occupancy_readers (s : St) :
    (∀ t ins, (step (.byIntervals t ins) s).1.net = s.net ∧ (step (.byIntervals t ins) s).1.problems = s.problems ∧
              (step (.byIntervals t ins) s).1.lights = s.lights) ∧
    (∀ oids rel, (step (.mapObstacles oids rel) s).1.net = s.net ∧ (step (.mapObstacles oids rel) s).1.problems = s.problems ∧
              (step (.mapObstacles oids rel) s).1.lights = s.lights) ∧
    (∀ lid oids t rel, (step (.getObstacles lid oids t rel) s).1.net = s.net ∧
              (step (.getObstacles lid oids t rel) s).1.problems = s.problems ∧ (step (.getObstacles lid oids t rel) s).1.lights = s.lights) ∧
    (∀ p, (step (.draw p) s).1.net = s.net ∧ (step (.draw p) s).1.problems = s.problems) := by
  refine ⟨fun _ _ => ⟨rfl, rfl, rfl⟩, fun _ _ => ⟨rfl, rfl, rfl⟩, fun _ _ _ _ => ⟨rfl, rfl, rfl⟩, ?_⟩
  intro p
  simp only [step]
  split
  · exact ⟨rfl, rfl⟩
  · split <;> exact ⟨rfl, rfl⟩

/-- the seeded `_harmonize_state_types` without the copy (`state_new = state`) writes the speed into the caller's state: a
    state with heading and both velocity components, checked against a goal that constrains the velocity -/
theorem C18_seeded_is_reached_without_copy :
    let st : TState := ⟨3, false, [("position", some 0), ("orientation", some 1), ("velocity", some 2), ("velocity_y", some 3)]⟩
    (isReachedNoCopy [["velocity"]] st [.ok true]).1 = { st with attrs := [("position", some 0), ("orientation", some 1), ("velocity", some (-1)), ("velocity_y", some 3)] } ∧
    (isReached [["velocity"]] st [.ok true]).1 = st ∧ (isReached [["velocity"]] st [.ok true]).2 = .ok true := by decide

/-- the seeded `dynamic_obstacle_by_time_step` with `setdefault` inserts the queried time step into the registry -/
theorem C18_seeded_setdefault_inserts :
    let l : Lanelet := { id := 100, cells := [], dynObs := [(1, [2])] }
    (l.dynByTimeSetdefault 7).1.dynObs = [(1, [2]), (7, [])] ∧ (l.dynByTime 7).1 = l ∧ (l.dynByTime 1).2 = [2] := by decide

/-- before the repair `merge_lanelets` wrote the second lanelet's obstacle ids into the first lanelet of the network -/
theorem C18_unrepaired_merge_changes_network :
    (mergePaths mergeRegsOld 100 [[101]] exampleLanelets).1 ≠ exampleLanelets ∧
    (mergePaths mergeRegs 100 [[101]] exampleLanelets).1 = exampleLanelets ∧
    (mergePaths mergeRegs 100 [[101]] exampleLanelets).2 = .ok [⟨[1], [(1, [2, 7]), (2, [2])]⟩] := by decide

def exampleDraw : DrawP := { scenario := true, tb := 0, te := 3, drawOcc := true, drawIcon := false, iconIds := [], history := 0 }

def exampleOps : List Op :=
  [.occ 2 2, .occs 1 none, .findPos [0, 1], .light 400 5, .deepcopy, .writePb true, .writeXml true, .reads [2] [400], .pickle,
   .reached 900 (.obsTraj 2 1) [.ok true, .ok false], .goalReached 900 (.own 2) [[.ok false, .ok false], [.ok false, .ok true]], .reached 900 .probInit [.ok false, .ok false],
   .eq .scenario, .hash (.obstacle 2), .shallowCopy .net, .byIntervals 1 [2], .findShape 5, .mapObstacles [1, 2] [(100, 2)],
   .getObstacles 100 [2] 2 [(100, 2)], .dynByTime 100 7, .mergeFrom 100 [[101]], .draw exampleDraw]

example : exampleSt.Inv := by
  refine ⟨?_, Or.inr rfl, ?_⟩
  · intro o ho
    simp only [exampleSt, List.mem_cons, List.not_mem_nil, or_false] at ho
    rcases ho with rfl | rfl | rfl <;> trivial
  · intro l hl
    simp only [exampleSt, List.mem_cons, List.not_mem_nil, or_false] at hl
    subst hl
    exact Or.inl rfl
example : exampleSt.net.index = some exampleSt.net.lanelets := rfl
/-- the operations are not the identity on the full state: they fill the hidden caches … -/
example : run exampleOps exampleSt ≠ exampleSt := by decide
/-- … while the observable part is untouched (instance of `C18_obs_frame_run`) -/
example : (run exampleOps exampleSt).obs = exampleSt.obs := C18_obs_frame_run _ _
/-- answers are non-trivial: the occupancy at t = 2 comes from the second trajectory state with a computed heading -/
example : (step (.occ 2 2) exampleSt).2 = .ok (.occ (some ⟨2, 2, .placed 6 13 (.atan2 15 14)⟩)) := by decide
example : (step (.findPos [0, 1]) exampleSt).2 = .ok (.idss [[100], []]) := by decide
example : (step (.findShape 5) exampleSt).2 = .ok (.ids [100]) := by decide
example : (step (.light 400 5) exampleSt).2 = .ok (.nat 0) := by decide
example : (step (.writeXml true) exampleSt).2 =
    .ok (.file ⟨[⟨1, [("position", 0), ("orientation", 1)], [], []⟩,
                 ⟨2, [("position", 2), ("orientation", 3)],
                     [(1, [("position", 10), ("velocity", 11), ("velocity_y", 12)]),
                      (2, [("position", 13), ("velocity", 14), ("velocity_y", 15)])], []⟩,
                 ⟨3, [], [], [⟨1, 3, 8⟩]⟩],
                [(900, [[], []])]⟩) := by decide
example : (step (.writePb true) exampleSt).2 = (step (.writePb true) (run exampleOps exampleSt)).2 :=
  ((C18_export_same exampleOps exampleSt true).2).symm

example : (step (.reached 900 (.obsTraj 2 1) [.ok false, .ok true]) exampleSt).2 = .ok (.bool true) := by decide
example : (step (.reached 900 (.obsInit 1) [.ok true, .ok true]) exampleSt).2 = .error .value := by decide
example : (step (.reached 900 .probInit [.ok true, .ok false]) exampleSt).2 = .ok (.bool true) := by decide
example : (step (.byIntervals 1 [2]) exampleSt).2 = .ok (.ids [2]) := by decide
example : (step (.mapObstacles [1, 2] [(100, 2)]) exampleSt).2 = .ok (.mapping [(100, [2])]) := by decide
example : (step (.dynByTime 101 1) exampleSt).2 = .ok (.ids [7]) := by decide
/-- drawing with occupancies from t = 0 to 3 fills the occupancy cache of obstacle 2 and the cache of the light -/
example : (step (.draw exampleDraw) exampleSt).1 ≠ exampleSt ∧ (step (.draw exampleDraw) exampleSt).2 = .ok .unit := by decide

end CR.Frame
