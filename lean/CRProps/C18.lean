import CRModel.Frame
namespace CR.Frame
theorem C18_placeholder : True := trivial
end CR.Frame
