/-
  C18 — Read-only operations do not change scenarios or planning problems.
  Property theorems (helper lemmas: CRProofs/Frame.lean; model: CRModel/Frame.lean).

  The model runs every listed operation as `step op : St → St × Res Out` over the observable state plus the hidden caches
  the operation touches (occupancy cache of a trajectory prediction, lanelet index, `_cycle_init_timesteps`).
  `St` holds: every obstacle with its states as ordered attribute lists (names, order, value tokens) and its prediction;
  every lanelet with successors, predecessors, obstacle registries and light references; the lights with cycle, offset and
  activity; the planning problems with initial state, goal states (attributes with tokens) and goal-lanelet table (dict
  kind, keys, key order); and `Extra`: one content token for every other public attribute of scenario, obstacles, lanelets,
  signs, lights, intersections and network.  `St.obs` blanks the three hidden caches and nothing else.

  `step` takes the variant of the code as an instance argument (`Sem`); the default instance is the code as it is
  (`Sem.repaired`), so `step op s` below is about the repaired tree.  Where a theorem is about another variant it says
  `(sem := Sem.legacy)` / `(sem := Sem.seeded)`.

  Which operations can violate the frame in this model, i.e. where `C18_obs_frame` rests on a proof and not on the shape of
  the definition:
    * everything that evaluates `prediction.occupancy_set` (occupancy_at_time, occupancy_set, occupancies_at_time_step,
      obstacles_by_position_intervals, map_obstacles_to_lanelets, get_obstacles, draw, the generic `reads`): the
      computation runs as a transformer of the trajectory's state list and what it returns is stored back
      (`C18_occupancy_computation_keeps_states`; `Sem.occWritesOrientation` breaks it: `C18_legacy_occupancy_query_changes_states`);
    * both writers: the goal-lanelet table is threaded through every lookup (`C18_export_total`;
      `Sem.pbIndexesTable` breaks it: `C18_legacy_pb_writer_inserts`, `C18_legacy_pb_writer_keyerror`);
    * is_reached / goal_reached: run on an object store, slot 0 is written back (`C18_is_reached_state_untouched`,
      `C18_goal_reached_states_untouched`; `Sem.harmonizeNoCopy` breaks it: `C18_seeded_is_reached_without_copy_witness`);
    * dynamic_obstacle_by_time_step and the merge queries: the registries of the lanelet are written back
      (`C18_pure_operations_identity`; `Sem.dynByTimeInserts`, `Sem.mergeInPlace` break it:
      `C18_seeded_setdefault_inserts`, `C18_legacy_merge_changes_first_lanelet`).
  For state_at_time, obstacle_states_at_time_step, find_lanelet_by_position / _by_shape, ==, hash, copy.copy the code
  contains no assignment to anything reachable from the scenario and the model has none either; for the traffic-light
  query, deepcopy and pickle the only assignments are to the hidden cache / index.  For these operations the frame is
  definitional; what ties them to the code is the correspondence (state view after every step) and the oracle.
-/
import CRProofs.Frame
namespace CR.Frame

/-- C18 (a) **observation frame** of the code as it is: a single read-only operation — any of the 28 modelled kinds, with
    any arguments, whether it succeeds or raises — leaves the observable state unchanged.  (Proof content per operation
    kind: see the file header; definitional for the kinds listed there.) -/
theorem C18_obs_frame (op : Op) (s : St) : (step op s).1.obs = s.obs := step_obs op s

/-- C18 (a') for all finite sequences of modelled operations (induction over the sequence, no length bound). -/
theorem C18_obs_frame_run (ops : List Op) (s : St) : (run ops s).obs = s.obs := run_obs ops s

/-- every intermediate state of a run (what the driver's `trace` reports step by step) is observably the initial state -/
theorem C18_obs_frame_trace (ops : List Op) (s : St) : ∀ r ∈ trace ops s, r.1.obs = s.obs := by
  induction ops generalizing s with
  | nil => intro r hr; simp [trace] at hr
  | cons op rest ih =>
    intro r hr
    simp only [trace, List.mem_cons] at hr
    rcases hr with rfl | hr
    · exact step_obs op s
    · rw [ih (step op s).1 r hr, step_obs]

/-! ### The proof obligations behind the frame -/

/-- C18 (a.1) the occupancy computation `_create_occupancy_set`, run as a transformer of the trajectory's state list, hands
    every state back as it was — for every shape and every list of states, also when it raises half way — and what it
    computes is `createOccs`. -/
theorem C18_occupancy_computation_keeps_states (sh : Int) (ss : List TState) :
    (createOccSet sh ss).1 = ss ∧ (createOccSet sh ss).2 = createOccs sh ss := by
  rw [createOccSet_eq]
  exact ⟨rfl, rfl⟩

/-- C18 (a.2) `GoalRegion.is_reached(state)` hands the checked state back with the same attributes in the same order with
    the same values — for a state passed in from outside as well as for one the scenario owns, for every goal region,
    whatever the decisions, and also when the check raises.  (The check runs on an object store in which the copy made by
    `_harmonize_state_types` and the rebuilt `CustomState` are separate slots; `(isReached …).1` is slot 0 afterwards.) -/
theorem C18_is_reached_state_untouched (goals : List (List String)) (st : TState) (dec : List (Res Bool)) :
    (isReached goals st dec).1 = st := isReached_fst goals st dec

/-- C18 (a.3) `PlanningProblem.goal_reached(trajectory)`: every state of the trajectory is handed back as it was. -/
theorem C18_goal_reached_states_untouched (goals : List (List String)) (ss : List TState) (ds : List (List (Res Bool))) :
    (goalReachedStates goals ss ds).1 = ss := goalReachedStates_fst goals ss ds

/-- C18 (a.4) goal checks (on own or foreign states), `Lanelet.dynamic_obstacle_by_time_step` and the merge queries return
    exactly the state they were given: the states, the planning problem's initial state and the obstacle registries of
    every lanelet that were threaded through the operation come back identical, and not even a hidden cache is filled.
    (For `==`, `hash`, `copy.copy`, `find_lanelet_by_shape` the same holds by definition: no assignment in the code.) -/
theorem C18_pure_operations_identity (s : St) :
    (∀ pid loc dec, (step (.reached pid loc dec) s).1 = s) ∧ (∀ pid src decs, (step (.goalReached pid src decs) s).1 = s) ∧
    (∀ lid t, (step (.dynByTime lid t) s).1 = s) ∧ (∀ lid paths, (step (.mergeFrom lid paths) s).1 = s) ∧
    (∀ t, (step (.eq t) s).1 = s) ∧ (∀ t, (step (.hash t) s).1 = s) ∧ (∀ t, (step (.shallowCopy t) s).1 = s) ∧
    (∀ sh, (step (.findShape sh) s).1 = s) :=
  ⟨fun _ _ _ => step_fst_eq _ s (Or.inl ⟨_, _, _, rfl⟩),
   fun _ _ _ => step_fst_eq _ s (Or.inr (Or.inl ⟨_, _, _, rfl⟩)),
   fun _ _ => step_fst_eq _ s (Or.inr (Or.inr (Or.inr (Or.inr (Or.inr (Or.inr (Or.inl ⟨_, _, rfl⟩))))))),
   fun _ _ => step_fst_eq _ s (Or.inr (Or.inr (Or.inr (Or.inr (Or.inr (Or.inr (Or.inr ⟨_, _, rfl⟩))))))),
   fun _ => rfl, fun _ => rfl, fun _ => rfl, fun _ => rfl⟩

/-- C18 (a.5) both writers thread the goal-lanelet table of every planning problem through every lookup and hand the whole
    state back identical; the lookup never fails (no KeyError for a plain dict with missing keys). -/
theorem C18_export_total (s : St) (wp : Bool) :
    (∃ f, (step (.writeXml wp) s).2 = .ok (.file f)) ∧ (∃ f, (step (.writePb wp) s).2 = .ok (.file f)) ∧
    (step (.writeXml wp) s).1 = s ∧ (step (.writePb wp) s).1 = s := by
  refine ⟨?_, ?_, ?_, ?_⟩
  · obtain ⟨f, hf⟩ := St.write_ok true wp s
    exact ⟨f, by simp only [step, hf]; rfl⟩
  · obtain ⟨f, hf⟩ := St.write_ok false wp s
    exact ⟨f, by simp only [step, pbLook_eq, hf]; rfl⟩
  · simp only [step, St.write_fst]
  · simp only [step, pbLook_eq, St.write_fst]

/-- C18 (a.6) `copy.copy` shares its children: the copy of a scenario / obstacle / planning problem IS the state (hidden caches
    included), the copy of a lanelet network differs only in having an index of its own.  (definitional: documents the model) -/
theorem C18_shallow_copy_shares (s : St) (tgt : Target) :
    (tgt ≠ .net → (step (.shallowCopy tgt) s).2 = .ok (.copy s)) ∧
    (step (.shallowCopy .net) s).2 = .ok (.copy { s with net := { s.net with index := some s.net.lanelets } }) := by
  constructor
  · intro h
    simp only [step, h, if_false]
  · rfl

/-- C18 (a.7) `obstacles_by_position_intervals`, `map_obstacles_to_lanelets`, `Lanelet.get_obstacles` and draw + render leave
    the lanelet network (lanelets, registries, index), the planning problems and `Extra` literally unchanged; the first
    three also the traffic lights.  (definitional: these fields are not threaded through the occupancy queries; what the
    queries do to the obstacles is `C18_obs_frame` with (a.1).) -/
theorem C18_occupancy_readers (s : St) :
    (∀ t ins, (step (.byIntervals t ins) s).1.net = s.net ∧ (step (.byIntervals t ins) s).1.problems = s.problems ∧
              (step (.byIntervals t ins) s).1.lights = s.lights) ∧
    (∀ oids rel, (step (.mapObstacles oids rel) s).1.net = s.net ∧ (step (.mapObstacles oids rel) s).1.problems = s.problems ∧
              (step (.mapObstacles oids rel) s).1.lights = s.lights) ∧
    (∀ lid oids t rel, (step (.getObstacles lid oids t rel) s).1.net = s.net ∧
              (step (.getObstacles lid oids t rel) s).1.problems = s.problems ∧ (step (.getObstacles lid oids t rel) s).1.lights = s.lights) ∧
    (∀ p, (step (.draw p) s).1.net = s.net ∧ (step (.draw p) s).1.problems = s.problems ∧ (step (.draw p) s).1.extra = s.extra) := by
  refine ⟨fun _ _ => ⟨rfl, rfl, rfl⟩, fun _ _ => ⟨rfl, rfl, rfl⟩, fun _ _ _ _ => ⟨rfl, rfl, rfl⟩, ?_⟩
  intro p
  simp only [step]
  split
  · exact ⟨rfl, rfl, rfl⟩
  · split <;> exact ⟨rfl, rfl, rfl⟩

/-! ### Export -/

/-- C18 (b) **the export is a function of the observable state**: what either writer puts into the file — obstacles with
    all states, planning problems with initial state, goal states and goal lanelets, lanelets, lights and every attribute
    in `Extra` — and whether it fails is determined by `s.obs`; hidden caches do not enter. -/
theorem C18_export_function_of_obs (s : St) (wp : Bool) :
    (step (.writeXml wp) s).2 = (step (.writeXml wp) s.obs).2 ∧ (step (.writePb wp) s).2 = (step (.writePb wp) s.obs).2 := by
  constructor
  · simp only [step]
    rw [St.write_snd_congr goalLanelets true wp s s.obs (St.obs_obs s).symm]
  · simp only [step]
    rw [St.write_snd_congr pbLook false wp s s.obs (St.obs_obs s).symm]

/-- C18 (b') **export_same** (corollary of (b) and (a')): exporting before and after any sequence of modelled operations
    gives the same file, for both writers, with and without planning problems.  No assumption on the hidden caches. -/
theorem C18_export_same (ops : List Op) (s : St) (wp : Bool) :
    (step (.writeXml wp) (run ops s)).2 = (step (.writeXml wp) s).2 ∧
    (step (.writePb wp) (run ops s)).2 = (step (.writePb wp) s).2 := by
  have h1 := C18_export_function_of_obs (run ops s) wp
  have h2 := C18_export_function_of_obs s wp
  rw [run_obs ops s] at h1
  exact ⟨h1.1.trans h2.1.symm, h1.2.trans h2.2.symm⟩

/-! ### Hidden caches and answers -/

/-- C18 (c) the hidden caches stay consistent with the observable state along every sequence. -/
theorem C18_caches_consistent (ops : List Op) (s : St) (h : s.Inv) : (run ops s).Inv := run_inv ops s h

/-- C18 (d) **answers are stable**: with consistent caches, the answer of any operation after any sequence of modelled
    operations is the answer it gives right away (a returned copy is compared through `obs`), provided the lanelet index
    is in the same built / not-built condition. -/
theorem C18_answers_stable_gen (ops : List Op) (op : Op) (s : St) (h : s.Inv)
    (hi : (run ops s).net.index.isSome = s.net.index.isSome) :
    (step op (run ops s)).2.map Out.obs = (step op s).2.map Out.obs :=
  answer_congr op (run ops s) s (run_inv ops s h) h (run_obs ops s) hi

/-- C18 (d') for a scenario whose lanelet index has been built (every network built through the public constructors, every
    unpickled or deep-copied network): all answers are stable, including those of `find_lanelet_by_position`. -/
theorem C18_answers_stable (ops : List Op) (op : Op) (s : St) (h : s.Inv) (hi : s.net.index = some s.net.lanelets) :
    (step op (run ops s)).2.map Out.obs = (step op s).2.map Out.obs := by
  apply C18_answers_stable_gen ops op s h
  rw [run_index ops s hi, hi]
  rfl

/-- C18 (e) `copy.deepcopy` leaves a built index built and equal to what it was (drop + rebuild is the identity on a
    consistent network), and builds a missing one. -/
theorem C18_deepcopy_index (s : St) :
    (s.net.index = some s.net.lanelets → (step .deepcopy s).1 = s) ∧
    (step .deepcopy s).1.net.index = some s.net.lanelets := by
  constructor
  · intro h
    simp only [step, Net.deepcopy, Net.rebuild]
    cases s with
    | mk os net ls ps ex =>
      cases net with
      | mk lan idx =>
        simp only at h
        simp only [h]
  · rfl

/-! ### The variants: the frame is a statement that fails for the code as it was -/

/-- **Legacy occupancy computation** (`Sem.occWritesOrientation`, the pinned tree): for EVERY scenario state whose first
    obstacle is a dynamic obstacle with a not yet evaluated trajectory prediction whose first state has no `orientation` but
    a computable heading, querying its occupancy at any time step after the initial one changes the observable state —
    whatever the other states, obstacles, lanelets, lights, problems are, and whether or not the query succeeds. -/
theorem C18_legacy_occupancy_query_changes_states (oid : Nat) (init : TState) (r : Region) (t1 : Int) (st : TState)
    (ss : List TState) (sh : Int) (rest : List Obstacle) (net : Net) (lights : List Light) (problems : List Problem)
    (extra : Extra) (t : Int) (ori : Ori)
    (ht : t > init.t) (h1 : st.hasattr "orientation" = false) (h2 : stateOri st = .ok ori) :
    let s : St := ⟨.dynamic oid init r (.traj t1 (st :: ss) sh none) :: rest, net, lights, problems, extra⟩
    (step (sem := Sem.legacy) (.occ oid t) s).1.obs ≠ s.obs := by
  intro s
  obtain ⟨tl, c, hp⟩ := Pred.occSet_legacy_head t1 sh st ss ori h1 h2
  have hne : t ≠ init.t := by omega
  intro heq
  have h := congrArg (fun x => x.obstacles.head?) heq
  simp only [s, step, St.obs, withObstacle, Obstacle.id, if_true, Obstacle.occAt, hne, if_false, ht, ne_eq, reduceCtorEq,
    not_false_eq_true, and_self, Pred.occAt, hp, List.map_cons, List.head?_cons, Obstacle.obs, Pred.obs, Option.some.injEq,
    Obstacle.dynamic.injEq, Pred.traj.injEq, List.cons.injEq, true_and, and_true] at h
  exact withOri_ne st 0 h.1

/-- The same family on the level of the computation: legacy `_create_occupancy_set` replaces such a first state. -/
theorem C18_legacy_occupancy_computation_changes_states (sh : Int) (st : TState) (ss : List TState) (ori : Ori)
    (h1 : st.hasattr "orientation" = false) (h2 : stateOri st = .ok ori) :
    (createOccSet (sem := Sem.legacy) sh (st :: ss)).1 ≠ st :: ss := by
  obtain ⟨tl, htl⟩ := createOccLoop_legacy_head sh st ss 0 ori h1 h2
  simp only [createOccSet, htl]
  intro h
  exact withOri_ne st 0 (List.cons.inj h).1

/-- **Legacy protobuf writer** (`Sem.pbIndexesTable`, the pinned tree) on a `defaultdict`: for EVERY scenario state whose
    first planning problem has a `collections.defaultdict(list)` goal-lanelet table that lacks the index of one of its goal
    states, writing protobuf changes that planning problem (its table gets longer) — whatever the rest of the state is. -/
theorem C18_legacy_pb_writer_inserts (p : Problem) (items : List (Nat × List Nat)) (rest : List Problem) (os : List Obstacle)
    (net : Net) (lights : List Light) (extra : Extra) (k : Nat)
    (ht : p.tbl = some ⟨.dflt, items⟩) (hk : k < p.goals.length) (hmiss : items.lookup k = none) :
    let s : St := ⟨os, net, lights, p :: rest, extra⟩
    (step (sem := Sem.legacy) (.writePb true) s).1.obs ≠ s.obs := by
  intro s heq
  have hlen : k < p.hasPos.length := by simpa [Problem.hasPos, Problem.goalFields] using hk
  obtain ⟨items', h1, _, h3⟩ := goalLoopOld_dflt false p.hasPos items 0
  have hlt := h3 ⟨k, hlen, by simpa using hmiss⟩
  have h := congrArg (fun x => x.problems.head?.map (·.tbl)) heq
  have hw : (Problem.write goalLaneletsOld false p).1.tbl = some ⟨.dflt, items'⟩ := by
    simp only [Problem.write, ht, h1]
  have hhead : (problemsWrite goalLaneletsOld false (p :: rest)).1.head?.map (·.tbl) = some (some ⟨.dflt, items'⟩) := by
    simp only [problemsWrite]
    split <;> simp only [List.head?_cons, Option.map_some, hw]
  have hl : pbLook (sem := Sem.legacy) = goalLaneletsOld := rfl
  simp only [s, step, St.obs, St.write, if_true, hl, hhead, List.head?_cons, Option.map_some, ht, Option.some.injEq,
    Tbl.mk.injEq, true_and] at h
  rw [h] at hlt
  exact Nat.lt_irrefl _ hlt

/-- **Legacy protobuf writer** on a plain `dict`: for EVERY scenario state whose first planning problem has a plain-dict table
    that lacks the index of one of its goal states, writing protobuf fails with KeyError — where the code as it is writes
    the file (`C18_export_total`) and the XML writer always did. -/
theorem C18_legacy_pb_writer_keyerror (p : Problem) (items : List (Nat × List Nat)) (rest : List Problem) (os : List Obstacle)
    (net : Net) (lights : List Light) (extra : Extra) (k : Nat)
    (ht : p.tbl = some ⟨.plain, items⟩) (hk : k < p.goals.length) (hmiss : items.lookup k = none) :
    let s : St := ⟨os, net, lights, p :: rest, extra⟩
    (step (sem := Sem.legacy) (.writePb true) s).2 = .error .key ∧ (∃ f, (step (.writePb true) s).2 = .ok (.file f)) := by
  intro s
  have hlen : k < p.hasPos.length := by simpa [Problem.hasPos, Problem.goalFields] using hk
  have h := goalLoopOld_plain false p.hasPos items 0 ⟨k, hlen, by simpa using hmiss⟩
  refine ⟨?_, (C18_export_total s true).2.1⟩
  have hw : (Problem.write goalLaneletsOld false p).2 = .error .key := by
    simp only [Problem.write, ht, h.1]; rfl
  have hl : pbLook (sem := Sem.legacy) = goalLaneletsOld := rfl
  simp only [s, step, St.write, if_true, hl, problemsWrite, hw]
  rfl

/-- **Legacy merge** (`Sem.mergeInPlace`, the pinned tree): whenever the second lanelet carries a static obstacle id the
    first one lacks, `merge_lanelets` changed the first lanelet's registry; the repaired merge returns it as it was. -/
theorem C18_legacy_merge_changes_first_lanelet (a b : Regs) (x : Nat) (hx : x ∈ b.staticObs) (hn : x ∉ a.staticObs) :
    (mergeRegsOf (sem := Sem.legacy) a b).1 ≠ a ∧ (mergeRegsOf a b).1 = a := by
  constructor
  · intro h
    have hl := unionIds_length a.staticObs b.staticObs x hx hn
    have hm : mergeRegsOf (sem := Sem.legacy) = mergeRegsOld := rfl
    have := congrArg (fun r => r.staticObs.length) h
    simp only [hm, mergeRegsOld] at this
    omega
  · rfl

/-! ### Witnesses on literals (each is one concrete instance, not a general statement) -/

/-- two consecutive lanelets; obstacle 1 is registered on the second one, obstacle 2 on the first at t = 1; query point 0 and
    query shape 5 lie on the first; light 400 is valid for the first -/
def exampleLanelets : List Lanelet :=
  [{ id := 100, cells := [0, 5], succ := [101], dynObs := [(1, [2])], lights := [400] },
   { id := 101, cells := [], pred := [100], staticObs := [1], dynObs := [(1, [7]), (2, [2])] }]

/-- witness: the seeded `_harmonize_state_types` without the copy (`state_new = state`) writes the speed into the caller's
    state — a state with heading and both velocity components, checked against a goal that constrains the velocity -/
theorem C18_seeded_is_reached_without_copy_witness :
    let st : TState := ⟨3, false, [("position", some 0), ("orientation", some 1), ("velocity", some 2), ("velocity_y", some 3)]⟩
    (isReached (sem := Sem.seeded) [["velocity"]] st [.ok true]).1 =
      { st with attrs := [("position", some 0), ("orientation", some 1), ("velocity", some (-1)), ("velocity_y", some 3)] } ∧
    (isReached [["velocity"]] st [.ok true]).1 = st ∧ (isReached [["velocity"]] st [.ok true]).2 = .ok true := by decide

/-- the seeded `dynamic_obstacle_by_time_step` with `setdefault`: for EVERY lanelet and every time step that is not a key of
    its registry the query appends that key; the code as it is returns the lanelet as it was -/
theorem C18_seeded_setdefault_inserts (l : Lanelet) (t : Int) (h : l.dynObs.lookup t = none) :
    (l.dynByTimeOf (sem := Sem.seeded) t).1.dynObs = l.dynObs ++ [(t, [])] ∧ (l.dynByTimeOf t).1 = l := by
  constructor
  · have hd : l.dynByTimeOf (sem := Sem.seeded) t = l.dynByTimeSetdefault t := rfl
    simp only [hd, Lanelet.dynByTimeSetdefault, h]
  · rw [dynByTimeOf_eq, Lanelet.dynByTime_fst]

/-- witness: the legacy merge query on the example network changes lanelet 100, the repaired one does not and answers with
    the united registries -/
theorem C18_legacy_merge_witness :
    (mergePaths (mergeRegsOf (sem := Sem.legacy)) 100 [[101]] exampleLanelets).1 ≠ exampleLanelets ∧
    (mergePaths mergeRegsOf 100 [[101]] exampleLanelets).1 = exampleLanelets ∧
    (mergePaths mergeRegsOf 100 [[101]] exampleLanelets).2 = .ok [⟨[1], [(1, [2, 7]), (2, [2])]⟩] := by decide

/-! ### Non-vacuity: a concrete scenario, consistent caches, operations that do fill the hidden caches -/

/-- one static obstacle, one dynamic obstacle with a two-state CustomState(position, velocity, velocity_y) trajectory, a
    phantom obstacle, the two example lanelets, one light, one planning problem with a defaultdict table that lacks key 0 -/
def exampleSt : St :=
  { obstacles := [
      .static 1 ⟨0, false, [("position", some 0), ("orientation", some 1)]⟩ (.placed 5 0 (.tok 1)),
      .dynamic 2 ⟨0, false, [("position", some 2), ("orientation", some 3), ("velocity", none)]⟩ (.placed 6 2 (.tok 3))
        (.traj 1 [⟨1, false, [("position", some 10), ("velocity", some 11), ("velocity_y", some 12)]⟩,
                  ⟨2, false, [("position", some 13), ("velocity", some 14), ("velocity_y", some 15)]⟩] 6 none),
      .phantom 3 (.setBased [⟨1, 3, 8⟩])],
    net := ⟨exampleLanelets, some exampleLanelets⟩,
    lights := [{ id := 400, es := [(0, 2), (3, 1)], off := 1, cache := none }],
    problems := [{ id := 900, init := ⟨0, false, [("position", some 20), ("orientation", some 21), ("velocity", some 22)]⟩,
                   goals := [[("time_step", 30), ("position", 31), ("velocity", 32)], [("time_step", 33), ("orientation", 34)]],
                   tbl := some ⟨.dflt, [(1, [100])]⟩ }],
    extra := { scenario := [("dt", 40), ("author", 41)], lanelets := [(100, [("left_vertices", 42)]), (101, [("left_vertices", 43)])],
               obstacles := [(1, [("obstacle_type", 44)]), (2, [("obstacle_type", 45), ("signal_series", 46)])] } }

def exampleDraw : DrawP := { scenario := true, tb := 0, te := 3, drawOcc := true, drawIcon := false, iconIds := [], history := 0 }

def exampleOps : List Op :=
  [.occ 2 2, .occs 1 none, .findPos [0, 1], .light 400 5, .deepcopy, .writePb true, .writeXml true, .reads [2] [400], .pickle,
   .reached 900 (.obsTraj 2 1) [.ok true, .ok false], .goalReached 900 (.own 2) [[.ok false, .ok false], [.ok false, .ok true]],
   .reached 900 .probInit [.ok false, .ok false],
   .eq .scenario, .hash (.obstacle 2), .shallowCopy .net, .byIntervals 1 [2], .findShape 5, .mapObstacles [1, 2] [(100, 2)],
   .getObstacles 100 [2] 2 [(100, 2)], .dynByTime 100 7, .mergeFrom 100 [[101]], .draw exampleDraw]

example : exampleSt.Inv := by
  refine ⟨?_, Or.inr rfl, ?_⟩
  · intro o ho
    simp only [exampleSt, List.mem_cons, List.not_mem_nil, or_false] at ho
    rcases ho with rfl | rfl | rfl <;> trivial
  · intro l hl
    simp only [exampleSt, List.mem_cons, List.not_mem_nil, or_false] at hl
    subst hl
    exact Or.inl rfl
example : exampleSt.net.index = some exampleSt.net.lanelets := rfl
/-- the operations are not the identity on the full state: they fill the hidden caches … -/
example : run exampleOps exampleSt ≠ exampleSt := by decide
/-- … while the observable part is untouched (instance of `C18_obs_frame_run`) -/
example : (run exampleOps exampleSt).obs = exampleSt.obs := C18_obs_frame_run _ _
/-- the same operations under the legacy variant DO change the observable state (the hypotheses of the legacy theorems are
    satisfiable: obstacle 2 has an orientation-less trajectory, the table lacks key 0) -/
example : (run (sem := Sem.legacy) exampleOps exampleSt).obs ≠ exampleSt.obs := by decide
example : (step (sem := Sem.legacy) (.writePb true) exampleSt).1.problems.map (·.tbl) = [some ⟨.dflt, [(1, [100]), (0, [])]⟩] := by decide
/-- answers are non-trivial: the occupancy at t = 2 comes from the second trajectory state with a computed heading -/
example : (step (.occ 2 2) exampleSt).2 = .ok (.occ (some ⟨2, 2, .placed 6 13 (.atan2 15 14)⟩)) := by decide
example : (step (.findPos [0, 1]) exampleSt).2 = .ok (.idss [[100], []]) := by decide
example : (step (.findShape 5) exampleSt).2 = .ok (.ids [100]) := by decide
example : (step (.light 400 5) exampleSt).2 = .ok (.nat 0) := by decide
example : (step (.writeXml true) exampleSt).2 =
    .ok (.file { obstacles := [⟨1, [("position", 0), ("orientation", 1)], [], []⟩,
                               ⟨2, [("position", 2), ("orientation", 3)],
                                   [(1, [("position", 10), ("velocity", 11), ("velocity_y", 12)]),
                                    (2, [("position", 13), ("velocity", 14), ("velocity_y", 15)])], []⟩,
                               ⟨3, [], [], [⟨1, 3, 8⟩]⟩],
                 problems := [⟨900, [("position", 20), ("orientation", 21), ("velocity", 22)],
                               [[("time_step", 30), ("position", 31), ("velocity", 32)], [("time_step", 33), ("orientation", 34)]], [[], []]⟩],
                 lanelets := [⟨100, [101], [], [400]⟩, ⟨101, [], [100], []⟩],
                 lights := [⟨400, [(0, 2), (3, 1)], 1, true⟩],
                 extra := exampleSt.extra }) := by decide
example : (step (.writePb true) exampleSt).2 = (step (.writePb true) (run exampleOps exampleSt)).2 :=
  ((C18_export_same exampleOps exampleSt true).2).symm
example : (step (.reached 900 (.obsTraj 2 1) [.ok false, .ok true]) exampleSt).2 = .ok (.bool true) := by decide
example : (step (.reached 900 (.obsInit 1) [.ok true, .ok true]) exampleSt).2 = .error .value := by decide
example : (step (.reached 900 .probInit [.ok true, .ok false]) exampleSt).2 = .ok (.bool true) := by decide
example : (step (.byIntervals 1 [2]) exampleSt).2 = .ok (.ids [2]) := by decide
example : (step (.mapObstacles [1, 2] [(100, 2)]) exampleSt).2 = .ok (.mapping [(100, [2])]) := by decide
example : (step (.dynByTime 101 1) exampleSt).2 = .ok (.ids [7]) := by decide
/-- drawing with occupancies from t = 0 to 3 fills the occupancy cache of obstacle 2 and the cache of the light -/
example : (step (.draw exampleDraw) exampleSt).1 ≠ exampleSt ∧ (step (.draw exampleDraw) exampleSt).2 = .ok .unit := by decide

/-! ### Footprint: WHICH hidden slot an operation kind can fill (the model side of the translator tie CRProps/T18.lean, which extracts
    from the current source which cache attributes the corresponding Python functions can bind) -/

/-- the operation kinds that can fill an occupancy cache (they evaluate `prediction.occupancy_set`) -/
def Op.fillsOccCache : Op → Bool
  | .occ .. | .occs .. | .occSet .. | .reads .. | .byIntervals .. | .mapObstacles .. | .getObstacles .. | .draw .. => true
  | _ => false

/-- … the lanelet index (`__deepcopy__` drops and rebuilds it) -/
def Op.rebuildsIndex : Op → Bool
  | .deepcopy => true
  | _ => false

/-- … a `_cycle_init_timesteps` table -/
def Op.fillsLightCache : Op → Bool
  | .light .. | .reads .. | .draw .. => true
  | _ => false

theorem footprint_of_eq (op : Op) (s : St) (h : (step op s).1 = s) :
    (op.fillsOccCache = false → (step op s).1.obstacles = s.obstacles) ∧
    (op.rebuildsIndex = false → (step op s).1.net = s.net) ∧
    (op.fillsLightCache = false → (step op s).1.lights = s.lights) ∧
    (step op s).1.problems = s.problems ∧ (step op s).1.extra = s.extra := by
  rw [h]; exact ⟨fun _ => rfl, fun _ => rfl, fun _ => rfl, rfl, rfl⟩

/-- C18 (f) **footprint**: an operation kind that is not listed as filling a hidden slot hands that component of the state back
    identical (not only up to `obs`), and no operation kind touches the planning problems or `Extra` at all. -/
theorem C18_footprint (op : Op) (s : St) :
    (op.fillsOccCache = false → (step op s).1.obstacles = s.obstacles) ∧
    (op.rebuildsIndex = false → (step op s).1.net = s.net) ∧
    (op.fillsLightCache = false → (step op s).1.lights = s.lights) ∧
    (step op s).1.problems = s.problems ∧ (step op s).1.extra = s.extra := by
  cases op with
  | occ oid t => simp [step, Op.fillsOccCache, Op.rebuildsIndex, Op.fillsLightCache]
  | state oid t =>
    refine footprint_of_eq _ s ?_
    simp only [step]
    rw [withObstacle_fst _ (fun o => rfl)]
  | occs t role =>
    simp only [step]; split <;> simp [Op.fillsOccCache, Op.rebuildsIndex, Op.fillsLightCache]
  | statesAt t => simp only [step]; split <;> simp
  | occSet oid => simp [step, Op.fillsOccCache, Op.rebuildsIndex, Op.fillsLightCache]
  | findPos pts => simp [step]
  | light lid t => simp [step, Op.fillsOccCache, Op.rebuildsIndex, Op.fillsLightCache]
  | reads oq lq => simp [step, Op.fillsOccCache, Op.rebuildsIndex, Op.fillsLightCache]
  | reached pid loc dec => exact footprint_of_eq _ s (step_fst_eq _ s (Or.inl ⟨_, _, _, rfl⟩))
  | goalReached pid src decs => exact footprint_of_eq _ s (step_fst_eq _ s (Or.inr (Or.inl ⟨_, _, _, rfl⟩)))
  | eq t => exact footprint_of_eq _ s rfl
  | hash t => exact footprint_of_eq _ s rfl
  | shallowCopy t => exact footprint_of_eq _ s rfl
  | byIntervals t inside => simp [step, Op.fillsOccCache, Op.rebuildsIndex, Op.fillsLightCache]
  | findShape sh => exact footprint_of_eq _ s rfl
  | mapObstacles oids rel => simp [step, Op.fillsOccCache, Op.rebuildsIndex, Op.fillsLightCache]
  | getObstacles lid oids t rel => simp [step, Op.fillsOccCache, Op.rebuildsIndex, Op.fillsLightCache]
  | dynByTime lid t => exact footprint_of_eq _ s (step_fst_eq _ s (Or.inr (Or.inr (Or.inr (Or.inr (Or.inr (Or.inr (Or.inl ⟨_, _, rfl⟩))))))))
  | mergeFrom lid paths => exact footprint_of_eq _ s (step_fst_eq _ s (Or.inr (Or.inr (Or.inr (Or.inr (Or.inr (Or.inr (Or.inr ⟨_, _, rfl⟩))))))))
  | draw p =>
    simp only [step]
    split
    · simp [Op.fillsOccCache, Op.rebuildsIndex, Op.fillsLightCache]
    · split <;> simp [Op.fillsOccCache, Op.rebuildsIndex, Op.fillsLightCache]
  | deepcopy => simp [step, Op.fillsOccCache, Op.rebuildsIndex, Op.fillsLightCache]
  | pickle => simp [step, Op.fillsOccCache, Op.rebuildsIndex, Op.fillsLightCache, Net.pickle]
  | writeXml wp => exact footprint_of_eq _ s (by simp only [step]; exact St.write_fst _ _ _)
  | writePb wp => exact footprint_of_eq _ s (by simp only [step, pbLook_eq]; exact St.write_fst _ _ _)


end CR.Frame
