/-
  T19 — translator tie for C19: the definitions of `Gen.SrcC19` (re-generated on every run by
  harness/translate/src_c19.py from the current source of mp_renderer.py / draw_params.py) equal the hand model.
-/
import Gen.SrcC19
import CRProps.C19
import Mathlib.Tactic.SplitIfs
set_option linter.unusedSimpArgs false
set_option linter.unusedVariables false

namespace CR.T19
open CR CR.Draw CR.Params CR.PyC19

theorem tie_flagsOf (g : Grp) : Gen.flagsOf g = CR.Draw.flagsOf g := by
  rfl

theorem ite_some_isSome {α : Type} (c : Prop) [Decidable c] (a : α) : (if c then some a else none).isSome = decide c := by
  split <;> simp_all
theorem ite_some_getD {α : Type} (c : Prop) [Decidable c] (a d : α) : (if c then some a else none).getD d = if c then a else d := by
  split <;> simp_all

/-- `_draw_occupancy(occ, state, …)`: the occupancy if there is one, the uncertain position of the state if there is one. -/
theorem draw_occupancy_eq (occ : Option OccH) (st : Option StH) :
    Gen._draw_occupancy occ st =
      (if occ.isSome then [Item.occ (occ.getD default).t] else []) ++
      (if st.isSome && (st.getD default).info.uncPos then drawUncOcc (.ofState (st.getD default)) else []) := by
  unfold Gen._draw_occupancy
  simp

theorem tie_draw_occupancy_init (o : Obst) (t : Int) :
    Gen._draw_occupancy (occupancyAt o t) (some (initialState o)) = occWithInit o t := by
  rw [draw_occupancy_eq]
  unfold occWithInit occupancyAt initialState
  cases h1 : o.occ.mem t <;> cases h2 : o.uncInit <;> simp [drawUncOcc, Obst.initInfo, h2]

theorem tie_draw_static_obstacle (tb : Int) (o : Obst) : Gen.draw_static_obstacle tb o = drawStatic tb o := by
  unfold Gen.draw_static_obstacle drawStatic
  simp [tie_draw_occupancy_init]

/-- `draw_environment_obstacle` dereferences `occupancy_at_time(time_begin)` without a `None` test; where there is an
    occupancy (always, for an `EnvironmentObstacle`) it draws it.  (Without one Python raises: `drawEnvC`.) -/
theorem tie_draw_environment_obstacle (tb : Int) (o : Obst) (h : o.occ.mem tb = true) :
    Gen.draw_environment_obstacle tb o = drawEnv tb o := by
  unfold Gen.draw_environment_obstacle drawEnv occupancyAt
  simp [h]

theorem tie_draw_phantom_obstacle (f : PhFlags) (o : Obst) : Gen.draw_phantom_obstacle f o = drawPhantom f o := by
  unfold Gen.draw_phantom_obstacle drawPhantom occupancyAt
  cases f.drawShape <;> cases f.drawOccupancies <;> simp <;> (try split) <;> simp_all

/-- `range(n, 0, -1)` as the model writes it -/
theorem pyRangeDown_zero (n : Int) :
    pyRangeDown n 0 = (List.range n.toNat).reverse.map (fun (i : Nat) => ((i : Int) + 1)) := by
  unfold pyRangeDown pyRange
  rw [← List.map_reverse]
  have h1 : (n + 1 - (0 + 1)).toNat = n.toNat := by omega
  have h2 : (fun (i : Nat) => (0 : Int) + 1 + (i : Int)) = fun (i : Nat) => (i : Int) + 1 := by funext i; omega
  rw [h1, h2]

theorem tie_draw_history (f : DynFlags) (o : Obst) : Gen._draw_history f o = histItems f o := by
  unfold Gen._draw_history histItems occupancyAt
  simp only [pyRangeDown_zero, List.nil_append]
  congr 1
  funext idx
  split <;> simp_all

theorem filterMap_trajStateAt (o : Obst) (l : List Int) :
    l.filterMap (trajStateAt o) = (l.filter (fun t => o.stateAt.mem t)).map (fun t => (⟨.traj t, o.stateInfo t⟩ : StH)) := by
  induction l with
  | nil => rfl
  | cons a l ih =>
    cases h : o.stateAt.mem a <;> simp [List.filterMap_cons, trajStateAt, h, ih]

theorem trajPoints_nonempty (o : Obst) (ts : List Int) :
    decide (((List.map (fun s => PosV.ofState s) (List.filter (fun (s : StH) => !s.info.uncPos)
        (List.map (fun t => (⟨.traj t, o.stateInfo t⟩ : StH)) ts))).length : Int) > 0)
    = ts.any (fun t => !o.uncAt.mem t) := by
  induction ts with
  | nil => rfl
  | cons a l ih =>
    cases h : o.uncAt.mem a
    · simp [List.filter_cons, Obst.stateInfo, h]
    · simp only [List.map_cons, List.filter_cons, Obst.stateInfo, h, List.any_cons, Bool.not_true, Bool.false_or,
        Bool.false_eq_true, if_false]
      exact ih

theorem positionSets_drawn (o : Obst) (ts : List Int) :
    (List.flatMap (fun pset => drawUncTraj pset)
      (List.map (fun s => PosV.ofState s) (List.filter (fun (s : StH) => s.info.uncPos)
        (List.map (fun t => (⟨.traj t, o.stateInfo t⟩ : StH)) ts))))
    = List.map Item.uncTraj (List.filter (fun t => o.uncAt.mem t) ts) := by
  induction ts with
  | nil => rfl
  | cons a l ih =>
    cases h : o.uncAt.mem a
    · simp only [List.map_cons, List.filter_cons, Obst.stateInfo, h, Bool.false_eq_true, if_false]
      exact ih
    · simp only [List.map_cons, List.filter_cons, Obst.stateInfo, h, if_true, List.flatMap_cons, drawUncTraj,
        List.nil_append, List.cons_append]
      exact congrArg _ ih

theorem tie_draw_trajectory (f : DynFlags) (o : Obst) : Gen.draw_trajectory f o = trajItems f o := by
  unfold Gen.draw_trajectory trajItems
  simp only [filterMap_trajStateAt, List.nil_append]
  by_cases hw : f.trajTb ≥ f.trajTe
  · simp [hw]
  · simp only [hw, decide_false, if_false, Bool.false_eq_true]
    generalize (List.filter (fun t => o.stateAt.mem t) (pyRange f.trajTb f.trajTe)) = ts
    rw [positionSets_drawn, trajPoints_nonempty]
    cases f.trajContinuous <;> cases (ts.any fun t => !o.uncAt.mem t) <;> simp

theorem ite_fst {α β : Type} (c : Prop) [Decidable c] (p q : α × β) : (if c then p else q).1 = if c then p.1 else q.1 := by
  split <;> rfl
theorem ite_snd {α β : Type} (c : Prop) [Decidable c] (p q : α × β) : (if c then p else q).2 = if c then p.2 else q.2 := by
  split <;> rfl

/-- `_draw_occupancy(obj.occupancy_at_time(t), state, …)` -/
theorem draw_occupancy_at (o : Obst) (t : Int) (st : Option StH) :
    Gen._draw_occupancy (occupancyAt o t) st =
      (if o.occ.mem t then [Item.occ t] else []) ++
      (if st.isSome && (st.getD default).info.uncPos then drawUncOcc (.ofState (st.getD default)) else []) := by
  rw [draw_occupancy_eq]
  unfold occupancyAt
  cases o.occ.mem t <;> simp

/-- the model's `drawDynamic`, cut into the segments in which `draw_dynamic_obstacle` appends -/
theorem drawDynamic_segments (f : DynFlags) (o : Obst) :
    drawDynamic f o =
      if dynHidden f o then [] else
        (if f.drawHistory && o.pred.isTraj then histItems f o else []) ++
        (iconBlock f o).2.2 ++
        (if (iconBlock f o).1 then
           (if o.occ.mem f.tb then
              occWithInit o f.tb ++ (if f.drawDirection && o.rectAt.mem f.tb then [Item.dir] else [])
            else [])
         else []) ++
        (if f.drawSignals && ((iconBlock f o).1 || (iconBlock f o).2.1) then
           (if o.occ.mem f.tb && o.sigAt.mem f.tb then [Item.sig] else [])
         else []) ++
        (if f.drawOccupancies || o.pred.isSet then
           (pyRange (if (iconBlock f o).1 then f.tb + 1 else f.tb) f.te).flatMap
             (fun t => (if o.occ.mem t then [Item.occ t] else []) ++
                       (if o.pred.isTraj && o.stateAt.mem t && o.uncAt.mem t then [Item.uncState t] else []))
         else []) ++
        (if f.drawTrajectory && o.pred.isTraj then trajItems f o else []) ++
        (if f.showLabel then (match labelState f o with | some s => [Item.label (anchorSel s)] | none => []) else []) ++
        (if f.drawInitialState then (match labelState f o with | some s => [stateItem f s] | none => []) else []) := by
  unfold drawDynamic
  cases labelState f o <;> cases f.showLabel <;> cases f.drawInitialState <;> simp

theorem append8 {α : Type} {a1 a2 a3 a4 a5 a6 a7 a8 b1 b2 b3 b4 b5 b6 b7 b8 : List α}
    (h1 : a1 = b1) (h2 : a2 = b2) (h3 : a3 = b3) (h4 : a4 = b4) (h5 : a5 = b5) (h6 : a6 = b6) (h7 : a7 = b7) (h8 : a8 = b8) :
    a1 ++ a2 ++ a3 ++ a4 ++ a5 ++ a6 ++ a7 ++ a8 = b1 ++ b2 ++ b3 ++ b4 ++ b5 ++ b6 ++ b7 ++ b8 := by
  subst_vars; rfl

theorem tie_draw_dynamic_obstacle (f : DynFlags) (o : Obst) : Gen.draw_dynamic_obstacle f o = drawDynamic f o := by
  unfold Gen.draw_dynamic_obstacle
  rw [drawDynamic_segments]
  simp only [ite_fst, ite_snd, tie_draw_history, tie_draw_trajectory, draw_occupancy_at, List.nil_append, List.append_nil,
    ite_self]
  by_cases hh : dynHidden f o = true
  · rw [if_pos hh]
    unfold dynHidden at hh
    rw [Bool.or_eq_true] at hh
    rcases hh with h | h
    · rw [if_pos h]
    · split <;> simp [h]
  · rw [if_neg hh]
    unfold dynHidden at hh
    rw [Bool.or_eq_true, not_or] at hh
    rw [if_neg hh.1, if_neg hh.2]
    apply append8
    · rfl
    · cases hI : f.drawIcon <;> cases hT : o.iconType <;> cases hP : o.pred <;> cases hL : o.hasLW <;>
        simp [hI, hT, hP, hL, Pred.isTraj, iconBlock, trajStateAt, initialState, ite_some_isSome, ite_some_getD,
          anchorSel, midSel, PosV.anchor, Obst.initInfo, Obst.stateInfo] <;>
        split_ifs <;> simp_all
    · cases hI : f.drawIcon <;> cases hT : o.iconType <;> cases hP : o.pred <;> cases hL : o.hasLW <;>
        cases hO : o.occ.mem f.tb <;>
        simp [hI, hT, hP, hL, hO, Pred.isTraj, iconBlock, occupancyAt, initialState, drawUncOcc, occWithInit, Obst.initInfo]
    · cases hI : f.drawIcon <;> cases hT : o.iconType <;> cases hP : o.pred <;> cases hL : o.hasLW <;>
        cases hO : o.occ.mem f.tb <;> cases hS : o.sigAt.mem f.tb <;>
        simp [hI, hT, hP, hL, hO, hS, Pred.isTraj, iconBlock, occupancyAt, signalAt]
    · have hsh : (if (f.drawIcon && o.iconType && o.pred.isTraj) = true then
            if (if (!o.hasLW) = true then false else f.drawIcon) = true then false
            else if (!o.hasLW) = true then true else f.drawShape
          else if f.drawIcon = true then true else f.drawShape) = (iconBlock f o).1 := by
        cases hI : f.drawIcon <;> cases hT : o.iconType <;> cases hP : o.pred.isTraj <;> cases hL : o.hasLW <;>
          simp [hI, hT, hP, hL, iconBlock]
      rw [hsh]
      congr 1
      congr 1
      funext t
      cases hP : o.pred.isTraj <;> cases hS : o.stateAt.mem t <;> cases hU : o.uncAt.mem t <;>
        simp [hP, hS, hU, trajStateAt, drawUncOcc, Obst.stateInfo]
    · rfl
    · cases hP : o.pred.isTraj <;> cases hS : o.stateAt.mem f.tb <;>
        simp [hP, hS, labelState, trajStateAt, initialState, ite_some_isSome, ite_some_getD, anchorSel, PosV.anchor,
          Obst.initInfo, Obst.stateInfo] <;>
        split_ifs <;> simp_all
    · cases hP : o.pred.isTraj <;> cases hS : o.stateAt.mem f.tb <;>
        simp [hP, hS, labelState, trajStateAt, initialState, ite_some_isSome, ite_some_getD, Obst.initInfo, Obst.stateInfo] <;>
        split_ifs <;> simp_all

/-- `draw_scenario`: every obstacle, in order, through the drawer of its class with the parameter group of its class.
    (`envOcc`: an environment obstacle has an occupancy at every time step — `EnvironmentObstacle.occupancy_at_time` never
    returns `None`.) -/
theorem tie_draw_scenario (f : Flags) (os : List Obst)
    (envOcc : ∀ o ∈ os, o.role = .env → o.occ.mem f.tbEnv = true) :
    Gen.draw_scenario f os = drawScenario f os := by
  unfold Gen.draw_scenario drawScenario
  simp only [List.nil_append, List.append_nil]
  apply List.map_congr_left
  intro o ho
  unfold drawObstacle
  cases hr : o.role <;>
    simp [hr, tie_draw_dynamic_obstacle, tie_draw_static_obstacle, tie_draw_phantom_obstacle]
  exact tie_draw_environment_obstacle f.tbEnv o (envOcc o ho hr)

theorem flatMap_ite_singleton {α : Type} (p : α → Bool) (l : List α) :
    l.flatMap (fun x => if p x = true then [x] else []) = l.filter p := by
  induction l with
  | nil => rfl
  | cons a l ih => cases h : p a <;> simp [List.flatMap_cons, List.filter_cons, h, ih]

theorem tie_draw_planning_problem_set (ids : List Int) (d : Option (List Int)) :
    Gen.draw_planning_problem_set d ids = problemsDrawn ids d := by
  unfold Gen.draw_planning_problem_set problemsDrawn
  simp only [List.nil_append, List.append_nil]
  rw [flatMap_ite_singleton (fun pp_id => d.isNone || optContains d pp_id)]
  congr 1
  funext i
  cases d <;> simp [optContains]

theorem tie_lanelets_drawn (ids : List Int) (d : Option (List Int)) :
    Gen.lanelets_drawn ids d = laneletsDrawn ids d := by
  unfold Gen.lanelets_drawn laneletsDrawn Gen.lanelet_skipped
  congr 1
  funext i
  cases d <;> simp [optContains]

/-! ### draw_params.py -/

/-- `BaseParam.__setattr__` has the shape `Grp.set` / `Grp.setPy` model (finite table, checked completely). -/
theorem tie_setattr_shape : Gen.setattrShape = modelSetattrShape := by decide

theorem tie_BaseParam_post_init (pre : Grp) : Gen.BaseParam_post_init pre = Grp.postInit pre := by
  unfold Gen.BaseParam_post_init Grp.postInit
  rfl

theorem tie_BaseParam_getitem (g : Grp) (k : String) : Gen.BaseParam_getitem g k = g.getItem k := by
  unfold Gen.BaseParam_getitem Grp.getItem Grp.getAttr
  cases g.get k <;> rfl

theorem tie_BaseParam_setitem (g : Grp) (k : String) (v : Val) : Gen.BaseParam_setitem g k v = g.setItem k v := by
  unfold Gen.BaseParam_setitem Grp.setItem Grp.setPy
  split
  · rename_i h
    split at h <;> simp at h
  · rfl

/-! ### the tree of parameter classes extracted from draw_params.py (`Gen.mpDrawParams`, the default `MPDrawParams()`)

A finite table checked completely is a proof for that table: the statements below are decided by evaluation on the tree the
translator read off the source of this run. -/

theorem tree_allInit : Gen.mpDrawParams.allInit = true := by decide +kernel

/-- Every parameter class of the tree has the three `BaseParam` fields that `__post_init__` propagates. -/
theorem tree_base_fields_everywhere :
    Gen.mpDrawParams.allDeclare "time_begin" = true ∧ Gen.mpDrawParams.allDeclare "time_end" = true ∧
    Gen.mpDrawParams.allDeclare "antialiased" = true := by decide +kernel

/-- Every path the selection logic reads (`flagsOf`) exists in the source's tree, with a value of the right kind, and the
    defaults are the model's table. -/
theorem tie_default_flags : flagsOf Gen.mpDrawParams = some defaultFlags := by decide +kernel

/-- The five groups whose window a drawing function reads are groups of the source's tree. -/
theorem tree_window_groups : ∀ p ∈ windowPaths, ∃ h, Gen.mpDrawParams.at p = some (.grp h) ∧
    h.declares "time_begin" = true ∧ h.declares "time_end" = true := by
  intro p hp
  simp only [windowPaths, List.mem_cons, List.mem_nil_iff, or_false] at hp
  rcases hp with rfl | rfl | rfl | rfl | rfl <;>
    exact ⟨_, rfl, by decide +kernel, by decide +kernel⟩

/-- Propagation over the source's tree: `params.time_begin = tb; params.time_end = te` on the default `MPDrawParams()`
    makes `[tb, te)` the window of every drawing function and leaves every other flag at its default. -/
theorem tree_window_reaches_drawing (atb ate : String) (tb te : Int)
    (htb : parseInt atb = some tb) (hte : parseInt ate = some te) :
    flagsOf ((Gen.mpDrawParams.set "time_begin" (.atom atb)).set "time_end" (.atom ate)) = some (withWindow defaultFlags tb te) :=
  C19_window_reaches_drawing Gen.mpDrawParams tree_allInit atb ate tb te defaultFlags htb hte tie_default_flags

/-- End to end on the source's tree and the source's drawing functions: after the two top-level assignments what
    `draw_scenario` (as translated) draws is the model's `drawScenario` for the window `[tb, te)` with default flags. -/
theorem tree_window_drawn (atb ate : String) (tb te : Int) (os : List Obst)
    (htb : parseInt atb = some tb) (hte : parseInt ate = some te)
    (envOcc : ∀ o ∈ os, o.role = .env → o.occ.mem tb = true) :
    ∃ f, Gen.flagsOf ((Gen.mpDrawParams.set "time_begin" (.atom atb)).set "time_end" (.atom ate)) = some f ∧
      Gen.draw_scenario f os = drawScenario (withWindow defaultFlags tb te) os := by
  refine ⟨withWindow defaultFlags tb te, ?_, ?_⟩
  · rw [tie_flagsOf]; exact tree_window_reaches_drawing atb ate tb te htb hte
  · exact tie_draw_scenario _ os (by simpa [withWindow] using envOcc)

end CR.T19
