/-
  T11 — translator tie for C11 (derived data never goes stale under mutation).

  `Gen.C11.table` (module Gen.SrcC11) is regenerated on every run from the CURRENT source of prediction.py, trajectory.py,
  obstacle.py, lanelet.py, traffic_light.py, scenario.py: for every mutating method / property setter of the cache-owning
  classes its direct effects on `self`, in source order, with the conditions they stand under.  `CR.PyC11` (hand-written,
  fixed) resolves own calls, property setters and delegations to held objects (`Table.prims`), reads off which primary-data
  fields the method writes (`writesFrom`) and which action it takes on each cache (`derivedAct`).

  Part A ties the model's invalidation table to that: for the 22 mutators that are methods of the code (`bindings`; the other
  seven — deepcopy, pickle, create_from_lanelet_network, replace_lanelet_network and the three in-place edits of a cycle's
  elements — have no method body of their own to extract and stay tied by correspondence only)
      `CR.Cache.act i m`     = the action derived from the extracted effects          (tie_act)
      `CR.Cache.writesOf m`  = the fields derived from the extracted writes           (tie_writes)
  and states the property's side condition directly over the extracted table (tie_generated_sound): a bound method that writes
  something a cache is derived from invalidates that cache — except the three known pairs.  The tables are finite and checked
  completely by `decide`; that IS the proof for the table extracted from this source tree.

  Part B ties the token-level functions of the model (what a mutator does to a prediction / obstacle / lanelet / cycle, the
  history logic of `update_initial_state`) to the statement-by-statement translation of the method bodies.
-/
import Gen.SrcC11
import CRModel.PyExtC11
set_option linter.unusedSimpArgs false
namespace CR.Cache
open CR.PyC11

/-! ## Part A: the invalidation table -/

def lanItems : List Item := [.laneletPolygon, .laneletDistance, .laneletInnerDistance]

/-- Which method(s) of the code each mutator of the model is; `exact`: the method writes exactly `writesOf` (otherwise a
    subset: the variant of the mutator for an object that lacks some of the parts). -/
structure Bind where
  b : Binding
  exact : Bool

def bindings : List Bind := [
  ⟨⟨.predSetShape, "TrajectoryPrediction", "shape", true, allItems⟩, true⟩,
  ⟨⟨.predSetTrajectory, "TrajectoryPrediction", "trajectory", true, allItems⟩, true⟩,
  ⟨⟨.predSetWheelbase, "TrajectoryPrediction", "wheelbase_lengths", true, allItems⟩, true⟩,
  ⟨⟨.predSetAssignment, "TrajectoryPrediction", "shape_lanelet_assignment", true, allItems⟩, true⟩,
  ⟨⟨.predSetAssignment, "TrajectoryPrediction", "center_lanelet_assignment", true, allItems⟩, true⟩,
  ⟨⟨.predTranslateRotate, "TrajectoryPrediction", "translate_rotate", false, allItems⟩, true⟩,
  -- methods of the held trajectory: nothing in them can reach the prediction that holds it
  ⟨⟨.trajTranslateRotate, "Trajectory", "translate_rotate", false, allItems⟩, true⟩,
  ⟨⟨.trajAppendState, "Trajectory", "append_state", false, allItems⟩, true⟩,
  ⟨⟨.obsSetInitialState, "DynamicObstacle", "initial_state", true, allItems⟩, true⟩,
  ⟨⟨.obsSetInitialState, "StaticObstacle", "initial_state", true, allItems⟩, true⟩,
  ⟨⟨.obsSetShape, "DynamicObstacle", "obstacle_shape", true, allItems⟩, true⟩,
  ⟨⟨.obsSetShape, "StaticObstacle", "obstacle_shape", true, allItems⟩, true⟩,
  ⟨⟨.obsTranslateRotate, "DynamicObstacle", "translate_rotate", false, allItems⟩, true⟩,
  -- a static obstacle has neither prediction nor history
  ⟨⟨.obsTranslateRotate, "StaticObstacle", "translate_rotate", false, allItems.filter (· != .occupancySet)⟩, false⟩,
  ⟨⟨.obsSetPrediction, "DynamicObstacle", "prediction", true, allItems⟩, true⟩,
  ⟨⟨.obsSetPrediction, "DynamicObstacle", "update_prediction", false, allItems⟩, true⟩,
  ⟨⟨.obsUpdateInitialState, "DynamicObstacle", "update_initial_state", false, allItems⟩, true⟩,
  ⟨⟨.lanTranslateRotate, "Lanelet", "translate_rotate", false, allItems⟩, true⟩,
  ⟨⟨.lanConvert2d, "Lanelet", "convert_to_2d", false, allItems⟩, true⟩,
  ⟨⟨.netAddLanelet, "LaneletNetwork", "add_lanelet", false, allItems⟩, true⟩,
  ⟨⟨.netAddFromNetwork, "LaneletNetwork", "add_lanelets_from_network", false, allItems⟩, true⟩,
  ⟨⟨.netRemoveLanelet, "LaneletNetwork", "remove_lanelet", false, allItems⟩, true⟩,
  ⟨⟨.netTranslateRotate, "LaneletNetwork", "translate_rotate", false, allItems⟩, true⟩,
  ⟨⟨.netConvert2d, "LaneletNetwork", "convert_to_2d", false, allItems⟩, true⟩,
  ⟨⟨.cycSetElements, "TrafficLightCycle", "cycle_elements", true, allItems⟩, true⟩,
  ⟨⟨.cycSetOffset, "TrafficLightCycle", "time_offset", true, allItems⟩, true⟩,
  ⟨⟨.cycSetActive, "TrafficLightCycle", "active", true, allItems⟩, true⟩]

/-- the effects of a bound method, resolved, as the CURRENT source has them -/
def Bind.prims (x : Bind) : List Prim := Gen.C11.table.prims x.b.cls x.b.name x.b.setter

/-- The mutators without a method body of their own (tied by correspondence only). -/
def unboundMuts : List Mut :=
  [.netDeepcopy, .netPickle, .netCreateFrom, .netReplace, .elemSetDuration, .elemSetState, .elemsListEdit]

/-- every mutator of the model is bound to a method or is one of the seven listed ones -/
theorem tie_bindings_cover : ∀ m ∈ allMuts, (bindings.any fun x => x.b.mutator == m) || unboundMuts.contains m := by decide

/-- every bound method exists in the extracted table and has effects (the ties below are not about empty lists) -/
theorem tie_bindings_found : ∀ x ∈ bindings,
    (Gen.C11.table.find x.b.cls x.b.name x.b.setter).isSome ∧ (x.prims != [] || x.b.mutator == .obsSetShape) := by
  decide +kernel

/-- THE TIE (actions): for every bound method and every cache, the model's table entry is the action the extracted effects of
    the method amount to — `drop` for `del self.<cache>` / `self._<cache> = None` / replacing the object that owns the cache,
    `recompute` for an assignment computed from attributes that are not overwritten afterwards, `update` / `recompute` for the
    item-wise / wholesale change of `_buffered_polygons` followed by `_create_strtree()`, `keep` when nothing unconditional
    touches the cache. -/
theorem tie_act : ∀ x ∈ bindings, ∀ i ∈ x.b.items, act i x.b.mutator = derivedAct i x.prims := by
  decide +kernel

/-- THE TIE (write sets): the primary-data fields a bound method assigns, deletes, or mutates in place (through own calls,
    property setters and delegations) are the model's write set of the mutator. -/
theorem tie_writes : ∀ x ∈ bindings,
    (if x.exact then sameSet (writesOf x.b.mutator) (writesFrom x.prims)
     else (writesFrom x.prims).all (writesOf x.b.mutator).contains) = true := by
  decide +kernel

/-- The property's side condition stated over the EXTRACTED table alone (no reference to the model's `act` / `writesOf`):
    a method of the current source that writes a field a cache is derived from takes an action on that cache — except the
    three known pairs (methods of a held Trajectory / Lanelet, which cannot reach their holder). -/
theorem tie_generated_sound : ∀ x ∈ bindings, ∀ i ∈ x.b.items,
    derivedAct i x.prims != .keep || (writesFrom x.prims).all (fun f => !(reads i).contains f)
      || unsoundPairs.contains (i, x.b.mutator) = true := by
  decide +kernel

/-! ### read sets: what the function that computes a cached value reads -/

def attrFields (cls : String) (attrs : List String) : List Field :=
  dedup (attrs.flatMap fun a => fieldsOf ⟨cls, "", [], .assign a false []⟩)

/-- the `self` attributes the body of a getter / method reads -/
def bodyReads (cls name : String) : List String :=
  match Gen.C11.table.methods.find? (fun m => m.cls == cls && m.name == name && m.kind != "setter") with
  | some m => m.reads
  | none => []

/-- the `self` attributes the value assigned to `attr` of an object of class `cls` is computed from, in the resolved effects of
    a method / setter (first such assignment; own helper methods are looked through) -/
def assignSrcs (cls name : String) (setter : Bool) (attr : String) : List String :=
  ((Gen.C11.table.prims cls name setter).findSome? fun p => match p.op with
      | .assign a false srcs => if p.cls == cls && bare a == attr then some srcs else none
      | _ => none).getD []

/-- The fields each cache's deriving code reads, from the extracted table: `_create_occupancy_set`; the recomputation inside the
    `initial_state` setter (plus its parameter, the new state); the `_polygon` assignment; the lazy `distance` / `inner_distance`
    getters; the `_buffered_polygons` comprehension over `_lanelets` (plus the polygons of those lanelets); the
    `cycle_init_timesteps` getter. -/
def deriveReads : Item → List Field
  | .occupancySet => attrFields "TrajectoryPrediction" (bodyReads "TrajectoryPrediction" "_create_occupancy_set")
  | .initialOccupancy => attrFields "Obstacle" (assignSrcs "Obstacle" "initial_state" true "initial_occupancy_shape") ++ [.obsInitialState]
  | .laneletPolygon => attrFields "Lanelet" (assignSrcs "Lanelet" "translate_rotate" false "polygon")
  | .laneletDistance => attrFields "Lanelet" (bodyReads "Lanelet" "distance")
  | .laneletInnerDistance => attrFields "Lanelet" (bodyReads "Lanelet" "inner_distance")
  | .networkIndex => attrFields "LaneletNetwork" (assignSrcs "LaneletNetwork" "translate_rotate" false "buffered_polygons") ++ [.lanFootprint]
  | .cycleInit => attrFields "TrafficLightCycle" (bodyReads "TrafficLightCycle" "cycle_init_timesteps")

/-- Aspects of an attribute the derived value does not depend on although the attribute is read (hand-written, semantic):
    cumulative lengths do not depend on the pose; the polygon as stored is the vertex arrays as stored; the cumulative time steps
    read `duration` of the elements only. -/
def readRefinement : Item → List Field
  | .laneletPolygon => [.lanIntrinsic, .lanFootprint]
  | .laneletDistance => [.lanVertices, .lanFootprint]
  | .laneletInnerDistance => [.lanVertices, .lanFootprint]
  | .cycleInit => [.cycStates]
  | _ => []

/-- THE TIE (read sets): the model's `reads` of every cache are fields of attributes its deriving code reads, and that code reads
    nothing else that a mutator of the model can write (up to the refinements above). -/
theorem tie_reads : ∀ i ∈ allItems,
    ((reads i).all (deriveReads i).contains && (deriveReads i).all (reads i ++ readRefinement i).contains) = true := by
  decide +kernel

/-- `Scenario.translate_rotate` / `convert_to_2d` only delegate: their effects are those of the network's and the obstacles'
    methods (the model has no separate mutator for the scenario level). -/
theorem tie_scenario_delegates :
    Gen.C11.table.prims "Scenario" "translate_rotate" false
      = Gen.C11.table.prims "LaneletNetwork" "translate_rotate" false
        ++ Gen.C11.table.prims "DynamicObstacle" "translate_rotate" false
        ++ Gen.C11.table.prims "StaticObstacle" "translate_rotate" false
    ∧ Gen.C11.table.prims "Scenario" "convert_to_2d" false = Gen.C11.table.prims "LaneletNetwork" "convert_to_2d" false := by
  decide +kernel

/-- Outside the claim of C11 (vertex setters of a lanelet), recorded for the reader: `center_vertices=` resets `_distance`,
    `left_vertices=` / `right_vertices=` reset `_inner_distance`, and NONE of them rebuilds `_polygon`. -/
theorem tie_vertex_setters :
    (["center_vertices", "left_vertices", "right_vertices"].map fun s =>
      lanItems.map fun i => derivedAct i (Gen.C11.table.prims "Lanelet" s true))
      = [[.keep, .drop, .keep], [.keep, .keep, .drop], [.keep, .keep, .drop]] := by
  decide +kernel

/-! ## Part B: what the mutators do to the token structures (functional translation of the method bodies) -/

theorem tie_invalidate_occupancy_set (p : TPred) :
    Gen.TrajectoryPrediction_invalidate_occupancy_set p = { p with cache := none } := by
  unfold Gen.TrajectoryPrediction_invalidate_occupancy_set
  cases h : p.cache <;> simp [Id.run, pure, h] <;> (cases p; simp_all)

/-- `TrajectoryPrediction.shape = …` as translated is the model's `predSetShape` branch of `Obs.step`. -/
theorem tie_pred_set_shape (p : TPred) (v : Nat) :
    Gen.TrajectoryPrediction_set_shape p v
      = (let p' : TPred := { p with shape := v }
         { p' with cache := (act .occupancySet .predSetShape).applySimple p'.derive p.cache }) := by
  simp [Gen.TrajectoryPrediction_set_shape, tie_invalidate_occupancy_set, Id.run, pure, act, Action.applySimple, Action.apply]

theorem tie_pred_set_trajectory (p : TPred) (d : TrajData) :
    Gen.TrajectoryPrediction_set_trajectory p d = p.mutTraj .predSetTrajectory d := by
  simp [Gen.TrajectoryPrediction_set_trajectory, tie_invalidate_occupancy_set, Id.run, pure, TPred.mutTraj, act,
    Action.applySimple, Action.apply]

theorem tie_pred_set_wheelbase (p : TPred) :
    Gen.TrajectoryPrediction_set_wheelbase_lengths p
      = { p with cache := (act .occupancySet .predSetWheelbase).applySimple p.derive p.cache } := by
  simp [Gen.TrajectoryPrediction_set_wheelbase_lengths, tie_invalidate_occupancy_set, Id.run, pure, act,
    Action.applySimple, Action.apply]

theorem tie_pred_translate_rotate (p : TPred) (v : Nat) :
    Gen.TrajectoryPrediction_translate_rotate p v = p.move .predTranslateRotate v := by
  simp [Gen.TrajectoryPrediction_translate_rotate, tie_invalidate_occupancy_set, Id.run, pure, TPred.move, TPred.mutTraj, act,
    Action.applySimple, Action.apply]

/-- The obstacle delegates to its prediction: the same function, reached through `obsTranslateRotate`. -/
theorem tie_pred_move_via_obstacle (p : Pred) (v : Nat) :
    (match p with
      | .traj q => Pred.traj (Gen.TrajectoryPrediction_translate_rotate q v)
      | .setb _ ivs => Pred.setb v ivs) = p.move .obsTranslateRotate v := by
  cases p <;> simp [Pred.move, tie_pred_translate_rotate, TPred.move, TPred.mutTraj, act]

/-- `Obstacle.initial_state = …`: whether or not the object has wheelbase lengths, the slot holds the occupancy shape of
    (obstacle shape, NEW initial state). -/
theorem tie_set_initial_state (hw : Bool) (o : Obs) (v : Nat) (t0 : Int) :
    Gen.Obstacle_set_initial_state hw o (v, t0) = (o.step (.setInitialState v t0)).2 := by
  cases hw <;> simp [Gen.Obstacle_set_initial_state, Obs.step, Id.run, pure, act, Action.applySimple, Action.apply,
    Obs.freshInitOcc]

theorem tie_set_prediction (o : Obs) (hd : o.dynamic = true) (p : Option Pred) :
    Gen.DynamicObstacle_set_prediction o p = (o.step (.setPrediction p)).2 := by
  have h : ∀ (old : Option Pred) (q : Pred), Pred.adopt .drop old q = q := by
    intro old q; cases q <;> cases old <;> simp [Pred.adopt]
  cases p <;> simp [Gen.DynamicObstacle_set_prediction, Obs.step, hd, Id.run, pure, act, Action.applySimple, Action.apply, h]

theorem tie_dynamic_translate_rotate (hw : Bool) (o : Obs) (hd : o.dynamic = true) (v : Nat) :
    Gen.DynamicObstacle_translate_rotate hw o v = (o.step (.translateRotate v)).2 := by
  have hm : ∀ p : Pred, (match p with
      | .traj q => Pred.traj (Gen.TrajectoryPrediction_translate_rotate q v)
      | .setb _ ivs => Pred.setb v ivs) = p.move .obsTranslateRotate v := fun p => tie_pred_move_via_obstacle p v
  unfold Gen.DynamicObstacle_translate_rotate
  simp only [tie_set_initial_state]
  cases hp : o.pred <;>
    simp [Obs.step, hd, hp, Id.run, pure, act, Action.applySimple, Action.apply, Obs.freshInitOcc] <;> (try exact hm _)

theorem tie_static_translate_rotate (hw : Bool) (o : Obs) (hd : o.dynamic = false) (v : Nat) :
    Gen.StaticObstacle_translate_rotate hw o v = (o.step (.translateRotate v)).2 := by
  unfold Gen.StaticObstacle_translate_rotate
  simp [tie_set_initial_state, Obs.step, hd, Id.run, pure, act, Action.applySimple, Action.apply, Obs.freshInitOcc]

theorem sliceLast_pos {α : Type} (l : List α) (m : Int) (hm : 0 < m) : sliceFrom l (-m) = lastN m.toNat l := by
  have h1 : -m < 0 := by omega
  have h2 : (- -m).toNat = m.toNat := by simp
  simp only [sliceFrom, lastN, h1, if_true, h2]

theorem lastN_eq_self {α : Type} {l : List α} {k : Nat} (h : l.length ≤ k) : lastN k l = l := by
  have : l.length - k = 0 := by omega
  simp [lastN, this]

/-- THE HISTORY LOGIC of `update_initial_state` as the current source has it: on an obstacle whose four history lists have equal
    length (an invariant of every operation: C11_history_equal_length) and for a positive bound, the translated body is the model's
    `updateInitialState` step (append the replaced state / signal / lanelet ids, new initial data, prediction := None, keep the
    last `m` of all four lists); a non-positive bound fails the assertion before anything is changed.  The proof does not
    depend on how the "too long" test is written, only on what is kept (truncating a list that is short enough changes nothing). -/
theorem tie_update_initial_state (hw : Bool) (o : Obs) (hd : o.dynamic = true)
    (he : o.sigHist.length = o.hist.length ∧ o.cenHist.length = o.hist.length ∧ o.shpHist.length = o.hist.length)
    (v : Nat) (t0 : Int) (sig cen shp : Nat) (m : Int) :
    Gen.DynamicObstacle_update_initial_state hw o (v, t0) sig cen shp m
      = (if m ≤ 0 then .error .assert else .ok (o.step (.updateInitialState v t0 sig cen shp m)).2) := by
  obtain ⟨h1, h2, h3⟩ := he
  unfold Gen.DynamicObstacle_update_initial_state
  by_cases hm : m ≤ 0
  · have : ¬ m > 0 := by omega
    simp [CR.Py.assert, hm, this, bind, Except.bind]
  · have hpos : 0 < m := by omega
    simp only [CR.Py.assert, gt_iff_lt, ge_iff_le, hpos, decide_true, if_true, hm, if_false, bind, Except.bind, tie_set_initial_state,
      Gen.DynamicObstacle_set_prediction, Id.run, pure, Except.pure, sliceLast_pos _ _ hpos]
    simp only [Obs.step, hd, Bool.not_true, Bool.false_eq_true, if_false, hm, act, Action.applySimple, Action.apply,
      Obs.freshInitOcc, List.length_append, List.length_cons, List.length_nil]
    -- both sides: the same record up to "truncate or not"
    repeat' split
    all_goals (first
      | rfl
      | (simp only [Except.ok.injEq, Obs.mk.injEq, true_and, and_true]
         refine ⟨?_, ?_, ?_, ?_⟩ <;> first
           | rfl
           | (symm; apply lastN_eq_self; simp only [List.length_append, List.length_cons, List.length_nil]; simp at *; omega)
           | (apply lastN_eq_self; simp only [List.length_append, List.length_cons, List.length_nil]; simp at *; omega))
      | (exfalso; simp at *; omega))

/-- the model's side of a non-positive bound: the step answers `assert` and leaves the obstacle as it is -/
theorem tie_update_initial_state_bad_bound (o : Obs) (hd : o.dynamic = true) (v : Nat) (t0 : Int) (sig cen shp : Nat) (m : Int)
    (hm : m ≤ 0) : o.step (.updateInitialState v t0 sig cen shp m) = (.err .assert, o) := by
  simp [Obs.step, hd, hm]

/-- the hypotheses of the history tie are satisfiable and the bound bites: three updates with bound 2 keep the last two -/
example : (do
    let o : Obs := ⟨true, 0, 0, 0, some (0, 0), none, 0, 0, 0, [], [], [], []⟩
    let o ← Gen.DynamicObstacle_update_initial_state false o (1, 1) 1 1 1 2
    let o ← Gen.DynamicObstacle_update_initial_state false o (2, 2) 2 2 2 2
    let o ← Gen.DynamicObstacle_update_initial_state false o (3, 3) 3 3 3 2
    pure (o.hist.map (·.base), o.sigHist)) = (.ok ([1, 2], [1, 2]) : Res _) := by decide

/-- The cycle's setters: `cycle_elements=` and `time_offset=` empty the slot of the cumulative time steps, `active=` leaves it
    (the model's `cycSpec.step … (.mutate …)`). -/
theorem tie_cycle_setters (c : CycCell) (es : List CR.TL.Elem) (off : Int) (b : Bool) :
    Gen.TrafficLightCycle_set_cycle_elements c es = cycSpec.step c (.mutate (.setElements es))
    ∧ Gen.TrafficLightCycle_set_time_offset c off = cycSpec.step c (.mutate (.setOffset off))
    ∧ Gen.TrafficLightCycle_set_active c b = cycSpec.step c (.mutate (.setActive b)) := by
  have hi : ∀ c : CycCell, Gen.TrafficLightCycle_invalidate_cycle_init_timesteps c = { c with cache := none } := by
    intro c
    unfold Gen.TrafficLightCycle_invalidate_cycle_init_timesteps
    cases h : c.cache <;> simp [Id.run, pure, h] <;> (cases c; simp_all)
  refine ⟨?_, ?_, ?_⟩ <;>
    simp [Gen.TrafficLightCycle_set_cycle_elements, Gen.TrafficLightCycle_set_time_offset, Gen.TrafficLightCycle_set_active, hi,
      Id.run, pure, Spec.step, cycSpec, act, CycMut.kind, Action.apply]

end CR.Cache
