/-
  T11 — translator tie for C11 (derived data never goes stale under mutation).

  `Gen.C11.table` (module Gen.SrcC11) is regenerated on every run from the CURRENT source of prediction.py, trajectory.py,
  obstacle.py, lanelet.py, traffic_light.py, scenario.py: for every mutating method / property setter of the cache-owning
  classes its direct effects on `self`, in source order, with the conditions they stand under.  `CR.PyC11` (hand-written,
  fixed) resolves own calls, property setters and delegations to held objects (`Table.prims`), reads off which primary-data
  fields the method writes (`writesFrom`) and which action it takes on each cache (`derivedAct`).

  Part A ties the model's invalidation table to that: for the 22 mutators that are methods of the code (`bindings`; the other
  seven — deepcopy, pickle, create_from_lanelet_network, replace_lanelet_network and the three in-place edits of a cycle's
  elements — have no method body of their own to extract and stay tied by correspondence only)
      `CR.Cache.act i m`     = the action derived from the extracted effects          (tie_act)
      `CR.Cache.writesOf m`  = the fields derived from the extracted writes           (tie_writes)
  and states the property's side condition directly over the extracted table (tie_generated_sound): a bound method that writes
  something a cache is derived from invalidates that cache — except the three known pairs.  The tables are finite and checked
  completely by `decide`; that IS the proof for the table extracted from this source tree.

  Part B ties the token-level functions of the model (what a mutator does to a prediction / obstacle / lanelet / cycle, the
  history logic of `update_initial_state`) to the statement-by-statement translation of the method bodies.
-/
import Gen.SrcC11
import CRModel.PyExtC11
namespace CR.Cache
open CR.PyC11

/-! ## Part A: the invalidation table -/

def lanItems : List Item := [.laneletPolygon, .laneletDistance, .laneletInnerDistance]

/-- Which method(s) of the code each mutator of the model is; `exact`: the method writes exactly `writesOf` (otherwise a
    subset: the variant of the mutator for an object that lacks some of the parts). -/
structure Bind where
  b : Binding
  exact : Bool

def bindings : List Bind := [
  ⟨⟨.predSetShape, "TrajectoryPrediction", "shape", true, allItems⟩, true⟩,
  ⟨⟨.predSetTrajectory, "TrajectoryPrediction", "trajectory", true, allItems⟩, true⟩,
  ⟨⟨.predSetWheelbase, "TrajectoryPrediction", "wheelbase_lengths", true, allItems⟩, true⟩,
  ⟨⟨.predSetAssignment, "TrajectoryPrediction", "shape_lanelet_assignment", true, allItems⟩, true⟩,
  ⟨⟨.predSetAssignment, "TrajectoryPrediction", "center_lanelet_assignment", true, allItems⟩, true⟩,
  ⟨⟨.predTranslateRotate, "TrajectoryPrediction", "translate_rotate", false, allItems⟩, true⟩,
  -- methods of the held trajectory: nothing in them can reach the prediction that holds it
  ⟨⟨.trajTranslateRotate, "Trajectory", "translate_rotate", false, allItems⟩, true⟩,
  ⟨⟨.trajAppendState, "Trajectory", "append_state", false, allItems⟩, true⟩,
  ⟨⟨.obsSetInitialState, "DynamicObstacle", "initial_state", true, allItems⟩, true⟩,
  ⟨⟨.obsSetInitialState, "StaticObstacle", "initial_state", true, allItems⟩, true⟩,
  ⟨⟨.obsSetShape, "DynamicObstacle", "obstacle_shape", true, allItems⟩, true⟩,
  ⟨⟨.obsSetShape, "StaticObstacle", "obstacle_shape", true, allItems⟩, true⟩,
  ⟨⟨.obsTranslateRotate, "DynamicObstacle", "translate_rotate", false, allItems⟩, true⟩,
  -- a static obstacle has neither prediction nor history
  ⟨⟨.obsTranslateRotate, "StaticObstacle", "translate_rotate", false, allItems.filter (· != .occupancySet)⟩, false⟩,
  ⟨⟨.obsSetPrediction, "DynamicObstacle", "prediction", true, allItems⟩, true⟩,
  ⟨⟨.obsSetPrediction, "DynamicObstacle", "update_prediction", false, allItems⟩, true⟩,
  ⟨⟨.obsUpdateInitialState, "DynamicObstacle", "update_initial_state", false, allItems⟩, true⟩,
  ⟨⟨.lanTranslateRotate, "Lanelet", "translate_rotate", false, allItems⟩, true⟩,
  ⟨⟨.lanConvert2d, "Lanelet", "convert_to_2d", false, allItems⟩, true⟩,
  ⟨⟨.netAddLanelet, "LaneletNetwork", "add_lanelet", false, allItems⟩, true⟩,
  ⟨⟨.netAddFromNetwork, "LaneletNetwork", "add_lanelets_from_network", false, allItems⟩, true⟩,
  ⟨⟨.netRemoveLanelet, "LaneletNetwork", "remove_lanelet", false, allItems⟩, true⟩,
  ⟨⟨.netTranslateRotate, "LaneletNetwork", "translate_rotate", false, allItems⟩, true⟩,
  ⟨⟨.netConvert2d, "LaneletNetwork", "convert_to_2d", false, allItems⟩, true⟩,
  ⟨⟨.cycSetElements, "TrafficLightCycle", "cycle_elements", true, allItems⟩, true⟩,
  ⟨⟨.cycSetOffset, "TrafficLightCycle", "time_offset", true, allItems⟩, true⟩,
  ⟨⟨.cycSetActive, "TrafficLightCycle", "active", true, allItems⟩, true⟩]

/-- the effects of a bound method, resolved, as the CURRENT source has them -/
def Bind.prims (x : Bind) : List Prim := Gen.C11.table.prims x.b.cls x.b.name x.b.setter

/-- The mutators without a method body of their own (tied by correspondence only). -/
def unboundMuts : List Mut :=
  [.netDeepcopy, .netPickle, .netCreateFrom, .netReplace, .elemSetDuration, .elemSetState, .elemsListEdit]

/-- every mutator of the model is bound to a method or is one of the seven listed ones -/
theorem tie_bindings_cover : ∀ m ∈ allMuts, (bindings.any fun x => x.b.mutator == m) || unboundMuts.contains m := by decide

/-- every bound method exists in the extracted table and has effects (the ties below are not about empty lists) -/
theorem tie_bindings_found : ∀ x ∈ bindings,
    (Gen.C11.table.find x.b.cls x.b.name x.b.setter).isSome ∧ (x.prims != [] || x.b.mutator == .obsSetShape) := by
  decide +kernel

/-- THE TIE (actions): for every bound method and every cache, the model's table entry is the action the extracted effects of
    the method amount to — `drop` for `del self.<cache>` / `self._<cache> = None` / replacing the object that owns the cache,
    `recompute` for an assignment computed from attributes that are not overwritten afterwards, `update` / `recompute` for the
    item-wise / wholesale change of `_buffered_polygons` followed by `_create_strtree()`, `keep` when nothing unconditional
    touches the cache. -/
theorem tie_act : ∀ x ∈ bindings, ∀ i ∈ x.b.items, act i x.b.mutator = derivedAct i x.prims := by
  decide +kernel

/-- THE TIE (write sets): the primary-data fields a bound method assigns, deletes, or mutates in place (through own calls,
    property setters and delegations) are the model's write set of the mutator. -/
theorem tie_writes : ∀ x ∈ bindings,
    (if x.exact then sameSet (writesOf x.b.mutator) (writesFrom x.prims)
     else (writesFrom x.prims).all (writesOf x.b.mutator).contains) = true := by
  decide +kernel

/-- The property's side condition stated over the EXTRACTED table alone (no reference to the model's `act` / `writesOf`):
    a method of the current source that writes a field a cache is derived from takes an action on that cache — except the
    three known pairs (methods of a held Trajectory / Lanelet, which cannot reach their holder). -/
theorem tie_generated_sound : ∀ x ∈ bindings, ∀ i ∈ x.b.items,
    derivedAct i x.prims != .keep || (writesFrom x.prims).all (fun f => !(reads i).contains f)
      || unsoundPairs.contains (i, x.b.mutator) = true := by
  decide +kernel

/-- `Scenario.translate_rotate` / `convert_to_2d` only delegate: their effects are those of the network's and the obstacles'
    methods (the model has no separate mutator for the scenario level). -/
theorem tie_scenario_delegates :
    Gen.C11.table.prims "Scenario" "translate_rotate" false
      = Gen.C11.table.prims "LaneletNetwork" "translate_rotate" false
        ++ Gen.C11.table.prims "DynamicObstacle" "translate_rotate" false
        ++ Gen.C11.table.prims "StaticObstacle" "translate_rotate" false
    ∧ Gen.C11.table.prims "Scenario" "convert_to_2d" false = Gen.C11.table.prims "LaneletNetwork" "convert_to_2d" false := by
  decide +kernel

/-- Outside the claim of C11 (vertex setters of a lanelet), recorded for the reader: `center_vertices=` resets `_distance`,
    `left_vertices=` / `right_vertices=` reset `_inner_distance`, and NONE of them rebuilds `_polygon`. -/
theorem tie_vertex_setters :
    (["center_vertices", "left_vertices", "right_vertices"].map fun s =>
      lanItems.map fun i => derivedAct i (Gen.C11.table.prims "Lanelet" s true))
      = [[.keep, .drop, .keep], [.keep, .keep, .drop], [.keep, .keep, .drop]] := by
  decide +kernel

end CR.Cache
