/-
  T06 — translator tie for C06. `Gen.SrcC06` is regenerated on every run by harness/translate/src_c06.py from the CURRENT
  source of commonroad/scenario/lanelet.py and commonroad/geometry/shape.py; every theorem `tie_*` below proves a generated
  definition equal to the hand-written model (CRModel/Geom.lean, CRModel/Index.lean) the C06 theorems are about — for all
  arguments. GEOS / STRtree predicates (`env`, `isects`, `within`, `ptIn`, `norm`) are parameters on both sides, as in the
  model. A source edit that changes what one of these functions computes breaks a `tie_*` theorem at build time.
  `find_lanelet_by_position` is among them (`tie_find_lanelet_by_position`); no target of src_c06.py is pending.
-/
import Gen.SrcC06
import CRModel.Index
import CRModel.ShapeObj
import CRProofs.Geom
import CRProps.C06
namespace CR.T06
open CR CR.Geom CR.Index CR.Py06 CR.ShapeObj

/-! ### index maintenance (LaneletNetwork) -/

theorem filter_true' {α} (l : List α) : l.filter (fun _ => true) = l := List.filter_eq_self.2 (fun _ _ => rfl)

theorem tie_create_strtree (n : Net) : Gen.LaneletNetwork_create_strtree n = createStrtree n := by
  simp [Gen.LaneletNetwork_create_strtree, Gen.LaneletNetwork_create_strtree.assert_shapely_polygon, createStrtree, strtree, filter_true']

theorem tie_init : Gen.LaneletNetwork_init = Net.empty := by
  simp [Gen.LaneletNetwork_init, Net.empty, strtree]

theorem lanSet_new (ls : List Lanelet) (l : Lanelet) (h : ls.any (fun k => k.id = l.id) = false) : lanSet ls l = ls ++ [l] := by
  induction ls with
  | nil => rfl
  | cons a as ih =>
    simp only [List.any_cons, Bool.or_eq_false_iff, decide_eq_false_iff_not] at h
    simp [lanSet, h.1, ih h.2]

theorem tie_add_lanelet (n : Net) (l : Lanelet) (r : Bool) : Gen.LaneletNetwork_add_lanelet n l r = addLanelet n l r := by
  unfold Gen.LaneletNetwork_add_lanelet addLanelet
  by_cases h : n.lanelets.any (fun k => k.id = l.id) = true
  · simp [lanHas, h]
  · have h' : n.lanelets.any (fun k => k.id = l.id) = false := Bool.eq_false_iff.2 h
    cases r <;> simp [lanHas, h', lanSet_new, tie_create_strtree]

theorem tie_remove_lanelet (n : Net) (i : Int) (r : Bool) : Gen.LaneletNetwork_remove_lanelet n i r = removeLanelet n i r := by
  unfold Gen.LaneletNetwork_remove_lanelet removeLanelet
  by_cases h : n.lanelets.any (fun k => k.id = i) = true
  · by_cases hb : n.buffered.any (fun e => e.1 = i) = true
    · cases r <;> simp [lanHas, lanDel, dictDel, dictHas, h, hb, tie_create_strtree, bind, Except.bind, pure, Except.pure]
    · have hb' : n.buffered.any (fun e => e.1 = i) = false := Bool.eq_false_iff.2 hb
      cases r <;> simp [lanHas, lanDel, dictDel, dictHas, h, hb', bind, Except.bind, pure, Except.pure]
  · have h' : n.lanelets.any (fun k => k.id = i) = false := Bool.eq_false_iff.2 h
    cases r <;> simp [lanHas, h', tie_create_strtree, pure, Except.pure]

theorem addMany_fold (ls : List Lanelet) : ∀ (n : Net) (flag : Bool),
    ls.foldl (fun (a : Net × Bool) x => if a.2 = true then ((addLanelet a.1 x false).1, (addLanelet a.1 x false).2) else (a.1, a.2)) (n, flag)
      = addManyLoop n flag ls := by
  induction ls with
  | nil => intro n flag; rfl
  | cons l ls ih =>
    intro n flag
    cases flag
    · simp only [List.foldl_cons, addManyLoop]
      exact ih n false
    · simp only [List.foldl_cons, addManyLoop, if_true]
      exact ih _ _

theorem tie_add_lanelets_from_network (n : Net) (ls : List Lanelet) :
    Gen.LaneletNetwork_add_lanelets_from_network n ls = addFromNetwork n ls := by
  unfold Gen.LaneletNetwork_add_lanelets_from_network addFromNetwork
  simp only [lfoldl, tie_add_lanelet, tie_create_strtree]
  rw [addMany_fold]

theorem tie_setstate (state : Net) : Gen.LaneletNetwork_setstate state = createStrtree state := by
  simp [Gen.LaneletNetwork_setstate, tie_create_strtree]

theorem tie_getstate (n : Net) : Gen.LaneletNetwork_getstate n = { n with tree := none } := by
  simp [Gen.LaneletNetwork_getstate]

/-- `copy.deepcopy(network)`: the copy is the model's `copyNet`, and the original — whose tree the method drops while it
    copies — has its index rebuilt before the method returns. -/
theorem tie_deepcopy (f : Nat → Nat) (n : Net) :
    Gen.LaneletNetwork_deepcopy f n = (createStrtree n, copyNet f n) := by
  simp [Gen.LaneletNetwork_deepcopy, tie_create_strtree, createStrtree, copyNet, deepcopyAttrs]

/-- pickle round trip `__setstate__(deepcopy-like relabelling of __getstate__())` is the model's `copyNet`. -/
theorem tie_pickle (f : Nat → Nat) (n : Net) :
    Gen.LaneletNetwork_setstate (deepcopyAttrs f (Gen.LaneletNetwork_getstate n) Net.empty) = copyNet f n := by
  simp [tie_setstate, tie_getstate, createStrtree, copyNet, deepcopyAttrs]

theorem fromList_fold (f : Nat → Nat) (ls : List Lanelet) : ∀ (n : Net),
    ls.foldl (fun n x => (addLanelet n (relabelL f x) false).1) n = fromListLoop n (ls.map (relabelL f)) := by
  induction ls with
  | nil => intro n; rfl
  | cons l ls ih => intro n; simp only [List.foldl_cons, List.map_cons, fromListLoop]; exact ih _

theorem tie_create_from_lanelet_list (f : Nat → Nat) (ls : List Lanelet) (cleanup : Bool) :
    Gen.LaneletNetwork_create_from_lanelet_list f ls cleanup = fromList f ls := by
  unfold Gen.LaneletNetwork_create_from_lanelet_list fromList
  simp only [lfoldl, tie_add_lanelet, tie_create_strtree, tie_init, fromList_fold]
  cases cleanup <;> rfl

/-! ### lookups -/

theorem tie_get_lanelet_id (n : Net) (g : PolyObj) :
    Gen.LaneletNetwork_get_lanelet_id_by_shapely_polygon n g = idOfPoly n g := by
  unfold Gen.LaneletNetwork_get_lanelet_id_by_shapely_polygon idOfPoly dictIdx
  cases dictGet n.idOf g.addr <;> rfl

/-! ### find_lanelet_by_shape -/

theorem getItem_mid {α} (pre : List α) (g : α) (gs : List α) : CR.Py.getItem (pre ++ g :: gs) (pre.length : Int) = .ok g := by
  simp [CR.Py.getItem, pyGet?]

/-- the loop of `find_lanelet_by_shape` over the indices handed out by the tree query, started anywhere in the tree -/
theorem prim_loop (env isects : List Pt → Prim → Bool) (n : Net) (s : Prim) (all : List PolyObj) (hT : n.tree = some all) :
    ∀ (gs pre : List PolyObj) (res : List Int), all = pre ++ gs →
      (((gs.zipIdx pre.length).filter (fun e => env e.1.ring s)).map (fun e => (e.2 : Int))).foldlM
        (fun res x => treeGeom n.tree x >>= fun g =>
          if isects g.ring s = true then (idOfPoly n g >>= fun i => pure (res ++ [i])) else pure res) res
      = (fun ids => res ++ ids) <$> (gs.filter (fun g => env g.ring s && isects g.ring s)).mapM (idOfPoly n) := by
  intro gs
  induction gs with
  | nil => intro pre res _; simp
  | cons g gs ih =>
    intro pre res hall
    have hall' : all = (pre ++ [g]) ++ gs := by simp [hall]
    have ih' := ih (pre ++ [g])
    simp only [List.length_append, List.length_cons, List.length_nil, Nat.zero_add] at ih'
    simp only [List.zipIdx_cons, List.filter_cons]
    by_cases he : env g.ring s = true
    · have hg : treeGeom n.tree (pre.length : Int) = .ok g := by
        simp only [treeGeom, hT, hall]; exact getItem_mid pre g gs
      simp only [he, if_true, List.map_cons, List.foldlM_cons, hg, Bool.true_and]
      by_cases hi : isects g.ring s = true
      · cases hid : idOfPoly n g with
        | error e => simp [hi, hid, List.mapM_cons, bind, Except.bind, Functor.map, Except.map]
        | ok i =>
          have := ih' (res ++ [i]) hall'
          simp only [hi, hid, ↓reduceIte, List.mapM_cons, bind, Except.bind, pure, Except.pure] at this ⊢
          rw [this]
          cases (gs.filter (fun g => env g.ring s && isects g.ring s)).mapM (idOfPoly n) <;>
            simp [Functor.map, Except.map]
      · have hi' : isects g.ring s = false := Bool.eq_false_iff.2 hi
        have := ih' res hall'
        simp only [hi', Bool.false_eq_true, ↓reduceIte, bind, Except.bind, pure, Except.pure] at this ⊢
        exact this
    · have he' : env g.ring s = false := Bool.eq_false_iff.2 he
      simp only [he', Bool.false_eq_true, if_false, Bool.false_and]
      exact ih' res hall'

/-- `find_lanelet_by_shape(Circle | Polygon | Rectangle)` of the current source — tree query by envelope, exact test
    `intersects`, reverse map by `id(polygon)` — is the model's `findByShape` with `meets = envelope && intersects`
    (with `env = primEnvOverlap`, `isects = ringMeets` that is `treeMeets`, the predicate of `C06_find_shape`). -/
theorem tie_find_lanelet_by_shape_prim (env isects : List Pt → Prim → Bool) (n : Net) (s : Prim) :
    Gen.LaneletNetwork_find_lanelet_by_shape_prim env isects n s
      = findByShape (fun A s => env A s && isects A s) n (.prim s) := by
  unfold Gen.LaneletNetwork_find_lanelet_by_shape_prim findByShape findPrim
  cases hT : n.tree with
  | none => simp [strQuery, bind, Except.bind]
  | some all =>
    have key := prim_loop env isects n s all hT all [] [] (by simp)
    simp only [List.length_nil, hT] at key
    simp only [strQuery, lfoldlM, bind, Except.bind, pure, Except.pure, hT, tie_get_lanelet_id] at key ⊢
    rw [key]
    cases (all.filter (fun g => env g.ring s && isects g.ring s)).mapM (idOfPoly n) <;> simp [Functor.map, Except.map]

theorem appendNew_fold (ids : List Int) : ∀ res : List Int,
    ids.foldl (fun res i => if (!listHas res i) = true then res ++ [i] else res) res = appendNew res ids := by
  induction ids with
  | nil => intro res; rfl
  | cons i ids ih =>
    intro res
    simp only [List.foldl_cons, appendNew, ih]
    by_cases h : i ∈ res <;> simp [listHas, h]

/-- `find_lanelet_by_shape(ShapeGroup)`: the lanelets of every member, each id once, in order of first appearance. -/
theorem tie_find_lanelet_by_shape_group (env isects : List Pt → Prim → Bool) (n : Net) (ss : List Prim) :
    Gen.LaneletNetwork_find_lanelet_by_shape_group env isects n ss
      = findByShape (fun A s => env A s && isects A s) n (.group ss) := by
  unfold Gen.LaneletNetwork_find_lanelet_by_shape_group findByShape
  simp only [lfoldlM, lfoldl, tie_find_lanelet_by_shape_prim, findByShape, appendNew_fold]
  generalize ([] : List Int) = res
  induction ss generalizing res with
  | nil => simp [findGroup, pure, Except.pure]
  | cons s ss ih =>
    simp only [List.foldlM_cons, findGroup]
    cases h : findPrim (fun A s => env A s && isects A s) n s with
    | error e => simp [bind, Except.bind]
    | ok ids =>
      simp only [bind, Except.bind, pure, Except.pure] at ih ⊢
      exact ih _


/-! ### find_lanelet_by_position -/

/-- one pass of the loop over the (input index, tree index) pairs handed out by the `dwithin` query -/
def posStep (n : Net) (dd : List (Int × List Int)) (x : Int × Int) : Res (List (Int × List Int)) :=
  treeGeom n.tree x.2 >>= fun g => idOfPoly n g >>= fun i => pure (ddAppend dd x.1 i)

/-- the pairs of ONE query point (input index `k`), started anywhere in the tree -/
theorem pos_inner (W : List Pt → Pt → Bool) (n : Net) (p : Pt) (k : Int) (all : List PolyObj) (hT : n.tree = some all) :
    ∀ (gs pre : List PolyObj) (dd : List (Int × List Int)), all = pre ++ gs →
      (((gs.zipIdx pre.length).filter (fun e => W e.1.ring p)).map (fun e => (k, (e.2 : Int)))).foldlM (posStep n) dd
      = (fun ids => ids.foldl (fun d i => ddAppend d k i) dd) <$> (gs.filter (fun g => W g.ring p)).mapM (idOfPoly n) := by
  intro gs
  induction gs with
  | nil => intro pre dd _; simp
  | cons g gs ih =>
    intro pre dd hall
    have hall' : all = (pre ++ [g]) ++ gs := by simp [hall]
    have ih' := ih (pre ++ [g])
    simp only [List.length_append, List.length_cons, List.length_nil, Nat.zero_add] at ih'
    simp only [List.zipIdx_cons, List.filter_cons]
    by_cases he : W g.ring p = true
    · have hg : treeGeom n.tree (pre.length : Int) = .ok g := by
        simp only [treeGeom, hT, hall]; exact getItem_mid pre g gs
      simp only [he, if_true, List.map_cons, List.foldlM_cons, posStep, hg]
      cases hid : idOfPoly n g with
      | error e => simp [hid, List.mapM_cons, bind, Except.bind, Functor.map, Except.map]
      | ok i =>
        have := ih' (ddAppend dd k i) hall'
        simp only [hid, posStep, List.mapM_cons, bind, Except.bind, pure, Except.pure] at this ⊢
        rw [this]
        cases (gs.filter (fun g => W g.ring p)).mapM (idOfPoly n) <;> simp [Functor.map, Except.map]
    · have he' : W g.ring p = false := Bool.eq_false_iff.2 he
      simp only [he', Bool.false_eq_true, if_false]
      exact ih' dd hall'

/-- `lanelet_ids[k].append(i)` for the rows of consecutive input indices `j, j+1, …` -/
def addRows (dd : List (Int × List Int)) : Nat → List (List Int) → List (Int × List Int)
  | _, [] => dd
  | j, r :: rs => addRows (r.foldl (fun d i => ddAppend d (j : Int) i) dd) (j + 1) rs

/-- all pairs of the query, point after point -/
theorem pos_outer (W : List Pt → Pt → Bool) (n : Net) (all : List PolyObj) (hT : n.tree = some all) :
    ∀ (pts : List Pt) (j : Nat) (dd : List (Int × List Int)),
      ((pts.zipIdx j).flatMap (fun pi =>
          (all.zipIdx.filter (fun e => W e.1.ring pi.1)).map (fun e => ((pi.2 : Int), (e.2 : Int))))).foldlM (posStep n) dd
      = (fun rows => addRows dd j rows) <$> pts.mapM (fun p => (all.filter (fun g => W g.ring p)).mapM (idOfPoly n)) := by
  intro pts
  induction pts with
  | nil => intro j dd; simp [addRows]
  | cons p ps ih =>
    intro j dd
    have hin := pos_inner W n p (j : Int) all hT all [] dd (by simp)
    simp only [List.length_nil] at hin
    simp only [List.zipIdx_cons, List.flatMap_cons, List.foldlM_append, hin, List.mapM_cons]
    cases (all.filter (fun g => W g.ring p)).mapM (idOfPoly n) with
    | error e => simp [bind, Except.bind, Functor.map, Except.map]
    | ok ids =>
      have := ih (j + 1) (ids.foldl (fun d i => ddAppend d (j : Int) i) dd)
      simp only [bind, Except.bind, Functor.map, Except.map, pure, Except.pure] at this ⊢
      rw [this]
      cases ps.mapM (fun p => (all.filter (fun g => W g.ring p)).mapM (idOfPoly n)) <;> simp [addRows]

theorem ddGet_append (m : List (Int × List Int)) (k k' : Int) (v : Int) :
    ddGet (ddAppend m k v) k' = if k = k' then ddGet m k' ++ [v] else ddGet m k' := by
  induction m with
  | nil =>
    by_cases h : k = k' <;> simp [ddAppend, ddGet, h]
  | cons e m ih =>
    obtain ⟨k0, vs⟩ := e
    by_cases h0 : k0 = k
    · by_cases h : k = k'
      · subst h0; subst h; simp [ddAppend, ddGet]
      · have : ¬ k0 = k' := fun e => h (h0 ▸ e)
        simp [ddAppend, ddGet, h0, h]
    · by_cases h1 : k0 = k'
      · by_cases h : k = k'
        · exact absurd (h1.trans h.symm) h0
        · subst h1
          simp [ddAppend, ddGet, h0, h]
      · have := ih
        simp only [ddGet] at this
        simp [ddAppend, ddGet, h0, h1, this]

theorem ddGet_foldl (ids : List Int) (k k' : Int) : ∀ (dd : List (Int × List Int)),
    ddGet (ids.foldl (fun d i => ddAppend d k i) dd) k' = if k = k' then ddGet dd k' ++ ids else ddGet dd k' := by
  induction ids with
  | nil => intro dd; by_cases h : k = k' <;> simp [h]
  | cons i is ih =>
    intro dd
    simp only [List.foldl_cons, ih, ddGet_append]
    by_cases h : k = k' <;> simp [h]

theorem ddGet_addRows_lt : ∀ (rows : List (List Int)) (j : Nat) (dd : List (Int × List Int)) (k : Nat), k < j →
    ddGet (addRows dd j rows) (k : Int) = ddGet dd (k : Int) := by
  intro rows
  induction rows with
  | nil => intro j dd k _; rfl
  | cons r rs ih =>
    intro j dd k hk
    simp only [addRows]
    rw [ih (j + 1) _ k (by omega), ddGet_foldl]
    have : ¬ ((j : Int) = (k : Int)) := by omega
    simp [this]

theorem addRows_get : ∀ (rows : List (List Int)) (pts : List Pt) (j : Nat) (dd : List (Int × List Int)),
    pts.length = rows.length → (∀ k : Nat, j ≤ k → ddGet dd (k : Int) = []) →
    (pts.zipIdx j).map (fun e => ddGet (addRows dd j rows) (e.2 : Int)) = rows := by
  intro rows
  induction rows with
  | nil => intro pts j dd hl _; cases pts with
    | nil => rfl
    | cons _ _ => simp at hl
  | cons r rs ih =>
    intro pts j dd hl hdd
    cases pts with
    | nil => simp at hl
    | cons p ps =>
      simp only [List.zipIdx_cons, List.map_cons, addRows]
      rw [ddGet_addRows_lt rs (j + 1) _ j (by omega), ddGet_foldl, ih ps (j + 1) _ (by simpa using hl)]
      · simp [hdd j (Nat.le_refl _)]
      · intro k hk
        rw [ddGet_foldl]
        have : ¬ ((j : Int) = (k : Int)) := by omega
        simp [this, hdd k (by omega)]

theorem mapM_ok_length {α β} (f : α → Res β) : ∀ (xs : List α) (ys : List β), xs.mapM f = .ok ys → xs.length = ys.length := by
  intro xs
  induction xs with
  | nil => intro ys h; simp [pure, Except.pure] at h; subst h; rfl
  | cons x xs ih =>
    intro ys h
    simp only [List.mapM_cons, bind, Except.bind] at h
    cases hx : f x with
    | error e => simp [hx] at h
    | ok y =>
      cases hxs : xs.mapM f with
      | error e => simp [hx, hxs] at h
      | ok ys' =>
        simp [hx, hxs, pure, Except.pure] at h
        subst h
        simp [ih ys' hxs]

/-- `find_lanelet_by_position` of the current source — `[]` for an empty point list before the tree is touched, else ONE
    `dwithin` query for all points (tolerance 1e-15), the pairs (input index, tree index) turned into ids through
    `tree.geometries` and the reverse map, grouped per input index in a defaultdict, read out in input order — is the
    model's `findByPosition` with `within (1e-15)` (with `within = treeWithin`, the predicate of `C06_find_position`). -/
theorem tie_find_lanelet_by_position (within : Rat → List Pt → Pt → Bool) (n : Net) (pts : List Pt) :
    Gen.LaneletNetwork_find_lanelet_by_position within n pts
      = findByPosition (within (1 / 1000000000000000 : Rat)) n pts := by
  unfold Gen.LaneletNetwork_find_lanelet_by_position findByPosition
  cases pts with
  | nil => simp [pure, Except.pure]
  | cons p ps =>
    rw [if_neg (by simp only [decide_eq_true_eq, List.length_cons]; omega)]
    simp only []
    cases hT : n.tree with
    | none => simp [strQueryDwithin, bind, Except.bind]
    | some all =>
      have key := pos_outer (within (1 / 1000000000000000 : Rat)) n all hT (p :: ps) 0 []
      have hstep : posStep n = fun dd x =>
          (treeGeom (some all) x.2 >>= fun g => idOfPoly n g >>= fun i => pure (ddAppend dd x.1 i)) := by
        funext dd x; simp only [posStep, hT]
      rw [hstep] at key
      simp only [bind, Except.bind, pure, Except.pure] at key
      simp only [strQueryDwithin, lfoldlM, lmap, List.map_id', bind, Except.bind, pure, Except.pure, hT, tie_get_lanelet_id]
      rw [key]
      cases hm : (p :: ps).mapM (fun p => (all.filter (fun g => within (1 / 1000000000000000 : Rat) g.ring p)).mapM (idOfPoly n)) with
      | error e => simp [Functor.map, Except.map]
      | ok rows =>
        have hl := mapM_ok_length _ _ _ hm
        have := addRows_get rows (p :: ps) 0 [] hl (fun k _ => rfl)
        simp only [Functor.map, Except.map, enumerate, List.map_map, Function.comp_def]
        exact congrArg Except.ok this

/-! ### shapes (shape.py) -/

theorem tie_rect_compute_vertices (l w : Rat) (ctr : Pt) (cs : Rat × Rat) :
    Gen.Rectangle_compute_vertices l w ctr cs = rectVerts l w ctr cs.1 cs.2 := by
  simp only [Gen.Rectangle_compute_vertices, rotateTranslate, rectVerts, List.map, place, List.cons.injEq, Pt.mk.injEq, and_true]
  refine ⟨⟨?_, ?_⟩, ⟨?_, ?_⟩, ⟨?_, ?_⟩, ⟨?_, ?_⟩, ?_, ?_⟩ <;> ring

theorem tie_rect_invalidate (o : RectObj) : Gen.Rectangle_invalidate_vertices o = o.invalidate := rfl
theorem tie_rect_set_length (o : RectObj) (v : Rat) : Gen.Rectangle_set_length o v = o.setLength v := rfl
theorem tie_rect_set_width (o : RectObj) (v : Rat) : Gen.Rectangle_set_width o v = o.setWidth v := rfl
theorem tie_rect_set_center (o : RectObj) (v : Pt) : Gen.Rectangle_set_center o v = o.setCenter v := rfl
theorem tie_rect_set_orientation (o : RectObj) (v : Rat × Rat) : Gen.Rectangle_set_orientation o v = o.setOrientation v := rfl

theorem tie_rect_init (l w : Rat) (c : Option Pt) (o : Rat × Rat) : Gen.Rectangle_init l w c o = RectObj.new l w c o := by
  simp [Gen.Rectangle_init, tie_rect_set_length, tie_rect_set_width, tie_rect_set_center, tie_rect_set_orientation,
    RectObj.setLength, RectObj.setWidth, RectObj.setCenter, RectObj.setOrientation, RectObj.invalidate, RectObj.new]

theorem tie_rect_vertices (o : RectObj) : Gen.Rectangle_vertices o = o.readVertices := by
  unfold Gen.Rectangle_vertices RectObj.readVertices
  cases h : o.vertices <;> simp [h, tie_rect_compute_vertices, RectObj.verts]

theorem tie_rect_shapely_polygon (o : RectObj) : Gen.Rectangle_shapely_polygon o = o.readPolygon := by
  unfold Gen.Rectangle_shapely_polygon RectObj.readPolygon
  cases h : o.polygon <;> simp [h, tie_rect_vertices]

theorem tie_rect_contains_point (ptIn : List Pt → Pt → Bool) (o : RectObj) (p : Pt) :
    Gen.Rectangle_contains_point ptIn o p = o.containsPoint ptIn p := by
  simp [Gen.Rectangle_contains_point, RectObj.containsPoint, tie_rect_shapely_polygon]

theorem tie_circle_update (o : CircObj) : Gen.Circle_update_shapely_circle o = o.refresh := by
  simp [Gen.Circle_update_shapely_circle, CircObj.refresh, exportedRadius]

theorem tie_circle_set_radius (o : CircObj) (r : Rat) : Gen.Circle_set_radius o r = o.setRadius r := by
  unfold Gen.Circle_set_radius CircObj.setRadius
  cases h : o.shapely <;> simp [h, tie_circle_update]

theorem tie_circle_set_center (o : CircObj) (c : Pt) : Gen.Circle_set_center o c = o.setCenter c := by
  unfold Gen.Circle_set_center CircObj.setCenter
  cases h : o.shapely <;> simp [h, tie_circle_update]

theorem tie_circle_init (r : Rat) (c : Option Pt) : Gen.Circle_init r c = CircObj.new r c := by
  simp [Gen.Circle_init, CircObj.new, tie_circle_set_radius, tie_circle_set_center, tie_circle_update]

/-- `Circle.contains_point`: `radius >= norm(point - center)` is the closed disc of the model, whatever value `norm` has
    as long as it is the non-negative root of the squared length. -/
theorem tie_circle_contains_point (norm : Pt → Rat) (h0 : ∀ v, 0 ≤ norm v) (hn : ∀ v, norm v * norm v = v.x * v.x + v.y * v.y)
    (r : Rat) (c p : Pt) : Gen.Circle_contains_point norm r c p = inDisc c r p := by
  have key := inDisc_norm c r p (norm (vsub p c)) (h0 _) (by rw [hn]; rfl)
  unfold Gen.Circle_contains_point
  rw [Bool.eq_iff_iff, key]
  simp [ge_iff_le]

theorem tie_polygon_set_vertices (vs : List Pt) : Gen.Polygon_set_vertices vs = PolyShape.ofVertices vs := rfl

theorem tie_polygon_contains_point (ptIn : List Pt → Pt → Bool) (P : PolyShape) (p : Pt) :
    Gen.Polygon_contains_point ptIn P p = P.contains ptIn p := by
  simp [Gen.Polygon_contains_point, Gen.Polygon_contains_point.in_axis_aligned_bounding_box, PolyShape.contains, lessEqual,
    CR.Py06.all]

theorem tie_shapegroup_contains_point (ss : List Prim) (p : Pt) :
    Gen.ShapeGroup_contains_point Prim.contains ss p = (Shape.group ss).contains p := by
  unfold Gen.ShapeGroup_contains_point Shape.contains
  simp only [lfindSome]
  induction ss with
  | nil => rfl
  | cons s ss ih =>
    by_cases h : s.contains p = true
    · simp [List.findSome?_cons, h]
    · have h' : s.contains p = false := Bool.eq_false_iff.2 h
      simp only [List.findSome?_cons, h', List.any_cons, Bool.false_or]
      exact ih

/-- `Lanelet.contains_points` of the current source (assert, then the polygon's own containment test per point) is the
    model's `containsPoints` (for a lanelet with at least one boundary vertex). -/
theorem tie_lanelet_contains_points (l : Lanelet) (hne : l.poly.ring ≠ []) (pts : List Pt) :
    Gen.Lanelet_contains_points inRing l pts = l.containsPoints pts := by
  unfold Gen.Lanelet_contains_points Lanelet.containsPoints
  by_cases h : pts.length < 2
  · have : ¬ (2 ≤ pts.length) := by omega
    simp [h, this, isValidPolyline, CR.Py.assert, bind, Except.bind]
  · have : 2 ≤ pts.length := by omega
    simp only [h, this, isValidPolyline, CR.Py.assert, bind, Except.bind, pure, Except.pure, decide_true, if_true, if_false,
      lmap, tie_polygon_set_vertices, tie_polygon_contains_point]
    congr 1
    apply List.map_congr_left
    intro p _
    rw [CR.Props.C06.C06_polyshape_contains inRing _ hne p]
    rfl

/-- Every place in class Lanelet that builds `self._polygon` (constructor, translate_rotate, convert_to_2d) builds the
    ring `right boundary ++ reversed left boundary` — structural extraction: the table lists every such assignment of the
    current source, and each entry is checked. -/
theorem tie_lanelet_polygon_sites (left right : List Pt) :
    ∀ e ∈ Gen.Lanelet_polygon_sites left right, e.2 = laneletRing right left := by
  intro e he
  simp only [Gen.Lanelet_polygon_sites, List.mem_cons, List.mem_nil_iff, or_false] at he
  rcases he with h | h | h <;> (rw [h]; rfl)

/-- … and the three methods that must build it are all there. -/
theorem tie_lanelet_polygon_sites_complete (left right : List Pt) :
    ∀ m ∈ ["__init__", "translate_rotate", "convert_to_2d"], m ∈ (Gen.Lanelet_polygon_sites left right).map (·.1) := by
  simp [Gen.Lanelet_polygon_sites]

end CR.T06
