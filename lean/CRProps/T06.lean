/-
  T06 — translator tie for C06. `Gen.SrcC06` is regenerated on every run by harness/translate/src_c06.py from the CURRENT
  source of commonroad/scenario/lanelet.py and commonroad/geometry/shape.py; every theorem `tie_*` below proves a generated
  definition equal to the hand-written model (CRModel/Geom.lean, CRModel/Index.lean) the C06 theorems are about — for all
  arguments. GEOS / STRtree predicates (`env`, `isects`, `within`, `ptIn`, `norm`) are parameters on both sides, as in the
  model. A source edit that changes what one of these functions computes breaks a `tie_*` theorem at build time.
-/
import Gen.SrcC06
import CRModel.Index
import CRModel.ShapeObj
namespace CR.T06
open CR CR.Geom CR.Index CR.Py06

/-! ### index maintenance (LaneletNetwork) -/

theorem filter_true' {α} (l : List α) : l.filter (fun _ => true) = l := List.filter_eq_self.2 (fun _ _ => rfl)

theorem tie_create_strtree (n : Net) : Gen.LaneletNetwork_create_strtree n = createStrtree n := by
  simp [Gen.LaneletNetwork_create_strtree, Gen.LaneletNetwork_create_strtree.assert_shapely_polygon, createStrtree, strtree, filter_true']

theorem tie_init : Gen.LaneletNetwork_init = Net.empty := by
  simp [Gen.LaneletNetwork_init, Net.empty, strtree]

theorem lanSet_new (ls : List Lanelet) (l : Lanelet) (h : ls.any (fun k => k.id = l.id) = false) : lanSet ls l = ls ++ [l] := by
  induction ls with
  | nil => rfl
  | cons a as ih =>
    simp only [List.any_cons, Bool.or_eq_false_iff, decide_eq_false_iff_not] at h
    simp [lanSet, h.1, ih h.2]

theorem tie_add_lanelet (n : Net) (l : Lanelet) (r : Bool) : Gen.LaneletNetwork_add_lanelet n l r = addLanelet n l r := by
  unfold Gen.LaneletNetwork_add_lanelet addLanelet
  by_cases h : n.lanelets.any (fun k => k.id = l.id) = true
  · simp [lanHas, h]
  · have h' : n.lanelets.any (fun k => k.id = l.id) = false := Bool.eq_false_iff.2 h
    cases r <;> simp [lanHas, h', lanSet_new, tie_create_strtree]

theorem tie_remove_lanelet (n : Net) (i : Int) (r : Bool) : Gen.LaneletNetwork_remove_lanelet n i r = removeLanelet n i r := by
  unfold Gen.LaneletNetwork_remove_lanelet removeLanelet
  by_cases h : n.lanelets.any (fun k => k.id = i) = true
  · by_cases hb : n.buffered.any (fun e => e.1 = i) = true
    · cases r <;> simp [lanHas, lanDel, dictDel, dictHas, h, hb, tie_create_strtree, bind, Except.bind, pure, Except.pure]
    · have hb' : n.buffered.any (fun e => e.1 = i) = false := Bool.eq_false_iff.2 hb
      cases r <;> simp [lanHas, lanDel, dictDel, dictHas, h, hb', bind, Except.bind, pure, Except.pure]
  · have h' : n.lanelets.any (fun k => k.id = i) = false := Bool.eq_false_iff.2 h
    cases r <;> simp [lanHas, h', tie_create_strtree, pure, Except.pure]

theorem addMany_fold (ls : List Lanelet) : ∀ (n : Net) (flag : Bool),
    ls.foldl (fun (a : Net × Bool) x => if a.2 = true then ((addLanelet a.1 x false).1, (addLanelet a.1 x false).2) else (a.1, a.2)) (n, flag)
      = addManyLoop n flag ls := by
  induction ls with
  | nil => intro n flag; rfl
  | cons l ls ih =>
    intro n flag
    cases flag
    · simp only [List.foldl_cons, addManyLoop]
      exact ih n false
    · simp only [List.foldl_cons, addManyLoop, if_true]
      exact ih _ _

theorem tie_add_lanelets_from_network (n : Net) (ls : List Lanelet) :
    Gen.LaneletNetwork_add_lanelets_from_network n ls = addFromNetwork n ls := by
  unfold Gen.LaneletNetwork_add_lanelets_from_network addFromNetwork
  simp only [lfoldl, tie_add_lanelet, tie_create_strtree]
  rw [addMany_fold]

theorem tie_setstate (state : Net) : Gen.LaneletNetwork_setstate state = createStrtree state := by
  simp [Gen.LaneletNetwork_setstate, tie_create_strtree]

theorem tie_getstate (n : Net) : Gen.LaneletNetwork_getstate n = { n with tree := none } := by
  simp [Gen.LaneletNetwork_getstate]

/-- `copy.deepcopy(network)`: the copy is the model's `copyNet`, and the original — whose tree the method drops while it
    copies — has its index rebuilt before the method returns. -/
theorem tie_deepcopy (f : Nat → Nat) (n : Net) :
    Gen.LaneletNetwork_deepcopy f n = (createStrtree n, copyNet f n) := by
  simp [Gen.LaneletNetwork_deepcopy, tie_create_strtree, createStrtree, copyNet, deepcopyAttrs]

/-- pickle round trip `__setstate__(deepcopy-like relabelling of __getstate__())` is the model's `copyNet`. -/
theorem tie_pickle (f : Nat → Nat) (n : Net) :
    Gen.LaneletNetwork_setstate (deepcopyAttrs f (Gen.LaneletNetwork_getstate n) Net.empty) = copyNet f n := by
  simp [tie_setstate, tie_getstate, createStrtree, copyNet, deepcopyAttrs]

theorem fromList_fold (f : Nat → Nat) (ls : List Lanelet) : ∀ (n : Net),
    ls.foldl (fun n x => (addLanelet n (relabelL f x) false).1) n = fromListLoop n (ls.map (relabelL f)) := by
  induction ls with
  | nil => intro n; rfl
  | cons l ls ih => intro n; simp only [List.foldl_cons, List.map_cons, fromListLoop]; exact ih _

theorem tie_create_from_lanelet_list (f : Nat → Nat) (ls : List Lanelet) (cleanup : Bool) :
    Gen.LaneletNetwork_create_from_lanelet_list f ls cleanup = fromList f ls := by
  unfold Gen.LaneletNetwork_create_from_lanelet_list fromList
  simp only [lfoldl, tie_add_lanelet, tie_create_strtree, tie_init, fromList_fold]
  cases cleanup <;> rfl

/-! ### lookups -/

theorem tie_get_lanelet_id (n : Net) (g : PolyObj) :
    Gen.LaneletNetwork_get_lanelet_id_by_shapely_polygon n g = idOfPoly n g := by
  unfold Gen.LaneletNetwork_get_lanelet_id_by_shapely_polygon idOfPoly dictIdx
  cases dictGet n.idOf g.addr <;> rfl

end CR.T06
