/-
  C15 — A file writer's output depends only on its own inputs.
  Property theorems (helper lemmas: CRProofs/WriterSM.lean).  Model: CRModel/WriterSM.lean.

  All theorems hold for EVERY content producer `c : Codec Input Node Bytes` (what a scenario, a
  planning-problem set and the other constructor arguments turn into at a given precision is not
  looked into), every start state `st` (any files, any global precision, any writer objects already
  alive) and every history `ops` (any interleaving of constructions and write calls of any length).
-/
import CRProofs.WriterSM
namespace CR.Writer

variable {Input Node Bytes : Type}

/-! ### The content is `render` of the constructor arguments -/

/-- C15 (a), trace form.  In any history, whenever the `n`-th operation is a write call on writer
    number `i` and it produced a file, the bytes are `render` of the arguments writer `i` was
    constructed with (`argsOf st ++ newsOf ops` lists the constructor arguments in order of
    construction) — whatever else was constructed or written before, in between or on other writers. -/
theorem C15_output_fn (c : Codec Input Node Bytes) (st : Proc Input Node Bytes) (ops : List (Op Input))
    (n i : Nat) (kind : Kind) (file : Option String) (mode : Mode) (a : Bool) (p : String) (b : Bytes)
    (hop : ops[n]? = some (.write i kind file mode a))
    (hout : (runOut repaired c st ops)[n]? = some (.wrote p b)) :
    ∃ fmt inp prec, (argsOf st ++ newsOf ops)[i]? = some (fmt, inp, prec) ∧ b = render c fmt inp kind prec := by
  rw [runOut_get repaired c ops st n _ hop] at hout
  simp only [Option.some.injEq] at hout
  obtain ⟨w, hw, _, _, hb, _, _⟩ :=
    wrote_repaired c (runSt repaired c st (ops.take n)) _ i kind file mode a p b (Prod.ext rfl hout)
  refine ⟨w.fmt, w.inp, w.prec, ?_, hb⟩
  have h1 : (argsOf (runSt repaired c st (ops.take n)))[i]? = some (w.fmt, w.inp, w.prec) := by
    simp [argsOf, hw, Writer.args]
  rw [argsOf_run] at h1
  obtain ⟨t, ht⟩ := newsOf_take_prefix ops n
  rw [ht, ← List.append_assoc]
  exact getElem?_append_some _ t i _ h1

/-- C15 (a), explicit form.  After any history `pre`, construct a writer with `(fmt, inp, prec)`; then
    let ANY history `mid` happen (other writers constructed with other precisions and formats, writes
    on them and on this one); a write call on this writer that produces a file produces exactly
    `render c fmt inp kind prec`. -/
theorem C15_output_fn_explicit (c : Codec Input Node Bytes) (st0 : Proc Input Node Bytes)
    (pre mid : List (Op Input)) (fmt : Format) (inp : Input) (prec : Nat)
    (kind : Kind) (file : Option String) (mode : Mode) (a : Bool)
    (st' : Proc Input Node Bytes) (p : String) (b : Bytes)
    (h : step repaired c
          (runSt repaired c (step repaired c (runSt repaired c st0 pre) (.new fmt inp prec)).1 mid)
          (.write (runSt repaired c st0 pre).ws.length kind file mode a) = (st', .wrote p b)) :
    b = render c fmt inp kind prec := by
  obtain ⟨w, hw, _, _, hb, _, _⟩ := wrote_repaired c _ st' _ kind file mode a p b h
  have h1 : (argsOf (runSt repaired c (step repaired c (runSt repaired c st0 pre) (.new fmt inp prec)).1 mid))[
      (runSt repaired c st0 pre).ws.length]? = some (w.fmt, w.inp, w.prec) := by
    simp [argsOf, hw, Writer.args]
  rw [argsOf_run, argsOf_step] at h1
  have h2 : (argsOf (runSt repaired c st0 pre) ++ newsOf [Op.new fmt inp prec] ++ newsOf mid)[
      (runSt repaired c st0 pre).ws.length]? = some (fmt, inp, prec) := by
    simp [newsOf, argsOf]
  rw [h2] at h1
  simp only [Option.some.injEq, Prod.mk.injEq] at h1
  obtain ⟨rfl, rfl, rfl⟩ := h1
  exact hb

/-! ### Writing twice, identical writers, other writers in between -/

/-- C15 (b): two write calls of the same kind on the same writer object, with ANY history in
    between, give identical content. -/
theorem C15_twice_same (c : Codec Input Node Bytes) (st : Proc Input Node Bytes) (mid : List (Op Input))
    (i : Nat) (kind : Kind) (f1 f2 : Option String) (m1 m2 : Mode) (a1 a2 : Bool)
    (st1 st2 : Proc Input Node Bytes) (p1 p2 : String) (b1 b2 : Bytes)
    (h1 : step repaired c st (.write i kind f1 m1 a1) = (st1, .wrote p1 b1))
    (h2 : step repaired c (runSt repaired c st1 mid) (.write i kind f2 m2 a2) = (st2, .wrote p2 b2)) :
    b1 = b2 := by
  obtain ⟨w, hw, _, _, hb1, _, _⟩ := wrote_repaired c st st1 i kind f1 m1 a1 p1 b1 h1
  obtain ⟨w', hw', _, _, hb2, _, _⟩ := wrote_repaired c _ st2 i kind f2 m2 a2 p2 b2 h2
  have e0 : (argsOf st)[i]? = some w.args := by simp [argsOf, hw]
  have e1 : (argsOf (runSt repaired c st1 mid))[i]? = some w'.args := by simp [argsOf, hw']
  have hs : argsOf st1 = argsOf st := by
    have := argsOf_step repaired c st (.write i kind f1 m1 a1)
    rw [h1] at this
    simpa [newsOf] using this
  rw [argsOf_run, hs, getElem?_append_some _ _ i _ e0] at e1
  simp only [Option.some.injEq, Writer.args, Prod.mk.injEq] at e1
  rw [hb1, hb2, e1.1, e1.2.1, e1.2.2]

/-- C15 (c): constructing or using any other writers in between (any precision, any format) does not
    change what a writer writes: the content of a write call at `st` and of the same call after an
    arbitrary history `mid` are the same. -/
theorem C15_others_do_not_change (c : Codec Input Node Bytes) (st : Proc Input Node Bytes) (mid : List (Op Input))
    (i : Nat) (kind : Kind) (f1 f2 : Option String) (m1 m2 : Mode) (a1 a2 : Bool)
    (st1 st2 : Proc Input Node Bytes) (p1 p2 : String) (b1 b2 : Bytes)
    (h1 : step repaired c st (.write i kind f1 m1 a1) = (st1, .wrote p1 b1))
    (h2 : step repaired c (runSt repaired c st mid) (.write i kind f2 m2 a2) = (st2, .wrote p2 b2)) :
    b1 = b2 := by
  obtain ⟨w, hw, _, _, hb1, _, _⟩ := wrote_repaired c st st1 i kind f1 m1 a1 p1 b1 h1
  obtain ⟨w', hw', _, _, hb2, _, _⟩ := wrote_repaired c _ st2 i kind f2 m2 a2 p2 b2 h2
  have e0 : (argsOf st)[i]? = some w.args := by simp [argsOf, hw]
  have e1 : (argsOf (runSt repaired c st mid))[i]? = some w'.args := by simp [argsOf, hw']
  rw [argsOf_run, getElem?_append_some _ _ i _ e0] at e1
  simp only [Option.some.injEq, Writer.args, Prod.mk.injEq] at e1
  rw [hb1, hb2, e1.1, e1.2.1, e1.2.2]

/-- C15 (d): two writers constructed identically give identical content — in whatever two states
    (of one history or of two unrelated ones) they are asked to write. -/
theorem C15_identical_writers_same (c : Codec Input Node Bytes) (st st' : Proc Input Node Bytes)
    (i j : Nat) (w w' : Writer Input Node) (kind : Kind) (f1 f2 : Option String) (m1 m2 : Mode) (a1 a2 : Bool)
    (s1 s2 : Proc Input Node Bytes) (p1 p2 : String) (b1 b2 : Bytes)
    (hw : st.ws[i]? = some w) (hw' : st'.ws[j]? = some w') (hargs : w.args = w'.args)
    (h1 : step repaired c st (.write i kind f1 m1 a1) = (s1, .wrote p1 b1))
    (h2 : step repaired c st' (.write j kind f2 m2 a2) = (s2, .wrote p2 b2)) :
    b1 = b2 := by
  obtain ⟨v, hv, _, _, hb1, _, _⟩ := wrote_repaired c st s1 i kind f1 m1 a1 p1 b1 h1
  obtain ⟨v', hv', _, _, hb2, _, _⟩ := wrote_repaired c st' s2 j kind f2 m2 a2 p2 b2 h2
  rw [hw] at hv
  rw [hw'] at hv'
  simp only [Option.some.injEq] at hv hv'
  subst hv hv'
  simp only [Writer.args, Prod.mk.injEq] at hargs
  rw [hb1, hb2, hargs.1, hargs.2.1, hargs.2.2]

/-- C15 (d), trace form: in one history, two write calls of the same kind on writers that were
    constructed with the same arguments give identical content. -/
theorem C15_identical_writers_trace (c : Codec Input Node Bytes) (st : Proc Input Node Bytes) (ops : List (Op Input))
    (n1 n2 i1 i2 : Nat) (kind : Kind) (f1 f2 : Option String) (m1 m2 : Mode) (a1 a2 : Bool)
    (p1 p2 : String) (b1 b2 : Bytes)
    (hop1 : ops[n1]? = some (.write i1 kind f1 m1 a1)) (hop2 : ops[n2]? = some (.write i2 kind f2 m2 a2))
    (hout1 : (runOut repaired c st ops)[n1]? = some (.wrote p1 b1))
    (hout2 : (runOut repaired c st ops)[n2]? = some (.wrote p2 b2))
    (hsame : (argsOf st ++ newsOf ops)[i1]? = (argsOf st ++ newsOf ops)[i2]?) :
    b1 = b2 := by
  obtain ⟨fm, inp, pr, e1, hb1⟩ := C15_output_fn c st ops n1 i1 kind f1 m1 a1 p1 b1 hop1 hout1
  obtain ⟨fm', inp', pr', e2, hb2⟩ := C15_output_fn c st ops n2 i2 kind f2 m2 a2 p2 b2 hop2 hout2
  rw [hsame, e2] at e1
  simp only [Option.some.injEq, Prod.mk.injEq] at e1
  rw [hb1, hb2, e1.1, e1.2.1, e1.2.2]

/-- Identical content reads back identically, for any reader. -/
theorem C15_readback_same {α : Type} (parse : Bytes → α) (b1 b2 : Bytes) (h : b1 = b2) : parse b1 = parse b2 :=
  congrArg parse h

/-! ### Frame conditions and SKIP -/

/-- A write call does not touch the global precision (it is restored), in either variant. -/
theorem C15_write_keeps_global_precision (sem : Sem) (c : Codec Input Node Bytes) (st : Proc Input Node Bytes)
    (i : Nat) (kind : Kind) (file : Option String) (mode : Mode) (a : Bool) :
    (step sem c st (.write i kind file mode a)).1.gprec = st.gprec :=
  step_gprec_write sem c st i kind file mode a

/-- A write call changes at most the one file it reports. -/
theorem C15_write_frame (sem : Sem) (c : Codec Input Node Bytes) (st : Proc Input Node Bytes)
    (i : Nat) (kind : Kind) (file : Option String) (mode : Mode) (a : Bool) (q : String) :
    (step sem c st (.write i kind file mode a)).1.fs q = st.fs q ∨
    ∃ b, (step sem c st (.write i kind file mode a)).2 = .wrote q b := by
  obtain ⟨_, _, h⟩ := writeStep_cases sem c st i kind file mode a _ rfl
  simp only [step]
  rcases h with ⟨hfs, _⟩ | ⟨w, p, b, _, _, _, _, ho, hfs, _⟩
  · left; rw [hfs]
  · by_cases hq : q = p
    · right; exact ⟨b, by rw [ho, hq]⟩
    · left; rw [hfs]; simp [setFile, hq]

/-- Constructing a writer touches no file. -/
theorem C15_new_keeps_files (sem : Sem) (c : Codec Input Node Bytes) (st : Proc Input Node Bytes)
    (fmt : Format) (inp : Input) (prec : Nat) : (step sem c st (.new fmt inp prec)).1.fs = st.fs := rfl

/-- C15 (e): with overwrite mode SKIP every existing file is left byte-for-byte untouched
    (either variant of the code; any writer, any file name, also the default name). -/
theorem C15_skip_untouched (sem : Sem) (c : Codec Input Node Bytes) (st : Proc Input Node Bytes)
    (i : Nat) (kind : Kind) (file : Option String) (a : Bool) (q : String) (b : Bytes)
    (hq : st.fs q = some b) :
    (step sem c st (.write i kind file .skip a)).1.fs q = some b := by
  obtain ⟨_, _, h⟩ := writeStep_cases sem c st i kind file .skip a _ rfl
  simp only [step]
  rcases h with ⟨hfs, _⟩ | ⟨w, p, b', _, _, _, hk, _, hfs, _⟩
  · rw [hfs, hq]
  · have hne : q ≠ p := by
      intro e
      apply hk
      rw [← e, hq]
      exact ⟨rfl, rfl⟩
    rw [hfs]
    simp [setFile, hne, hq]

/-- Every write of a history uses SKIP. -/
def AllSkip : List (Op Input) → Prop
  | [] => True
  | .new _ _ _ :: r => AllSkip r
  | .write _ _ _ m _ :: r => m = .skip ∧ AllSkip r

/-- C15 (e), history form: a whole history of constructions and SKIP-mode writes leaves every file
    that existed at its start byte-for-byte untouched. -/
theorem C15_skip_untouched_run (sem : Sem) (c : Codec Input Node Bytes) :
    ∀ (ops : List (Op Input)) (st : Proc Input Node Bytes) (q : String) (b : Bytes),
      AllSkip ops → st.fs q = some b → (runSt sem c st ops).fs q = some b
  | [], _, _, _, _, hq => hq
  | .new f i p :: r, st, q, b, hs, hq => by
    rw [runSt_cons]
    exact C15_skip_untouched_run sem c r _ q b hs hq
  | .write i k f m a :: r, st, q, b, hs, hq => by
    rw [runSt_cons]
    obtain ⟨hm, hr⟩ := hs
    subst hm
    exact C15_skip_untouched_run sem c r _ q b hr (C15_skip_untouched sem c st i k f a q b hq)

/-- With SKIP on an existing, named file nothing at all happens: no file, no writer object, no
    global changes. -/
theorem C15_skip_existing_is_noop (sem : Sem) (c : Codec Input Node Bytes) (st : Proc Input Node Bytes)
    (i : Nat) (kind : Kind) (p : String) (a : Bool) (b : Bytes) (w : Writer Input Node)
    (hw : st.ws[i]? = some w) (hp : p ≠ "") (hq : st.fs p = some b) :
    step sem c st (.write i kind (some p) .skip a) = (st, .skipped) := by
  simp [step, writeStep, hw, resolveName, hp, hq, keepExisting]

/-! ### Non-vacuity, and the two former defects as theorems about the `legacy` variant -/

section Witness

def inA : SInput := ⟨0, "A"⟩

def fs0 : String → Option SBytes := fun q => if q = "old.xml" then some (.foreign 7) else none

def st0 : Proc SInput SNode SBytes := ⟨4, fs0, []⟩

/-- A writer (precision 6), a protobuf writer (precision 2) constructed in between, two writes of
    the first writer, one write with SKIP on an existing file, one with SKIP on a new name. -/
def hist : List (Op SInput) :=
  [.new .xml inA 6, .write 0 .full (some "a.xml") .always false, .new .pb inA 2,
   .write 0 .full (some "b.xml") .always false, .write 1 .full (some "old.xml") .skip false,
   .write 1 .scenarioOnly none .skip false]

/-- The hypotheses of the theorems above are met by a concrete history: both writes of writer 0
    produce a file, with the content the theorems name. -/
example : runOut repaired symCodec st0 hist =
    [.created 0, .wrote "a.xml" (render symCodec .xml inA .full 6), .created 1,
     .wrote "b.xml" (render symCodec .xml inA .full 6), .skipped,
     .wrote "A.pb" (render symCodec .pb inA .scenarioOnly 2)] := by decide

example : (runSt repaired symCodec st0 hist).fs "old.xml" = some (.foreign 7) := by decide

example : hist[3]? = some (.write 0 .full (some "b.xml") .always false) := rfl

example : AllSkip (Input := SInput) [.new .xml inA 6, .write 0 .full (some "old.xml") .skip false] := ⟨rfl, trivial⟩

/-- Former defect 1 (root element created once in `__init__`): under `legacy` the second write of
    the same writer object holds the content twice — `C15_twice_same` fails for `legacy`. -/
theorem C15_legacy_second_write_doubles :
    (runOut legacy symCodec st0 [.new .xml inA 6, .write 0 .full (some "a.xml") .always false,
        .write 0 .full (some "b.xml") .always false])[2]? =
      some (.wrote "b.xml" (.file .xml 0 [⟨false, 0, 6⟩, ⟨true, 0, 6⟩, ⟨false, 0, 6⟩, ⟨true, 0, 6⟩])) := by decide

/-- Former defect 2 (precision read from the process-global at write time): under `legacy` a
    protobuf writer with precision 2 constructed in between changes what the XML writer with
    precision 6 writes — `C15_others_do_not_change` fails for `legacy`. -/
theorem C15_legacy_precision_of_other_writer :
    (runOut legacy symCodec st0 [.new .xml inA 6, .new .pb inA 2,
        .write 0 .full (some "a.xml") .always false])[2]? =
      some (.wrote "a.xml" (.file .xml 0 [⟨false, 0, 2⟩, ⟨true, 0, 2⟩])) := by decide

/-- … while the code as it is now gives the writer's own precision, once. -/
theorem C15_repaired_on_the_same_histories :
    (runOut repaired symCodec st0 [.new .xml inA 6, .write 0 .full (some "a.xml") .always false,
        .write 0 .full (some "b.xml") .always false])[2]? =
      some (.wrote "b.xml" (.file .xml 0 [⟨false, 0, 6⟩, ⟨true, 0, 6⟩])) ∧
    (runOut repaired symCodec st0 [.new .xml inA 6, .new .pb inA 2,
        .write 0 .full (some "a.xml") .always false])[2]? =
      some (.wrote "a.xml" (.file .xml 0 [⟨false, 0, 6⟩, ⟨true, 0, 6⟩])) := by decide

end Witness

end CR.Writer
