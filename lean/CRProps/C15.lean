/-
  C15 — A file writer's output depends only on its own inputs.
  Property theorems (helper lemmas: CRProofs/WriterSM.lean).  Model: CRModel/WriterSM.lean.

  The model is a MECHANISM on mutable state (global `precision.decimals`; per writer a document that is reset, given a
  date, appended to node by node — every XML node creator reading the global precision at that moment — and dumped;
  save / install / restore of the global around the XML loops).  `render` is a separate, pure function of
  (format, input, method, precision, date).  That the mechanism produces `render` of the writer's OWN constructor
  arguments is what is proved here (`C15_write_outcome`, via `buildFor_repaired`: loop invariant "the global is the
  writer's own precision at every formatting site, the document holds this call's nodes only"); for the `legacy` variant
  of the same mechanism it is false (`C15_legacy_…`).

  Quantification: every content producer `c : Codec …` (objects, node creators that may raise, serialisers, date eraser,
  reader), every start state (any files, any global precision, any writer objects already alive, with any documents),
  every history of constructions and write calls of any length, every date per call.
  Two laws about the content producer are HYPOTHESES where stated (they are about content, i.e. C01–C03's business):
  `DateLaw` (the date of the call enters a file only through what `eraseDate` erases) and `ReadLaw` (a rendered file
  reads back to `proj` of what it was rendered from — XML: C01, protobuf: C02); `symCodec` satisfies both.
-/
import CRProofs.WriterSM
namespace CR.Writer

variable {Input Item Node Bytes Date Content : Type}

/-- The date of the call enters a file only through the date stamp. -/
structure DateLaw (c : Codec Input Item Node Bytes Date Content) : Prop where
  xml : ∀ i d d' ns, c.eraseDate (c.dumpXml i d ns) = c.eraseDate (c.dumpXml i d' ns)
  pb : ∀ i d d' ns, c.eraseDate (c.dumpPb i d ns) = c.eraseDate (c.dumpPb i d' ns)

/-- Round trip of rendered content: the file a single call renders reads back, to a value determined by format, input,
    method and precision alone (C01 for XML, C02 for protobuf; at precision `prec` the value is the input truncated). -/
structure ReadLaw (c : Codec Input Item Node Bytes Date Content) (proj : Format → Input → Kind → Nat → Content) : Prop where
  read_render : ∀ fmt inp kind prec date b, render c fmt inp kind prec date = .ok b → c.read b = some (proj fmt inp kind prec)

theorem render_eraseDate (c : Codec Input Item Node Bytes Date Content) (hd : DateLaw c) (fmt : Format) (inp : Input)
    (kind : Kind) (prec : Nat) (d1 d2 : Date) (b1 b2 : Bytes)
    (h1 : render c fmt inp kind prec d1 = .ok b1) (h2 : render c fmt inp kind prec d2 = .ok b2) :
    c.eraseDate b1 = c.eraseDate b2 := by
  unfold render at h1 h2
  cases hm : mkNodes (creator c fmt prec) (itemsOf c inp kind) with
  | error e => rw [hm] at h1; simp at h1
  | ok ns =>
    rw [hm] at h1 h2
    simp only [Except.ok.injEq] at h1 h2
    subst h1 h2
    cases fmt
    · exact hd.xml _ _ _ _
    · exact hd.pb _ _ _ _

/-! ### The mechanism computes `render` of the writer's own arguments -/

/-- C15, the write call.  For a live writer object `w` (whatever its document holds from earlier calls, whatever the
    global precision is), the outcome of a write call is the decision table `expected` over the PURE
    `render c w.fmt w.inp kind w.prec date`: skipped (empty name / existing file kept), raised (a creator raised, or the
    empty name reached `tree.write`), or `wrote name b` with `render … = ok b`.  Unconditional: every branch is covered. -/
theorem C15_write_outcome (c : Codec Input Item Node Bytes Date Content) (st : St Input Node Bytes Date)
    (i : Nat) (w : Writer Input Node Date) (kind : Kind) (file : Option String) (mode : Mode) (a : Answer) (date : Date)
    (hw : st.ws[i]? = some w) :
    (step repaired c st (.write i kind file mode a date)).2 = expected c st w kind file mode a date :=
  writeStep_repaired_outcome c st i w kind file mode a date hw

/-- A write that produced a file: which writer, which name, and that the bytes are `render` of its own arguments. -/
theorem wrote_repaired (c : Codec Input Item Node Bytes Date Content) (st st' : St Input Node Bytes Date)
    (i : Nat) (kind : Kind) (file : Option String) (mode : Mode) (a : Answer) (date : Date) (p : String) (b : Bytes)
    (h : step repaired c st (.write i kind file mode a date) = (st', .wrote p b)) :
    ∃ w, st.ws[i]? = some w ∧ p = resolveName c w kind file ∧ p ≠ "" ∧
      render c w.fmt w.inp kind w.prec date = .ok b ∧ st'.fs = setFile st.fs p b ∧ st'.gprec = st.gprec := by
  have hs := writeStep_shape repaired c st i kind file mode a date _ h
  obtain ⟨hg, _, hrest⟩ := hs
  rcases hrest with ⟨_, h2⟩ | ⟨w, p', b', hw, hp, hne, _, ho, hfs⟩
  · rcases h2 with h2 | ⟨e, h2⟩ <;> simp at h2
  · simp only [Outcome.wrote.injEq] at ho
    obtain ⟨rfl, rfl⟩ := ho
    refine ⟨w, hw, hp, hne, ?_, hfs, hg⟩
    have ho := C15_write_outcome c st i w kind file mode a date hw
    rw [h] at ho
    simp only at ho
    unfold expected at ho
    simp only at ho
    split at ho
    · simp at ho
    · split at ho
      · simp at ho
      · split at ho
        · simp at ho
        · split at ho
          · simp at ho
          · rename_i b'' hr
            split at ho
            · simp at ho
            · simp only [Outcome.wrote.injEq] at ho
              rw [hr, ho.2]

/-- C15, progress.  A write call on a live writer with a non-empty file name under which a file can be created, that
    does not exist yet, or with mode ALWAYS, whose node creators do not raise, DOES produce the file, with content `render`
    of the writer's own arguments. -/
theorem C15_progress (c : Codec Input Item Node Bytes Date Content) (st : St Input Node Bytes Date)
    (i : Nat) (w : Writer Input Node Date) (kind : Kind) (file : Option String) (mode : Mode) (a : Answer) (date : Date)
    (b : Bytes) (hw : st.ws[i]? = some w) (hne : resolveName c w kind file ≠ "")
    (hcan : st.unwritable (resolveName c w kind file) = false)
    (hfree : mode = .always ∨ st.fs (resolveName c w kind file) = none)
    (hr : render c w.fmt w.inp kind w.prec date = .ok b) :
    (step repaired c st (.write i kind file mode a date)).2 = .wrote (resolveName c w kind file) b ∧
    (step repaired c st (.write i kind file mode a date)).1.fs (resolveName c w kind file) = some b := by
  have ho := C15_write_outcome c st i w kind file mode a date hw
  have hk : ¬ ((st.fs (resolveName c w kind file)).isSome = true ∧ keepExisting mode a = true) := by
    rcases hfree with h | h
    · subst h; simp [keepExisting]
    · simp [h]
  have he : expected c st w kind file mode a date = .wrote (resolveName c w kind file) b := by
    have h1 : (resolveName c w kind file = "" && !(w.fmt == Format.xml && kind == Kind.scenarioOnly)) = false := by
      simp [hne]
    have h2 : (resolveName c w kind file ≠ "" && (st.fs (resolveName c w kind file)).isSome && keepExisting mode a) = false := by
      by_cases h3 : (st.fs (resolveName c w kind file)).isSome = true
      · have : keepExisting mode a = false := by
          cases hk' : keepExisting mode a
          · rfl
          · exact absurd ⟨h3, hk'⟩ hk
        simp [this]
      · simp [h3]
    have h3 : (resolveName c w kind file ≠ "" && (st.fs (resolveName c w kind file)).isSome && askRaises mode a) = false := by
      rcases hfree with h | h
      · subst h; simp [askRaises]
      · simp [h]
    unfold expected
    simp only [hr, h1, h2, h3, Bool.false_eq_true, if_false]
    simp [hne, hcan]
  rw [he] at ho
  refine ⟨ho, ?_⟩
  obtain ⟨_, _, hrest⟩ := writeStep_shape repaired c st i kind file mode a date _ rfl
  simp only [step] at ho
  rcases hrest with ⟨_, h2⟩ | ⟨w', p', b', hw', hp, _, _, ho', hfs⟩
  · rw [ho] at h2
    rcases h2 with h2 | ⟨e, h2⟩ <;> simp at h2
  · rw [ho] at ho'
    simp only [Outcome.wrote.injEq] at ho'
    simp only [step]
    rw [hfs, ← ho'.1, ← ho'.2]
    simp [setFile]

/-- C15, progress (exceptions).  If a node creator raises for the writer's own arguments, a call that is not skipped
    raises that exception, and no file changes. -/
theorem C15_raising_write_keeps_files (sem : Sem) (c : Codec Input Item Node Bytes Date Content)
    (st : St Input Node Bytes Date) (i : Nat) (kind : Kind) (file : Option String) (mode : Mode) (a : Answer) (date : Date)
    (e : Err) (h : (step sem c st (.write i kind file mode a date)).2 = .failed e) :
    (step sem c st (.write i kind file mode a date)).1.fs = st.fs := by
  obtain ⟨_, _, hrest⟩ := writeStep_shape sem c st i kind file mode a date _ rfl
  simp only [step] at h ⊢
  rcases hrest with ⟨hfs, _⟩ | ⟨_, _, _, _, _, _, _, ho, _⟩
  · exact hfs
  · rw [h] at ho; simp at ho

/-- C15 (a), trace form.  In any history, whenever the `n`-th operation is a write call on writer number `i` and it
    produced a file, the bytes are `render` of the arguments writer `i` was constructed with (`argsOf st ++ newsOf ops`
    lists the constructor arguments in order of construction) and of the date of that call — whatever else was
    constructed or written before, in between or on other writers, at whatever precisions. -/
theorem C15_output_fn (c : Codec Input Item Node Bytes Date Content) (st : St Input Node Bytes Date)
    (ops : List (Op Input Date)) (n i : Nat) (kind : Kind) (file : Option String) (mode : Mode) (a : Answer) (date : Date)
    (p : String) (b : Bytes)
    (hop : ops[n]? = some (.write i kind file mode a date))
    (hout : (runOut repaired c st ops)[n]? = some (.wrote p b)) :
    ∃ fmt inp prec, (argsOf st ++ newsOf ops)[i]? = some (fmt, inp, prec) ∧
      render c fmt inp kind prec date = .ok b := by
  rw [runOut_get repaired c ops st n _ hop] at hout
  simp only [Option.some.injEq] at hout
  obtain ⟨w, hw, _, _, hb, _, _⟩ :=
    wrote_repaired c (runSt repaired c st (ops.take n)) _ i kind file mode a date p b (Prod.ext rfl hout)
  refine ⟨w.fmt, w.inp, w.prec, ?_, hb⟩
  have h1 : (argsOf (runSt repaired c st (ops.take n)))[i]? = some (w.fmt, w.inp, w.prec) := by
    simp [argsOf, hw, Writer.args]
  rw [argsOf_run] at h1
  obtain ⟨t, ht⟩ := newsOf_take_prefix ops n
  rw [ht, ← List.append_assoc]
  exact getElem?_append_some _ t i _ h1

/-- C15 (a), explicit form.  After any history `pre`, construct a writer with `(fmt, inp, prec)`; let ANY history `mid`
    happen (other writers constructed with other precisions and formats, writes on them and on this one, raising
    writes); a write call on this writer that produces a file produces `render c fmt inp kind prec date`. -/
theorem C15_output_fn_explicit (c : Codec Input Item Node Bytes Date Content) (st0 : St Input Node Bytes Date)
    (pre mid : List (Op Input Date)) (fmt : Format) (inp : Input) (prec : Nat)
    (kind : Kind) (file : Option String) (mode : Mode) (a : Answer) (date : Date)
    (st' : St Input Node Bytes Date) (p : String) (b : Bytes)
    (h : step repaired c
          (runSt repaired c (step repaired c (runSt repaired c st0 pre) (.new fmt inp prec)).1 mid)
          (.write (runSt repaired c st0 pre).ws.length kind file mode a date) = (st', .wrote p b)) :
    render c fmt inp kind prec date = .ok b := by
  obtain ⟨w, hw, _, _, hb, _, _⟩ := wrote_repaired c _ st' _ kind file mode a date p b h
  have h1 : (argsOf (runSt repaired c (step repaired c (runSt repaired c st0 pre) (.new fmt inp prec)).1 mid))[
      (runSt repaired c st0 pre).ws.length]? = some (w.fmt, w.inp, w.prec) := by
    simp [argsOf, hw, Writer.args]
  rw [argsOf_run, argsOf_step] at h1
  have h2 : (argsOf (runSt repaired c st0 pre) ++ newsOf [Op.new (Date := Date) fmt inp prec] ++ newsOf mid)[
      (runSt repaired c st0 pre).ws.length]? = some (fmt, inp, prec) := by
    simp [newsOf, argsOf]
  rw [h2] at h1
  simp only [Option.some.injEq, Prod.mk.injEq] at h1
  obtain ⟨rfl, rfl, rfl⟩ := h1
  exact hb

/-! ### Writing twice, identical writers, other writers in between — equal "the date stamp aside" -/

/-- C15 (b): two write calls of the same kind on the same writer object, on possibly different dates, with ANY history
    in between, give content that is identical once the date stamp is erased. -/
theorem C15_twice_same (c : Codec Input Item Node Bytes Date Content) (hd : DateLaw c)
    (st : St Input Node Bytes Date) (mid : List (Op Input Date))
    (i : Nat) (kind : Kind) (f1 f2 : Option String) (m1 m2 : Mode) (a1 a2 : Answer) (d1 d2 : Date)
    (st1 st2 : St Input Node Bytes Date) (p1 p2 : String) (b1 b2 : Bytes)
    (h1 : step repaired c st (.write i kind f1 m1 a1 d1) = (st1, .wrote p1 b1))
    (h2 : step repaired c (runSt repaired c st1 mid) (.write i kind f2 m2 a2 d2) = (st2, .wrote p2 b2)) :
    c.eraseDate b1 = c.eraseDate b2 := by
  obtain ⟨w, hw, _, _, hb1, _, _⟩ := wrote_repaired c st st1 i kind f1 m1 a1 d1 p1 b1 h1
  obtain ⟨w', hw', _, _, hb2, _, _⟩ := wrote_repaired c _ st2 i kind f2 m2 a2 d2 p2 b2 h2
  have e0 : (argsOf st)[i]? = some w.args := by simp [argsOf, hw]
  have e1 : (argsOf (runSt repaired c st1 mid))[i]? = some w'.args := by simp [argsOf, hw']
  have hs : argsOf st1 = argsOf st := by
    have := argsOf_step repaired c st (.write i kind f1 m1 a1 d1)
    rw [h1] at this
    simpa [newsOf] using this
  rw [argsOf_run, hs, getElem?_append_some _ _ i _ e0] at e1
  simp only [Option.some.injEq, Writer.args, Prod.mk.injEq] at e1
  rw [e1.1, e1.2.1, e1.2.2] at hb1
  exact render_eraseDate c hd _ _ _ _ d1 d2 b1 b2 hb1 hb2

/-- C15 (c): constructing or using any other writers in between (any precision, any format) does not change what a
    writer writes: the content of a write call at `st` and of the same call after an arbitrary history `mid`
    (on another date) agree once the date stamp is erased. -/
theorem C15_others_do_not_change (c : Codec Input Item Node Bytes Date Content) (hd : DateLaw c)
    (st : St Input Node Bytes Date) (mid : List (Op Input Date))
    (i : Nat) (kind : Kind) (f1 f2 : Option String) (m1 m2 : Mode) (a1 a2 : Answer) (d1 d2 : Date)
    (st1 st2 : St Input Node Bytes Date) (p1 p2 : String) (b1 b2 : Bytes)
    (h1 : step repaired c st (.write i kind f1 m1 a1 d1) = (st1, .wrote p1 b1))
    (h2 : step repaired c (runSt repaired c st mid) (.write i kind f2 m2 a2 d2) = (st2, .wrote p2 b2)) :
    c.eraseDate b1 = c.eraseDate b2 := by
  obtain ⟨w, hw, _, _, hb1, _, _⟩ := wrote_repaired c st st1 i kind f1 m1 a1 d1 p1 b1 h1
  obtain ⟨w', hw', _, _, hb2, _, _⟩ := wrote_repaired c _ st2 i kind f2 m2 a2 d2 p2 b2 h2
  have e0 : (argsOf st)[i]? = some w.args := by simp [argsOf, hw]
  have e1 : (argsOf (runSt repaired c st mid))[i]? = some w'.args := by simp [argsOf, hw']
  rw [argsOf_run, getElem?_append_some _ _ i _ e0] at e1
  simp only [Option.some.injEq, Writer.args, Prod.mk.injEq] at e1
  rw [e1.1, e1.2.1, e1.2.2] at hb1
  exact render_eraseDate c hd _ _ _ _ d1 d2 b1 b2 hb1 hb2

/-- C15 (d): two writers constructed identically give identical content, date stamp aside — in whatever two states (of
    one history or of two unrelated ones, whatever their documents hold) they are asked to write. -/
theorem C15_identical_writers_same (c : Codec Input Item Node Bytes Date Content) (hd : DateLaw c)
    (st st' : St Input Node Bytes Date)
    (i j : Nat) (w w' : Writer Input Node Date) (kind : Kind) (f1 f2 : Option String) (m1 m2 : Mode) (a1 a2 : Answer)
    (d1 d2 : Date) (s1 s2 : St Input Node Bytes Date) (p1 p2 : String) (b1 b2 : Bytes)
    (hw : st.ws[i]? = some w) (hw' : st'.ws[j]? = some w') (hargs : w.args = w'.args)
    (h1 : step repaired c st (.write i kind f1 m1 a1 d1) = (s1, .wrote p1 b1))
    (h2 : step repaired c st' (.write j kind f2 m2 a2 d2) = (s2, .wrote p2 b2)) :
    c.eraseDate b1 = c.eraseDate b2 := by
  obtain ⟨v, hv, _, _, hb1, _, _⟩ := wrote_repaired c st s1 i kind f1 m1 a1 d1 p1 b1 h1
  obtain ⟨v', hv', _, _, hb2, _, _⟩ := wrote_repaired c st' s2 j kind f2 m2 a2 d2 p2 b2 h2
  rw [hw] at hv
  rw [hw'] at hv'
  simp only [Option.some.injEq] at hv hv'
  subst hv hv'
  simp only [Writer.args, Prod.mk.injEq] at hargs
  rw [hargs.1, hargs.2.1, hargs.2.2] at hb1
  exact render_eraseDate c hd _ _ _ _ d1 d2 b1 b2 hb1 hb2

/-- C15 (d), trace form: in one history, two write calls of the same kind on writers that were constructed with the
    same arguments give identical content, date stamp aside. -/
theorem C15_identical_writers_trace (c : Codec Input Item Node Bytes Date Content) (hd : DateLaw c)
    (st : St Input Node Bytes Date) (ops : List (Op Input Date))
    (n1 n2 i1 i2 : Nat) (kind : Kind) (f1 f2 : Option String) (m1 m2 : Mode) (a1 a2 : Answer) (d1 d2 : Date)
    (p1 p2 : String) (b1 b2 : Bytes)
    (hop1 : ops[n1]? = some (.write i1 kind f1 m1 a1 d1)) (hop2 : ops[n2]? = some (.write i2 kind f2 m2 a2 d2))
    (hout1 : (runOut repaired c st ops)[n1]? = some (.wrote p1 b1))
    (hout2 : (runOut repaired c st ops)[n2]? = some (.wrote p2 b2))
    (hsame : (argsOf st ++ newsOf ops)[i1]? = (argsOf st ++ newsOf ops)[i2]?) :
    c.eraseDate b1 = c.eraseDate b2 := by
  obtain ⟨fm, inp, pr, e1, hb1⟩ := C15_output_fn c st ops n1 i1 kind f1 m1 a1 d1 p1 b1 hop1 hout1
  obtain ⟨fm', inp', pr', e2, hb2⟩ := C15_output_fn c st ops n2 i2 kind f2 m2 a2 d2 p2 b2 hop2 hout2
  rw [hsame, e2] at e1
  simp only [Option.some.injEq, Prod.mk.injEq] at e1
  rw [e1.1, e1.2.1, e1.2.2] at hb2
  exact render_eraseDate c hd _ _ _ _ d1 d2 b1 b2 hb1 hb2

/-! ### "…and each such file reads back to the same scenario" -/

/-- C15 (r): under the round-trip law for rendered files, EVERY file a write call produces in any history reads back
    (the reader does not raise) — to `proj` of the arguments its writer was constructed with. -/
theorem C15_reads_back (c : Codec Input Item Node Bytes Date Content) (proj : Format → Input → Kind → Nat → Content)
    (hr : ReadLaw c proj) (st : St Input Node Bytes Date) (ops : List (Op Input Date))
    (n i : Nat) (kind : Kind) (file : Option String) (mode : Mode) (a : Answer) (date : Date) (p : String) (b : Bytes)
    (hop : ops[n]? = some (.write i kind file mode a date))
    (hout : (runOut repaired c st ops)[n]? = some (.wrote p b)) :
    ∃ fmt inp prec, (argsOf st ++ newsOf ops)[i]? = some (fmt, inp, prec) ∧ c.read b = some (proj fmt inp kind prec) := by
  obtain ⟨fm, inp, pr, e1, hb⟩ := C15_output_fn c st ops n i kind file mode a date p b hop hout
  exact ⟨fm, inp, pr, e1, hr.read_render _ _ _ _ _ _ hb⟩

/-- C15 (r): the files of two write calls of the same kind on the same writer or on identically constructed writers
    (any dates, anything in between) both read back, and to the same value. -/
theorem C15_read_back_same (c : Codec Input Item Node Bytes Date Content) (proj : Format → Input → Kind → Nat → Content)
    (hr : ReadLaw c proj) (st : St Input Node Bytes Date) (ops : List (Op Input Date))
    (n1 n2 i1 i2 : Nat) (kind : Kind) (f1 f2 : Option String) (m1 m2 : Mode) (a1 a2 : Answer) (d1 d2 : Date)
    (p1 p2 : String) (b1 b2 : Bytes)
    (hop1 : ops[n1]? = some (.write i1 kind f1 m1 a1 d1)) (hop2 : ops[n2]? = some (.write i2 kind f2 m2 a2 d2))
    (hout1 : (runOut repaired c st ops)[n1]? = some (.wrote p1 b1))
    (hout2 : (runOut repaired c st ops)[n2]? = some (.wrote p2 b2))
    (hsame : (argsOf st ++ newsOf ops)[i1]? = (argsOf st ++ newsOf ops)[i2]?) :
    c.read b1 = c.read b2 ∧ (c.read b1).isSome = true := by
  obtain ⟨fm, inp, pr, e1, r1⟩ := C15_reads_back c proj hr st ops n1 i1 kind f1 m1 a1 d1 p1 b1 hop1 hout1
  obtain ⟨fm', inp', pr', e2, r2⟩ := C15_reads_back c proj hr st ops n2 i2 kind f2 m2 a2 d2 p2 b2 hop2 hout2
  rw [hsame, e2] at e1
  simp only [Option.some.injEq, Prod.mk.injEq] at e1
  rw [r1, r2, e1.1, e1.2.1, e1.2.2]
  exact ⟨rfl, rfl⟩

/-! ### The global precision -/

/-- A write call leaves `precision.decimals` as it found it — the XML writer assigns it (installs its own precision) and
    the `finally` puts the saved value back, also when a node creator raises; holds for both variants (`legacy` never
    assigns it in a write). -/
theorem C15_write_restores_global_precision (sem : Sem) (c : Codec Input Item Node Bytes Date Content)
    (st : St Input Node Bytes Date) (i : Nat) (kind : Kind) (file : Option String) (mode : Mode) (a : Answer) (date : Date) :
    (step sem c st (.write i kind file mode a date)).1.gprec = st.gprec :=
  step_gprec_write sem c st i kind file mode a date

/-- Between calls the global precision is what the last constructor set (or the start value if none ran): after ANY
    history, including raising writes. -/
theorem C15_global_precision_between_calls (sem : Sem) (c : Codec Input Item Node Bytes Date Content)
    (st : St Input Node Bytes Date) (ops : List (Op Input Date)) :
    (runSt sem c st ops).gprec = precAfter st.gprec ops :=
  gprec_run sem c ops st

/-- During a write the global precision is the writer's own, and the document is this call's alone: after a write
    call that produced a file, the writer's document holds exactly `mkNodes` of this call's objects at the writer's own
    precision (nothing from earlier calls), and the date of this call. -/
theorem C15_document_after_write (c : Codec Input Item Node Bytes Date Content) (st st' : St Input Node Bytes Date)
    (i : Nat) (kind : Kind) (file : Option String) (mode : Mode) (a : Answer) (date : Date) (p : String) (b : Bytes)
    (h : step repaired c st (.write i kind file mode a date) = (st', .wrote p b)) :
    ∃ w ns, st.ws[i]? = some w ∧ mkNodes (creator c w.fmt w.prec) (itemsOf c w.inp kind) = .ok ns ∧
      st'.ws[i]? = some { w with date := some date, root := ns } := by
  obtain ⟨w, hw, _, _, hb, _, _⟩ := wrote_repaired c st st' i kind file mode a date p b h
  have hbf := buildFor_repaired c st i w kind date hw
  unfold render at hb
  cases hm : mkNodes (creator c w.fmt w.prec) (itemsOf c w.inp kind) with
  | error e => rw [hm] at hb; simp at hb
  | ok ns =>
    refine ⟨w, ns, hw, hm, ?_⟩
    rw [hm] at hbf
    simp only at hbf
    simp only [step, writeStep, hw] at h
    split at h
    · simp at h
    · split at h
      · simp at h
      · split at h
        · simp at h
        · rw [hbf] at h
          simp only at h
          split at h
          · simp at h
          · have hg : (DocOf st i w (some date) ns).ws[i]? = some { w with date := some date, root := ns } :=
              setWriter_get st i w _ hw
            simp only [hg, Prod.mk.injEq] at h
            rw [← h.1]
            exact hg

/-! ### Frame conditions and SKIP -/

/-- A write call changes at most the one file it reports. -/
theorem C15_write_frame (sem : Sem) (c : Codec Input Item Node Bytes Date Content) (st : St Input Node Bytes Date)
    (i : Nat) (kind : Kind) (file : Option String) (mode : Mode) (a : Answer) (date : Date) (q : String) :
    (step sem c st (.write i kind file mode a date)).1.fs q = st.fs q ∨
    ∃ b, (step sem c st (.write i kind file mode a date)).2 = .wrote q b := by
  obtain ⟨_, _, h⟩ := writeStep_shape sem c st i kind file mode a date _ rfl
  simp only [step]
  rcases h with ⟨hfs, _⟩ | ⟨w, p, b, _, _, _, _, ho, hfs⟩
  · left; rw [hfs]
  · by_cases hq : q = p
    · right; exact ⟨b, by rw [ho, hq]⟩
    · left; rw [hfs]; simp [setFile, hq]

/-- (definitional: documents the model, carries no proof content) Constructing a writer touches no file. -/
theorem C15_new_keeps_files (sem : Sem) (c : Codec Input Item Node Bytes Date Content) (st : St Input Node Bytes Date)
    (fmt : Format) (inp : Input) (prec : Nat) : (step sem c st (.new fmt inp prec)).1.fs = st.fs := rfl

/-- C15 (e): with overwrite mode SKIP every existing file is left byte-for-byte untouched (either variant of the code;
    any writer, any file name, also the default name). -/
theorem C15_skip_untouched (sem : Sem) (c : Codec Input Item Node Bytes Date Content) (st : St Input Node Bytes Date)
    (i : Nat) (kind : Kind) (file : Option String) (a : Answer) (date : Date) (q : String) (b : Bytes)
    (hq : st.fs q = some b) :
    (step sem c st (.write i kind file .skip a date)).1.fs q = some b := by
  obtain ⟨_, _, h⟩ := writeStep_shape sem c st i kind file .skip a date _ rfl
  simp only [step]
  rcases h with ⟨hfs, _⟩ | ⟨w, p, b', _, _, _, hk, _, hfs⟩
  · rw [hfs, hq]
  · have hne : q ≠ p := by
      intro e
      apply hk
      rw [← e, hq]
      exact ⟨rfl, rfl⟩
    rw [hfs]
    simp [setFile, hne, hq]

/-- Every write of a history uses SKIP. -/
def AllSkip : List (Op Input Date) → Prop
  | [] => True
  | .new _ _ _ :: r => AllSkip r
  | .write _ _ _ m _ _ :: r => m = .skip ∧ AllSkip r
  | .setGlobal _ :: r => AllSkip r

/-- C15 (e), history form: a whole history of constructions and SKIP-mode writes leaves every file that existed at its
    start byte-for-byte untouched. -/
theorem C15_skip_untouched_run (sem : Sem) (c : Codec Input Item Node Bytes Date Content) :
    ∀ (ops : List (Op Input Date)) (st : St Input Node Bytes Date) (q : String) (b : Bytes),
      AllSkip ops → st.fs q = some b → (runSt sem c st ops).fs q = some b
  | [], _, _, _, _, hq => hq
  | .new f i p :: r, st, q, b, hs, hq => by
    rw [runSt_cons]
    exact C15_skip_untouched_run sem c r _ q b hs hq
  | .write i k f m a d :: r, st, q, b, hs, hq => by
    rw [runSt_cons]
    obtain ⟨hm, hr⟩ := hs
    subst hm
    exact C15_skip_untouched_run sem c r _ q b hr (C15_skip_untouched sem c st i k f a d q b hq)
  | .setGlobal g :: r, st, q, b, hs, hq => by
    rw [runSt_cons]
    exact C15_skip_untouched_run sem c r _ q b hs hq

/-- With SKIP on an existing, named file nothing at all happens: no file, no document, no global changes. -/
theorem C15_skip_existing_is_noop (sem : Sem) (c : Codec Input Item Node Bytes Date Content) (st : St Input Node Bytes Date)
    (i : Nat) (kind : Kind) (p : String) (a : Answer) (date : Date) (b : Bytes) (w : Writer Input Node Date)
    (hw : st.ws[i]? = some w) (hp : p ≠ "") (hq : st.fs p = some b) :
    step sem c st (.write i kind (some p) .skip a date) = (st, .skipped) := by
  simp [step, writeStep, hw, resolveName, hp, hq, keepExisting, askRaises]

/-! ### Method by method (what the translator tie CRProps/T15.lean compares the current source with) -/

/-- `_handle_file_path` decides before anything is touched: if it raises (`input()` without a terminal) or answers `""`
    (SKIP / "n" on an existing file, or the empty name), a write call that goes through it changes NOTHING — no file, no
    document, no global. -/
theorem C15_handle_file_path_decides_first (sem : Sem) (c : Codec Input Item Node Bytes Date Content)
    (st : St Input Node Bytes Date) (i : Nat) (w : Writer Input Node Date) (kind : Kind) (file : Option String) (mode : Mode)
    (a : Answer) (date : Date) (hw : st.ws[i]? = some w) (hvia : (w.fmt == .xml && kind == .scenarioOnly) = false) :
    (∀ e, handleFilePath c st w file mode a = .error e → writeStep sem c st i kind file mode a date = (st, .failed e)) ∧
    (handleFilePath c st w file mode a = .ok "" → writeStep sem c st i kind file mode a date = (st, .skipped)) := by
  have hr : resolveName c w kind file = resolveName c w .full file := by
    cases file <;> cases hf : w.fmt <;> cases kind <;> simp_all [resolveName]
  unfold handleFilePath writeStep
  simp only [hw, hr, hvia]
  generalize resolveName c w .full file = name
  by_cases hn : name = "" <;> by_cases hx : (st.fs name).isSome = true <;> cases hk : keepExisting mode a <;>
    cases hq : askRaises mode a <;> simp [hn, hx, hk, hq]
  all_goals (intro h; exact absurd h.symm hn)

/-- With SKIP, `_handle_file_path` answers `""` for every existing file. -/
theorem C15_handle_file_path_skip (c : Codec Input Item Node Bytes Date Content) (st : St Input Node Bytes Date)
    (w : Writer Input Node Date) (file : Option String) (a : Answer) (b : Bytes)
    (hq : st.fs (resolveName c w .full file) = some b) : handleFilePath c st w file .skip a = .ok "" := by
  unfold handleFilePath
  by_cases hn : resolveName c w .full file = "" <;> simp [hn, hq, askRaises, keepExisting]

/-- The six methods that fill a document (header, scenario objects, planning problems; XML and protobuf) change the
    writer's OWN document and nothing else: every `set` / `append` / `CopyFrom` / assignment in them has the root element
    or a field of the message of `self` as its target, and none of their statements is of an unknown kind.
    (Finite tables, compared completely; tied to the current source by T15 `tie_*_accesses`.) -/
theorem C15_document_methods_touch_own_document_only :
    ∀ t ∈ Tables.documentMethods, ∀ a ∈ t, Tables.writesOwnDocument a = true := by decide

/-- The constructor stores its `decimal_precision` argument as the writer's own precision and assigns the SAME argument
    to the module global (`Op.new`: `gprec := prec`, `Writer.prec := prec`); the subclasses and the facade pass all
    arguments on in order and start with an empty document. -/
theorem C15_ctor_precision_accesses :
    ("assign", "self._decimal_precision", "decimal_precision") ∈ Tables.ctorAccesses ∧
    ("assign", "precision.decimals", "decimal_precision") ∈ Tables.ctorAccesses ∧
    Tables.xmlCtorAccesses.head? = Tables.pbCtorAccesses.head? ∧
    ("assign", "self._root_node", "etree.Element('commonRoad')") ∈ Tables.xmlCtorAccesses ∧
    ("assign", "self._commonroad_msg", "commonroad_pb2.CommonRoad()") ∈ Tables.pbCtorAccesses := by decide

/-- The only header attribute that does not come from the writer's own inputs is the date, and it is set on every write. -/
theorem C15_header_date_is_the_only_clock_access :
    (Tables.xmlHeaderAccesses.filter (fun a => a.1 = "set-from-clock")) = [("set-from-clock", "self._root_node", "date")] := by
  decide

/-! ### Non-vacuity, the laws are satisfiable, and the two former defects as theorems about `legacy` -/

section Witness

def symProj (fmt : Format) (inp : SInput) (kind : Kind) (prec : Nat) : SContent :=
  ⟨fmt, inp.id, kind == .full && inp.hasPP, match fmt with | .xml => prec | .pb => 0⟩

/-- The symbolic codec satisfies the date law … -/
theorem symCodec_dateLaw : DateLaw symCodec := ⟨fun _ _ _ _ => rfl, fun _ _ _ _ => rfl⟩

/-- … and the round-trip law. -/
theorem symCodec_readLaw : ReadLaw symCodec symProj := by
  constructor
  intro fmt inp kind prec date b h
  obtain ⟨id, name, hasPP, xe, pe⟩ := inp
  cases fmt <;> cases kind <;> cases hasPP <;> cases xe <;> cases pe <;>
    simp [render, itemsOf, symCodec, mkNodes, creator, dump] at h <;>
    (subst h; simp [symCodec, symRead, symProj])

def inA : SInput := { id := 0, name := "A" }

/-- an input whose planning problems cannot be written (a goal time interval with float ends) -/
def inBad : SInput := { id := 1, name := "B", xmlErr := some .assert, pbErr := some .type }

def fs0 : String → Option SBytes := fun q => if q = "old.xml" then some (.foreign 7) else none

def st0 : St SInput SNode SBytes String := ⟨4, fs0, fun q => q == "nodir/x.xml", []⟩

/-- A writer (precision 6), a protobuf writer (precision 2) constructed in between, two writes of the first writer on
    different dates, one write with SKIP on an existing file, one with SKIP on a new name. -/
def hist : List (Op SInput String) :=
  [.new .xml inA 6, .write 0 .full (some "a.xml") .always .other "d1", .new .pb inA 2,
   .write 0 .full (some "b.xml") .always .other "d2", .write 1 .full (some "old.xml") .skip .other "d3",
   .write 1 .scenarioOnly none .skip .other "d4"]

/-- The hypotheses of the theorems above are met by a concrete history: both writes of writer 0 produce a file, with the
    content the theorems name; the global precision is that of the last constructor throughout. -/
example : runOut repaired symCodec st0 hist =
    [.created 0, .wrote "a.xml" (.file .xml 0 (some "d1") [⟨false, 0, 6⟩, ⟨true, 0, 6⟩]), .created 1,
     .wrote "b.xml" (.file .xml 0 (some "d2") [⟨false, 0, 6⟩, ⟨true, 0, 6⟩]), .skipped,
     .wrote "A.pb" (.file .pb 0 (some "d4") [⟨false, 0, 0⟩])] := by decide

example : render symCodec .xml inA .full 6 "d2" = .ok (.file .xml 0 (some "d2") [⟨false, 0, 6⟩, ⟨true, 0, 6⟩]) := by decide

example : runGprecs repaired symCodec st0 hist = [6, 6, 2, 2, 2, 2] := by decide

example : (runSt repaired symCodec st0 hist).fs "old.xml" = some (.foreign 7) := by decide

example : AllSkip (Input := SInput) (Date := String)
    [.new .xml inA 6, .write 0 .full (some "old.xml") .skip .other "d"] := ⟨rfl, trivial⟩

/-- A raising write in between: the XML writer of `inBad` (precision 9) raises inside the `with`-block after the
    scenario block was appended; the global precision is back at 2 afterwards, no file appears, and the next writes —
    of this writer (scenario only) and of writer 0 — are as they should be. -/
example : runOut repaired symCodec st0
      [.new .xml inA 6, .new .xml inBad 9, .new .pb inA 2, .write 1 .full (some "c.xml") .always .other "d1",
       .write 1 .scenarioOnly (some "c.xml") .always .other "d2", .write 0 .full (some "a.xml") .always .other "d3"] =
    [.created 0, .created 1, .created 2, .failed .assert,
     .wrote "c.xml" (.file .xml 1 (some "d2") [⟨false, 1, 9⟩]),
     .wrote "a.xml" (.file .xml 0 (some "d3") [⟨false, 0, 6⟩, ⟨true, 0, 6⟩])] ∧
    runGprecs repaired symCodec st0
      [.new .xml inA 6, .new .xml inBad 9, .new .pb inA 2, .write 1 .full (some "c.xml") .always .other "d1",
       .write 1 .scenarioOnly (some "c.xml") .always .other "d2", .write 0 .full (some "a.xml") .always .other "d3"] =
    [6, 9, 2, 2, 2, 2] := by decide

/-- User code assigns the global (`setGlobal 11`), a write into a directory that does not exist raises after the
    document was built, `input()` raises on ASK over an existing file, an input with an empty planning-problem set: no
    file appears from the raising calls, the global stays what user code set, and the writer still writes with its own 6. -/
example : runOut repaired symCodec st0
      [.new .xml inA 6, .setGlobal 11, .write 0 .full (some "nodir/x.xml") .always .other "d1",
       .write 0 .full (some "old.xml") .ask .eof "d1", .write 0 .full (some "a.xml") .always .other "d2",
       .new .xml { id := 2, name := "C", hasPP := false } 3, .write 1 .full none .ask .eof "d3"] =
    [.created 0, .done, .failed .other, .failed .other,
     .wrote "a.xml" (.file .xml 0 (some "d2") [⟨false, 0, 6⟩, ⟨true, 0, 6⟩]), .created 1,
     .wrote "C.xml" (.file .xml 2 (some "d3") [⟨false, 2, 3⟩])] ∧
    runGprecs repaired symCodec st0
      [.new .xml inA 6, .setGlobal 11, .write 0 .full (some "nodir/x.xml") .always .other "d1",
       .write 0 .full (some "old.xml") .ask .eof "d1", .write 0 .full (some "a.xml") .always .other "d2"] =
    [6, 11, 11, 11, 11] := by decide

/-- Former defect 1 (root element created once in `__init__`): under `legacy` the second write of the same writer object
    holds the content twice (and does not read back) — `C15_twice_same` and `C15_reads_back` fail for `legacy`. -/
theorem C15_legacy_second_write_doubles :
    (runOut legacy symCodec st0 [.new .xml inA 6, .write 0 .full (some "a.xml") .always .other "d1",
        .write 0 .full (some "b.xml") .always .other "d2"])[2]? =
      some (.wrote "b.xml" (.file .xml 0 (some "d2") [⟨false, 0, 6⟩, ⟨true, 0, 6⟩, ⟨false, 0, 6⟩, ⟨true, 0, 6⟩])) ∧
    symCodec.read (.file .xml 0 (some "d2") [⟨false, 0, 6⟩, ⟨true, 0, 6⟩, ⟨false, 0, 6⟩, ⟨true, 0, 6⟩]) = none := by
  decide

/-- Former defect 2 (precision read from the process-global at write time, never installed): under `legacy` a protobuf
    writer with precision 2 constructed in between changes what the XML writer with precision 6 writes —
    `C15_others_do_not_change` fails for `legacy`. -/
theorem C15_legacy_precision_of_other_writer :
    (runOut legacy symCodec st0 [.new .xml inA 6, .new .pb inA 2,
        .write 0 .full (some "a.xml") .always .other "d1"])[2]? =
      some (.wrote "a.xml" (.file .xml 0 (some "d1") [⟨false, 0, 2⟩, ⟨true, 0, 2⟩])) := by decide

/-- … while the code as it is now gives the writer's own precision, once. -/
theorem C15_repaired_on_the_same_histories :
    (runOut repaired symCodec st0 [.new .xml inA 6, .write 0 .full (some "a.xml") .always .other "d1",
        .write 0 .full (some "b.xml") .always .other "d2"])[2]? =
      some (.wrote "b.xml" (.file .xml 0 (some "d2") [⟨false, 0, 6⟩, ⟨true, 0, 6⟩])) ∧
    (runOut repaired symCodec st0 [.new .xml inA 6, .new .pb inA 2,
        .write 0 .full (some "a.xml") .always .other "d1"])[2]? =
      some (.wrote "a.xml" (.file .xml 0 (some "d1") [⟨false, 0, 6⟩, ⟨true, 0, 6⟩])) := by decide

end Witness

end CR.Writer
