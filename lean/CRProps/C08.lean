/-
  C08 — Goal-region membership is decided correctly.
  Model: CRModel/Goal.lean (goal.py:88-121,196-226; planning_problem.py:83-94), angle/interval
  membership from CRModel/Interval.lean (theorems of C16 are reused).
-/
import CRProps.C16
import CRModel.Goal
namespace CR.Goal
open CR.Iv

/-- Speed the property prescribes: `hypot(vx, vy)` for point-mass states, the stored velocity otherwise. -/
def specSpeed (s : St) : Option Rat :=
  if s.vel.isSome ∧ s.velY.isSome then some s.speed else s.vel

/-- Heading the property prescribes: the stored orientation, `atan2(vy, vx)` for point-mass states. -/
def specHeading (s : St) : Option Rat :=
  match s.ori with
  | some θ => some θ
  | none => if s.vel.isSome ∧ s.velY.isSome then some s.heading else none

/-- A goal state is satisfied in all the attributes it constrains. -/
def Sat (τ ε : Rat) (g : GState) (s : St) (inPos : Bool) : Prop :=
  Mem g.time s.t ∧ (g.hasPos = true → inPos = true) ∧
  (∀ iv, g.ori = some iv → ∃ θ, specHeading s = some θ ∧ AMem τ ε iv θ) ∧
  (∀ iv, g.vel = some iv → ∃ v, specSpeed s = some v ∧ Mem iv v)

/-- Well-formed goal state: its intervals are constructed intervals. -/
def WfG (g : GState) : Prop :=
  Valid g.time ∧ (∀ iv, g.ori = some iv → Valid iv) ∧ (∀ iv, g.vel = some iv → Valid iv)

theorem C08_reachedOne_iff (τ ε : Rat) (hτ : 0 < τ) (hε0 : 0 ≤ ε) (hε : ε < τ)
    (g : GState) (s : St) (inPos : Bool) (hw : WfG g) (hf : fieldsOk g s = true) :
    ∃ b, reachedOne τ ε g s inPos = .ok b ∧ (b = true ↔ Sat τ ε g s inPos) := by
  obtain ⟨_, hwo, _⟩ := hw
  unfold reachedOne
  simp only [hf, not_true_eq_false, if_false]
  refine ⟨_, rfl, ?_⟩
  simp only [fieldsOk, Bool.and_eq_true, Bool.or_eq_true, Bool.not_eq_true'] at hf
  obtain ⟨⟨hp, ho⟩, hv⟩ := hf
  simp only [Bool.and_eq_true, Sat]
  constructor
  · rintro ⟨⟨⟨h1, h2⟩, h3⟩, h4⟩
    refine ⟨(C16_contains_iff _ _).mp h1, ?_, ?_, ?_⟩
    · intro hg
      rcases hp with hp | hp
      · rw [hg] at hp; cases hp
      · simpa [hg, hp] using h2
    · intro iv hiv
      rw [hiv] at h3 ho
      simp only [Option.isSome_some, Bool.true_eq_false, false_or] at ho
      cases hso : s.ori with
      | some θ =>
        refine ⟨θ, by simp [specHeading, hso], ?_⟩
        simp only [oriOf, hso] at h3
        exact (C16_angle_contains_iff τ ε hτ hε0 hε iv (hwo iv hiv) θ).mp h3
      | none =>
        rw [hso] at ho
        simp only [Option.isSome_none, Bool.false_eq_true, false_or] at ho
        have hh := ho
        simp only [harmonized, Bool.and_eq_true, Bool.or_eq_true] at hh
        refine ⟨s.heading, by simp [specHeading, hso, hh.1.1, hh.1.2], ?_⟩
        simp only [oriOf, hso, ho, if_true] at h3
        exact (C16_angle_contains_iff τ ε hτ hε0 hε iv (hwo iv hiv) _).mp h3
    · intro iv hiv
      rw [hiv] at h4 hv
      simp only [Option.isSome_some, Bool.true_eq_false, false_or] at hv
      by_cases hh : harmonized g s = true
      · have hh' := hh
        simp only [harmonized, Bool.and_eq_true] at hh'
        refine ⟨s.speed, by simp [specSpeed, hh'.1.1, hh'.1.2], ?_⟩
        simp only [velOf, hh, if_true] at h4
        exact (C16_contains_iff _ _).mp h4
      · obtain ⟨v, hv'⟩ := Option.isSome_iff_exists.mp hv
        have hy : s.velY.isSome = false := by
          simp only [harmonized, hv, hiv, Option.isSome_some, Bool.or_true, Bool.and_true, Bool.true_and] at hh
          simpa using hh
        refine ⟨v, by simp [specSpeed, hv', hy], ?_⟩
        simp only [velOf, hh, hv'] at h4
        exact (C16_contains_iff _ _).mp h4
  · rintro ⟨h1, h2, h3, h4⟩
    refine ⟨⟨⟨(C16_contains_iff _ _).mpr h1, ?_⟩, ?_⟩, ?_⟩
    · by_cases hg : g.hasPos = true
      · rcases hp with hp | hp
        · rw [hg] at hp; cases hp
        · simp [hg, hp, h2 hg]
      · simp [hg]
    · cases hgo : g.ori with
      | none => simp
      | some iv =>
        obtain ⟨θ, hθ, hm⟩ := h3 iv hgo
        rw [hgo] at ho
        simp only [Option.isSome_some, Bool.true_eq_false, false_or] at ho
        cases hso : s.ori with
        | some θ' =>
          simp only [specHeading, hso, Option.some.injEq] at hθ
          subst hθ
          simp only [oriOf, hso]
          exact (C16_angle_contains_iff τ ε hτ hε0 hε iv (hwo iv hgo) _).mpr hm
        | none =>
          rw [hso] at ho
          simp only [Option.isSome_none, Bool.false_eq_true, false_or] at ho
          have hh := ho
          simp only [harmonized, Bool.and_eq_true, Bool.or_eq_true] at hh
          simp only [specHeading, hso, hh.1.1, hh.1.2, and_self, if_true, Option.some.injEq] at hθ
          subst hθ
          simp only [oriOf, hso, ho, if_true]
          exact (C16_angle_contains_iff τ ε hτ hε0 hε iv (hwo iv hgo) _).mpr hm
    · cases hgv : g.vel with
      | none => simp
      | some iv =>
        obtain ⟨v, hv', hm⟩ := h4 iv hgv
        rw [hgv] at hv
        simp only [Option.isSome_some, Bool.true_eq_false, false_or] at hv
        by_cases hh : harmonized g s = true
        · have hh' := hh
          simp only [harmonized, Bool.and_eq_true] at hh'
          simp only [specSpeed, hh'.1.1, hh'.1.2, and_self, if_true, Option.some.injEq] at hv'
          subst hv'
          simp only [velOf, hh, if_true]
          exact (C16_contains_iff _ _).mpr hm
        · have hy : s.velY.isSome = false := by
            simp only [harmonized, hv, hgv, Option.isSome_some, Bool.or_true, Bool.and_true, Bool.true_and] at hh
            simpa using hh
          simp only [specSpeed, hy, Bool.false_eq_true, and_false, if_false] at hv'
          simp only [velOf, hh, hv']
          exact (C16_contains_iff _ _).mpr hm

/-- C08 (a): a state reaches the goal region exactly when at least one goal state is satisfied in all
    the attributes it constrains; and the check does not fail on admissible inputs
    (any number of goal states; any interval length below τ; values are rationals = ints and floats). -/
theorem C08_isReached_iff (τ ε : Rat) (hτ : 0 < τ) (hε0 : 0 ≤ ε) (hε : ε < τ) (s : St) :
    ∀ (goals : List (GState × Bool)), (∀ gp ∈ goals, WfG gp.1 ∧ fieldsOk gp.1 s = true) →
    ∃ b, isReached τ ε goals s = .ok b ∧ (b = true ↔ ∃ gp ∈ goals, Sat τ ε gp.1 s gp.2)
  | [], _ => ⟨false, rfl, by simp⟩
  | (g, p) :: rest, h => by
    obtain ⟨b1, hb1, hi1⟩ := C08_reachedOne_iff τ ε hτ hε0 hε g s p (h (g, p) (by simp)).1 (h (g, p) (by simp)).2
    obtain ⟨b2, hb2, hi2⟩ := C08_isReached_iff τ ε hτ hε0 hε s rest (fun gp hgp => h gp (by simp [hgp]))
    refine ⟨b1 || b2, by simp [isReached, hb1, hb2], ?_⟩
    simp only [Bool.or_eq_true, hi1, hi2, List.mem_cons, exists_eq_or_imp]

/-- C08 (b): the only failure is the documented `ValueError` when a goal state constrains an
    attribute the state does not provide. -/
theorem C08_isReached_error (τ ε : Rat) (s : St) :
    ∀ (goals : List (GState × Bool)),
    (∃ e, isReached τ ε goals s = .error e) ↔ ∃ gp ∈ goals, fieldsOk gp.1 s = false
  | [] => by simp [isReached]
  | (g, p) :: rest => by
    have ih := C08_isReached_error τ ε s rest
    by_cases hf : fieldsOk g s = true
    · have : ∃ b, reachedOne τ ε g s p = .ok b := by
        unfold reachedOne; simp only [hf, not_true_eq_false, if_false]; exact ⟨_, rfl⟩
      obtain ⟨b, hb⟩ := this
      simp only [isReached, hb, List.mem_cons, exists_eq_or_imp, hf, Bool.true_eq_false, false_or]
      rw [← ih]
      cases hr : isReached τ ε rest s with
      | error e => simp
      | ok b' => simp
    · have hf' : fieldsOk g s = false := by simpa using hf
      have : reachedOne τ ε g s p = .error .value := by
        unfold reachedOne; simp [hf']
      simp only [isReached, this, List.mem_cons, exists_eq_or_imp, hf', true_or, iff_true]
      exact ⟨_, rfl⟩

/-! ### goal_reached over a trajectory -/

theorem goalReachedRev_spec : ∀ (l : List (Nat × Res Bool)), (∀ x ∈ l, ∃ b, x.2 = .ok b) →
    ∃ b i, goalReachedRev l = .ok (b, i) ∧
      (b = true ↔ ∃ x ∈ l, x.2 = .ok true) ∧
      (b = true → ∃ x ∈ l, x.2 = .ok true ∧ i = (x.1 : Int)) ∧ (b = false → i = -1)
  | [], _ => ⟨false, -1, rfl, by simp, by simp, by simp⟩
  | (i, r) :: rest, h => by
    obtain ⟨b, hb⟩ := h (i, r) (by simp)
    simp only at hb
    subst hb
    cases b with
    | true => exact ⟨true, i, rfl, by simp, by simp, by simp⟩
    | false =>
      obtain ⟨b, j, h1, h2, h3, h4⟩ := goalReachedRev_spec rest (fun x hx => h x (by simp [hx]))
      refine ⟨b, j, by simp [goalReachedRev, h1], ?_, ?_, h4⟩
      · simp [h2]
      · intro hb
        obtain ⟨x, hx, hx2⟩ := h3 hb
        exact ⟨x, by simp [hx], hx2⟩

theorem mem_enumFrom {α : Type} : ∀ (l : List α) (n : Nat) (x : Nat × α),
    x ∈ enumFrom n l ↔ ∃ k, k < l.length ∧ x.1 = n + k ∧ l[k]? = some x.2
  | [], n, x => by simp [enumFrom]
  | a :: as, n, x => by
    simp only [enumFrom, List.mem_cons, mem_enumFrom as (n + 1) x]
    constructor
    · rintro (h | ⟨k, hk, h1, h2⟩)
      · subst h; exact ⟨0, by simp, by simp, by simp⟩
      · exact ⟨k + 1, by simp [hk], by omega, by simpa using h2⟩
    · rintro ⟨k, hk, h1, h2⟩
      cases k with
      | zero =>
        left
        simp at h1 h2
        exact Prod.ext h1 h2.symm
      | succ k =>
        right
        exact ⟨k, by simpa using hk, by omega, by simpa using h2⟩

/-- C08 (c): `goal_reached` reports success exactly when some trajectory state reaches the goal, and the
    reported index is that of a state which does; otherwise `(False, -1)`. -/
theorem C08_goalReached_iff (answers : List (Res Bool)) (hok : ∀ r ∈ answers, ∃ b, r = .ok b) :
    ∃ b i, goalReached answers = .ok (b, i) ∧
      (b = true ↔ ∃ k : Nat, answers[k]? = some (Except.ok true)) ∧
      (b = true → ∃ k : Nat, i = (k : Int) ∧ answers[k]? = some (Except.ok true)) ∧ (b = false → i = -1) := by
  have hall : ∀ x ∈ (enumFrom 0 answers).reverse, ∃ b, x.2 = .ok b := by
    intro x hx
    rw [List.mem_reverse, mem_enumFrom] at hx
    obtain ⟨k, hk, _, h2⟩ := hx
    exact hok x.2 (List.mem_of_getElem? h2)
  obtain ⟨b, i, h1, h2, h3, h4⟩ := goalReachedRev_spec _ hall
  refine ⟨b, i, h1, ?_, ?_, h4⟩
  · rw [h2]
    constructor
    · rintro ⟨x, hx, hx2⟩
      rw [List.mem_reverse, mem_enumFrom] at hx
      obtain ⟨k, _, _, hk2⟩ := hx
      exact ⟨k, by rw [hk2, hx2]⟩
    · rintro ⟨k, hk⟩
      have hlt : k < answers.length := by
        by_contra hc
        rw [List.getElem?_eq_none (by omega)] at hk
        cases hk
      exact ⟨(k, .ok true), by rw [List.mem_reverse, mem_enumFrom]; exact ⟨k, hlt, by simp, hk⟩, rfl⟩
  · intro hb
    obtain ⟨x, hx, hx2, hx3⟩ := h3 hb
    rw [List.mem_reverse, mem_enumFrom] at hx
    obtain ⟨k, _, hk1, hk2⟩ := hx
    exact ⟨k, by rw [hx3, hk1]; simp, by rw [hk2, hx2]⟩

/-! ### non-vacuity -/

/-- a point-mass state (vx, vy) = (-1, 1/100) with heading parameter 3.13 against a goal orientation
    interval [3, 33/10] and τ = 6.28: admissible, fields ok, and reached. -/
example : fieldsOk ⟨⟨0, 5⟩, false, some ⟨3, 33/10⟩, none⟩ ⟨1, false, none, some (-1), some (1/100), 1, 313/100⟩ = true := by
  decide +kernel
example : isReached (628/100) 0 [(⟨⟨0, 5⟩, false, some ⟨3, 33/10⟩, none⟩, false)]
    ⟨1, false, none, some (-1), some (1/100), 1, 313/100⟩ = .ok true := by decide +kernel
example : goalReached [.ok false, .ok true, .ok true, .ok false] = .ok (true, 2) := by decide

end CR.Goal
