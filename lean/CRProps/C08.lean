/-
  C08 — Goal-region membership is decided correctly.
  Model: CRModel/Goal.lean (goal.py:88-121,196-226; planning_problem.py:83-94), angle/interval
  membership from CRModel/Interval.lean (theorems of C16 are reused).
-/
import CRProps.C16
import CRProps.C06
import CRModel.Goal
namespace CR.Goal
open CR.Iv

/-- Speed the property prescribes: `hypot(vx, vy)` for point-mass states, the stored velocity otherwise. -/
def specSpeed (F : Fns) (s : St) : Option Rat :=
  match s.vel, s.velY with
  | some vx, some vy => some (F.hyp vx vy)
  | v, _ => v

/-- Heading the property prescribes: the stored orientation; `atan2(vy, vx)` for point-mass states. -/
def specHeading (F : Fns) (s : St) : Option Rat :=
  match s.ori with
  | some θ => some θ
  | none =>
    match s.vel, s.velY with
    | some vx, some vy => some (F.at2 vy vx)
    | _, _ => none

/-- A goal state is satisfied in all the attributes it constrains: time step in the time interval, position in the goal
    shape (closed set, `Shape.contains`; a lanelet goal is the group of its lanelet polygons), heading in the angle interval
    modulo τ, speed in the velocity interval. -/
def Sat (F : Fns) (τ ε : Rat) (g : GState) (s : St) : Prop :=
  Mem g.time s.t ∧
  (∀ sh, g.pos = some sh → ∃ p, s.pos = some p ∧ sh.contains p = true) ∧
  (∀ iv, g.ori = some iv → ∃ θ, specHeading F s = some θ ∧ AMem τ ε iv θ) ∧
  (∀ iv, g.vel = some iv → ∃ v, specSpeed F s = some v ∧ Mem iv v)

/-- Well-formed goal state: its intervals are constructed intervals. -/
def WfG (g : GState) : Prop :=
  Valid g.time ∧ (∀ iv, g.ori = some iv → Valid iv) ∧ (∀ iv, g.vel = some iv → Valid iv)

theorem C08_reachedOne_iff (F : Fns) (τ ε : Rat) (hτ : 0 < τ) (hε0 : 0 ≤ ε) (hε : ε < τ)
    (g : GState) (s : St) (hw : WfG g) (hf : fieldsOk g s = true) :
    ∃ b, reachedOne F τ ε g s = .ok b ∧ (b = true ↔ Sat F τ ε g s) := by
  obtain ⟨_, hwo, _⟩ := hw
  unfold reachedOne
  simp only [hf, not_true_eq_false, if_false]
  refine ⟨_, rfl, ?_⟩
  simp only [fieldsOk, GState.hasPos, St.hasPos, Bool.and_eq_true, Bool.or_eq_true, Bool.not_eq_true'] at hf
  obtain ⟨⟨hp, ho⟩, hv⟩ := hf
  simp only [Bool.and_eq_true, Sat]
  -- the four conjuncts one by one
  have e1 : contains g.time s.t = true ↔ Mem g.time s.t := C16_contains_iff _ _
  have e2 : (match g.pos, s.pos with | some sh, some p => sh.contains p | _, _ => true) = true ↔
      (∀ sh, g.pos = some sh → ∃ p, s.pos = some p ∧ sh.contains p = true) := by
    cases hgp : g.pos with
    | none => simp
    | some sh =>
      rw [hgp] at hp
      simp only [Option.isSome_some, Bool.true_eq_false, false_or] at hp
      obtain ⟨p, hsp⟩ := Option.isSome_iff_exists.mp hp
      simp [hsp]
  have e3 : (match g.ori, oriOf F g s with | some iv, some θ => containsAngle τ ε iv θ | _, _ => true) = true ↔
      (∀ iv, g.ori = some iv → ∃ θ, specHeading F s = some θ ∧ AMem τ ε iv θ) := by
    cases hgo : g.ori with
    | none => simp
    | some iv =>
      rw [hgo] at ho
      simp only [Option.isSome_some, Bool.true_eq_false, false_or] at ho
      have hvi := hwo iv hgo
      cases hso : s.ori with
      | some θ =>
        simp only [oriOf, hso, specHeading, Option.some.injEq, exists_eq_left', forall_eq']
        exact C16_angle_contains_iff τ ε hτ hε0 hε iv hvi θ
      | none =>
        rw [hso] at ho
        simp only [Option.isSome_none, Bool.false_eq_true, false_or] at ho
        have hh := ho
        simp only [harmonized, Bool.and_eq_true, Bool.or_eq_true] at hh
        obtain ⟨vx, hvx⟩ := Option.isSome_iff_exists.mp hh.1.1
        obtain ⟨vy, hvy⟩ := Option.isSome_iff_exists.mp hh.1.2
        simp only [oriOf, hso, ho, if_true, specHeading, hvx, hvy, Option.getD_some, Option.some.injEq, exists_eq_left',
          forall_eq']
        exact C16_angle_contains_iff τ ε hτ hε0 hε iv hvi _
  have e4 : (match g.vel, velOf F g s with | some iv, some v => contains iv v | _, _ => true) = true ↔
      (∀ iv, g.vel = some iv → ∃ v, specSpeed F s = some v ∧ Mem iv v) := by
    cases hgv : g.vel with
    | none => simp
    | some iv =>
      rw [hgv] at hv
      simp only [Option.isSome_some, Bool.true_eq_false, false_or] at hv
      obtain ⟨vx, hvx⟩ := Option.isSome_iff_exists.mp hv
      cases hvy : s.velY with
      | none =>
        have hh : harmonized g s = false := by simp [harmonized, hvy]
        simp only [velOf, hh, Bool.false_eq_true, if_false, hvx, hvy, specSpeed, Option.some.injEq, exists_eq_left', forall_eq']
        exact C16_contains_iff _ _
      | some vy =>
        have hh : harmonized g s = true := by simp [harmonized, hvx, hvy, hgv]
        simp only [velOf, hh, if_true, hvx, hvy, Option.getD_some, specSpeed, Option.some.injEq, exists_eq_left', forall_eq']
        exact C16_contains_iff _ _
  constructor
  · rintro ⟨⟨⟨h1, h2⟩, h3⟩, h4⟩
    exact ⟨e1.mp h1, e2.mp h2, e3.mp h3, e4.mp h4⟩
  · rintro ⟨h1, h2, h3, h4⟩
    exact ⟨⟨⟨e1.mpr h1, e2.mpr h2⟩, e3.mpr h3⟩, e4.mpr h4⟩

/-- C08 (a): a state reaches the goal region exactly when at least one goal state is satisfied in all
    the attributes it constrains; and the check does not fail on admissible inputs
    (any number of goal states; any interval length below τ; values are rationals = ints and floats). For point-mass
    states the speed is `hyp vx vy` and the heading `at2 vy vx` — for ANY functions `hyp`, `at2`: the model fixes the
    arguments (a heading computed as `at2 vy (hyp vx vy)`, the defect repaired in 6d38b19, is a different term). -/
theorem C08_isReached_iff (F : Fns) (τ ε : Rat) (hτ : 0 < τ) (hε0 : 0 ≤ ε) (hε : ε < τ) (s : St) :
    ∀ (goals : List GState), (∀ g ∈ goals, WfG g ∧ fieldsOk g s = true) →
    ∃ b, isReached F τ ε goals s = .ok b ∧ (b = true ↔ ∃ g ∈ goals, Sat F τ ε g s)
  | [], _ => ⟨false, rfl, by simp⟩
  | g :: rest, h => by
    obtain ⟨b1, hb1, hi1⟩ := C08_reachedOne_iff F τ ε hτ hε0 hε g s (h g (by simp)).1 (h g (by simp)).2
    obtain ⟨b2, hb2, hi2⟩ := C08_isReached_iff F τ ε hτ hε0 hε s rest (fun g' hg => h g' (by simp [hg]))
    refine ⟨b1 || b2, by simp [isReached, hb1, hb2], ?_⟩
    simp only [Bool.or_eq_true, hi1, hi2, List.mem_cons, exists_eq_or_imp]

/-- C08 (b): the only failure is the documented `ValueError` when a goal state constrains an
    attribute the state does not provide. -/
theorem C08_isReached_error (F : Fns) (τ ε : Rat) (s : St) :
    ∀ (goals : List GState),
    (∃ e, isReached F τ ε goals s = .error e) ↔ ∃ g ∈ goals, fieldsOk g s = false
  | [] => by simp [isReached]
  | g :: rest => by
    have ih := C08_isReached_error F τ ε s rest
    by_cases hf : fieldsOk g s = true
    · have : ∃ b, reachedOne F τ ε g s = .ok b := by
        unfold reachedOne; simp only [hf, not_true_eq_false, if_false]; exact ⟨_, rfl⟩
      obtain ⟨b, hb⟩ := this
      simp only [isReached, hb, List.mem_cons, exists_eq_or_imp, hf, Bool.true_eq_false, false_or]
      rw [← ih]
      cases hr : isReached F τ ε rest s with
      | error e => simp
      | ok b' => simp
    · have hf' : fieldsOk g s = false := by simpa using hf
      have : reachedOne F τ ε g s = .error .value := by
        unfold reachedOne; simp [hf']
      simp only [isReached, this, List.mem_cons, exists_eq_or_imp, hf', true_or, iff_true]
      exact ⟨_, rfl⟩

/-- The position clause is about the closed set the shape denotes (C06): box at its pose, disc, vertex ring, union. -/
theorem C08_position_denotes (p : CR.Geom.Pt) :
    (∀ (l w : Rat) (ctr : CR.Geom.Pt) (c s : Rat), 0 < l → 0 < w → c * c + s * s = 1 →
      (CR.Geom.Shape.prim (.rect l w ctr c s)).contains p = CR.Geom.inBox l w ctr c s p) ∧
    (∀ (r : Rat) (ctr : CR.Geom.Pt), (CR.Geom.Shape.prim (.circ r ctr)).contains p = CR.Geom.inDisc ctr r p) ∧
    (∀ vs : List CR.Geom.Pt, (CR.Geom.Shape.prim (.poly vs)).contains p = CR.Geom.inRing vs p) ∧
    (∀ ss : List CR.Geom.Prim, (CR.Geom.Shape.group ss).contains p = true ↔ ∃ s ∈ ss, s.contains p = true) :=
  ⟨fun l w ctr c s hl hw h => CR.Props.C06.C06_contains_denotes_rect l w ctr c s p hl hw h,
   fun r ctr => rfl,
   fun vs => CR.Props.C06.C06_contains_denotes_poly vs p,
   fun ss => CR.Props.C06.C06_group_union ss p⟩

/-! ### goal_reached over a trajectory -/

theorem goalReachedRev_spec : ∀ (l : List (Nat × Res Bool)), (∀ x ∈ l, ∃ b, x.2 = .ok b) →
    ∃ b i, goalReachedRev l = .ok (b, i) ∧
      (b = true ↔ ∃ x ∈ l, x.2 = .ok true) ∧
      (b = true → ∃ x ∈ l, x.2 = .ok true ∧ i = (x.1 : Int)) ∧ (b = false → i = -1)
  | [], _ => ⟨false, -1, rfl, by simp, by simp, by simp⟩
  | (i, r) :: rest, h => by
    obtain ⟨b, hb⟩ := h (i, r) (by simp)
    simp only at hb
    subst hb
    cases b with
    | true => exact ⟨true, i, rfl, by simp, by simp, by simp⟩
    | false =>
      obtain ⟨b, j, h1, h2, h3, h4⟩ := goalReachedRev_spec rest (fun x hx => h x (by simp [hx]))
      refine ⟨b, j, by simp [goalReachedRev, h1], ?_, ?_, h4⟩
      · simp [h2]
      · intro hb
        obtain ⟨x, hx, hx2⟩ := h3 hb
        exact ⟨x, by simp [hx], hx2⟩

theorem mem_enumFrom {α : Type} : ∀ (l : List α) (n : Nat) (x : Nat × α),
    x ∈ enumFrom n l ↔ ∃ k, k < l.length ∧ x.1 = n + k ∧ l[k]? = some x.2
  | [], n, x => by simp [enumFrom]
  | a :: as, n, x => by
    simp only [enumFrom, List.mem_cons, mem_enumFrom as (n + 1) x]
    constructor
    · rintro (h | ⟨k, hk, h1, h2⟩)
      · subst h; exact ⟨0, by simp, by simp, by simp⟩
      · exact ⟨k + 1, by simp [hk], by omega, by simpa using h2⟩
    · rintro ⟨k, hk, h1, h2⟩
      cases k with
      | zero =>
        left
        simp at h1 h2
        exact Prod.ext h1 h2.symm
      | succ k =>
        right
        exact ⟨k, by simpa using hk, by omega, by simpa using h2⟩

/-- C08 (c): `goal_reached` reports success exactly when some trajectory state reaches the goal, and the
    reported index is that of a state which does; otherwise `(False, -1)`. -/
theorem C08_goalReached_iff (answers : List (Res Bool)) (hok : ∀ r ∈ answers, ∃ b, r = .ok b) :
    ∃ b i, goalReached answers = .ok (b, i) ∧
      (b = true ↔ ∃ k : Nat, answers[k]? = some (Except.ok true)) ∧
      (b = true → ∃ k : Nat, i = (k : Int) ∧ answers[k]? = some (Except.ok true)) ∧ (b = false → i = -1) := by
  have hall : ∀ x ∈ (enumFrom 0 answers).reverse, ∃ b, x.2 = .ok b := by
    intro x hx
    rw [List.mem_reverse, mem_enumFrom] at hx
    obtain ⟨k, hk, _, h2⟩ := hx
    exact hok x.2 (List.mem_of_getElem? h2)
  obtain ⟨b, i, h1, h2, h3, h4⟩ := goalReachedRev_spec _ hall
  refine ⟨b, i, h1, ?_, ?_, h4⟩
  · rw [h2]
    constructor
    · rintro ⟨x, hx, hx2⟩
      rw [List.mem_reverse, mem_enumFrom] at hx
      obtain ⟨k, _, _, hk2⟩ := hx
      exact ⟨k, by rw [hk2, hx2]⟩
    · rintro ⟨k, hk⟩
      have hlt : k < answers.length := by
        by_contra hc
        rw [List.getElem?_eq_none (by omega)] at hk
        cases hk
      exact ⟨(k, .ok true), by rw [List.mem_reverse, mem_enumFrom]; exact ⟨k, hlt, by simp, hk⟩, rfl⟩
  · intro hb
    obtain ⟨x, hx, hx2, hx3⟩ := h3 hb
    rw [List.mem_reverse, mem_enumFrom] at hx
    obtain ⟨k, _, hk1, hk2⟩ := hx
    exact ⟨k, by rw [hx3, hk1]; simp, by rw [hk2, hx2]⟩

/-! ### non-vacuity -/

/-- a point-mass state (vx, vy) = (-1, 1/100) against a goal orientation interval [3, 33/10], τ = 6.28, with an `at2`
    that answers 3.13 for (1/100, -1) (and something else for other arguments): admissible, fields ok, reached. -/
def exF : Fns := ⟨fun _ _ => 1, fun y x => if y = 1/100 ∧ x = -1 then 313/100 else 0⟩
example : fieldsOk ⟨⟨0, 5⟩, none, some ⟨3, 33/10⟩, none⟩ ⟨1, none, none, some (-1), some (1/100)⟩ = true := by
  decide +kernel
example : isReached exF (628/100) 0 [⟨⟨0, 5⟩, none, some ⟨3, 33/10⟩, none⟩]
    ⟨1, none, none, some (-1), some (1/100)⟩ = .ok true := by decide +kernel
/-- a position goal: the unit square as a polygon, a state on its boundary. -/
example : isReached exF (628/100) 0 [⟨⟨0, 5⟩, some (.prim (.poly [⟨0, 0⟩, ⟨1, 0⟩, ⟨1, 1⟩, ⟨0, 1⟩])), none, none⟩]
    ⟨1, some ⟨1, 1/2⟩, some 0, some 2, none⟩ = .ok true := by decide +kernel
example : goalReached [.ok false, .ok true, .ok true, .ok false] = .ok (true, 2) := by decide

/-! ### the code path of `is_reached` (name sets, `_harmonize_state_types`, `issubset`) computes `reachedOne`

  `reachedOneSteps` / `harmonize` (CRModel/Goal.lean) follow the source statement by statement and are tied to it by translation
  (CRProps/T08.lean). The theorems here connect them with the decision logic `reachedOne` all C08 theorems above are about. -/

/-- Membership in `set(state.used_attributes)` is "the attribute is set". -/
theorem C08_usedAttrs_contains (s : St) :
    s.usedAttrs.contains Fld.velocity = s.vel.isSome ∧ s.usedAttrs.contains Fld.velocity_y = s.velY.isSome ∧
    s.usedAttrs.contains Fld.orientation = s.ori.isSome ∧ s.usedAttrs.contains Fld.position = s.pos.isSome ∧
    s.usedAttrs.contains Fld.time_step = true := by
  obtain ⟨t, pos, ori, vel, velY⟩ := s
  cases pos <;> cases ori <;> cases vel <;> cases velY <;> simp [St.usedAttrs]

/-- The guard of `_harmonize_state_types` on the name sets `is_reached` passes is `harmonized`: the state has `velocity` and
    `velocity_y`, the goal constrains orientation or velocity. -/
theorem C08_harmCond_used (g : GState) (s : St) : harmCond s.usedAttrs g.usedAttrs = harmonized g s := by
  obtain ⟨t, pos, ori, vel, velY⟩ := s
  obtain ⟨gt, gpos, gori, gvel⟩ := g
  cases pos <;> cases ori <;> cases vel <;> cases velY <;> cases gpos <;> cases gori <;> cases gvel <;>
    simp [St.usedAttrs, GState.usedAttrs, harmCond, harmonized]

/-- C08 (e): `_harmonize_state_types`, called as `is_reached` calls it, never fails and returns a state with the same time step
    and position whose orientation is `oriOf` (stored heading, else `at2 vy vx`) and whose velocity is `velOf` (`hyp vx vy` for a
    point-mass state); the subset test on the returned name set is `fieldsOk`. -/
theorem C08_harmonize_spec (F : Fns) (g : GState) (s : St) :
    ∃ s' sf', harmonize F s s.usedAttrs g.usedAttrs = .ok (s', sf') ∧ s'.t = s.t ∧ s'.pos = s.pos ∧
      s'.ori = oriOf F g s ∧ s'.vel = velOf F g s ∧ subsetF g.usedAttrs sf' = fieldsOk g s := by
  obtain ⟨t, pos, ori, vel, velY⟩ := s
  obtain ⟨gt, gpos, gori, gvel⟩ := g
  cases pos <;> cases ori <;> cases vel <;> cases velY <;> cases gpos <;> cases gori <;> cases gvel <;>
    simp [harmonize, St.usedAttrs, GState.usedAttrs, harmCond, harmonized, subsetF, fieldsOk, oriOf, velOf, GState.hasPos, St.hasPos]

/-- C08 (f): one loop iteration along the code path is `reachedOne`. -/
theorem C08_reachedOneSteps_eq (F : Fns) (τ ε : Rat) (g : GState) (s : St) :
    reachedOneSteps F τ ε g s = reachedOne F τ ε g s := by
  obtain ⟨t, pos, ori, vel, velY⟩ := s
  obtain ⟨gt, gpos, gori, gvel⟩ := g
  cases pos <;> cases ori <;> cases vel <;> cases velY <;> cases gpos <;> cases gori <;> cases gvel <;>
    simp [reachedOneSteps, reachedOne, harmonize, St.usedAttrs, GState.usedAttrs, harmCond, harmonized, subsetF, fieldsOk,
      oriOf, velOf, GState.hasPos, St.hasPos]

/-- `_check_value_in_interval` decides membership for the two interval classes and fails (`ValueError`) exactly for other arguments. -/
theorem C08_checkValue_spec (τ ε : Rat) (hτ : 0 < τ) (hε0 : 0 ≤ ε) (hε : ε < τ) (x : Rat) :
    (∀ i, ∃ b, checkValue τ ε x (.interval i) = .ok b ∧ (b = true ↔ Mem i x)) ∧
    (∀ i, Valid i → ∃ b, checkValue τ ε x (.angle i) = .ok b ∧ (b = true ↔ AMem τ ε i x)) ∧
    checkValue τ ε x .other = .error .value :=
  ⟨fun i => ⟨_, rfl, C16_contains_iff _ _⟩, fun i hv => ⟨_, rfl, C16_angle_contains_iff τ ε hτ hε0 hε i hv x⟩, rfl⟩

/-- non-vacuity: a point-mass state against an orientation goal is rewritten (heading `at2 vy vx`, name set without `velocity_y`). -/
example : harmonize exF ⟨1, none, none, some (-1), some (1/100)⟩ (St.usedAttrs ⟨1, none, none, some (-1), some (1/100)⟩)
    (GState.usedAttrs ⟨⟨0, 5⟩, none, some ⟨3, 33/10⟩, none⟩) =
    .ok (⟨1, none, some (313/100), some 1, none⟩, [Fld.time_step, Fld.velocity, Fld.orientation]) := by decide +kernel

/-! ### which goal states `GoalRegion` admits (`_validate_goal_state`, `state_list` setter; tied by translation in T08) -/

theorem validateLoop_iff (st : RawG) : ∀ (l : List Fld),
    validateLoop st l = .ok () ↔ ∀ f ∈ l, f ∈ validFields ∧ ∃ c, st.lookup f = some c ∧ isInst c (requiredCls f) = true
  | [] => by simp [validateLoop]
  | f :: rest => by
    have ih := validateLoop_iff st rest
    unfold validateLoop
    by_cases hv : f ∈ validFields
    · cases hl : st.lookup f with
      | none => simp [hv, hl]
      | some c => by_cases hc : isInst c (requiredCls f) = true <;> simp [hv, hl, hc, ih]
    · simp [hv]

/-- C08 (g): a goal state is admitted exactly when `time_step` is set, every set attribute is one of time_step / position /
    velocity / orientation, the position is a Shape, the orientation an AngleInterval and time_step / velocity are Intervals
    (an AngleInterval is one). -/
theorem C08_validate_iff (st : RawG) :
    validateGoalState st = .ok () ↔
      (∃ c, st.lookup Fld.time_step = some (some c)) ∧
      ∀ f ∈ st.used, f ∈ validFields ∧ ∃ c, st.lookup f = some c ∧ isInst c (requiredCls f) = true := by
  unfold validateGoalState
  cases hl : st.lookup Fld.time_step with
  | none => simp
  | some c => cases c <;> simp [validateLoop_iff]

theorem validateAll_iff : ∀ (l : List RawG), validateAll l = .ok () ↔ ∀ st ∈ l, validateGoalState st = .ok ()
  | [] => by simp [validateAll]
  | st :: rest => by
    have ih := validateAll_iff rest
    unfold validateAll
    cases hv : validateGoalState st with
    | error e => simp [hv]
    | ok u => simp [ih, hv]

/-- C08 (h): the `state_list` setter stores the list unchanged, and exactly when every goal state is admitted. -/
theorem C08_setStateList_iff (l l' : List RawG) :
    setStateList l = .ok l' ↔ l' = l ∧ ∀ st ∈ l, validateGoalState st = .ok () := by
  rw [← validateAll_iff]
  unfold setStateList
  cases validateAll l with
  | error e => simp [Except.map]
  | ok u => simp [Except.map, eq_comm]

/-- non-vacuity: time + position(Shape) + orientation(AngleInterval) is admitted; a velocity given as a plain number class is not;
    a goal orientation given as a plain Interval is not. -/
example : validateGoalState [(Fld.time_step, some .interval), (Fld.position, some .shape), (Fld.orientation, some .angleInterval),
    (Fld.velocity, none)] = .ok () := by decide
example : validateGoalState [(Fld.time_step, some .interval), (Fld.velocity, some .other)] = .error .value := by decide
example : validateGoalState [(Fld.time_step, some .interval), (Fld.orientation, some .interval)] = .error .value := by decide

/-! ### the goal region after a pure translation (`translate_rotate(t, 0)`) -/

theorem reachedOne_translate (F : Fns) (τ ε : Rat) (t : CR.Geom.Pt) (g : GState) (s : St) :
    reachedOne F τ ε (g.translate t) (s.translate t) = reachedOne F τ ε g s := by
  cases hg : g.pos <;> cases hs : s.pos <;>
    simp [reachedOne, fieldsOk, harmonized, oriOf, velOf, GState.hasPos, St.hasPos, GState.translate, St.translate, hg, hs,
      CR.Props.C06.C06_translate_invariant]

/-- C08 (d): moving the goal region by `translate_rotate(t, 0)` and the state by the same `t` does not change the decision
    (nor the error): membership is decided in the moved frame exactly as in the original one, for every number and kind of
    goal states. -/
theorem C08_translate_invariant (F : Fns) (τ ε : Rat) (t : CR.Geom.Pt) (s : St) :
    ∀ goals : List GState, isReachedMoved F τ ε t goals (s.translate t) = isReached F τ ε goals s
  | [] => rfl
  | g :: rest => by
    have ih := C08_translate_invariant F τ ε t s rest
    simp only [isReachedMoved, List.map_cons, isReached, reachedOne_translate] at ih ⊢
    rw [ih]

/-- non-vacuity: the unit square moved by (3, -2); a state on its moved boundary reaches it, the unmoved point does not. -/
example : isReachedMoved exF (628/100) 0 ⟨3, -2⟩ [⟨⟨0, 5⟩, some (.prim (.poly [⟨0, 0⟩, ⟨1, 0⟩, ⟨1, 1⟩, ⟨0, 1⟩])), none, none⟩]
    ⟨1, some ⟨4, -3/2⟩, some 0, some 2, none⟩ = .ok true := by decide +kernel
example : isReachedMoved exF (628/100) 0 ⟨3, -2⟩ [⟨⟨0, 5⟩, some (.prim (.poly [⟨0, 0⟩, ⟨1, 0⟩, ⟨1, 1⟩, ⟨0, 1⟩])), none, none⟩]
    ⟨1, some ⟨1, 1/2⟩, some 0, some 2, none⟩ = .ok false := by decide +kernel

/-! ### goal shapes edited through their setters: the shipped code answers for the old shape (known finding), the repair does not -/

/-- WITNESS (known finding C08/GoalRegion.is_reached/stale-after/Rectangle.length; corpus/C08/stale_rectangle_length.json):
    `R = Rectangle(2, 1)`, one `contains_point`, `R.length = 10`: the point (3, 0) lies in the 10 x 1 rectangle, the object
    says no; the same object without the first query, and a new `Rectangle(10, 1)`, say yes. -/
theorem C08_witness_stale_rectangle :
    let r0 := RectObj.new 2 1 ⟨0, 0⟩ 1 0
    let p : CR.Geom.Pt := ⟨3, 0⟩
    (((r0.containsPoint ⟨0, 0⟩).2.setLength 10).containsPoint p).1 = false ∧
    ((r0.setLength 10).containsPoint p).1 = true ∧
    ((RectObj.new 10 1 ⟨0, 0⟩ 1 0).containsPoint p).1 = true := by decide +kernel

/-- WITNESS (…/stale-after/Polygon.vertices; corpus/C08/stale_polygon_vertices.json): the unit square moved to (10, 10) by the
    `vertices` setter contains neither its new centre (the polygon is still the old one) nor its old centre (the box is new). -/
theorem C08_witness_stale_polygon :
    let q := (PolyObj.new [⟨0, 0⟩, ⟨1, 0⟩, ⟨1, 1⟩, ⟨0, 1⟩]).setVertices [⟨10, 10⟩, ⟨11, 10⟩, ⟨11, 11⟩, ⟨10, 11⟩]
    q.containsPoint ⟨21/2, 21/2⟩ = false ∧ q.containsPoint ⟨1/2, 1/2⟩ = false ∧
    (PolyObj.new [⟨10, 10⟩, ⟨11, 10⟩, ⟨11, 11⟩, ⟨10, 11⟩]).containsPoint ⟨21/2, 21/2⟩ = true := by decide +kernel

/-- With the repaired setters every history of queries and edits answers like a rectangle constructed from the current
    parameters: the cache, when present, is the vertex ring of the current parameters (invariant), so `contains_point` is the
    C06 predicate `rectContains` of them. -/
def RectObj.Coherent (r : RectObj) : Prop := ∀ vs, r.cache = some vs → vs = CR.Geom.rectVerts r.l r.w r.ctr r.c r.s

theorem C08_rect_repaired_coherent (r : RectObj) (h : r.Coherent) (p : CR.Geom.Pt) :
    (r.containsPoint p).1 = CR.Geom.rectContains r.l r.w r.ctr r.c r.s p ∧ (r.containsPoint p).2.Coherent ∧
    (∀ l, (r.setLengthR l).Coherent) ∧ (∀ w, (r.setWidthR w).Coherent) ∧ (∀ c, (r.setCenterR c).Coherent) ∧
    (∀ c s, (r.setOrientationR c s).Coherent) ∧ (∀ l w ctr c s, (RectObj.new l w ctr c s).Coherent) := by
  refine ⟨?_, ?_, ?_, ?_, ?_, ?_, ?_⟩
  · cases hc : r.cache with
    | none => simp [RectObj.containsPoint, hc, CR.Geom.rectContains]
    | some vs => simp [RectObj.containsPoint, hc, CR.Geom.rectContains, h vs hc]
  · intro vs hvs
    cases hc : r.cache with
    | none => simp [RectObj.containsPoint, hc] at hvs; exact hvs.symm
    | some ws => simp [RectObj.containsPoint, hc] at hvs; rw [← hvs]; exact h ws hc
  all_goals intros; intro vs hvs; simp [RectObj.setLengthR, RectObj.setWidthR, RectObj.setCenterR, RectObj.setOrientationR,
    RectObj.new] at hvs

theorem C08_poly_repaired (q : PolyObj) (vs : List CR.Geom.Pt) (p : CR.Geom.Pt) :
    (q.setVerticesR vs).containsPoint p = CR.Geom.polyContains vs p := rfl

end CR.Goal
