/-
  C04 — Obstacle occupancy is the shape placed at the state, for every time step.
  Model: CRModel/Occupancy.lean (dispatch / index arithmetic of obstacle.py, prediction.py,
  trajectory.py, scenario.py). The geometric placement is symbolic (`Occ.placed i`); the algebraic core
  of the enclosure formula for uncertain orientations is `C04_extent_*` below.
-/
import CRModel.Occupancy
import CRModel.Place
import Mathlib.Tactic.Linarith
import Mathlib.Tactic.Ring
import Mathlib.Algebra.Order.Field.Rat
import Mathlib.Algebra.Order.Ring.Abs
namespace CR.Occ

/-- Well-formed trajectory: the i-th state carries time step `t0 + i`. -/
def WfTraj (t0 : Int) (ts : List Int) : Prop := ∀ i (h : i < ts.length), ts[i] = t0 + i

theorem findIdx_spec {α : Type} (p : α → Bool) : ∀ (l : List α) (k : Nat) (r : Nat),
    findIdx p l k = some r ↔ ∃ i, r = k + i ∧ ∃ h : i < l.length, p l[i] = true ∧ ∀ j (hj : j < i), p (l[j]'(by omega)) = false
  | [], k, r => by simp [findIdx]
  | a :: as, k, r => by
    unfold findIdx
    by_cases hp : p a = true
    · simp only [hp, if_true, Option.some.injEq]
      constructor
      · intro h; subst h; exact ⟨0, rfl, by simp, by simpa using hp, by intro j hj; omega⟩
      · rintro ⟨i, hr, hi, hpi, hall⟩
        cases i with
        | zero => omega
        | succ i => have := hall 0 (by omega); simp at this; rw [this] at hp; cases hp
    · have hp' : p a = false := by simpa using hp
      simp only [hp', Bool.false_eq_true, if_false]
      rw [findIdx_spec p as (k + 1) r]
      constructor
      · rintro ⟨i, hr, hi, hpi, hall⟩
        refine ⟨i + 1, by omega, by simpa using hi, by simpa using hpi, ?_⟩
        intro j hj
        cases j with
        | zero => simpa using hp
        | succ j => simpa using hall j (by omega)
      · rintro ⟨i, hr, hi, hpi, hall⟩
        cases i with
        | zero => simp at hpi; rw [hpi] at hp; exact absurd rfl hp
        | succ i =>
          refine ⟨i, by omega, by simpa using hi, by simpa using hpi, ?_⟩
          intro j hj
          simpa using hall (j + 1) (by omega)

theorem findIdx_none {α : Type} (p : α → Bool) : ∀ (l : List α) (k : Nat),
    findIdx p l k = none ↔ ∀ a ∈ l, p a = false
  | [], k => by simp [findIdx]
  | a :: as, k => by
    unfold findIdx
    by_cases hp : p a = true
    · simp [hp]
    · have hp' : p a = false := by simpa using hp
      simp only [hp', Bool.false_eq_true, if_false, findIdx_none p as (k + 1)]
      simp [hp']

/-- In a well-formed trajectory the scan by time stamp finds exactly index `t - t0`. -/
theorem findIdx_wf (t0 : Int) (ts : List Int) (hw : WfTraj t0 ts) (t : Int) :
    findIdx (fun s => s == t) ts 0 = if t0 ≤ t ∧ t < t0 + ts.length then some (t - t0).toNat else none := by
  split
  · rename_i h
    rw [findIdx_spec]
    have hi : (t - t0).toNat < ts.length := by omega
    refine ⟨(t - t0).toNat, by simp, hi, ?_, ?_⟩
    · rw [hw _ hi]; simp; omega
    · intro j hj; rw [hw j (by omega)]; simp; omega
  · rename_i h
    rw [findIdx_none]
    intro a ha
    obtain ⟨i, hi, rfl⟩ := List.getElem_of_mem ha
    rw [hw i hi]
    simp; omega

/-- C04 (a): for dynamic obstacles the state returned for `t` is the one whose time step is `t` — for WELL-FORMED
    trajectories (`WfTraj`: state i carries time step t0 + i, the precondition `Trajectory` documents: "the time
    discretization between two states matches the time discretization of the scenario"; the constructor only checks
    the first state). Without it the clause is false, see `C04_witness_gapped_trajectory`. -/
theorem C04_dyn_state_time (tInit t0 : Int) (ts : List Int) (hw : WfTraj t0 ts) (t : Int) (i : Nat)
    (h : stateAt (.dynamic tInit (.traj t0 ts)) t = some (.traj i)) : ts[i]? = some t := by
  simp only [stateAt] at h
  split at h
  · cases h
  · split at h
    · simp only [trajStateAt, Option.map_eq_some_iff] at h
      obtain ⟨k, hk, hk2⟩ := h
      cases hk2
      split at hk
      · cases hk
        rename_i hr
        have hi : (t - t0).toNat < ts.length := by omega
        rw [List.getElem?_eq_getElem hi, hw _ hi]; simp; omega
      · cases hk
    · cases h

/-- The hypothesis `WfTraj` is needed: a trajectory with a gap in its time steps (accepted by the constructor, which only
    checks the first state) answers `state_at_time(4)` with the state of time step 5, while `occupancy_at_time(4)` is
    `None` (the occupancy scan goes by the states' own time stamps). Such trajectories violate the documented
    precondition and are outside the property's "time horizon" notion; the harness replays this witness on the real
    code and counts it as excluded. -/
theorem C04_witness_gapped_trajectory :
    ¬ WfTraj 3 [3, 5, 6] ∧ stateAt (.dynamic 2 (.traj 3 [3, 5, 6])) 4 = some (.traj 1) ∧ ([3, 5, 6] : List Int)[1]? = some 5 ∧
    occupancyAt (.dynamic 2 (.traj 3 [3, 5, 6])) 4 = none := by
  refine ⟨?_, by decide, by decide, by decide⟩
  intro h
  have := h 1 (by simp)
  simp at this

/-- C04 (b): inside the horizon (after the initial step) the occupancy is the shape placed at the
    trajectory state of that very time step, and `state_at_time` returns the same state. -/
theorem C04_dyn_occ (tInit t0 : Int) (ts : List Int) (hw : WfTraj t0 ts) (t : Int)
    (h1 : tInit < t) (h2 : t0 ≤ t) (h3 : t < t0 + ts.length) :
    occupancyAt (.dynamic tInit (.traj t0 ts)) t = some (.placed (t - t0).toNat) ∧
    stateAt (.dynamic tInit (.traj t0 ts)) t = some (.traj (t - t0).toNat) := by
  have hne : ¬ t = tInit := by omega
  constructor
  · simp only [occupancyAt, hne, if_false, h1, gt_iff_lt, if_true, predOccAt]
    rw [findIdx_wf t0 ts hw t]; simp [h2, h3]
  · simp only [stateAt, hne, if_false, h1, gt_iff_lt, if_true, trajStateAt, h2, h3, and_self]
    simp

/-- C04 (c): at the initial time step the occupancy is the shape placed at the initial state,
    whatever the prediction. -/
theorem C04_init (tInit : Int) (p : Pred) :
    occupancyAt (.dynamic tInit p) tInit = some .init ∧ stateAt (.dynamic tInit p) tInit = some .init := by
  simp [occupancyAt, stateAt]

/-- C04 (d): None outside the time horizon — before the initial step, and (well-formed trajectory)
    before the first or after the last trajectory state; also with no prediction at all. -/
theorem C04_dyn_outside (tInit t0 : Int) (ts : List Int) (hw : WfTraj t0 ts) (t : Int) :
    (t < tInit → occupancyAt (.dynamic tInit (.traj t0 ts)) t = none ∧ stateAt (.dynamic tInit (.traj t0 ts)) t = none) ∧
    (tInit < t → (t < t0 ∨ t0 + ts.length ≤ t) →
      occupancyAt (.dynamic tInit (.traj t0 ts)) t = none ∧ stateAt (.dynamic tInit (.traj t0 ts)) t = none) ∧
    (t ≠ tInit → occupancyAt (.dynamic tInit .none) t = none ∧ stateAt (.dynamic tInit .none) t = none) := by
  refine ⟨?_, ?_, ?_⟩
  · intro h
    have hne : ¬ t = tInit := by omega
    have hgt : ¬ t > tInit := by omega
    simp [occupancyAt, stateAt, hne, hgt]
  · intro h hout
    have hne : ¬ t = tInit := by omega
    have hr : ¬ (t0 ≤ t ∧ t < t0 + ts.length) := by omega
    constructor
    · simp only [occupancyAt, hne, if_false, h, gt_iff_lt, if_true, predOccAt]
      rw [findIdx_wf t0 ts hw t]; simp [hr]
    · simp [stateAt, hne, h, trajStateAt, hr]
  · intro hne
    simp [occupancyAt, stateAt, hne, predOccAt]

/-- C04 (e): static and environment obstacles occupy the same region at all times. -/
theorem C04_static_const (tInit t t' : Int) :
    occupancyAt (.static tInit) t = some .init ∧ occupancyAt (.static tInit) t = occupancyAt (.static tInit) t' ∧
    stateAt (.static tInit) t = some .init ∧ occupancyAt .environment t = some .shape := by
  simp [occupancyAt, stateAt]

/-- C04 (f): set-based predictions answer with the stored occupancy: the first one whose exact step /
    interval contains `t`; `None` iff no stored occupancy contains `t`. Same for phantom obstacles. -/
theorem C04_set_based (tInit : Int) (occs : List TS) (t : Int) (h : tInit < t) :
    (∀ i, occupancyAt (.dynamic tInit (.setBased occs)) t = some (.stored i) ↔
      ∃ hi : i < occs.length, occs[i].contains t = true ∧ ∀ j (hj : j < i), (occs[j]'(by omega)).contains t = false) ∧
    (occupancyAt (.dynamic tInit (.setBased occs)) t = none ↔ ∀ o ∈ occs, o.contains t = false) ∧
    occupancyAt (.phantom (some occs)) t = occupancyAt (.dynamic tInit (.setBased occs)) t ∧
    stateAt (.dynamic tInit (.setBased occs)) t = none := by
  have hne : ¬ t = tInit := by omega
  refine ⟨?_, ?_, ?_, ?_⟩
  · intro i
    simp only [occupancyAt, hne, if_false, h, gt_iff_lt, if_true, predOccAt, Option.map_eq_some_iff]
    constructor
    · rintro ⟨k, hk, hk2⟩
      cases hk2
      rw [findIdx_spec] at hk
      obtain ⟨i', hr, hi, hp, hall⟩ := hk
      simp at hr; subst hr
      exact ⟨hi, hp, hall⟩
    · rintro ⟨hi, hp, hall⟩
      exact ⟨i, by rw [findIdx_spec]; exact ⟨i, by simp, hi, hp, hall⟩, rfl⟩
  · simp only [occupancyAt, hne, if_false, h, gt_iff_lt, if_true, predOccAt, Option.map_eq_none_iff]
    exact findIdx_none _ _ _
  · simp [occupancyAt, hne, h]
  · simp [stateAt, hne]

/-! ### scenario-level queries return exactly what the per-obstacle answers imply
  (membership characterisations of the model's comprehensions — the comprehensions mirror the code's loops, so these
  theorems mostly document the model; order and multiplicity are those of `List.filterMap` over the obstacle list) -/

theorem C04_occupancies_iff (obs : List (Nat × Obst)) (t : Int) (role : Option Role) (i : Nat) (oc : Occ) :
    (i, oc) ∈ occupanciesAt obs t role ↔
      ∃ o, (i, o) ∈ obs ∧ (role = none ∨ role = some o.role) ∧ occupancyAt o t = some oc := by
  simp only [occupanciesAt, List.mem_filterMap]
  constructor
  · rintro ⟨⟨j, o⟩, hmem, h⟩
    simp only at h
    split at h
    · rename_i hr
      simp only [Option.map_eq_some_iff] at h
      obtain ⟨oc', ho, heq⟩ := h
      cases heq
      exact ⟨o, hmem, hr, ho⟩
    · cases h
  · rintro ⟨o, hmem, hr, ho⟩
    exact ⟨(i, o), hmem, by simp [hr, ho]⟩

theorem C04_states_iff (obs : List (Nat × Obst)) (t : Int) (i : Nat) (s : StRef) :
    (i, s) ∈ statesAt obs t ↔
      ∃ o, (i, o) ∈ obs ∧ ((o.role = .dynamic ∧ stateAt o t = some s) ∨ (o.role = .static ∧ s = .init)) := by
  simp only [statesAt, List.mem_filterMap]
  constructor
  · rintro ⟨⟨j, o⟩, hmem, h⟩
    cases o with
    | static ti => simp at h; obtain ⟨rfl, rfl⟩ := h; exact ⟨_, hmem, Or.inr ⟨rfl, rfl⟩⟩
    | dynamic ti p =>
      simp only [Option.map_eq_some_iff] at h
      obtain ⟨s', hs, heq⟩ := h
      cases heq
      exact ⟨_, hmem, Or.inl ⟨rfl, hs⟩⟩
    | phantom p => simp at h
    | environment => simp at h
  · rintro ⟨o, hmem, h⟩
    refine ⟨(i, o), hmem, ?_⟩
    cases o with
    | static ti => rcases h with ⟨hr, _⟩ | ⟨_, rfl⟩ <;> simp_all [Obst.role]
    | dynamic ti p => rcases h with ⟨_, hs⟩ | ⟨hr, _⟩ <;> simp_all [Obst.role]
    | phantom p => rcases h with ⟨hr, _⟩ | ⟨hr, _⟩ <;> simp [Obst.role] at hr
    | environment => rcases h with ⟨hr, _⟩ | ⟨hr, _⟩ <;> simp [Obst.role] at hr

theorem C04_filter_iff (obs : List (Nat × Obst × Option Nat)) (role : Option Role) (ty : Option Nat) (i : Nat) :
    i ∈ byRoleType obs role ty ↔
      ∃ o oty, (i, o, oty) ∈ obs ∧ (role = none ∨ role = some o.role) ∧ (ty = none ∨ (ty.isSome ∧ ty = oty)) := by
  simp only [byRoleType, List.mem_filterMap]
  constructor
  · rintro ⟨⟨j, o, oty⟩, hmem, h⟩
    simp only at h
    split at h
    · rename_i hc; cases h; exact ⟨o, oty, hmem, hc.1, hc.2⟩
    · cases h
  · rintro ⟨o, oty, hmem, h1, h2⟩
    exact ⟨(i, o, oty), hmem, by simp [h1, h2]⟩

/-- `obstacles_by_position_intervals`: an obstacle is listed iff its role is among the requested ones, it has an occupancy
    at `t` when it is dynamic or phantom, and the centre it offers — if it offers one — lies in both closed intervals. -/
theorem C04_position_iff (obs : List (Nat × Obst)) (ctr : Nat → Option (Rat × Rat)) (ix iy : CR.Iv.I)
    (roles : List Role) (t : Int) (i : Nat) :
    i ∈ byPosition obs ctr ix iy roles t ↔
      ∃ o, (i, o) ∈ obs ∧ o.role ∈ roles ∧
        ((o.role = .dynamic ∨ o.role = .phantom) → ∃ oc, occupancyAt o t = some oc) ∧
        (∀ c, ctr i = some c → ix.lo ≤ c.1 ∧ c.1 ≤ ix.hi ∧ iy.lo ≤ c.2 ∧ c.2 ≤ iy.hi) := by
  have hc : ∀ x, centreIn ix iy x = true ↔
      (∀ c, x = some c → ix.lo ≤ c.1 ∧ c.1 ≤ ix.hi ∧ iy.lo ≤ c.2 ∧ c.2 ≤ iy.hi) := by
    intro x
    cases x with
    | none => simp [centreIn]
    | some c => simp [centreIn, CR.Iv.contains, and_assoc]
  have pass : ∀ r : Role,
      i ∈ posPass obs ctr ix iy roles t r ↔
        ∃ o, (i, o) ∈ obs ∧ o.role = r ∧ r ∈ roles ∧
          ((r = .dynamic ∨ r = .phantom) → ∃ oc, occupancyAt o t = some oc) ∧
          (∀ c, ctr i = some c → ix.lo ≤ c.1 ∧ c.1 ≤ ix.hi ∧ iy.lo ≤ c.2 ∧ c.2 ≤ iy.hi) := by
    intro r
    unfold posPass
    by_cases hr : r ∈ roles
    · simp only [hr, if_true, List.mem_filterMap]
      constructor
      · rintro ⟨⟨j, o⟩, hmem, h⟩
        simp only at h
        split at h
        · rename_i hcnd
          cases h
          exact ⟨o, hmem, hcnd.1, trivial, fun h' => Option.isSome_iff_exists.mp (hcnd.2.1 h'), (hc _).mp hcnd.2.2⟩
        · cases h
      · rintro ⟨o, hmem, hro, -, hocc, hctr⟩
        refine ⟨(i, o), hmem, ?_⟩
        have h1 : (r = .dynamic ∨ r = .phantom) → (occupancyAt o t).isSome = true :=
          fun h' => Option.isSome_iff_exists.mpr (hocc h')
        have h2 := (hc (ctr i)).mpr hctr
        simp only
        rw [if_pos ⟨hro, h1, h2⟩]
    · simp [hr]
  unfold byPosition
  simp only [List.mem_append]
  rw [pass .dynamic, pass .phantom, pass .static, pass .environment]
  constructor
  · rintro (((⟨o, hm, hr, hin, ho, hcc⟩ | ⟨o, hm, hr, hin, ho, hcc⟩) | ⟨o, hm, hr, hin, ho, hcc⟩) | ⟨o, hm, hr, hin, ho, hcc⟩)
    all_goals refine ⟨o, hm, hr ▸ hin, ?_, hcc⟩
    · intro _; exact ho (Or.inl rfl)
    · intro _; exact ho (Or.inr rfl)
    · intro h; rw [hr] at h; rcases h with h | h <;> cases h
    · intro h; rw [hr] at h; rcases h with h | h <;> cases h
  · rintro ⟨o, hm, hin, ho, hcc⟩
    cases hrole : o.role with
    | dynamic => exact Or.inl (Or.inl (Or.inl ⟨o, hm, hrole, hrole ▸ hin, fun _ => ho (Or.inl hrole), hcc⟩))
    | phantom => exact Or.inl (Or.inl (Or.inr ⟨o, hm, hrole, hrole ▸ hin, fun _ => ho (Or.inr hrole), hcc⟩))
    | static => exact Or.inl (Or.inr ⟨o, hm, hrole, hrole ▸ hin, (fun h => by rcases h with h | h <;> cases h), hcc⟩)
    | environment => exact Or.inr ⟨o, hm, hrole, hrole ▸ hin, (fun h => by rcases h with h | h <;> cases h), hcc⟩

/-- The listing order: all dynamic obstacles first, then phantom, static, environment (four loops in the code). -/
example : byPosition [(1, .static 0), (2, .dynamic 0 .none), (3, .environment), (4, .phantom none), (5, .dynamic 3 .none)]
    (fun i => if i = 1 then some (5, 5) else if i = 3 then none else some (0, 0)) ⟨-1, 1⟩ ⟨-1, 1⟩
    [.static, .dynamic, .environment, .phantom] 0 = [2, 3] := by decide +kernel

/-! ### the algebraic core of the enclosure for uncertain orientations
  `occupancy_shape_from_state` enlarges an l × w box to `l + l_ψ` with
  `l_ψ = |(1 - cos δ_l)·l - sin δ_l·w|`, `δ_l = min(Δψ, arctan(w/l))`. The rotated box's extent along
  its reference axis is `l·|cos δ| + w·|sin δ|`. With `(c, s) = (cos|δ|, sin|δ|)` and
  `(cl, sl) = (cos δ_l, sin δ_l)` as parameters on the unit circle in the first quadrant: -/

/-- Case `|δ| ≤ δ_l ≤ arctan(w/l)` (i.e. `s ≤ sl`, `l·sl ≤ w·cl`): the extent grows with the angle. -/
theorem C04_extent_le_small (l w c s cl sl : Rat) (hl : 0 ≤ l) (hw : 0 ≤ w)
    (hu : c * c + s * s = 1) (hul : cl * cl + sl * sl = 1)
    (hc : 0 ≤ c) (hs : 0 ≤ s) (hcl : 0 ≤ cl) (hsl : 0 ≤ sl)
    (hle : s ≤ sl) (hslope : l * sl ≤ w * cl) :
    l * c + w * s ≤ l + |(1 - cl) * l - sl * w| := by
  have hccl : cl ≤ c := by nlinarith
  have key : l * c + w * s ≤ l * cl + w * sl := by
    -- w (c + cl) ≥ l (s + sl), then multiply by (sl - s) ≥ 0 and use c² - cl² = sl² - s²
    have h1 : l * s ≤ w * c := by nlinarith
    have h2 : l * (s + sl) ≤ w * (c + cl) := by nlinarith
    have h3 : (c - cl) * (c + cl) = (sl - s) * (sl + s) := by nlinarith
    have h4 : 0 ≤ sl - s := by linarith
    have h5 : 0 ≤ c - cl := by linarith
    have h6 : 0 ≤ c + cl := by linarith
    by_cases h0 : c + cl = 0
    · have : c = 0 := by linarith
      have : cl = 0 := by linarith
      nlinarith
    · have hpos : 0 < c + cl := lt_of_le_of_ne h6 (Ne.symm h0)
      -- l (c - cl)(c + cl) = l (sl - s)(sl + s) ≤ w (sl - s)(c + cl)
      have h7 : l * (c - cl) * (c + cl) ≤ w * (sl - s) * (c + cl) := by nlinarith
      have h8 : l * (c - cl) ≤ w * (sl - s) := le_of_mul_le_mul_right h7 hpos
      linarith
  have habs : l * cl + w * sl - l ≤ |(1 - cl) * l - sl * w| := by
    have : l * cl + w * sl - l = -((1 - cl) * l - sl * w) := by ring
    rw [this]; exact neg_le_abs _
  linarith

/-- Case `δ_l = arctan(w/l)` (i.e. `l·sl = w·cl`): the bound is the global maximum of the extent
    (Cauchy–Schwarz), so it holds for EVERY rotation `(c, s)` on the unit circle. -/
theorem C04_extent_le_max (l w c s cl sl : Rat) (hl : 0 ≤ l) (hw : 0 ≤ w)
    (hu : c * c + s * s = 1) (hul : cl * cl + sl * sl = 1)
    (hcl : 0 ≤ cl) (hsl : 0 ≤ sl) (hslope : l * sl = w * cl) :
    l * c + w * s ≤ l + |(1 - cl) * l - sl * w| := by
  have hsq : (l * c + w * s) * (l * c + w * s) ≤ (l * cl + w * sl) * (l * cl + w * sl) := by
    have e1 : (l * cl + w * sl) * (l * cl + w * sl) = l * l + w * w := by nlinarith
    nlinarith [sq_nonneg (l * s - w * c)]
  have hnn : 0 ≤ l * cl + w * sl := by positivity
  have key : l * c + w * s ≤ l * cl + w * sl := by
    by_contra hcon
    push Not at hcon
    nlinarith
  have habs : l * cl + w * sl - l ≤ |(1 - cl) * l - sl * w| := by
    have : l * cl + w * sl - l = -((1 - cl) * l - sl * w) := by ring
    rw [this]; exact neg_le_abs _
  linarith

/-- Enclosure of a centred l × w box under an uncertain pose, in the frame of the reference orientation:
    every point `(x, y)` of the box, rotated by any admissible deviation `(c, s)` from the reference
    orientation and displaced by any `(px, py)` of an `ls × ws` position region, lies within the
    `(ls + l + l_ψ) × (ws + w + w_ψ)` rectangle the code constructs — provided the two extent bounds hold
    (they are `C04_extent_le_small` / `C04_extent_le_max` applied to `(|c|, |s|)`, once per axis). -/
theorem C04_enclosure_box (l w ls ws lpsi wpsi c s x y px py : Rat)
    (hx : |x| ≤ l / 2) (hy : |y| ≤ w / 2) (hpx : |px| ≤ ls / 2) (hpy : |py| ≤ ws / 2)
    (hextl : l * |c| + w * |s| ≤ l + lpsi) (hextw : w * |c| + l * |s| ≤ w + wpsi) :
    |px + (c * x - s * y)| ≤ (ls + l + lpsi) / 2 ∧ |py + (s * x + c * y)| ≤ (ws + w + wpsi) / 2 := by
  have hc0 := abs_nonneg c
  have hs0 := abs_nonneg s
  have hx0 := abs_nonneg x
  have hy0 := abs_nonneg y
  have h1 : |c * x - s * y| ≤ |c| * |x| + |s| * |y| := by
    calc |c * x - s * y| ≤ |c * x| + |s * y| := abs_sub _ _
      _ = |c| * |x| + |s| * |y| := by rw [abs_mul, abs_mul]
  have h2 : |s * x + c * y| ≤ |s| * |x| + |c| * |y| := by
    calc |s * x + c * y| ≤ |s * x| + |c * y| := abs_add_le _ _
      _ = |s| * |x| + |c| * |y| := by rw [abs_mul, abs_mul]
  have h3 : |c| * |x| + |s| * |y| ≤ (l * |c| + w * |s|) / 2 := by nlinarith
  have h4 : |s| * |x| + |c| * |y| ≤ (w * |c| + l * |s|) / 2 := by nlinarith
  constructor
  · calc |px + (c * x - s * y)| ≤ |px| + |c * x - s * y| := abs_add_le _ _
      _ ≤ (ls + l + lpsi) / 2 := by linarith
  · calc |py + (s * x + c * y)| ≤ |py| + |s * x + c * y| := abs_add_le _ _
      _ ≤ (ws + w + wpsi) / 2 := by linarith

/-- `_centered_extent` (shape.py): the smallest symmetric extent about the centre of rotation `g` that contains
    everything between `lo` and `hi` is `2·max(hi − g, g − lo)`; every coordinate in `[lo, hi]` is within half of it
    of `g`. This is what makes the enclosure below valid for shapes whose centre is NOT the local origin (the defect
    repaired in 565edb2): `x`, `y` below are coordinates relative to the centre of rotation. -/
theorem C04_centered_extent (lo hi g x : Rat) (h1 : lo ≤ x) (h2 : x ≤ hi) :
    |x - g| ≤ (2 * max (hi - g) (g - lo)) / 2 := by
  rw [mul_div_cancel_left₀ _ (by norm_num : (2 : Rat) ≠ 0), abs_le]
  constructor
  · have := le_max_right (hi - g) (g - lo); linarith
  · have := le_max_left (hi - g) (g - lo); linarith

/-- The enclosure statement for a box (coordinates relative to the centre of rotation), both axes, for the two regimes
    of the code's formula per axis: `(cl, sl)` / `(cw, sw)` are cosine and sine of `δ_l = min(Δψ, arctan(w/l))` and
    `δ_w = min(Δψ, arctan(l/w))`; regime "small" means `|δ| ≤ δ_*` (so `|s| ≤ s_*`, `c ≥ 0`) with `δ_*` below the
    arctan bound, regime "max" means `δ_*` equals the arctan bound. -/
def C04_enclosure_full : Prop :=
  ∀ (l w ls ws c s cl sl cw sw x y px py : Rat),
    0 ≤ l → 0 ≤ w → |x| ≤ l / 2 → |y| ≤ w / 2 → |px| ≤ ls / 2 → |py| ≤ ws / 2 →
    c * c + s * s = 1 → cl * cl + sl * sl = 1 → 0 ≤ cl → 0 ≤ sl → cw * cw + sw * sw = 1 → 0 ≤ cw → 0 ≤ sw →
    ((|s| ≤ sl ∧ l * sl ≤ w * cl) ∨ l * sl = w * cl) →
    ((|s| ≤ sw ∧ w * sw ≤ l * cw) ∨ w * sw = l * cw) →
    |px + (c * x - s * y)| ≤ (ls + l + |(1 - cl) * l - sl * w|) / 2 ∧
    |py + (s * x + c * y)| ≤ (ws + w + |(1 - cw) * w - sw * l|) / 2

theorem C04_enclosure : C04_enclosure_full := by
  intro l w ls ws c s cl sl cw sw x y px py hl hw hx hy hpx hpy hu hul hcl hsl huw hcw hsw hcaseL hcaseW
  have hu' : |c| * |c| + |s| * |s| = 1 := by rw [abs_mul_abs_self, abs_mul_abs_self]; exact hu
  have hextl : l * |c| + w * |s| ≤ l + |(1 - cl) * l - sl * w| := by
    rcases hcaseL with ⟨h1, h3⟩ | h
    · exact C04_extent_le_small l w |c| |s| cl sl hl hw hu' hul (abs_nonneg _) (abs_nonneg _) hcl hsl h1 h3
    · exact C04_extent_le_max l w |c| |s| cl sl hl hw hu' hul hcl hsl h
  have hextw : w * |c| + l * |s| ≤ w + |(1 - cw) * w - sw * l| := by
    rcases hcaseW with ⟨h1, h3⟩ | h
    · exact C04_extent_le_small w l |c| |s| cw sw hw hl hu' huw (abs_nonneg _) (abs_nonneg _) hcw hsw h1 h3
    · exact C04_extent_le_max w l |c| |s| cw sw hw hl hu' huw hcw hsw h
  exact C04_enclosure_box l w ls ws _ _ c s x y px py hx hy hpx hpy hextl hextw

/-- The rectangle the model function `CR.Place.enclose` builds (tied to the CURRENT source of `occupancy_shape_from_state` by
    T04 `tie_uncertain_enclosure`) has exactly the half-extents `C04_enclosure` bounds: every point of the centred `l × w` box,
    turned by any admissible deviation and displaced within the position region, lies inside it. -/
theorem C04_enclose_encloses (l w ls ws c s cl sl cw sw x y px py psi : Rat) (ctr : CR.Rigid.Pt)
    (hl : 0 ≤ l) (hw : 0 ≤ w) (hx : |x| ≤ l / 2) (hy : |y| ≤ w / 2) (hpx : |px| ≤ ls / 2) (hpy : |py| ≤ ws / 2)
    (hu : c * c + s * s = 1) (hul : cl * cl + sl * sl = 1) (hcl : 0 ≤ cl) (hsl : 0 ≤ sl)
    (huw : cw * cw + sw * sw = 1) (hcw : 0 ≤ cw) (hsw : 0 ≤ sw)
    (hcaseL : (|s| ≤ sl ∧ l * sl ≤ w * cl) ∨ l * sl = w * cl)
    (hcaseW : (|s| ≤ sw ∧ w * sw ≤ l * cw) ∨ w * sw = l * cw) :
    ∃ L W, CR.Place.enclose cl sl cw sw l w ls ws ctr psi = .rect L W ctr psi ∧
      |px + (c * x - s * y)| ≤ L / 2 ∧ |py + (s * x + c * y)| ≤ W / 2 := by
  have habs : ∀ z : Rat, CR.Place.absQ z = |z| := by
    intro z
    unfold CR.Place.absQ
    split
    · rename_i h; rw [abs_of_neg h]
    · rename_i h; rw [abs_of_nonneg (not_lt.1 h)]
  refine ⟨_, _, rfl, ?_⟩
  rw [habs, habs]
  exact C04_enclosure l w ls ws c s cl sl cw sw x y px py hl hw hx hy hpx hpy hu hul hcl hsl huw hcw hsw hcaseL hcaseW

/-! What is NOT proved: that shapely's `bounds` of a polygon / rotated position region bound it (GEOS), and the
    trigonometric facts tying `(c, s, cl, sl, cw, sw)` to angles (`cos`, `sin`, `arctan`, `min`, monotonicity of sine on
    [0, π/2]). These are validated by sampling admissible poses in the harness (a test, not a theorem). -/

/-! ### the occupancy set of a trajectory prediction, entry by entry
  `predOccAt (.traj _ ts)` scans the time steps of the states; the code scans the occupancy set `_create_occupancy_set` built
  (T04 `tie_create_occupancy_set` / `tie_occSetOf`: entry `i` = (time step of state `i`, shape placed at state `i`)) with
  `Prediction.occupancy_at_time_step` (T04 `tie_prediction_occupancy`).  The two agree for EVERY list of time steps. -/

theorem findIdx_occSetFrom (t : Int) : ∀ (ts : List Int) (i k : Nat),
    findIdx (fun e : TS × Occ => e.1.contains t) (occSetFrom ts i) k = findIdx (fun s => s == t) ts k
  | [], _, _ => rfl
  | a :: r, i, k => by
    have ih := findIdx_occSetFrom t r (i + 1) (k + 1)
    simp only [occSetFrom, findIdx]
    rw [ih]
    rfl

theorem occSetFrom_getElemOpt : ∀ (ts : List Int) (i j : Nat),
    (occSetFrom ts i)[j]? = ts[j]?.map (fun t => (TS.step t, Occ.placed (i + j)))
  | [], _, _ => by simp [occSetFrom]
  | a :: r, i, 0 => by simp [occSetFrom]
  | a :: r, i, j + 1 => by
    simp only [occSetFrom, List.getElem?_cons_succ]
    rw [occSetFrom_getElemOpt r (i + 1) j]
    congr 1; funext t; congr 2; omega

/-- Looking `t` up in the occupancy set of a trajectory prediction gives the shape placed at the FIRST state whose own time
    step is `t` — `predOccAt`; no entry is skipped, shifted or paired with another state's time step. -/
theorem C04_occset_lookup (t0 : Int) (ts : List Int) (t : Int) :
    lookupOcc (occSetOf ts) t = predOccAt (.traj t0 ts) t := by
  simp only [lookupOcc, predOccAt, occSetOf]
  rw [findIdx_occSetFrom]
  cases h : findIdx (fun s => s == t) ts 0 with
  | none => rfl
  | some r =>
    obtain ⟨i, hr, hi, _, _⟩ := (findIdx_spec _ ts 0 r).1 h
    have hri : r = i := by omega
    subst hri
    simp [occSetFrom_getElemOpt, List.getElem?_eq_getElem hi]

example : lookupOcc (occSetOf [3, 4, 5]) 4 = some (.placed 1) := by decide

/-- `Scenario.obstacle_by_id` (model `Scn.byId`, tied to the source in T04): the obstacle found carries the id and is a member;
    an id no obstacle carries gives `none`. -/
theorem C04_scn_byId (s : Scn) (i : Nat) :
    (∀ x, s.byId i = some x → x.1 = i ∧ x ∈ s.obstacles) ∧ (s.byId i = none ↔ ∀ x ∈ s.obstacles, x.1 ≠ i) := by
  unfold Scn.byId
  constructor
  · intro x hx
    exact ⟨by simpa using List.find?_some hx, List.mem_of_find?_eq_some hx⟩
  · simp [List.find?_eq_none]

/-! ### non-vacuity -/

example : WfTraj 3 [3, 4, 5] := by
  intro i h; simp at h
  match i, h with
  | 0, _ => simp
  | 1, _ => simp
  | 2, _ => simp
example : occupancyAt (.dynamic 2 (.traj 3 [3, 4, 5])) 4 = some (.placed 1) := by decide
example : occupancyAt (.dynamic 2 (.traj 3 [3, 4, 5])) 6 = none := by decide
example : occupancyAt (.dynamic 2 (.setBased [.step 3, .ival 4 6])) 5 = some (.stored 1) := by decide
example : (1 : Rat) * (4/5) + 3 * (3/5) ≤ 1 + |(1 - 4/5) * 1 - (3/5) * 3| := by
  have := C04_extent_le_small 1 3 (4/5) (3/5) (4/5) (3/5) (by norm_num) (by norm_num) (by norm_num) (by norm_num)
    (by norm_num) (by norm_num) (by norm_num) (by norm_num) (le_refl _) (by norm_num)
  linarith

/-! ### histories: the answers after any sequence of public mutations, and the scenario population after add / remove

  The dispatch theorems above hold for every value of `(tInit, prediction)`; a history only decides WHICH value an obstacle
  holds when it is asked.  The theorems below say that nothing else of the past survives: the role is fixed, the last
  `update_initial_state` leaves exactly the new initial step, a replaced prediction leaves no trace, and the scenario
  queries after `add_objects` / `remove_obstacle` are the old answers plus / minus the per-obstacle answers of that one id. -/

theorem C04_history_role (o : Obst) (ms : List Mut) : (o.run ms).role = o.role := by
  unfold Obst.run
  induction ms generalizing o with
  | nil => rfl
  | cons m ms ih =>
    rw [List.foldl_cons, ih]
    cases o <;> cases m <;> rfl

/-- after `update_initial_state(state of step t')`: the initial occupancy / state at `t'`, nothing anywhere else —
    whatever prediction and initial step the obstacle had before. -/
theorem C04_after_update_initial (tInit : Int) (p : Pred) (t' t : Int) :
    occupancyAt ((Obst.dynamic tInit p).apply (.updateInitial t')) t = (if t = t' then some .init else none) ∧
    stateAt ((Obst.dynamic tInit p).apply (.updateInitial t')) t = (if t = t' then some .init else none) := by
  simp only [Obst.apply, occupancyAt, stateAt, predOccAt]
  by_cases h : t = t' <;> simp [h]

/-- a replaced prediction leaves no trace: the answers are those of an obstacle built with the new prediction. -/
theorem C04_after_set_prediction (tInit : Int) (p q : Pred) (t : Int) :
    occupancyAt ((Obst.dynamic tInit p).apply (.setPrediction q)) t = occupancyAt (.dynamic tInit q) t ∧
    stateAt ((Obst.dynamic tInit p).apply (.setPrediction q)) t = stateAt (.dynamic tInit q) t := ⟨rfl, rfl⟩

/-- a history that ends with `update_initial_state`: only the new initial step answers, for EVERY earlier history. -/
theorem C04_history_ends_update (tInit : Int) (p : Pred) (ms : List Mut) (t' t : Int) :
    occupancyAt ((Obst.dynamic tInit p).run (ms ++ [.updateInitial t'])) t = (if t = t' then some .init else none) := by
  have hr := C04_history_role (.dynamic tInit p) ms
  unfold Obst.run at hr ⊢
  rw [List.foldl_append]
  simp only [List.foldl_cons, List.foldl_nil]
  cases h : List.foldl Obst.apply (Obst.dynamic tInit p) ms with
  | dynamic ti q => exact (C04_after_update_initial ti q t' t).1
  | static _ => rw [h] at hr; cases hr
  | phantom _ => rw [h] at hr; cases hr
  | environment => rw [h] at hr; cases hr

/-- a history that ends with a new prediction: beyond the (current) initial step the answer is the new prediction's. -/
theorem C04_history_ends_set_prediction (tInit : Int) (p q : Pred) (ms : List Mut) (t : Int) :
    ∃ ti, (Obst.dynamic tInit p).run (ms ++ [.setPrediction q]) = .dynamic ti q ∧
      (ti < t → occupancyAt ((Obst.dynamic tInit p).run (ms ++ [.setPrediction q])) t = predOccAt q t) := by
  have hr := C04_history_role (.dynamic tInit p) ms
  unfold Obst.run at hr ⊢
  rw [List.foldl_append]
  simp only [List.foldl_cons, List.foldl_nil]
  cases h : List.foldl Obst.apply (Obst.dynamic tInit p) ms with
  | dynamic ti r =>
    refine ⟨ti, rfl, ?_⟩
    intro hlt
    have hne : t ≠ ti := by omega
    simp [Obst.apply, occupancyAt, hne, hlt]
  | static _ => rw [h] at hr; cases hr
  | phantom _ => rw [h] at hr; cases hr
  | environment => rw [h] at hr; cases hr

theorem C04_scn_add_dup (s : Scn) (i : Nat) (o : Obst) (h : s.idUsed i = true) : s.add i o = .error .value := by
  simp [Scn.add, h]

theorem C04_scn_add_mem (s s' : Scn) (i : Nat) (o : Obst) (h : s.add i o = .ok s') (x : Nat × Obst) :
    x ∈ s'.obstacles ↔ x ∈ s.obstacles ∨ x = (i, o) := by
  unfold Scn.add at h
  split at h
  · cases h
  · injection h with h
    subst h
    cases hr : o.role <;> simp [Scn.obstacles, List.mem_append] <;> tauto

theorem C04_scn_remove_mem (s : Scn) (i : Nat) (x : Nat × Obst) :
    x ∈ (s.remove i).obstacles ↔ x ∈ s.obstacles ∧ x.1 ≠ i := by
  simp [Scn.remove, Scn.obstacles, List.mem_append, List.mem_filter]
  tauto

/-- `occupancies_at_time_step` after `add_objects(o)` with a free id: the old answers and the per-obstacle answer of `o`. -/
theorem C04_scn_occupancies_after_add (s s' : Scn) (i : Nat) (o : Obst) (h : s.add i o = .ok s')
    (t : Int) (role : Option Role) (j : Nat) (oc : Occ) :
    (j, oc) ∈ occupanciesAt s'.obstacles t role ↔
      (j, oc) ∈ occupanciesAt s.obstacles t role ∨
        (j = i ∧ (role = none ∨ role = some o.role) ∧ occupancyAt o t = some oc) := by
  simp only [C04_occupancies_iff, C04_scn_add_mem s s' i o h]
  constructor
  · rintro ⟨o', hm | hm, hr, ho⟩
    · exact Or.inl ⟨o', hm, hr, ho⟩
    · injection hm with h1 h2; subst h1; subst h2; exact Or.inr ⟨rfl, hr, ho⟩
  · rintro (⟨o', hm, hr, ho⟩ | ⟨rfl, hr, ho⟩)
    · exact ⟨o', Or.inl hm, hr, ho⟩
    · exact ⟨o, Or.inr rfl, hr, ho⟩

/-- … and after `remove_obstacle`: the old answers without those of the removed id. -/
theorem C04_scn_occupancies_after_remove (s : Scn) (i : Nat) (t : Int) (role : Option Role) (j : Nat) (oc : Occ) :
    (j, oc) ∈ occupanciesAt (s.remove i).obstacles t role ↔ j ≠ i ∧ (j, oc) ∈ occupanciesAt s.obstacles t role := by
  simp only [C04_occupancies_iff, C04_scn_remove_mem]
  constructor
  · rintro ⟨o', ⟨hm, hne⟩, hr, ho⟩; exact ⟨hne, o', hm, hr, ho⟩
  · rintro ⟨hne, o', hm, hr, ho⟩; exact ⟨o', ⟨hm, hne⟩, hr, ho⟩

theorem C04_scn_states_after_remove (s : Scn) (i : Nat) (t : Int) (j : Nat) (st : StRef) :
    (j, st) ∈ statesAt (s.remove i).obstacles t ↔ j ≠ i ∧ (j, st) ∈ statesAt s.obstacles t := by
  simp only [C04_states_iff, C04_scn_remove_mem]
  constructor
  · rintro ⟨o', ⟨hm, hne⟩, h⟩; exact ⟨hne, o', hm, h⟩
  · rintro ⟨hne, o', hm, h⟩; exact ⟨o', ⟨hm, hne⟩, h⟩

/-- a negative time step is rejected by the scenario-level queries before anything is computed -/
theorem C04_scn_negative_step (obs : List (Nat × Obst)) (t : Int) (role : Option Role) (h : t < 0) :
    occupanciesAtChk obs t role = .error .assert ∧ statesAtChk obs t = .error .assert := by
  simp [occupanciesAtChk, statesAtChk, h]

example : (Obst.dynamic 0 (.traj 1 [1, 2])).run [.setPrediction (.setBased [.step 4]), .updateInitial 3, .keep] = .dynamic 3 .none := rfl
example : ((({} : Scn).addMany [(4, .static 0), (2, .dynamic 0 .none), (4, .environment), (7, .environment)]).1.obstacles.map (·.1), 
    (({} : Scn).addMany [(4, .static 0), (2, .dynamic 0 .none), (4, .environment), (7, .environment)]).2) = ([4, 2], false) := by decide

end CR.Occ
