import Driver.Util
import CRModel.Index
open Lean CR.Drv CR.Geom CR.Index

namespace CR.Drv.C06

def ptOf (j : Json) : P Pt := do
  match ← asArr j with
  | [a, b] => pure ⟨← asRat a, ← asRat b⟩
  | _ => throw "point: expected [x, y]"

def primOf (j : Json) : P Prim := do
  match ← getStr j "k" with
  | "rect" =>
    match ← getList asRat j "cs" with
    | [c, s] => pure (.rect (← getRat j "l") (← getRat j "w") (← ptOf (← field j "c")) c s)
    | _ => throw "rect: expected cs = [cos, sin]"
  | "circ" => pure (.circ (← getRat j "r") (← ptOf (← field j "c")))
  | "poly" => pure (.poly (← getList ptOf j "v"))
  | k => throw s!"unknown primitive {k}"

def shapeOf (j : Json) : P Shape := do
  match ← getStr j "k" with
  | "group" => pure (.group (← getList primOf j "s"))
  | _ => pure (.prim (← primOf j))

def laneletOf (j : Json) : P Lanelet := do
  pure { id := ← getInt j "id", addr := ← getNat j "addr", left := ← getList ptOf j "left", right := ← getList ptOf j "right" }

def opOf (j : Json) : P Op := do
  match ← getStr j "op" with
  | "add" => pure (.add (← laneletOf (← field j "l")) (← getBool j "rtree"))
  | "remove" => pure (.remove (← getInt j "id") (← getBool j "rtree"))
  | "addFrom" => pure (.addFrom (← getList laneletOf j "ls"))
  | "copy" => let k ← getNat j "shift"; pure (.copy (fun a => a + k))
  | "scRemove" => pure (.scRemove (← getList asInt j "ids"))
  | "move" => let k ← getNat j "shift"; pure (.move (← ptOf (← field j "t")) (fun a => a + k))
  | o => throw s!"unknown network op {o}"

def boolsJ (bs : List Bool) : Json := Json.arr (bs.map Json.bool).toArray
def intsJ (is : List Int) : Json := Json.arr (is.map intJ).toArray

def handle (op : String) (a : Json) : P Json := do
  match op with
  | "contains" =>
    let s ← shapeOf (← field a "shape")
    let pts ← getList ptOf a "pts"
    pure <| okJ (boolsJ (pts.map (s.contains ·)))
  | "denotes" =>
    let s ← shapeOf (← field a "shape")
    let pts ← getList ptOf a "pts"
    let f : Pt → Bool := match s with
      | .prim q => q.denotes
      | .group qs => fun p => qs.any (·.denotes p)
    pure <| okJ (boolsJ (pts.map f))
  | "exported" =>
    let s ← shapeOf (← field a "shape")
    let pts ← getList ptOf a "pts"
    let f : Pt → Bool := match s with
      | .prim q => q.exported
      | .group qs => fun p => qs.any (·.exported p)
    pure <| okJ (boolsJ (pts.map f))
  | "rect" =>
    -- per point: [ring test of the exported vertices, local-frame box test, convex-quad test of the four vertices]
    match ← primOf (← field a "shape") with
    | .rect l w ctr c s =>
      let pts ← getList ptOf a "pts"
      let q := fun (x y : Rat) => place ctr c s ⟨x, y⟩
      pure <| okJ <| Json.arr (pts.map (fun p => boolsJ
        [rectContains l w ctr c s p, inBox l w ctr c s p,
         inQuadCW (q (-(l / 2)) (-(w / 2))) (q (-(l / 2)) (w / 2)) (q (l / 2) (w / 2)) (q (l / 2) (-(w / 2))) p])).toArray
    | _ => throw "rect: not a rectangle"
  | "meets" =>
    let ring ← getList ptOf a "ring"
    let ss ← getList shapeOf a "shapes"
    -- per shape: [polygon meets shape, the same evaluated with the arguments exchanged (rectangle / polygon)]
    let sym : Shape → Bool := fun sh => match sh with
      | .prim (.rect l w ctr c s) => ringsMeet (rectVerts l w ctr c s) ring
      | .prim (.poly vs) => ringsMeet vs ring
      | other => hits ringMeets ring other
    pure <| okJ (Json.arr (ss.map (fun sh => boolsJ [hits ringMeets ring sh, sym sh])).toArray)
  | "net" =>
    let tol ← getRat a "tol"
    let init ← field a "init"
    let n0 : Net ← match fieldOpt init "fromList" with
      | some ls => do
        let k ← getNat init "shift"
        pure (fromList (fun x => x + k) (← listOf laneletOf ls))
      | none => pure Net.empty
    let ops ← getList opOf a "ops"
    let pts ← getList ptOf a "pts"
    let shapes ← getList shapeOf a "shapes"
    match run n0 ops with
    | .error e => pure (errJ e)
    | .ok n =>
      let pos := resJ (fun (r : List (List Int)) => Json.arr (r.map intsJ).toArray) (findByPosition (treeWithin tol) n pts)
      let sh := Json.arr (shapes.map (fun s => resJ intsJ (findByShape treeMeets n s))).toArray
      -- exceptions the operations raised and the caller caught, in order (null: none)
      let rec errs (m : Net) : List Op → List Json
        | [] => []
        | o :: os => (match caught m o with | some e => Json.str e.toString | none => Json.null) ::
            (match step m o with | .ok m' => errs m' os | .error _ => [])
      pure <| okJ <| Json.mkObj [("ids", intsJ (n.lanelets.map (·.id))), ("pos", pos), ("shape", sh),
        ("caught", Json.arr (errs n0 ops).toArray)]
  | "world" =>
    -- several live networks: `wops` = [{"on": k, "op": {...}} | {"fork": k, "shift": s}]; the answer lists, per slot,
    -- ids / position lookups / shape lookups of THAT network
    let tol ← getRat a "tol"
    let init ← field a "init"
    let n0 : Net ← match fieldOpt init "fromList" with
      | some ls => do
        let k ← getNat init "shift"
        pure (fromList (fun x => x + k) (← listOf laneletOf ls))
      | none => pure Net.empty
    let wopOf : Json → P WOp := fun j => do
      match fieldOpt j "fork" with
      | some k => let s ← getNat j "shift"; pure (.fork (← asNat k) (fun x => x + s))
      | none => pure (.on (← getNat j "on") (← opOf (← field j "op")))
    let wops ← getList wopOf a "wops"
    let pts ← getList ptOf a "pts"
    let shapes ← getList shapeOf a "shapes"
    match wrun [n0] wops with
    | .error e => pure (errJ e)
    | .ok w =>
      pure <| okJ <| Json.arr (w.map (fun n => Json.mkObj [
        ("ids", intsJ (n.lanelets.map (·.id))),
        ("pos", resJ (fun (r : List (List Int)) => Json.arr (r.map intsJ).toArray) (findByPosition (treeWithin tol) n pts)),
        ("shape", Json.arr (shapes.map (fun s => resJ intsJ (findByShape treeMeets n s))).toArray)])).toArray
  | "contains_points" =>
    let l ← laneletOf (← field a "lanelet")
    let pts ← getList ptOf a "pts"
    pure <| resJ boolsJ (l.containsPoints pts)
  | "obstacles" =>
    let ls ← getList laneletOf a "lanelets"
    let obs ← getList (fun j => do pure ({ id := ← getInt j "id", shape := ← shapeOf (← field j "shape") } : Obst)) a "obs"
    let n := fromList id ls
    let oid := fun (os : List Obst) => intsJ (os.map (·.id))
    pure <| okJ <| Json.mkObj [
      ("get", Json.arr (n.lanelets.map (fun l => oid (getObstacles ringMeets l obs))).toArray),
      ("map", Json.arr ((mapObstacles ringMeets n obs).map (fun e => Json.arr #[intJ e.1, oid e.2])).toArray),
      ("filter", oid (filterObstacles ringMeets n obs))]
  | _ => throw s!"C06: unknown op {op}"

end CR.Drv.C06
