import Driver.Util
import CRModel.ArcLen
import CRModel.Route
open Lean CR.Drv

namespace CR.Drv.C20
open CR.Arc CR.Route

def pt (j : Json) : P Pt := do
  match ← asArr j with
  | [x, y] => pure (← asRat x, ← asRat y)
  | _ => throw "pt: expected [x, y]"

def ptJ (p : Pt) : Json := Json.arr #[ratJ p.1, ratJ p.2]
def natsJ (l : List Nat) : Json := Json.arr (l.map natJ).toArray

def interpJ (r : Interp) : Json :=
  Json.mkObj [("c", ptJ r.center), ("r", ptJ r.right), ("l", ptJ r.left), ("idx", intJ r.idx)]

def lanelet (j : Json) : P Lanelet := do
  pure ⟨← getNat j "id", ← getList asNat j "pred", ← getList asNat j "succ",
        ← getList pt j "left", ← getList pt j "center", ← getList pt j "right"⟩

def laneletJ (l : Lanelet) : Json :=
  Json.mkObj [("id", natJ l.id), ("pred", natsJ l.pred), ("succ", natsJ l.succ),
    ("left", Json.arr (l.left.map ptJ).toArray), ("center", Json.arr (l.center.map ptJ).toArray),
    ("right", Json.arr (l.right.map ptJ).toArray)]

def node (j : Json) : P Node := do
  pure ⟨← getNat j "id", ← getList asNat j "succ", ← getList asNat j "pred", ← getRat j "len"⟩

def pathsJ (r : CR.Res (List Path)) : Json := resJ (fun ps => Json.arr (ps.map natsJ).toArray) r

def handle (op : String) (a : Json) : P Json := do
  match op with
  | "cum" =>
    let ls ← getList asRat a "lens"
    pure <| Json.arr ((cumDist ls).map ratJ).toArray
  | "euclid" =>
    let c ← getList pt a "center"
    let ls ← getList asRat a "lens"
    pure (Json.bool (isEuclid c ls))
  | "cum_min" =>
    let l1 ← getList asRat a "lens_left"
    let l2 ← getList asRat a "lens_right"
    pure <| Json.arr ((cumDistMin l1 l2).map ratJ).toArray
  | "interp" =>
    let c ← getList pt a "center"
    let r ← getList pt a "right"
    let l ← getList pt a "left"
    let ls ← getList asRat a "lens"
    let ss ← getList asRat a "ss"
    pure <| Json.arr (ss.map fun s => resJ interpJ (interpolate c r l ls s)).toArray
  | "merge" =>
    let l1 ← lanelet (← field a "l1")
    let l2 ← lanelet (← field a "l2")
    pure <| resJ laneletJ (mergeLanelets l1 l2)
  | "merge_chain" =>
    let ls ← getList lanelet a "lanelets"
    match ls with
    | [] => throw "merge_chain: empty"
    | m :: xs => pure <| resJ laneletJ (mergeChain m xs)
  | "routes" =>
    -- one network, many (start, maxLen) queries; answers [succ paths, pred paths] per query
    let g ← getList node a "net"
    let qs ← getList (fun q => do pure (← getNat q "start", ← getRat q "max")) a "queries"
    let mut out : Array Json := #[]
    for (start, mx) in qs do
      out := out.push (Json.arr #[pathsJ (findSuccessorsR g start mx), pathsJ (findPredecessorsR g start mx)])
    pure (Json.arr out)
  | _ => throw s!"C20: unknown op {op}"

end CR.Drv.C20
