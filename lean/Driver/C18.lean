import Driver.Util
import CRModel.Frame
open Lean CR.Drv

namespace CR.Drv.C18
open CR.Frame

/-! decoding -/

def optInt (j : Json) : P (Option Int) :=
  match j with
  | .null => pure none
  | j => some <$> asInt j

def attr (j : Json) : P (String × Option Int) := do
  match ← asArr j with
  | [n, v] => pure (← asStr n, ← optInt v)
  | _ => throw "attr: expected [name, token|null]"

def tstate (j : Json) : P TState := do
  pure { t := ← getInt j "t", oriProp := ← getBool j "op", attrs := ← getList attr j "a" }

def socc (j : Json) : P SOcc := do
  match ← asArr j with
  | [lo, hi, sh] => pure ⟨← asInt lo, ← asInt hi, ← asInt sh⟩
  | _ => throw "socc: expected [lo, hi, shape]"

def pred (j : Json) : P Pred := do
  match j with
  | .null => pure .absent
  | j =>
    match ← getStr j "k" with
    | "set" => pure (.setBased (← getList socc j "occs"))
    | "traj" =>
      let ss ← getList tstate j "states"
      let sh ← getInt j "shape"
      let cached ← getBool j "cache"
      let cache := if cached then (match createOccs sh ss with | .ok c => some c | .error _ => none) else none
      pure (.traj (← getInt j "t1") ss sh cache)
    | k => throw s!"pred: unknown kind {k}"

/-- `_initial_occupancy_shape` as the `initial_state` setter computes it -/
def initRegion (shape : Int) (init : TState) : Region :=
  match occOfState shape init with
  | .ok o => o.region
  | .error _ => .fixed shape

def obstacle (j : Json) : P Obstacle := do
  let id ← getNat j "id"
  match ← getStr j "k" with
  | "static" =>
    let init ← tstate (← field j "init")
    pure (.static id init (initRegion (← getInt j "shape") init))
  | "dynamic" =>
    let init ← tstate (← field j "init")
    let p ← match fieldOpt j "pred" with
      | none => pure Pred.absent
      | some pj => pred pj
    pure (.dynamic id init (initRegion (← getInt j "shape") init) p)
  | "phantom" =>
    let p ← match fieldOpt j "pred" with
      | none => pure Pred.absent
      | some pj => pred pj
    pure (.phantom id p)
  | "env" => pure (.environment id (← getInt j "shape"))
  | k => throw s!"obstacle: unknown kind {k}"

def dynEntry (j : Json) : P (Int × List Nat) := do
  match ← asArr j with
  | [t, ids] => pure (← asInt t, ← listOf asNat ids)
  | _ => throw "dynEntry: expected [t, ids]"

def lanelet (j : Json) : P Lanelet := do
  match ← asArr j with
  | [i, cells] => pure { id := ← asNat i, cells := ← listOf asInt cells }
  | [i, cells, su, pr, st, dy, li] =>
    pure { id := ← asNat i, cells := ← listOf asInt cells, succ := ← listOf asNat su, pred := ← listOf asNat pr,
           staticObs := ← listOf asNat st, dynObs := ← listOf dynEntry dy, lights := ← listOf asNat li }
  | _ => throw "lanelet: expected [id, cells, succ, pred, static, dynamic]"

def elem (j : Json) : P CR.TL.Elem := do
  match ← asArr j with
  | [s, d] => pure (← asNat s, ← asInt d)
  | _ => throw "elem: expected [state, duration]"

def light (j : Json) : P Light := do
  match ← asArr j with
  | [i, es, off, cached, active] =>
    let es ← listOf elem es
    let off ← asInt off
    pure ⟨← asNat i, es, off, if ← asBool cached then some (CR.TL.initSteps es off) else none, ← asBool active⟩
  | _ => throw "light: expected [id, elements, offset, cached, active]"

def item (j : Json) : P (Nat × List Nat) := do
  match ← asArr j with
  | [k, v] => pure (← asNat k, ← listOf asNat v)
  | _ => throw "item: expected [key, ids]"

def tbl (j : Json) : P (Option Tbl) := do
  match j with
  | .null => pure none
  | j =>
    match ← asArr j with
    | [k, items] =>
      let kind ← match ← asStr k with
        | "dict" => pure TblKind.plain
        | "defaultdict" => pure TblKind.dflt
        | s => throw s!"tbl: unknown kind {s}"
      pure (some ⟨kind, ← listOf item items⟩)
    | _ => throw "tbl: expected [kind, items]"

def nameTok (j : Json) : P (String × Int) := do
  match ← asArr j with
  | [n, v] => pure (← asStr n, ← asInt v)
  | _ => throw "nameTok: expected [name, token]"

def keyed (j : Json) : P (Nat × Attrs) := do
  match ← asArr j with
  | [i, a] => pure (← asNat i, ← listOf nameTok a)
  | _ => throw "keyed: expected [id, attrs]"

def extra (j : Json) : P Extra := do
  pure { scenario := ← getList nameTok j "scenario", network := ← getList nameTok j "network",
         obstacles := ← getList keyed j "obstacles", lanelets := ← getList keyed j "lanelets", signs := ← getList keyed j "signs",
         lights := ← getList keyed j "lights", intersections := ← getList keyed j "intersections" }

def problem (j : Json) : P Problem := do
  match ← asArr j with
  | [i, init, g, t] => pure ⟨← asNat i, ← tstate init, ← listOf (listOf nameTok) g, ← tbl t⟩
  | _ => throw "problem: expected [id, initial state, goal states, table]"

def st (j : Json) : P St := do
  let nj ← field j "net"
  let ls ← getList lanelet nj "lanelets"
  pure { obstacles := ← getList obstacle j "obstacles"
         net := ⟨ls, if ← getBool nj "index" then some ls else none⟩
         lights := ← getList light j "lights"
         problems := ← getList problem j "problems"
         extra := ← match fieldOpt j "extra" with
           | some e => extra e
           | none => pure {} }

def query (j : Json) : P (Nat × Int) := do
  match ← asArr j with
  | [i, t] => pure (← asNat i, ← asInt t)
  | _ => throw "query: expected [id, t]"

def role (j : Json) : P (Option Role) :=
  match j with
  | .null => pure none
  | .str "STATIC" => pure (some .static)
  | .str "DYNAMIC" => pure (some .dynamic)
  | .str "Phantom" => pure (some .phantom)
  | .str "ENVIRONMENT" => pure (some .environment)
  | j => throw s!"role: {j}"

def pair (j : Json) : P (Nat × Nat) := do
  match ← asArr j with
  | [a, b] => pure (← asNat a, ← asNat b)
  | _ => throw "pair: expected [a, b]"

def target (j : Json) : P Target :=
  match j with
  | .str "scenario" => pure .scenario
  | .str "pps" => pure .problems
  | .str "net" => pure .net
  | .arr #[.str "obstacle", i] => do pure (.obstacle (← asNat i))
  | .arr #[.str "problem", i] => do pure (.problem (← asNat i))
  | j => throw s!"target: {j}"

def stLoc (j : Json) : P StLoc := do
  match ← getStr j "k" with
  | "foreign" => pure (.foreign (← tstate (← field j "st")))
  | "init" => pure (.obsInit (← getNat j "oid"))
  | "traj" => pure (.obsTraj (← getNat j "oid") (← getNat j "i"))
  | "prob" => pure .probInit
  | k => throw s!"stLoc: {k}"

def trajSrc (j : Json) : P TrajSrc := do
  match ← getStr j "k" with
  | "foreign" => pure (.foreign (← getList tstate j "states"))
  | "own" => pure (.own (← getNat j "oid"))
  | k => throw s!"trajSrc: {k}"

def drawP (j : Json) : P DrawP := do
  pure { scenario := ← getBool j "scenario", tb := ← getInt j "tb", te := ← getInt j "te", drawOcc := ← getBool j "occ",
         drawIcon := ← getBool j "icon", iconIds := ← getList asNat j "iconIds", history := ← getNat j "history" }

def errOf (s : String) : P CR.Err :=
  match s with
  | "assert" => pure .assert | "value" => pure .value | "key" => pure .key | "attr" => pure .attr
  | "type" => pure .type | "zero-div" => pure .zeroDiv | "index" => pure .index | "other" => pure .other
  | s => throw s!"unknown error class {s}"

/-- a decision: true / false / {"err": class} -/
def decision (j : Json) : P (CR.Res Bool) :=
  match j with
  | .bool b => pure (.ok b)
  | j => do pure (.error (← errOf (← getStr j "err")))

def op (j : Json) : P Op := do
  match ← asArr j with
  | [.str "reached", pid, loc, dec] => pure (.reached (← asNat pid) (← stLoc loc) (← listOf decision dec))
  | [.str "goalReached", pid, src, decs] => pure (.goalReached (← asNat pid) (← trajSrc src) (← listOf (listOf decision) decs))
  | [.str "eq", t] => pure (.eq (← target t))
  | [.str "hash", t] => pure (.hash (← target t))
  | [.str "shallowCopy", t] => pure (.shallowCopy (← target t))
  | [.str "byIntervals", t, ins] => pure (.byIntervals (← asInt t) (← listOf asNat ins))
  | [.str "findShape", sh] => pure (.findShape (← asInt sh))
  | [.str "mapObstacles", oids, rel] => pure (.mapObstacles (← listOf asNat oids) (← listOf pair rel))
  | [.str "getObstacles", lid, oids, t, rel] => pure (.getObstacles (← asNat lid) (← listOf asNat oids) (← asInt t) (← listOf pair rel))
  | [.str "dynByTime", lid, t] => pure (.dynByTime (← asNat lid) (← asInt t))
  | [.str "mergeFrom", lid, paths] => pure (.mergeFrom (← asNat lid) (← listOf (listOf asNat) paths))
  | [.str "draw", p] => pure (.draw (← drawP p))
  | [.str "occ", i, t] => pure (.occ (← asNat i) (← asInt t))
  | [.str "state", i, t] => pure (.state (← asNat i) (← asInt t))
  | [.str "occs", t, r] => pure (.occs (← asInt t) (← role r))
  | [.str "statesAt", t] => pure (.statesAt (← asInt t))
  | [.str "occSet", i] => pure (.occSet (← asNat i))
  | [.str "findPos", pts] => pure (.findPos (← listOf asInt pts))
  | [.str "light", i, t] => pure (.light (← asNat i) (← asInt t))
  | [.str "reads", oq, lq] => pure (.reads (← listOf asNat oq) (← listOf asNat lq))
  | [.str "deepcopy"] => pure .deepcopy
  | [.str "pickle"] => pure .pickle
  | [.str "writeXml", b] => pure (.writeXml (← asBool b))
  | [.str "writePb", b] => pure (.writePb (← asBool b))
  | _ => throw s!"op: cannot decode {j}"

/-! encoding -/

def arr (l : List Json) : Json := Json.arr l.toArray

def attrJ (a : String × Option Int) : Json := arr [Json.str a.1, optJ intJ a.2]

def tstateJ (s : TState) : Json :=
  Json.mkObj [("t", intJ s.t), ("op", Json.bool s.oriProp), ("a", arr (s.attrs.map attrJ))]

def predJ : Pred → Json
  | .absent => Json.null
  | .setBased occs => Json.mkObj [("k", "set"), ("occs", arr (occs.map fun o => arr [intJ o.lo, intJ o.hi, intJ o.shape]))]
  | .traj t1 ss sh c => Json.mkObj [("k", "traj"), ("t1", intJ t1), ("shape", intJ sh), ("states", arr (ss.map tstateJ)),
                                     ("cache", Json.bool c.isSome)]

def regionShape : Region → Int
  | .placed sh _ _ => sh
  | .fixed sh => sh

def obstacleJ : Obstacle → Json
  | .static i init r => Json.mkObj [("k", "static"), ("id", natJ i), ("init", tstateJ init), ("shape", intJ (regionShape r))]
  | .dynamic i init r p => Json.mkObj [("k", "dynamic"), ("id", natJ i), ("init", tstateJ init), ("shape", intJ (regionShape r)), ("pred", predJ p)]
  | .phantom i p => Json.mkObj [("k", "phantom"), ("id", natJ i), ("pred", predJ p)]
  | .environment i sh => Json.mkObj [("k", "env"), ("id", natJ i), ("shape", intJ sh)]

def tblJ : Option Tbl → Json
  | none => Json.null
  | some t => arr [Json.str (match t.kind with | .plain => "dict" | .dflt => "defaultdict"),
                   arr (t.items.map fun (k, v) => arr [natJ k, arr (v.map natJ)])]

def attrsJ (a : Attrs) : Json := arr (a.map fun (n, v) => arr [Json.str n, intJ v])

def keyedJ (l : List (Nat × Attrs)) : Json := arr (l.map fun (i, a) => arr [natJ i, attrsJ a])

def extraJ (e : Extra) : Json :=
  Json.mkObj [("scenario", attrsJ e.scenario), ("network", attrsJ e.network), ("obstacles", keyedJ e.obstacles),
              ("lanelets", keyedJ e.lanelets), ("signs", keyedJ e.signs), ("lights", keyedJ e.lights),
              ("intersections", keyedJ e.intersections)]

def stJ (s : St) (withExtra : Bool := true) : Json :=
  Json.mkObj ([
    ("obstacles", arr (s.obstacles.map obstacleJ)),
    ("net", Json.mkObj [("lanelets", arr (s.net.lanelets.map fun l =>
                            arr [natJ l.id, arr (l.cells.map intJ), arr (l.succ.map natJ), arr (l.pred.map natJ), arr (l.staticObs.map natJ),
                                 arr (l.dynObs.map fun (t, ids) => arr [intJ t, arr (ids.map natJ)]), arr (l.lights.map natJ)])),
                         ("index", Json.bool s.net.index.isSome)]),
    ("lights", arr (s.lights.map fun l => arr [natJ l.id, arr (l.es.map fun e => arr [natJ e.1, intJ e.2]), intJ l.off, Json.bool l.cache.isSome, Json.bool l.active])),
    ("problems", arr (s.problems.map fun p => arr [natJ p.id, tstateJ p.init, arr (p.goals.map attrsJ), tblJ p.tbl]))]
    ++ (if withExtra then [("extra", extraJ s.extra)] else []))

def occJ (o : Occ) : Json := arr [intJ o.lo, intJ o.hi]

def namesJ (l : List (String × Int)) : Json := arr (l.map fun a => Json.str a.1)

def fileJ (f : FileAbs) : Json :=
  Json.mkObj [
    ("obstacles", arr (f.obstacles.map fun o =>
      arr [natJ o.id, namesJ o.init, arr (o.states.map fun (t, a) => arr [intJ t, namesJ a]),
           arr (o.occs.map fun c => arr [intJ c.lo, intJ c.hi])])),
    ("problems", arr (f.problems.map fun p => arr [natJ p.id, arr (p.goalLanelets.map fun ids => arr (ids.map natJ))])),
    ("problem_states", arr (f.problems.map fun p => arr [natJ p.id, namesJ p.init, arr (p.goals.map namesJ)])),
    ("lanelets", arr (f.lanelets.map fun l => arr [natJ l.id, arr (l.succ.map natJ), arr (l.pred.map natJ), arr (l.lights.map natJ)])),
    ("lights", arr (f.lights.map fun l => arr [natJ l.id, arr (l.es.map fun e => arr [natJ e.1, intJ e.2]), intJ l.off])),
    ("signs", arr (f.extra.signs.map fun x => natJ x.1)),
    ("intersections", arr (f.extra.intersections.map fun x => natJ x.1))]

def outJ : Out → Json
  | .unit => Json.null
  | .occ o => optJ occJ o
  | .occs l => arr (l.map occJ)
  | .state .none => Json.null
  | .state .init => arr [Json.str "init"]
  | .state (.traj i) => arr [Json.str "traj", natJ i]
  | .ids l => arr (l.map natJ)
  | .idss l => arr (l.map fun x => arr (x.map natJ))
  | .nat n => natJ n
  | .file f => fileJ f
  | .copy s => stJ s
  | .bool b => Json.bool b
  | .reach none => Json.null
  | .reach (some i) => natJ i
  | .mapping m => arr (m.map fun (l, os) => arr [natJ l, arr (os.map natJ)])
  | .regs l => arr (l.map fun r => arr [arr (r.staticObs.map natJ), arr (r.dynObs.map fun (t, ids) => arr [intJ t, arr (ids.map natJ)])])

def handle (opName : String) (a : Json) : P Json := do
  match opName with
  | "trace" =>
    let s ← st (← field a "st")
    let ops ← getList op a "ops"
    -- `sem`: "legacy" / "seeded" run another variant of the code (used for experiments only; the check uses the default)
    let sem : Sem := match fieldOpt a "sem" with
      | some (.str "legacy") => Sem.legacy
      | some (.str "seeded") => Sem.seeded
      | _ => Sem.repaired
    let rec go (ops : List Op) (s : St) (acc : List Json) : List Json :=
      match ops with
      | [] => acc.reverse
      | o :: rest =>
        let r := step (sem := sem) o s
        -- `Extra` is sent with the last step only (no operation of any variant writes it; the harness checks the last one
        -- against the initial one and every implementation view against it)
        go rest r.1 (Json.mkObj [("st", stJ r.1 rest.isEmpty), ("out", resJ outJ r.2)] :: acc)
    pure (arr (go ops s []))
  | "echo" => pure (stJ (← st (← field a "st")))
  | _ => throw s!"C18: unknown op {opName}"

end CR.Drv.C18
