import Driver.Util
import CRModel.Rigid
open Lean CR.Drv CR.Iv CR.Rigid

namespace CR.Drv.C05

/-! JSON shapes (shared with harness/c05.py)
  Pt      [x, y]
  Shape   {"k":"rect","l","w","c":Pt,"th"} | {"k":"circ","r","c"} | {"k":"poly","v":[Pt]} | {"k":"group","s":[Shape]}
  State   {"pos": null | {"pt":Pt} | {"sh":Shape} | {"other":true}, "ori": null | {"x":θ} | {"iv":[lo,hi]} | {"other":true},
           "vel": null | Pt}
  Lanelet {"l":[Pt],"c":[Pt],"r":[Pt],"stop": null | [Pt,Pt], "poly":[Pt]}
  Obst    {"k":"static","body":Shape,"st"}
          | {"k":"dynamic","body","st","traj": null|[State],"pbody": null|Shape,"occ": null|[Shape],"hist":[State]}
          | {"k":"phantom","occ": null|[Shape]} | {"k":"env","sh"}
  Light   {"p":Pt,"lsh": null|Shape}
  Scen    {"lanelets","signs":[Pt],"lights":[Light],"obstacles","areas":[[[Pt]]]}
  Problem {"init":State,"goal":[State]}
  ProblemSet {"goals":[[State]],"problems":[{"init":State,"goal":Nat}]}   (goal = index of the GoalRegion object held)
-/

def ptOf (j : Json) : P Pt := do
  match ← asArr j with
  | [a, b] => pure ⟨← asRat a, ← asRat b⟩
  | _ => throw "point: expected [x, y]"

def ptJ (p : Pt) : Json := Json.arr #[ratJ p.x, ratJ p.y]
def ptsJ (l : List Pt) : Json := Json.arr (l.map ptJ).toArray

partial def shapeOf (j : Json) : P Shape := do
  match ← getStr j "k" with
  | "rect" => pure (.rect (← getRat j "l") (← getRat j "w") (← ptOf (← field j "c")) (← getRat j "th"))
  | "circ" => pure (.circ (← getRat j "r") (← ptOf (← field j "c")))
  | "poly" => pure (.poly (← getList ptOf j "v"))
  | "group" => pure (.group (← getList shapeOf j "s"))
  | k => throw s!"unknown shape kind {k}"

partial def shapeJ : Shape → Json
  | .rect l w c θ => Json.mkObj [("k", "rect"), ("l", ratJ l), ("w", ratJ w), ("c", ptJ c), ("th", ratJ θ)]
  | .circ r c => Json.mkObj [("k", "circ"), ("r", ratJ r), ("c", ptJ c)]
  | .poly vs => Json.mkObj [("k", "poly"), ("v", ptsJ vs)]
  | .group ss => Json.mkObj [("k", "group"), ("s", Json.arr (ss.map shapeJ).toArray)]

def optOf {α} (f : Json → P α) (j : Json) (k : String) : P (Option α) :=
  match fieldOpt j k with
  | none => pure none
  | some v => do pure (some (← f v))

def stateOf (j : Json) : P State := do
  let pos ← match fieldOpt j "pos" with
    | none => pure Pos.none
    | some p =>
      match fieldOpt p "pt", fieldOpt p "other" with
      | some q, _ => do pure (Pos.pt (← ptOf q))
      | none, some _ => pure Pos.other
      | none, none => do pure (Pos.region (← shapeOf (← field p "sh")))
  let ori ← match fieldOpt j "ori" with
    | none => pure Ori.none
    | some o =>
      match fieldOpt o "x", fieldOpt o "other" with
      | some x, _ => do pure (Ori.exact (← asRat x))
      | none, some _ => pure Ori.other
      | none, none => do
        match ← asArr (← field o "iv") with
        | [a, b] => pure (Ori.iv ⟨← asRat a, ← asRat b⟩)
        | _ => throw "iv: expected [lo, hi]"
  pure ⟨pos, ori, ← optOf ptOf j "vel"⟩

def stateJ (st : State) : Json :=
  Json.mkObj [
    ("pos", match st.pos with
      | .none => Json.null
      | .pt p => Json.mkObj [("pt", ptJ p)]
      | .region sh => Json.mkObj [("sh", shapeJ sh)]
      | .other => Json.mkObj [("other", Json.bool true)]),
    ("ori", match st.ori with
      | .none => Json.null
      | .exact θ => Json.mkObj [("x", ratJ θ)]
      | .iv i => Json.mkObj [("iv", Json.arr #[ratJ i.lo, ratJ i.hi])]
      | .other => Json.mkObj [("other", Json.bool true)]),
    ("vel", optJ ptJ st.vel)]

def listJ {α} (f : α → Json) (l : List α) : Json := Json.arr (l.map f).toArray

def stopOf (j : Json) : P (Pt × Pt) := do
  match ← asArr j with
  | [a, b] => pure (← ptOf a, ← ptOf b)
  | _ => throw "stop line: expected [start, end]"

def laneletOf (j : Json) : P Lanelet := do
  pure ⟨← getList ptOf j "l", ← getList ptOf j "c", ← getList ptOf j "r", ← optOf stopOf j "stop",
        ← getList ptOf j "poly"⟩

def laneletJ (la : Lanelet) : Json :=
  Json.mkObj [("l", ptsJ la.left), ("c", ptsJ la.center), ("r", ptsJ la.right),
              ("stop", optJ (fun (sl : Pt × Pt) => Json.arr #[ptJ sl.1, ptJ sl.2]) la.stop), ("poly", ptsJ la.poly)]

def obstOf (j : Json) : P Obstacle := do
  match ← getStr j "k" with
  | "static" => pure (.static (← shapeOf (← field j "body")) (← stateOf (← field j "st")))
  | "dynamic" =>
    let body ← shapeOf (← field j "body")
    let st ← stateOf (← field j "st")
    let hist ← getList stateOf j "hist"
    match ← optOf (listOf stateOf) j "traj", ← optOf (listOf shapeOf) j "occ" with
    | some sts, _ => pure (.dynamic body st (.traj (← shapeOf (← field j "pbody")) sts) hist)
    | none, some shs => pure (.dynamic body st (.occ shs) hist)
    | none, none => pure (.dynamic body st .none hist)
  | "phantom" => pure (.phantom (← optOf (listOf shapeOf) j "occ"))
  | "env" => pure (.env (← shapeOf (← field j "sh")))
  | k => throw s!"unknown obstacle kind {k}"

def obstJ : Obstacle → Json
  | .static body st => Json.mkObj [("k", "static"), ("body", shapeJ body), ("st", stateJ st)]
  | .dynamic body st p hist =>
    Json.mkObj [("k", "dynamic"), ("body", shapeJ body), ("st", stateJ st),
                ("traj", match p with | .traj _ sts => listJ stateJ sts | _ => Json.null),
                ("pbody", match p with | .traj b _ => shapeJ b | _ => Json.null),
                ("occ", match p with | .occ shs => listJ shapeJ shs | _ => Json.null),
                ("hist", listJ stateJ hist)]
  | .phantom p => Json.mkObj [("k", "phantom"), ("occ", optJ (listJ shapeJ) p)]
  | .env sh => Json.mkObj [("k", "env"), ("sh", shapeJ sh)]

def lightOf (j : Json) : P Light := do pure ⟨← ptOf (← field j "p"), ← optOf shapeOf j "lsh"⟩
def lightJ (l : Light) : Json := Json.mkObj [("p", ptJ l.pos), ("lsh", optJ shapeJ l.shape)]

def scenOf (j : Json) : P Scenario := do
  pure ⟨← getList laneletOf j "lanelets", ← getList ptOf j "signs", ← getList lightOf j "lights",
        ← getList obstOf j "obstacles", ← getList (listOf (listOf ptOf)) j "areas"⟩

def scenJ (sc : Scenario) : Json :=
  Json.mkObj [("lanelets", listJ laneletJ sc.lanelets), ("signs", ptsJ sc.signs), ("lights", listJ lightJ sc.lights),
              ("obstacles", listJ obstJ sc.obstacles), ("areas", listJ (listJ ptsJ) sc.areas)]

def probOf (j : Json) : P Problem := do pure ⟨← stateOf (← field j "init"), ← getList stateOf j "goal"⟩
def probJ (pp : Problem) : Json := Json.mkObj [("init", stateJ pp.init), ("goal", listJ stateJ pp.goal)]

def moOf (a : Json) : P Mo := do
  pure ⟨← getRat a "c", ← getRat a "s", ← getRat a "a", ← ptOf (← field a "t"), ← getRat a "tau"⟩

/-- one loose object `{"kind": ..., "v": ...}` moved by the model function of that kind. -/
def moveOne (m : Mo) (j : Json) : P Json := do
  let v ← field j "v"
  let kind ← getStr j "kind"
  match kind with
  | "points" => do          -- transform.translate_rotate (no assertion)
    let l ← listOf ptOf v
    pure (okJ (ptsJ (l.map m.mv)))
  | "areaborder" => do      -- AreaBorder.translate_rotate: plain transform.translate_rotate on the border vertices
    let l ← listOf ptOf v
    pure (okJ (ptsJ (l.map m.mv)))
  | "area" => do            -- Area.translate_rotate: every border (none / empty list: nothing to do)
    let ls ← listOf (listOf ptOf) v
    pure (okJ (listJ ptsJ (ls.map (List.map m.mv))))
  | "shape" => do
    let sh ← shapeOf v
    pure (resJ shapeJ (Shape.move m sh))
  | "state" => do
    let st ← stateOf v
    pure (resJ stateJ (State.move m st))
  | "trajectory" => do
    let l ← listOf stateOf v
    pure (resJ (listJ stateJ) (moveTraj m l))
  | "occupancy" => do
    let sh ← shapeOf v
    pure (resJ shapeJ (match guard m with | .error e => .error e | .ok _ => Shape.move m sh))
  | "setpred" => do
    let l ← listOf shapeOf v
    pure (resJ (listJ shapeJ) (moveOccs m l))
  | "trajpred" => do           -- {"pbody": Shape, "traj": [State]}
    let b ← shapeOf (← field v "pbody")
    let l ← getList stateOf v "traj"
    pure (resJ (fun (p : Pred) => match p with
                | .traj b' sts => Json.mkObj [("pbody", shapeJ b'), ("traj", listJ stateJ sts)]
                | _ => Json.null) (Pred.move m (.traj b l)))
  | "stopline" => do
    let sl ← stopOf v
    pure (resJ (fun (sl : Pt × Pt) => Json.arr #[ptJ sl.1, ptJ sl.2]) (moveStop m sl))
  | "lanelet" => do
    let la ← laneletOf v
    pure (resJ laneletJ (Lanelet.move m la))
  | "sign" => do
    let p ← ptOf v
    pure (resJ ptJ (movePosition m p))
  | "light" => do
    let l ← lightOf v
    pure (resJ lightJ (Light.move m l))
  | "obstacle" => do
    let o ← obstOf v
    pure (resJ obstJ (Obstacle.move m o))
  | "scenario" => do
    let sc ← scenOf v
    pure (resJ scenJ (Scenario.move m sc))
  | "goal" => do
    let l ← listOf stateOf v
    pure (resJ (listJ stateJ) (moveStates m l))
  | "problem" => do
    let pp ← probOf v
    pure (resJ probJ (Problem.move m pp))
  | "problems" => do
    let l ← listOf probOf v
    pure (resJ (listJ probJ) (moveProblems m l))
  | "problemset" => do      -- the set as objects: {"goals": [[State]] (one entry per GoalRegion OBJECT), "problems": [{"init", "goal": index}]}
    let goals ← getList (listOf stateOf) v "goals"
    let probs ← getList (fun j => do pure ((← stateOf (← field j "init")), (← getNat j "goal"))) v "problems"
    if probs.any (fun p => p.2 ≥ goals.length) then throw "C05: problemset: goal index out of range"
    pure (resJ (listJ probJ) (match ProblemSet.move m ⟨goals, probs⟩ with | .error e => .error e | .ok ps' => .ok ps'.view))
  | k => throw s!"C05: unknown object kind {k}"

def handle (op : String) (a : Json) : P Json := do
  match op with
  | "move" =>
    -- {"c","s","a","t","tau","objs":[{"kind","v"}, ...]}  ->  [result per object]
    let m ← moOf a
    let objs ← asArr (← field a "objs")
    pure <| Json.arr (← objs.mapM (moveOne m)).toArray
  | "place" =>
    -- occupancy of a polygon body at a state: {"ct","st","o":Pt,"pos":Pt,"ring":[Pt]} -> polygon vertices
    pure <| resJ ptsJ (placePolygon (← getRat a "ct") (← getRat a "st") (← ptOf (← field a "o")) (← ptOf (← field a "pos"))
                         (← getList ptOf a "ring"))
  | "poly_mk" => pure <| resJ ptsJ (polyMk (← getList ptOf a "v"))
  | _ => throw s!"C05: unknown op {op}"

end CR.Drv.C05
