import Driver.Util
import CRModel.IdPool
open Lean CR.Drv CR.IdPool

namespace CR.Drv.C09

def nats (j : Json) (k : String) : P (List Nat) := getList asNat j k

def lanelet (j : Json) : P Lanelet := do
  pure { id := ← getNat j "id", signs := ← nats j "signs", lights := ← nats j "lights" }

def inter (j : Json) : P Inter := do
  pure { id := ← getNat j "id", incs := ← nats j "incs" }

def net (j : Json) : P Net := do
  pure { lanelets := ← getList lanelet j "lanelets", signs := ← nats j "signs", lights := ← nats j "lights",
         inters := ← getList inter j "inters" }

def obj (j : Json) : P Obj := do
  match ← getStr j "k" with
  | "static" => pure (.obstacle .stat (← getNat j "id"))
  | "dynamic" => pure (.obstacle .dyn (← getNat j "id"))
  | "env" => pure (.obstacle .env (← getNat j "id"))
  | "phantom" => pure (.obstacle .phan (← getNat j "id"))
  | "static_on" => pure (.obstacleOn .stat (← getNat j "id") (← nats j "on"))
  | "dynamic_on" => pure (.obstacleOn .dyn (← getNat j "id") (← nats j "on"))
  | "lanelet" => pure (.lanelet (← lanelet j))
  | "sign" => pure (.sign (← getNat j "id"))
  | "light" => pure (.light (← getNat j "id"))
  | "inter" => pure (.inter (← inter j))
  | "network" => pure (.network (← net j))
  | "invalid" => pure .invalid
  | k => throw s!"C09: unknown object kind {k}"

def op (j : Json) : P Op := do
  match ← getStr j "op" with
  | "add" => pure (.add (← obj (← field j "obj")) (← nats j "refs"))
  | "add_list" => pure (.addList (← getList obj j "objs") (← nats j "refs"))
  | "rm_obstacle" => pure (.removeObstacle (← getNat j "id"))
  | "rm_obstacle_list" => pure (.removeObstacles (← nats j "ids"))
  | "rm_lanelet" => pure (.removeLanelets [← lanelet (← field j "l")] (← getBool j "refd"))
  | "rm_lanelet_list" => pure (.removeLanelets (← getList lanelet j "ls") (← getBool j "refd"))
  | "rm_sign" => pure (.removeSign (← getNat j "id"))
  | "rm_sign_list" => pure (.removeSigns (← nats j "ids"))
  | "rm_light" => pure (.removeLight (← getNat j "id"))
  | "rm_light_list" => pure (.removeLights (← nats j "ids"))
  | "rm_inter" => pure (.removeInter (← inter (← field j "i")))
  | "rm_inter_list" => pure (.removeInters (← getList inter j "is"))
  | "replace_net" => pure (.replaceNet (← net (← field j "net")))
  | "gen" => pure .genId
  | "erase" => pure .eraseNet
  | "rm_hanging" => pure (.removeHanging (← getList lanelet j "ls"))
  | "set_refs" => pure (.setRefs (← getNat j "id") (← nats j "signs") (← nats j "lights"))
  | k => throw s!"C09: unknown operation {k}"

def natsJ (l : List Nat) : Json := Json.arr (l.map natJ).toArray

def outJ : Out → Json
  | .ok => Json.str "ok"
  | .err e => errJ e
  | .id n => Json.mkObj [("id", natJ n)]

def stJ (s : St) : Json :=
  Json.mkObj [
    ("idset", natsJ s.idSet),
    ("counter", optJ natJ s.counter),
    ("lanelets", Json.arr (s.net.lanelets.map fun l => Json.arr #[natJ l.id, natsJ l.signs, natsJ l.lights]).toArray),
    ("signs", natsJ s.net.signs),
    ("lights", natsJ s.net.lights),
    ("inters", Json.arr (s.net.inters.map fun i => Json.arr #[natJ i.id, natsJ i.incs]).toArray),
    ("static", natsJ s.stat), ("dynamic", natsJ s.dyn), ("env", natsJ s.env), ("phantom", natsJ s.phan)]

/-- lock-step trace: outcome and state after every operation, from the empty scenario. -/
def trace : St → List Op → List Json
  | _, [] => []
  | s, o :: os =>
    let r := step s o
    Json.mkObj [("out", outJ r.2), ("st", stJ r.1)] :: trace r.1 os

def handle (opName : String) (a : Json) : P Json := do
  match opName with
  | "run" =>
    let ops ← getList op a "ops"
    pure <| Json.arr (trace CR.IdPool.init ops).toArray
  | _ => throw s!"C09: unknown op {opName}"

end CR.Drv.C09
