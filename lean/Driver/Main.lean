/-
  crdriver — one JSON array per input line: [property, op, args]; one JSON value per output line.
  {"fatal": msg} means the driver could not interpret the line (never a model verdict).
-/
import Driver.C03
import Driver.C08
import Driver.C16
import Driver.C17
open Lean CR.Drv

def dispatch (prop op : String) (a : Json) : P Json :=
  match prop with
  | "C03" => C03.handle op a
  | "C08" => C08.handle op a
  | "C16" => C16.handle op a
  | "C17" => C17.handle op a
  | _ => throw s!"unknown property {prop}"

def handleLine (line : String) : String :=
  match Json.parse line with
  | .error e => (Json.mkObj [("fatal", Json.str s!"parse: {e}")]).compress
  | .ok j =>
    match j with
    | .arr #[.str prop, .str op, a] =>
      match dispatch prop op a with
      | .ok r => r.compress
      | .error e => (Json.mkObj [("fatal", Json.str e)]).compress
    | _ => (Json.mkObj [("fatal", Json.str "expected [prop, op, args]")]).compress

partial def loop (hin hout : IO.FS.Stream) : IO Unit := do
  let line ← hin.getLine
  if line.isEmpty then return ()
  let l := line.trimAscii.toString
  if l.isEmpty then loop hin hout else
  hout.putStrLn (handleLine l)
  hout.flush
  loop hin hout

def main : IO Unit := do
  loop (← IO.getStdin) (← IO.getStdout)
