import Driver.Util
import CRModel.WriterSM
open Lean CR.Drv CR.Writer

namespace CR.Drv.C15

def fmtOf (j : Json) : P Writer.Format := do
  match ← asStr j with
  | "xml" => pure .xml
  | "pb" => pure .pb
  | s => throw s!"format: {s}"

def kindOf (j : Json) : P Kind := do
  match ← asStr j with
  | "full" => pure .full
  | "scenario" => pure .scenarioOnly
  | s => throw s!"kind: {s}"

def modeOf (j : Json) : P Mode := do
  match ← asStr j with
  | "ask" => pure .ask
  | "always" => pure .always
  | "skip" => pure .skip
  | s => throw s!"mode: {s}"

def fmtJ : Writer.Format → Json
  | .xml => "xml"
  | .pb => "pb"

def errOf (s : String) : P CR.Err :=
  match s with
  | "assert" => pure .assert | "value" => pure .value | "key" => pure .key | "attr" => pure .attr
  | "type" => pure .type | "zero-div" => pure .zeroDiv | "index" => pure .index | "other" => pure .other
  | x => throw s!"error class: {x}"

def optErr (j : Json) (k : String) : P (Option CR.Err) :=
  match fieldOpt j k with
  | none => pure none
  | some v => do pure (some (← errOf (← asStr v)))

/-- {"id", "name", "xmlErr"?: class, "pbErr"?: class} — the error classes: the planning problems cannot be written -/
def inputOf (j : Json) : P SInput := do
  let hasPP ← (match fieldOpt j "hasPP" with
    | none => pure true
    | some v => asBool v : P Bool)
  pure { id := ← getNat j "id", name := ← getStr j "name", hasPP := hasPP, xmlErr := ← optErr j "xmlErr",
         pbErr := ← optErr j "pbErr" }

def answerOf (j : Json) : P Answer := do
  match ← asStr j with
  | "n" => pure .n
  | "other" => pure .other
  | "eof" => pure .eof
  | s => throw s!"answer: {s}"

/-- ["new", fmt, input index, precision] | ["write", writer index, kind, file|null, mode, answer, date] | ["setglobal", g] -/
def opOf (inputs : List SInput) (j : Json) : P (Op SInput String) := do
  match ← asArr j with
  | [t, g] =>
    if (← asStr t) != "setglobal" then throw "op: expected setglobal" else
    pure (.setGlobal (← asNat g))
  | [t, a, b, c] =>
    if (← asStr t) != "new" then throw "op: expected new" else
    let k ← asNat b
    match inputs[k]? with
    | none => throw s!"op: no input {k}"
    | some inp => pure (.new (← fmtOf a) inp (← asNat c))
  | [t, w, k, f, m, ans, d] =>
    if (← asStr t) != "write" then throw "op: expected write" else
    let file ← (match f with
      | .null => pure none
      | v => do pure (some (← asStr v)) : P (Option String))
    pure (.write (← asNat w) (← kindOf k) file (← modeOf m) (← answerOf ans) (← asStr d))
  | _ => throw "op: bad arity"

def nodeJ (n : SNode) : Json := Json.arr #[Json.bool n.pp, natJ n.inp, natJ n.prec]

def bytesJ : SBytes → Json
  | .file f i d ns => Json.mkObj [("fmt", fmtJ f), ("inp", natJ i), ("date", optJ Json.str d),
                                  ("nodes", Json.arr (ns.map nodeJ).toArray)]
  | .foreign k => Json.mkObj [("foreign", natJ k)]

def contentJ (x : SContent) : Json := Json.arr #[fmtJ x.fmt, natJ x.inp, Json.bool x.pp, natJ x.prec]

/-- a produced file is reported with what the model's reader makes of it (`null`: the reader raises) and with its
    content "date stamp aside" -/
def outcomeJ : Outcome SBytes → Json
  | .created i => Json.mkObj [("created", natJ i)]
  | .done => "done"
  | .skipped => "skipped"
  | .wrote p b => Json.mkObj [("wrote", Json.arr #[Json.str p, bytesJ b]), ("read", optJ contentJ (symCodec.read b)),
                              ("erased", bytesJ (symCodec.eraseDate b))]
  | .failed e => errJ e

def preOf (j : Json) : P (String × Nat) := do
  match ← asArr j with
  | [p, k] => pure (← asStr p, ← asNat k)
  | _ => throw "pre: expected [path, k]"

def handle (op : String) (a : Json) : P Json := do
  match op with
  | "run" =>
    let sem ← (match fieldOpt a "sem" with
      | none => pure repaired
      | some s => do
        match ← asStr s with
        | "repaired" => pure repaired
        | "legacy" => pure legacy
        | x => throw s!"sem: {x}" : P Sem)
    let inputs ← getList inputOf a "inputs"
    let pre ← getList preOf a "pre"
    let ops ← getList (opOf inputs) a "ops"
    let paths ← getList asStr a "paths"
    let fs0 : String → Option SBytes := fun q => (pre.find? (·.1 == q)).map (fun e => .foreign e.2)
    let bad ← (match fieldOpt a "unwritable" with
      | none => pure []
      | some v => listOf asStr v : P (List String))
    let st0 : St SInput SNode SBytes String :=
      { gprec := ← getNat a "gprec", fs := fs0, unwritable := fun q => bad.contains q, ws := [] }
    let r := run sem symCodec st0 ops
    pure <| Json.mkObj [
      ("outcomes", Json.arr (r.2.map outcomeJ).toArray),
      ("fs", Json.arr (paths.map fun p => optJ bytesJ (r.1.fs p)).toArray),
      ("gprec", natJ r.1.gprec),
      ("gprecs", Json.arr ((runGprecs sem symCodec st0 ops).map natJ).toArray),
      ("roots", Json.arr (r.1.ws.map fun w => natJ w.root.length).toArray)]
  | _ => throw s!"C15: unknown op {op}"

end CR.Drv.C15
