import Driver.Util
import CRModel.XsdModel
import CRModel.XmlNum
import CRModel.CRXmlW
import CRModel.CRXmlWDoc
import CRModel.CRXmlWOk
import Gen.XsdScenario
open Lean CR.Drv

namespace CR.Drv.C03
open CR.Xsd

/-- `["name", {"attr": "value", ...}, "text", [children]]` -/
partial def xml (j : Json) : P Xml := do
  match ← asArr j with
  | [n, a, t, ks] =>
    let name ← asStr n
    let attrs ← match a with
      | .obj kvs => kvs.toList.mapM (fun (k, v) => do pure (k, ← asStr v))
      | _ => throw "xml: attributes must be an object"
    let text ← asStr t
    let kids ← (← asArr ks).mapM xml
    pure (.node name attrs text.toList kids)
  | _ => throw "xml: expected [name, attrs, text, kids]"

def strJ (s : Str) : Json := Json.str (String.ofList s)
def namesJ (l : List String) : Json := Json.arr (l.map Json.str).toArray

def schema : Schema := CR.Xsd.Gen.schema

def shapeK (j : Json) : P CR.XmlW.ShapeK := do
  match ← asStr j with
  | "rectangle" => pure .rectangle
  | "circle" => pure .circle
  | "polygon" => pure .polygon
  | s => throw s!"shape kind {s}"

def kids (b : String) (a : Json) : P (List String) := do
  let n (k : String) := getNat a k
  let f (k : String) := getBool a k
  match b with
  | "point" => pure (CR.XmlW.pointKids (← f "z"))
  | "rectangle" => pure (CR.XmlW.rectangleKids (← f "dyn") (← f "ori") (← f "ctr"))
  | "circle" => pure (CR.XmlW.circleKids (← f "dyn") (← f "ctr"))
  | "polygon" => pure (CR.XmlW.polygonKids (← n "n"))
  | "shape" => pure (CR.XmlW.shapeKids (← getList shapeK a "kinds"))
  | "bound" => pure (CR.XmlW.boundKids (← n "n") (← f "marking"))
  | "lanelet" => pure (CR.XmlW.laneletKids
      { nPred := ← n "pred", nSucc := ← n "succ", adjL := ← f "adjl", adjR := ← f "adjr", stop := ← f "stop",
        nTypes := ← n "types", nOneWay := ← n "oneway", nBidir := ← n "bidir", nSigns := ← n "signs", nLights := ← n "lights" })
  | "stopLine" => pure (CR.XmlW.stopLineKids (← f "points") (← f "marking") (← n "signs") (← n "lights"))
  | "trafficSign" => pure (CR.XmlW.trafficSignKids (← n "elements") (← f "position") (← f "virtual"))
  | "trafficSignElement" => pure (CR.XmlW.signElementKids (← n "values"))
  | "trafficLight" => pure (CR.XmlW.trafficLightKids (← f "cycle") (← f "position") (← f "direction") (← f "active"))
  | "cycle" => pure (CR.XmlW.cycleKids (← n "n") (← f "offset"))
  | "cycleElement" => pure CR.XmlW.cycleElementKids
  | "incoming" => pure (CR.XmlW.incomingKids (← n "in") (← n "right") (← n "straight") (← n "left") (← f "leftOf"))
  | "intersection" => pure (CR.XmlW.intersectionKids (← n "incomings") (← f "crossing"))
  | "crossing" => pure (CR.XmlW.crossingKids (← n "n"))
  | "location" => pure (CR.XmlW.locationKids (← f "geo") (← f "env"))
  | "geoTransformation" => pure CR.XmlW.geoTransformationKids
  | "additionalTransformation" => pure CR.XmlW.additionalTransformationKids
  | "environment" => pure (CR.XmlW.environmentKids (← f "time") (← f "weather") (← f "underground"))
  | "staticObstacle" => pure CR.XmlW.staticObstacleKids
  | "environmentObstacle" => pure CR.XmlW.environmentObstacleKids
  | "dynamicObstacle" =>
    let p ← match ← getStr a "pred" with
      | "none" => pure CR.XmlW.Pred.none
      | "trajectory" => pure CR.XmlW.Pred.trajectory
      | "occupancySet" => pure CR.XmlW.Pred.occupancySet
      | s => throw s!"pred {s}"
    pure (CR.XmlW.dynamicObstacleKids (← f "signal0") p (← f "series"))
  | "phantomObstacle" => pure (CR.XmlW.phantomObstacleKids (← f "setBased"))
  | "occupancy" => pure CR.XmlW.occupancyKids
  | "trajectory" => pure (CR.XmlW.trajectoryKids (← n "n"))
  | "occupancySet" => pure (CR.XmlW.occupancySetKids (← n "n"))
  | "signalSeries" => pure (CR.XmlW.signalSeriesKids (← n "n"))
  | "value" => pure (CR.XmlW.valueKids (← f "interval"))
  | "signalState" => pure (CR.XmlW.signalStateKids (← f "horn") (← f "il") (← f "ir") (← f "bl") (← f "hz") (← f "fb"))
  | "state" => pure (CR.XmlW.stateKids (← getList asStr a "attrs"))
  | "planningProblem" => pure (CR.XmlW.planningProblemKids (← n "goals"))
  | "scenarioTags" => pure (CR.XmlW.tagKids (← getList asStr a "tags"))
  | "commonRoad" => pure (CR.XmlW.rootKids
      { nLanelets := ← n "lanelets", nSigns := ← n "signs", nLights := ← n "lights", nIntersections := ← n "intersections",
        nStatic := ← n "static", nDynamic := ← n "dynamic", nPhantom := ← n "phantom", nEnvironment := ← n "environment",
        nProblems := ← n "problems" })
  | _ => throw s!"C03 kids: unknown builder {b}"

/-! ### decoding the document data of op `tree` (harness/c03.py: doc_data) -/
section Doc
open CR.XmlW

def num (j : Json) : P Num := do
  match ← asArr j with
  | [r, ng, nu, de] => pure { repr := (← asStr r).toList, neg := ← asBool ng, num := ← asNat nu, den := ← asNat de }
  | _ => throw "num: expected [repr, neg, num, den]"

def pt (j : Json) : P Pt := do
  match ← asArr j with
  | [x, y] => pure { x := ← num x, y := ← num y }
  | [x, y, z] => pure { x := ← num x, y := ← num y, z := some (← num z) }
  | _ => throw "pt"

def optOf {α} (f : Json → P α) (j : Json) : P (Option α) :=
  match j with
  | .null => pure none
  | v => do pure (some (← f v))

def getOpt {α} (f : Json → P α) (j : Json) (k : String) : P (Option α) :=
  match fieldOpt j k with
  | none => pure none
  | some v => do pure (some (← f v))

def shape1 (j : Json) : P Shape1 := do
  match ← asArr j with
  | [.str "rect", l, w, o, cx, cy] => pure (.rect (← num l) (← num w) (← num o) (← num cx) (← num cy))
  | [.str "circ", r, cx, cy] => pure (.circ (← num r) (← num cx) (← num cy))
  | [.str "poly", vs] => pure (.poly (← listOf (fun v => do
      match ← asArr v with
      | [x, y] => pure (← num x, ← num y)
      | _ => throw "poly vertex") vs))
  | _ => throw "shape1"

def val (j : Json) : P Val := do
  match ← asArr j with
  | [.str "e", x] => pure (.exact (← num x))
  | [.str "i", a, b] => pure (.interval (← num a) (← num b))
  | _ => throw "val"

def timeV (j : Json) : P TimeV := do
  match ← asArr j with
  | [.str "e", t] => pure (.exact (← asInt t))
  | [.str "i", a, b] => pure (.interval (← asInt a) (← asInt b))
  | _ => throw "timeV"

def pos (j : Json) : P Pos := do
  match ← asArr j with
  | [.str "pt", q] => pure (.point (← pt q))
  | [.str "sh", s] => pure (.shapes (← listOf shape1 s))
  | [.str "ll", l] => pure (.lanelets (← listOf asInt l))
  | _ => throw "pos"

def attr (j : Json) : P Attr := do
  match ← asArr j with
  | [.str "pos", q] => pure (.position (← pos q))
  | [.str "time", t] => pure (.time (← timeV t))
  | [.str "val", n, v] => pure (.value (← asStr n) (← val v))
  | _ => throw "attr"

def state (j : Json) : P (List Attr) := listOf attr j

def signal (j : Json) : P Signal := do
  pure { t := ← getInt j "t", horn := ← getOpt asBool j "horn", il := ← getOpt asBool j "il", ir := ← getOpt asBool j "ir",
         bl := ← getOpt asBool j "bl", hz := ← getOpt asBool j "hz", fb := ← getOpt asBool j "fb" }

def occ (j : Json) : P Occ := do pure { shape := ← getList shape1 j "shape", t := ← timeV (← field j "t") }

def prediction (j : Json) : P Prediction :=
  match j with
  | .null => pure .none
  | v => do
    match ← asArr v with
    | [.str "traj", s] => pure (.traj (← listOf state s))
    | [.str "occ", o] => pure (.occ (← listOf occ o))
    | _ => throw "prediction"

def intBool (j : Json) : P (Int × Bool) := do
  match ← asArr j with
  | [i, b] => pure (← asInt i, ← asBool b)
  | _ => throw "adjacent"

def stopLine (j : Json) : P StopLineD := do
  let pts ← getOpt (fun v => do
    match ← asArr v with
    | [a, b] => pure (← pt a, ← pt b)
    | _ => throw "stop line points") j "pts"
  pure { pts := pts, marking := ← getOpt asStr j "marking", signs := ← getList asInt j "signs", lights := ← getList asInt j "lights" }

def lanelet (j : Json) : P LaneletD := do
  pure { id := ← getInt j "id", left := ← getList pt j "left", right := ← getList pt j "right",
         lmLeft := ← getStr j "lml", lmRight := ← getStr j "lmr", pred := ← getList asInt j "pred",
         succ := ← getList asInt j "succ", adjL := ← getOpt intBool j "adjl", adjR := ← getOpt intBool j "adjr",
         stop := ← getOpt stopLine j "stop", types := ← getList asStr j "types", oneWay := ← getList asStr j "oneway",
         bidir := ← getList asStr j "bidir", signs := ← getList asInt j "signs", lights := ← getList asInt j "lights" }

def sign (j : Json) : P SignD := do
  let els ← getList (fun e => do
    match ← asArr e with
    | [c, i, vs] => pure (← asStr c, ← asStr i, ← listOf asStr vs)
    | _ => throw "sign element") j "elements"
  pure { id := ← getInt j "id", elements := els, pos := ← getOpt pt j "pos", virtual := ← getOpt asBool j "virtual" }

def light (j : Json) : P LightD := do
  let cyc ← getOpt (fun c => do
    let es ← getList (fun e => do
      match ← asArr e with
      | [d, col] => pure (← asInt d, ← asStr col)
      | _ => throw "cycle element") c "elements"
    pure (es, ← getOpt asInt c "offset")) j "cycle"
  pure { id := ← getInt j "id", cycle := cyc, pos := ← getOpt pt j "pos", direction := ← getStr j "direction",
         active := ← getOpt asBool j "active" }

def incoming (j : Json) : P IncomingD := do
  pure { id := ← getInt j "id", lanelets := ← getList asInt j "lanelets", right := ← getList asInt j "right",
         straight := ← getList asInt j "straight", left := ← getList asInt j "left", leftOf := ← getOpt asInt j "leftOf" }

def intersection (j : Json) : P IntersectionD := do
  pure { id := ← getInt j "id", incomings := ← getList incoming j "incomings", crossings := ← getList asInt j "crossings" }

def staticObs (j : Json) : P StaticObs := do
  pure { id := ← getInt j "id", type := ← getStr j "type", shape := ← getList shape1 j "shape", init := ← state (← field j "init") }

def dynObs (j : Json) : P DynObs := do
  pure { id := ← getInt j "id", type := ← getStr j "type", shape := ← getList shape1 j "shape", init := ← state (← field j "init"),
         sig0 := ← getOpt signal j "sig0", pred := ← prediction ((fieldOpt j "pred").getD .null),
         series := ← getList signal j "series" }

def phantomObs (j : Json) : P PhantomObs := do
  pure { id := ← getInt j "id", occ := ← getOpt (listOf occ) j "occ" }

def envObs (j : Json) : P EnvObs := do
  pure { id := ← getInt j "id", type := ← getStr j "type", shape := ← getList shape1 j "shape" }

def problem (j : Json) : P ProblemD := do
  pure { id := ← getInt j "id", init := ← state (← field j "init"), goals := ← getList state j "goals" }

def location (j : Json) : P LocationD := do
  let geo ← getOpt (fun g => do
    pure ({ ref := ← getStr g "ref", x := ← num (← field g "x"), y := ← num (← field g "y"), rot := ← num (← field g "rot"),
            scale := ← num (← field g "scale") } : GeoD)) j "geo"
  let env ← getOpt (fun e => do
    pure ({ hours := ← getNat e "h", minutes := ← getNat e "m", timeOfDay := ← getStr e "tod", weather := ← getStr e "weather",
            underground := ← getStr e "underground" } : EnvD)) j "env"
  pure { geoNameId := ← getInt j "geoNameId", lat := ← num (← field j "lat"), lon := ← num (← field j "lon"), geo := geo, env := env }

def docD (j : Json) : P DocD := do
  pure { precision := ← getNat j "precision", dt := ← num (← field j "dt"),
         author := ← getStr j "author", affiliation := ← getStr j "affiliation", source := ← getStr j "source",
         benchmark := ← getStr j "benchmark", date := ← getStr j "date", location := ← location (← field j "location"),
         tags := ← getList asStr j "tags", lanelets := ← getList lanelet j "lanelets", signs := ← getList sign j "signs",
         lights := ← getList light j "lights", intersections := ← getList intersection j "intersections",
         statics := ← getList staticObs j "statics", dynamics := ← getList dynObs j "dynamics",
         phantoms := ← getList phantomObs j "phantoms", envs := ← getList envObs j "envs",
         problems := ← getList problem j "problems" }

partial def xmlJ : Xml → Json
  | .node n a t ks =>
    Json.arr #[Json.str n, Json.mkObj (a.map fun (k, v) => (k, Json.str v)), Json.str (String.ofList t), Json.arr (ks.map xmlJ).toArray]

end Doc

def handle (op : String) (a : Json) : P Json := do
  match op with
  | "validate" =>
    let d ← xml (← field a "doc")
    let node := d.name == schema.rootName && validNode schema schema.rootType d
    let keys := keysOk schema d
    let refs := refsOk schema d
    pure <| Json.mkObj [("valid", Json.bool (validDoc schema d)), ("node", Json.bool node), ("keys", Json.bool keys),
                        ("refs", Json.bool refs),
                        ("diag", namesJ ((diagNode schema schema.rootType "" d).take 3))]
  | "fmt" =>
    let items ← getList (fun j => do
      match ← asArr j with
      | [r, ng, nu, de, p] => pure ((← asStr r).toList, ← asBool ng, ← asNat nu, ← asNat de, ← asNat p)
      | _ => throw "fmt item") a "items"
    pure <| Json.arr (items.map fun (r, ng, nu, de, p) =>
      Json.arr #[strJ (CR.XmlNum.floatToStr r ng nu de p), strJ (CR.XmlNum.decimalToStr r),
                 Json.bool (CR.XmlNum.isPlainRepr r || CR.XmlNum.isSciRepr r)]).toArray
  | "lex" =>
    let items ← getList (fun j => do
      match ← asArr j with
      | [t, s] => pure (← asStr t, ← asStr s)
      | _ => throw "lex item") a "items"
    pure <| Json.arr (items.map fun (t, s) =>
      match simpleOf schema t with
      | some st => Json.bool (st.accepts s.toList)
      | none => Json.null).toArray
  | "kids" =>
    let items ← getList (fun j => do
      match ← asArr j with
      | [b, args] => kids (← asStr b) args
      | _ => throw "kids item") a "items"
    pure <| Json.arr (items.map namesJ).toArray
  | "tree" =>
    -- the whole document the modelled writer produces from the data, and the model validator's verdict on it
    let d ← docD (← field a "doc")
    let t := CR.XmlW.docNode d
    pure <| Json.mkObj [("tree", xmlJ t), ("valid", Json.bool (validDoc schema t)),
                        ("expressible", Json.bool (decide (CR.C03.Expressible d))), ("why", namesJ (CR.C03.explainDoc d))]
  | "content" =>
    -- does the child-name sequence match the content model of the named type?
    let t ← getStr a "type"
    let ns ← getList asStr a "names"
    pure <| optJ namesJ (matchGroup (schema.content t) ns)
  | _ => throw s!"C03: unknown op {op}"

end CR.Drv.C03
