import Driver.Util
import CRModel.XsdModel
import CRModel.XmlNum
import CRModel.CRXmlW
import Gen.XsdScenario
open Lean CR.Drv

namespace CR.Drv.C03
open CR.Xsd

/-- `["name", {"attr": "value", ...}, "text", [children]]` -/
partial def xml (j : Json) : P Xml := do
  match ← asArr j with
  | [n, a, t, ks] =>
    let name ← asStr n
    let attrs ← match a with
      | .obj kvs => kvs.toList.mapM (fun (k, v) => do pure (k, ← asStr v))
      | _ => throw "xml: attributes must be an object"
    let text ← asStr t
    let kids ← (← asArr ks).mapM xml
    pure (.node name attrs text.toList kids)
  | _ => throw "xml: expected [name, attrs, text, kids]"

def strJ (s : Str) : Json := Json.str (String.ofList s)
def namesJ (l : List String) : Json := Json.arr (l.map Json.str).toArray

def schema : Schema := CR.Xsd.Gen.schema

def shapeK (j : Json) : P CR.XmlW.ShapeK := do
  match ← asStr j with
  | "rectangle" => pure .rectangle
  | "circle" => pure .circle
  | "polygon" => pure .polygon
  | s => throw s!"shape kind {s}"

def kids (b : String) (a : Json) : P (List String) := do
  let n (k : String) := getNat a k
  let f (k : String) := getBool a k
  match b with
  | "point" => pure (CR.XmlW.pointKids (← f "z"))
  | "rectangle" => pure (CR.XmlW.rectangleKids (← f "dyn") (← f "ori") (← f "ctr"))
  | "circle" => pure (CR.XmlW.circleKids (← f "dyn") (← f "ctr"))
  | "polygon" => pure (CR.XmlW.polygonKids (← n "n"))
  | "shape" => pure (CR.XmlW.shapeKids (← getList shapeK a "kinds"))
  | "bound" => pure (CR.XmlW.boundKids (← n "n") (← f "marking"))
  | "lanelet" => pure (CR.XmlW.laneletKids
      { nPred := ← n "pred", nSucc := ← n "succ", adjL := ← f "adjl", adjR := ← f "adjr", stop := ← f "stop",
        nTypes := ← n "types", nOneWay := ← n "oneway", nBidir := ← n "bidir", nSigns := ← n "signs", nLights := ← n "lights" })
  | "stopLine" => pure (CR.XmlW.stopLineKids (← f "points") (← f "marking") (← n "signs") (← n "lights"))
  | "trafficSign" => pure (CR.XmlW.trafficSignKids (← n "elements") (← f "position") (← f "virtual"))
  | "trafficSignElement" => pure (CR.XmlW.signElementKids (← n "values"))
  | "trafficLight" => pure (CR.XmlW.trafficLightKids (← f "cycle") (← f "position") (← f "direction") (← f "active"))
  | "cycle" => pure (CR.XmlW.cycleKids (← n "n") (← f "offset"))
  | "cycleElement" => pure CR.XmlW.cycleElementKids
  | "incoming" => pure (CR.XmlW.incomingKids (← n "in") (← n "right") (← n "straight") (← n "left") (← f "leftOf"))
  | "intersection" => pure (CR.XmlW.intersectionKids (← n "incomings") (← f "crossing"))
  | "crossing" => pure (CR.XmlW.crossingKids (← n "n"))
  | "location" => pure (CR.XmlW.locationKids (← f "geo") (← f "env"))
  | "geoTransformation" => pure CR.XmlW.geoTransformationKids
  | "additionalTransformation" => pure CR.XmlW.additionalTransformationKids
  | "environment" => pure (CR.XmlW.environmentKids (← f "time") (← f "weather") (← f "underground"))
  | "staticObstacle" => pure CR.XmlW.staticObstacleKids
  | "environmentObstacle" => pure CR.XmlW.environmentObstacleKids
  | "dynamicObstacle" =>
    let p ← match ← getStr a "pred" with
      | "none" => pure CR.XmlW.Pred.none
      | "trajectory" => pure CR.XmlW.Pred.trajectory
      | "occupancySet" => pure CR.XmlW.Pred.occupancySet
      | s => throw s!"pred {s}"
    pure (CR.XmlW.dynamicObstacleKids (← f "signal0") p (← f "series"))
  | "phantomObstacle" => pure (CR.XmlW.phantomObstacleKids (← f "setBased"))
  | "occupancy" => pure CR.XmlW.occupancyKids
  | "trajectory" => pure (CR.XmlW.trajectoryKids (← n "n"))
  | "occupancySet" => pure (CR.XmlW.occupancySetKids (← n "n"))
  | "signalSeries" => pure (CR.XmlW.signalSeriesKids (← n "n"))
  | "value" => pure (CR.XmlW.valueKids (← f "interval"))
  | "signalState" => pure (CR.XmlW.signalStateKids (← f "horn") (← f "il") (← f "ir") (← f "bl") (← f "hz") (← f "fb"))
  | "state" => pure (CR.XmlW.stateKids (← getList asStr a "attrs"))
  | "planningProblem" => pure (CR.XmlW.planningProblemKids (← n "goals"))
  | "scenarioTags" => pure (CR.XmlW.tagKids (← getList asStr a "tags"))
  | "commonRoad" => pure (CR.XmlW.rootKids
      { nLanelets := ← n "lanelets", nSigns := ← n "signs", nLights := ← n "lights", nIntersections := ← n "intersections",
        nStatic := ← n "static", nDynamic := ← n "dynamic", nPhantom := ← n "phantom", nEnvironment := ← n "environment",
        nProblems := ← n "problems" })
  | _ => throw s!"C03 kids: unknown builder {b}"

def handle (op : String) (a : Json) : P Json := do
  match op with
  | "validate" =>
    let d ← xml (← field a "doc")
    let node := d.name == schema.rootName && validNode schema schema.rootType d
    let keys := keysOk schema d
    let refs := refsOk schema d
    pure <| Json.mkObj [("valid", Json.bool (validDoc schema d)), ("node", Json.bool node), ("keys", Json.bool keys),
                        ("refs", Json.bool refs),
                        ("diag", namesJ ((diagNode schema schema.rootType "" d).take 3))]
  | "fmt" =>
    let items ← getList (fun j => do
      match ← asArr j with
      | [r, ng, nu, de, p] => pure ((← asStr r).toList, ← asBool ng, ← asNat nu, ← asNat de, ← asNat p)
      | _ => throw "fmt item") a "items"
    pure <| Json.arr (items.map fun (r, ng, nu, de, p) =>
      Json.arr #[strJ (CR.XmlNum.floatToStr r ng nu de p), strJ (CR.XmlNum.decimalToStr r),
                 Json.bool (CR.XmlNum.isPlainRepr r || CR.XmlNum.isSciRepr r)]).toArray
  | "lex" =>
    let items ← getList (fun j => do
      match ← asArr j with
      | [t, s] => pure (← asStr t, ← asStr s)
      | _ => throw "lex item") a "items"
    pure <| Json.arr (items.map fun (t, s) =>
      match simpleOf schema t with
      | some st => Json.bool (st.accepts s.toList)
      | none => Json.null).toArray
  | "kids" =>
    let items ← getList (fun j => do
      match ← asArr j with
      | [b, args] => kids (← asStr b) args
      | _ => throw "kids item") a "items"
    pure <| Json.arr (items.map namesJ).toArray
  | "content" =>
    -- does the child-name sequence match the content model of the named type?
    let t ← getStr a "type"
    let ns ← getList asStr a "names"
    pure <| optJ namesJ (matchGroup (schema.content t) ns)
  | _ => throw s!"C03: unknown op {op}"

end CR.Drv.C03
