import Driver.Util
import CRModel.Cache
open Lean CR.Drv CR.Cache

namespace CR.Drv.C11

def optOf {α} (f : Json → P α) (j : Json) (k : String) : P (Option α) :=
  match fieldOpt j k with
  | none => pure none
  | some v => do pure (some (← f v))

def trajOf (j : Json) : P TrajData := do
  match ← asArr j with
  | [v, t0, steps] => pure ⟨← asNat v, ← asInt t0, ← listOf asInt steps⟩
  | _ => throw "traj: expected [v, t0, [time steps]]"

def ivOf (j : Json) : P (Int × Int) := do
  match ← asArr j with
  | [a, b] => pure (← asInt a, ← asInt b)
  | _ => throw "interval: expected [lo, hi]"

def errOf (j : Json) : P CR.Err := do
  match ← asStr j with
  | "assert" => pure .assert | "value" => pure .value | "key" => pure .key | "attr" => pure .attr | "type" => pure .type
  | "zero-div" => pure .zeroDiv | "index" => pure .index | _ => pure .other

def htokOf (j : Json) : P HTok := do
  match ← asArr j with
  | [b, ms] => pure ⟨← asNat b, ← listOf asNat ms⟩
  | _ => throw "history entry: expected [base, [moves]]"

def predOf (j : Json) : P (Option Pred) := do
  match j with
  | .null => pure none
  | _ =>
    match ← getStr j "k" with
    | "traj" =>
      let p : TPred := { shape := ← getNat j "shape", traj := ← trajOf (← field j "traj"), cache := none }
      let queried ← getBool j "queried"
      pure (some (.traj (if queried then p.occSet.2 else p)))
    | "setb" => pure (some (.setb (← getNat j "v") (← getList ivOf j "ivs")))
    | k => throw s!"pred: unknown kind {k}"

def obsOf (j : Json) : P Obs := do
  let shape ← getNat j "shape"
  let init ← getNat j "init"
  pure { dynamic := ← getBool j "dynamic", shape := shape, init := init, t0 := ← getInt j "t0",
         initOcc := some (shape, init), pred := ← predOf ((fieldOpt j "pred").getD .null),
         sig := ← getNat j "sig", cen := ← getNat j "cen", shp := ← getNat j "shp",
         hist := ← getList htokOf j "hist", sigHist := ← getList asNat j "sigh", cenHist := ← getList asNat j "cenh",
         shpHist := ← getList asNat j "shph" }

def obsOpOf (j : Json) : P ObsOp := do
  match ← asArr j with
  | [.str "set_init", v, t0] => pure (.setInitialState (← asNat v) (← asInt t0))
  | [.str "set_shape"] => pure .setShape
  | [.str "tr", v] => pure (.translateRotate (← asNat v))
  | [.str "set_pred", p] => pure (.setPrediction (← predOf p))
  | [.str "update", v, t0, s, c, p, m] =>
    pure (.updateInitialState (← asNat v) (← asInt t0) (← asNat s) (← asNat c) (← asNat p) (← asInt m))
  | [.str "p_shape", v] => pure (.predSetShape (← asNat v))
  | [.str "p_traj", d] => pure (.predSetTrajectory (← trajOf d))
  | [.str "p_wb"] => pure .predSetWheelbase
  | [.str "p_asg"] => pure .predSetAssignment
  | [.str "p_tr", v] => pure (.predTranslateRotate (← asNat v))
  | [.str "t_tr", v] => pure (.trajTranslateRotate (← asNat v))
  | [.str "t_app", v, t] => pure (.trajAppendState (← asNat v) (← asInt t))
  | [.str "p_occs", v, ivs] => pure (.predSetOccupancies (← asNat v) (← listOf ivOf ivs))
  | [.str "set_meta", a, b, c] => pure (.setMeta (← asNat a) (← asNat b) (← asNat c))
  | [.str "failed", e] => pure (.failed (← errOf e))
  | [.str "q_occ", t] => pure (.qOcc (← asInt t))
  | [.str "q_state", t] => pure (.qState (← asInt t))
  | [.str "q_pocc", t] => pure (.qPredOcc (← asInt t))
  | [.str "q_hist"] => pure .qHist
  | _ => throw s!"obs op: cannot decode {j}"

def obsOpXOf (j : Json) : P ObsOpX := do
  match ← asArr j with
  | [.str "update_rej", k, v, t0, s, c, m] =>
    pure (.updateRejected (← asNat k) (← asNat v) (← asInt t0) (← asNat s) (← asNat c) (← asInt m))
  | _ => pure (.plain (← obsOpOf j))

def natsJ (l : List Nat) : Json := Json.arr (l.map natJ).toArray

def occJ : OccAns → Json
  | .none => Json.arr #[Json.str "none"]
  | .init s st t => Json.arr #[Json.str "init", natJ s, natJ st, intJ t]
  | .traj s tr t => Json.arr #[Json.str "traj", natJ s, natJ tr, intJ t]
  | .setb v t => Json.arr #[Json.str "setb", natJ v, intJ t]

def stJ : StAns → Json
  | .none => Json.arr #[Json.str "none"]
  | .init st => Json.arr #[Json.str "init", natJ st]
  | .traj v t => Json.arr #[Json.str "traj", natJ v, intJ t]

def obsAnsJ : ObsAns → Json
  | .unit => Json.str "ok"
  | .err e => errJ e
  | .occ a => occJ a
  | .st a => stJ a
  | .hist h s c p =>
    Json.mkObj [("h", Json.arr (h.map fun e => Json.arr #[natJ e.base, natsJ e.moves]).toArray), ("s", natsJ s), ("c", natsJ c),
                ("p", natsJ p)]

def lanOf (j : Json) : P Lan := do
  let geo ← getNat j "geo"
  pure { geo := geo, xy := ← getNat j "xy", intr := ← getNat j "intr", is3d := ← getBool j "is3d", poly := some geo,
         dist := ← optOf asNat j "dist", inner := ← optOf asNat j "inner" }

def idLanOf (j : Json) : P (Nat × Lan) := do
  match ← asArr j with
  | [i, l] => pure (← asNat i, ← lanOf l)
  | _ => throw "expected [id, lanelet]"

def idFlagOf (j : Json) : P (Nat × Bool) := do
  match ← asArr j with
  | [i, b] => pure (← asNat i, ← asBool b)
  | _ => throw "expected [id, registered]"

def netOpOf (j : Json) : P NetOp := do
  match ← asArr j with
  | [.str "add", i, l, r] => pure (.add (← asNat i) (← lanOf l) (← asBool r))
  | [.str "add_from", ls] => pure (.addFrom (← listOf idLanOf ls))
  | [.str "remove", i, r] => pure (.remove (← asNat i) (← asBool r))
  | [.str "remove_many", ids] => pure (.removeMany (← listOf idFlagOf ids))
  | [.str "tr", v] => pure (.translateRotate (← asNat v))
  | [.str "to2d", v] => pure (.convert2d (← asNat v))
  | [.str "l_tr", i, v] => pure (.lanTranslateRotate (← asNat i) (← asNat v))
  | [.str "l_to2d", i, v] => pure (.lanConvert2d (← asNat i) (← asNat v))
  | [.str "create_from"] => pure .createFrom
  | [.str "replace", ls] => pure (.replace (← listOf idLanOf ls))
  | [.str "replace_erase", un, ls] => pure (.replaceErase (← listOf asNat un) (← listOf idLanOf ls))
  | [.str "failed", e] => pure (.failed (← errOf e))
  | [.str "deepcopy"] => pure .deepcopy
  | [.str "pickle"] => pure .pickle
  | [.str "q_find"] => pure .qFind
  | [.str "q_poly", i] => pure (.qPoly (← asNat i))
  | [.str "q_dist", i] => pure (.qDist (← asNat i))
  | [.str "q_inner", i] => pure (.qInner (← asNat i))
  | _ => throw s!"net op: cannot decode {j}"

def deriveOf (j : Json) : P Derive := do
  match ← asArr j with
  | [.str "from_list", c] => pure (.fromList (← asBool c))
  | [.str "from_network"] => pure .fromNetwork
  | [.str "deepcopy"] => pure .deepcopy
  | [.str "pickle"] => pure .pickle
  | [.str "add_from"] => pure .addFrom
  | _ => throw s!"derive: cannot decode {j}"

def sideOpOf (j : Json) : P (Side × NetOp) := do
  match ← asArr j with
  | [.str "a", op] => pure (.a, ← netOpOf op)
  | [.str "b", op] => pure (.b, ← netOpOf op)
  | _ => throw s!"duo op: expected [side, op], got {j}"

def lanOpOf (j : Json) : P LanOp := do
  match ← asArr j with
  | [.str "tr", v] => pure (.translateRotate (← asNat v))
  | [.str "to2d", v] => pure (.convert2d (← asNat v))
  | [.str "q_poly"] => pure .qPoly
  | [.str "q_dist"] => pure .qDist
  | [.str "q_inner"] => pure .qInner
  | _ => throw s!"lanelet op: cannot decode {j}"

def netAnsJ : NetAns → Json
  | .unit => Json.str "ok"
  | .bool b => Json.bool b
  | .err e => errJ e
  | .index es => Json.arr (es.map fun p => Json.arr #[natJ p.1, natJ p.2]).toArray
  | .tok v => natJ v

def elemOf (j : Json) : P CR.TL.Elem := do
  match ← asArr j with
  | [s, d] => pure (← asNat s, ← asInt d)
  | _ => throw "elem: expected [state, duration]"

def cycOf (j : Json) : P Cyc := do
  pure { es := ← getList elemOf j "es", off := ← getInt j "off", active := ← getBool j "active" }

def cycOpOf (j : Json) : P CycOp := do
  match ← asArr j with
  | [.str "set_es", es] => pure (.mutate (.setElements (← listOf elemOf es)))
  | [.str "set_off", o] => pure (.mutate (.setOffset (← asInt o)))
  | [.str "set_active", b] => pure (.mutate (.setActive (← asBool b)))
  | [.str "set_dur", i, d] => pure (.mutate (.setDuration (← asNat i) (← asInt d)))
  | [.str "set_state", i, st] => pure (.mutate (.setState (← asNat i) (← asNat st)))
  | [.str "list_edit", es] => pure (.mutate (.listEdit (← listOf elemOf es)))
  | [.str "q", ts] => pure (.q (← listOf asInt ts))
  | [.str "replace", c] => pure (.replace (← cycOf c))
  | _ => throw s!"cycle op: cannot decode {j}"

def rowJ (r : Row) : Json :=
  Json.mkObj [("item", Json.str (reprStr r.item)), ("mut", Json.str (reprStr r.mutator)),
              ("writes", Json.arr (r.writes.map fun f => Json.str (reprStr f)).toArray),
              ("action", Json.str (reprStr r.action)), ("sound", Json.bool r.sound), ("touches", Json.bool r.touches)]

def handle (op : String) (a : Json) : P Json := do
  match op with
  | "obs_run" =>
    let o ← obsOf (← field a "obs")
    let ops ← getList obsOpXOf a "ops"
    pure <| Json.arr ((o.runX ops).1.map obsAnsJ).toArray
  | "net_run" =>
    let ls ← getList idLanOf a "lanelets"
    let built ← getBool a "built"
    let entries := ls.map (fun p => (p.1, p.2.xy))
    -- since fix 790d303 an empty LaneletNetwork() has an (empty) index too, so the tree is always built
    let _ := built
    let n : Net := { lanelets := ls, buffered := entries, tree := some entries }
    let ops ← getList netOpOf a "ops"
    pure <| Json.arr ((n.run ops).1.map netAnsJ).toArray
  | "duo_run" =>
    -- a network, operations on it alone (`pre`), the derivation of a second network, operations on the two
    let ls ← getList idLanOf a "lanelets"
    let entries := ls.map (fun p => (p.1, p.2.xy))
    let n : Net := { lanelets := ls, buffered := entries, tree := some entries }
    let pre ← getList netOpOf a "pre"
    let r := n.run pre
    let dv ← deriveOf (← field a "derive")
    let ops ← getList sideOpOf a "ops"
    pure <| Json.arr ((r.1 ++ ((Duo.derive r.2 dv).run ops).1).map netAnsJ).toArray
  | "lan_run" =>
    let l ← lanOf (← field a "lan")
    let ops ← getList lanOpOf a "ops"
    pure <| Json.arr ((l.run ops).1.map netAnsJ).toArray
  | "cyc_run" =>
    let c ← cycOf a
    let ops ← getList cycOpOf a "ops"
    let out := (cycRun ⟨c, none⟩ ops).1
    pure <| Json.arr (out.map fun rs => Json.arr (rs.map (resJ natJ)).toArray).toArray
  | "table" =>
    pure <| Json.mkObj [("rows", Json.arr (table.map rowJ).toArray),
      ("unsound", Json.arr (unsoundPairs.map fun p => Json.arr #[Json.str (reprStr p.1), Json.str (reprStr p.2)]).toArray)]
  | _ => throw s!"C11: unknown op {op}"

end CR.Drv.C11
