import Driver.Util
import CRModel.Occupancy
import CRModel.Place
open Lean CR.Drv CR.Occ

namespace CR.Drv.C04

def tsOf (j : Json) : P TS := do
  match ← asArr j with
  | [s] => pure (.step (← asInt s))
  | [lo, hi] => pure (.ival (← asInt lo) (← asInt hi))
  | _ => throw "TS: expected [step] or [lo, hi]"

def predOf (j : Json) : P Pred := do
  match ← getStr j "k" with
  | "none" => pure .none
  | "traj" => pure (.traj (← getInt j "t0") (← getList asInt j "ts"))
  | "set" => pure (.setBased (← getList tsOf j "occs"))
  | k => throw s!"pred kind {k}"

def obstOf (j : Json) : P Obst := do
  match ← getStr j "k" with
  | "static" => pure (.static (← getInt j "t0"))
  | "dynamic" => pure (.dynamic (← getInt j "t0") (← predOf (← field j "pred")))
  | "phantom" =>
    match fieldOpt j "occs" with
    | none => pure (.phantom none)
    | some o => pure (.phantom (some (← listOf tsOf o)))
  | "env" => pure .environment
  | k => throw s!"obstacle kind {k}"

def occJ : Occ → Json
  | .init => "init"
  | .placed i => Json.arr #["placed", natJ i]
  | .stored i => Json.arr #["stored", natJ i]
  | .shape => "shape"

def stJ : StRef → Json
  | .init => "init"
  | .traj i => Json.arr #["traj", natJ i]

def roleOf (s : String) : P Role :=
  match s with
  | "static" => pure .static | "dynamic" => pure .dynamic | "phantom" => pure .phantom
  | "environment" => pure .environment | _ => throw s!"role {s}"

def ptOf (j : Json) : P CR.Rigid.Pt := do
  match ← asArr j with
  | [x, y] => pure ⟨← asRat x, ← asRat y⟩
  | _ => throw "point: expected [x, y]"

partial def shapeOf (j : Json) : P CR.Rigid.Shape := do
  match ← getStr j "k" with
  | "rect" => pure (.rect (← getRat j "l") (← getRat j "w") (← ptOf (← field j "c")) (← getRat j "o"))
  | "circ" => pure (.circ (← getRat j "r") (← ptOf (← field j "c")))
  | "poly" => pure (.poly (← getList ptOf j "v"))
  | "group" => pure (.group (← getList shapeOf j "s"))
  | k => throw s!"shape kind {k}"

def ptJ (p : CR.Rigid.Pt) : Json := Json.arr #[ratJ p.x, ratJ p.y]

partial def shapeJ : CR.Rigid.Shape → Json
  | .rect l w c o => Json.mkObj [("k", "rect"), ("l", ratJ l), ("w", ratJ w), ("c", ptJ c), ("o", ratJ o)]
  | .circ r c => Json.mkObj [("k", "circ"), ("r", ratJ r), ("c", ptJ c)]
  | .poly vs => Json.mkObj [("k", "poly"), ("v", Json.arr (vs.map ptJ).toArray)]
  | .group ss => Json.mkObj [("k", "group"), ("s", Json.arr (ss.map shapeJ).toArray)]

def mutOf (j : Json) : P Mut := do
  match ← getStr j "m" with
  | "set_initial" => pure (.setInitial (← getInt j "t"))
  | "set_prediction" => pure (.setPrediction (← predOf (← field j "pred")))
  | "set_phantom" =>
    match fieldOpt j "occs" with
    | none => pure (.setPhantom none)
    | some o => pure (.setPhantom (some (← listOf tsOf o)))
  | "update_initial" => pure (.updateInitial (← getInt j "t"))
  | "keep" => pure .keep
  | k => throw s!"mutation {k}"

def roleOptOf (a : Json) (k : String) : P (Option Role) :=
  match fieldOpt a k with
  | none => pure none
  | some r => do pure (some (← roleOf (← asStr r)))

/-- answers of one `query` step of a scenario history -/
def scnQuery (s : Scn) (a : Json) : P Json := do
  let t ← getInt a "t"
  let role ← roleOptOf a "role"
  let ty ← match fieldOpt a "ty" with
    | none => pure none
    | some r => do pure (some (← asNat r))
  let types ← getList (fun j => do
      match ← asArr j with
      | [i, v] => pure (← asNat i, if v.isNull then none else (v.getNat?).toOption)
      | _ => throw "types: expected [id, ty|null]") a "types"
  let ctrs ← getList (fun j => do
      match ← asArr j with
      | [i, v] => do
        if v.isNull then pure (← asNat i, (none : Option (Rat × Rat)))
        else
          let p ← ptOf v
          pure (← asNat i, some (p.x, p.y))
      | _ => throw "ctrs: expected [id, [x,y]|null]") a "ctrs"
  let roles ← getList (fun j => do roleOf (← asStr j)) a "roles"
  let iv (k : String) : P CR.Iv.I := do
    match ← getList asRat a k with
    | [lo, hi] => pure ⟨lo, hi⟩
    | _ => throw "interval: expected [lo, hi]"
  let obs := s.obstacles
  let tyOf (i : Nat) : Option Nat := ((types.find? (fun x => x.1 == i)).map (fun x => x.2)).join
  let ctr (i : Nat) : Option (Rat × Rat) := ((ctrs.find? (fun x => x.1 == i)).map (fun x => x.2)).join
  pure <| Json.mkObj [
    ("order", Json.arr ((obs.map fun x => natJ x.1).toArray)),
    ("occs", resJ (fun l => Json.arr ((l.map fun (i, oc) => Json.arr #[natJ i, occJ oc]).toArray)) (occupanciesAtChk obs t role)),
    ("states", resJ (fun l => Json.arr ((l.map fun (i, st) => Json.arr #[natJ i, stJ st]).toArray)) (statesAtChk obs t)),
    ("by_role_type", Json.arr ((byRoleType (obs.map fun (i, o) => (i, o, tyOf i)) role ty).map natJ).toArray),
    ("by_position", Json.arr ((byPosition obs ctr (← iv "ix") (← iv "iy") roles t).map natJ).toArray)]

def idObstOf (j : Json) : P (Nat × Obst) := do pure (← getNat j "id", ← obstOf (← field j "obst"))

def handle (op : String) (a : Json) : P Json := do
  match op with
  | "history" =>
    let o ← obstOf (← field a "obst")
    let ms ← getList mutOf a "muts"
    let ts ← getList asInt a "ts"
    let o' := o.run ms
    pure <| Json.arr (ts.map fun t =>
      Json.mkObj [("occ", optJ occJ (occupancyAt o' t)), ("st", optJ stJ (stateAt o' t))]).toArray
  | "scn" =>
    let used ← getList asNat a "used"
    let ops ← getList pure a "ops"
    let mut s : Scn := { used := used }
    let mut out : Array Json := #[]
    for j in ops do
      match ← getStr j "op" with
      | "add" =>
        let (i, o) ← idObstOf j
        match s.add i o with
        | .ok s' => s := s'; out := out.push (okJ Json.null)
        | .error e => out := out.push (errJ e)
      | "add_many" =>
        let items ← getList idObstOf j "items"
        let r := s.addMany items
        s := r.1
        out := out.push (if r.2 then okJ Json.null else errJ .value)
      | "remove" =>
        s := s.remove (← getNat j "id"); out := out.push (okJ Json.null)
      | "mutate" =>
        s := s.mutate (← getNat j "id") (← mutOf (← field j "mut")); out := out.push (okJ Json.null)
      | "query" => out := out.push (← scnQuery s j)
      | k => throw s!"scn op {k}"
    pure (Json.arr out)
  | "place" =>
    let sh ← shapeOf (← field a "shape")
    pure <| shapeJ (CR.Place.place (← getRat a "c") (← getRat a "s") (← getRat a "a") (← getRat a "tau") (← ptOf (← field a "t")) sh)
  | "obstacle_at" =>
    let o ← obstOf (← field a "obst")
    let ts ← getList asInt a "ts"
    pure <| Json.arr (ts.map fun t =>
      Json.mkObj [("occ", optJ occJ (occupancyAt o t)), ("st", optJ stJ (stateAt o t))]).toArray
  | "scenario" =>
    let obs ← getList (fun j => do
      let ty : Option Nat ← match fieldOpt j "ty" with
        | none => pure none
        | some v => do pure (some (← asNat v))
      pure (← getNat j "id", ← obstOf (← field j "obst"), ty)) a "obs"
    let t ← getInt a "t"
    let role ← match fieldOpt a "role" with
      | none => pure none
      | some r => do pure (some (← roleOf (← asStr r)))
    let ty ← match fieldOpt a "ty" with
      | none => pure none
      | some r => do pure (some (← asNat r))
    let obs2 := obs.map fun (i, o, _) => (i, o)
    pure <| Json.mkObj [
      ("occs", Json.arr ((occupanciesAt obs2 t role).map fun (i, oc) => Json.arr #[natJ i, occJ oc]).toArray),
      ("states", Json.arr ((statesAt obs2 t).map fun (i, s) => Json.arr #[natJ i, stJ s]).toArray),
      ("by_role_type", Json.arr ((byRoleType obs role ty).map natJ).toArray)]
  | "by_position" =>
    let obs ← getList (fun j => do
      let c : Option (Rat × Rat) ← match fieldOpt j "c" with
        | none => pure none
        | some v => do
          let p ← ptOf v
          pure (some (p.x, p.y))
      pure (← getNat j "id", ← obstOf (← field j "obst"), c)) a "obs"
    let t ← getInt a "t"
    let roles ← getList (fun j => do roleOf (← asStr j)) a "roles"
    let iv (k : String) : P CR.Iv.I := do
      match ← getList asRat a k with
      | [lo, hi] => pure ⟨lo, hi⟩
      | _ => throw "interval: expected [lo, hi]"
    let ctr (i : Nat) : Option (Rat × Rat) := ((obs.find? (fun x => x.1 == i)).map (fun x => x.2.2)).join
    pure <| Json.arr ((byPosition (obs.map fun (i, o, _) => (i, o)) ctr (← iv "ix") (← iv "iy") roles t).map natJ).toArray
  | _ => throw s!"C04: unknown op {op}"

end CR.Drv.C04
