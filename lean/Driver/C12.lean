import Driver.Util
import CRModel.EqHash
open Lean CR.Drv

namespace CR.Drv.C12
open CR.EqHash

/-- null | number | {"r": "n/d"} | {"s": str} | [ ... ] | {"c": family, "f": [ ... ]} -/
partial def val (j : Json) : P Val := do
  match j with
  | .null => pure .none
  | .num _ => pure (.num (← asRat j))
  | .bool b => pure (.num (if b then 1 else 0))
  | .arr a => do
    let vs ← a.toList.mapM val
    pure (vs.foldr (fun h t => .cons h t) .nil)
  | .str s => pure (.str s)
  | .obj _ =>
    match fieldOpt j "r", fieldOpt j "s", fieldOpt j "c" with
    | some r, _, _ => pure (.num (← asRat r))
    | _, some s, _ => pure (.str (← asStr s))
    | _, _, some c => do
      let f ← val (← field j "f")
      pure (.obj (← asStr c) f)
    | _, _, _ => throw s!"C12: bad value {j.compress}"

def pair (j : Json) : P (Val × Val) := do
  match ← asArr j with
  | [a, b] => pure (← val a, ← val b)
  | _ => throw "C12: expected [x, y]"

def tableJ (row : ClassRow) : Json :=
  let whole := row.wholeHash.isSome
  Json.mkObj [
    ("attrs", Json.arr (row.attrs.map (fun r => Json.str r.name)).toArray),
    ("eq", Json.arr (row.attrs.map (fun r => Json.bool (r.eqK != .skip))).toArray),
    ("hash", Json.arr (row.attrs.map (fun r => Json.bool (whole || r.hashK != .skip))).toArray)]

def handle (op : String) (a : Json) : P Json := do
  match op with
  | "pairs" =>
    let ps ← getList pair a "ps"
    pure <| Json.arr (ps.map fun (x, y) =>
      Json.mkObj [("eq", Json.bool (eqv x y)), ("hash", Json.bool (hashEqv x y))]).toArray
  | "tables" =>
    pure <| Json.mkObj (classes.map fun row => (row.name, tableJ row))
  | _ => throw s!"C12: unknown op {op}"

end CR.Drv.C12
