import Driver.Util
import CRModel.EqHash
import CRModel.HashKey
open Lean CR.Drv

namespace CR.Drv.C12
open CR.EqHash

def cls (s : String) : P Cls :=
  match Cls.ofName? s with
  | some c => pure c
  | none => throw s!"C12: unknown class family {s}"

/-- null | number | {"r": "n/d"} | {"s": str} | [ ... ] | {"c": family, "f": [ ... ]} -/
partial def val (j : Json) : P Val := do
  match j with
  | .null => pure .none
  | .num _ => pure (.num (← asRat j))
  | .bool b => pure (.num (if b then 1 else 0))
  | .arr a => do
    let vs ← a.toList.mapM val
    pure (vs.foldr (fun h t => .cons h t) .nil)
  | .str s => pure (.str s)
  | .obj _ =>
    match fieldOpt j "r", fieldOpt j "s", fieldOpt j "c" with
    | some r, _, _ => pure (.num (← asRat r))
    | _, some s, _ => pure (.str (← asStr s))
    | _, _, some c => do
      let f ← val (← field j "f")
      pure (.obj (← cls (← asStr c)) f)
    | _, _, _ => throw s!"C12: bad value {j.compress}"

def ctr (s : String) : P Ctr :=
  match s with
  | "list" => pure .list | "tuple" => pure .tuple | "set" => pure .set | "frozenset" => pure .frozenset
  | "dict" => pure .dict | "ndarray" => pure .ndarray
  | _ => throw s!"C12: unknown container {s}"

def chain (vs : List PyVal) : PyVal := vs.foldr (fun h t => .cons h t) .nil

/-- typed values: null | {"r"} | {"s"} | {"t": container, "e": [elements]} (dict: elements are [key, value]) |
    {"c": family, "f": [attribute values]} -/
partial def pyval (j : Json) : P PyVal := do
  match j with
  | .null => pure .none
  | .obj _ =>
    match fieldOpt j "r", fieldOpt j "s", fieldOpt j "t", fieldOpt j "c" with
    | some r, _, _, _ => pure (.num (← asRat r))
    | _, some s, _, _ => pure (.str (← asStr s))
    | _, _, some t, _ => do
      let t ← ctr (← asStr t)
      let es ← asArr (← field j "e")
      if t == .dict then
        let items ← es.mapM fun e => do
          match ← asArr e with
          | [k, v] => pure (PyVal.ctr .tuple (chain [← pyval k, ← pyval v]))
          | _ => throw "C12: dict item must be [key, value]"
        pure (.ctr .dict (chain items))
      else
        pure (.ctr t (chain (← es.mapM pyval)))
    | _, _, _, some c => do
      let fs ← asArr (← field j "f")
      pure (.obj (← cls (← asStr c)) (chain (← fs.mapM pyval)))
    | _, _, _, _ => throw s!"C12: bad typed value {j.compress}"
  | _ => throw s!"C12: bad typed value {j.compress}"

def pair (j : Json) : P (Val × Val) := do
  match ← asArr j with
  | [a, b] => pure (← val a, ← val b)
  | _ => throw "C12: expected [x, y]"

def tableJ (c : Cls) : Json :=
  let r := row c
  let whole := r.wholeHash.isSome
  Json.mkObj [
    ("attrs", Json.arr (r.attrs.map (fun a => Json.str a.name)).toArray),
    ("eq", Json.arr (r.attrs.map (fun a => Json.bool (a.eqK != .skip))).toArray),
    ("hash", Json.arr (r.attrs.map (fun a => Json.bool (whole || a.hashK != .skip))).toArray),
    ("hattrs", Json.arr ((hrow c).attrs.map (fun a => Json.str a.name)).toArray),
    ("dynamic", Json.bool r.dynamic),
    ("content", Json.arr ((contentAttrs c).map Json.str).toArray)]

def ctorJ (cr : CtorRow) : Json :=
  Json.mkObj [
    ("cls", Json.str cr.cls), ("family", Json.str cr.family.name),
    ("params", Json.arr (cr.params.map (fun pa => Json.arr #[Json.str pa.1, Json.str pa.2])).toArray)]

def hashOk (x : PyVal) : Json :=
  let typed := match x with
    | .obj c _ => wellTyped c x
    | _ => false
  Json.mkObj [("typed", Json.bool typed), ("ok", Json.bool (hashCompletes x))]

def handle (op : String) (a : Json) : P Json := do
  match op with
  | "pairs" =>
    let ps ← getList pair a "ps"
    pure <| Json.arr (ps.map fun (x, y) =>
      Json.mkObj [("eq", Json.bool (eqv x y)), ("hash", Json.bool (hashEqv x y))]).toArray
  | "hash_ok" =>
    let vs ← getList pyval a "vs"
    pure <| Json.arr (vs.map hashOk).toArray
  | "tables" =>
    pure <| Json.mkObj (Cls.all.map fun c => (c.name, tableJ c))
  | "ctors" =>
    pure <| Json.arr (ctors.map ctorJ).toArray
  | _ => throw s!"C12: unknown op {op}"

end CR.Drv.C12
