import Driver.Util
import CRModel.Assign
import CRModel.AssignGeo
import CRModel.AssignNet
open Lean CR.Drv CR.Assign

namespace CR.Drv.C07

/-- one obstacle of the pool: id, kind, t0, len, lookup table [[t, center ids, shape ids], …] -/
structure ObsJ where
  id : Id
  kind : Kind
  t0 : T
  len : Nat
  look : List (T × List Id × List Id)

def kindOf (s : String) : P Kind :=
  match s with
  | "static" => pure .static
  | "traj" => pure .dynTraj
  | "none" => pure .dynNone
  | "set" => pure .dynSet
  | _ => throw s!"unknown obstacle kind {s}"

def lookOf (j : Json) : P (T × List Id × List Id) := do
  match ← asArr j with
  | [t, c, s] => pure (← asInt t, ← listOf asInt c, ← listOf asInt s)
  | _ => throw "look: expected [t, center ids, shape ids]"

def obsOf (j : Json) : P ObsJ := do
  pure { id := ← getInt j "id", kind := ← kindOf (← getStr j "kind"), t0 := ← getInt j "t0", len := ← getNat j "len",
         look := ← getList lookOf j "look" }

def findObs (os : List ObsJ) (o : Id) : Option ObsJ := os.find? (fun x => x.id = o)

def lookAt (os : List ObsJ) (o : Id) (t : T) : Option (List Id × List Id) :=
  match findObs os o with
  | none => none
  | some x => (x.look.find? (fun e => e.1 = t)).map (·.2)

def envOf (lanelets : List Id) (os : List ObsJ) : Env :=
  { lanelets := lanelets
    kind := fun o => ((findObs os o).map (·.kind)).getD .static
    t0 := fun o => ((findObs os o).map (·.t0)).getD 0
    len := fun o => ((findObs os o).map (·.len)).getD 0
    cen := fun o t => ((lookAt os o t).map (·.1)).getD []
    shp := fun o t => ((lookAt os o t).map (·.2)).getD [] }

def optOf {α} (f : Json → P α) (j : Json) : P (Option α) :=
  match j with
  | .null => pure none
  | v => do pure (some (← f v))

def opOf (j : Json) : P Op := do
  match ← asArr j with
  | [.str "add", o] => pure (.add (← asInt o))
  | [.str "remove", o] => pure (.remove (← asInt o))
  | [.str "assign", ids, ts, co] => pure (.assign (← optOf (listOf asInt) ids) (← optOf (listOf asInt) ts) (← asBool co))
  | [.str "reopen", .str "xml"] => pure .reopenXml
  | [.str "reopen", .str "pb"] => pure .reopenPb
  | _ => throw s!"bad op {j}"

/-- sorted, duplicate-free (canonical form of a Python set of ints) -/
def insSorted (x : Int) : List Int → List Int
  | [] => [x]
  | y :: ys => if x < y then x :: y :: ys else if x = y then y :: ys else y :: insSorted x ys

def canonSet (l : List Int) : List Int := l.foldl (fun acc x => insSorted x acc) []

def setJ (l : List Int) : Json := Json.arr ((canonSet l).map intJ).toArray

def dictJ (d : Dict) : Json :=
  Json.mkObj (d.map fun (t, ids) => (toString t, setJ ids))

def fwdJ (f : Fwd) : Json :=
  Json.mkObj [("ic", optJ setJ f.initCenter), ("is", optJ setJ f.initShape),
              ("pc", optJ dictJ f.predCenter), ("ps", optJ dictJ f.predShape)]

def stateJ (lanelets : List Id) (os : List ObsJ) (tmin : T) (n : Nat) (s : St) : Json :=
  let ts := trange tmin n
  Json.mkObj [
    ("fwd", Json.mkObj (os.map fun x => (toString x.id, fwdJ (s.fwd x.id)))),
    ("statics", setJ s.statics),
    ("dynamics", setJ s.dynamics),
    ("sreg", Json.mkObj (lanelets.map fun l => (toString l, setJ (s.sreg l)))),
    ("dreg", Json.mkObj (lanelets.map fun l =>
      (toString l, Json.mkObj (ts.filterMap fun t => (s.dreg l t).map fun ids => (toString t, setJ ids)))))]

/-- run the ops one by one; the answer lists the state after every op, and stops after the first exception -/
def runOps (E : Env) (show_ : St → Json) : St → List Op → List Json
  | _, [] => []
  | s, op :: ops =>
    match step E s op with
    | .ok s' => okJ (show_ s') :: runOps E show_ s' ops
    | .error e => [errJ e]

/-! ### op `geo`: the lookups computed by the composed model (index scan + exact predicates + placement) -/

def rptOf (j : Json) : P CR.Rigid.Pt := do
  match ← asArr j with
  | [x, y] => pure ⟨← asRat x, ← asRat y⟩
  | _ => throw "point: expected [x, y]"

def gptOf (j : Json) : P CR.Geom.Pt := do
  match ← asArr j with
  | [x, y] => pure ⟨← asRat x, ← asRat y⟩
  | _ => throw "point: expected [x, y]"

partial def rshapeOf (j : Json) : P CR.Rigid.Shape := do
  match ← getStr j "k" with
  | "rect" => pure (.rect (← getRat j "l") (← getRat j "w") (← rptOf (← field j "c")) (← getRat j "o"))
  | "circ" => pure (.circ (← getRat j "r") (← rptOf (← field j "c")))
  | "poly" => pure (.poly (← getList rptOf j "v"))
  | "group" => pure (.group (← getList rshapeOf j "s"))
  | k => throw s!"unknown shape kind {k}"

/-- one (obstacle, time step): local shape, position, orientation -/
structure StepJ where
  o : Id
  t : T
  shape : CR.Rigid.Shape
  pos : CR.Rigid.Pt
  ori : Rat

def stepOf (j : Json) : P StepJ := do
  pure { o := ← getInt j "o", t := ← getInt j "t", shape := ← rshapeOf (← field j "shape"),
         pos := ← rptOf (← field j "pos"), ori := ← getRat j "ori" }

def trigOf (j : Json) : P (Rat × Rat × Rat) := do
  match ← asArr j with
  | [a, c, s] => pure (← asRat a, ← asRat c, ← asRat s)
  | _ => throw "trig: expected [angle, cos, sin]"

def laneletOf (j : Json) : P (Int × List CR.Geom.Pt × List CR.Geom.Pt) := do
  pure (← getInt j "id", ← getList gptOf j "left", ← getList gptOf j "right")

def geoHandle (a : Json) : P Json := do
  let lanes ← getList laneletOf a "lanelets"
  let steps ← getList stepOf a "steps"
  let table ← getList trigOf a "trig"
  let tol ← getRat a "tol"
  let tau ← getRat a "tau"
  let find (x : Rat) : Rat × Rat := ((table.find? (fun e => e.1 = x)).map (·.2)).getD (1, 0)
  let tr : Trig := { cos := fun x => (find x).1, sin := fun x => (find x).2, τ := tau }
  let stepAt (o : Id) (t : T) : Option StepJ := steps.find? (fun e => e.o = o ∧ e.t = t)
  let D : ObsData :=
    { kind := fun _ => .dynNone, t0 := fun _ => 0, len := fun _ => 0
      shape := fun o t => ((stepAt o t).map (·.shape)).getD (.group [])
      pos := fun o t => ((stepAt o t).map (·.pos)).getD ⟨0, 0⟩
      ori := fun o t => ((stepAt o t).map (·.ori)).getD 0 }
  -- `LaneletNetwork.create_from_lanelet_list`: one polygon object per lanelet
  let ls : List CR.Index.Lanelet := (lanes.zipIdx).map fun (e, i) => ⟨e.1, i, e.2.1, e.2.2⟩
  let n := CR.Index.fromList id ls
  let E := CR.Assign.envOf (exactGeo tol tr D) n
  pure <| Json.arr (steps.map fun e => Json.arr #[intJ e.o, intJ e.t, setJ (E.cen e.o e.t), setJ (E.shp e.o e.t)]).toArray

/-! ### op `nrun`: histories with a changing lanelet network and preset assignment attributes -/

def dictOf (j : Json) : P Dict := do
  match j with
  | .obj kvs => kvs.toList.mapM fun (k, v) => do
      match k.toInt? with
      | some t => pure (t, ← listOf asInt v)
      | none => throw s!"dict key {k}"
  | _ => throw "dict: expected an object"

def presetOf (j : Json) : P Fwd := do
  pure { initCenter := ← optOf (listOf asInt) ((fieldOpt j "ic").getD .null),
         initShape := ← optOf (listOf asInt) ((fieldOpt j "is").getD .null),
         predCenter := ← optOf dictOf ((fieldOpt j "pc").getD .null),
         predShape := ← optOf dictOf ((fieldOpt j "ps").getD .null) }

def nopOf (j : Json) : P NOp := do
  match ← asArr j with
  | [.str "rmlane", l] => pure (.removeLanelet (← asInt l))
  | [.str "addlane", l] => pure (.addLanelet (← asInt l))
  | [.str "clearlane", l] => pure (.clearLanelet (← asInt l))
  | [.str "set", o, f] => pure (.setFwd (← asInt o) (← presetOf f))
  | [.str "query"] => pure .query
  | _ => pure (.op (← opOf j))

def nrunOps (E : Env) (legacy : Bool) (show_ : NSt → Json) : NSt → List NOp → List Json
  | _, [] => []
  | n, op :: ops =>
    match nstep E legacy n op with
    | .ok n' => okJ (show_ n') :: nrunOps E legacy show_ n' ops
    | .error e => [errJ e]

def handle (op : String) (a : Json) : P Json := do
  match op with
  | "run" =>
    let lanelets ← getList asInt a "lanelets"
    let os ← getList obsOf a "obs"
    let ops ← getList opOf a "ops"
    let tmin ← getInt a "tmin"
    let n ← getNat a "tspan"
    let E := envOf lanelets os
    pure <| Json.arr (runOps E (stateJ lanelets os tmin n) St.init ops).toArray
  | "nrun" =>
    let lanelets ← getList asInt a "lanelets"
    let present0 ← getList asInt a "present0"
    let osj ← asArr (← field a "obs")
    let os ← osj.mapM obsOf
    let presets ← osj.mapM fun j => do
      pure (← getInt j "id", ← match fieldOpt j "preset" with | some p => presetOf p | none => pure ({} : Fwd))
    let ops ← getList nopOf a "ops"
    let legacy ← match fieldOpt a "legacy" with | some b => asBool b | none => pure false
    let tmin ← getInt a "tmin"
    let n ← getNat a "tspan"
    let E := envOf lanelets os
    let preset : Id → Fwd := fun o => ((presets.find? (fun e => e.1 = o)).map (·.2)).getD {}
    let showN (x : NSt) : Json :=
      match stateJ lanelets os tmin n x.st with
      | .obj kvs => Json.obj (kvs.insert "present" (setJ x.present))
      | j => j
    pure <| Json.arr (nrunOps E legacy showN (NSt.init present0 preset) ops).toArray
  | "geo" => geoHandle a
  | _ => throw s!"C07: unknown op {op}"

end CR.Drv.C07
