import Driver.Util
import CRModel.Assign
open Lean CR.Drv CR.Assign

namespace CR.Drv.C07

/-- one obstacle of the pool: id, kind, t0, len, lookup table [[t, center ids, shape ids], …] -/
structure ObsJ where
  id : Id
  kind : Kind
  t0 : T
  len : Nat
  look : List (T × List Id × List Id)

def kindOf (s : String) : P Kind :=
  match s with
  | "static" => pure .static
  | "traj" => pure .dynTraj
  | "none" => pure .dynNone
  | "set" => pure .dynSet
  | _ => throw s!"unknown obstacle kind {s}"

def lookOf (j : Json) : P (T × List Id × List Id) := do
  match ← asArr j with
  | [t, c, s] => pure (← asInt t, ← listOf asInt c, ← listOf asInt s)
  | _ => throw "look: expected [t, center ids, shape ids]"

def obsOf (j : Json) : P ObsJ := do
  pure { id := ← getInt j "id", kind := ← kindOf (← getStr j "kind"), t0 := ← getInt j "t0", len := ← getNat j "len",
         look := ← getList lookOf j "look" }

def findObs (os : List ObsJ) (o : Id) : Option ObsJ := os.find? (fun x => x.id = o)

def lookAt (os : List ObsJ) (o : Id) (t : T) : Option (List Id × List Id) :=
  match findObs os o with
  | none => none
  | some x => (x.look.find? (fun e => e.1 = t)).map (·.2)

def envOf (lanelets : List Id) (os : List ObsJ) : Env :=
  { lanelets := lanelets
    kind := fun o => ((findObs os o).map (·.kind)).getD .static
    t0 := fun o => ((findObs os o).map (·.t0)).getD 0
    len := fun o => ((findObs os o).map (·.len)).getD 0
    cen := fun o t => ((lookAt os o t).map (·.1)).getD []
    shp := fun o t => ((lookAt os o t).map (·.2)).getD [] }

def optOf {α} (f : Json → P α) (j : Json) : P (Option α) :=
  match j with
  | .null => pure none
  | v => do pure (some (← f v))

def opOf (j : Json) : P Op := do
  match ← asArr j with
  | [.str "add", o] => pure (.add (← asInt o))
  | [.str "remove", o] => pure (.remove (← asInt o))
  | [.str "assign", ids, ts, co] => pure (.assign (← optOf (listOf asInt) ids) (← optOf (listOf asInt) ts) (← asBool co))
  | [.str "reopen", .str "xml"] => pure .reopenXml
  | [.str "reopen", .str "pb"] => pure .reopenPb
  | _ => throw s!"bad op {j}"

/-- sorted, duplicate-free (canonical form of a Python set of ints) -/
def insSorted (x : Int) : List Int → List Int
  | [] => [x]
  | y :: ys => if x < y then x :: y :: ys else if x = y then y :: ys else y :: insSorted x ys

def canonSet (l : List Int) : List Int := l.foldl (fun acc x => insSorted x acc) []

def setJ (l : List Int) : Json := Json.arr ((canonSet l).map intJ).toArray

def dictJ (d : Dict) : Json :=
  Json.mkObj (d.map fun (t, ids) => (toString t, setJ ids))

def fwdJ (f : Fwd) : Json :=
  Json.mkObj [("ic", optJ setJ f.initCenter), ("is", optJ setJ f.initShape),
              ("pc", optJ dictJ f.predCenter), ("ps", optJ dictJ f.predShape)]

def stateJ (lanelets : List Id) (os : List ObsJ) (tmin : T) (n : Nat) (s : St) : Json :=
  let ts := trange tmin n
  Json.mkObj [
    ("fwd", Json.mkObj (os.map fun x => (toString x.id, fwdJ (s.fwd x.id)))),
    ("statics", setJ s.statics),
    ("dynamics", setJ s.dynamics),
    ("sreg", Json.mkObj (lanelets.map fun l => (toString l, setJ (s.sreg l)))),
    ("dreg", Json.mkObj (lanelets.map fun l =>
      (toString l, Json.mkObj (ts.filterMap fun t => (s.dreg l t).map fun ids => (toString t, setJ ids)))))]

/-- run the ops one by one; the answer lists the state after every op, and stops after the first exception -/
def runOps (E : Env) (show_ : St → Json) : St → List Op → List Json
  | _, [] => []
  | s, op :: ops =>
    match step E s op with
    | .ok s' => okJ (show_ s') :: runOps E show_ s' ops
    | .error e => [errJ e]

def handle (op : String) (a : Json) : P Json := do
  match op with
  | "run" =>
    let lanelets ← getList asInt a "lanelets"
    let os ← getList obsOf a "obs"
    let ops ← getList opOf a "ops"
    let tmin ← getInt a "tmin"
    let n ← getNat a "tspan"
    let E := envOf lanelets os
    pure <| Json.arr (runOps E (stateJ lanelets os tmin n) St.init ops).toArray
  | _ => throw s!"C07: unknown op {op}"

end CR.Drv.C07
