import Driver.Util
import CRModel.Interval
open Lean CR.Drv CR.Iv

namespace CR.Drv.C16

def ivJ (i : I) : Json := Json.arr #[ratJ i.lo, ratJ i.hi]
def boolJ (b : Bool) : Json := Json.bool b

def getI (a : Json) (k1 k2 : String) : P I := do pure ⟨← getRat a k1, ← getRat a k2⟩

/-- A plain-interval operation on the constructed interval `[a, b]` (construction itself is op `mk`). -/
def plain (op : String) (a : Json) : P Json := do
  match op with
  | "mk" => pure <| resJ ivJ (mk (← getRat a "a") (← getRat a "b"))
  | _ =>
  let i ← getI a "a" "b"
  match op with
  | "set_start" => pure <| resJ ivJ (setStart i (← getRat a "x"))
  | "set_end" => pure <| resJ ivJ (setEnd i (← getRat a "x"))
  | "contains" => pure <| okJ (boolJ (contains i (← getRat a "x")))
  | "containsI" => pure <| okJ (boolJ (containsI i (← getI a "c" "d")))
  | "overlaps" => pure <| okJ (boolJ (overlaps i (← getI a "c" "d")))
  | "intersection" => pure <| resJ (optJ ivJ) (intersection i (← getI a "c" "d"))
  | "add" => pure <| resJ ivJ (add i (← getRat a "x"))
  | "sub" => pure <| resJ ivJ (sub i (← getRat a "x"))
  | "mul" => pure <| resJ ivJ (mul i (← getRat a "x"))
  | "div" => pure <| resJ ivJ (div i (← getRat a "x"))
  | "round" => pure <| resJ ivJ (mk (← getRat a "ra") (← getRat a "rb"))   -- rnd lo, rnd hi supplied
  | "length" => pure <| okJ (ratJ (length i))
  | "gt" => pure <| okJ (boolJ (gtNum i (← getRat a "x")))
  | "lt" => pure <| okJ (boolJ (ltNum i (← getRat a "x")))
  | "gtI" => pure <| okJ (boolJ (gtI i (← getI a "c" "d")))
  | "ltI" => pure <| okJ (boolJ (ltI i (← getI a "c" "d")))
  | _ => throw s!"C16: unknown plain op {op}"

def angle (op : String) (a : Json) : P Json := do
  let τ ← getRat a "tau"
  match op with
  | "make_valid" => pure <| okJ (ratJ (makeValid τ (← getRat a "x")))
  | "mk_angle" => pure <| resJ ivJ (mkAngle τ (← getRat a "s") (← getRat a "e"))
  | "a_contains" =>
    let ε ← getRat a "eps"
    let i ← getI a "a" "b"
    let ths ← getList asRat a "thetas"
    pure <| Json.arr (ths.map fun θ => boolJ (containsAngle τ ε i θ)).toArray
  | "a_containsI" =>
    let ε ← getRat a "eps"
    pure <| okJ (boolJ (containsAngleI τ ε (← getI a "a" "b") (← getI a "c" "d")))
  | "a_add" => pure <| resJ ivJ (addAngle τ (← getI a "a" "b") (← getRat a "x"))
  | "a_sub" => pure <| resJ ivJ (subAngle τ (← getI a "a" "b") (← getRat a "x"))
  | _ => throw s!"C16: unknown angle op {op}"

def handle (op : String) (a : Json) : P Json :=
  if op.startsWith "a_" || op == "mk_angle" || op == "make_valid" then angle op a else plain op a

end CR.Drv.C16
