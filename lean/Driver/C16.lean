import Driver.Util
import CRModel.Interval
open Lean CR.Drv CR.Iv

namespace CR.Drv.C16

def ivJ (i : I) : Json := Json.arr #[ratJ i.lo, ratJ i.hi]
def boolJ (b : Bool) : Json := Json.bool b

def getI (a : Json) (k1 k2 : String) : P I := do pure ⟨← getRat a k1, ← getRat a k2⟩

/-- A step of a plain-interval history: `{"op": "set_start"|…, "x": rat}` / `{"op":"round","n":int}` / `{"op":"inter","c":rat,"d":rat}`. -/
def getOp (j : Json) : P Op := do
  match (← getStr j "op") with
  | "set_start" => pure (.setStart (← getRat j "x"))
  | "set_end" => pure (.setEnd (← getRat j "x"))
  | "add" => pure (.add (← getRat j "x"))
  | "sub" => pure (.sub (← getRat j "x"))
  | "mul" => pure (.mul (← getRat j "x"))
  | "div" => pure (.div (← getRat j "x"))
  | "round" => pure (.round (← getInt j "n"))
  | "inter" => pure (.inter (← getI j "c" "d"))
  | o => throw s!"C16: unknown history op {o}"

def getOpA (j : Json) : P OpA := do
  match (← getStr j "op") with
  | "set_start" => pure (.setStart (← getRat j "x"))
  | "set_end" => pure (.setEnd (← getRat j "x"))
  | "add" => pure (.add (← getRat j "x"))
  | "sub" => pure (.sub (← getRat j "x"))
  | o => throw s!"C16: unknown angle history op {o}"

/-- Python's `round` as a finite table `[[n, x, round(x, n)], …]` (a parameter of the model); identity off the table. -/
def getRnd (a : Json) : P (Int → Rat → Rat) := do
  let rows ← getList (fun r => do
    match (← asArr r) with
    | [n, x, y] => pure ((← asInt n), (← asRat x), (← asRat y))
    | _ => throw "C16: rtab row") a "rtab"
  pure fun n x => match rows.find? (fun r => r.1 == n && r.2.1 == x) with
    | some r => r.2.2
    | none => x

/-- A plain-interval operation on the constructed interval `[a, b]` (construction itself is op `mk`). -/
def plain (op : String) (a : Json) : P Json := do
  match op with
  | "mk" => pure <| resJ ivJ (mk (← getRat a "a") (← getRat a "b"))
  | "prog" =>
    let i ← getI a "a" "b"
    let ops ← getList getOp a "steps"
    let rnd ← getRnd a
    pure <| Json.mkObj [("trace", Json.arr ((runOps rnd i ops).map (resJ ivJ)).toArray), ("final", ivJ (finalOps rnd i ops))]
  | _ =>
  let i ← getI a "a" "b"
  match op with
  | "set_start" => pure <| resJ ivJ (setStart i (← getRat a "x"))
  | "set_end" => pure <| resJ ivJ (setEnd i (← getRat a "x"))
  | "contains" => pure <| okJ (boolJ (contains i (← getRat a "x")))
  | "containsI" => pure <| okJ (boolJ (containsI i (← getI a "c" "d")))
  | "overlaps" => pure <| okJ (boolJ (overlaps i (← getI a "c" "d")))
  | "intersection" => pure <| resJ (optJ ivJ) (intersection i (← getI a "c" "d"))
  | "add" => pure <| resJ ivJ (add i (← getRat a "x"))
  | "sub" => pure <| resJ ivJ (sub i (← getRat a "x"))
  | "mul" => pure <| resJ ivJ (mul i (← getRat a "x"))
  | "div" => pure <| resJ ivJ (div i (← getRat a "x"))
  | "round" => pure <| resJ ivJ (mk (← getRat a "ra") (← getRat a "rb"))   -- rnd lo, rnd hi supplied
  | "length" => pure <| okJ (ratJ (length i))
  | "gt" => pure <| okJ (boolJ (gtNum i (← getRat a "x")))
  | "lt" => pure <| okJ (boolJ (ltNum i (← getRat a "x")))
  | "gtI" => pure <| okJ (boolJ (gtI i (← getI a "c" "d")))
  | "ltI" => pure <| okJ (boolJ (ltI i (← getI a "c" "d")))
  | _ => throw s!"C16: unknown plain op {op}"

def angle (op : String) (a : Json) : P Json := do
  let τ ← getRat a "tau"
  match op with
  | "make_valid" => pure <| okJ (ratJ (makeValid τ (← getRat a "x")))
  | "mk_angle" => pure <| resJ ivJ (mkAngle τ (← getRat a "s") (← getRat a "e"))
  | "a_contains" =>
    let ε ← getRat a "eps"
    let i ← getI a "a" "b"
    let ths ← getList asRat a "thetas"
    pure <| Json.arr (ths.map fun θ => boolJ (containsAngle τ ε i θ)).toArray
  | "a_containsI" =>
    let ε ← getRat a "eps"
    pure <| okJ (boolJ (containsAngleI τ ε (← getI a "a" "b") (← getI a "c" "d")))
  | "a_set_start" => pure <| resJ ivJ (setStartAngle τ (← getI a "a" "b") (← getRat a "x"))
  | "a_set_end" => pure <| resJ ivJ (setEndAngle τ (← getI a "a" "b") (← getRat a "x"))
  | "a_prog" =>
    let i ← getI a "a" "b"
    let ops ← getList getOpA a "steps"
    pure <| Json.mkObj [("trace", Json.arr ((runOpsA τ i ops).map (resJ ivJ)).toArray), ("final", ivJ (finalOpsA τ i ops))]
  | "make_valid_interval" =>
    let p := makeValidInterval τ (← getRat a "s") (← getRat a "e")
    pure <| okJ (Json.arr #[ratJ p.1, ratJ p.2])
  | "a_add" => pure <| resJ ivJ (addAngle τ (← getI a "a" "b") (← getRat a "x"))
  | "a_sub" => pure <| resJ ivJ (subAngle τ (← getI a "a" "b") (← getRat a "x"))
  | _ => throw s!"C16: unknown angle op {op}"

def handle (op : String) (a : Json) : P Json :=
  if op.startsWith "a_" || op == "mk_angle" || op.startsWith "make_valid" then angle op a else plain op a

end CR.Drv.C16
