import Driver.Util
import CRModel.Params
import CRModel.DrawSelect
import CRModel.DrawParams
open Lean CR.Drv

namespace CR.Drv.C19
open CR.Params CR.Draw

/-! JSON ⇄ parameter trees: `{"i": bool, "f": [[key, "atom"] | [key, {tree}], ...]}` -/

mutual
  partial def grpOfJson (j : Json) : P Grp := do
    let i ← getBool j "i"
    let fs ← asArr (← field j "f")
    pure (.mk i (← fieldsOfJson fs))
  partial def fieldsOfJson : List Json → P Fields
    | [] => pure .nil
    | e :: rest => do
      match ← asArr e with
      | [k, v] =>
        let k ← asStr k
        let r ← fieldsOfJson rest
        match v with
        | .str a => pure (.atom k a r)
        | _ => pure (.grp k (← grpOfJson v) r)
      | _ => throw "field: expected [key, value]"
end

def valOfJson (v : Json) : P Val :=
  match v with
  | .str a => pure (.atom a)
  | _ => do pure (.grp (← grpOfJson v))

mutual
  partial def grpToJson : Grp → Json
    | .mk i fs => Json.mkObj [("i", Json.bool i), ("f", Json.arr (fieldsToJson fs).toArray)]
  partial def fieldsToJson : Fields → List Json
    | .nil => []
    | .atom k a r => Json.arr #[Json.str k, Json.str a] :: fieldsToJson r
    | .grp k g r => Json.arr #[Json.str k, grpToJson g] :: fieldsToJson r
end

def tsetOfJson (j : Json) : P TSet := do
  pure { all := ← getBool j "all", ts := ← getList asInt j "ts" }

def predOfJson (j : Json) : P Pred := do
  match ← getStr j "kind" with
  | "none" => pure .none
  | "traj" => pure (.traj (← getInt j "final"))
  | "set" => pure (.setb (← getInt j "final"))
  | "set-empty" => pure .setbEmpty
  | k => throw s!"pred kind {k}"

def roleOfStr : String → P Role
  | "static" => pure .static
  | "dynamic" => pure .dynamic
  | "phantom" => pure .phantom
  | "env" => pure .env
  | r => throw s!"role {r}"

def obstOfJson (j : Json) : P Obst := do
  pure { role := ← roleOfStr (← getStr j "role"), initTs := ← getInt j "init", pred := ← predOfJson (← field j "pred"),
         occ := ← tsetOfJson (← field j "occ"), uncInit := ← getBool j "uncInit",
         stateAt := ← tsetOfJson (← field j "stateAt"), uncAt := ← tsetOfJson (← field j "uncAt"),
         sigAt := ← tsetOfJson (← field j "sigAt"), rectAt := ← tsetOfJson (← field j "rectAt"),
         iconType := ← getBool j "iconType", hasLW := ← getBool j "hasLW",
         orientIntInit := ← getBool j "orientIntInit", velIntInit := ← getBool j "velIntInit",
         orientIntAt := ← tsetOfJson (← field j "orientIntAt"), velIntAt := ← tsetOfJson (← field j "velIntAt") }

def dynFlagsOfJson (j : Json) : P DynFlags := do
  pure { tb := ← getInt j "tb", te := ← getInt j "te", drawShape := ← getBool j "draw_shape",
         drawIcon := ← getBool j "draw_icon", drawDirection := ← getBool j "draw_direction",
         drawSignals := ← getBool j "draw_signals", drawOccupancies := ← getBool j "draw_occupancies",
         drawTrajectory := ← getBool j "draw_trajectory", drawHistory := ← getBool j "draw_history",
         histSteps := ← getInt j "hist_steps", histStepSize := ← getInt j "hist_step_size",
         drawInitialState := ← getBool j "draw_initial_state", showLabel := ← getBool j "show_label",
         stateArrow := ← getBool j "state_arrow",
         trajTb := ← getInt j "traj_tb", trajTe := ← getInt j "traj_te", trajContinuous := ← getBool j "traj_continuous" }

def flagsOfJson (j : Json) : P Flags := do
  let ph ← field j "ph"
  pure { dyn := ← dynFlagsOfJson (← field j "dyn"),
         ph := { tb := ← getInt ph "tb", te := ← getInt ph "te", drawShape := ← getBool ph "draw_shape",
                 drawOccupancies := ← getBool ph "draw_occupancies" },
         tbStatic := ← getInt j "tb_static", tbEnv := ← getInt j "tb_env" }

def anchorJ : Anchor → Json
  | .exact => Json.str "exact"
  | .center => Json.str "center"

def midJ : Mid → Json
  | .exact => Json.str "exact"
  | .mid => Json.str "mid"

def dynFlagsJ (f : DynFlags) : Json := Json.mkObj [
  ("tb", intJ f.tb), ("te", intJ f.te), ("draw_shape", Json.bool f.drawShape), ("draw_icon", Json.bool f.drawIcon),
  ("draw_direction", Json.bool f.drawDirection), ("draw_signals", Json.bool f.drawSignals),
  ("draw_occupancies", Json.bool f.drawOccupancies), ("draw_trajectory", Json.bool f.drawTrajectory),
  ("draw_history", Json.bool f.drawHistory), ("hist_steps", intJ f.histSteps), ("hist_step_size", intJ f.histStepSize),
  ("draw_initial_state", Json.bool f.drawInitialState), ("show_label", Json.bool f.showLabel),
  ("state_arrow", Json.bool f.stateArrow), ("traj_tb", intJ f.trajTb), ("traj_te", intJ f.trajTe),
  ("traj_continuous", Json.bool f.trajContinuous)]

def flagsJ (f : Flags) : Json := Json.mkObj [
  ("dyn", dynFlagsJ f.dyn),
  ("ph", Json.mkObj [("tb", intJ f.ph.tb), ("te", intJ f.ph.te), ("draw_shape", Json.bool f.ph.drawShape),
                     ("draw_occupancies", Json.bool f.ph.drawOccupancies)]),
  ("tb_static", intJ f.tbStatic), ("tb_env", intJ f.tbEnv)]

def itemJ : Item → Json
  | .occ t => Json.arr #[Json.str "occ", intJ t]
  | .uncInit => Json.arr #[Json.str "uncInit"]
  | .uncState t => Json.arr #[Json.str "uncState", intJ t]
  | .hist t => Json.arr #[Json.str "hist", intJ t]
  | .dir => Json.arr #[Json.str "dir"]
  | .icon a r => Json.arr #[Json.str "icon", anchorJ a, midJ r]
  | .sig => Json.arr #[Json.str "sig"]
  | .trajLine => Json.arr #[Json.str "trajLine"]
  | .uncTraj t => Json.arr #[Json.str "uncTraj", intJ t]
  | .label a => Json.arr #[Json.str "label", anchorJ a]
  | .state a none => Json.arr #[Json.str "state", anchorJ a, Json.null]
  | .state a (some (r, v)) => Json.arr #[Json.str "state", anchorJ a, Json.arr #[midJ r, midJ v]]

def optIds (j : Json) (k : String) : P (Option (List Int)) :=
  match fieldOpt j k with
  | none => pure none
  | some v => do pure (some (← listOf asInt v))

/-- One assignment `setattr(follow(root, path), name, value)`; values outside the model are refused. -/
def stepSet (g : Grp) (op : Json) : P (Except String Grp) := do
  match ← asArr op with
  | [path, name, v] =>
    let path ← listOf asStr path
    let name ← asStr name
    let v ← valOfJson v
    match g.setAtPy name v path with
    | .ok g' => pure (.ok g')
    | .error e => pure (.error e.toString)
  | _ => throw "op: expected [path, name, value]"

def handle (op : String) (a : Json) : P Json := do
  match op with
  | "setattr" =>
    -- {"tree": t, "ops": [[path, name, value], ...]} -> tree after every op (history continues after an error)
    let mut g ← grpOfJson (← field a "tree")
    let mut out : Array Json := #[]
    for o in ← asArr (← field a "ops") do
      match ← stepSet g o with
      | .ok g' => g := g'; out := out.push (okJ (grpToJson g'))
      | .error e => out := out.push (Json.mkObj [("err", Json.str e)])
    pure (Json.arr out)
  | "post_init" =>
    let g ← grpOfJson (← field a "tree")
    pure (resJ grpToJson g.postInit)
  | "draw" =>
    let f ← flagsOfJson (← field a "flags")
    let os ← getList obstOfJson a "obstacles"
    pure <| resJ (fun r => Json.arr (r.map fun l => Json.arr (l.map itemJ).toArray).toArray) (drawScenarioC f os)
  | "flags_of" =>
    -- the flags and windows the drawing functions read from a parameter tree (null if a read fails)
    pure <| optJ flagsJ (flagsOf (← grpOfJson (← field a "tree")))
  | "draw_tree" =>
    -- parameter tree + obstacles -> patches: flagsOf, then the checked selection logic
    let os ← getList obstOfJson a "obstacles"
    match flagsOf (← grpOfJson (← field a "tree")) with
    | none => pure Json.null
    | some f => pure <| resJ (fun r => Json.arr (r.map fun l => Json.arr (l.map itemJ).toArray).toArray) (drawScenarioC f os)
  | "frames" =>
    -- a history of frames on one renderer: [{tree, obstacles, draw_network, keep}] -> what every frame shows
    let mut frs : List Frame := []
    for j in ← asArr (← field a "frames") do
      match flagsOf (← grpOfJson (← field j "tree")) with
      | none => throw "frames: flagsOf failed"
      | some f =>
        frs := frs ++ [{ flags := f, obstacles := ← getList obstOfJson j "obstacles",
                         drawNetwork := ← getBool j "draw_network", keepStatic := ← getBool j "keep" }]
    pure <| Json.arr ((showFrames ⟨[], 0⟩ frs).map fun b => Json.mkObj [
      ("patches", Json.arr (b.patches.map fun l => Json.arr (l.map itemJ).toArray).toArray),
      ("networks", natJ b.networks)]).toArray
  | "ops" =>
    -- a history of renderer operations -> what every render / render_dynamic shows
    --   {"op":"draw", tree, obstacles, draw_network} | {"op":"clear","keep":b} | {"op":"render","keep":b} | {"op":"render_dynamic"}
    let mut ops : List ROp := []
    for j in ← asArr (← field a "ops") do
      match ← getStr j "op" with
      | "draw" =>
        match flagsOf (← grpOfJson (← field j "tree")) with
        | none => throw "ops: flagsOf failed"
        | some f =>
          let fr : Frame := ⟨f, ← getList obstOfJson j "obstacles", ← getBool j "draw_network", false⟩
          ops := ops ++ [.draw fr]
      | "clear" => ops := ops ++ [.clear (← getBool j "keep")]
      | "render" => ops := ops ++ [.render (← getBool j "keep")]
      | "render_dynamic" => ops := ops ++ [.renderDynamic]
      | o => throw s!"ops: unknown op {o}"
    pure <| Json.arr ((runOps ⟨[], 0⟩ ops).map fun b => Json.mkObj [
      ("patches", Json.arr (b.patches.map fun l => Json.arr (l.map itemJ).toArray).toArray),
      ("networks", natJ b.networks)]).toArray
  | "axes" =>
    -- a history of renderer operations -> the obstacle patch collections on the AXES after every render / render_dynamic
    --   ops as in "ops" + {"op":"render_static"} | {"op":"remove_dynamic"} | {"op":"cla"}
    let mut ops : List AOp := []
    for j in ← asArr (← field a "ops") do
      match ← getStr j "op" with
      | "draw" =>
        match flagsOf (← grpOfJson (← field j "tree")) with
        | none => throw "axes: flagsOf failed"
        | some f =>
          let fr : Frame := ⟨f, ← getList obstOfJson j "obstacles", ← getBool j "draw_network", false⟩
          ops := ops ++ [.draw fr]
      | "clear" => ops := ops ++ [.clear (← getBool j "keep")]
      | "render" => ops := ops ++ [.render (← getBool j "keep")]
      | "render_dynamic" => ops := ops ++ [.renderDynamic]
      | "render_static" => ops := ops ++ [.renderStatic]
      | "remove_dynamic" => ops := ops ++ [.removeDynamic]
      | "cla" => ops := ops ++ [.cla]
      | o => throw s!"axes: unknown op {o}"
    pure <| Json.arr ((runAxes Rend.init ops).map fun ax => Json.arr (ax.map fun c => Json.mkObj [
      ("show", natJ c.1),
      ("patches", Json.arr (c.2.map fun l => Json.arr (l.map itemJ).toArray).toArray)]).toArray).toArray
  | "net" =>
    let ls ← getList (fun j => do pure ({ id := ← getInt j "id", leftBorder := ← getBool j "left_border" } : LaneletInfo)) a "lanelets"
    let f : NetFlags := { drawIds := ← optIds a "draw_ids", borderVertices := ← getBool a "border_vertices",
                          leftBound := ← getBool a "left_bound", rightBound := ← getBool a "right_bound" }
    pure <| resJ (fun r => Json.mkObj [("drawn", Json.arr (r.drawn.map intJ).toArray),
                                       ("border_collections", natJ r.borderCollections)]) (drawNetC f ls)
  | "lights" =>
    let ls ← getList (fun j => do pure ({ hasPosition := ← getBool j "has_position", active := ← getBool j "active",
                                          state := ← getStr j "state" } : LightInfo)) a "lights"
    pure <| resJ (fun r => Json.arr (r.map Json.str).toArray) (lightLabelsC (← getBool a "show_label") ls)
  | "lanelets" =>
    let ids ← getList asInt a "ids"
    pure <| Json.arr ((laneletsDrawn ids (← optIds a "draw_ids")).map intJ).toArray
  | "problems" =>
    let ids ← getList asInt a "ids"
    pure <| Json.arr ((problemsDrawn ids (← optIds a "draw_ids")).map intJ).toArray
  | _ => throw s!"C19: unknown op {op}"

end CR.Drv.C19
