import Driver.Util
import CRModel.TrafficLight
open Lean CR.Drv

namespace CR.Drv.C17

def elem (j : Json) : P CR.TL.Elem := do
  match ← asArr j with
  | [s, d] => pure (← asNat s, ← asInt d)
  | _ => throw "elem: expected [state, duration]"

def handle (op : String) (a : Json) : P Json := do
  match op with
  | "state_at" =>
    let es ← getList elem a "es"
    let off ← getInt a "off"
    let ts ← getList asInt a "ts"
    pure <| Json.arr (ts.map fun t => resJ natJ (CR.TL.stateAt es off t)).toArray
  | "light_state_at" =>
    let es ← getList elem a "es"
    let off ← getInt a "off"
    let ts ← getList asInt a "ts"
    pure <| Json.arr (ts.map fun t => resJ natJ (CR.TL.lightStateAt es off t)).toArray
  | "spec_at" =>
    let es ← getList elem a "es"
    let ks ← getList asInt a "ks"
    pure <| Json.arr (ks.map fun k => optJ natJ (CR.TL.specAt es k)).toArray
  | _ => throw s!"C17: unknown op {op}"

end CR.Drv.C17
