import Driver.Util
import CRModel.TrafficLight
import CRModel.TrafficLightHist
open Lean CR.Drv

namespace CR.Drv.C17

def elem (j : Json) : P CR.TL.Elem := do
  match ← asArr j with
  | [s, d] => pure (← asNat s, ← asInt d)
  | _ => throw "elem: expected [state, duration]"

/-- one history operation: `["q", ts] | ["read"] | ["off", n] | ["es", es, cls] | ["dur", i, d] | ["state", i, s] |
    ["app", e, c] | ["fresh", es, cls, off] | ["keep", <label>]` -/
def histOp (j : Json) : P CR.TL.Hist.Op := do
  match ← asArr j with
  | [k, a] =>
    match ← asStr k with
    | "q" => pure (.query (← listOf asInt a))
    | "off" => pure (.setOff (← asInt a))
    | "keep" => pure .keep
    | o => throw s!"C17 hist: unknown unary op {o}"
  | [k] =>
    match ← asStr k with
    | "read" => pure .readTable
    | "keep" => pure .keep
    | o => throw s!"C17 hist: unknown nullary op {o}"
  | [k, a, b] =>
    match ← asStr k with
    | "es" => pure (.setEs (← listOf elem a) (← listOf asNat b))
    | "dur" => pure (.elDur (← asNat a) (← asInt b))
    | "state" => pure (.elState (← asNat a) (← asNat b))
    | "app" => pure (.appendInPlace (← elem a) (← asNat b))
    | o => throw s!"C17 hist: unknown binary op {o}"
  | [k, a, b, c] =>
    match ← asStr k with
    | "fresh" => pure (.fresh (← listOf elem a) (← listOf asNat b) (← asInt c))
    | o => throw s!"C17 hist: unknown ternary op {o}"
  | _ => throw "C17 hist: malformed op"

def handle (op : String) (a : Json) : P Json := do
  match op with
  | "state_at" =>
    let es ← getList elem a "es"
    let off ← getInt a "off"
    let ts ← getList asInt a "ts"
    pure <| Json.arr (ts.map fun t => resJ natJ (CR.TL.stateAt es off t)).toArray
  | "light_state_at" =>
    let es ← getList elem a "es"
    let off ← getInt a "off"
    let ts ← getList asInt a "ts"
    pure <| Json.arr (ts.map fun t => resJ natJ (CR.TL.lightStateAt es off t)).toArray
  | "hist" =>
    -- a history on one cycle object (memo included), as the CURRENT code runs it (`CR.TL.Hist.validates`)
    let es ← getList elem a "es"
    let cls ← getList asNat a "cls"
    let off ← getInt a "off"
    let ops ← getList histOp a "ops"
    let out := CR.TL.Hist.run (CR.TL.Hist.Obj.fresh es cls off) ops
    pure <| Json.arr (out.map fun r => Json.arr (r.map (resJ natJ)).toArray).toArray
  | "spec_at" =>
    let es ← getList elem a "es"
    let ks ← getList asInt a "ks"
    pure <| Json.arr (ks.map fun k => optJ natJ (CR.TL.specAt es k)).toArray
  | _ => throw s!"C17: unknown op {op}"

end CR.Drv.C17
