/-
  Driver.Util — JSON helpers for the line-protocol driver.  Imports Lean.Data.Json only.
-/
import Lean.Data.Json
import CRModel.Basic
open Lean

namespace CR.Drv

abbrev P := Except String

def field (j : Json) (k : String) : P Json :=
  match j.getObjVal? k with
  | .ok v => pure v
  | .error _ => throw s!"missing field {k}"

def fieldOpt (j : Json) (k : String) : Option Json :=
  match j.getObjVal? k with
  | .ok .null => none
  | .ok v => some v
  | .error _ => none

def asInt (j : Json) : P Int :=
  match j with
  | .num n => if n.exponent = 0 then pure n.mantissa else throw s!"not an integer: {j}"
  | .str s => match s.toInt? with
    | some i => pure i
    | none => throw s!"not an integer string: {s}"
  | _ => throw s!"not an integer: {j}"

def asNat (j : Json) : P Nat := do
  let i ← asInt j
  if i < 0 then throw s!"negative: {i}" else pure i.toNat

def asBool (j : Json) : P Bool :=
  match j with
  | .bool b => pure b
  | _ => throw s!"not a bool: {j}"

def asStr (j : Json) : P String :=
  match j with
  | .str s => pure s
  | _ => throw s!"not a string: {j}"

def asArr (j : Json) : P (List Json) :=
  match j with
  | .arr a => pure a.toList
  | _ => throw s!"not an array: {j}"

/-- Rationals travel as "num/den" strings (from `float.as_integer_ratio()`), or as JSON integers. -/
def asRat (j : Json) : P Rat :=
  match j with
  | .str s =>
    match s.splitOn "/" with
    | [a] => match a.toInt? with
      | some i => pure (i : Rat)
      | none => throw s!"bad rational {s}"
    | [a, b] => match a.toInt?, b.toNat? with
      | some i, some d => if d = 0 then throw s!"zero denominator {s}" else pure (mkRat i d)
      | _, _ => throw s!"bad rational {s}"
    | _ => throw s!"bad rational {s}"
  | .num n => if n.exponent = 0 then pure (n.mantissa : Rat) else throw s!"non-integer JSON number {j}: send rationals as strings"
  | _ => throw s!"not a rational: {j}"

def listOf {α} (f : Json → P α) (j : Json) : P (List α) := do
  let a ← asArr j
  a.mapM f

def getInt (j : Json) (k : String) : P Int := do asInt (← field j k)
def getNat (j : Json) (k : String) : P Nat := do asNat (← field j k)
def getBool (j : Json) (k : String) : P Bool := do asBool (← field j k)
def getStr (j : Json) (k : String) : P String := do asStr (← field j k)
def getRat (j : Json) (k : String) : P Rat := do asRat (← field j k)
def getList {α} (f : Json → P α) (j : Json) (k : String) : P (List α) := do listOf f (← field j k)

def ratJ (r : Rat) : Json := Json.str s!"{r.num}/{r.den}"
def intJ (i : Int) : Json := Json.num (JsonNumber.fromInt i)
def natJ (n : Nat) : Json := Json.num (JsonNumber.fromNat n)
def okJ (v : Json) : Json := Json.mkObj [("ok", v)]
def errJ (e : CR.Err) : Json := Json.mkObj [("err", Json.str e.toString)]

def resJ {α} (f : α → Json) : CR.Res α → Json
  | .ok v => okJ (f v)
  | .error e => errJ e

def optJ {α} (f : α → Json) : Option α → Json
  | some v => f v
  | none => Json.null

end CR.Drv
