import Driver.Util
import CRModel.CRXml
import CRModel.DecVal
open Lean CR.Drv CR.X

namespace CR.Drv.C01

deriving instance ToJson, FromJson for Params
deriving instance ToJson, FromJson for Cfg
deriving instance ToJson, FromJson for Pt
deriving instance ToJson, FromJson for Shape1
deriving instance ToJson, FromJson for Shape
deriving instance ToJson, FromJson for Val
deriving instance ToJson, FromJson for TimeV
deriving instance ToJson, FromJson for Pos
deriving instance ToJson, FromJson for SVal
deriving instance ToJson, FromJson for State
deriving instance ToJson, FromJson for Occupancy
deriving instance ToJson, FromJson for Signal
deriving instance ToJson, FromJson for Prediction
deriving instance ToJson, FromJson for StaticObs
deriving instance ToJson, FromJson for DynObs
deriving instance ToJson, FromJson for EnvObs
deriving instance ToJson, FromJson for PhantomObs
deriving instance ToJson, FromJson for Bound
deriving instance ToJson, FromJson for Adj
deriving instance ToJson, FromJson for StopLine
deriving instance ToJson, FromJson for Lanelet
deriving instance ToJson, FromJson for SignElement
deriving instance ToJson, FromJson for Sign
deriving instance ToJson, FromJson for CycleElement
deriving instance ToJson, FromJson for Cycle
deriving instance ToJson, FromJson for Light
deriving instance ToJson, FromJson for Incoming
deriving instance ToJson, FromJson for Intersection
deriving instance ToJson, FromJson for PlanningProblem
deriving instance ToJson, FromJson for Doc
deriving instance ToJson, FromJson for AddTransformation
deriving instance ToJson, FromJson for GeoTransformation
deriving instance ToJson, FromJson for Environment
deriving instance ToJson, FromJson for Location
deriving instance ToJson, FromJson for Header
deriving instance ToJson, FromJson for File
deriving instance ToJson, FromJson for FileCfg

/-- element tree on the wire: [tag, [[k, v], …], text, [kids]] -/
partial def xmlToJson (x : Xml) : Json :=
  Json.arr #[Json.str x.tag, Json.arr (x.attrs.map (fun p => Json.arr #[Json.str p.1, Json.str p.2])).toArray, Json.str x.text,
             Json.arr (x.kids.map xmlToJson).toArray]

partial def xmlOfJson (j : Json) : P Xml := do
  match j with
  | .arr #[.str tag, .arr attrs, .str text, .arr kids] =>
    let as ← attrs.toList.mapM (fun a => match a with
      | .arr #[.str k, .str v] => pure (k, v)
      | _ => throw "attr: expected [k, v]")
    let ks ← kids.toList.mapM xmlOfJson
    pure ⟨tag, as, text, ks⟩
  | _ => throw "xml: expected [tag, attrs, text, kids]"

def parse {α : Type} [FromJson α] (j : Json) (what : String) : P α :=
  match fromJson? j with
  | .ok v => pure v
  | .error e => throw s!"{what}: {e}"

def optDoc (o : Option Doc) : Json :=
  match o with
  | some d => okJ (toJson d)
  | none => errJ .other

def optFile (o : Option File) : Json :=
  match o with
  | some d => okJ (toJson d)
  | none => errJ .other

def handleFile (op : String) (a : Json) : P Json := do
  let fc : FileCfg ← parse (← field a "fcfg") "fcfg"
  match op with
  | "encode_file" =>
    let f : File ← parse (← field a "file") "file"
    pure <| okJ (xmlToJson (encodeFile fc f))
  | "decode_file" =>
    let x ← xmlOfJson (← field a "xml")
    pure <| optFile (decodeFile fc x)
  | "norm_file" =>
    let f : File ← parse (← field a "file") "file"
    pure <| okJ (toJson (normFile fc f))
  | "roundtrip_file" =>
    let f : File ← parse (← field a "file") "file"
    pure <| optFile (decodeFile fc (encodeFile fc f))
  | _ => throw s!"C01: unknown op {op}"

def handle (op : String) (a : Json) : P Json := do
  if op == "real_val" then
    let ss ← getList asStr a "ss"
    return Json.arr (ss.map (fun s => ratJ (realVal s))).toArray
  if op.endsWith "_file" then return (← handleFile op a)
  let cfg : Cfg ← parse (← field a "cfg") "cfg"
  match op with
  | "encode" =>
    let d : Doc ← parse (← field a "doc") "doc"
    pure <| okJ (Json.arr ((encodeDoc cfg d).map xmlToJson).toArray)
  | "decode" =>
    let kids ← getList xmlOfJson a "kids"
    pure <| optDoc (decodeDoc cfg kids)
  | "norm" =>
    let d : Doc ← parse (← field a "doc") "doc"
    pure <| okJ (toJson (normDoc cfg d))
  | "roundtrip" =>
    let d : Doc ← parse (← field a "doc") "doc"
    pure <| optDoc (decodeDoc cfg (encodeDoc cfg d))
  | "float_to_str" =>
    let ss ← getList asStr a "ss"
    pure <| Json.arr (ss.map (fun s => Json.str (floatToStr cfg.P s))).toArray
  | "names" =>
    let ss ← getList asStr a "ss"
    pure <| Json.arr (ss.map (fun s => Json.arr #[Json.str (xmlName s), Json.str (propName (xmlName s)), Json.str (xmlNameGoal s)])).toArray
  | _ => throw s!"C01: unknown op {op}"

end CR.Drv.C01
