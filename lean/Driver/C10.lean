import Driver.Util
import CRModel.Refs
open Lean CR.Drv

namespace CR.Drv.C10
open CR.Refs

def optOf {α} (f : Json → P α) (j : Json) (k : String) : P (Option α) :=
  match fieldOpt j k with
  | none => pure none
  | some v => do pure (some (← f v))

def ids (j : Json) (k : String) : P (List Nat) := getList asNat j k

def stopLine (j : Json) : P StopLine := do
  pure { signRef := ← optOf (listOf asNat) j "s", lightRef := ← optOf (listOf asNat) j "t" }

def lanelet (j : Json) : P Lanelet := do
  pure { id := ← getNat j "id", content := ← getNat j "c", pred := ← ids j "pred", succ := ← ids j "succ",
         adjL := ← optOf asNat j "adjL", adjLSame := ← optOf asBool j "adjLSame",
         adjR := ← optOf asNat j "adjR", adjRSame := ← optOf asBool j "adjRSame",
         signs := ← ids j "signs", lights := ← ids j "lights", stop := ← optOf stopLine j "stop" }

def incoming (j : Json) : P Incoming := do
  pure { id := ← getNat j "id", inc := ← ids j "inc", right := ← ids j "right", straight := ← ids j "straight",
         left := ← ids j "left", leftOf := ← optOf asNat j "leftOf" }

def intersection (j : Json) : P Intersection := do
  pure { id := ← getNat j "id", incomings := ← getList incoming j "incomings", crossings := ← ids j "crossings" }

def elem (j : Json) : P Elem := do
  match ← asArr j with
  | [a, b] => pure (← asNat a, ← asNat b)
  | _ => throw "elem: expected [id, content]"

def net (j : Json) : P Net := do
  pure { lanelets := ← getList lanelet j "lanelets", signs := ← getList elem j "signs",
         lights := ← getList elem j "lights", inters := ← getList intersection j "inters" }

def scn (j : Json) : P Scn := do
  pure { net := ← net (← field j "net"), ids := ← ids j "ids" }

def rmArg (j : Json) : P RmArg := do
  pure { id := ← getNat j "id", signs := ← ids j "signs", lights := ← ids j "lights" }

def op (j : Json) : P Op := do
  match ← getStr j "op" with
  | "net_remove_lanelet" => pure (.netRemoveLanelet (← getNat j "x"))
  | "net_remove_sign" => pure (.netRemoveSign (← getNat j "x"))
  | "net_remove_light" => pure (.netRemoveLight (← getNat j "x"))
  | "net_remove_inter" => pure (.netRemoveInter (← getNat j "x"))
  | "scn_remove_lanelets" => pure (.scnRemoveLanelets (← getList rmArg j "args") (← getBool j "ref"))
  | "scn_remove_signs" => pure (.scnRemoveSigns (← ids j "xs"))
  | "scn_remove_lights" => pure (.scnRemoveLights (← ids j "xs"))
  | "scn_remove_inters" => pure (.scnRemoveInters (← ids j "xs"))
  | "scn_remove_hanging" => pure (.scnRemoveHanging (← getList rmArg j "args"))
  | "cut_out" => pure (.cutOut (← ids j "keep") (← getBool j "cleanup"))
  | "from_list" => pure (.fromList (← ids j "sel") (← getBool j "cleanup"))
  | o => throw s!"C10: unknown history op {o}"

def natsJ (l : List Nat) : Json := Json.arr (l.map natJ).toArray
def optNatJ : Option Nat → Json := optJ natJ
def optBoolJ : Option Bool → Json := optJ Json.bool

def stopJ (st : StopLine) : Json :=
  Json.mkObj [("s", optJ natsJ st.signRef), ("t", optJ natsJ st.lightRef)]

def laneletJ (l : Lanelet) : Json :=
  Json.mkObj [("id", natJ l.id), ("c", natJ l.content), ("pred", natsJ l.pred), ("succ", natsJ l.succ),
    ("adjL", optNatJ l.adjL), ("adjLSame", optBoolJ l.adjLSame), ("adjR", optNatJ l.adjR),
    ("adjRSame", optBoolJ l.adjRSame), ("signs", natsJ l.signs), ("lights", natsJ l.lights),
    ("stop", optJ stopJ l.stop)]

def incomingJ (k : Incoming) : Json :=
  Json.mkObj [("id", natJ k.id), ("inc", natsJ k.inc), ("right", natsJ k.right), ("straight", natsJ k.straight),
    ("left", natsJ k.left), ("leftOf", optNatJ k.leftOf)]

def intersectionJ (i : Intersection) : Json :=
  Json.mkObj [("id", natJ i.id), ("incomings", Json.arr (i.incomings.map incomingJ).toArray),
    ("crossings", natsJ i.crossings)]

def elemJ (e : Elem) : Json := Json.arr #[natJ e.1, natJ e.2]

def netJ (n : Net) : Json :=
  Json.mkObj [("lanelets", Json.arr (n.lanelets.map laneletJ).toArray), ("signs", Json.arr (n.signs.map elemJ).toArray),
    ("lights", Json.arr (n.lights.map elemJ).toArray), ("inters", Json.arr (n.inters.map intersectionJ).toArray)]

def stepJ (r : Scn × Option CR.Err) : Json :=
  Json.mkObj [("net", netJ r.1.net), ("ids", natsJ r.1.ids),
    ("err", match r.2 with | none => Json.null | some e => Json.str e.toString),
    ("nd", Json.bool (decide (NoDangling r.1.net))), ("wf", Json.bool (decide (Wf r.1.net)))]

def pairJ (p : Nat × Nat) : Json := Json.arr #[natJ p.1, natJ p.2]

def selectionJ (x : Selection) : Json :=
  Json.mkObj [("L", natsJ x.lan), ("S", natsJ x.sign), ("T", natsJ x.light), ("I", natsJ x.inter),
    ("K", Json.arr (x.inc.map pairJ).toArray)]

def handle (o : String) (a : Json) : P Json := do
  match o with
  | "run" =>
    -- a whole history: the scenario after every step
    let s ← scn (← field a "init")
    let ops ← getList op a "ops"
    pure <| Json.arr ((s.trace ops).map stepJ).toArray
  | "selections" =>
    -- what every operation of the history selects for removal in the state it meets
    let s ← scn (← field a "init")
    let ops ← getList op a "ops"
    pure <| Json.arr ((s.selections ops).map selectionJ).toArray
  | "check" =>
    -- the two predicates of the property on one network
    let n ← net (← field a "net")
    pure <| Json.mkObj [("nd", Json.bool (decide (NoDangling n))), ("wf", Json.bool (decide (Wf n)))]
  | _ => throw s!"C10: unknown op {o}"

end CR.Drv.C10
