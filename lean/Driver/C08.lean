import Driver.Util
import CRModel.Goal
open Lean CR.Drv CR.Iv CR.Goal

namespace CR.Drv.C08

def ivOf (j : Json) : P I := do
  match ← asArr j with
  | [a, b] => pure ⟨← asRat a, ← asRat b⟩
  | _ => throw "interval: expected [lo, hi]"

def optOf {α} (f : Json → P α) (j : Json) (k : String) : P (Option α) :=
  match fieldOpt j k with
  | none => pure none
  | some v => do pure (some (← f v))

def goalOf (j : Json) : P (GState × Bool) := do
  let g : GState := { time := ← ivOf (← field j "time"), hasPos := ← getBool j "hasPos",
                      ori := ← optOf ivOf j "ori", vel := ← optOf ivOf j "vel" }
  pure (g, ← getBool j "inPos")

def stateOf (j : Json) : P St := do
  pure { t := ← getRat j "t", hasPos := ← getBool j "hasPos", ori := ← optOf asRat j "ori",
         vel := ← optOf asRat j "vel", velY := ← optOf asRat j "velY",
         speed := ← getRat j "speed", heading := ← getRat j "heading" }

def ansOf (j : Json) : P (CR.Res Bool) := do
  match fieldOpt j "ok" with
  | some b => pure (.ok (← asBool b))
  | none => pure (.error .value)

def handle (op : String) (a : Json) : P Json := do
  match op with
  | "is_reached" =>
    let τ ← getRat a "tau"
    let ε ← getRat a "eps"
    let goals ← getList goalOf a "goals"
    let s ← stateOf (← field a "state")
    pure <| resJ Json.bool (isReached τ ε goals s)
  | "goal_reached" =>
    let ans ← getList ansOf a "answers"
    pure <| resJ (fun (p : Bool × Int) => Json.arr #[Json.bool p.1, intJ p.2]) (goalReached ans)
  | _ => throw s!"C08: unknown op {op}"

end CR.Drv.C08
