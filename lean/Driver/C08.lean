import Driver.Util
import CRModel.Goal
open Lean CR.Drv CR.Iv CR.Goal

namespace CR.Drv.C08

def ivOf (j : Json) : P I := do
  match ← asArr j with
  | [a, b] => pure ⟨← asRat a, ← asRat b⟩
  | _ => throw "interval: expected [lo, hi]"

def optOf {α} (f : Json → P α) (j : Json) (k : String) : P (Option α) :=
  match fieldOpt j k with
  | none => pure none
  | some v => do pure (some (← f v))

def ptOf (j : Json) : P CR.Geom.Pt := do
  match ← asArr j with
  | [x, y] => pure ⟨← asRat x, ← asRat y⟩
  | _ => throw "point: expected [x, y]"

def primOf (j : Json) : P CR.Geom.Prim := do
  match ← getStr j "k" with
  | "rect" => pure (.rect (← getRat j "l") (← getRat j "w") (← ptOf (← field j "c")) (← getRat j "cos") (← getRat j "sin"))
  | "circ" => pure (.circ (← getRat j "r") (← ptOf (← field j "c")))
  | "poly" => pure (.poly (← getList ptOf j "v"))
  | k => throw s!"primitive kind {k}"

def shapeOf (j : Json) : P CR.Geom.Shape := do
  match ← getStr j "k" with
  | "group" => pure (.group (← getList primOf j "s"))
  | _ => pure (.prim (← primOf j))

def goalOf (j : Json) : P GState := do
  pure { time := ← ivOf (← field j "time"), pos := ← optOf shapeOf j "pos",
         ori := ← optOf ivOf j "ori", vel := ← optOf ivOf j "vel" }

def stateOf (j : Json) : P St := do
  pure { t := ← getRat j "t", pos := ← optOf ptOf j "pos", ori := ← optOf asRat j "ori",
         vel := ← optOf asRat j "vel", velY := ← optOf asRat j "velY" }

/-- A function given by a finite table `[[a, b, value], …]` (default 0): the harness lists the argument pairs the
    library could possibly evaluate; WHICH pair the model looks up is the model's own choice. -/
def tableFn (rows : List (Rat × Rat × Rat)) (a b : Rat) : Rat :=
  match rows.find? (fun r => r.1 == a && r.2.1 == b) with
  | some r => r.2.2
  | none => 0

def rowOf (j : Json) : P (Rat × Rat × Rat) := do
  match ← asArr j with
  | [a, b, v] => pure (← asRat a, ← asRat b, ← asRat v)
  | _ => throw "table row: expected [a, b, value]"

def ansOf (j : Json) : P (CR.Res Bool) := do
  match fieldOpt j "ok" with
  | some b => pure (.ok (← asBool b))
  | none => pure (.error .value)

def handle (op : String) (a : Json) : P Json := do
  match op with
  | "is_reached" =>
    let τ ← getRat a "tau"
    let ε ← getRat a "eps"
    let goals ← getList goalOf a "goals"
    let s ← stateOf (← field a "state")
    let F : Fns := ⟨tableFn (← getList rowOf a "hyp"), tableFn (← getList rowOf a "at2")⟩
    pure <| resJ Json.bool (isReached F τ ε goals s)
  | "is_reached_moved" =>
    -- the goal region after `translate_rotate(t, 0)`: the MODEL moves the goals (the harness sends the goals as they were)
    let τ ← getRat a "tau"
    let ε ← getRat a "eps"
    let goals ← getList goalOf a "goals"
    let s ← stateOf (← field a "state")
    let t ← ptOf (← field a "t")
    let F : Fns := ⟨tableFn (← getList rowOf a "hyp"), tableFn (← getList rowOf a "at2")⟩
    pure <| resJ Json.bool (isReachedMoved F τ ε t goals s)
  | "goal_reached" =>
    let ans ← getList ansOf a "answers"
    pure <| resJ (fun (p : Bool × Int) => Json.arr #[Json.bool p.1, intJ p.2]) (goalReached ans)
  | _ => throw s!"C08: unknown op {op}"

end CR.Drv.C08
