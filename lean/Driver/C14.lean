import Driver.Util
import CRModel.SolutionXml
open Lean CR.Drv CR.Sol

namespace CR.Drv.C14

/-- The codec the driver runs with.  Number / date texts arrive canonicalised by the harness to exact tokens
    (`float.hex()`, `str(int)`, the date text itself); a text Python could not parse arrives as `"!" ++ text`, an empty element (`elem.text is None`) as `""`. -/
def codec : Codec where
  fmtNum := id
  prsNum := fun s => if s == "" then .error .type else if s.startsWith "!" then .error .value else .ok s
  fmtInt := Int.repr
  prsInt := fun s => if s == "" then .error .type else match s.toInt? with | some i => .ok i | none => .error .value
  fmtDate := id
  prsDate := fun s => if s.startsWith "!" then none else some s
  isPos := fun s => !(s.startsWith "-") && s != "0x0.0p+0" && s != "nan"

def enumOf {α} (name : String) (f : String → Option α) (j : Json) : P α := do
  let s ← asStr j
  match f s with
  | some v => pure v
  | none => throw s!"unknown {name} {s}"

def asVModel := enumOf "vehicle model" VModel.ofName?
def asCost := enumOf "cost" Cost.ofName?
def asTType := enumOf "trajectory type" TType.ofName?
def asVType (j : Json) : P VType := do
  match VType.ofValue? (← asNat j) with
  | some v => pure v
  | none => throw "unknown vehicle type"

def optOf {α} (f : Json → P α) (j : Json) : P (Option α) :=
  match j with
  | .null => pure none
  | _ => some <$> f j

def getOpt {α} (f : Json → P α) (j : Json) (k : String) : P (Option α) :=
  match fieldOpt j k with
  | none => pure none
  | some v => some <$> f v

def asFVal (j : Json) : P FVal :=
  match j with
  | .null => pure .none
  | _ =>
    match fieldOpt j "n", fieldOpt j "v", fieldOpt j "t" with
    | some n, _, _ => do pure (.num (← asStr n))
    | _, some v, _ => do
      match ← asArr v with
      | [a, b] => pure (.vec (← asStr a) (← asStr b))
      | _ => throw "vec: expected two tokens"
    | _, _, some t => do pure (.time (← asInt t))
    | _, _, _ => throw s!"bad attribute value {j}"

def asPair {α β} (f : Json → P α) (g : Json → P β) (j : Json) : P (α × β) := do
  match ← asArr j with
  | [a, b] => pure (← f a, ← g b)
  | _ => throw "expected a pair"

def asState (j : Json) : P State := listOf (asPair asStr asFVal) j

def asTraj (j : Json) : P Traj := do
  pure ⟨← getInt j "init", ← getList asState j "states"⟩

def asPPS (j : Json) : P PPS := do
  pure ⟨← getInt j "id", ← asVModel (← field j "model"), ← asVType (← field j "vtype"),
        ← asCost (← field j "cost"), ← asTType (← field j "ttype"), ← asTraj (← field j "traj")⟩

def asDate (j : Json) : P Date := do
  match ← asArr j with
  | [a, b] => pure ⟨← asStr a, ← asNat b⟩
  | _ => throw "date: expected [sec, micro]"

def asSolution (j : Json) : P Solution := do
  pure ⟨← getStr j "scen", ← getStr j "ver", ← getList asPPS j "pps", ← getOpt asDate j "date",
        ← getOpt asStr j "ct", ← getOpt asStr j "proc"⟩

def asKV (j : Json) : P (String × String) := asPair asStr asStr j

def asLeaf (j : Json) : P Leaf := do
  let (a, b) ← asKV j
  pure ⟨a, b⟩

def asStateNode (j : Json) : P StateNode := do
  pure ⟨← getStr j "tag", ← getList asLeaf j "leaves"⟩

def asTrajNode (j : Json) : P TrajNode := do
  pure ⟨← getStr j "tag", ← getList asKV j "attrs", ← getList asStateNode j "states"⟩

def asBench (j : Json) : P Bench := do
  pure ⟨← getList asStr j "vids", ← getList asStr j "cids", ← getStr j "scen", ← getStr j "ver"⟩

def asRoot (j : Json) : P RootNode := do
  pure ⟨← getStr j "tag", ← asBench (← field j "bench"), ← getList asKV j "attrs", ← getList asTrajNode j "trajs"⟩

def asDoc (j : Json) : P RootDoc := do
  pure ⟨← getStr j "tag", ← getStr j "bid", ← getList asKV j "attrs", ← getList asTrajNode j "trajs"⟩

def strJ (s : String) : Json := Json.str s
def arrJ {α} (f : α → Json) (l : List α) : Json := Json.arr (l.map f).toArray
def kvJ (p : String × String) : Json := Json.arr #[strJ p.1, strJ p.2]

def fvalJ : FVal → Json
  | .num v => Json.mkObj [("n", strJ v)]
  | .vec a b => Json.mkObj [("v", Json.arr #[strJ a, strJ b])]
  | .time t => Json.mkObj [("t", intJ t)]
  | .none => Json.null

def stateJ (st : State) : Json := arrJ (fun p => Json.arr #[strJ p.1, fvalJ p.2]) st
def trajJ (t : Traj) : Json := Json.mkObj [("init", intJ t.init), ("states", arrJ stateJ t.states)]
def ppsJ (p : PPS) : Json :=
  Json.mkObj [("id", intJ p.ppId), ("model", strJ p.model.name), ("vtype", natJ p.vtype.value),
              ("cost", strJ p.cost.name), ("ttype", strJ p.ttype.name), ("traj", trajJ p.traj)]
def solJ (s : Solution) : Json :=
  Json.mkObj [("scen", strJ s.scen), ("ver", strJ s.ver), ("pps", arrJ ppsJ s.pps),
              ("date", optJ (fun d => Json.arr #[strJ d.sec, natJ d.micro]) s.date),
              ("ct", optJ strJ s.ct), ("proc", optJ strJ s.proc)]

def leafJ (l : Leaf) : Json := Json.arr #[strJ l.tag, strJ l.text]
def stateNodeJ (n : StateNode) : Json := Json.mkObj [("tag", strJ n.tag), ("leaves", arrJ leafJ n.leaves)]
def trajNodeJ (n : TrajNode) : Json :=
  Json.mkObj [("tag", strJ n.tag), ("attrs", arrJ kvJ n.attrs), ("states", arrJ stateNodeJ n.states)]
def rootJ (r : RootNode) : Json :=
  Json.mkObj [("tag", strJ r.tag), ("bid", strJ (benchString r.bench)),
              ("bench", Json.mkObj [("vids", arrJ strJ r.bench.vids), ("cids", arrJ strJ r.bench.cids),
                                    ("scen", strJ r.bench.scen), ("ver", strJ r.bench.ver)]),
              ("attrs", arrJ kvJ r.attrs), ("trajs", arrJ trajNodeJ r.trajs)]

def xsTypeJ : XsType → Json
  | .float => "xs:float" | .int => "xs:int" | .string => "xs:string" | .dateTime => "xs:dateTime"

def schemaJ (s : Schema) : Json :=
  Json.mkObj [("root", strJ s.root),
    ("trajs", arrJ (fun (d : TrajDecl) => Json.mkObj [("tag", strJ d.tag), ("state", strJ d.state.tag),
        ("leaves", arrJ (fun (p : String × XsType) => Json.arr #[strJ p.1, xsTypeJ p.2]) d.state.leaves)]) s.trajs),
    ("attrs", arrJ (fun (a : String × XsType × Bool) => Json.arr #[strJ a.1, xsTypeJ a.2.1, Json.bool a.2.2]) s.attrs)]

def handle (op : String) (a : Json) : P Json := do
  match op with
  | "schema" => pure (schemaJ solSchema)
  | "tables" =>
    pure <| arrJ (fun T => Json.mkObj [("name", strJ T.name), ("state", strJ (stateTag T)), ("traj", strJ (trajTag T)),
      ("fields", arrJ strJ (fields T)),
      ("xml", arrJ (fun x => match x with | XName.one n => strJ n | XName.pair p q => Json.arr #[strJ p, strJ q]) (xmlFields T)),
      ("class", arrJ strJ (classAttrs T))]) TType.all
  | "get_state_type" =>
    let attrs ← getList asStr a "attrs"
    let m ← getOpt asVModel a "model"
    pure <| resJ (fun T => strJ T.name) (getStateType attrs m)
  | "construct" =>
    -- Trajectory(init, states) then PlanningProblemSolution(id, model, vtype, cost, trajectory)
    let init ← getInt a "init"
    let states ← getList asState a "states"
    let m ← asVModel (← field a "model")
    let vt ← asVType (← field a "vtype")
    let cf ← asCost (← field a "cost")
    let ppId ← getInt a "id"
    let r : Res PPS := (mkTraj init states).bind (mkPPS ppId m vt cf)
    pure <| resJ (fun p => strJ p.ttype.name) r
  | "encode" =>
    let s ← asSolution (← field a "sol")
    let auto ← getOpt asStr a "auto"
    pure <| resJ rootJ (encodeSol codec auto s)
  | "decode" =>
    -- string level: the benchmark id is parsed from the attribute text by C13's model (ISO-3166 table from the harness)
    let d ← asDoc (← field a "tree")
    let cs ← getList asStr a "countries"
    pure <| resJ solJ (decodeDoc codec (cs.map String.toList) d)
  | "dict_of" =>
    -- `{s.planning_problem_id: s for s in planning_problem_solutions}.values()`
    let ps ← getList asPPS a "pps"
    pure <| arrJ ppsJ (dictOf ps)
  | "decode_tokens" =>
    let r ← asRoot (← field a "tree")
    pure <| resJ solJ (decodeSol codec r)
  | "set_trajectory" =>
    -- PlanningProblemSolution(id, model, vtype, cost, decoy) then `.trajectory = Trajectory(init, states)`
    let ppId ← getInt a "id"
    let m ← asVModel (← field a "model")
    let vt ← asVType (← field a "vtype")
    let cf ← asCost (← field a "cost")
    let decoy ← asTraj (← field a "decoy")
    let init ← getInt a "init"
    let states ← getList asState a "states"
    let r : Res PPS := (mkTraj init states).bind fun tr => (mkPPS ppId m vt cf decoy).bind fun p => setTrajectory p tr
    pure <| resJ (fun p => strJ p.ttype.name) r
  | "py_texts" =>
    -- the grammar assumptions of C14_sol_valid_xsd / C14_sol_roundtrip_py on the texts Python wrote
    let nums ← getList asStr a "nums"
    let dates ← getList asStr a "dates"
    let times ← getList asStr a "times"
    pure <| Json.mkObj [
      ("nums", arrJ (fun t => Json.bool (pyNumL t.toList && Lex.xsd.float t)) nums),
      ("dates", arrJ (fun t => Json.bool (pyDateL t.toList && Lex.xsd.dateTime t)) dates),
      ("times", arrJ (fun t => Json.bool (match t.toInt? with
          | some i => t == Int.repr i && (Lex.xsd.int t == decide (-2147483648 ≤ i ∧ i ≤ 2147483647))
          | none => false)) times)]
  | "roundtrip" =>
    let s ← asSolution (← field a "sol")
    let auto ← getOpt asStr a "auto"
    pure <| resJ solJ ((encodeSol codec auto s).bind (decodeSol codec))
  | "norm" =>
    let s ← asSolution (← field a "sol")
    let auto ← getOpt asStr a "auto"
    pure <| solJ (normSol auto s)
  | "validate" =>
    let r ← asRoot (← field a "tree")
    pure <| Json.bool (validate Lex.xsd solSchema r)
  | "in_schema_order" =>
    let tags ← getList asStr a "tags"
    pure <| Json.bool (inSchemaOrder solSchema tags)
  | _ => throw s!"C14: unknown op {op}"

end CR.Drv.C14
