/-
  Driver.C02 — JSON front end of the protobuf codec model (CRModel.CRProto).
  ops: encode {x, T} → {"ok": tree} | {"err": cls};  decode {m} → {"ok": snapshot} | {"err": cls};
       roundtrip {x} → decodePb (encScn x);  norm {x} → normPb x;  spec_classes {x};  canon {x} → wf/typed/canon/inits_ok;  tables {} → the tables hard-wired in the model.
  Snapshots use the JSON layout of Lean's derived ToJson/FromJson (structures: objects, inductives: {"ctor": {args}}).
  Message trees:  null | {"u":n} | {"i":n} | {"d":"hex"} | true/false | {"s":"…"} | {"e":[type,name]} | {"m":{field:tree}} |
  [tree…] | {"err":cls}.
-/
import Driver.Util
import CRModel.CRProto
open Lean CR.Drv CR.PBF

namespace CR.PBF

instance : ToJson Dbl := ⟨fun d => Json.str d.hex⟩
instance : FromJson Dbl := ⟨fun j => do let s ← j.getStr?; pure ⟨s⟩⟩

deriving instance ToJson, FromJson for Pt, Shape, IntEOI, FloatEOI, Pos, St, Sig, Occ, SetPred, Pred, StaticObs, DynObs,
  EnvObs, Phantom, Goal, PP, Stop, Lanelet, SignEl, Sign, CycEl, Light, Incoming, Inter, Tm, Envr, Geo, Loc, Info, Scn

partial def pbToJson : PB → Json
  | .null => Json.null
  | .u32 i => Json.mkObj [("u", intJ i)]
  | .i32 i => Json.mkObj [("i", intJ i)]
  | .dbl d => Json.mkObj [("d", Json.str d.hex)]
  | .bool b => Json.bool b
  | .str s => Json.mkObj [("s", Json.str s)]
  | .enum ty n => Json.mkObj [("e", Json.arr #[Json.str ty, Json.str n])]
  | .msg fs => Json.mkObj [("m", Json.mkObj (fs.filterMap fun (k, v) => if v.isSet then some (k, pbToJson v) else none))]
  | .rep l => Json.arr (l.map pbToJson).toArray
  | .err e => Json.mkObj [("err", Json.str e.toString)]

partial def pbOfJson (j : Json) : P PB :=
  match j with
  | .null => pure .null
  | .bool b => pure (.bool b)
  | .arr a => do pure (.rep (← a.toList.mapM pbOfJson))
  | .obj _ =>
    match j.getObjVal? "u", j.getObjVal? "i", j.getObjVal? "d", j.getObjVal? "s", j.getObjVal? "e", j.getObjVal? "m" with
    | .ok v, _, _, _, _, _ => do pure (.u32 (← asInt v))
    | _, .ok v, _, _, _, _ => do pure (.i32 (← asInt v))
    | _, _, .ok v, _, _, _ => do pure (.dbl ⟨← asStr v⟩)
    | _, _, _, .ok v, _, _ => do pure (.str (← asStr v))
    | _, _, _, _, .ok v, _ => do
        match ← asArr v with
        | [a, b] => pure (.enum (← asStr a) (← asStr b))
        | _ => throw "enum: expected [type, name]"
    | _, _, _, _, _, .ok (.obj kvs) => do
        let fs ← kvs.toList.mapM fun (k, v) => do pure (k, ← pbOfJson v)
        pure (.msg fs)
    | _, _, _, _, _, _ => throw s!"bad message tree node {j.compress}"
  | _ => throw s!"bad message tree node {j.compress}"

end CR.PBF

namespace CR.Drv.C02

def scn (a : Json) : P Scn := do
  match (fromJson? (← field a "x") : Except String Scn) with
  | .ok x => pure x
  | .error e => throw s!"snapshot: {e}"

def tables (a : Json) : P Tables := do
  match ← field a "T" with
  | .obj kvs => kvs.toList.mapM fun (k, v) => do pure (k, ← listOf asStr v)
  | _ => throw "T: expected an object"

def strs (l : List String) : Json := Json.arr (l.map Json.str).toArray

def handle (op : String) (a : Json) : P Json := do
  match op with
  | "encode" => pure <| resJ pbToJson (encodePb (← tables a) (← scn a))
  | "decode" => pure <| resJ toJson (decodePb (← pbOfJson (← field a "m")))
  | "roundtrip" => pure <| resJ toJson (decodePb (encScn (← scn a)))
  | "norm" => pure <| toJson (normPb (← scn a))
  | "history" => do
    -- one writer object, a list of calls {x: the scenario's content at that call, pps: true = write_to_file, false =
    -- write_scenario_to_file}: the file (or exception class) of every call
    let T ← tables a
    let calls ← (← getList pure a "calls").mapM fun c => do
      match (fromJson? (← field c "x") : Except String Scn) with
      | .ok x => pure (x, ← getBool c "pps")
      | .error e => throw s!"history snapshot: {e}"
    pure <| Json.arr ((Wr.runChecked T Wr.new calls).map (resJ pbToJson)).toArray
  | "spec_classes" => do
    -- the class each non-initial state denotes (`St.specClass`, computed from the snapshot alone), in traversal order
    let x ← scn a
    let traj := x.dynamic.flatMap fun o => match o.pred with
      | some (.traj _ states _) => states.map St.specClass
      | _ => []
    let goals := x.pps.flatMap fun p => p.goals.map fun g => g.state.specClass
    pure <| Json.mkObj [("traj", strs traj), ("goals", strs goals)]
  | "canon" => do
    let x ← scn a
    let initsOk := x.static.all (fun o => o.init.initOk) && x.dynamic.all (fun o => o.init.initOk) && x.pps.all (fun p => p.init.initOk)
    pure <| Json.mkObj [("wf", Json.bool x.wf), ("typed", Json.bool x.typed), ("canon", Json.bool x.canon),
      ("inits_ok", Json.bool initsOk)]
  | "tables" =>
    pure <| Json.mkObj [("state_fields", strs stateFields),
      ("classes", Json.arr (stateClasses.map fun (c, as) => Json.arr #[Json.str c, strs as]).toArray),
      ("init_fields", strs initFields),
      ("sign_fields", Json.arr (signCountries.map fun c => Json.arr #[Json.str c, Json.str (signField c)]).toArray)]
  | _ => throw s!"C02: unknown op {op}"

end CR.Drv.C02
