import Driver.Util
import CRModel.BenchId
open Lean CR.Drv CR.BenchId

namespace CR.Drv.C13

def asChars (j : Json) : P Str := do pure (← asStr j).toList
def strJ (s : Str) : Json := Json.str (String.ofList s)

def asPred (j : Json) : P Pred :=
  match j with
  | .null => pure .none
  | .arr a => do pure (.many (← a.toList.mapM asInt))
  | _ => do pure (.one (← asInt j))

def predJ : Pred → Json
  | .none => Json.null
  | .one n => intJ n
  | .many l => Json.arr (l.map intJ).toArray

def optField {α} (f : Json → P α) (j : Json) (k : String) : P (Option α) :=
  match fieldOpt j k with
  | none => pure none
  | some v => do pure (some (← f v))

def asRaw (j : Json) : P Raw := do
  pure { coop := ← getBool j "coop", country := ← optField asChars j "country", mapName := ← asChars (← field j "map_name"),
         mapId := ← getInt j "map_id", config := ← optField asInt j "config", beh := ← optField asChars j "beh",
         pred := ← asPred ((j.getObjVal? "pred").toOption.getD Json.null), version := ← asChars (← field j "version") }

def idJ (i : Id) : Json :=
  Json.mkObj [("coop", Json.bool i.coop), ("country", strJ i.country), ("map_name", strJ i.mapName),
              ("map_id", intJ i.mapId), ("config", optJ intJ i.config), ("beh", optJ strJ i.beh),
              ("pred", predJ i.pred), ("version", strJ i.version)]

def modelOfName (s : Str) : P VModel :=
  match VModel.all.find? (fun m => m.name = s) with
  | some m => pure m
  | none => throw s!"unknown vehicle model {String.ofList s}"

def typeOfValue (n : Nat) : P VType :=
  match VType.all.find? (fun t => t.value = n) with
  | some t => pure t
  | none => throw s!"unknown vehicle type {n}"

def costOfName (s : Str) : P Cost :=
  match Cost.all.find? (fun k => k.name = s) with
  | some k => pure k
  | none => throw s!"unknown cost function {String.ofList s}"

def asVehicle (j : Json) : P (VModel × VType) := do
  match ← asArr j with
  | [m, t] => pure (← modelOfName (← asChars m), ← typeOfValue (← asNat t))
  | _ => throw "vehicle: expected [model, type]"

def vehicleJ (v : VModel × VType) : Json := Json.arr #[strJ v.1.name, natJ v.2.value]

def ppsJ (p : List (VModel × VType × Cost) × Id) : Json :=
  Json.mkObj [("vehicles", Json.arr (p.1.map fun x => vehicleJ (x.1, x.2.1)).toArray),
              ("costs", Json.arr (p.1.map fun x => strJ x.2.2.name).toArray),
              ("id", idJ p.2)]

def handle (op : String) (a : Json) : P Json := do
  let cs ← getList asChars a "cs"
  match op with
  | "sid" =>
    -- constructor, print, parse of the print, print of the parse
    let raws ← getList asRaw a "raws"
    pure <| Json.arr (raws.map fun r =>
      match mk cs r with
      | .error e => errJ e
      | .ok i =>
        let s := print i
        let back := parse cs s i.version
        okJ (Json.mkObj [("id", idJ i), ("str", strJ s), ("parsed", resJ idJ back),
                         ("restr", match back with | .ok i2 => strJ (print i2) | .error _ => Json.null)])).toArray
  | "parse" =>
    let items ← getList (fun j => do
      match ← asArr j with
      | [s, v] => pure (← asChars s, ← asChars v)
      | _ => throw "parse: expected [string, version]") a "items"
    pure <| Json.arr (items.map fun (s, v) =>
      match parse cs s v with
      | .error e => errJ e
      | .ok i => okJ (Json.mkObj [("id", idJ i), ("str", strJ (print i))])).toArray
  | "sol" =>
    let sols ← getList (fun j => do
      pure (← asRaw (← field j "raw"), ← getList asVehicle j "vs", ← getList (fun c => do costOfName (← asChars c)) j "costs")) a "sols"
    pure <| Json.arr (sols.map fun (r, vs, costs) =>
      match mk cs r with
      | .error e => errJ e
      | .ok i =>
        let b := benchmarkId vs costs i
        okJ (Json.mkObj [("bid", strJ b), ("read", resJ ppsJ (readSolutionIds cs b vs.length))])).toArray
  | "bid_parse" =>
    -- `_parse_benchmark_id` on arbitrary strings
    let items ← getList asChars a "items"
    pure <| Json.arr (items.map fun s =>
      resJ (fun (r : List Str × List Str × Id) =>
        Json.mkObj [("vehicle_ids", Json.arr (r.1.map strJ).toArray), ("cost_ids", Json.arr (r.2.1.map strJ).toArray),
                    ("id", idJ r.2.2)]) (parseBenchmarkId cs s)).toArray
  | "vid_parse" =>
    let items ← getList asChars a "items"
    pure <| Json.arr (items.map fun s => resJ vehicleJ (parseVehicleId s)).toArray
  | "read_ids" =>
    let items ← getList (fun j => do
      match ← asArr j with
      | [s, n] => pure (← asChars s, ← asNat n)
      | _ => throw "read_ids: expected [string, n]") a "items"
    pure <| Json.arr (items.map fun (s, n) => resJ ppsJ (readSolutionIds cs s n)).toArray
  | _ => throw s!"C13: unknown op {op}"

end CR.Drv.C13
