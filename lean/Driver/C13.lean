import Driver.Util
import CRModel.BenchId
open Lean CR.Drv CR.BenchId

namespace CR.Drv.C13

def asChars (j : Json) : P Str := do pure (← asStr j).toList
def strJ (s : Str) : Json := Json.str (String.ofList s)

def asPred (j : Json) : P Pred :=
  match j with
  | .null => pure .none
  | .arr a => do pure (.many (← a.toList.mapM asInt))
  | _ => do pure (.one (← asInt j))

def predJ : Pred → Json
  | .none => Json.null
  | .one n => intJ n
  | .many l => Json.arr (l.map intJ).toArray

def optField {α} (f : Json → P α) (j : Json) (k : String) : P (Option α) :=
  match fieldOpt j k with
  | none => pure none
  | some v => do pure (some (← f v))

def asRaw (j : Json) : P Raw := do
  pure { coop := ← getBool j "coop", country := ← optField asChars j "country", mapName := ← asChars (← field j "map_name"),
         mapId := ← getInt j "map_id", config := ← optField asInt j "config", beh := ← optField asChars j "beh",
         pred := ← asPred ((j.getObjVal? "pred").toOption.getD Json.null), version := ← asChars (← field j "version") }

def idJ (i : Id) : Json :=
  Json.mkObj [("coop", Json.bool i.coop), ("country", strJ i.country), ("map_name", strJ i.mapName),
              ("map_id", intJ i.mapId), ("config", optJ intJ i.config), ("beh", optJ strJ i.beh),
              ("pred", predJ i.pred), ("version", strJ i.version)]

def modelOfName (s : Str) : P VModel :=
  match VModel.all.find? (fun m => m.name = s) with
  | some m => pure m
  | none => throw s!"unknown vehicle model {String.ofList s}"

def typeOfValue (n : Nat) : P VType :=
  match VType.all.find? (fun t => t.value = n) with
  | some t => pure t
  | none => throw s!"unknown vehicle type {n}"

def costOfName (s : Str) : P Cost :=
  match Cost.all.find? (fun k => k.name = s) with
  | some k => pure k
  | none => throw s!"unknown cost function {String.ofList s}"

def asVehicle (j : Json) : P (VModel × VType) := do
  match ← asArr j with
  | [m, t] => pure (← modelOfName (← asChars m), ← typeOfValue (← asNat t))
  | _ => throw "vehicle: expected [model, type]"

def vehicleJ (v : VModel × VType) : Json := Json.arr #[strJ v.1.name, natJ v.2.value]

def ppsJ (p : List (VModel × VType × Cost) × Id) : Json :=
  Json.mkObj [("vehicles", Json.arr (p.1.map fun x => vehicleJ (x.1, x.2.1)).toArray),
              ("costs", Json.arr (p.1.map fun x => strJ x.2.2.name).toArray),
              ("id", idJ p.2)]

/-- keyword arguments: a missing key = argument omitted; `null` = explicit `None` (country / config / beh / pred) -/
def kwField {α} (f : Json → P α) (j : Json) (k : String) : P (Option α) :=
  match j.getObjVal? k with
  | .ok v => do pure (some (← f v))
  | .error _ => pure none

def nullOr {α} (f : Json → P α) (j : Json) : P (Option α) :=
  match j with
  | .null => pure none
  | v => do pure (some (← f v))

def asKw (j : Json) : P Kw := do
  pure { coop := ← kwField asBool j "coop", country := ← kwField (nullOr asChars) j "country",
         mapName := ← kwField asChars j "map_name", mapId := ← kwField asInt j "map_id",
         config := ← kwField (nullOr asInt) j "config", beh := ← kwField (nullOr asChars) j "beh",
         pred := ← kwField asPred j "pred", version := ← kwField asChars j "version" }

/-- `[name, value]`: an attribute assignment, or `none` for a read-only query (`str`, `hash`, `eq`, …) -/
def asOp (j : Json) : P (Option Op × String) := do
  match ← asArr j with
  | [n, v] =>
    let name ← asStr n
    match name with
    | "coop" => pure (some (.coop (← asBool v)), name)
    | "country" => pure (some (.country (← nullOr asChars v)), name)
    | "map_name" => pure (some (.mapName (← asChars v)), name)
    | "map_id" => pure (some (.mapId (← asInt v)), name)
    | "config" => pure (some (.config (← nullOr asInt v)), name)
    | "beh" => pure (some (.beh (← nullOr asChars v)), name)
    | "pred" => pure (some (.pred (← asPred v)), name)
    | "version" => pure (some (.version (← asChars v)), name)
    | _ => pure (none, name)
  | _ => throw "op: expected [name, value]"

def asTraj (j : Json) : P Traj := do
  match ← asStr j with
  | "input" => pure .input
  | "pminput" => pure .pmInput
  | s => do pure (.state (← modelOfName s.toList))

def asPps (j : Json) : P Pps := do
  match ← asArr j with
  | [pid, m, t, c, tr] =>
    pure { pid := ← asInt pid, model := ← modelOfName (← asChars m), vtype := ← typeOfValue (← asNat t),
           cost := ← costOfName (← asChars c), traj := ← asTraj tr }
  | _ => throw "pps: expected [pid, model, type, cost, traj]"

def asSOp (cs : List Str) (j : Json) : P SOp := do
  match ← asArr j with
  | [n] =>
    match ← asStr n with
    | "same" => pure .same
    | "rev" => pure .rev
    | _ => pure .query
  | [n, a] =>
    match ← asStr n with
    | "setpps" => pure (.setList (← listOf asNat a))
    | "sid" =>
      match mk cs (← asRaw a) with
      | .ok i => pure (.sid i)
      | .error _ => throw "solhist: sid op with arguments the constructor rejects"
    | _ => throw "solhist: unknown unary op"
  | [n, a, b] =>
    match ← asStr n with
    | "model" => pure (.pps (← asNat a) (.model (← modelOfName (← asChars b))))
    | "vtype" => pure (.pps (← asNat a) (.vtype (← typeOfValue (← asNat b))))
    | "cost" => pure (.pps (← asNat a) (.cost (← costOfName (← asChars b))))
    | "traj" => pure (.pps (← asNat a) (.traj (← asTraj b)))
    | "sidset" =>
      match ← asOp (Json.arr #[a, b]) with
      | (some op, _) => pure (.sidOp op)
      | (none, _) => throw "solhist: sidset of an unknown attribute"
    | _ => throw "solhist: unknown binary op"
  | _ => throw "solhist: bad op"

/-- the record every scenario-id op answers with: fields, print, parse of the print, print of the parse -/
def idRecord (cs : List Str) (i : Id) (extra : List (String × Json)) : Json :=
  let s := print i
  let back := parse cs s i.version
  Json.mkObj ([("id", idJ i), ("str", strJ s), ("parsed", resJ idJ back),
               ("restr", match back with | .ok i2 => strJ (print i2) | .error _ => Json.null)] ++ extra)

def handle (op : String) (a : Json) : P Json := do
  let cs ← getList asChars a "cs"
  match op with
  | "sid" =>
    -- constructor, print, parse of the print, print of the parse
    let raws ← getList asRaw a "raws"
    pure <| Json.arr (raws.map fun r =>
      match mk cs r with
      | .error e => errJ e
      | .ok i =>
        let s := print i
        let back := parse cs s i.version
        okJ (Json.mkObj [("id", idJ i), ("str", strJ s), ("parsed", resJ idJ back),
                         ("restr", match back with | .ok i2 => strJ (print i2) | .error _ => Json.null)])).toArray
  | "parse" =>
    let items ← getList (fun j => do
      match ← asArr j with
      | [s, v] => pure (← asChars s, ← asChars v)
      | _ => throw "parse: expected [string, version]") a "items"
    pure <| Json.arr (items.map fun (s, v) =>
      match parse cs s v with
      | .error e => errJ e
      | .ok i => okJ (Json.mkObj [("id", idJ i), ("str", strJ (print i))])).toArray
  | "sol" =>
    let sols ← getList (fun j => do
      pure (← asRaw (← field j "raw"), ← getList asVehicle j "vs", ← getList (fun c => do costOfName (← asChars c)) j "costs")) a "sols"
    pure <| Json.arr (sols.map fun (r, vs, costs) =>
      match mk cs r with
      | .error e => errJ e
      | .ok i =>
        let b := benchmarkId vs costs i
        okJ (Json.mkObj [("bid", strJ b), ("read", resJ ppsJ (readSolutionIds cs b vs.length))])).toArray
  | "bid_parse" =>
    -- `_parse_benchmark_id` on arbitrary strings
    let items ← getList asChars a "items"
    pure <| Json.arr (items.map fun s =>
      resJ (fun (r : List Str × List Str × Id) =>
        Json.mkObj [("vehicle_ids", Json.arr (r.1.map strJ).toArray), ("cost_ids", Json.arr (r.2.1.map strJ).toArray),
                    ("id", idJ r.2.2)]) (parseBenchmarkId cs s)).toArray
  | "vid_parse" =>
    let items ← getList asChars a "items"
    pure <| Json.arr (items.map fun s => resJ vehicleJ (parseVehicleId s)).toArray
  | "read_ids" =>
    let items ← getList (fun j => do
      match ← asArr j with
      | [s, n] => pure (← asChars s, ← asNat n)
      | _ => throw "read_ids: expected [string, n]") a "items"
    pure <| Json.arr (items.map fun (s, n) => resJ ppsJ (readSolutionIds cs s n)).toArray
  | "sidkw" =>
    -- constructor with any subset of its arguments, then as `sid`
    let kws ← getList asKw a "kws"
    pure <| Json.arr (kws.map fun k =>
      match mk cs k.fill with
      | .error e => errJ e
      | .ok i => okJ (idRecord cs i [])).toArray
  | "hist" =>
    -- constructor, then a history of attribute assignments (and read-only queries), then as `sid`
    let items ← getList (fun j => do pure (← asRaw (← field j "raw"), ← getList asOp j "ops")) a "items"
    pure <| Json.arr (items.map fun (r, ops) =>
      match mk cs r with
      | .error e => errJ e
      | .ok i0 =>
        let (i, errs, prints) := ops.foldl (fun (acc : Id × List Json × List Json) (o : Option Op × String) =>
          let (i, errs, prints) := acc
          match o with
          | (none, name) => (i, errs ++ [Json.null], if name = "str" then prints ++ [strJ (print i)] else prints)
          | (some op, _) =>
            match applyOp cs i op with
            | .ok j => (j, errs ++ [Json.null], prints)
            | .error e => (i, errs ++ [Json.str e.toString], prints)) (i0, [], [])
        okJ (idRecord cs i [("errs", Json.arr errs.toArray), ("prints", Json.arr prints.toArray)])).toArray
  | "solhist" =>
    let items ← getList (fun j => do
      pure (← asRaw (← field j "raw"), ← getList asPps j "pps", ← getList (asSOp cs) j "ops")) a "items"
    pure <| Json.arr (items.map fun (r, pps, ops) =>
      match mk cs r with
      | .error e => errJ e
      | .ok i0 =>
        match pps.mapM Pps.check with
        | .error e => errJ e
        | .ok objs =>
          let s0 : SolState := { objs := objs, held := (List.range objs.length).foldl (insertIdx objs) [], sid := i0 }
          let (s, errs, bids) := ops.foldl (fun (acc : SolState × List Json × List Json) (o : SOp) =>
            let (s, errs, bids) := acc
            match stepSol cs s o with
            | none => (s, errs ++ [Json.bool true], bids)
            | some s' =>
              (s', errs ++ [Json.bool false], match o with | .query => bids ++ [strJ s.benchmarkId] | _ => bids)) (s0, [], [])
          let b := s.benchmarkId
          okJ (Json.mkObj [("bid", strJ b), ("read", resJ ppsJ (readSolutionIds cs b s.held.length)),
                           ("held", Json.arr (s.pps.map fun p => Json.arr #[intJ p.pid, strJ p.model.name, natJ p.vtype.value,
                                                                           strJ p.cost.name]).toArray),
                           ("errs", Json.arr errs.toArray), ("bids", Json.arr bids.toArray)])).toArray
  | "tables" =>
    -- the enumerations and constants the model is built on, for comparison with the working tree
    let trajs : List (String × Traj) := [("input", .input), ("pminput", .pmInput)] ++ VModel.all.map fun m => ("state:" ++ String.ofList m.name, Traj.state m)
    pure <| Json.mkObj [
      ("models", Json.arr (VModel.all.map fun m => strJ m.name).toArray),
      ("types", Json.arr (VType.all.map fun t => natJ t.value).toArray),
      ("costs", Json.arr (Cost.all.map fun k => strJ k.name).toArray),
      ("supported", Json.mkObj (VModel.all.map fun m => (String.ofList m.name, Json.arr ((supportedCosts m).map fun k => strJ k.name).toArray))),
      ("traj", Json.mkObj (trajs.map fun (n, t) => (n, Json.arr ((VModel.all.filter t.validFor).map fun m => strJ m.name).toArray))),
      ("versions", Json.arr (supported.map strJ).toArray), ("default_version", strJ defaultVersion),
      ("default_name", strJ defaultName)]
  | _ => throw s!"C13: unknown op {op}"

end CR.Drv.C13
