/-
  CRProofs.RefsPresent — which elements an operation leaves in the network ("every element not selected for removal
  is still present", "signs and lights are removed together with a lanelet only if no remaining lanelet references
  them"): lemmas for CRProps.C10.
-/
import CRModel.Refs
import CRProofs.Refs

namespace CR.Refs

/-- id of an intersection with the ids of its incoming elements -/
def Intersection.shape (i : Intersection) : Id × List Id := (i.id, i.incomings.map (·.id))
def Net.shapes (n : Net) : List (Id × List Id) := n.inters.map Intersection.shape

theorem Intersection.cleanL_shape (P : Id → Bool) (i : Intersection) : (i.cleanL P).shape = i.shape := by
  simp [Intersection.shape, Intersection.cleanL, List.map_map, Function.comp_def, Incoming.cleanL]

theorem Net.cleanupLaneletRefs_shapes (n : Net) : n.cleanupLaneletRefs.shapes = n.shapes := by
  simp [Net.shapes, Net.cleanupLaneletRefs, List.map_map, Function.comp_def, Intersection.cleanL_shape]

theorem filter_ne_self_of_not_mem {xs : List Id} {x : Id} (h : x ∉ xs) : xs.filter (· != x) = xs := by
  apply List.filter_eq_self.2
  intro a ha
  simp only [bne_iff_ne, ne_eq]
  rintro rfl
  exact h ha

theorem filter_fst_ne_self_of_not_mem {xs : List Elem} {x : Id} (h : x ∉ xs.map (·.1)) :
    xs.filter (fun s => s.1 != x) = xs := by
  apply List.filter_eq_self.2
  intro a ha
  simp only [bne_iff_ne, ne_eq]
  intro e
  exact h (List.mem_map.2 ⟨a, ha, e⟩)

/-! ### network-level operations -/

theorem removeLanelet_lids (n : Net) (x : Id) : (n.removeLanelet x).lids = n.lids.filter (· != x) := by
  unfold Net.removeLanelet
  split
  · rw [Net.cleanupLaneletRefs_lids]
    simp [Net.lids, List.filter_map, Function.comp_def]
  · rename_i h
    rw [filter_ne_self_of_not_mem (by simpa using h)]

theorem removeLanelet_signs (n : Net) (x : Id) : (n.removeLanelet x).signs = n.signs := by
  unfold Net.removeLanelet; split <;> rfl
theorem removeLanelet_lights (n : Net) (x : Id) : (n.removeLanelet x).lights = n.lights := by
  unfold Net.removeLanelet; split <;> rfl
theorem removeLanelet_shapes (n : Net) (x : Id) : (n.removeLanelet x).shapes = n.shapes := by
  unfold Net.removeLanelet
  split
  · rw [Net.cleanupLaneletRefs_shapes]; rfl
  · rfl

theorem removeSign_signs (n : Net) (x : Id) : (n.removeSign x).signs = n.signs.filter (fun s => s.1 != x) := by
  unfold Net.removeSign
  split
  · rfl
  · rename_i h
    rw [filter_fst_ne_self_of_not_mem (by simpa [Net.sids] using h)]
theorem removeSign_lids (n : Net) (x : Id) : (n.removeSign x).lids = n.lids := by
  unfold Net.removeSign
  split
  · rw [Net.cleanupSignRefs_lids]; rfl
  · rfl
theorem removeSign_lights (n : Net) (x : Id) : (n.removeSign x).lights = n.lights := by
  unfold Net.removeSign; split <;> rfl
theorem removeSign_inters (n : Net) (x : Id) : (n.removeSign x).inters = n.inters := by
  unfold Net.removeSign; split <;> rfl

theorem removeLight_lights (n : Net) (x : Id) : (n.removeLight x).lights = n.lights.filter (fun s => s.1 != x) := rfl
theorem removeLight_lids (n : Net) (x : Id) : (n.removeLight x).lids = n.lids := by
  unfold Net.removeLight; rw [Net.cleanupLightRefs_lids]; rfl
theorem removeLight_signs (n : Net) (x : Id) : (n.removeLight x).signs = n.signs := rfl
theorem removeLight_inters (n : Net) (x : Id) : (n.removeLight x).inters = n.inters := rfl

theorem removeInter_lanelets (n : Net) (x : Id) : (n.removeInter x).lanelets = n.lanelets := rfl
theorem removeInter_signs (n : Net) (x : Id) : (n.removeInter x).signs = n.signs := rfl
theorem removeInter_lights (n : Net) (x : Id) : (n.removeInter x).lights = n.lights := rfl
theorem removeInter_inters (n : Net) (x : Id) : (n.removeInter x).inters = n.inters.filter (fun i => i.id != x) := rfl

theorem removeSign_sids (n : Net) (x : Id) : (n.removeSign x).sids = n.sids.filter (· != x) := by
  simp [Net.sids, removeSign_signs, List.filter_map, Function.comp_def]
theorem removeLight_tids (n : Net) (x : Id) : (n.removeLight x).tids = n.tids.filter (· != x) := by
  simp [Net.tids, removeLight_lights, List.filter_map, Function.comp_def]
theorem removeSign_shapes (n : Net) (x : Id) : (n.removeSign x).shapes = n.shapes := by
  simp [Net.shapes, removeSign_inters]
theorem removeLight_shapes (n : Net) (x : Id) : (n.removeLight x).shapes = n.shapes := rfl
theorem removeLanelet_sids (n : Net) (x : Id) : (n.removeLanelet x).sids = n.sids := by
  simp [Net.sids, removeLanelet_signs]
theorem removeLanelet_tids (n : Net) (x : Id) : (n.removeLanelet x).tids = n.tids := by
  simp [Net.tids, removeLanelet_lights]
theorem removeLight_sids (n : Net) (x : Id) : (n.removeLight x).sids = n.sids := rfl
theorem removeSign_tids (n : Net) (x : Id) : (n.removeSign x).tids = n.tids := by
  simp [Net.tids, removeSign_lights]

/-! ### the scenario loops, knowing which ids they are run on -/

theorem Scn.loop_inv' {kind : Net → List Id} {f : Net → Id → Net} {loop : Scn → List Id → Scn × Option Err}
    (hl : LoopShape kind f loop)
    (Q : Net → Prop) (s : Scn) (is : List Id) (hf : ∀ n, ∀ i ∈ is, Q n → Q (f n i)) (h : Q s.net) :
    Q (loop s is).1.net := by
  induction is generalizing s with
  | nil => rw [hl.1]; exact h
  | cons i is ih =>
    rw [hl.2]
    split
    · have hn := Scn.idsRemove_net ({ s with net := f s.net i } : Scn) i
      have hq : Q (f s.net i) := hf _ i List.mem_cons_self h
      cases hr : ({ s with net := f s.net i } : Scn).idsRemove i with
      | mk s1 e =>
        rw [hr] at hn
        cases e with
        | none => exact ih s1 (fun n j hj => hf n j (List.mem_cons_of_mem _ hj)) (by rw [hn]; exact hq)
        | some e => show Q s1.net; rw [hn]; exact hq
    · exact h

/-- if the loop did not raise, every id was processed: a fact `R i` that processing `i` establishes and that later
steps keep holds at the end for every `i` of the list -/
theorem Scn.loop_done {kind : Net → List Id} {f : Net → Id → Net} {loop : Scn → List Id → Scn × Option Err}
    (hl : LoopShape kind f loop)
    (R : Id → Net → Prop) (hest : ∀ m i, R i (f m i)) (hpres : ∀ m i j, R i m → R i (f m j))
    (s : Scn) (is : List Id) (h : (loop s is).2 = none) : ∀ i ∈ is, R i (loop s is).1.net := by
  induction is generalizing s with
  | nil => intro i hi; cases hi
  | cons i is ih =>
    rw [hl.2] at h ⊢
    split at h
    · rename_i hk
      rw [if_pos hk]
      have hn := Scn.idsRemove_net ({ s with net := f s.net i } : Scn) i
      cases hr : ({ s with net := f s.net i } : Scn).idsRemove i with
      | mk s1 e =>
        rw [hr] at hn h
        cases e with
        | none =>
          intro j hj
          rcases List.mem_cons.1 hj with rfl | hj
          · exact Scn.loop_inv' hl (R j) s1 is (fun n k _ hq => hpres n j k hq) (by rw [hn]; exact hest _ _)
          · exact ih s1 h j hj
        | some e => cases h
    · cases h

theorem Scn.removeLanelets_inv' (Q : Net → Prop) (s : Scn) (args : List RmArg) (r : Bool)
    (hl : ∀ n, ∀ i ∈ args.map (·.id), Q n → Q (n.removeLanelet i))
    (hs : ∀ n, ∀ i ∈ s.net.hangingSigns args, Q n → Q (n.removeSign i))
    (ht : ∀ n, ∀ i ∈ s.net.hangingLights args, Q n → Q (n.removeLight i))
    (h : Q s.net) : Q (s.removeLanelets args r).1.net := by
  unfold Scn.removeLanelets
  cases r
  · exact Scn.loop_inv' loopShape_lanelets Q s _ hl h
  · simp only [if_true]
    unfold Scn.removeHanging
    dsimp only
    have h1 := Scn.loop_inv' loopShape_signs Q s _ hs h
    cases hr : s.removeSigns (s.net.hangingSigns args) with
    | mk s1 e =>
      rw [hr] at h1
      cases e with
      | some e => exact h1
      | none =>
        dsimp only
        have h2 := Scn.loop_inv' loopShape_lights Q s1 _ ht h1
        cases hr2 : s1.removeLights (s.net.hangingLights args) with
        | mk s2 e2 =>
          rw [hr2] at h2
          cases e2 with
          | some e => exact h2
          | none =>
            exact Scn.loop_inv' loopShape_lanelets Q s2 _ hl h2

theorem Scn.removeHanging_inv' (Q : Net → Prop) (s : Scn) (args : List RmArg)
    (hs : ∀ n, ∀ i ∈ s.net.hangingSigns args, Q n → Q (n.removeSign i))
    (ht : ∀ n, ∀ i ∈ s.net.hangingLights args, Q n → Q (n.removeLight i))
    (h : Q s.net) : Q (s.removeHanging args).1.net := by
  unfold Scn.removeHanging
  dsimp only
  have h1 := Scn.loop_inv' loopShape_signs Q s _ hs h
  cases hr : s.removeSigns (s.net.hangingSigns args) with
  | mk s1 e =>
    rw [hr] at h1
    cases e with
    | some e => exact h1
    | none => exact Scn.loop_inv' loopShape_lights Q s1 _ ht h1

/-- the three loops of `Scenario.remove_lanelet(…, referenced_elements=True)` all ran to the end -/
theorem Scn.removeLanelets_done (s : Scn) (args : List RmArg) (h : (s.removeLanelets args true).2 = none) :
    ∃ s1 s2, s.removeSigns (s.net.hangingSigns args) = (s1, none) ∧
      s1.removeLights (s.net.hangingLights args) = (s2, none) ∧
      s.removeLanelets args true = s2.removeLaneletLoop (args.map (·.id)) := by
  unfold Scn.removeLanelets Scn.removeHanging at h ⊢
  simp only [if_true] at h ⊢
  cases hr : s.removeSigns (s.net.hangingSigns args) with
  | mk s1 e =>
    rw [hr] at h
    cases e with
    | some e => cases h
    | none =>
      dsimp only at h ⊢
      cases hr2 : s1.removeLights (s.net.hangingLights args) with
      | mk s2 e2 =>
        rw [hr2] at h
        cases e2 with
        | some e => cases h
        | none => exact ⟨s1, s2, rfl, hr2, rfl⟩

/-! ### hanging members -/

theorem contains_eq_false_iff {xs : List Id} {a : Id} : xs.contains a = false ↔ a ∉ xs := by simp

theorem mem_hangingSigns {n : Net} {args : List RmArg} {t : Id} :
    t ∈ n.hangingSigns args ↔
      t ∈ n.sids ∧ (∃ a ∈ args, t ∈ a.signs) ∧ ∀ l ∈ n.lanelets, l.id ∉ args.map (·.id) → t ∉ l.signs := by
  simp only [Net.hangingSigns, List.mem_filter, Bool.and_eq_true, contains_eq_true_iff, List.mem_flatMap,
    Bool.not_eq_true', contains_eq_false_iff, not_exists, not_and]
  constructor
  · rintro ⟨h1, h2, h3⟩
    exact ⟨h1, h2, fun l hl hne ht => h3 l ⟨hl, hne⟩ ht⟩
  · rintro ⟨h1, h2, h3⟩
    exact ⟨h1, h2, fun l hl ht => h3 l hl.1 hl.2 ht⟩

theorem mem_hangingLights {n : Net} {args : List RmArg} {t : Id} :
    t ∈ n.hangingLights args ↔
      t ∈ n.tids ∧ (∃ a ∈ args, t ∈ a.lights) ∧ ∀ l ∈ n.lanelets, l.id ∉ args.map (·.id) → t ∉ l.lights := by
  simp only [Net.hangingLights, List.mem_filter, Bool.and_eq_true, contains_eq_true_iff, List.mem_flatMap,
    Bool.not_eq_true', contains_eq_false_iff, not_exists, not_and]
  constructor
  · rintro ⟨h1, h2, h3⟩
    exact ⟨h1, h2, fun l hl hne ht => h3 l ⟨hl, hne⟩ ht⟩
  · rintro ⟨h1, h2, h3⟩
    exact ⟨h1, h2, fun l hl ht => h3 l hl.1 hl.2 ht⟩

/-! ### cut-out: what stays -/

theorem Incoming.cut_eq_some {P : Id → Bool} {k : Incoming} (h1 : ∃ a ∈ k.inc, P a = true)
    (h2 : ∃ a ∈ k.right ++ k.straight ++ k.left, P a = true) : ∃ k', k.cut P = some k' ∧ k'.id = k.id := by
  obtain ⟨a, ha, hpa⟩ := h1
  obtain ⟨b, hb, hpb⟩ := h2
  have e1 : (keepIn P k.inc).length ≠ 0 := by
    intro h
    have hm : a ∈ keepIn P k.inc := mem_keepIn.2 ⟨ha, hpa⟩
    rw [List.length_eq_zero_iff] at h
    rw [h] at hm; cases hm
  have e2 : ¬ ((keepIn P k.left).length + (keepIn P k.straight).length + (keepIn P k.right).length < 1) := by
    intro h
    have z1 : keepIn P k.left = [] := List.length_eq_zero_iff.1 (by omega)
    have z2 : keepIn P k.straight = [] := List.length_eq_zero_iff.1 (by omega)
    have z3 : keepIn P k.right = [] := List.length_eq_zero_iff.1 (by omega)
    simp only [List.mem_append] at hb
    rcases hb with (hb | hb) | hb
    · have hm := mem_keepIn.2 ⟨hb, hpb⟩; rw [z3] at hm; cases hm
    · have hm := mem_keepIn.2 ⟨hb, hpb⟩; rw [z2] at hm; cases hm
    · have hm := mem_keepIn.2 ⟨hb, hpb⟩; rw [z1] at hm; cases hm
  refine ⟨{ k with inc := keepIn P k.inc, right := keepIn P k.right, straight := keepIn P k.straight,
                   left := keepIn P k.left }, ?_, rfl⟩
  unfold Incoming.cut
  simp [e1, e2]

theorem Intersection.cut_eq_some {P : Id → Bool} {i : Intersection} {k : Incoming} (hk : k ∈ i.incomings)
    (h1 : ∃ a ∈ k.inc, P a = true) (h2 : ∃ a ∈ k.right ++ k.straight ++ k.left, P a = true) :
    ∃ i', i.cut P = some i' ∧ i'.id = i.id ∧ ∃ k' ∈ i'.incomings, k'.id = k.id := by
  obtain ⟨k', hc, hid⟩ := Incoming.cut_eq_some h1 h2
  have hm : k' ∈ i.incomings.filterMap (·.cut P) := List.mem_filterMap.2 ⟨k, hk, hc⟩
  have e : (i.incomings.filterMap (·.cut P)).length ≠ 0 := by
    intro h; rw [List.length_eq_zero_iff] at h; rw [h] at hm; cases hm
  refine ⟨{ i with incomings := i.incomings.filterMap (·.cut P), crossings := keepIn P i.crossings }, ?_, rfl,
    k', hm, hid⟩
  unfold Intersection.cut
  simp [e]

theorem cutBase_lids (n : Net) (keep : Id → Bool) : (n.cutBase keep).lids = n.lids.filter keep := by
  simp [Net.cutBase, Net.cutKept, Net.lids, List.filter_map, Function.comp_def]

theorem cutOut_lids {n n' : Net} {keep : Id → Bool} {c : Bool} (h : n.cutOut keep c = .ok n') :
    n'.lids = n.lids.filter keep := by
  obtain ⟨_, _, rfl⟩ := cutOut_ok h
  cases c
  · exact cutBase_lids n keep
  · simp only [if_true]; rw [Net.cleanupLaneletRefs_lids]; exact cutBase_lids n keep

theorem cutOut_signs {n n' : Net} {keep : Id → Bool} {c : Bool} (h : n.cutOut keep c = .ok n') (e : Elem) :
    e ∈ n'.signs ↔ e ∈ n.signs ∧ ∃ l ∈ n.lanelets, keep l.id = true ∧ e.1 ∈ l.signs := by
  obtain ⟨_, _, rfl⟩ := cutOut_ok h
  have : ∀ m : Net, m = (if c then (n.cutBase keep).cleanupLaneletRefs else n.cutBase keep) →
      m.signs = (n.cutBase keep).signs := by
    intro m hm; subst hm; cases c <;> rfl
  rw [this _ rfl]
  simp only [Net.cutBase, Net.cutKept, List.mem_filter, contains_eq_true_iff, List.mem_flatMap]
  constructor
  · rintro ⟨h1, l, ⟨hl, hk⟩, hs⟩; exact ⟨h1, l, hl, hk, hs⟩
  · rintro ⟨h1, l, hl, hk, hs⟩; exact ⟨h1, l, ⟨hl, hk⟩, hs⟩

theorem cutOut_lights {n n' : Net} {keep : Id → Bool} {c : Bool} (h : n.cutOut keep c = .ok n') (e : Elem) :
    e ∈ n'.lights ↔ e ∈ n.lights ∧ ∃ l ∈ n.lanelets, keep l.id = true ∧ e.1 ∈ l.lights := by
  obtain ⟨_, _, rfl⟩ := cutOut_ok h
  have : ∀ m : Net, m = (if c then (n.cutBase keep).cleanupLaneletRefs else n.cutBase keep) →
      m.lights = (n.cutBase keep).lights := by
    intro m hm; subst hm; cases c <;> rfl
  rw [this _ rfl]
  simp only [Net.cutBase, Net.cutKept, List.mem_filter, contains_eq_true_iff, List.mem_flatMap]
  constructor
  · rintro ⟨h1, l, ⟨hl, hk⟩, hs⟩; exact ⟨h1, l, hl, hk, hs⟩
  · rintro ⟨h1, l, hl, hk, hs⟩; exact ⟨h1, l, ⟨hl, hk⟩, hs⟩

/-- an incoming element that keeps an incoming lanelet and a successor survives the cut-out, and so does its intersection -/
theorem cutOut_inter_present {n n' : Net} {keep : Id → Bool} {c : Bool} (h : n.cutOut keep c = .ok n')
    {i : Intersection} (hi : i ∈ n.inters) {k : Incoming} (hk : k ∈ i.incomings)
    (h1 : ∃ a ∈ k.inc, a ∈ n'.lids) (h2 : ∃ a ∈ k.right ++ k.straight ++ k.left, a ∈ n'.lids) :
    ∃ i' ∈ n'.inters, i'.id = i.id ∧ ∃ k' ∈ i'.incomings, k'.id = k.id := by
  have hl := cutOut_lids h
  obtain ⟨_, _, rfl⟩ := cutOut_ok h
  have hb := cutBase_lids n keep
  have hP : ∀ a, a ∈ n.lids.filter keep → (fun a => (((n.cutKept keep).map (·.id))).contains a) a = true := by
    intro a ha
    rw [← hb] at ha
    simpa [Net.cutBase, Net.lids] using ha
  rw [hl] at h1 h2
  obtain ⟨a, ha, hpa⟩ := h1
  obtain ⟨b, hb', hpb⟩ := h2
  obtain ⟨i1, hc, hid, k1, hk1, hkid⟩ :=
    Intersection.cut_eq_some (P := fun a => (((n.cutKept keep).map (·.id))).contains a) hk
      ⟨a, ha, hP a hpa⟩ ⟨b, hb', hP b hpb⟩
  have hm : i1 ∈ (n.cutBase keep).inters := List.mem_filterMap.2 ⟨i, hi, hc⟩
  cases c
  · exact ⟨i1, hm, hid, k1, hk1, hkid⟩
  · simp only [if_true]
    refine ⟨i1.cleanL _, List.mem_map.2 ⟨i1, hm, rfl⟩, hid, k1.cleanL _, List.mem_map.2 ⟨k1, hk1, rfl⟩, hkid⟩

/-! ### create_from_lanelet_list: which lanelets -/

theorem addLanelets_ids (acc ls : List Lanelet) (a : Id) :
    a ∈ (addLanelets acc ls).map (·.id) ↔ a ∈ acc.map (·.id) ∨ a ∈ ls.map (·.id) := by
  induction ls generalizing acc with
  | nil => simp [addLanelets]
  | cons b bs ih =>
    unfold addLanelets
    split
    · rename_i hc
      rw [ih]
      have hc' : b.id ∈ acc.map (·.id) := by simpa using hc
      constructor
      · rintro (h | h)
        · exact Or.inl h
        · exact Or.inr (by simp only [List.map_cons, List.mem_cons]; exact Or.inr h)
      · rintro (h | h)
        · exact Or.inl h
        · simp only [List.map_cons, List.mem_cons] at h
          rcases h with rfl | h
          · exact Or.inl hc'
          · exact Or.inr h
    · rw [ih]
      simp only [List.map_append, List.mem_append, List.map_cons, List.map_nil, List.mem_cons, List.not_mem_nil,
        or_false]
      constructor
      · rintro ((h | h) | h)
        · exact Or.inl h
        · exact Or.inr (Or.inl h)
        · exact Or.inr (Or.inr h)
      · rintro (h | h | h)
        · exact Or.inl (Or.inl h)
        · exact Or.inl (Or.inr h)
        · exact Or.inr h

theorem findLanelet_of_mem {n : Net} {a : Id} (h : a ∈ n.lids) : ∃ l, n.findLanelet a = some l := by
  obtain ⟨l, hl, rfl⟩ := List.mem_map.1 h
  unfold Net.findLanelet
  cases hf : n.lanelets.find? (fun l' => l'.id == l.id) with
  | some l' => exact ⟨l', rfl⟩
  | none =>
    rw [List.find?_eq_none] at hf
    exact absurd (by simp) (hf l hl)

theorem fromList_lids (n : Net) (sel : List Id) (c : Bool) (a : Id) :
    a ∈ (n.fromList sel c).lids ↔ a ∈ sel ∧ a ∈ n.lids := by
  have hb : a ∈ (addLanelets [] (sel.filterMap n.findLanelet)).map (·.id) ↔ a ∈ sel ∧ a ∈ n.lids := by
    rw [addLanelets_ids]
    simp only [List.map_nil, List.not_mem_nil, false_or, List.mem_map, List.mem_filterMap]
    constructor
    · rintro ⟨l, ⟨x, hx, hf⟩, rfl⟩
      have := findLanelet_mem hf
      exact ⟨this.2 ▸ hx, List.mem_map.2 ⟨l, this.1, rfl⟩⟩
    · rintro ⟨hs, hn⟩
      obtain ⟨l, hf⟩ := findLanelet_of_mem hn
      exact ⟨l, ⟨a, hs, hf⟩, (findLanelet_mem hf).2⟩
  unfold Net.fromList
  cases c
  · exact hb
  · simp only [if_true, Net.cleanupSignRefs_lids, Net.cleanupLightRefs_lids, Net.cleanupLaneletRefs_lids]
    exact hb

/-! ### intersections and incoming elements by id -/

/-- the network holds an intersection `x` with an incoming element `kid` -/
def Net.hasInc (n : Net) (x kid : Id) : Prop := ∃ i ∈ n.inters, i.id = x ∧ ∃ k ∈ i.incomings, k.id = kid

theorem iids_eq_shapes (n : Net) : n.iids = n.shapes.map (·.1) := by
  simp [Net.iids, Net.shapes, Intersection.shape, List.map_map, Function.comp_def]

theorem hasInc_iff_shapes (n : Net) (x kid : Id) : n.hasInc x kid ↔ ∃ sh ∈ n.shapes, sh.1 = x ∧ kid ∈ sh.2 := by
  simp only [Net.hasInc, Net.shapes, List.mem_map]
  constructor
  · rintro ⟨i, hi, rfl, k, hk, rfl⟩
    exact ⟨i.shape, ⟨i, hi, rfl⟩, rfl, List.mem_map.2 ⟨k, hk, rfl⟩⟩
  · rintro ⟨_, ⟨i, hi, rfl⟩, rfl, hm⟩
    obtain ⟨k, hk', he⟩ := List.mem_map.1 hm
    exact ⟨i, hi, rfl, k, hk', he⟩

theorem iids_of_shapes_eq {n n' : Net} (h : n'.shapes = n.shapes) : n'.iids = n.iids := by
  rw [iids_eq_shapes, iids_eq_shapes, h]

theorem hasInc_of_shapes_eq {n n' : Net} (h : n'.shapes = n.shapes) (x kid : Id) : n'.hasInc x kid ↔ n.hasInc x kid := by
  rw [hasInc_iff_shapes, hasInc_iff_shapes, h]

theorem shapes_of_inters_eq {n n' : Net} (h : n'.inters = n.inters) : n'.shapes = n.shapes := by
  simp [Net.shapes, h]

/-! ### cut-out: exactly which incoming elements and intersections are taken over -/

theorem Incoming.cut_some_nonempty {P : Id → Bool} {k k' : Incoming} (h : k.cut P = some k') :
    (∃ a ∈ k.inc, P a = true) ∧ (∃ a ∈ k.right ++ k.straight ++ k.left, P a = true) := by
  unfold Incoming.cut at h
  simp only at h
  split at h
  · cases h
  · rename_i h1
    split at h
    · cases h
    · rename_i h2
      constructor
      · cases hl : keepIn P k.inc with
        | nil => rw [hl] at h1; simp at h1
        | cons a as =>
          have : a ∈ keepIn P k.inc := by rw [hl]; exact List.mem_cons_self
          exact ⟨a, (mem_keepIn.1 this).1, (mem_keepIn.1 this).2⟩
      · have hne : ¬ (keepIn P k.left = [] ∧ keepIn P k.straight = [] ∧ keepIn P k.right = []) := by
          rintro ⟨z1, z2, z3⟩
          rw [z1, z2, z3] at h2
          simp at h2
        have : ∃ a, a ∈ keepIn P k.left ∨ a ∈ keepIn P k.straight ∨ a ∈ keepIn P k.right := by
          cases h1' : keepIn P k.left with
          | cons a _ => exact ⟨a, Or.inl List.mem_cons_self⟩
          | nil =>
            cases h2' : keepIn P k.straight with
            | cons a _ => exact ⟨a, Or.inr (Or.inl List.mem_cons_self)⟩
            | nil =>
              cases h3' : keepIn P k.right with
              | cons a _ => exact ⟨a, Or.inr (Or.inr List.mem_cons_self)⟩
              | nil => exact absurd ⟨h1', h2', h3'⟩ hne
        obtain ⟨a, ha⟩ := this
        simp only [List.mem_append]
        rcases ha with ha | ha | ha
        · exact ⟨a, Or.inr (mem_keepIn.1 ha).1, (mem_keepIn.1 ha).2⟩
        · exact ⟨a, Or.inl (Or.inr (mem_keepIn.1 ha).1), (mem_keepIn.1 ha).2⟩
        · exact ⟨a, Or.inl (Or.inl (mem_keepIn.1 ha).1), (mem_keepIn.1 ha).2⟩

theorem Intersection.cut_some_nonempty {P : Id → Bool} {i i' : Intersection} (h : i.cut P = some i') :
    ∃ k', k' ∈ i'.incomings := by
  have e := Intersection.cut_some h
  unfold Intersection.cut at h
  simp only at h
  split at h
  · cases h
  · rename_i h1
    rw [e]
    cases hl : i.incomings.filterMap (·.cut P) with
    | nil => rw [hl] at h1; simp at h1
    | cons a as => exact ⟨a, List.mem_cons_self⟩

/-- every incoming element of a cut-out network comes from one that keeps an incoming lanelet and a successor -/
theorem cutOut_inter_origin {n n' : Net} {keep : Id → Bool} {c : Bool} (h : n.cutOut keep c = .ok n')
    {i' : Intersection} (hi' : i' ∈ n'.inters) :
    ∃ i ∈ n.inters, i.id = i'.id ∧ (∃ k', k' ∈ i'.incomings) ∧ ∀ k' ∈ i'.incomings, ∃ k ∈ i.incomings, k.id = k'.id ∧
      (∃ a ∈ k.inc, a ∈ n'.lids) ∧ (∃ a ∈ k.right ++ k.straight ++ k.left, a ∈ n'.lids) := by
  have hl := cutOut_lids h
  obtain ⟨_, _, rfl⟩ := cutOut_ok h
  have hP : ∀ a, (fun a => (((n.cutKept keep).map (·.id))).contains a) a = true → a ∈ n.lids.filter keep := by
    intro a ha
    rw [← cutBase_lids]
    simpa [Net.cutBase, Net.lids] using ha
  rw [hl]
  have base : ∀ i1 ∈ (n.cutBase keep).inters, ∃ i ∈ n.inters, i.id = i1.id ∧ (∃ k', k' ∈ i1.incomings) ∧
      ∀ k' ∈ i1.incomings, ∃ k ∈ i.incomings, k.id = k'.id ∧
        (∃ a ∈ k.inc, a ∈ n.lids.filter keep) ∧ (∃ a ∈ k.right ++ k.straight ++ k.left, a ∈ n.lids.filter keep) := by
    intro i1 hi1
    obtain ⟨i, hi, hc⟩ := List.mem_filterMap.1 hi1
    refine ⟨i, hi, by rw [Intersection.cut_some hc], Intersection.cut_some_nonempty hc, ?_⟩
    intro k' hk'
    rw [Intersection.cut_some hc] at hk'
    obtain ⟨k, hk, hck⟩ := List.mem_filterMap.1 hk'
    obtain ⟨⟨a, ha, hpa⟩, ⟨b, hb, hpb⟩⟩ := Incoming.cut_some_nonempty hck
    exact ⟨k, hk, by rw [Incoming.cut_some hck], ⟨a, ha, hP a hpa⟩, ⟨b, hb, hP b hpb⟩⟩
  cases c
  · exact base i' hi'
  · simp only [if_true] at hi'
    obtain ⟨i1, hi1, rfl⟩ := List.mem_map.1 hi'
    obtain ⟨i, hi, hid, ⟨k0, hk0⟩, hks⟩ := base i1 hi1
    refine ⟨i, hi, hid, ⟨k0.cleanL _, List.mem_map.2 ⟨k0, hk0, rfl⟩⟩, ?_⟩
    intro k' hk'
    obtain ⟨k1, hk1, rfl⟩ := List.mem_map.1 hk'
    exact hks k1 hk1

end CR.Refs
