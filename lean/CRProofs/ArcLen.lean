/-
  CRProofs.ArcLen — helper lemmas about CRModel.ArcLen (cumulative sums, searchsorted, Python indexing).
-/
import CRModel.ArcLen
import Mathlib.Tactic.Ring
import Mathlib.Tactic.Linarith
import Mathlib.Tactic.FieldSimp
namespace CR.Arc

/-- Arc length up to vertex `j`. -/
def prefixLen (ℓ : List Rat) (j : Nat) : Rat := sumRat (ℓ.take j)

theorem sumRat_append (a b : List Rat) : sumRat (a ++ b) = sumRat a + sumRat b := by
  induction a with
  | nil => simp [sumRat]
  | cons x xs ih => simp only [List.cons_append, sumRat, ih]; ring

theorem sumRat_nonneg {ℓ : List Rat} (h : ∀ x ∈ ℓ, 0 ≤ x) : 0 ≤ sumRat ℓ := by
  induction ℓ with
  | nil => simp [sumRat]
  | cons x xs ih =>
    have := h x (by simp)
    have := ih (fun y hy => h y (by simp [hy]))
    simp only [sumRat]; linarith

theorem sumRat_pos {ℓ : List Rat} (hne : ℓ ≠ []) (h : ∀ x ∈ ℓ, 0 < x) : 0 < sumRat ℓ := by
  cases ℓ with
  | nil => exact absurd rfl hne
  | cons x xs =>
    have := h x (by simp)
    have := sumRat_nonneg (ℓ := xs) (fun y hy => le_of_lt (h y (by simp [hy])))
    simp only [sumRat]; linarith

theorem prefixLen_zero (ℓ : List Rat) : prefixLen ℓ 0 = 0 := by simp [prefixLen, sumRat]

theorem prefixLen_succ (ℓ : List Rat) (k : Nat) (hk : k < ℓ.length) :
    prefixLen ℓ (k + 1) = prefixLen ℓ k + ℓ[k] := by
  unfold prefixLen
  rw [List.take_succ_eq_append_getElem hk, sumRat_append]
  simp [sumRat]

theorem prefixLen_length (ℓ : List Rat) : prefixLen ℓ ℓ.length = sumRat ℓ := by
  simp [prefixLen]

theorem cumsumFrom_length (ℓ : List Rat) : ∀ a, (cumsumFrom a ℓ).length = ℓ.length := by
  induction ℓ with
  | nil => intro a; rfl
  | cons x xs ih => intro a; simp [cumsumFrom, ih]

theorem cumDist_eq (ℓ : List Rat) : cumDist ℓ = 0 :: cumsumFrom 0 ℓ := by
  simp [cumDist, cumsumFrom]

theorem cumDist_length (ℓ : List Rat) : (cumDist ℓ).length = ℓ.length + 1 := by
  simp [cumDist_eq, cumsumFrom_length]

theorem cumsumFrom_get : ∀ (ℓ : List Rat) (a : Rat) (j : Nat), j < ℓ.length →
    (cumsumFrom a ℓ)[j]? = some (a + sumRat (ℓ.take (j + 1)))
  | [], _, _, h => by simp at h
  | x :: xs, a, 0, _ => by simp [cumsumFrom, sumRat]
  | x :: xs, a, j + 1, h => by
    have := cumsumFrom_get xs (a + x) j (by simpa using h)
    simp only [cumsumFrom, List.getElem?_cons_succ, this, List.take_succ_cons, sumRat]
    congr 1; ring

theorem cumDist_get (ℓ : List Rat) (j : Nat) (hj : j ≤ ℓ.length) :
    (cumDist ℓ)[j]? = some (prefixLen ℓ j) := by
  rw [cumDist_eq]
  cases j with
  | zero => simp [prefixLen, sumRat]
  | succ j =>
    rw [List.getElem?_cons_succ, cumsumFrom_get ℓ 0 j (by omega)]
    simp [prefixLen]

theorem cumsumFrom_ge {ℓ : List Rat} (h : ∀ x ∈ ℓ, 0 ≤ x) : ∀ a, ∀ y ∈ cumsumFrom a ℓ, a ≤ y := by
  induction ℓ with
  | nil => intro a y hy; simp [cumsumFrom] at hy
  | cons x xs ih =>
    intro a y hy
    have hx := h x (by simp)
    simp only [cumsumFrom, List.mem_cons] at hy
    rcases hy with hy | hy
    · subst hy; linarith
    · have := ih (fun z hz => h z (by simp [hz])) (a + x) y hy
      linarith

theorem cumsumFrom_sorted {ℓ : List Rat} (h : ∀ x ∈ ℓ, 0 ≤ x) :
    ∀ a, List.Pairwise (· ≤ ·) (a :: cumsumFrom a ℓ) := by
  induction ℓ with
  | nil => intro a; simp [cumsumFrom]
  | cons x xs ih =>
    intro a
    rw [List.pairwise_cons]
    refine ⟨cumsumFrom_ge h a, ?_⟩
    simp only [cumsumFrom]
    exact ih (fun z hz => h z (by simp [hz])) (a + x)

theorem pyGet_neg_one {α : Type} (l : List α) : pyGet? l (-1) = l.getLast? := by
  unfold pyGet?
  simp only [show ¬ (0 : Int) ≤ -1 by omega, if_false]
  have : (-(-1 : Int)).toNat = 1 := by decide
  rw [this]
  cases l with
  | nil => simp
  | cons a t =>
    simp only [List.length_cons, show 1 ≤ t.length + 1 by omega, if_true]
    rw [List.getLast?_eq_getElem?]
    simp

theorem pyGet_nat {α : Type} (l : List α) (k : Nat) : pyGet? l (k : Int) = l[k]? := by
  unfold pyGet?; simp

theorem pyGet_nat_succ {α : Type} (l : List α) (k : Nat) : pyGet? l ((k : Int) + 1) = l[k + 1]? := by
  have : ((k : Int) + 1) = ((k + 1 : Nat) : Int) := by push_cast; ring
  rw [this, pyGet_nat]

theorem cumDist_last (ℓ : List Rat) : (cumDist ℓ).getLast? = some (sumRat ℓ) := by
  rw [List.getLast?_eq_getElem?, cumDist_length]
  simp only [Nat.add_sub_cancel]
  rw [cumDist_get ℓ ℓ.length (Nat.le_refl _), prefixLen_length]

/-- `np.searchsorted` (left) on the cumulative sums finds the segment whose half-open arc-length window
    `(prefix k, prefix (k+1)]` contains `s`. -/
theorem ss_spec : ∀ (ℓ : List Rat) (acc s : Rat), (∀ x ∈ ℓ, 0 < x) → acc < s → s ≤ acc + sumRat ℓ →
    ∃ k, k < ℓ.length ∧ searchsortedLeft s (cumsumFrom acc ℓ) = k ∧
      acc + sumRat (ℓ.take k) < s ∧ s ≤ acc + sumRat (ℓ.take (k + 1))
  | [], acc, s, _, h1, h2 => by simp [sumRat] at h2; linarith
  | x :: xs, acc, s, hpos, h1, h2 => by
    by_cases h : acc + x < s
    · obtain ⟨k, hk, hss, ha, hb⟩ := ss_spec xs (acc + x) s (fun y hy => hpos y (by simp [hy])) h
        (by simp only [sumRat] at h2; linarith)
      refine ⟨k + 1, by simp; omega, ?_, ?_, ?_⟩
      · simp only [cumsumFrom, searchsortedLeft, h, if_true, hss]; omega
      · simp only [List.take_succ_cons, sumRat]; linarith
      · simp only [List.take_succ_cons, sumRat]; linarith
    · refine ⟨0, by simp, ?_, ?_, ?_⟩
      · simp only [cumsumFrom, searchsortedLeft, h, if_false]
      · simp [sumRat]; exact h1
      · simp [sumRat]; linarith

theorem isClose_self (x : Rat) : isClose x x = true := by
  unfold isClose
  simp only [sub_self, lt_self_iff_false, if_false, decide_eq_true_eq]
  split
  · have : 0 ≤ -x := by linarith
    positivity
  · have : 0 ≤ x := by linarith
    positivity

theorem ptClose_self (p : Pt) : ptClose p p = true := by
  simp [ptClose, isClose_self]

theorem segLens_join (len : Pt → Pt → Rat) : ∀ (pa : List Pt) (j : Pt) (qb : List Pt),
    segLens len (pa ++ [j] ++ qb) = segLens len (pa ++ [j]) ++ segLens len (j :: qb)
  | [], j, qb => by simp [segLens]
  | [x], j, qb => by simp [segLens]
  | x :: y :: pa, j, qb => by
    have := segLens_join len (y :: pa) j qb
    simp only [List.cons_append, segLens] at this ⊢
    rw [this]

/-! ### Euclidean side condition, strict monotonicity of the arc length -/

/-- Consecutive vertices are distinct (the property's precondition on a lanelet's centre line). -/
def DistinctConsec : List Pt → Prop
  | a :: b :: t => a ≠ b ∧ DistinctConsec (b :: t)
  | _ => True

theorem distSq_pos {a b : Pt} (h : a ≠ b) : 0 < distSq a b := by
  unfold distSq
  by_contra hle
  have h1 : 0 ≤ (b.1 - a.1) * (b.1 - a.1) := mul_self_nonneg _
  have h2 : 0 ≤ (b.2 - a.2) * (b.2 - a.2) := mul_self_nonneg _
  have e1 : (b.1 - a.1) * (b.1 - a.1) = 0 := by linarith
  have e2 : (b.2 - a.2) * (b.2 - a.2) = 0 := by linarith
  have f1 : b.1 - a.1 = 0 := mul_self_eq_zero.mp e1
  have f2 : b.2 - a.2 = 0 := mul_self_eq_zero.mp e2
  apply h
  ext <;> linarith

theorem isEuclid_length : ∀ (c : List Pt) (ℓ : List Rat), isEuclid c ℓ = true → c.length = ℓ.length + 1
  | [], _, h => by simp [isEuclid] at h
  | [_], [], _ => rfl
  | [_], _ :: _, h => by simp [isEuclid] at h
  | _ :: _ :: _, [], h => by simp [isEuclid] at h
  | a :: b :: t, x :: xs, h => by
    simp only [isEuclid, Bool.and_eq_true] at h
    have := isEuclid_length (b :: t) xs h.2
    simp only [List.length_cons] at this ⊢
    omega

theorem isEuclid_get : ∀ (c : List Pt) (ℓ : List Rat) (h : isEuclid c ℓ = true) (i : Nat) (hi : i < ℓ.length),
    0 ≤ ℓ[i] ∧ ℓ[i] * ℓ[i] = distSq (c[i]'(by have := isEuclid_length c ℓ h; omega))
                                      (c[i + 1]'(by have := isEuclid_length c ℓ h; omega))
  | [], _, h, _, _ => by simp [isEuclid] at h
  | [_], [], _, _, hi => by simp at hi
  | [_], _ :: _, h, _, _ => by simp [isEuclid] at h
  | _ :: _ :: _, [], h, _, _ => by simp [isEuclid] at h
  | a :: b :: t, x :: xs, h, 0, _ => by
    simp only [isEuclid, Bool.and_eq_true, decide_eq_true_eq] at h
    exact ⟨h.1.1, h.1.2⟩
  | a :: b :: t, x :: xs, h, i + 1, hi => by
    have h' : isEuclid (b :: t) xs = true := by
      simp only [isEuclid, Bool.and_eq_true] at h; exact h.2
    have := isEuclid_get (b :: t) xs h' i (by simpa using hi)
    simpa using this

theorem isEuclid_unique : ∀ (c : List Pt) (ℓ ℓ' : List Rat), isEuclid c ℓ = true → isEuclid c ℓ' = true → ℓ = ℓ'
  | [], _, _, h, _ => by simp [isEuclid] at h
  | [_], [], [], _, _ => rfl
  | [_], _ :: _, _, h, _ => by simp [isEuclid] at h
  | [_], [], _ :: _, _, h => by simp [isEuclid] at h
  | _ :: _ :: _, [], _, h, _ => by simp [isEuclid] at h
  | _ :: _ :: _, _ :: _, [], _, h => by simp [isEuclid] at h
  | a :: b :: t, x :: xs, y :: ys, h, h' => by
    simp only [isEuclid, Bool.and_eq_true, decide_eq_true_eq] at h h'
    have hxy : x = y := by
      have e : x * x = y * y := by rw [h.1.2, h'.1.2]
      nlinarith [h.1.1, h'.1.1, mul_self_nonneg (x - y), mul_self_nonneg (x + y)]
    rw [hxy, isEuclid_unique (b :: t) xs ys h.2 h'.2]

theorem isEuclid_pos : ∀ (c : List Pt) (ℓ : List Rat), isEuclid c ℓ = true → DistinctConsec c → ∀ x ∈ ℓ, 0 < x
  | [], _, h, _ => by simp [isEuclid] at h
  | [_], [], _, _ => by simp
  | [_], _ :: _, h, _ => by simp [isEuclid] at h
  | _ :: _ :: _, [], h, _ => by simp [isEuclid] at h
  | a :: b :: t, x :: xs, h, hd => by
    simp only [isEuclid, Bool.and_eq_true, decide_eq_true_eq] at h
    intro y hy
    simp only [List.mem_cons] at hy
    rcases hy with rfl | hy
    · have hp := distSq_pos hd.1
      rcases eq_or_lt_of_le h.1.1 with h0 | hpos
      · rw [← h.1.2, ← h0] at hp; simp at hp
      · exact hpos
    · exact isEuclid_pos (b :: t) xs h.2 hd.2 y hy

theorem prefixLen_mono {ℓ : List Rat} (h : ∀ x ∈ ℓ, 0 ≤ x) {i j : Nat} (hij : i ≤ j) (hj : j ≤ ℓ.length) :
    prefixLen ℓ i ≤ prefixLen ℓ j := by
  induction j, hij using Nat.le_induction with
  | base => exact le_refl _
  | succ k hk ih =>
    have hk' : k < ℓ.length := by omega
    rw [prefixLen_succ ℓ k hk']
    have := h ℓ[k] (by simp)
    have := ih (by omega)
    linarith

theorem distSq_blend_left (t : Rat) (a b : Pt) : distSq a (blend t a b) = (t * t) * distSq a b := by
  simp only [distSq, blend]; ring

theorem distSq_blend_right (t : Rat) (a b : Pt) : distSq (blend t a b) b = ((1 - t) * (1 - t)) * distSq a b := by
  simp only [distSq, blend]; ring

end CR.Arc
