/-
  CRProofs.IdPool — definitions (contained ids, invariant, admissible operations) and helper lemmas for C09.
  Model: CRModel/IdPool.lean.
-/
import CRModel.IdPool
namespace CR.IdPool

/-! ### lists -/

theorem count_filter_ne (l : List Nat) (k x : Nat) :
    (l.filter (· ≠ k)).count x = if x = k then 0 else l.count x := by
  induction l with
  | nil => simp
  | cons a t ih => grind

theorem count_dictSet (d : List Nat) (k x : Nat) :
    (dictSet d k).count x = d.count x + if x = k ∧ k ∉ d then 1 else 0 := by
  unfold dictSet
  split <;> grind

theorem count_lanelets_filter (ls : List Lanelet) (k x : Nat) :
    ((ls.filter (fun l => l.id ≠ k)).map (·.id)).count x = if x = k then 0 else (ls.map (·.id)).count x := by
  induction ls with
  | nil => simp
  | cons a t ih => grind

theorem map_ids_of_map (f : Lanelet → Lanelet) (hf : ∀ l, (f l).id = l.id) (ls : List Lanelet) :
    (ls.map f).map (·.id) = ls.map (·.id) := by
  induction ls with
  | nil => rfl
  | cons a t ih => simp [hf]

theorem filter_inters_absent (is : List Inter) (k : Nat) (h : k ∉ is.map (·.id)) :
    is.filter (fun i => i.id ≠ k) = is := by
  induction is with
  | nil => rfl
  | cons a t ih => grind

theorem count_ids_le (is : List Inter) (k : Nat) :
    (is.map (·.id)).count k ≤ (is.flatMap interIds).count k := by
  induction is with
  | nil => simp
  | cons a t ih => simp [List.flatMap_cons, interIds, List.count_append, List.count_cons]; grind

theorem count_flatMap_remove (is : List Inter) (i : Inter) (hi : i ∈ is)
    (h1 : (is.map (·.id)).count i.id ≤ 1) (x : Nat) :
    (is.flatMap interIds).count x
      = ((is.filter (fun j => j.id ≠ i.id)).flatMap interIds).count x + (interIds i).count x := by
  induction is with
  | nil => simp at hi
  | cons a t ih =>
    by_cases ha : a.id = i.id
    · -- then a = i and no other element has this id
      have ht : i.id ∉ t.map (·.id) := by
        intro hm
        have := List.count_pos_iff.mpr hm
        simp [List.count_cons, ha] at h1
        omega
      have hai : a = i := by
        rcases List.mem_cons.mp hi with h | h
        · exact h.symm
        · exact absurd (List.mem_map_of_mem (f := (·.id)) h) ht
      subst hai
      rw [List.filter_cons_of_neg (by simp), filter_inters_absent t _ ht, List.flatMap_cons, List.count_append]
      omega
    · have hi' : i ∈ t := by
        rcases List.mem_cons.mp hi with h | h
        · exact absurd (by rw [h]) ha
        · exact h
      have h1' : (t.map (·.id)).count i.id ≤ 1 := by
        simp [List.count_cons] at h1; omega
      rw [List.filter_cons_of_pos (by simpa using ha), List.flatMap_cons, List.flatMap_cons, List.count_append,
        List.count_append, ih hi' h1']
      omega
abbrev lids (n : Net) : List Nat := n.lanelets.map (·.id)

/-! ### network level: what each operation does to the four id components -/
section net
variable (n : Net) (k x : Nat)

@[simp] theorem removeSign_lids : lids (n.removeSign k) = lids n := by
  unfold Net.removeSign lids; split <;> simp [List.map_map, Function.comp_def]
@[simp] theorem removeSign_lights : (n.removeSign k).lights = n.lights := by
  unfold Net.removeSign; split <;> rfl
@[simp] theorem removeSign_inters : (n.removeSign k).inters = n.inters := by
  unfold Net.removeSign; split <;> rfl
theorem removeSign_signs : (n.removeSign k).signs = n.signs.filter (· ≠ k) := by
  unfold Net.removeSign; split
  · rfl
  · symm; apply List.filter_eq_self.mpr; intro a ha; simp; rintro rfl; contradiction

@[simp] theorem removeLight_lids : lids (n.removeLight k) = lids n := by
  unfold Net.removeLight lids; simp [List.map_map, Function.comp_def]
@[simp] theorem removeLight_signs : (n.removeLight k).signs = n.signs := rfl
@[simp] theorem removeLight_inters : (n.removeLight k).inters = n.inters := rfl
theorem removeLight_lights : (n.removeLight k).lights = n.lights.filter (· ≠ k) := rfl

theorem removeLanelet_lids : lids (n.removeLanelet k) = (lids n).filter (· ≠ k) := by
  unfold Net.removeLanelet lids; simp [List.filter_map, Function.comp_def]
@[simp] theorem removeLanelet_signs : (n.removeLanelet k).signs = n.signs := rfl
@[simp] theorem removeLanelet_lights : (n.removeLanelet k).lights = n.lights := rfl
@[simp] theorem removeLanelet_inters : (n.removeLanelet k).inters = n.inters := rfl

@[simp] theorem removeInter_lanelets : (n.removeInter k).lanelets = n.lanelets := rfl
@[simp] theorem removeInter_signs : (n.removeInter k).signs = n.signs := rfl
@[simp] theorem removeInter_lights : (n.removeInter k).lights = n.lights := rfl
theorem removeInter_inters : (n.removeInter k).inters = n.inters.filter (fun i => i.id ≠ k) := rfl
end net

section net2
variable (n : Net) (k x : Nat) (refs : List Nat)

@[simp] theorem addSign_lids : lids (n.addSign k refs) = lids n := by
  unfold Net.addSign lids; split
  · rfl
  · simp only [List.map_map]; congr 1; funext l; simp only [Function.comp]; split <;> rfl
@[simp] theorem addSign_lights : (n.addSign k refs).lights = n.lights := by
  unfold Net.addSign; split <;> rfl
@[simp] theorem addSign_inters : (n.addSign k refs).inters = n.inters := by
  unfold Net.addSign; split <;> rfl
theorem addSign_signs : (n.addSign k refs).signs = dictSet n.signs k := by
  unfold Net.addSign dictSet; split <;> rfl

@[simp] theorem addLight_lids : lids (n.addLight k refs) = lids n := by
  unfold Net.addLight lids; split
  · rfl
  · simp only [List.map_map]; congr 1; funext l; simp only [Function.comp]; split <;> rfl
@[simp] theorem addLight_signs : (n.addLight k refs).signs = n.signs := by
  unfold Net.addLight; split <;> rfl
@[simp] theorem addLight_inters : (n.addLight k refs).inters = n.inters := by
  unfold Net.addLight; split <;> rfl
theorem addLight_lights : (n.addLight k refs).lights = dictSet n.lights k := by
  unfold Net.addLight dictSet; split <;> rfl

theorem addLanelet_lids (l : Lanelet) : lids (n.addLanelet l) = dictSet (lids n) l.id := by
  unfold Net.addLanelet dictSet lids; split <;> simp
@[simp] theorem addLanelet_signs (l : Lanelet) : (n.addLanelet l).signs = n.signs := by
  unfold Net.addLanelet; split <;> rfl
@[simp] theorem addLanelet_lights (l : Lanelet) : (n.addLanelet l).lights = n.lights := by
  unfold Net.addLanelet; split <;> rfl
@[simp] theorem addLanelet_inters (l : Lanelet) : (n.addLanelet l).inters = n.inters := by
  unfold Net.addLanelet; split <;> rfl

@[simp] theorem addInter_lanelets (i : Inter) : (n.addInter i).lanelets = n.lanelets := by
  unfold Net.addInter; split <;> rfl
@[simp] theorem addInter_signs (i : Inter) : (n.addInter i).signs = n.signs := by
  unfold Net.addInter; split <;> rfl
@[simp] theorem addInter_lights (i : Inter) : (n.addInter i).lights = n.lights := by
  unfold Net.addInter; split <;> rfl
theorem addInter_inters (i : Inter) (h : i.id ∉ n.inters.map (·.id)) : (n.addInter i).inters = n.inters ++ [i] := by
  unfold Net.addInter; simp [h]
end net2

/-! ### contained ids, invariant -/

def obstIds (s : St) : List Nat := s.stat ++ s.dyn ++ s.env ++ s.phan

/-- ids of all contained objects, with multiplicity: lanelets, signs, lights, intersections with their incoming
    elements, obstacles of the four roles. -/
def allIds (s : St) : List Nat := netIds s.net ++ obstIds s

def cnt (s : St) (x : Nat) : Nat := (allIds s).count x

theorem cnt_def (s : St) (x : Nat) : cnt s x =
    (lids s.net).count x + s.net.signs.count x + s.net.lights.count x
      + (s.net.inters.flatMap interIds).count x + s.stat.count x + s.dyn.count x + s.env.count x + s.phan.count x := by
  simp [cnt, allIds, netIds, obstIds, lids, List.count_append]; omega

/-- The invariant in counting form: every id is held by exactly one contained object if it is in the id set and by
    none otherwise; the counter is initialised as soon as an id is reserved. -/
def Inv (s : St) : Prop :=
  (∀ x, cnt s x = if x ∈ s.idSet then 1 else 0) ∧ (s.counter = none → s.idSet = [])

theorem inv_iff (s : St) :
    Inv s ↔ ((allIds s).Nodup ∧ (∀ x, x ∈ s.idSet ↔ x ∈ allIds s)) ∧ (s.counter = none → s.idSet = []) := by
  unfold Inv cnt
  constructor
  · rintro ⟨h, hc⟩
    refine ⟨⟨List.nodup_iff_count.mpr fun x => ?_, fun x => ?_⟩, hc⟩
    · have := h x; split at this <;> omega
    · have := h x
      have h2 := List.count_pos_iff (a := x) (l := allIds s)
      grind
  · rintro ⟨⟨hn, hm⟩, hc⟩
    refine ⟨fun x => ?_, hc⟩
    have h1 := List.nodup_iff_count.mp hn x
    have h2 := hm x
    have h3 := List.count_pos_iff (a := x) (l := allIds s)
    grind

theorem Inv.mem_idSet {s : St} (h : Inv s) {x : Nat} : x ∈ s.idSet ↔ 0 < cnt s x := by
  have := h.1 x; split at this <;> simp_all

/-! ### release / mark -/
@[simp] theorem release_net (s : St) (k : Nat) : (release s k).1.net = s.net := by unfold release; split <;> rfl
@[simp] theorem release_stat (s : St) (k : Nat) : (release s k).1.stat = s.stat := by unfold release; split <;> rfl
@[simp] theorem release_dyn (s : St) (k : Nat) : (release s k).1.dyn = s.dyn := by unfold release; split <;> rfl
@[simp] theorem release_env (s : St) (k : Nat) : (release s k).1.env = s.env := by unfold release; split <;> rfl
@[simp] theorem release_phan (s : St) (k : Nat) : (release s k).1.phan = s.phan := by unfold release; split <;> rfl
@[simp] theorem release_counter (s : St) (k : Nat) : (release s k).1.counter = s.counter := by
  unfold release; split <;> rfl
theorem release_mem (s : St) (k x : Nat) : x ∈ (release s k).1.idSet ↔ x ∈ s.idSet ∧ x ≠ k := by
  unfold release; split <;> grind
theorem release_out (s : St) (k : Nat) : (release s k).2 = if k ∈ s.idSet then .ok else .err .key := by
  unfold release; split <;> rfl

/-- removal of the holder of id `k` (with multiplicity `c` in its component) followed by `release`. -/
theorem inv_of_remove {s s' : St} {k c : Nat} (h : Inv s)
    (hcnt : ∀ x, cnt s' x = if x = k then cnt s k - c else cnt s x)
    (hmem : ∀ x, x ∈ s'.idSet ↔ x ∈ s.idSet ∧ x ≠ k)
    (hctr : s'.counter = s.counter) (hc : k ∈ s.idSet → 1 ≤ c) : Inv s' := by
  obtain ⟨h1, h2⟩ := h
  constructor
  · intro x
    have := h1 x; have := h1 k; have := hcnt x; have := hmem x
    grind
  · intro hn
    have := h2 (hctr ▸ hn)
    apply List.eq_nil_iff_forall_not_mem.mpr
    intro x hx
    have := (hmem x).mp hx
    simp_all

end CR.IdPool
