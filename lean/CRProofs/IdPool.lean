/-
  CRProofs.IdPool — definitions (contained ids, invariant, admissible operations) and helper lemmas for C09.
  Model: CRModel/IdPool.lean.
-/
import CRModel.IdPool
namespace CR.IdPool

/-! ### lists -/

theorem count_filter_ne (l : List Nat) (k x : Nat) :
    (l.filter (· ≠ k)).count x = if x = k then 0 else l.count x := by
  induction l with
  | nil => simp
  | cons a t ih => grind

theorem count_dictSet (d : List Nat) (k x : Nat) :
    (dictSet d k).count x = d.count x + if x = k ∧ k ∉ d then 1 else 0 := by
  unfold dictSet
  split <;> grind

theorem count_lanelets_filter (ls : List Lanelet) (k x : Nat) :
    ((ls.filter (fun l => l.id ≠ k)).map (·.id)).count x = if x = k then 0 else (ls.map (·.id)).count x := by
  induction ls with
  | nil => simp
  | cons a t ih => grind

theorem map_ids_of_map (f : Lanelet → Lanelet) (hf : ∀ l, (f l).id = l.id) (ls : List Lanelet) :
    (ls.map f).map (·.id) = ls.map (·.id) := by
  induction ls with
  | nil => rfl
  | cons a t ih => simp [hf]

theorem filter_inters_absent (is : List Inter) (k : Nat) (h : k ∉ is.map (·.id)) :
    is.filter (fun i => i.id ≠ k) = is := by
  induction is with
  | nil => rfl
  | cons a t ih => grind

theorem count_ids_le (is : List Inter) (k : Nat) :
    (is.map (·.id)).count k ≤ (is.flatMap interIds).count k := by
  induction is with
  | nil => simp
  | cons a t ih => simp [List.flatMap_cons, interIds, List.count_append, List.count_cons]; grind

theorem count_flatMap_remove (is : List Inter) (i : Inter) (hi : i ∈ is)
    (h1 : (is.map (·.id)).count i.id ≤ 1) (x : Nat) :
    (is.flatMap interIds).count x
      = ((is.filter (fun j => j.id ≠ i.id)).flatMap interIds).count x + (interIds i).count x := by
  induction is with
  | nil => simp at hi
  | cons a t ih =>
    by_cases ha : a.id = i.id
    · -- then a = i and no other element has this id
      have ht : i.id ∉ t.map (·.id) := by
        intro hm
        have := List.count_pos_iff.mpr hm
        simp [List.count_cons, ha] at h1
        omega
      have hai : a = i := by
        rcases List.mem_cons.mp hi with h | h
        · exact h.symm
        · exact absurd (List.mem_map_of_mem (f := (·.id)) h) ht
      subst hai
      rw [List.filter_cons_of_neg (by simp), filter_inters_absent t _ ht, List.flatMap_cons, List.count_append]
      omega
    · have hi' : i ∈ t := by
        rcases List.mem_cons.mp hi with h | h
        · exact absurd (by rw [h]) ha
        · exact h
      have h1' : (t.map (·.id)).count i.id ≤ 1 := by
        simp [List.count_cons] at h1; omega
      rw [List.filter_cons_of_pos (by simpa using ha), List.flatMap_cons, List.flatMap_cons, List.count_append,
        List.count_append, ih hi' h1']
      omega
abbrev lids (n : Net) : List Nat := n.lanelets.map (·.id)

/-! ### network level: what each operation does to the four id components -/
section net
variable (n : Net) (k x : Nat)

@[simp] theorem removeSign_lids : lids (n.removeSign k) = lids n := by
  unfold Net.removeSign lids; split <;> simp [List.map_map, Function.comp_def]
@[simp] theorem removeSign_lights : (n.removeSign k).lights = n.lights := by
  unfold Net.removeSign; split <;> rfl
@[simp] theorem removeSign_inters : (n.removeSign k).inters = n.inters := by
  unfold Net.removeSign; split <;> rfl
theorem removeSign_signs : (n.removeSign k).signs = n.signs.filter (· ≠ k) := by
  unfold Net.removeSign; split
  · rfl
  · symm; apply List.filter_eq_self.mpr; intro a ha; simp; rintro rfl; contradiction

@[simp] theorem removeLight_lids : lids (n.removeLight k) = lids n := by
  unfold Net.removeLight lids; simp [List.map_map, Function.comp_def]
@[simp] theorem removeLight_signs : (n.removeLight k).signs = n.signs := rfl
@[simp] theorem removeLight_inters : (n.removeLight k).inters = n.inters := rfl
theorem removeLight_lights : (n.removeLight k).lights = n.lights.filter (· ≠ k) := rfl

theorem removeLanelet_lids : lids (n.removeLanelet k) = (lids n).filter (· ≠ k) := by
  unfold Net.removeLanelet lids; simp [List.filter_map, Function.comp_def]
@[simp] theorem removeLanelet_signs : (n.removeLanelet k).signs = n.signs := rfl
@[simp] theorem removeLanelet_lights : (n.removeLanelet k).lights = n.lights := rfl
@[simp] theorem removeLanelet_inters : (n.removeLanelet k).inters = n.inters := rfl

@[simp] theorem removeInter_lanelets : (n.removeInter k).lanelets = n.lanelets := rfl
@[simp] theorem removeInter_signs : (n.removeInter k).signs = n.signs := rfl
@[simp] theorem removeInter_lights : (n.removeInter k).lights = n.lights := rfl
theorem removeInter_inters : (n.removeInter k).inters = n.inters.filter (fun i => i.id ≠ k) := rfl
end net

section net2
variable (n : Net) (k x : Nat) (refs : List Nat)

@[simp] theorem addSign_lids : lids (n.addSign k refs) = lids n := by
  unfold Net.addSign lids; split
  · rfl
  · simp only [List.map_map]; congr 1; funext l; simp only [Function.comp]; split <;> rfl
@[simp] theorem addSign_lights : (n.addSign k refs).lights = n.lights := by
  unfold Net.addSign; split <;> rfl
@[simp] theorem addSign_inters : (n.addSign k refs).inters = n.inters := by
  unfold Net.addSign; split <;> rfl
theorem addSign_signs : (n.addSign k refs).signs = dictSet n.signs k := by
  unfold Net.addSign dictSet; split <;> rfl

@[simp] theorem addLight_lids : lids (n.addLight k refs) = lids n := by
  unfold Net.addLight lids; split
  · rfl
  · simp only [List.map_map]; congr 1; funext l; simp only [Function.comp]; split <;> rfl
@[simp] theorem addLight_signs : (n.addLight k refs).signs = n.signs := by
  unfold Net.addLight; split <;> rfl
@[simp] theorem addLight_inters : (n.addLight k refs).inters = n.inters := by
  unfold Net.addLight; split <;> rfl
theorem addLight_lights : (n.addLight k refs).lights = dictSet n.lights k := by
  unfold Net.addLight dictSet; split <;> rfl

theorem addLanelet_lids (l : Lanelet) : lids (n.addLanelet l) = dictSet (lids n) l.id := by
  unfold Net.addLanelet dictSet lids; split <;> simp
@[simp] theorem addLanelet_signs (l : Lanelet) : (n.addLanelet l).signs = n.signs := by
  unfold Net.addLanelet; split <;> rfl
@[simp] theorem addLanelet_lights (l : Lanelet) : (n.addLanelet l).lights = n.lights := by
  unfold Net.addLanelet; split <;> rfl
@[simp] theorem addLanelet_inters (l : Lanelet) : (n.addLanelet l).inters = n.inters := by
  unfold Net.addLanelet; split <;> rfl

@[simp] theorem addInter_lanelets (i : Inter) : (n.addInter i).lanelets = n.lanelets := by
  unfold Net.addInter; split <;> rfl
@[simp] theorem addInter_signs (i : Inter) : (n.addInter i).signs = n.signs := by
  unfold Net.addInter; split <;> rfl
@[simp] theorem addInter_lights (i : Inter) : (n.addInter i).lights = n.lights := by
  unfold Net.addInter; split <;> rfl
theorem addInter_inters (i : Inter) (h : i.id ∉ n.inters.map (·.id)) : (n.addInter i).inters = n.inters ++ [i] := by
  unfold Net.addInter; simp [h]
end net2

/-! ### contained ids, invariant -/

def obstIds (s : St) : List Nat := s.stat ++ s.dyn ++ s.env ++ s.phan

/-- ids of all contained objects, with multiplicity: lanelets, signs, lights, intersections with their incoming
    elements, obstacles of the four roles. -/
def allIds (s : St) : List Nat := netIds s.net ++ obstIds s

def cnt (s : St) (x : Nat) : Nat := (allIds s).count x

theorem cnt_def (s : St) (x : Nat) : cnt s x =
    (lids s.net).count x + s.net.signs.count x + s.net.lights.count x
      + (s.net.inters.flatMap interIds).count x + s.stat.count x + s.dyn.count x + s.env.count x + s.phan.count x := by
  simp [cnt, allIds, netIds, obstIds, lids, List.count_append]; omega

/-- The invariant in counting form: every id is held by exactly one contained object if it is in the id set and by
    none otherwise; the counter is initialised as soon as an id is reserved. -/
def Inv (s : St) : Prop :=
  (∀ x, cnt s x = if x ∈ s.idSet then 1 else 0) ∧ (s.counter = none → s.idSet = [])

theorem inv_iff (s : St) :
    Inv s ↔ ((allIds s).Nodup ∧ (∀ x, x ∈ s.idSet ↔ x ∈ allIds s)) ∧ (s.counter = none → s.idSet = []) := by
  unfold Inv cnt
  constructor
  · rintro ⟨h, hc⟩
    refine ⟨⟨List.nodup_iff_count.mpr fun x => ?_, fun x => ?_⟩, hc⟩
    · have := h x; split at this <;> omega
    · have := h x
      have h2 := List.count_pos_iff (a := x) (l := allIds s)
      grind
  · rintro ⟨⟨hn, hm⟩, hc⟩
    refine ⟨fun x => ?_, hc⟩
    have h1 := List.nodup_iff_count.mp hn x
    have h2 := hm x
    have h3 := List.count_pos_iff (a := x) (l := allIds s)
    grind

theorem Inv.mem_idSet {s : St} (h : Inv s) {x : Nat} : x ∈ s.idSet ↔ 0 < cnt s x := by
  have := h.1 x; split at this <;> simp_all

/-! ### release / mark -/
@[simp] theorem release_net (s : St) (k : Nat) : (release s k).1.net = s.net := by unfold release; split <;> rfl
@[simp] theorem release_stat (s : St) (k : Nat) : (release s k).1.stat = s.stat := by unfold release; split <;> rfl
@[simp] theorem release_dyn (s : St) (k : Nat) : (release s k).1.dyn = s.dyn := by unfold release; split <;> rfl
@[simp] theorem release_env (s : St) (k : Nat) : (release s k).1.env = s.env := by unfold release; split <;> rfl
@[simp] theorem release_phan (s : St) (k : Nat) : (release s k).1.phan = s.phan := by unfold release; split <;> rfl
@[simp] theorem release_counter (s : St) (k : Nat) : (release s k).1.counter = s.counter := by
  unfold release; split <;> rfl
theorem release_mem (s : St) (k x : Nat) : x ∈ (release s k).1.idSet ↔ x ∈ s.idSet ∧ x ≠ k := by
  unfold release; split <;> grind
theorem release_out (s : St) (k : Nat) : (release s k).2 = if k ∈ s.idSet then .ok else .err .key := by
  unfold release; split <;> rfl

/-- removal of the holder of id `k` (with multiplicity `c` in its component) followed by `release`. -/
theorem inv_of_remove {s s' : St} {k c : Nat} (h : Inv s)
    (hcnt : ∀ x, cnt s' x = if x = k then cnt s k - c else cnt s x)
    (hmem : ∀ x, x ∈ s'.idSet ↔ x ∈ s.idSet ∧ x ≠ k)
    (hctr : s'.counter = s.counter) (hc : k ∈ s.idSet → 1 ≤ c) : Inv s' := by
  obtain ⟨h1, h2⟩ := h
  constructor
  · intro x
    have := h1 x; have := h1 k; have := hcnt x; have := hmem x
    grind
  · intro hn
    have := h2 (hctr ▸ hn)
    apply List.eq_nil_iff_forall_not_mem.mpr
    intro x hx
    have := (hmem x).mp hx
    simp_all

/-! ### admissible removal arguments and what removals preserve -/

def QS (s : St) (k : Nat) : Prop := k ∈ s.net.signs ∨ k ∉ s.idSet
def QL (s : St) (k : Nat) : Prop := k ∈ s.net.lights ∨ k ∉ s.idSet
def QLa (s : St) (k : Nat) : Prop := k ∈ lids s.net ∨ k ∉ s.idSet
def QI (s : St) (i : Inter) : Prop := i ∈ s.net.inters ∨ i.id ∉ s.idSet

/-- `s'` arose from `s` by removals: the id set only shrinks, and whatever left the network has a free id. -/
structure Shrinks (s s' : St) : Prop where
  idSet : ∀ x, x ∈ s'.idSet → x ∈ s.idSet
  signs : ∀ k ∈ s.net.signs, QS s' k
  lights : ∀ k ∈ s.net.lights, QL s' k
  lanelets : ∀ k ∈ lids s.net, QLa s' k
  inters : ∀ i ∈ s.net.inters, QI s' i

theorem Shrinks.refl (s : St) : Shrinks s s :=
  ⟨fun _ h => h, fun _ h => .inl h, fun _ h => .inl h, fun _ h => .inl h, fun _ h => .inl h⟩

theorem QS.mono {s s' : St} {k : Nat} (h : Shrinks s s') (q : QS s k) : QS s' k := by
  rcases q with q | q
  · exact h.signs k q
  · exact .inr fun hk => q (h.idSet k hk)
theorem QL.mono {s s' : St} {k : Nat} (h : Shrinks s s') (q : QL s k) : QL s' k := by
  rcases q with q | q
  · exact h.lights k q
  · exact .inr fun hk => q (h.idSet k hk)
theorem QLa.mono {s s' : St} {k : Nat} (h : Shrinks s s') (q : QLa s k) : QLa s' k := by
  rcases q with q | q
  · exact h.lanelets k q
  · exact .inr fun hk => q (h.idSet k hk)
theorem QI.mono {s s' : St} {i : Inter} (h : Shrinks s s') (q : QI s i) : QI s' i := by
  rcases q with q | q
  · exact h.inters i q
  · exact .inr fun hk => q (h.idSet _ hk)

theorem Shrinks.trans {a b c : St} (h1 : Shrinks a b) (h2 : Shrinks b c) : Shrinks a c :=
  ⟨fun x hx => h1.idSet x (h2.idSet x hx), fun k hk => (h1.signs k hk).mono h2, fun k hk => (h1.lights k hk).mono h2,
   fun k hk => (h1.lanelets k hk).mono h2, fun i hi => (h1.inters i hi).mono h2⟩

/-- what every removal establishes -/
def Good (s s' : St) : Prop := Inv s' ∧ Shrinks s s'

theorem Good.trans {a b c : St} (h1 : Good a b) (h2 : Good b c) : Good a c := ⟨h2.1, h1.2.trans h2.2⟩

/-! ### sequencing -/

theorem andThen_prop {P : St → Prop} {r : St × Out} {g : St → St × Out}
    (h1 : P r.1) (h2 : ∀ s1, P s1 → P (g s1).1) : P (andThen r g).1 := by
  unfold andThen
  split
  · exact h2 _ h1
  · exact h1

theorem andThen_ok {r : St × Out} {g : St → St × Out} {s' : St} (h : andThen r g = (s', .ok)) :
    ∃ s1, r = (s1, .ok) ∧ g s1 = (s', .ok) := by
  obtain ⟨s1, o⟩ := r
  cases o with
  | ok => exact ⟨s1, rfl, h⟩
  | err e => simp [andThen] at h
  | id n => simp [andThen] at h

theorem forEach_good {α : Type} (f : St → α → St × Out) (Q : St → α → Prop)
    (hf : ∀ s a, Inv s → Q s a → Good s (f s a).1)
    (hQ : ∀ s s' a, Shrinks s s' → Q s a → Q s' a) :
    ∀ (as : List α) (s : St), Inv s → (∀ a ∈ as, Q s a) → Good s (forEach f s as).1
  | [], s, hi, _ => ⟨hi, Shrinks.refl s⟩
  | a :: as, s, hi, hq => by
    show Good s (andThen (f s a) (fun s1 => forEach f s1 as)).1
    have h1 := hf s a hi (hq a (by simp))
    apply andThen_prop (P := fun t => Good s t) h1
    intro s1 hg
    have := forEach_good f Q hf hQ as s1 hg.1 (fun b hb => hQ s s1 b hg.2 (hq b (by simp [hb])))
    exact hg.trans this

/-! ### releasing several ids -/

/-- the parts of the state a removal of ids does not touch -/
def SameObjs (s s' : St) : Prop :=
  s'.net = s.net ∧ s'.stat = s.stat ∧ s'.dyn = s.dyn ∧ s'.env = s.env ∧ s'.phan = s.phan ∧ s'.counter = s.counter

theorem SameObjs.cnt {s s' : St} (h : SameObjs s s') (x : Nat) : cnt s' x = cnt s x := by
  obtain ⟨h1, h2, h3, h4, h5, _⟩ := h
  simp [cnt_def, h1, h2, h3, h4, h5]

theorem release_same (s : St) (k : Nat) : SameObjs s (release s k).1 := by simp [SameObjs]

theorem forEachRelease_same : ∀ (ks : List Nat) (s : St), SameObjs s (forEach release s ks).1
  | [], s => by simp [forEach, SameObjs]
  | k :: ks, s => by
    show SameObjs s (andThen (release s k) (fun s1 => forEach release s1 ks)).1
    apply andThen_prop (P := fun t => SameObjs s t) (release_same s k)
    intro s1 h1
    have h2 := forEachRelease_same ks s1
    unfold SameObjs at *
    grind

theorem forEachRelease_sub : ∀ (ks : List Nat) (s : St) (x : Nat), x ∈ (forEach release s ks).1.idSet → x ∈ s.idSet
  | [], s, x => by simp [forEach]
  | k :: ks, s, x => by
    show x ∈ (andThen (release s k) (fun s1 => forEach release s1 ks)).1.idSet → x ∈ s.idSet
    apply andThen_prop (P := fun t => x ∈ t.idSet → x ∈ s.idSet)
    · intro h; exact ((release_mem s k x).mp h).1
    · intro s1 h1 h2
      exact h1 (forEachRelease_sub ks s1 x h2)

/-- releasing distinct reserved ids succeeds and removes exactly these ids. -/
theorem forEachRelease_ok : ∀ (ks : List Nat) (s : St), ks.Nodup → (∀ k ∈ ks, k ∈ s.idSet) →
    (forEach release s ks).2 = .ok ∧ ∀ x, x ∈ (forEach release s ks).1.idSet ↔ x ∈ s.idSet ∧ x ∉ ks
  | [], s, _, _ => by simp [forEach]
  | k :: ks, s, hn, hm => by
    have hk : k ∈ s.idSet := hm k (by simp)
    have hr : release s k = ((release s k).1, .ok) := by
      have := release_out s k; simp [hk] at this
      exact Prod.ext rfl this
    show (andThen (release s k) (fun s1 => forEach release s1 ks)).2 = .ok ∧ ∀ x,
      x ∈ (andThen (release s k) (fun s1 => forEach release s1 ks)).1.idSet ↔ _
    rw [hr]
    show (forEach release (release s k).1 ks).2 = .ok ∧ ∀ x, x ∈ (forEach release (release s k).1 ks).1.idSet ↔ _
    have hn' := List.nodup_cons.mp hn
    have ih := forEachRelease_ok ks (release s k).1 hn'.2 (fun j hj => by
      rw [release_mem]; exact ⟨hm j (by simp [hj]), fun e => hn'.1 (e ▸ hj)⟩)
    refine ⟨ih.1, fun x => ?_⟩
    rw [ih.2 x, release_mem]
    simp only [List.mem_cons]; grind

/-! ### remove_traffic_sign / remove_traffic_light / the lanelet loop body -/

theorem removeSignBody_mem (s : St) (k x : Nat) : x ∈ (removeSignBody s k).1.idSet ↔ x ∈ s.idSet ∧ x ≠ k := by
  simp [removeSignBody, release_mem]

theorem removeSignBody_cnt (s : St) (k x : Nat) :
    cnt (removeSignBody s k).1 x = if x = k then cnt s k - s.net.signs.count k else cnt s x := by
  simp only [removeSignBody, cnt_def, release_net, release_stat, release_dyn, release_env, release_phan, removeSign_lids,
    removeSign_lights, removeSign_inters, removeSign_signs, count_filter_ne]
  split
  · subst_vars; omega
  · rfl

theorem removeSignBody_good (s : St) (k : Nat) (h : Inv s) (q : QS s k) : Good s (removeSignBody s k).1 := by
  refine ⟨inv_of_remove h (removeSignBody_cnt s k) (removeSignBody_mem s k) (by simp [removeSignBody]) ?_, ?_⟩
  · intro hk
    rcases q with q | q
    · exact List.count_pos_iff.mpr q
    · exact absurd hk q
  · refine ⟨fun x hx => ((removeSignBody_mem s k x).mp hx).1, fun j hj => ?_, fun j hj => ?_, fun j hj => ?_, fun j hj => ?_⟩
    · by_cases e : j = k
      · exact .inr (by rw [removeSignBody_mem]; simp [e])
      · exact .inl (by simp [removeSignBody, removeSign_signs, hj, e])
    · exact .inl (by simpa [removeSignBody] using hj)
    · exact .inl (by simpa [removeSignBody] using hj)
    · exact .inl (by simpa [removeSignBody] using hj)

theorem removeLightBody_mem (s : St) (k x : Nat) : x ∈ (removeLightBody s k).1.idSet ↔ x ∈ s.idSet ∧ x ≠ k := by
  simp [removeLightBody, release_mem]

theorem removeLightBody_cnt (s : St) (k x : Nat) :
    cnt (removeLightBody s k).1 x = if x = k then cnt s k - s.net.lights.count k else cnt s x := by
  simp only [removeLightBody, cnt_def, release_net, release_stat, release_dyn, release_env, release_phan, removeLight_lids,
    removeLight_lights, removeLight_inters, removeLight_signs, count_filter_ne]
  split
  · subst_vars; omega
  · rfl

theorem removeLightBody_good (s : St) (k : Nat) (h : Inv s) (q : QL s k) : Good s (removeLightBody s k).1 := by
  refine ⟨inv_of_remove h (removeLightBody_cnt s k) (removeLightBody_mem s k) (by simp [removeLightBody]) ?_, ?_⟩
  · intro hk
    rcases q with q | q
    · exact List.count_pos_iff.mpr q
    · exact absurd hk q
  · refine ⟨fun x hx => ((removeLightBody_mem s k x).mp hx).1, fun j hj => ?_, fun j hj => ?_, fun j hj => ?_, fun j hj => ?_⟩
    · exact .inl (by simpa [removeLightBody] using hj)
    · by_cases e : j = k
      · exact .inr (by rw [removeLightBody_mem]; simp [e])
      · exact .inl (by simp [removeLightBody, removeLight_lights, hj, e])
    · exact .inl (by simpa [removeLightBody] using hj)
    · exact .inl (by simpa [removeLightBody] using hj)

theorem dropLaneletBody_mem (s : St) (l : Lanelet) (x : Nat) :
    x ∈ (dropLaneletBody s l).1.idSet ↔ x ∈ s.idSet ∧ x ≠ l.id := by
  simp [dropLaneletBody, release_mem]

theorem dropLaneletBody_cnt (s : St) (l : Lanelet) (x : Nat) :
    cnt (dropLaneletBody s l).1 x = if x = l.id then cnt s l.id - (lids s.net).count l.id else cnt s x := by
  simp only [dropLaneletBody, cnt_def, release_net, release_stat, release_dyn, release_env, release_phan, removeLanelet_lids,
    removeLanelet_lights, removeLanelet_inters, removeLanelet_signs, count_filter_ne]
  split
  · subst_vars; omega
  · rfl

theorem dropLaneletBody_good (s : St) (l : Lanelet) (h : Inv s) (q : QLa s l.id) : Good s (dropLaneletBody s l).1 := by
  refine ⟨inv_of_remove h (dropLaneletBody_cnt s l) (dropLaneletBody_mem s l) (by simp [dropLaneletBody]) ?_, ?_⟩
  · intro hk
    rcases q with q | q
    · exact List.count_pos_iff.mpr q
    · exact absurd hk q
  · refine ⟨fun x hx => ((dropLaneletBody_mem s l x).mp hx).1, fun j hj => ?_, fun j hj => ?_, fun j hj => ?_, fun j hj => ?_⟩
    · exact .inl (by simpa [dropLaneletBody] using hj)
    · exact .inl (by simpa [dropLaneletBody] using hj)
    · by_cases e : j = l.id
      · exact .inr (by rw [dropLaneletBody_mem]; simp [e])
      · exact .inl (by simp only [dropLaneletBody, release_net, removeLanelet_lids]; simp [hj, e])
    · exact .inl (by simpa [dropLaneletBody] using hj)

/-! guarded forms: the object has to be contained, otherwise KeyError and nothing changes -/

theorem removeSign_good (s : St) (k : Nat) (h : Inv s) : Good s (removeSign s k).1 := by
  unfold removeSign; split
  · rename_i hk; exact removeSignBody_good s k h (.inl hk)
  · exact ⟨h, Shrinks.refl s⟩

theorem removeLight_good (s : St) (k : Nat) (h : Inv s) : Good s (removeLight s k).1 := by
  unfold removeLight; split
  · rename_i hk; exact removeLightBody_good s k h (.inl hk)
  · exact ⟨h, Shrinks.refl s⟩

theorem dropLanelet_good (s : St) (l : Lanelet) (h : Inv s) : Good s (dropLanelet s l).1 := by
  unfold dropLanelet; split
  · rename_i hk; exact dropLaneletBody_good s l h (.inl hk)
  · exact ⟨h, Shrinks.refl s⟩

/-! ### remove_intersection -/

theorem count_le_flatMap_of_mem (is : List Inter) (i : Inter) (hi : i ∈ is) (x : Nat) :
    (interIds i).count x ≤ (is.flatMap interIds).count x := by
  induction is with
  | nil => simp at hi
  | cons a t ih =>
    rw [List.flatMap_cons, List.count_append]
    rcases List.mem_cons.mp hi with h | h
    · subst h; omega
    · have := ih h; omega

theorem removeInterBody_proj (s : St) (i : Inter) :
    (removeInterBody s i).1.net = s.net.removeInter i.id ∧ (removeInterBody s i).1.stat = s.stat ∧
    (removeInterBody s i).1.dyn = s.dyn ∧ (removeInterBody s i).1.env = s.env ∧ (removeInterBody s i).1.phan = s.phan ∧
    (removeInterBody s i).1.counter = s.counter ∧ ∀ x, x ∈ (removeInterBody s i).1.idSet → x ∈ s.idSet := by
  unfold removeInterBody
  apply andThen_prop (P := fun t => t.net = s.net.removeInter i.id ∧ t.stat = s.stat ∧ t.dyn = s.dyn ∧ t.env = s.env ∧
    t.phan = s.phan ∧ t.counter = s.counter ∧ ∀ x, x ∈ t.idSet → x ∈ s.idSet)
  · refine ⟨by simp, by simp, by simp, by simp, by simp, by simp, fun x hx => ?_⟩
    exact ((release_mem _ _ x).mp hx).1
  · intro s1 ⟨h1, h2, h3, h4, h5, h6, h7⟩
    obtain ⟨g1, g2, g3, g4, g5, g6⟩ := forEachRelease_same i.incs s1
    exact ⟨g1.trans h1, g2.trans h2, g3.trans h3, g4.trans h4, g5.trans h5, g6.trans h6,
      fun x hx => h7 x (forEachRelease_sub _ _ x hx)⟩

theorem cnt_removeInter (s : St) (i : Inter) (x : Nat) :
    cnt (removeInterBody s i).1 x + (s.net.inters.flatMap interIds).count x
      = cnt s x + ((s.net.inters.filter (fun j => j.id ≠ i.id)).flatMap interIds).count x := by
  obtain ⟨h1, h2, h3, h4, h5, _, _⟩ := removeInterBody_proj s i
  simp only [cnt_def, h1, h2, h3, h4, h5, removeInter_inters, removeInter_signs, removeInter_lights, lids,
    removeInter_lanelets]
  omega

theorem Inv.le_one {s : St} (h : Inv s) (x : Nat) : cnt s x ≤ 1 := by
  have := h.1 x; split at this <;> omega

theorem Inv.mem_of_pos {s : St} (h : Inv s) {x : Nat} (hx : 0 < cnt s x) : x ∈ s.idSet := by
  have := h.1 x; split at this
  · assumption
  · omega

theorem inters_count_le_cnt (s : St) (x : Nat) : (s.net.inters.flatMap interIds).count x ≤ cnt s x := by
  rw [cnt_def]; omega

theorem Inv.interIds_nodup {s : St} (h : Inv s) {i : Inter} (hi : i ∈ s.net.inters) : (interIds i).Nodup :=
  List.nodup_iff_count.mpr fun x =>
    Nat.le_trans (Nat.le_trans (count_le_flatMap_of_mem _ i hi x) (inters_count_le_cnt s x)) (h.le_one x)

theorem Inv.interIds_mem {s : St} (h : Inv s) {i : Inter} (hi : i ∈ s.net.inters) {x : Nat} (hx : x ∈ interIds i) :
    x ∈ s.idSet :=
  h.mem_of_pos (Nat.lt_of_lt_of_le (List.count_pos_iff.mpr hx)
    (Nat.le_trans (count_le_flatMap_of_mem _ i hi x) (inters_count_le_cnt s x)))

theorem removeInterBody_good (s : St) (i : Inter) (h : Inv s) (q : QI s i) : Good s (removeInterBody s i).1 := by
  obtain ⟨p1, p2, p3, p4, p5, p6, p7⟩ := removeInterBody_proj s i
  have hcnt := cnt_removeInter s i
  by_cases hi : i ∈ s.net.inters
  · -- contained: the id and all incoming ids are released
    have hle : ∀ x, (interIds i).count x ≤ cnt s x := fun x =>
      Nat.le_trans (count_le_flatMap_of_mem _ i hi x) (inters_count_le_cnt s x)
    have hnod : (interIds i).Nodup := List.nodup_iff_count.mpr fun x => Nat.le_trans (hle x) (h.le_one x)
    have hnod' := List.nodup_cons.mp hnod
    have hmemid : ∀ x, x ∈ interIds i → x ∈ s.idSet := fun x hx =>
      h.mem_of_pos (Nat.lt_of_lt_of_le (List.count_pos_iff.mpr hx) (hle x))
    have hid : i.id ∈ s.idSet := hmemid _ (by simp [interIds])
    have hrel : release { s with net := s.net.removeInter i.id } i.id
        = ((release { s with net := s.net.removeInter i.id } i.id).1, .ok) := by
      have := release_out { s with net := s.net.removeInter i.id } i.id
      simp only [hid, if_true] at this
      exact Prod.ext rfl this
    have hok := forEachRelease_ok i.incs (release { s with net := s.net.removeInter i.id } i.id).1 hnod'.2
      (fun k hk => by
        rw [release_mem]
        exact ⟨hmemid k (by simp [interIds, hk]), fun e => hnod'.1 (e ▸ hk)⟩)
    have hmem : ∀ x, x ∈ (removeInterBody s i).1.idSet ↔ x ∈ s.idSet ∧ x ∉ interIds i := by
      intro x
      have : (removeInterBody s i).1 = (forEach release (release { s with net := s.net.removeInter i.id } i.id).1 i.incs).1 := by
        unfold removeInterBody; rw [hrel]; rfl
      rw [this, hok.2 x, release_mem]
      simp [interIds]; grind
    have hone : (s.net.inters.map (·.id)).count i.id ≤ 1 :=
      Nat.le_trans (count_ids_le _ _) (Nat.le_trans (inters_count_le_cnt s _) (h.le_one _))
    refine ⟨⟨fun x => ?_, fun hn => ?_⟩, ⟨p7, fun j hj => .inl (by simpa [p1] using hj),
      fun j hj => .inl (by simpa [p1] using hj), fun j hj => .inl (by simpa [p1, lids] using hj), fun j hj => ?_⟩⟩
    · have e1 := count_flatMap_remove _ i hi hone x
      have e2 := hcnt x
      have e3 := h.1 x
      have e4 := hmem x
      have e5 := hle x
      have e6 := List.count_pos_iff (a := x) (l := interIds i)
      grind
    · have := h.2 (p6 ▸ hn)
      apply List.eq_nil_iff_forall_not_mem.mpr
      intro x hx; have := p7 x hx; simp_all
    · by_cases e : j.id = i.id
      · exact .inr (by rw [hmem]; simp [interIds, e])
      · exact .inl (by rw [p1, removeInter_inters]; simp [hj, e])
  · -- not contained: its id is free, nothing changes
    have hid : i.id ∉ s.idSet := by rcases q with q | q; exact absurd q hi; exact q
    have habs : i.id ∉ s.net.inters.map (·.id) := by
      intro hm
      obtain ⟨j, hj, e⟩ := List.mem_map.mp hm
      have : 0 < (interIds j).count i.id := List.count_pos_iff.mpr (by simp [interIds, e])
      exact hid (h.mem_of_pos (Nat.lt_of_lt_of_le this
        (Nat.le_trans (count_le_flatMap_of_mem _ j hj _) (inters_count_le_cnt s _))))
    have hfil := filter_inters_absent _ _ habs
    have hs' : (removeInterBody s i).1.idSet = s.idSet := by
      unfold removeInterBody
      have : release { s with net := s.net.removeInter i.id } i.id = ({ s with net := s.net.removeInter i.id }, .err .key) := by
        unfold release; simp [hid]
      rw [this]; rfl
    refine ⟨⟨fun x => ?_, fun hn => ?_⟩, ⟨p7, fun j hj => .inl (by simpa [p1] using hj),
      fun j hj => .inl (by simpa [p1] using hj), fun j hj => .inl (by simpa [p1, lids] using hj), fun j hj => ?_⟩⟩
    · have e2 := hcnt x
      rw [hfil] at e2
      rw [hs']; have := h.1 x; omega
    · rw [hs']; exact h.2 (p6 ▸ hn)
    · exact .inl (by rw [p1, removeInter_inters, hfil]; exact hj)

theorem removeInter_good (s : St) (i : Inter) (h : Inv s) : Good s (removeInter s i).1 := by
  unfold removeInter; split
  · rename_i j hj; exact removeInterBody_good s j h (.inl (List.mem_of_find?_eq_some hj))
  · exact ⟨h, Shrinks.refl s⟩

/-! ### remove_obstacle -/

theorem removeObstacle_good (s : St) (k : Nat) (h : Inv s) : Good s (removeObstacle s k).1 := by
  unfold removeObstacle
  have shr : ∀ s' : St, s'.net = s.net → (∀ x, x ∈ s'.idSet → x ∈ s.idSet) → Shrinks s s' := fun s' hn hs =>
    ⟨hs, fun j hj => .inl (by rw [hn]; exact hj), fun j hj => .inl (by rw [hn]; exact hj),
     fun j hj => .inl (by rw [hn]; exact hj), fun j hj => .inl (by rw [hn]; exact hj)⟩
  split
  · rename_i hk
    refine ⟨inv_of_remove (c := s.stat.count k) h (fun x => ?_) (fun x => by rw [release_mem]) (by simp)
      (fun _ => List.count_pos_iff.mpr hk), shr _ (by simp) (fun x hx => ((release_mem _ _ x).mp hx).1)⟩
    simp only [cnt_def, release_net, release_stat, release_dyn, release_env, release_phan, count_filter_ne]
    split
    · subst_vars; omega
    · rfl
  · split
    · rename_i _ hk
      refine ⟨inv_of_remove (c := s.dyn.count k) h (fun x => ?_) (fun x => by rw [release_mem]) (by simp)
        (fun _ => List.count_pos_iff.mpr hk), shr _ (by simp) (fun x hx => ((release_mem _ _ x).mp hx).1)⟩
      simp only [cnt_def, release_net, release_stat, release_dyn, release_env, release_phan, count_filter_ne]
      split
      · subst_vars; omega
      · rfl
    · split
      · rename_i _ _ hk
        refine ⟨inv_of_remove (c := s.env.count k) h (fun x => ?_) (fun x => by rw [release_mem]) (by simp)
          (fun _ => List.count_pos_iff.mpr hk), shr _ (by simp) (fun x hx => ((release_mem _ _ x).mp hx).1)⟩
        simp only [cnt_def, release_net, release_stat, release_dyn, release_env, release_phan, count_filter_ne]
        split
        · subst_vars; omega
        · rfl
      · split
        · rename_i _ _ _ hk
          refine ⟨inv_of_remove (c := s.phan.count k) h (fun x => ?_) (fun x => by rw [release_mem]) (by simp)
            (fun _ => List.count_pos_iff.mpr hk), shr _ (by simp) (fun x hx => ((release_mem _ _ x).mp hx).1)⟩
          simp only [cnt_def, release_net, release_stat, release_dyn, release_env, release_phan, count_filter_ne]
          split
          · subst_vars; omega
          · rfl
        · exact ⟨h, Shrinks.refl s⟩

/-! ### list forms -/

theorem removeObstacles_good (s : St) (ks : List Nat) (h : Inv s) : Good s (removeObstacles s ks).1 :=
  forEach_good removeObstacle (fun _ _ => True) (fun s k hi _ => removeObstacle_good s k hi) (fun _ _ _ _ _ => trivial)
    ks s h (fun _ _ => trivial)

theorem removeSigns_good (s : St) (ks : List Nat) (h : Inv s) : Good s (removeSigns s ks).1 :=
  forEach_good removeSign (fun _ _ => True) (fun s k hi _ => removeSign_good s k hi) (fun _ _ _ _ _ => trivial)
    ks s h (fun _ _ => trivial)

theorem removeLights_good (s : St) (ks : List Nat) (h : Inv s) : Good s (removeLights s ks).1 :=
  forEach_good removeLight (fun _ _ => True) (fun s k hi _ => removeLight_good s k hi) (fun _ _ _ _ _ => trivial)
    ks s h (fun _ _ => trivial)

theorem removeInters_good (s : St) (is : List Inter) (h : Inv s) : Good s (removeInters s is).1 :=
  forEach_good removeInter (fun _ _ => True) (fun s k hi _ => removeInter_good s k hi) (fun _ _ _ _ _ => trivial)
    is s h (fun _ _ => trivial)

theorem dropLanelets_good (s : St) (ls : List Lanelet) (h : Inv s) : Good s (forEach dropLanelet s ls).1 :=
  forEach_good dropLanelet (fun _ _ => True) (fun s k hi _ => dropLanelet_good s k hi) (fun _ _ _ _ _ => trivial)
    ls s h (fun _ _ => trivial)

/-! ### remove_lanelet -/

theorem removeLanelets_good (s : St) (ls : List Lanelet) (refd : Bool) (h : Inv s) :
    Good s (removeLanelets s ls refd).1 := by
  unfold removeLanelets
  apply andThen_prop (P := fun t => Good s t)
  · split
    · apply andThen_prop (P := fun t => Good s t)
      · exact removeSigns_good s _ h
      · intro s1 g1
        exact g1.trans (removeLights_good s1 _ g1.1)
    · exact ⟨h, Shrinks.refl s⟩
  · intro s1 g1
    exact g1.trans (dropLanelets_good s1 ls g1.1)

/-! ### mark -/

@[simp] theorem mark_net (s : St) (k : Nat) : (mark s k).1.net = s.net := by
  unfold mark; simp only []; split <;> rfl
@[simp] theorem mark_stat (s : St) (k : Nat) : (mark s k).1.stat = s.stat := by
  unfold mark; simp only []; split <;> rfl
@[simp] theorem mark_dyn (s : St) (k : Nat) : (mark s k).1.dyn = s.dyn := by
  unfold mark; simp only []; split <;> rfl
@[simp] theorem mark_env (s : St) (k : Nat) : (mark s k).1.env = s.env := by
  unfold mark; simp only []; split <;> rfl
@[simp] theorem mark_phan (s : St) (k : Nat) : (mark s k).1.phan = s.phan := by
  unfold mark; simp only []; split <;> rfl
theorem mark_counter (s : St) (k : Nat) : (mark s k).1.counter = s.counter.or (some k) := by
  unfold mark; simp only []; split <;> rfl
theorem mark_counter_ne (s : St) (k : Nat) : (mark s k).1.counter ≠ none := by
  rw [mark_counter]; cases s.counter <;> simp
theorem mark_mem (s : St) (k x : Nat) : x ∈ (mark s k).1.idSet ↔ x ∈ s.idSet ∨ x = k := by
  unfold mark; simp only []; split <;> grind
theorem mark_err (s : St) (k : Nat) : (mark s k).2 = if k ∈ s.idSet then some .value else none := by
  unfold mark; simp only []; split <;> simp_all
theorem mark_eq (s : St) (k : Nat) : mark s k = ((mark s k).1, if k ∈ s.idSet then some .value else none) :=
  Prod.ext rfl (mark_err s k)

theorem Inv.counter_ne {s : St} (h : Inv s) {k : Nat} (hk : k ∈ s.idSet) : s.counter ≠ none := by
  intro hn; have := h.2 hn; simp_all

/-- marking an id that is in use changes nothing at all -/
theorem mark_used (s : St) (k : Nat) (h : Inv s) (hk : k ∈ s.idSet) : mark s k = (s, some .value) := by
  have := h.counter_ne hk
  unfold mark
  cases hc : s.counter with
  | none => exact absurd hc this
  | some c =>
    have : ({ s with counter := (some c).or (some k) } : St) = s := by cases s; simp_all
    simp only [this, hk, if_true]

theorem Inv.cnt_zero {s : St} (h : Inv s) {k : Nat} (hk : k ∉ s.idSet) : cnt s k = 0 := by
  have := h.1 k; simp_all

theorem inv_of_add {s s' : St} {k : Nat} (h : Inv s) (hk : k ∉ s.idSet)
    (hcnt : ∀ x, cnt s' x = cnt s x + if x = k then 1 else 0)
    (hmem : ∀ x, x ∈ s'.idSet ↔ x ∈ s.idSet ∨ x = k) (hctr : s'.counter ≠ none) : Inv s' := by
  refine ⟨fun x => ?_, fun hn => absurd hn hctr⟩
  have := h.1 x; have := hcnt x; have := hmem x
  grind

theorem putObstacle_cnt (s : St) (r : Role) (k x : Nat) (h : cnt s k = 0) :
    cnt (putObstacle s r k) x = cnt s x + if x = k then 1 else 0 := by
  rw [cnt_def] at h
  have h1 : k ∉ s.stat := List.count_eq_zero.mp (by omega)
  have h2 : k ∉ s.dyn := List.count_eq_zero.mp (by omega)
  have h3 : k ∉ s.env := List.count_eq_zero.mp (by omega)
  have h4 : k ∉ s.phan := List.count_eq_zero.mp (by omega)
  cases r <;> simp only [putObstacle, cnt_def, count_dictSet, h1, h2, h3, h4] <;> split <;> simp_all <;> omega

theorem cnt_mark (s : St) (k x : Nat) : cnt (mark s k).1 x = cnt s x := by simp [cnt_def]

theorem onMarked_none (a : St) (g : St → St) : onMarked (a, none) g = (g a, .ok) := rfl
theorem onMarked_some (a : St) (e : Err) (g : St → St) : onMarked (a, some e) g = (a, .err e) := rfl

theorem addObstacle_inv (s : St) (r : Role) (k : Nat) (refs : List Nat) (h : Inv s) :
    Inv (addObj s (.obstacle r k) refs).1 := by
  show Inv (onMarked (mark s k) _).1
  by_cases hk : k ∈ s.idSet
  · rw [mark_used s k h hk]; exact h
  · rw [mark_eq]; simp only [hk, if_false, onMarked_none]
    refine inv_of_add h hk (fun x => ?_) (fun x => ?_) ?_
    · rw [putObstacle_cnt _ _ _ _ (by rw [cnt_mark]; exact h.cnt_zero hk), cnt_mark]
    · cases r <;> simp [putObstacle, mark_mem]
    · cases r <;> simp [putObstacle, mark_counter_ne]

theorem cnt_zero_parts {s : St} {k : Nat} (h : cnt s k = 0) :
    k ∉ lids s.net ∧ k ∉ s.net.signs ∧ k ∉ s.net.lights ∧ (s.net.inters.flatMap interIds).count k = 0 := by
  rw [cnt_def] at h
  exact ⟨List.count_eq_zero.mp (by omega), List.count_eq_zero.mp (by omega), List.count_eq_zero.mp (by omega), by omega⟩

theorem addLanelet_inv (s : St) (l : Lanelet) (refs : List Nat) (h : Inv s) :
    Inv (addObj s (.lanelet l) refs).1 := by
  show Inv (onMarked (mark s l.id) _).1
  by_cases hk : l.id ∈ s.idSet
  · rw [mark_used s _ h hk]; exact h
  · rw [mark_eq]; simp only [hk, if_false, onMarked_none]
    have hz := cnt_zero_parts (h.cnt_zero hk)
    refine inv_of_add h hk (fun x => ?_) (fun x => by simp [mark_mem]) (mark_counter_ne _ _)
    simp only [cnt_def, mark_net, mark_stat, mark_dyn, mark_env, mark_phan, addLanelet_lids, addLanelet_signs,
      addLanelet_lights, addLanelet_inters, count_dictSet]
    split <;> simp_all <;> omega

theorem addSign_inv (s : St) (k : Nat) (refs : List Nat) (h : Inv s) : Inv (addObj s (.sign k) refs).1 := by
  show Inv (onMarked (mark s k) _).1
  by_cases hk : k ∈ s.idSet
  · rw [mark_used s _ h hk]; exact h
  · rw [mark_eq]; simp only [hk, if_false, onMarked_none]
    have hz := cnt_zero_parts (h.cnt_zero hk)
    refine inv_of_add h hk (fun x => ?_) (fun x => by simp [mark_mem]) (mark_counter_ne _ _)
    simp only [cnt_def, mark_net, mark_stat, mark_dyn, mark_env, mark_phan, addSign_lids, addSign_signs,
      addSign_lights, addSign_inters, count_dictSet]
    split <;> simp_all <;> omega

theorem addLight_inv (s : St) (k : Nat) (refs : List Nat) (h : Inv s) : Inv (addObj s (.light k) refs).1 := by
  show Inv (onMarked (mark s k) _).1
  by_cases hk : k ∈ s.idSet
  · rw [mark_used s _ h hk]; exact h
  · rw [mark_eq]; simp only [hk, if_false, onMarked_none]
    have hz := cnt_zero_parts (h.cnt_zero hk)
    refine inv_of_add h hk (fun x => ?_) (fun x => by simp [mark_mem]) (mark_counter_ne _ _)
    simp only [cnt_def, mark_net, mark_stat, mark_dyn, mark_env, mark_phan, addLight_lids, addLight_signs,
      addLight_lights, addLight_inters, count_dictSet]
    split <;> simp_all <;> omega

/-! ### several ids at once: intersections and whole networks -/

/-- the check `_mark_object_ids_as_used` performs before it marks anything -/
def Fresh (s : St) (ks : List Nat) : Prop := ks.Nodup ∧ ∀ k ∈ ks, k ∉ s.idSet

instance (s : St) (ks : List Nat) : Decidable (Fresh s ks) := by unfold Fresh; infer_instance

theorem markMany_fresh (s : St) (ks : List Nat) (h : Fresh s ks) :
    markMany s ks = ({ s with idSet := ks.reverse ++ s.idSet, counter := s.counter.or ks.head? }, none) := by
  unfold Fresh at h; unfold markMany; rw [if_pos h]

theorem markMany_used (s : St) (ks : List Nat) (h : ¬ Fresh s ks) : markMany s ks = (s, some .value) := by
  unfold Fresh at h; unfold markMany; rw [if_neg h]

theorem cnt_split (s : St) (x : Nat) : cnt s x = (netIds s.net).count x + (obstIds s).count x := by
  simp [cnt, allIds, List.count_append]

theorem Inv.inter_id_absent {s : St} (h : Inv s) {k : Nat} (hk : k ∉ s.idSet) : k ∉ s.net.inters.map (·.id) := by
  intro hm
  obtain ⟨j, hj, e⟩ := List.mem_map.mp hm
  have : 0 < (interIds j).count k := List.count_pos_iff.mpr (by simp [interIds, e])
  exact hk (h.mem_of_pos (Nat.lt_of_lt_of_le this
    (Nat.le_trans (count_le_flatMap_of_mem _ j hj _) (inters_count_le_cnt s _))))

theorem addInter_inv (s : St) (i : Inter) (refs : List Nat) (h : Inv s) : Inv (addObj s (.inter i) refs).1 := by
  show Inv (onMarked (markMany s (interIds i)) _).1
  by_cases hf : Fresh s (interIds i)
  · rw [markMany_fresh s _ hf, onMarked_none]
    have habs : i.id ∉ s.net.inters.map (·.id) := h.inter_id_absent (hf.2 _ (by simp [interIds]))
    refine ⟨fun x => ?_, fun hn => ?_⟩
    · have e1 := h.1 x
      have e2 := List.nodup_iff_count.mp hf.1 x
      have e3 := List.count_pos_iff (a := x) (l := interIds i)
      have e4 := hf.2 x
      simp only [cnt_def, addInter_lanelets, lids, addInter_signs, addInter_lights, addInter_inters _ _ habs,
        List.flatMap_append, List.count_append, List.flatMap_cons, List.flatMap_nil, List.append_nil,
        List.mem_append, List.mem_reverse] at e1 ⊢
      grind
    · exfalso
      cases hc : s.counter <;> simp [hc, interIds] at hn
  · rw [markMany_used s _ hf]; exact h

theorem addNetwork_inv (s : St) (n : Net) (h : Inv s) : Inv (addNetwork s n).1 := by
  unfold addNetwork
  by_cases hf : Fresh s (netIds n)
  · rw [markMany_fresh s _ hf, onMarked_none]
    refine ⟨fun x => ?_, fun hn => ?_⟩
    · have e1 := h.1 x
      have e2 := List.nodup_iff_count.mp hf.1 x
      have e3 := List.count_pos_iff (a := x) (l := netIds n)
      have e4 := hf.2 x
      have e5 := List.count_pos_iff (a := x) (l := netIds s.net)
      simp only [cnt_split] at e1 ⊢
      simp only [obstIds, List.mem_filter, List.mem_append, List.mem_reverse, decide_eq_true_eq] at e1 ⊢
      grind
    · apply List.eq_nil_iff_forall_not_mem.mpr
      intro x hx
      simp only [List.mem_filter, List.mem_append, List.mem_reverse] at hx
      cases hc : s.counter with
      | none =>
        have := h.2 hc
        simp only [hc] at hn
        have : netIds n = [] := by cases hl : netIds n <;> simp_all
        simp_all
      | some c => simp [hc] at hn
  · rw [markMany_used s _ hf]; exact h

/-- an obstacle with a lanelet assignment leaves the same state as one without: only the outcome can differ -/
theorem addObstacleOn_fst (s : St) (r : Role) (k : Nat) (on refs : List Nat) :
    (addObj s (.obstacleOn r k on) refs).1 = (addObj s (.obstacle r k) refs).1 := by
  show (addObstacleOn s r k on).1 = (onMarked (mark s k) _).1
  unfold addObstacleOn
  rcases hm : mark s k with ⟨s1, _ | e⟩ <;> rfl

/-- its outcome: ValueError for a used id; otherwise ok, or AttributeError when it is assigned to a lanelet that does
    not exist while the network has lanelets -/
theorem addObstacleOn_snd (s : St) (r : Role) (k : Nat) (on refs : List Nat) :
    (addObj s (.obstacleOn r k on) refs).2 =
      if k ∈ s.idSet then .err .value
      else if r.onLanelets = false ∨ s.net.lanelets.isEmpty ∨ ∀ x ∈ on, x ∈ lids s.net then .ok else .err .attr := by
  show (addObstacleOn s r k on).2 = _
  unfold addObstacleOn
  rw [mark_eq]
  by_cases hk : k ∈ s.idSet
  · simp [hk]
  · simp only [hk, if_false, mark_net, lids]

theorem addObj_inv (s : St) (o : Obj) (refs : List Nat) (h : Inv s) : Inv (addObj s o refs).1 := by
  cases o with
  | obstacle r k => exact addObstacle_inv s r k refs h
  | obstacleOn r k on => rw [addObstacleOn_fst]; exact addObstacle_inv s r k refs h
  | lanelet l => exact addLanelet_inv s l refs h
  | sign k => exact addSign_inv s k refs h
  | light k => exact addLight_inv s k refs h
  | inter i => exact addInter_inv s i refs h
  | network n => exact addNetwork_inv s n h
  | invalid => exact h

theorem forEach_inv {α : Type} (f : St → α → St × Out) (hf : ∀ s a, Inv s → Inv (f s a).1) :
    ∀ (as : List α) (s : St), Inv s → Inv (forEach f s as).1
  | [], _, hi => hi
  | a :: as, s, hi => by
    show Inv (andThen (f s a) (fun s1 => forEach f s1 as)).1
    exact andThen_prop (P := Inv) (hf s a hi) (fun s1 h1 => forEach_inv f hf as s1 h1)

theorem addList_inv (s : St) (os : List Obj) (refs : List Nat) (h : Inv s) : Inv (addList s os refs).1 :=
  forEach_inv _ (fun s o hi => addObj_inv s o refs hi) os s h

/-! ### erase_lanelet_network / replace_lanelet_network -/

/-- the network components only lose members -/
structure Sub (s s' : St) : Prop where
  lanelets : ∀ k ∈ lids s'.net, k ∈ lids s.net
  signs : ∀ k ∈ s'.net.signs, k ∈ s.net.signs
  lights : ∀ k ∈ s'.net.lights, k ∈ s.net.lights
  inters : ∀ i ∈ s'.net.inters, i ∈ s.net.inters

theorem Sub.refl (s : St) : Sub s s := ⟨fun _ h => h, fun _ h => h, fun _ h => h, fun _ h => h⟩
theorem Sub.trans {a b c : St} (h1 : Sub a b) (h2 : Sub b c) : Sub a c :=
  ⟨fun k hk => h1.lanelets k (h2.lanelets k hk), fun k hk => h1.signs k (h2.signs k hk),
   fun k hk => h1.lights k (h2.lights k hk), fun k hk => h1.inters k (h2.inters k hk)⟩

theorem removeSignBody_sub (s : St) (k : Nat) : Sub s (removeSignBody s k).1 := by
  refine ⟨fun j hj => by simpa [removeSignBody] using hj, fun j hj => ?_, fun j hj => by simpa [removeSignBody] using hj,
    fun j hj => by simpa [removeSignBody] using hj⟩
  simp only [removeSignBody, release_net, removeSign_signs] at hj
  exact (List.mem_filter.mp hj).1

theorem removeLightBody_sub (s : St) (k : Nat) : Sub s (removeLightBody s k).1 := by
  refine ⟨fun j hj => by simpa [removeLightBody] using hj, fun j hj => by simpa [removeLightBody] using hj, fun j hj => ?_,
    fun j hj => by simpa [removeLightBody] using hj⟩
  simp only [removeLightBody, release_net, removeLight_lights] at hj
  exact (List.mem_filter.mp hj).1

theorem dropLaneletBody_sub (s : St) (l : Lanelet) : Sub s (dropLaneletBody s l).1 := by
  refine ⟨fun j hj => ?_, fun j hj => by simpa [dropLaneletBody] using hj, fun j hj => by simpa [dropLaneletBody] using hj,
    fun j hj => by simpa [dropLaneletBody] using hj⟩
  simp only [dropLaneletBody, release_net, removeLanelet_lids] at hj
  exact (List.mem_filter.mp hj).1

theorem removeInterBody_sub (s : St) (i : Inter) : Sub s (removeInterBody s i).1 := by
  obtain ⟨p1, _⟩ := removeInterBody_proj s i
  refine ⟨fun j hj => by simpa [p1, lids] using hj, fun j hj => by simpa [p1] using hj, fun j hj => by simpa [p1] using hj,
    fun j hj => ?_⟩
  rw [p1, removeInter_inters] at hj
  exact (List.mem_filter.mp hj).1

theorem removeSign_sub (s : St) (k : Nat) : Sub s (removeSign s k).1 := by
  unfold removeSign; split
  · exact removeSignBody_sub s k
  · exact Sub.refl s
theorem removeLight_sub (s : St) (k : Nat) : Sub s (removeLight s k).1 := by
  unfold removeLight; split
  · exact removeLightBody_sub s k
  · exact Sub.refl s
theorem dropLanelet_sub (s : St) (l : Lanelet) : Sub s (dropLanelet s l).1 := by
  unfold dropLanelet; split
  · exact dropLaneletBody_sub s l
  · exact Sub.refl s
theorem removeInter_sub (s : St) (i : Inter) : Sub s (removeInter s i).1 := by
  unfold removeInter; split
  · exact removeInterBody_sub s _
  · exact Sub.refl s

/-- the loop bodies leave nothing with the key of their argument behind (whether they raise or not) -/
theorem removeSign_gone (s : St) (k : Nat) : k ∉ (removeSign s k).1.net.signs := by
  unfold removeSign; split
  · simp [removeSignBody, removeSign_signs]
  · assumption
theorem removeLight_gone (s : St) (k : Nat) : k ∉ (removeLight s k).1.net.lights := by
  unfold removeLight; split
  · simp [removeLightBody, removeLight_lights]
  · assumption
theorem dropLanelet_gone (s : St) (l : Lanelet) : l.id ∉ lids (dropLanelet s l).1.net := by
  unfold dropLanelet; split
  · simp only [dropLaneletBody, release_net, removeLanelet_lids]; simp
  · assumption
theorem removeInter_gone (s : St) (i : Inter) : i ∉ (removeInter s i).1.net.inters := by
  unfold removeInter; split
  · rename_i j hj
    have : j.id = i.id := by have := List.find?_some hj; simpa using this
    rw [(removeInterBody_proj s j).1, removeInter_inters]; simp [this]
  · rename_i hn
    intro hi
    have := List.find?_eq_none.mp hn i hi
    simp at this

theorem forEach_sub {α : Type} (f : St → α → St × Out) (hf : ∀ s a, Sub s (f s a).1) :
    ∀ (as : List α) (s : St), Sub s (forEach f s as).1
  | [], s => Sub.refl s
  | a :: as, s => by
    show Sub s (andThen (f s a) (fun s1 => forEach f s1 as)).1
    exact andThen_prop (P := fun t => Sub s t) (hf s a) (fun s1 h1 => h1.trans (forEach_sub f hf as s1))

theorem removeLanelets_sub (s : St) (ls : List Lanelet) (refd : Bool) : Sub s (removeLanelets s ls refd).1 := by
  unfold removeLanelets
  apply andThen_prop (P := fun t => Sub s t)
  · split
    · apply andThen_prop (P := fun t => Sub s t)
      · exact forEach_sub _ removeSign_sub _ _
      · intro s1 g1; exact g1.trans (forEach_sub _ removeLight_sub _ _)
    · exact Sub.refl s
  · intro s1 g1; exact g1.trans (forEach_sub _ dropLanelet_sub _ _)

theorem release_of_not_mem (s : St) (k : Nat) (h : k ∉ s.idSet) : release s k = (s, .err .key) := by
  unfold release; rw [if_neg h]

theorem eraseLanelet_sub (s : St) (k : Nat) : Sub s (eraseLanelet s k).1 := by
  unfold eraseLanelet
  split
  · exact removeLanelets_sub _ _ _
  · exact Sub.refl s

theorem eraseLanelet_good (s : St) (k : Nat) (h : Inv s) : Good s (eraseLanelet s k).1 := by
  unfold eraseLanelet
  split
  · exact removeLanelets_good s _ true h
  · exact ⟨h, Shrinks.refl s⟩

theorem forEach_mono {α : Type} (f : St → α → St × Out) (G : St → Prop) (hmono : ∀ s a, G s → G (f s a).1) :
    ∀ (as : List α) (s : St), G s → G (forEach f s as).1
  | [], _, h => h
  | a :: as, s, h => by
    show G (andThen (f s a) (fun s1 => forEach f s1 as)).1
    exact andThen_prop (P := G) (hmono s a h) (fun s1 h1 => forEach_mono f G hmono as s1 h1)

/-- after a loop that ran to its end every element has been dealt with -/
theorem forEach_gone {α : Type} (f : St → α → St × Out) (G : St → α → Prop)
    (hstep : ∀ s a s', f s a = (s', .ok) → G s' a)
    (hmono : ∀ s a b, G s b → G (f s a).1 b) :
    ∀ (as : List α) (s s' : St), forEach f s as = (s', .ok) → ∀ a ∈ as, G s' a
  | [], _, _, _, a, ha => by simp at ha
  | a :: as, s, s', h, b, hb => by
    obtain ⟨s1, h1, h2⟩ := andThen_ok (r := f s a) (g := fun s1 => forEach f s1 as) h
    rcases List.mem_cons.mp hb with e | e
    · subst e
      have := forEach_mono f (fun t => G t b) (fun t a' ht => hmono t a' b ht) as s1 (hstep s b s1 h1)
      rw [h2] at this; exact this
    · exact forEach_gone f G hstep hmono as s1 s' h2 b e

theorem andThen_of_ok {P : St → Prop} {r : St × Out} {g : St → St × Out}
    (hr : P r.1) (hg : ∀ s1, r = (s1, .ok) → P (g s1).1) : P (andThen r g).1 := by
  obtain ⟨s1, o⟩ := r
  cases o with
  | ok => exact hg s1 rfl
  | err e => exact hr
  | id n => exact hr

theorem fst_of_eq {r : St × Out} {s' : St} {o : Out} (h : r = (s', o)) : r.1 = s' := by rw [h]

theorem erase_inv (s : St) (h : Inv s) : Inv (erase s).1 := by
  unfold erase
  have g1 := forEach_good eraseLanelet (fun _ _ => True) (fun s k hi _ => eraseLanelet_good s k hi)
    (fun _ _ _ _ _ => trivial) (lids s.net) s h (fun _ _ => trivial)
  apply andThen_of_ok (P := Inv) g1.1
  intro s1 e1
  have i1 : Inv s1 := fst_of_eq e1 ▸ g1.1
  have sub1 : Sub s s1 := fst_of_eq e1 ▸ forEach_sub _ eraseLanelet_sub _ s
  have gone1 := forEach_gone eraseLanelet (fun t k => k ∉ lids t.net)
    (fun t k t' ht => by
      unfold eraseLanelet at ht
      split at ht
      · rename_i l hl
        have hlk : l.id = k := by have := List.find?_some hl; simpa using this
        unfold removeLanelets at ht
        obtain ⟨t1, _, ht2⟩ := andThen_ok ht
        obtain ⟨t2, ht3, ht4⟩ := andThen_ok (r := dropLanelet t1 l) (g := fun s1 => forEach dropLanelet s1 []) ht2
        have : t' = t2 := by simp [forEach] at ht4; exact ht4.symm
        subst this
        rw [← fst_of_eq ht3, ← hlk]
        exact dropLanelet_gone t1 l
      · simp at ht)
    (fun t a b hb hm => hb ((eraseLanelet_sub t a).lanelets b hm))
    _ s s1 e1
  have l1 : lids s1.net = [] := List.eq_nil_iff_forall_not_mem.mpr fun k hk => gone1 k (sub1.lanelets k hk) hk
  -- signs
  have g2 := removeSigns_good s1 s1.net.signs i1
  apply andThen_of_ok (P := Inv) g2.1
  intro s2 e2
  have i2 : Inv s2 := fst_of_eq e2 ▸ g2.1
  have sub2 : Sub s1 s2 := fst_of_eq e2 ▸ forEach_sub _ removeSign_sub _ s1
  have gone2 := forEach_gone removeSign (fun t k => k ∉ t.net.signs)
    (fun t k t' ht => by rw [← fst_of_eq ht]; exact removeSign_gone t k)
    (fun t a b hb hm => hb ((removeSign_sub t a).signs b hm)) _ s1 s2 e2
  have l2 : s2.net.signs = [] := List.eq_nil_iff_forall_not_mem.mpr fun k hk => gone2 k (sub2.signs k hk) hk
  -- lights
  have g3 := removeLights_good s2 s2.net.lights i2
  apply andThen_of_ok (P := Inv) g3.1
  intro s3 e3
  have i3 : Inv s3 := fst_of_eq e3 ▸ g3.1
  have sub3 : Sub s2 s3 := fst_of_eq e3 ▸ forEach_sub _ removeLight_sub _ s2
  have gone3 := forEach_gone removeLight (fun t k => k ∉ t.net.lights)
    (fun t k t' ht => by rw [← fst_of_eq ht]; exact removeLight_gone t k)
    (fun t a b hb hm => hb ((removeLight_sub t a).lights b hm)) _ s2 s3 e3
  have l3 : s3.net.lights = [] := List.eq_nil_iff_forall_not_mem.mpr fun k hk => gone3 k (sub3.lights k hk) hk
  -- intersections
  have g4 := removeInters_good s3 s3.net.inters i3
  apply andThen_of_ok (P := Inv) g4.1
  intro s4 e4
  have i4 : Inv s4 := fst_of_eq e4 ▸ g4.1
  have sub4 : Sub s3 s4 := fst_of_eq e4 ▸ forEach_sub _ removeInter_sub _ s3
  have gone4 := forEach_gone removeInter (fun t i => i ∉ t.net.inters)
    (fun t i t' ht => by rw [← fst_of_eq ht]; exact removeInter_gone t i)
    (fun t a b hb hm => hb ((removeInter_sub t a).inters b hm)) _ s3 s4 e4
  have l4 : s4.net.inters = [] := List.eq_nil_iff_forall_not_mem.mpr fun k hk => gone4 k (sub4.inters k hk) hk
  -- everything is gone, so dropping the network object changes no count
  have z1 : lids s4.net = [] := List.eq_nil_iff_forall_not_mem.mpr fun k hk => by
    have := (sub2.trans (sub3.trans sub4)).lanelets k hk; simp [l1] at this
  have z2 : s4.net.signs = [] := List.eq_nil_iff_forall_not_mem.mpr fun k hk => by
    have := (sub3.trans sub4).signs k hk; simp [l2] at this
  have z3 : s4.net.lights = [] := List.eq_nil_iff_forall_not_mem.mpr fun k hk => by
    have := sub4.lights k hk; simp [l3] at this
  refine ⟨fun x => ?_, i4.2⟩
  have := i4.1 x
  simp only [cnt_def, z1, z2, z3, l4] at this ⊢
  simpa [lids] using this

theorem replaceNet_inv (s : St) (n : Net) (h : Inv s) : Inv (replaceNet s n).1 :=
  andThen_prop (P := Inv) (erase_inv s h) (fun s1 h1 => addNetwork_inv s1 n h1)

/-! ### every operation -/

theorem removeHanging_good (s : St) (ls : List Lanelet) (h : Inv s) : Good s (removeHanging s ls).1 := by
  unfold removeHanging
  apply andThen_prop (P := fun t => Good s t)
  · exact removeSigns_good s _ h
  · intro s1 g1
    exact g1.trans (removeLights_good s1 _ g1.1)

theorem setRefs_lids (s : St) (k : Nat) (signs lights : List Nat) : lids (setRefs s k signs lights).net = lids s.net := by
  unfold setRefs lids
  simp only [List.map_map]; congr 1; funext l; simp only [Function.comp]; split <;> rfl

/-- re-assigning the sign / light references of a contained lanelet touches no id -/
theorem setRefs_inv (s : St) (k : Nat) (signs lights : List Nat) (h : Inv s) : Inv (setRefs s k signs lights) := by
  refine ⟨fun x => ?_, h.2⟩
  have := h.1 x
  rw [cnt_def] at this ⊢
  rw [setRefs_lids]
  exact this

theorem step_inv (s : St) (op : Op) (h : Inv s) : Inv (step s op).1 := by
  cases op with
  | add o refs => exact addObj_inv s o refs h
  | addList os refs => exact addList_inv s os refs h
  | removeObstacle k => exact (removeObstacle_good s k h).1
  | removeObstacles ks => exact (removeObstacles_good s ks h).1
  | removeLanelets ls refd => exact (removeLanelets_good s ls refd h).1
  | removeSign k => exact (removeSign_good s k h).1
  | removeSigns ks => exact (removeSigns_good s ks h).1
  | removeLight k => exact (removeLight_good s k h).1
  | removeLights ks => exact (removeLights_good s ks h).1
  | removeInter i => exact (removeInter_good s i h).1
  | removeInters is => exact (removeInters_good s is h).1
  | replaceNet n => exact replaceNet_inv s n h
  | genId => exact ⟨h.1, fun hn => by simp [step, genId] at hn⟩
  | eraseNet => exact erase_inv s h
  | removeHanging ls => exact (removeHanging_good s ls h).1
  | setRefs k signs lights => exact setRefs_inv s k signs lights h

theorem run_inv : ∀ (ops : List Op) (s : St), Inv s → Inv (run s ops).1
  | [], _, h => h
  | op :: ops, s, h => run_inv ops (step s op).1 (step_inv s op h)

theorem init_inv : Inv init := by
  refine ⟨fun x => ?_, fun _ => rfl⟩
  simp [cnt_def, init, lids]

/-! ### adding: rejected when an id is in use, accepted when all ids are free -/

/-- the ids an object brings along -/
def objIds : Obj → List Nat
  | .obstacle _ k => [k]
  | .obstacleOn _ k _ => [k]
  | .lanelet l => [l.id]
  | .sign k => [k]
  | .light k => [k]
  | .inter i => interIds i
  | .network n => netIds n
  | .invalid => []

/-- the object is part of the scenario -/
def Contains (s : St) : Obj → Prop
  | .obstacle .stat k => k ∈ s.stat
  | .obstacle .dyn k => k ∈ s.dyn
  | .obstacle .env k => k ∈ s.env
  | .obstacle .phan k => k ∈ s.phan
  | .obstacleOn .stat k _ => k ∈ s.stat
  | .obstacleOn .dyn k _ => k ∈ s.dyn
  | .obstacleOn .env k _ => k ∈ s.env
  | .obstacleOn .phan k _ => k ∈ s.phan
  | .lanelet l => l ∈ s.net.lanelets
  | .sign k => k ∈ s.net.signs
  | .light k => k ∈ s.net.lights
  | .inter i => i ∈ s.net.inters
  | .network n => s.net = n
  | .invalid => False

theorem fresh_single (s : St) (k : Nat) : Fresh s [k] ↔ k ∉ s.idSet := by simp [Fresh]

theorem addObj_used (s : St) (o : Obj) (refs : List Nat) (h : Inv s) (hu : ¬ Fresh s (objIds o)) :
    addObj s o refs = (s, .err .value) := by
  cases o with
  | obstacle r k =>
    have hk : k ∈ s.idSet := by simpa [objIds, fresh_single] using hu
    show onMarked (mark s k) _ = _; rw [mark_used s k h hk]; rfl
  | obstacleOn r k on =>
    have hk : k ∈ s.idSet := by simpa [objIds, fresh_single] using hu
    show addObstacleOn s r k on = _; unfold addObstacleOn; rw [mark_used s k h hk]
  | lanelet l =>
    have hk : l.id ∈ s.idSet := by simpa [objIds, fresh_single] using hu
    show onMarked (mark s l.id) _ = _; rw [mark_used s _ h hk]; rfl
  | sign k =>
    have hk : k ∈ s.idSet := by simpa [objIds, fresh_single] using hu
    show onMarked (mark s k) _ = _; rw [mark_used s k h hk]; rfl
  | light k =>
    have hk : k ∈ s.idSet := by simpa [objIds, fresh_single] using hu
    show onMarked (mark s k) _ = _; rw [mark_used s k h hk]; rfl
  | inter i =>
    have hu' : ¬ Fresh s (interIds i) := hu
    show onMarked (markMany s (interIds i)) _ = _; rw [markMany_used s _ hu']; rfl
  | network n =>
    have hu' : ¬ Fresh s (netIds n) := hu
    show onMarked (markMany s (netIds n)) _ = _; rw [markMany_used s _ hu']; rfl
  | invalid => rfl

theorem addObj_fresh (s : St) (o : Obj) (refs : List Nat) (h : Inv s) (hv : o ≠ .invalid)
    (hon : ∀ r k on, o ≠ .obstacleOn r k on) (hf : Fresh s (objIds o)) :
    (addObj s o refs).2 = .ok ∧ Contains (addObj s o refs).1 o := by
  cases o with
  | obstacleOn r k on => exact absurd rfl (hon r k on)
  | obstacle r k =>
    have hk : k ∉ s.idSet := by simpa [objIds, fresh_single] using hf
    show (onMarked (mark s k) _).2 = _ ∧ Contains (onMarked (mark s k) _).1 _
    rw [mark_eq]; simp only [hk, if_false, onMarked_none]
    cases r <;> simp [Contains, putObstacle, dictSet] <;> split <;> simp_all
  | lanelet l =>
    have hk : l.id ∉ s.idSet := by simpa [objIds, fresh_single] using hf
    show (onMarked (mark s l.id) _).2 = _ ∧ Contains (onMarked (mark s l.id) _).1 _
    rw [mark_eq]; simp only [hk, if_false, onMarked_none]
    have hz := (cnt_zero_parts (h.cnt_zero hk)).1
    have hz' : l.id ∉ (mark s l.id).1.net.lanelets.map (·.id) := by rw [mark_net]; exact hz
    simp only [Contains, Net.addLanelet, if_neg hz', true_and]; simp
  | sign k =>
    have hk : k ∉ s.idSet := by simpa [objIds, fresh_single] using hf
    show (onMarked (mark s k) _).2 = _ ∧ Contains (onMarked (mark s k) _).1 _
    rw [mark_eq]; simp only [hk, if_false, onMarked_none]
    simp only [Contains, addSign_signs, dictSet, true_and]; split <;> simp_all
  | light k =>
    have hk : k ∉ s.idSet := by simpa [objIds, fresh_single] using hf
    show (onMarked (mark s k) _).2 = _ ∧ Contains (onMarked (mark s k) _).1 _
    rw [mark_eq]; simp only [hk, if_false, onMarked_none]
    simp only [Contains, addLight_lights, dictSet, true_and]; split <;> simp_all
  | inter i =>
    show (onMarked (markMany s (interIds i)) _).2 = _ ∧ Contains (onMarked (markMany s (interIds i)) _).1 _
    have hf' : Fresh s (interIds i) := hf
    rw [markMany_fresh s _ hf', onMarked_none]
    have habs : i.id ∉ s.net.inters.map (·.id) := h.inter_id_absent (hf'.2 _ (by simp [interIds]))
    simp [Contains, addInter_inters _ _ habs]
  | network n =>
    show (onMarked (markMany s (netIds n)) _).2 = _ ∧ Contains (onMarked (markMany s (netIds n)) _).1 _
    have hf' : Fresh s (netIds n) := hf
    rw [markMany_fresh s _ hf', onMarked_none]
    simp [Contains]
  | invalid => exact absurd rfl hv

/-- `Fresh` read on the contained objects instead of the id set (equivalent under the invariant) -/
theorem fresh_iff_allIds (s : St) (h : Inv s) (ks : List Nat) :
    Fresh s ks ↔ ks.Nodup ∧ ∀ k ∈ ks, k ∉ allIds s := by
  have := ((inv_iff s).mp h).1.2
  unfold Fresh
  constructor <;> (rintro ⟨h1, h2⟩; exact ⟨h1, fun k hk => by have := this k; have := h2 k hk; simp_all⟩)

/-! ### generate_object_id -/

theorem le_listMax : ∀ (l : List Nat) (x : Nat), x ∈ l → x ≤ listMax l
  | [], _, h => by simp at h
  | a :: as, x, h => by
    rcases List.mem_cons.mp h with e | e
    · subst e; simp [listMax]; omega
    · have := le_listMax as x e; simp [listMax]; omega

/-- value of the id counter (`None` counts as 0) -/
def cv (s : St) : Nat := s.counter.getD 0

theorem genId_spec (s : St) : ∃ n, genId s = ({ s with counter := some n }, .id n) ∧ cv s < n ∧ ∀ x ∈ s.idSet, x < n := by
  unfold genId cv
  refine ⟨_, rfl, ?_, fun x hx => ?_⟩
  · split <;> omega
  · have := le_listMax _ x hx
    split
    · rename_i he; simp [List.isEmpty_iff] at he; simp [he] at hx
    · omega

/-! the counter never decreases; only `generate_object_id` returns an id -/

def Out.notId : Out → Prop
  | .id _ => False
  | _ => True

/-- `t` continues `s`: the counter did not decrease -/
def Le (s t : St) : Prop := cv s ≤ cv t
theorem Le.refl (s : St) : Le s s := Nat.le_refl _
theorem Le.trans {a b c : St} (h1 : Le a b) (h2 : Le b c) : Le a c := Nat.le_trans h1 h2
theorem Le.of_eq {s t : St} (h : t.counter = s.counter) : Le s t := by unfold Le cv; rw [h]; exact Nat.le_refl _

theorem andThen_le {s : St} {r : St × Out} {g : St → St × Out} (h1 : Le s r.1 ∧ r.2.notId)
    (h2 : ∀ s1, Le s1 (g s1).1 ∧ (g s1).2.notId) : Le s (andThen r g).1 ∧ (andThen r g).2.notId := by
  obtain ⟨s1, o⟩ := r
  cases o with
  | ok => exact ⟨h1.1.trans (h2 s1).1, (h2 s1).2⟩
  | err e => exact h1
  | id n => exact h1

theorem forEach_le {α : Type} (f : St → α → St × Out) (hf : ∀ s a, Le s (f s a).1 ∧ (f s a).2.notId) :
    ∀ (as : List α) (s : St), Le s (forEach f s as).1 ∧ (forEach f s as).2.notId
  | [], s => ⟨Le.refl s, trivial⟩
  | a :: as, s => andThen_le (hf s a) (fun s1 => forEach_le f hf as s1)

theorem release_le (s : St) (k : Nat) : Le s (release s k).1 ∧ (release s k).2.notId := by
  refine ⟨Le.of_eq (by simp), ?_⟩
  rw [release_out]; split <;> trivial

theorem onMarked_le {s : St} {r : St × Option Err} {g : St → St} (h1 : Le s r.1) (h2 : ∀ t, (g t).counter = t.counter) :
    Le s (onMarked r g).1 ∧ (onMarked r g).2.notId := by
  obtain ⟨s1, o⟩ := r
  cases o with
  | none => exact ⟨h1.trans (Le.of_eq (h2 s1)), trivial⟩
  | some e => exact ⟨h1, trivial⟩

theorem mark_le (s : St) (k : Nat) : Le s (mark s k).1 := by
  unfold Le cv; rw [mark_counter]; cases s.counter <;> simp

theorem markMany_le (s : St) (ks : List Nat) : Le s (markMany s ks).1 := by
  unfold markMany
  split
  · unfold Le cv; cases s.counter <;> simp
  · exact Le.refl s

theorem removeSignBody_le (s : St) (k : Nat) : Le s (removeSignBody s k).1 ∧ (removeSignBody s k).2.notId := by
  have := release_le { s with net := s.net.removeSign k } k
  exact ⟨Le.of_eq (by simp [removeSignBody]), this.2⟩
theorem removeLightBody_le (s : St) (k : Nat) : Le s (removeLightBody s k).1 ∧ (removeLightBody s k).2.notId := by
  have := release_le { s with net := s.net.removeLight k } k
  exact ⟨Le.of_eq (by simp [removeLightBody]), this.2⟩
theorem dropLaneletBody_le (s : St) (l : Lanelet) : Le s (dropLaneletBody s l).1 ∧ (dropLaneletBody s l).2.notId := by
  have := release_le { s with net := s.net.removeLanelet l.id } l.id
  exact ⟨Le.of_eq (by simp [dropLaneletBody]), this.2⟩
theorem removeInterBody_le (s : St) (i : Inter) : Le s (removeInterBody s i).1 ∧ (removeInterBody s i).2.notId := by
  refine ⟨Le.of_eq (removeInterBody_proj s i).2.2.2.2.2.1, ?_⟩
  exact (andThen_le (s := { s with net := s.net.removeInter i.id }) (release_le _ _)
    (fun s1 => forEach_le release release_le i.incs s1)).2
theorem removeSign_le (s : St) (k : Nat) : Le s (removeSign s k).1 ∧ (removeSign s k).2.notId := by
  unfold removeSign; split
  · exact removeSignBody_le s k
  · exact ⟨Le.refl s, trivial⟩
theorem removeLight_le (s : St) (k : Nat) : Le s (removeLight s k).1 ∧ (removeLight s k).2.notId := by
  unfold removeLight; split
  · exact removeLightBody_le s k
  · exact ⟨Le.refl s, trivial⟩
theorem dropLanelet_le (s : St) (l : Lanelet) : Le s (dropLanelet s l).1 ∧ (dropLanelet s l).2.notId := by
  unfold dropLanelet; split
  · exact dropLaneletBody_le s l
  · exact ⟨Le.refl s, trivial⟩
theorem removeInter_le (s : St) (i : Inter) : Le s (removeInter s i).1 ∧ (removeInter s i).2.notId := by
  unfold removeInter; split
  · exact removeInterBody_le s _
  · exact ⟨Le.refl s, trivial⟩
theorem removeObstacle_le (s : St) (k : Nat) : Le s (removeObstacle s k).1 ∧ (removeObstacle s k).2.notId := by
  unfold removeObstacle
  split
  · exact ⟨Le.of_eq (by simp), (release_le _ _).2⟩
  · split
    · exact ⟨Le.of_eq (by simp), (release_le _ _).2⟩
    · split
      · exact ⟨Le.of_eq (by simp), (release_le _ _).2⟩
      · split
        · exact ⟨Le.of_eq (by simp), (release_le _ _).2⟩
        · exact ⟨Le.refl s, trivial⟩

theorem removeLanelets_le (s : St) (ls : List Lanelet) (refd : Bool) :
    Le s (removeLanelets s ls refd).1 ∧ (removeLanelets s ls refd).2.notId := by
  unfold removeLanelets
  apply andThen_le
  · split
    · exact andThen_le (forEach_le _ removeSign_le _ _) (fun s1 => forEach_le _ removeLight_le _ _)
    · exact ⟨Le.refl s, trivial⟩
  · exact fun s1 => forEach_le _ dropLanelet_le _ _

theorem eraseLanelet_le (s : St) (k : Nat) : Le s (eraseLanelet s k).1 ∧ (eraseLanelet s k).2.notId := by
  unfold eraseLanelet; split
  · exact removeLanelets_le _ _ _
  · exact ⟨Le.refl s, trivial⟩

theorem erase_le (s : St) : Le s (erase s).1 ∧ (erase s).2.notId := by
  unfold erase
  exact andThen_le (forEach_le _ eraseLanelet_le _ _) fun s1 =>
    andThen_le (forEach_le _ removeSign_le _ _) fun s2 =>
    andThen_le (forEach_le _ removeLight_le _ _) fun s3 =>
    andThen_le (forEach_le _ removeInter_le _ _) fun s4 => ⟨Le.of_eq rfl, trivial⟩

theorem addNetwork_le (s : St) (n : Net) : Le s (addNetwork s n).1 ∧ (addNetwork s n).2.notId :=
  onMarked_le (markMany_le s _) (fun _ => rfl)

theorem addObj_le (s : St) (o : Obj) (refs : List Nat) : Le s (addObj s o refs).1 ∧ (addObj s o refs).2.notId := by
  cases o with
  | obstacle r k => exact onMarked_le (mark_le s k) (fun t => by cases r <;> rfl)
  | obstacleOn r k on =>
    refine ⟨?_, ?_⟩
    · rw [addObstacleOn_fst]; exact (onMarked_le (mark_le s k) (fun t => by cases r <;> rfl)).1
    · rw [addObstacleOn_snd]; split
      · trivial
      · split <;> trivial
  | lanelet l => exact onMarked_le (mark_le s _) (fun _ => rfl)
  | sign k => exact onMarked_le (mark_le s _) (fun _ => rfl)
  | light k => exact onMarked_le (mark_le s _) (fun _ => rfl)
  | inter i => exact onMarked_le (markMany_le s _) (fun _ => rfl)
  | network n => exact addNetwork_le s n
  | invalid => exact ⟨Le.refl s, trivial⟩

/-- Every step keeps the counter from decreasing, and a step that returns an id returns the new counter value,
    which is larger than the old one and than every reserved id. -/
theorem step_counter (s : St) (op : Op) :
    Le s (step s op).1 ∧ ∀ n, (step s op).2 = .id n → cv s < n ∧ cv (step s op).1 = n ∧ ∀ x ∈ s.idSet, x < n := by
  have notId : ∀ {o : Out}, o.notId → ∀ n, o = .id n → cv s < n ∧ cv (step s op).1 = n ∧ ∀ x ∈ s.idSet, x < n := by
    intro o ho n e; subst e; exact absurd ho (by simp [Out.notId])
  cases op with
  | add o refs => exact ⟨(addObj_le s o refs).1, notId (addObj_le s o refs).2⟩
  | addList os refs =>
    have := forEach_le (fun s o => addObj s o refs) (fun s o => addObj_le s o refs) os s
    exact ⟨this.1, notId this.2⟩
  | removeObstacle k => exact ⟨(removeObstacle_le s k).1, notId (removeObstacle_le s k).2⟩
  | removeObstacles ks =>
    have := forEach_le _ removeObstacle_le ks s
    exact ⟨this.1, notId this.2⟩
  | removeLanelets ls refd => exact ⟨(removeLanelets_le s ls refd).1, notId (removeLanelets_le s ls refd).2⟩
  | removeSign k => exact ⟨(removeSign_le s k).1, notId (removeSign_le s k).2⟩
  | removeSigns ks =>
    have := forEach_le _ removeSign_le ks s
    exact ⟨this.1, notId this.2⟩
  | removeLight k => exact ⟨(removeLight_le s k).1, notId (removeLight_le s k).2⟩
  | removeLights ks =>
    have := forEach_le _ removeLight_le ks s
    exact ⟨this.1, notId this.2⟩
  | removeInter i => exact ⟨(removeInter_le s i).1, notId (removeInter_le s i).2⟩
  | removeInters is =>
    have := forEach_le _ removeInter_le is s
    exact ⟨this.1, notId this.2⟩
  | replaceNet n =>
    have := andThen_le (erase_le s) (fun s1 => addNetwork_le s1 n)
    exact ⟨this.1, notId this.2⟩
  | eraseNet => exact ⟨(erase_le s).1, notId (erase_le s).2⟩
  | removeHanging ls =>
    have := andThen_le (s := s) (forEach_le _ removeSign_le (hangingSigns s ls) s)
      (fun s1 => forEach_le _ removeLight_le (hangingLights s ls) s1)
    exact ⟨this.1, notId this.2⟩
  | setRefs k signs lights => exact ⟨Le.of_eq rfl, notId (o := .ok) trivial⟩
  | genId =>
    obtain ⟨n, e, h1, h2⟩ := genId_spec s
    show Le s (genId s).1 ∧ ∀ m, (genId s).2 = .id m → cv s < m ∧ cv (genId s).1 = m ∧ ∀ x ∈ s.idSet, x < m
    rw [e]
    refine ⟨Nat.le_of_lt (by simpa [cv] using h1), fun m hm => ?_⟩
    have : n = m := by simpa using hm
    subst this
    exact ⟨h1, rfl, h2⟩

/-- the ids returned by `generate_object_id` in a history -/
def genOuts : List Out → List Nat
  | [] => []
  | .id n :: os => n :: genOuts os
  | .ok :: os => genOuts os
  | .err _ :: os => genOuts os

theorem run_gen_increasing : ∀ (ops : List Op) (s : St),
    (∀ n ∈ genOuts (run s ops).2, cv s < n) ∧ (genOuts (run s ops).2).Pairwise (· < ·)
  | [], s => by simp [run, genOuts]
  | op :: ops, s => by
    obtain ⟨h1, h2⟩ := step_counter s op
    obtain ⟨ih1, ih2⟩ := run_gen_increasing ops (step s op).1
    show (∀ n ∈ genOuts ((step s op).2 :: (run (step s op).1 ops).2), cv s < n) ∧
      (genOuts ((step s op).2 :: (run (step s op).1 ops).2)).Pairwise (· < ·)
    cases ho : (step s op).2 with
    | ok => exact ⟨fun n hn => Nat.lt_of_le_of_lt h1 (ih1 n hn), ih2⟩
    | err e => exact ⟨fun n hn => Nat.lt_of_le_of_lt h1 (ih1 n hn), ih2⟩
    | id m =>
      obtain ⟨g1, g2, _⟩ := h2 m ho
      simp only [genOuts, List.mem_cons, List.pairwise_cons]
      refine ⟨fun n hn => ?_, fun n hn => ?_, ih2⟩
      · rcases hn with e | e
        · subst e; exact g1
        · exact Nat.lt_of_le_of_lt h1 (ih1 n e)
      · have := ih1 n hn; omega

/-! ### removals free the ids -/

theorem removeSignBody_keeps_free (s : St) (a x : Nat) (h : x ∉ s.idSet) : x ∉ (removeSignBody s a).1.idSet :=
  fun hx => h ((removeSignBody_mem s a x).mp hx).1
theorem removeLightBody_keeps_free (s : St) (a x : Nat) (h : x ∉ s.idSet) : x ∉ (removeLightBody s a).1.idSet :=
  fun hx => h ((removeLightBody_mem s a x).mp hx).1
theorem dropLaneletBody_keeps_free (s : St) (a : Lanelet) (x : Nat) (h : x ∉ s.idSet) : x ∉ (dropLaneletBody s a).1.idSet :=
  fun hx => h ((dropLaneletBody_mem s a x).mp hx).1
theorem removeInterBody_keeps_free (s : St) (a : Inter) (x : Nat) (h : x ∉ s.idSet) : x ∉ (removeInterBody s a).1.idSet :=
  fun hx => h ((removeInterBody_proj s a).2.2.2.2.2.2 x hx)
theorem release_keeps_free (s : St) (a x : Nat) (h : x ∉ s.idSet) : x ∉ (release s a).1.idSet :=
  fun hx => h ((release_mem s a x).mp hx).1

theorem removeSign_keeps_free (s : St) (a x : Nat) (h : x ∉ s.idSet) : x ∉ (removeSign s a).1.idSet := by
  unfold removeSign; split
  · exact removeSignBody_keeps_free s a x h
  · exact h
theorem removeLight_keeps_free (s : St) (a x : Nat) (h : x ∉ s.idSet) : x ∉ (removeLight s a).1.idSet := by
  unfold removeLight; split
  · exact removeLightBody_keeps_free s a x h
  · exact h
theorem dropLanelet_keeps_free (s : St) (a : Lanelet) (x : Nat) (h : x ∉ s.idSet) : x ∉ (dropLanelet s a).1.idSet := by
  unfold dropLanelet; split
  · exact dropLaneletBody_keeps_free s a x h
  · exact h
theorem removeInter_keeps_free (s : St) (a : Inter) (x : Nat) (h : x ∉ s.idSet) : x ∉ (removeInter s a).1.idSet := by
  unfold removeInter; split
  · exact removeInterBody_keeps_free s _ x h
  · exact h

/-- a removal that returned normally has released the id -/
theorem removeSign_frees (s s' : St) (k : Nat) (h : removeSign s k = (s', .ok)) : k ∉ s'.idSet := by
  unfold removeSign at h; split at h
  · rw [← fst_of_eq h, removeSignBody_mem]; simp
  · simp at h
theorem removeLight_frees (s s' : St) (k : Nat) (h : removeLight s k = (s', .ok)) : k ∉ s'.idSet := by
  unfold removeLight at h; split at h
  · rw [← fst_of_eq h, removeLightBody_mem]; simp
  · simp at h
theorem dropLanelet_frees (s s' : St) (l : Lanelet) (h : dropLanelet s l = (s', .ok)) : l.id ∉ s'.idSet := by
  unfold dropLanelet at h; split at h
  · rw [← fst_of_eq h, dropLaneletBody_mem]; simp
  · simp at h

theorem removeSigns_frees (s s' : St) (ks : List Nat) (h : removeSigns s ks = (s', .ok)) : ∀ k ∈ ks, k ∉ s'.idSet :=
  forEach_gone removeSign (fun t k => k ∉ t.idSet) (fun t k t' ht => removeSign_frees t t' k ht)
    (fun t a b hb => removeSign_keeps_free t a b hb) ks s s' h

theorem removeLights_frees (s s' : St) (ks : List Nat) (h : removeLights s ks = (s', .ok)) : ∀ k ∈ ks, k ∉ s'.idSet :=
  forEach_gone removeLight (fun t k => k ∉ t.idSet) (fun t k t' ht => removeLight_frees t t' k ht)
    (fun t a b hb => removeLight_keeps_free t a b hb) ks s s' h

theorem dropLanelets_frees (s s' : St) (ls : List Lanelet) (h : forEach dropLanelet s ls = (s', .ok)) :
    ∀ l ∈ ls, l.id ∉ s'.idSet :=
  forEach_gone dropLanelet (fun t l => l.id ∉ t.idSet) (fun t k t' ht => dropLanelet_frees t t' k ht)
    (fun t a _ hb => dropLanelet_keeps_free t a _ hb) ls s s' h

theorem releases_frees (s s' : St) (ks : List Nat) (h : forEach release s ks = (s', .ok)) : ∀ k ∈ ks, k ∉ s'.idSet :=
  forEach_gone release (fun t k => k ∉ t.idSet)
    (fun t k t' ht => by rw [← fst_of_eq ht, release_mem]; simp)
    (fun t a b hb => release_keeps_free t a b hb) ks s s' h

theorem removeInterBody_frees (s s' : St) (i : Inter) (h : removeInterBody s i = (s', .ok)) : ∀ x ∈ interIds i, x ∉ s'.idSet := by
  unfold removeInterBody at h
  obtain ⟨s1, h1, h2⟩ := andThen_ok h
  intro x hx
  rcases List.mem_cons.mp hx with e | e
  · subst e
    have : i.id ∉ s1.idSet := by rw [← fst_of_eq h1, release_mem]; simp
    have := forEach_mono release (fun t => i.id ∉ t.idSet) (fun t a ht => release_keeps_free t a _ ht) i.incs s1 this
    rw [h2] at this; exact this
  · exact releases_frees s1 s' i.incs h2 x e

/-- under the invariant the intersection found by the id of a contained intersection is that intersection -/
theorem find_inter_of_unique : ∀ (l : List Inter) (i : Inter), (l.map (·.id)).count i.id ≤ 1 → i ∈ l →
    l.find? (fun j => j.id = i.id) = some i
  | [], _, _, h => by simp at h
  | a :: t, i, hc, hi => by
    by_cases ha : a.id = i.id
    · have ht : i.id ∉ t.map (·.id) := by
        intro hm
        have := List.count_pos_iff.mpr hm
        simp [ha] at hc
        omega
      have hai : a = i := by
        rcases List.mem_cons.mp hi with h | h
        · exact h.symm
        · exact absurd (List.mem_map_of_mem (f := (·.id)) h) ht
      simp [List.find?_cons, hai]
    · have hi' : i ∈ t := by
        rcases List.mem_cons.mp hi with h | h
        · exact absurd (by rw [h]) ha
        · exact h
      have hc' : (t.map (·.id)).count i.id ≤ 1 := by simp [List.count_cons] at hc; omega
      simp [List.find?_cons, ha, find_inter_of_unique t i hc' hi']

theorem Inv.find_inter {s : St} (h : Inv s) {i : Inter} (hi : i ∈ s.net.inters) :
    s.net.inters.find? (fun j => j.id = i.id) = some i :=
  find_inter_of_unique _ i (Nat.le_trans (count_ids_le _ _) (Nat.le_trans (inters_count_le_cnt s _) (h.le_one _))) hi

/-- removing (single form) an intersection given by ANY object with the id of a contained one releases the ids of
    the contained one -/
theorem removeInter_frees (s s' : St) (i : Inter) (h : removeInter s i = (s', .ok)) :
    ∃ j ∈ s.net.inters, j.id = i.id ∧ ∀ x ∈ interIds j, x ∉ s'.idSet := by
  unfold removeInter at h; split at h
  · rename_i j hj
    exact ⟨j, List.mem_of_find?_eq_some hj, by have := List.find?_some hj; simpa using this,
      removeInterBody_frees s s' j h⟩
  · simp at h

theorem removeInter_frees_contained (s s' : St) (i : Inter) (hi : Inv s) (hc : i ∈ s.net.inters)
    (h : removeInter s i = (s', .ok)) : ∀ x ∈ interIds i, x ∉ s'.idSet := by
  unfold removeInter at h
  rw [hi.find_inter hc] at h
  exact removeInterBody_frees s s' i h

/-- list form; the listed intersections are contained -/
theorem removeInters_frees : ∀ (is : List Inter) (s s' : St), Inv s → (∀ i ∈ is, i ∈ s.net.inters) →
    removeInters s is = (s', .ok) → ∀ i ∈ is, ∀ x ∈ interIds i, x ∉ s'.idSet
  | [], _, _, _, _, _, i, hi => by simp at hi
  | a :: as, s, s', hinv, hc, h, i, hi => by
    obtain ⟨s1, h1, h2⟩ := andThen_ok (r := removeInter s a) (g := fun s1 => forEach removeInter s1 as) h
    have g : Good s s1 := by have := removeInter_good s a hinv; rw [h1] at this; exact this
    have g1 : Inv s1 := g.1
    have free_a := removeInter_frees_contained s s1 a hinv (hc a (by simp)) h1
    have keep : ∀ x, x ∉ s1.idSet → x ∉ s'.idSet := fun x hx => by
      have := forEach_mono removeInter (fun t => x ∉ t.idSet) (fun t b ht => removeInter_keeps_free t b x ht) as s1 hx
      rw [h2] at this; exact this
    rcases List.mem_cons.mp hi with e | e
    · subst e; exact fun x hx => keep x (free_a x hx)
    · -- still contained in s1, or already released together with `a`
      rcases g.2.inters i (hc i (by simp [e])) with q | q
      · by_cases hmem : ∀ j ∈ as, j ∈ s1.net.inters
        · exact removeInters_frees as s1 s' g1 hmem h2 i e
        · -- some later element is gone already: then the loop raises KeyError for it, contradiction with `ok`
          exfalso
          apply hmem
          intro j hj
          have hjs := hc j (by simp [hj])
          rcases g.2.inters j hjs with q' | q'
          · exact q'
          · -- j left with `a`: j = a (same id), so removing it again fails; derive the contradiction from h2
            exfalso
            have hgone : ∀ (l : List Inter) (t t' : St), j ∈ l → j ∉ t.net.inters → (∀ b ∈ t.net.inters, b.id ≠ j.id) →
                forEach removeInter t l ≠ (t', .ok) := by
              intro l
              induction l with
              | nil => intro t t' hjl; simp at hjl
              | cons b bs ih =>
                intro t t' hjl hnot hid hok
                obtain ⟨t1, e1, e2⟩ := andThen_ok (r := removeInter t b) (g := fun s1 => forEach removeInter s1 bs) hok
                rcases List.mem_cons.mp hjl with e | e
                · subst e
                  unfold removeInter at e1
                  have : t.net.inters.find? (fun x => x.id = j.id) = none :=
                    List.find?_eq_none.mpr (fun b hb => by simpa using hid b hb)
                  rw [this] at e1; simp at e1
                · have sub := removeInter_sub t b
                  rw [e1] at sub
                  exact ih t1 t' e (fun hx => hnot (sub.inters j hx)) (fun c hc' => hid c (sub.inters c hc')) e2
            have hsame : j.id ∉ s1.idSet := q'
            have hnot : j ∉ s1.net.inters := fun hx =>
              hsame (g1.interIds_mem hx (by simp [interIds]))
            have hid : ∀ b ∈ s1.net.inters, b.id ≠ j.id := fun b hb e =>
              hsame (e ▸ g1.interIds_mem hb (by simp [interIds]))
            exact hgone as s1 s' hj hnot hid h2
      · exact fun x hx => by
          -- i.id is free in s1, so i itself was the one removed with `a`: i and a have the same id, hence i = a
          have hia : i = a := by
            have ha := hc a (by simp)
            have hi' := hc i (by simp [e])
            have hf1 := hinv.find_inter ha
            by_cases hid : i.id = a.id
            · have hf2 := hinv.find_inter hi'
              rw [hid] at hf2; rw [hf1] at hf2; exact (Option.some.inj hf2).symm
            · exfalso
              -- i has another id than a, so it is still contained after removing a
              have hsub : i ∈ s1.net.inters := by
                have : (removeInter s a).1.net.inters = s.net.inters.filter (fun j => j.id ≠ a.id) := by
                  unfold removeInter; rw [hf1]
                  rw [(removeInterBody_proj s a).1, removeInter_inters]
                rw [h1] at this
                rw [this]; simp [hi', hid]
              exact q (g1.interIds_mem hsub (by simp [interIds]))
          subst hia
          exact keep x (free_a x hx)

theorem removeObstacle_frees (s : St) (k : Nat) (h : Inv s) (hk : k ∈ obstIds s) :
    (removeObstacle s k).2 = .ok ∧ k ∉ (removeObstacle s k).1.idSet := by
  have hin : k ∈ s.idSet := h.mem_of_pos (by
    rw [cnt_split]; have := List.count_pos_iff.mpr hk; omega)
  have rel : ∀ t : St, t.idSet = s.idSet → (release t k).2 = .ok ∧ k ∉ (release t k).1.idSet := fun t ht => by
    rw [release_out, release_mem, ht]; simp [hin]
  unfold removeObstacle
  simp only [obstIds, List.mem_append] at hk
  split
  · exact rel _ rfl
  · split
    · exact rel _ rfl
    · split
      · exact rel _ rfl
      · split
        · exact rel _ rfl
        · simp_all

theorem removeLanelets_frees (s s' : St) (ls : List Lanelet) (refd : Bool) (h : removeLanelets s ls refd = (s', .ok)) :
    (∀ l ∈ ls, l.id ∉ s'.idSet) ∧
    (refd = true → (∀ k ∈ hangingSigns s ls, k ∉ s'.idSet) ∧ (∀ k ∈ hangingLights s ls, k ∉ s'.idSet)) := by
  unfold removeLanelets at h
  obtain ⟨s1, h1, h2⟩ := andThen_ok h
  refine ⟨dropLanelets_frees s1 s' ls h2, fun hr => ?_⟩
  simp only [hr, if_true] at h1
  obtain ⟨s0, g1, g2⟩ := andThen_ok h1
  have keep : ∀ x, x ∉ s1.idSet → x ∉ s'.idSet := fun x hx => by
    have := forEach_mono dropLanelet (fun t => x ∉ t.idSet) (fun t a ht => dropLanelet_keeps_free t a x ht) ls s1 hx
    rw [h2] at this; exact this
  refine ⟨fun k hk => keep k ?_, fun k hk => keep k (removeLights_frees s0 s1 _ g2 k hk)⟩
  have := removeSigns_frees s s0 _ g1 k hk
  have := forEach_mono removeLight (fun t => k ∉ t.idSet) (fun t a ht => removeLight_keeps_free t a k ht)
    (hangingLights s ls) s0 this
  unfold removeLights at g2
  rw [g2] at this; exact this

/-! ### replacing the network frees the ids of the old one -/

def SameObst (s t : St) : Prop := t.stat = s.stat ∧ t.dyn = s.dyn ∧ t.env = s.env ∧ t.phan = s.phan
theorem SameObst.refl (s : St) : SameObst s s := ⟨rfl, rfl, rfl, rfl⟩
theorem SameObst.trans {a b c : St} (h1 : SameObst a b) (h2 : SameObst b c) : SameObst a c :=
  ⟨h2.1.trans h1.1, h2.2.1.trans h1.2.1, h2.2.2.1.trans h1.2.2.1, h2.2.2.2.trans h1.2.2.2⟩

theorem forEach_obst {α : Type} (f : St → α → St × Out) (hf : ∀ s a, SameObst s (f s a).1) :
    ∀ (as : List α) (s : St), SameObst s (forEach f s as).1
  | [], s => SameObst.refl s
  | a :: as, s => by
    show SameObst s (andThen (f s a) (fun s1 => forEach f s1 as)).1
    exact andThen_prop (P := fun t => SameObst s t) (hf s a) (fun s1 h1 => h1.trans (forEach_obst f hf as s1))

theorem removeSignBody_obst (s : St) (k : Nat) : SameObst s (removeSignBody s k).1 := by simp [SameObst, removeSignBody]
theorem removeLightBody_obst (s : St) (k : Nat) : SameObst s (removeLightBody s k).1 := by simp [SameObst, removeLightBody]
theorem dropLaneletBody_obst (s : St) (l : Lanelet) : SameObst s (dropLaneletBody s l).1 := by simp [SameObst, dropLaneletBody]
theorem removeInterBody_obst (s : St) (i : Inter) : SameObst s (removeInterBody s i).1 := by
  obtain ⟨_, h2, h3, h4, h5, _⟩ := removeInterBody_proj s i
  exact ⟨h2, h3, h4, h5⟩

theorem removeSign_obst (s : St) (k : Nat) : SameObst s (removeSign s k).1 := by
  unfold removeSign; split
  · exact removeSignBody_obst s k
  · exact SameObst.refl s
theorem removeLight_obst (s : St) (k : Nat) : SameObst s (removeLight s k).1 := by
  unfold removeLight; split
  · exact removeLightBody_obst s k
  · exact SameObst.refl s
theorem dropLanelet_obst (s : St) (l : Lanelet) : SameObst s (dropLanelet s l).1 := by
  unfold dropLanelet; split
  · exact dropLaneletBody_obst s l
  · exact SameObst.refl s
theorem removeInter_obst (s : St) (i : Inter) : SameObst s (removeInter s i).1 := by
  unfold removeInter; split
  · exact removeInterBody_obst s _
  · exact SameObst.refl s

theorem removeLanelets_obst (s : St) (ls : List Lanelet) (refd : Bool) : SameObst s (removeLanelets s ls refd).1 := by
  unfold removeLanelets
  apply andThen_prop (P := fun t => SameObst s t)
  · split
    · apply andThen_prop (P := fun t => SameObst s t)
      · exact forEach_obst _ removeSign_obst _ _
      · intro s1 g1; exact g1.trans (forEach_obst _ removeLight_obst _ _)
    · exact SameObst.refl s
  · intro s1 g1; exact g1.trans (forEach_obst _ dropLanelet_obst _ _)

theorem eraseLanelet_obst (s : St) (k : Nat) : SameObst s (eraseLanelet s k).1 := by
  unfold eraseLanelet; split
  · exact removeLanelets_obst _ _ _
  · simp [SameObst]

theorem erase_obst (s : St) : SameObst s (erase s).1 := by
  unfold erase
  apply andThen_prop (P := fun t => SameObst s t) (forEach_obst _ eraseLanelet_obst _ _)
  intro s1 g1
  apply andThen_prop (P := fun t => SameObst s t) (g1.trans (forEach_obst _ removeSign_obst _ _))
  intro s2 g2
  apply andThen_prop (P := fun t => SameObst s t) (g2.trans (forEach_obst _ removeLight_obst _ _))
  intro s3 g3
  apply andThen_prop (P := fun t => SameObst s t) (g3.trans (forEach_obst _ removeInter_obst _ _))
  intro s4 g4
  exact g4

theorem erase_ok_net (s s' : St) (h : erase s = (s', .ok)) : s'.net = {} := by
  unfold erase at h
  obtain ⟨s1, _, h⟩ := andThen_ok h
  obtain ⟨s2, _, h⟩ := andThen_ok h
  obtain ⟨s3, _, h⟩ := andThen_ok h
  obtain ⟨s4, _, h⟩ := andThen_ok h
  rw [← fst_of_eq h]

theorem erase_frees (s s' : St) (hi : Inv s) (h : erase s = (s', .ok)) : ∀ x ∈ netIds s.net, x ∉ s'.idSet := by
  intro x hx hin
  have hi' : Inv s' := fst_of_eq h ▸ erase_inv s hi
  have ho : SameObst s s' := fst_of_eq h ▸ erase_obst s
  have hn := erase_ok_net s s' h
  have c1 := hi'.1 x
  have c0 := hi.le_one x
  have := List.count_pos_iff.mpr hx
  rw [cnt_split] at c1 c0
  simp only [hin, if_true, hn] at c1
  have e : obstIds s' = obstIds s := by unfold obstIds; rw [ho.1, ho.2.1, ho.2.2.1, ho.2.2.2]
  rw [e] at c1
  simp [netIds] at c1
  omega

theorem replaceNet_frees (s s' : St) (n : Net) (hi : Inv s) (h : replaceNet s n = (s', .ok)) :
    ∀ x ∈ netIds s.net, x ∉ netIds n → x ∉ s'.idSet := by
  unfold replaceNet at h
  obtain ⟨s1, h1, h2⟩ := andThen_ok h
  intro x hx hn hin
  have hfree := erase_frees s s1 hi h1 x hx
  unfold addNetwork at h2
  by_cases hf : Fresh s1 (netIds n)
  · rw [markMany_fresh s1 _ hf, onMarked_none] at h2
    rw [← fst_of_eq h2] at hin
    simp only [List.mem_filter, List.mem_append, List.mem_reverse] at hin
    rcases hin.1 with e | e
    · exact hn e
    · exact hfree e
  · rw [markMany_used s1 _ hf] at h2
    simp [onMarked] at h2

/-! ### small facts used by the property file -/

/-- removing a contained intersection (single form) does not raise -/
theorem removeInterBody_ok (s : St) (i : Inter) (h : Inv s) (hi : i ∈ s.net.inters) : (removeInterBody s i).2 = .ok := by
  have hnod' := List.nodup_cons.mp (h.interIds_nodup hi)
  have hid : i.id ∈ s.idSet := h.interIds_mem hi (by simp [interIds])
  have hrel : release { s with net := s.net.removeInter i.id } i.id
      = ((release { s with net := s.net.removeInter i.id } i.id).1, .ok) := by
    have := release_out { s with net := s.net.removeInter i.id } i.id
    simp only [hid, if_true] at this
    exact Prod.ext rfl this
  have hok := forEachRelease_ok i.incs (release { s with net := s.net.removeInter i.id } i.id).1 hnod'.2
    (fun k hk => by
      rw [release_mem]
      exact ⟨h.interIds_mem hi (by simp [interIds, hk]), fun e => hnod'.1 (e ▸ hk)⟩)
  unfold removeInterBody; rw [hrel]; exact hok.1

theorem Inv.mem_of_contained {s : St} (h : Inv s) {x : Nat} (hx : x ∈ allIds s) : x ∈ s.idSet :=
  (((inv_iff s).mp h).1.2 x).mpr hx

theorem removeSignBody_ok (s : St) (k : Nat) (h : Inv s) (hk : k ∈ s.net.signs) : (removeSignBody s k).2 = .ok := by
  have : k ∈ s.idSet := h.mem_of_contained (by simp [allIds, netIds, hk])
  simp [removeSignBody, release_out, this]

theorem removeLightBody_ok (s : St) (k : Nat) (h : Inv s) (hk : k ∈ s.net.lights) : (removeLightBody s k).2 = .ok := by
  have : k ∈ s.idSet := h.mem_of_contained (by simp [allIds, netIds, hk])
  simp [removeLightBody, release_out, this]

theorem add_ok_of_free (s : St) (o : Obj) (refs : List Nat) (h : Inv s) (hv : o ≠ .invalid)
    (hon : ∀ r k on, o ≠ .obstacleOn r k on) (hn : (objIds o).Nodup)
    (hf : ∀ x ∈ objIds o, x ∉ s.idSet) : (addObj s o refs).2 = .ok :=
  (addObj_fresh s o refs h hv hon ⟨hn, hf⟩).1

/-- removing contained objects (single forms) does not raise -/
theorem removeSign_ok (s : St) (k : Nat) (h : Inv s) (hk : k ∈ s.net.signs) : (removeSign s k).2 = .ok := by
  unfold removeSign; rw [if_pos hk]; exact removeSignBody_ok s k h hk

theorem removeLight_ok (s : St) (k : Nat) (h : Inv s) (hk : k ∈ s.net.lights) : (removeLight s k).2 = .ok := by
  unfold removeLight; rw [if_pos hk]; exact removeLightBody_ok s k h hk

theorem removeInter_ok (s : St) (i : Inter) (h : Inv s) (hi : i ∈ s.net.inters) : (removeInter s i).2 = .ok := by
  unfold removeInter; rw [h.find_inter hi]; exact removeInterBody_ok s i h hi

theorem forEach_append {α : Type} (f : St → α → St × Out) : ∀ (as bs : List α) (s : St),
    forEach f s (as ++ bs) = andThen (forEach f s as) (fun s1 => forEach f s1 bs)
  | [], bs, s => rfl
  | a :: as, bs, s => by
    show andThen (f s a) (fun s1 => forEach f s1 (as ++ bs)) = andThen (andThen (f s a) (fun s1 => forEach f s1 as)) _
    obtain ⟨s1, o⟩ := f s a
    cases o with
    | ok => exact forEach_append f as bs s1
    | err e => rfl
    | id n => rfl


/-! ### success: removing contained, pairwise distinct objects does not raise -/

theorem andThen_snd_ok {r : St × Out} {g : St → St × Out} (h1 : r.2 = .ok) (h2 : (g r.1).2 = .ok) :
    (andThen r g).2 = .ok := by
  obtain ⟨s1, o⟩ := r
  cases o with
  | ok => exact h2
  | err e => simp at h1
  | id n => simp at h1

theorem andThen_eq_of_ok {r : St × Out} {g : St → St × Out} (h1 : r.2 = .ok) : andThen r g = g r.1 := by
  obtain ⟨s1, o⟩ := r
  cases o with
  | ok => rfl
  | err e => simp at h1
  | id n => simp at h1

/-- a loop over pairwise "distinct" (`D`) arguments that are all "contained" (`C`) runs to its end -/
theorem forEach_ok {α : Type} (f : St → α → St × Out) (C : St → α → Prop) (D : α → α → Prop)
    (hinv : ∀ s a, Inv s → Inv (f s a).1)
    (hstep : ∀ s a, Inv s → C s a → (f s a).2 = .ok)
    (hkeep : ∀ s a b, Inv s → C s a → C s b → D a b → C (f s a).1 b) :
    ∀ (as : List α) (s : St), Inv s → as.Pairwise D → (∀ a ∈ as, C s a) → (forEach f s as).2 = .ok
  | [], _, _, _, _ => rfl
  | a :: as, s, hi, hd, hc => by
    have hd' := List.pairwise_cons.mp hd
    have ha := hc a (by simp)
    show (andThen (f s a) (fun s1 => forEach f s1 as)).2 = .ok
    apply andThen_snd_ok (hstep s a hi ha)
    exact forEach_ok f C D hinv hstep hkeep as (f s a).1 (hinv s a hi) hd'.2
      (fun b hb => hkeep s a b hi ha (hc b (by simp [hb])) (hd'.1 b hb))

theorem Inv.nodup_signs {s : St} (h : Inv s) : s.net.signs.Nodup :=
  List.nodup_iff_count.mpr fun x => Nat.le_trans (by rw [cnt_def]; omega) (h.le_one x)
theorem Inv.nodup_lights {s : St} (h : Inv s) : s.net.lights.Nodup :=
  List.nodup_iff_count.mpr fun x => Nat.le_trans (by rw [cnt_def]; omega) (h.le_one x)
theorem Inv.nodup_lids {s : St} (h : Inv s) : (lids s.net).Nodup :=
  List.nodup_iff_count.mpr fun x => Nat.le_trans (by rw [cnt_def]; omega) (h.le_one x)

theorem removeSigns_ok (s : St) (ks : List Nat) (h : Inv s) (hn : ks.Nodup) (hc : ∀ k ∈ ks, k ∈ s.net.signs) :
    (removeSigns s ks).2 = .ok :=
  forEach_ok removeSign (fun t k => k ∈ t.net.signs) (· ≠ ·) (fun t k hi => (removeSign_good t k hi).1)
    removeSign_ok
    (fun t a b _ ha hb hab => by
      unfold removeSign; rw [if_pos ha]
      simp only [removeSignBody, release_net, removeSign_signs, List.mem_filter]
      exact ⟨hb, by simpa using fun e => hab e.symm⟩)
    ks s h hn hc

theorem removeLights_ok (s : St) (ks : List Nat) (h : Inv s) (hn : ks.Nodup) (hc : ∀ k ∈ ks, k ∈ s.net.lights) :
    (removeLights s ks).2 = .ok :=
  forEach_ok removeLight (fun t k => k ∈ t.net.lights) (· ≠ ·) (fun t k hi => (removeLight_good t k hi).1)
    removeLight_ok
    (fun t a b _ ha hb hab => by
      unfold removeLight; rw [if_pos ha]
      simp only [removeLightBody, release_net, removeLight_lights, List.mem_filter]
      exact ⟨hb, by simpa using fun e => hab e.symm⟩)
    ks s h hn hc

theorem Inv.inter_ids_ne {s : St} (h : Inv s) {a b : Inter} (ha : a ∈ s.net.inters) (hb : b ∈ s.net.inters)
    (hab : a ≠ b) : b.id ≠ a.id := by
  intro e
  have f1 := h.find_inter ha
  have f2 := h.find_inter hb
  rw [e, f1] at f2
  exact hab (Option.some.inj f2)

theorem removeInters_ok (s : St) (is : List Inter) (h : Inv s) (hn : is.Nodup) (hc : ∀ i ∈ is, i ∈ s.net.inters) :
    (removeInters s is).2 = .ok :=
  forEach_ok removeInter (fun t i => i ∈ t.net.inters) (· ≠ ·) (fun t k hi => (removeInter_good t k hi).1)
    removeInter_ok
    (fun t a b hi ha hb hab => by
      have : (removeInter t a).1.net.inters = t.net.inters.filter (fun j => j.id ≠ a.id) := by
        unfold removeInter; rw [hi.find_inter ha, (removeInterBody_proj t a).1, removeInter_inters]
      rw [this, List.mem_filter]
      exact ⟨hb, by simpa using hi.inter_ids_ne ha hb hab⟩)
    is s h hn hc

theorem removeObstacle_ok (s : St) (k : Nat) (h : Inv s) : (removeObstacle s k).2 = .ok := by
  have rel : ∀ t : St, t.idSet = s.idSet → k ∈ obstIds s → (release t k).2 = .ok := fun t ht hk => by
    have hin : k ∈ s.idSet := h.mem_of_contained (by simp [allIds, hk])
    rw [release_out, ht]; simp [hin]
  unfold removeObstacle
  split
  · rename_i hk; exact rel _ rfl (by simp [obstIds, hk])
  · split
    · rename_i hk; exact rel _ rfl (by simp [obstIds, hk])
    · split
      · rename_i hk; exact rel _ rfl (by simp [obstIds, hk])
      · split
        · rename_i hk; exact rel _ rfl (by simp [obstIds, hk])
        · rfl

/-- remove_obstacle (list form) never raises: unknown ids only produce a warning -/
theorem removeObstacles_ok (s : St) (ks : List Nat) (h : Inv s) : (removeObstacles s ks).2 = .ok :=
  forEach_ok removeObstacle (fun _ _ => True) (fun _ _ => True) (fun t k hi => (removeObstacle_good t k hi).1)
    (fun t k hi _ => removeObstacle_ok t k hi) (fun _ _ _ _ _ _ _ => trivial) ks s h
    (List.pairwise_of_forall (fun _ _ => trivial)) (fun _ _ => trivial)

theorem removeObstacle_obst_keep (s : St) (a x : Nat) (hx : x ∈ obstIds s) (hne : x ≠ a) :
    x ∈ obstIds (removeObstacle s a).1 := by
  unfold removeObstacle
  simp only [obstIds, List.mem_append] at hx ⊢
  split
  · simp only [release_stat, release_dyn, release_env, release_phan, List.mem_filter]; simp [hne]; exact hx
  · split
    · simp only [release_stat, release_dyn, release_env, release_phan, List.mem_filter]; simp [hne]; exact hx
    · split
      · simp only [release_stat, release_dyn, release_env, release_phan, List.mem_filter]; simp [hne]; exact hx
      · split
        · simp only [release_stat, release_dyn, release_env, release_phan, List.mem_filter]; simp [hne]; exact hx
        · exact hx

/-- list form of remove_obstacle: every listed id that belonged to an obstacle is free afterwards -/
theorem removeObstacles_frees : ∀ (ks : List Nat) (s : St), Inv s → ∀ k ∈ ks, k ∈ obstIds s →
    k ∉ (removeObstacles s ks).1.idSet
  | [], _, _, k, hk, _ => by simp at hk
  | a :: as, s, hi, k, hk, ho => by
    have hok := removeObstacle_ok s a hi
    have g := removeObstacle_good s a hi
    show k ∉ (andThen (removeObstacle s a) (fun s1 => forEach removeObstacle s1 as)).1.idSet
    rw [andThen_eq_of_ok hok]
    have keep : ∀ x, x ∉ (removeObstacle s a).1.idSet → x ∉ (forEach removeObstacle (removeObstacle s a).1 as).1.idSet :=
      fun x hx hx' => hx ((removeObstacles_good _ as g.1).2.idSet x hx')
    by_cases e : k = a
    · subst e; exact keep k (removeObstacle_frees s k hi ho).2
    · have hk' : k ∈ as := by simpa [e] using hk
      exact removeObstacles_frees as _ g.1 k hk' (removeObstacle_obst_keep s a k ho e)

/-! lanelets -/

theorem dropLanelet_ok (s : St) (l : Lanelet) (h : Inv s) (hl : l.id ∈ lids s.net) : (dropLanelet s l).2 = .ok := by
  have : l.id ∈ s.idSet := h.mem_of_contained (by
    have hl' : l.id ∈ s.net.lanelets.map (·.id) := hl
    simp only [allIds, netIds, List.mem_append]; exact .inl (.inl (.inl (.inl hl'))))
  have hl' : l.id ∈ s.net.lanelets.map (·.id) := hl
  unfold dropLanelet; rw [if_pos hl']
  simp [dropLaneletBody, release_out, this]

theorem dropLanelets_ok (s : St) (ls : List Lanelet) (h : Inv s) (hn : (ls.map (·.id)).Nodup)
    (hc : ∀ l ∈ ls, l.id ∈ lids s.net) : (forEach dropLanelet s ls).2 = .ok :=
  forEach_ok dropLanelet (fun t l => l.id ∈ lids t.net) (fun a b => a.id ≠ b.id)
    (fun t k hi => (dropLanelet_good t k hi).1) dropLanelet_ok
    (fun t a b _ ha hb hab => by
      have ha' : a.id ∈ t.net.lanelets.map (·.id) := ha
      unfold dropLanelet; rw [if_pos ha']
      simp only [dropLaneletBody, release_net, removeLanelet_lids, List.mem_filter]
      exact ⟨hb, by simpa using fun e => hab e.symm⟩)
    ls s h (List.pairwise_map.mp hn) hc

/-- sign / light removals leave the other network components alone -/
theorem removeSigns_keeps (s : St) (ks : List Nat) :
    (removeSigns s ks).1.net.lights = s.net.lights ∧ lids (removeSigns s ks).1.net = lids s.net :=
  forEach_mono removeSign (fun t => t.net.lights = s.net.lights ∧ lids t.net = lids s.net)
    (fun t a ht => by
      unfold removeSign; split
      · simpa [removeSignBody] using ht
      · exact ht) ks s ⟨rfl, rfl⟩

theorem removeLights_keeps (s : St) (ks : List Nat) :
    (removeLights s ks).1.net.signs = s.net.signs ∧ lids (removeLights s ks).1.net = lids s.net :=
  forEach_mono removeLight (fun t => t.net.signs = s.net.signs ∧ lids t.net = lids s.net)
    (fun t a ht => by
      unfold removeLight; split
      · simpa [removeLightBody] using ht
      · exact ht) ks s ⟨rfl, rfl⟩

/-- remove_lanelet of contained lanelets with pairwise different ids does not raise -/
theorem removeLanelets_ok (s : St) (ls : List Lanelet) (refd : Bool) (h : Inv s) (hn : (ls.map (·.id)).Nodup)
    (hc : ∀ l ∈ ls, l.id ∈ lids s.net) : (removeLanelets s ls refd).2 = .ok := by
  unfold removeLanelets
  cases refd with
  | false =>
    simp only [Bool.false_eq_true, if_false]
    exact dropLanelets_ok s ls h hn hc
  | true =>
    simp only [if_true]
    have ok1 := removeSigns_ok s (hangingSigns s ls) h (h.nodup_signs.filter _) (fun k hk => (List.mem_filter.mp hk).1)
    have g1 := removeSigns_good s (hangingSigns s ls) h
    have k1 := removeSigns_keeps s (hangingSigns s ls)
    have ok2 := removeLights_ok (removeSigns s (hangingSigns s ls)).1 (hangingLights s ls) g1.1
      (h.nodup_lights.filter _) (fun k hk => by rw [k1.1]; exact (List.mem_filter.mp hk).1)
    have g2 := removeLights_good (removeSigns s (hangingSigns s ls)).1 (hangingLights s ls) g1.1
    have k2 := removeLights_keeps (removeSigns s (hangingSigns s ls)).1 (hangingLights s ls)
    rw [andThen_eq_of_ok (r := removeSigns s (hangingSigns s ls)) ok1, andThen_eq_of_ok ok2]
    exact dropLanelets_ok _ ls g2.1 hn (fun l hl => by rw [k2.2, k1.2]; exact hc l hl)

/-! erase / replace -/

theorem dropLanelet_lids_keep (s : St) (l : Lanelet) (x : Nat) (hx : x ∈ lids s.net) (hne : x ≠ l.id) :
    x ∈ lids (dropLanelet s l).1.net := by
  unfold dropLanelet; split
  · simp only [dropLaneletBody, release_net, removeLanelet_lids, List.mem_filter]; exact ⟨hx, by simpa using hne⟩
  · exact hx

theorem eraseLanelet_lids_keep (s : St) (k x : Nat) (hx : x ∈ lids s.net) (hne : x ≠ k) :
    x ∈ lids (eraseLanelet s k).1.net := by
  unfold eraseLanelet
  split
  · rename_i l hl
    have hlk : l.id = k := by have := List.find?_some hl; simpa using this
    unfold removeLanelets
    apply andThen_prop (P := fun t => x ∈ lids t.net)
    · simp only [if_true]
      apply andThen_prop (P := fun t => x ∈ lids t.net)
      · rw [(removeSigns_keeps s _).2]; exact hx
      · intro s1 h1; rw [(removeLights_keeps s1 _).2]; exact h1
    · intro s1 h1
      show x ∈ lids (andThen (dropLanelet s1 l) (fun s2 => forEach dropLanelet s2 [])).1.net
      apply andThen_prop (P := fun t => x ∈ lids t.net) (dropLanelet_lids_keep s1 l x h1 (hlk ▸ hne))
      intro s2 h2; exact h2
  · exact hx

theorem eraseLanelet_ok (s : St) (k : Nat) (h : Inv s) (hk : k ∈ lids s.net) : (eraseLanelet s k).2 = .ok := by
  unfold eraseLanelet
  split
  · rename_i l hl
    have hlk : l.id = k := by have := List.find?_some hl; simpa using this
    exact removeLanelets_ok s [l] true h (by simp) (fun l' hl' => by simp at hl'; subst hl'; rw [hlk]; exact hk)
  · rename_i hnone
    exfalso
    obtain ⟨l, hl, e⟩ := List.mem_map.mp hk
    have := List.find?_eq_none.mp hnone l hl
    simp [e] at this

theorem Inv.nodup_inters {s : St} (h : Inv s) : s.net.inters.Nodup := by
  have : (s.net.inters.map (·.id)).Nodup := List.nodup_iff_count.mpr fun x =>
    Nat.le_trans (count_ids_le _ _) (Nat.le_trans (inters_count_le_cnt s x) (h.le_one x))
  exact List.Pairwise.of_map (·.id) (fun a b hab e => hab (by rw [e])) this

/-- erase_lanelet_network never raises -/
theorem erase_ok (s : St) (h : Inv s) : (erase s).2 = .ok := by
  unfold erase
  have ok1 := forEach_ok eraseLanelet (fun t k => k ∈ lids t.net) (· ≠ ·) (fun t k hi => (eraseLanelet_good t k hi).1)
    eraseLanelet_ok (fun t a b _ _ hb hab => eraseLanelet_lids_keep t a b hb (fun e => hab e.symm))
    (lids s.net) s h h.nodup_lids (fun _ hk => hk)
  have g1 := forEach_good eraseLanelet (fun _ _ => True) (fun s k hi _ => eraseLanelet_good s k hi)
    (fun _ _ _ _ _ => trivial) (lids s.net) s h (fun _ _ => trivial)
  rw [andThen_eq_of_ok (r := forEach eraseLanelet s (s.net.lanelets.map (·.id))) ok1]
  generalize (forEach eraseLanelet s (s.net.lanelets.map (·.id))).1 = s1 at g1
  have i1 : Inv s1 := g1.1
  have ok2 := removeSigns_ok s1 s1.net.signs i1 i1.nodup_signs (fun _ hk => hk)
  have i2 : Inv (forEach removeSign s1 s1.net.signs).1 := (removeSigns_good s1 s1.net.signs i1).1
  rw [andThen_eq_of_ok (r := forEach removeSign s1 s1.net.signs) ok2]
  generalize (forEach removeSign s1 s1.net.signs).1 = s2 at i2
  have ok3 := removeLights_ok s2 s2.net.lights i2 i2.nodup_lights (fun _ hk => hk)
  have i3 : Inv (forEach removeLight s2 s2.net.lights).1 := (removeLights_good s2 s2.net.lights i2).1
  rw [andThen_eq_of_ok (r := forEach removeLight s2 s2.net.lights) ok3]
  generalize (forEach removeLight s2 s2.net.lights).1 = s3 at i3
  have ok4 := removeInters_ok s3 s3.net.inters i3 i3.nodup_inters (fun _ hk => hk)
  rw [andThen_eq_of_ok (r := forEach removeInter s3 s3.net.inters) ok4]

/-- after erase_lanelet_network exactly the ids of the obstacles are reserved -/
theorem erase_idSet (s : St) (h : Inv s) (x : Nat) : x ∈ (erase s).1.idSet ↔ x ∈ obstIds s := by
  have hok := erase_ok s h
  have he : erase s = ((erase s).1, .ok) := Prod.ext rfl hok
  have hi' := erase_inv s h
  have hn := erase_ok_net s _ he
  have ho := erase_obst s
  have e : obstIds (erase s).1 = obstIds s := by unfold obstIds; rw [ho.1, ho.2.1, ho.2.2.1, ho.2.2.2]
  have := ((inv_iff _).mp hi').1.2 x
  rw [this]
  simp [allIds, hn, netIds, e]

/-- replace_lanelet_network succeeds whenever the ids of the new network are pairwise distinct and none of them
    belongs to an obstacle — ids of the replaced network may be reused — and installs the new network -/
theorem replaceNet_ok (s : St) (n : Net) (h : Inv s) (hn : (netIds n).Nodup) (hf : ∀ k ∈ netIds n, k ∉ obstIds s) :
    (replaceNet s n).2 = .ok ∧ (replaceNet s n).1.net = n ∧ SameObst s (replaceNet s n).1 ∧
      ∀ x, x ∈ (replaceNet s n).1.idSet ↔ x ∈ netIds n ∨ x ∈ obstIds s := by
  have hok := erase_ok s h
  have he : erase s = ((erase s).1, .ok) := Prod.ext rfl hok
  have hfresh : Fresh (erase s).1 (netIds n) := ⟨hn, fun k hk hx => hf k hk ((erase_idSet s h k).mp hx)⟩
  have hnet := erase_ok_net s _ he
  unfold replaceNet
  rw [andThen_eq_of_ok hok]
  unfold addNetwork
  rw [markMany_fresh _ _ hfresh, onMarked_none]
  refine ⟨rfl, rfl, erase_obst s, fun x => ?_⟩
  simp only [List.mem_filter, List.mem_append, List.mem_reverse, hnet, erase_idSet s h]
  simp [netIds]

/-! ### what remove_lanelet takes along, stated without the model's helper -/

/-- a traffic sign is a "hanging member" of the lanelets `ls` iff it exists, one of the lanelets to remove refers to
    it and no lanelet that remains does -/
theorem mem_hangingSigns (s : St) (ls : List Lanelet) (k : Nat) :
    k ∈ hangingSigns s ls ↔ k ∈ s.net.signs ∧ (∃ l ∈ ls, k ∈ l.signs) ∧
      ∀ l' ∈ s.net.lanelets, l'.id ∉ ls.map (·.id) → k ∉ l'.signs := by
  simp only [hangingSigns, List.mem_filter, List.mem_flatMap, decide_eq_true_eq, Bool.decide_and, Bool.and_eq_true,
    not_exists, not_and]
  constructor
  · rintro ⟨h1, h2, h3⟩; exact ⟨h1, h2, fun l' hl' hid => h3 l' ⟨hl', hid⟩⟩
  · rintro ⟨h1, h2, h3⟩; exact ⟨h1, h2, fun l' hl' => h3 l' hl'.1 hl'.2⟩

theorem mem_hangingLights (s : St) (ls : List Lanelet) (k : Nat) :
    k ∈ hangingLights s ls ↔ k ∈ s.net.lights ∧ (∃ l ∈ ls, k ∈ l.lights) ∧
      ∀ l' ∈ s.net.lanelets, l'.id ∉ ls.map (·.id) → k ∉ l'.lights := by
  simp only [hangingLights, List.mem_filter, List.mem_flatMap, decide_eq_true_eq, Bool.decide_and, Bool.and_eq_true,
    not_exists, not_and]
  constructor
  · rintro ⟨h1, h2, h3⟩; exact ⟨h1, h2, fun l' hl' hid => h3 l' ⟨hl', hid⟩⟩
  · rintro ⟨h1, h2, h3⟩; exact ⟨h1, h2, fun l' hl' => h3 l' hl'.1 hl'.2⟩

theorem removeSigns_signs_of_ok : ∀ (ks : List Nat) (s s' : St), removeSigns s ks = (s', .ok) →
    ∀ x, x ∈ s'.net.signs ↔ x ∈ s.net.signs ∧ x ∉ ks
  | [], s, s', h, x => by simp [removeSigns, forEach] at h; simp [← h]
  | a :: as, s, s', h, x => by
    obtain ⟨s1, h1, h2⟩ := andThen_ok (r := removeSign s a) (g := fun s1 => forEach removeSign s1 as) h
    have ih := removeSigns_signs_of_ok as s1 s' h2 x
    have e1 : s1.net.signs = s.net.signs.filter (· ≠ a) := by
      unfold removeSign at h1; split at h1
      · rw [← fst_of_eq h1]; simp [removeSignBody, removeSign_signs]
      · simp at h1
    rw [ih, e1, List.mem_filter]; simp; grind

theorem removeLights_lights_of_ok : ∀ (ks : List Nat) (s s' : St), removeLights s ks = (s', .ok) →
    ∀ x, x ∈ s'.net.lights ↔ x ∈ s.net.lights ∧ x ∉ ks
  | [], s, s', h, x => by simp [removeLights, forEach] at h; simp [← h]
  | a :: as, s, s', h, x => by
    obtain ⟨s1, h1, h2⟩ := andThen_ok (r := removeLight s a) (g := fun s1 => forEach removeLight s1 as) h
    have ih := removeLights_lights_of_ok as s1 s' h2 x
    have e1 : s1.net.lights = s.net.lights.filter (· ≠ a) := by
      unfold removeLight at h1; split at h1
      · rw [← fst_of_eq h1]; simp [removeLightBody, removeLight_lights]
      · simp at h1
    rw [ih, e1, List.mem_filter]; simp; grind

theorem dropLanelets_lids_of_ok : ∀ (ls : List Lanelet) (s s' : St), forEach dropLanelet s ls = (s', .ok) →
    ∀ x, x ∈ lids s'.net ↔ x ∈ lids s.net ∧ x ∉ ls.map (·.id)
  | [], s, s', h, x => by simp [forEach] at h; simp [← h]
  | a :: as, s, s', h, x => by
    obtain ⟨s1, h1, h2⟩ := andThen_ok (r := dropLanelet s a) (g := fun s1 => forEach dropLanelet s1 as) h
    have ih := dropLanelets_lids_of_ok as s1 s' h2 x
    have e1 : lids s1.net = (lids s.net).filter (· ≠ a.id) := by
      unfold dropLanelet at h1; split at h1
      · rw [← fst_of_eq h1]; simp only [dropLaneletBody, release_net, removeLanelet_lids]
      · simp at h1
    rw [ih, e1, List.mem_filter]; simp; grind

theorem dropLanelets_keeps (s : St) (ls : List Lanelet) :
    (forEach dropLanelet s ls).1.net.signs = s.net.signs ∧ (forEach dropLanelet s ls).1.net.lights = s.net.lights :=
  forEach_mono dropLanelet (fun t => t.net.signs = s.net.signs ∧ t.net.lights = s.net.lights)
    (fun t a ht => by
      unfold dropLanelet; split
      · simpa [dropLaneletBody] using ht
      · exact ht) ls s ⟨rfl, rfl⟩

/-- what is left of the network after a remove_lanelet call that returned -/
theorem removeLanelets_effect (s s' : St) (ls : List Lanelet) (refd : Bool) (h : removeLanelets s ls refd = (s', .ok)) :
    (∀ x, x ∈ lids s'.net ↔ x ∈ lids s.net ∧ x ∉ ls.map (·.id)) ∧
    (∀ x, x ∈ s'.net.signs ↔ x ∈ s.net.signs ∧ (refd = true → x ∉ hangingSigns s ls)) ∧
    (∀ x, x ∈ s'.net.lights ↔ x ∈ s.net.lights ∧ (refd = true → x ∉ hangingLights s ls)) := by
  unfold removeLanelets at h
  obtain ⟨s1, h1, h2⟩ := andThen_ok h
  have kd := dropLanelets_keeps s1 ls
  rw [h2] at kd
  have ld := dropLanelets_lids_of_ok ls s1 s' h2
  cases refd with
  | false =>
    simp only [Bool.false_eq_true, if_false] at h1
    have : s1 = s := by cases h1; rfl
    subst this
    refine ⟨ld, fun x => by rw [kd.1]; simp, fun x => by rw [kd.2]; simp⟩
  | true =>
    simp only [if_true] at h1
    obtain ⟨s0, g1, g2⟩ := andThen_ok h1
    have a1 := removeSigns_signs_of_ok _ s s0 g1
    have k1 := removeSigns_keeps s (hangingSigns s ls)
    rw [g1] at k1
    have a2 := removeLights_lights_of_ok _ s0 s1 g2
    have k2 := removeLights_keeps s0 (hangingLights s ls)
    rw [g2] at k2
    refine ⟨fun x => by rw [ld x, k2.2, k1.2], fun x => by rw [kd.1, k2.1, a1 x]; simp,
      fun x => by rw [kd.2, a2 x, k1.1]; simp⟩

/-! ### frame of add_objects: nothing that was contained gets lost, nothing but the new object comes in -/

/-- everything that was in the scenario is still there (lanelets by id: their sign / light references may grow) -/
structure Keeps (s s' : St) : Prop where
  stat : ∀ k ∈ s.stat, k ∈ s'.stat
  dyn : ∀ k ∈ s.dyn, k ∈ s'.dyn
  env : ∀ k ∈ s.env, k ∈ s'.env
  phan : ∀ k ∈ s.phan, k ∈ s'.phan
  lanelets : ∀ k ∈ lids s.net, k ∈ lids s'.net
  signs : ∀ k ∈ s.net.signs, k ∈ s'.net.signs
  lights : ∀ k ∈ s.net.lights, k ∈ s'.net.lights
  inters : ∀ i ∈ s.net.inters, i ∈ s'.net.inters

theorem Keeps.refl (s : St) : Keeps s s :=
  ⟨fun _ h => h, fun _ h => h, fun _ h => h, fun _ h => h, fun _ h => h, fun _ h => h, fun _ h => h, fun _ h => h⟩

theorem Keeps.of_same {s t : St} (hn : t.net = s.net) (h1 : t.stat = s.stat) (h2 : t.dyn = s.dyn) (h3 : t.env = s.env)
    (h4 : t.phan = s.phan) : Keeps s t := by
  refine ⟨?_, ?_, ?_, ?_, ?_, ?_, ?_, ?_⟩ <;> intro k hk <;> simp_all

theorem mem_dictSet (d : List Nat) (k x : Nat) (h : x ∈ d) : x ∈ dictSet d k := by
  unfold dictSet; split <;> simp [h]

theorem onMarked_cases (r : St × Option Err) (g : St → St) : (onMarked r g).1 = g r.1 ∨ (onMarked r g).1 = r.1 := by
  obtain ⟨a, o⟩ := r
  cases o with
  | none => exact .inl rfl
  | some e => exact .inr rfl

theorem markMany_same (s : St) (ks : List Nat) : (markMany s ks).1.net = s.net ∧ (markMany s ks).1.stat = s.stat ∧
    (markMany s ks).1.dyn = s.dyn ∧ (markMany s ks).1.env = s.env ∧ (markMany s ks).1.phan = s.phan := by
  unfold markMany; split <;> simp

/-- adding anything but a whole network never takes an object out -/
theorem addObj_keeps_aux (s : St) (o : Obj) (refs : List Nat) (hnw : ∀ n, o ≠ .network n)
    (hon : ∀ r k on, o ≠ .obstacleOn r k on) : Keeps s (addObj s o refs).1 := by
  have km : ∀ k, Keeps s (mark s k).1 := fun k => Keeps.of_same (by simp) (by simp) (by simp) (by simp) (by simp)
  have kmm : ∀ ks, Keeps s (markMany s ks).1 := fun ks => by
    obtain ⟨a, b, c, d, e⟩ := markMany_same s ks; exact Keeps.of_same a b c d e
  cases o with
  | obstacle r k =>
    rcases onMarked_cases (mark s k) (fun s1 => putObstacle s1 r k) with e | e
    · show Keeps s (onMarked (mark s k) _).1
      rw [e]
      cases r <;> refine ⟨?_, ?_, ?_, ?_, ?_, ?_, ?_, ?_⟩ <;> intro x hx <;>
        simp only [putObstacle, mark_net, mark_stat, mark_dyn, mark_env, mark_phan] <;>
        first | exact hx | exact mem_dictSet _ _ _ hx
    · show Keeps s (onMarked (mark s k) _).1
      rw [e]; exact km k
  | lanelet l =>
    rcases onMarked_cases (mark s l.id) (fun s1 => { s1 with net := s1.net.addLanelet l }) with e | e
    · show Keeps s (onMarked (mark s l.id) _).1
      rw [e]
      refine ⟨?_, ?_, ?_, ?_, ?_, ?_, ?_, ?_⟩ <;> intro x hx <;>
        simp only [mark_net, mark_stat, mark_dyn, mark_env, mark_phan, addLanelet_lids, addLanelet_signs,
          addLanelet_lights, addLanelet_inters] <;> first | exact hx | exact mem_dictSet _ _ _ hx
    · show Keeps s (onMarked (mark s l.id) _).1
      rw [e]; exact km _
  | sign k =>
    rcases onMarked_cases (mark s k) (fun s1 => { s1 with net := s1.net.addSign k refs }) with e | e
    · show Keeps s (onMarked (mark s k) _).1
      rw [e]
      refine ⟨?_, ?_, ?_, ?_, ?_, ?_, ?_, ?_⟩ <;> intro x hx <;>
        simp only [mark_net, mark_stat, mark_dyn, mark_env, mark_phan, addSign_lids, addSign_signs,
          addSign_lights, addSign_inters] <;> first | exact hx | exact mem_dictSet _ _ _ hx
    · show Keeps s (onMarked (mark s k) _).1
      rw [e]; exact km _
  | light k =>
    rcases onMarked_cases (mark s k) (fun s1 => { s1 with net := s1.net.addLight k refs }) with e | e
    · show Keeps s (onMarked (mark s k) _).1
      rw [e]
      refine ⟨?_, ?_, ?_, ?_, ?_, ?_, ?_, ?_⟩ <;> intro x hx <;>
        simp only [mark_net, mark_stat, mark_dyn, mark_env, mark_phan, addLight_lids, addLight_signs,
          addLight_lights, addLight_inters] <;> first | exact hx | exact mem_dictSet _ _ _ hx
    · show Keeps s (onMarked (mark s k) _).1
      rw [e]; exact km _
  | inter i =>
    obtain ⟨a, b, c, d, f⟩ := markMany_same s (interIds i)
    rcases onMarked_cases (markMany s (interIds i)) (fun s1 => { s1 with net := s1.net.addInter i }) with e | e
    · show Keeps s (onMarked (markMany s (interIds i)) _).1
      rw [e]
      refine ⟨?_, ?_, ?_, ?_, ?_, ?_, ?_, ?_⟩ <;> intro x hx <;>
        simp only [a, b, c, d, f, lids, addInter_lanelets, addInter_signs, addInter_lights] <;> try exact hx
      unfold Net.addInter; split
      · exact hx
      · simp [hx]
    · show Keeps s (onMarked (markMany s (interIds i)) _).1
      rw [e]; exact kmm _
  | network n => exact absurd rfl (hnw n)
  | invalid => exact Keeps.refl s
  | obstacleOn r k on => exact absurd rfl (hon r k on)

theorem addObj_keeps (s : St) (o : Obj) (refs : List Nat) (hnw : ∀ n, o ≠ .network n) : Keeps s (addObj s o refs).1 := by
  by_cases hon : ∀ r k on, o ≠ .obstacleOn r k on
  · exact addObj_keeps_aux s o refs hnw hon
  · cases o with
    | obstacleOn r k on => rw [addObstacleOn_fst]; exact addObj_keeps_aux s _ refs (by simp) (by simp)
    | _ => exact absurd (by simp) hon

/-- the id pool after an accepted add: the old ids and the ids of the new object -/
theorem addObj_idSet_aux (s : St) (o : Obj) (refs : List Nat) (hnw : ∀ n, o ≠ .network n)
    (hon : ∀ r k on, o ≠ .obstacleOn r k on) (hf : Fresh s (objIds o)) (x : Nat) :
    x ∈ (addObj s o refs).1.idSet ↔ x ∈ s.idSet ∨ x ∈ objIds o := by
  have single : ∀ (k : Nat) (g : St → St), (∀ t, (g t).idSet = t.idSet) → k ∉ s.idSet →
      (x ∈ (onMarked (mark s k) g).1.idSet ↔ x ∈ s.idSet ∨ x ∈ [k]) := fun k g hg hk => by
    rw [mark_eq]; simp only [hk, if_false, onMarked_none, hg, mark_mem]; simp
  cases o with
  | obstacle r k =>
    exact single k _ (fun t => by cases r <;> rfl) (by simpa [objIds, fresh_single] using hf)
  | lanelet l => exact single l.id _ (fun _ => rfl) (by simpa [objIds, fresh_single] using hf)
  | sign k => exact single k _ (fun _ => rfl) (by simpa [objIds, fresh_single] using hf)
  | light k => exact single k _ (fun _ => rfl) (by simpa [objIds, fresh_single] using hf)
  | inter i =>
    have hf' : Fresh s (interIds i) := hf
    show x ∈ (onMarked (markMany s (interIds i)) _).1.idSet ↔ _
    rw [markMany_fresh s _ hf', onMarked_none]
    simp [objIds]; grind
  | network n => exact absurd rfl (hnw n)
  | invalid => simp [addObj, objIds]
  | obstacleOn r k on => exact absurd rfl (hon r k on)

theorem addObj_idSet (s : St) (o : Obj) (refs : List Nat) (hnw : ∀ n, o ≠ .network n) (hf : Fresh s (objIds o)) (x : Nat) :
    x ∈ (addObj s o refs).1.idSet ↔ x ∈ s.idSet ∨ x ∈ objIds o := by
  by_cases hon : ∀ r k on, o ≠ .obstacleOn r k on
  · exact addObj_idSet_aux s o refs hnw hon hf x
  · cases o with
    | obstacleOn r k on =>
      rw [addObstacleOn_fst]
      exact addObj_idSet_aux s (.obstacle r k) refs (by simp) (by simp) hf x
    | _ => exact absurd (by simp) hon

/-- counting form of the frame: the contained ids afterwards are the contained ids before plus the ids of the new object -/
theorem addObj_cnt (s : St) (o : Obj) (refs : List Nat) (h : Inv s) (hnw : ∀ n, o ≠ .network n)
    (hf : Fresh s (objIds o)) (x : Nat) : cnt (addObj s o refs).1 x = cnt s x + (objIds o).count x := by
  have h' := addObj_inv s o refs h
  have e1 := h.1 x
  have e2 := h'.1 x
  have e3 := addObj_idSet s o refs hnw hf x
  have e4 := List.nodup_iff_count.mp hf.1 x
  have e5 := List.count_pos_iff (a := x) (l := objIds o)
  have e6 := hf.2 x
  grind

/-- accepted add of a whole network: it becomes the network, the obstacles stay, the id pool is the new members' ids
    plus the obstacles' ids -/
theorem addNetwork_frame (s : St) (n : Net) (h : Inv s) (hf : Fresh s (netIds n)) :
    (addNetwork s n).1.net = n ∧ SameObst s (addNetwork s n).1 ∧
      ∀ x, x ∈ (addNetwork s n).1.idSet ↔ x ∈ netIds n ∨ x ∈ obstIds s := by
  unfold addNetwork
  rw [markMany_fresh s _ hf, onMarked_none]
  refine ⟨rfl, ⟨rfl, rfl, rfl, rfl⟩, fun x => ?_⟩
  have e1 := ((inv_iff s).mp h).1.2 x
  have e2 := h.1 x
  have e3 := hf.2 x
  have e4 := List.count_pos_iff (a := x) (l := netIds s.net)
  have e5 := List.count_pos_iff (a := x) (l := obstIds s)
  rw [cnt_split] at e2
  simp only [allIds, List.mem_append] at e1
  simp only [List.mem_filter, List.mem_append, List.mem_reverse, decide_eq_true_eq]
  grind

/-! ### generate_object_id inside a history -/

theorem run_append : ∀ (a b : List Op) (s : St),
    run s (a ++ b) = ((run (run s a).1 b).1, (run s a).2 ++ (run (run s a).1 b).2)
  | [], b, s => by simp [run]
  | op :: a, b, s => by
    simp only [List.cons_append, run]
    rw [run_append a b (step s op).1]

theorem genOuts_append : ∀ (a b : List Out), genOuts (a ++ b) = genOuts a ++ genOuts b
  | [], b => rfl
  | .id n :: a, b => by simp [genOuts, genOuts_append a b]
  | .ok :: a, b => by simp [genOuts, genOuts_append a b]
  | .err _ :: a, b => by simp [genOuts, genOuts_append a b]

theorem run_le : ∀ (ops : List Op) (s : St), Le s (run s ops).1
  | [], s => Le.refl s
  | op :: ops, s => (step_counter s op).1.trans (run_le ops (step s op).1)

/-- every id generated during a history is at most the counter value at its end -/
theorem genOuts_le_cv : ∀ (ops : List Op) (s : St), ∀ m ∈ genOuts (run s ops).2, m ≤ cv (run s ops).1
  | [], _, m, hm => by simp [run, genOuts] at hm
  | op :: ops, s, m, hm => by
    have ih := genOuts_le_cv ops (step s op).1
    have hle := run_le ops (step s op).1
    show m ≤ cv (run (step s op).1 ops).1
    have hm' : m ∈ genOuts ((step s op).2 :: (run (step s op).1 ops).2) := hm
    cases ho : (step s op).2 with
    | ok => rw [ho] at hm'; exact ih m hm'
    | err e => rw [ho] at hm'; exact ih m hm'
    | id k =>
      rw [ho] at hm'
      simp only [genOuts, List.mem_cons] at hm'
      rcases hm' with e | e
      · have := ((step_counter s op).2 k ho).2.1
        subst e; unfold Le at hle; omega
      · exact ih m e

end CR.IdPool
